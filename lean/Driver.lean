/-
  Driver.lean — core-only executable: reads cases on stdin, prints for every input line exactly one output line.
    case <suite> k=v ...      -> "#case"
    <op line>                 -> "<model output>\t<spec output>"     spec: expected value | "-" no opinion | "!msg" violated
    > <real output>           -> (no output) the implementation's answer to the previous op, for trace monitors
    end                       -> "#end"
-/
import CircuitModel.DriverRC
import CircuitModel.DriverTC
import CircuitModel.DriverRP
import CircuitModel.DriverCircuit
import CircuitModel.DriverOpener
import CircuitModel.DriverCloser
import CircuitModel.DriverMerge
import CircuitModel.DriverManager
import CircuitModel.DriverConsumers
import CircuitModel.DriverGoWrap
import CircuitModel.DriverTrace
open CM

def suites : List (String × (List (String × String) → List (String × String) → List String)) :=
  [("rc", suiteRC), ("tc", suiteTC), ("rp", suiteRP), ("sd", suiteSD), ("circuit", suiteCircuit), ("opener", suiteOpener), ("closer", suiteCloser), ("merge", suiteMerge), ("manager", suiteManager), ("consumers", suiteConsumers), ("gowrap", suiteGoWrap), ("tr-rc", suiteTrRC), ("tr-gauge", suiteTrGauge), ("tr-trans", suiteTrTrans), ("tr-tc", suiteTrTC), ("tr-mgr", suiteTrMgr), ("tr-call", suiteTrCall), ("tr-run", suiteTrRun), ("tr-run-gauge", suiteTrRunGauge), ("tr-exec-gauge", suiteTrExecGauge)]

partial def readAll (h : IO.FS.Stream) (acc : Array String) : IO (Array String) := do
  let line ← h.getLine
  if line.isEmpty then return acc
  readAll h (acc.push line.trimAsciiEnd.toString)

def flushCase (out : IO.FS.Stream) (hdr : Option (List String)) (ops : Array (String × String)) : IO Unit := do
  match hdr with
  | none => for _ in ops do out.putStrLn "bad-op\tbad-op"
  | some toks =>
    let suite := toks.headD ""
    let kvs := parseKVs toks.tail
    match suites.find? (·.1 == suite) with
    | none => for _ in ops do out.putStrLn "no-suite\tno-suite"
    | some (_, f) =>
      let res := f kvs ops.toList
      for r in res do out.putStrLn r
      -- keep the streams aligned whatever the suite returned
      for _ in [res.length:ops.size] do out.putStrLn "missing\tmissing"

def main : IO Unit := do
  let stdin ← IO.getStdin
  let out ← IO.getStdout
  let lines ← readAll stdin #[]
  let mut hdr : Option (List String) := none
  let mut ops : Array (String × String) := #[]
  for l in lines do
    if l.startsWith "case " then
      hdr := some ((l.drop 5).toString.splitOn " ")
      ops := #[]
      out.putStrLn "#case"
    else if l == "end" then
      flushCase out hdr ops
      out.putStrLn "#end"
      hdr := none
      ops := #[]
    else if l.startsWith "> " then
      -- the real implementation's answer to the previous op (consumed by trace monitors)
      if ops.size > 0 then
        let last := ops.back!
        ops := ops.pop.push (last.1, (l.drop 2).toString)
    else
      ops := ops.push (l, "")
  out.flush

/- GoTie/T_GoCircuitVar.lean — `(*Circuit).Var()`, as translated TODAY from circuit.go: the call computes nothing (on a nil
   receiver too: the nil test is INSIDE the function); EVALUATING the function value on a nil receiver yields nil and reads
   nothing; on a circuit it reads, in this order and at that moment, `Config()`, `IsOpen()`, `Name()`, the run collection's
   `Var()` evaluated, the two gauges, the closer and opener fields, the fallback collection's `Var()` evaluated — and
   publishes them under the nine keys config, is_open, name, run_metrics, concurrent_commands, concurrent_fallbacks, closer,
   opener, fallback_metrics.  `is_open` is `IsOpen()` (ForceOpen, else not ForcedClosed and the stored flag) AT EVALUATION
   time (C11 diagnostics; C20 "current IsOpen value"; C17 through `Manager.Var`). -/
import CircuitModel.GoVarsPrims
import CircuitProofs.GoTie.Sem
import Generated.GoCircuitVar
namespace CM.GoTie.GoCircuitVar
open CM CM.Go CM.GoVars CM.GoVars.Circ CM.Generated.GoCircuitVar
variable {σo σc : Type}

/-- `c.Var()` computes nothing — nil receiver or not: nothing is read, the result is the function value over the pointer. -/
theorem go_Var_eq (p : CircPtr) (g : GS (CircW σo σc) NoTok) : go_Var p g = (.ok ⟨"Var_lit1", p, []⟩, g) := by
  unfold go_Var fn
  apply sem_goFunc_pure
  rfl

/-- EVALUATING it on a nil receiver: nil, nothing read. -/
theorem go_Var_eval_nil (g : GS (CircW σo σc) NoTok) : go_Var_lit1_eval ⟨"Var_lit1", .nil, []⟩ g = (.ok .nil, g) := by
  show go_Var_lit1 .nil g = _
  unfold go_Var_lit1 fn
  apply sem_goFunc_pure
  rfl

/-- EVALUATING it on a circuit: the nine entries of `circSummary`, each read from the state of THAT moment, in source order
    (`circReads`); nothing else changes. -/
theorem go_Var_eval_eq (g : GS (CircW σo σc) NoTok) :
    go_Var_lit1_eval ⟨"Var_lit1", .obj, []⟩ g
      = (.ok (circSummary g.st), { g with st := { g.st with reads := g.st.reads ++ circReads } }) := by
  show go_Var_lit1 .obj g = _
  unfold go_Var_lit1 fn
  apply sem_goFunc_st
  have hnil : (isNil CircPtr.obj) = false := rfl
  simp only [hnil, Bool.false_eq_true, if_false, sem_bind_step, recv_Config, recv_IsOpen, recv_Name, recv_ConcurrentCommands,
    recv_ConcurrentFallbacks, recv_OpenToClose, recv_ClosedToOpen, recv_CmdMetricCollector_Var, recv_FallbackMetricCollector_Var,
    pkg_expvarToVal, note, sem_updRet, sem_step_ok, sem_pure, circReads, circSummary, List.append_assoc, List.cons_append, List.nil_append]
  rfl

/-- the nine keys, and what stands under `is_open`: `IsOpen()` of the state in which the value is EVALUATED -/
theorem circSummary_keys (w : CircW σo σc) :
    (match circSummary w with | .map kv => kv.map (·.1) | _ => [])
      = ["config", "is_open", "name", "run_metrics", "concurrent_commands", "concurrent_fallbacks", "closer", "opener", "fallback_metrics"] ∧
    (circSummary w).lookup "is_open" = some (.bool (isOpenEff w.c)) ∧
    (circSummary w).lookup "concurrent_commands" = some (.int w.c.conc) ∧
    (circSummary w).lookup "concurrent_fallbacks" = some (.int w.c.concFb) ∧
    (circSummary w).lookup "run_metrics" = some w.runView ∧ (circSummary w).lookup "fallback_metrics" = some w.fbView :=
  ⟨rfl, rfl, rfl, rfl, rfl, rfl⟩

/-- **The handle follows the circuit's history**: taken in `g₀` (closed, say), evaluated after the circuit opened — or was
    forced open, or its gauges moved, or its collectors counted more — it publishes the state of THAT moment. -/
theorem var_follows_history (g₀ : GS (CircW σo σc) NoTok) (w : CircW σo σc) :
    ∀ c, (go_Var .obj g₀).1 = .ok c → (go_Var_lit1_eval c { g₀ with st := w }).1 = .ok (circSummary w) := by
  intro c hc
  rw [go_Var_eq] at hc
  cases Out.ok.inj hc
  rw [go_Var_eval_eq]

/-- … in particular `is_open`: a handle taken while the circuit was closed reads true once the stored flag is set (and no
    ForcedClosed), or once ForceOpen is set -/
theorem is_open_at_evaluation_time (g₀ : GS (CircW σo σc) NoTok) (w : CircW σo σc)
    (h : w.c.cfg.forceOpen = true ∨ (w.c.cfg.forcedClosed = false ∧ w.c.isOpen = true)) :
    ∃ m, (go_Var_lit1_eval ⟨"Var_lit1", .obj, []⟩ { g₀ with st := w }).1 = .ok m ∧ m.lookup "is_open" = some (.bool true) := by
  refine ⟨_, by rw [go_Var_eval_eq], ?_⟩
  have : isOpenEff w.c = true := by
    unfold isOpenEff
    rcases h with h | ⟨h1, h2⟩
    · simp [h]
    · cases hf : w.c.cfg.forceOpen <;> simp [h1, h2]
  show some (EV.bool (isOpenEff w.c)) = _
  rw [this]

/-! ### non-vacuity -/
def cw : CircW Unit Unit := { c := { opener := (), closer := (), conc := 2 }, name := "x", cfgTag := 5, runView := .list [.int 1] }
example : (Go.run (go_Var .obj) cw).1 = .ok ⟨"Var_lit1", .obj, []⟩ ∧ (Go.run (go_Var .obj) cw).2.reads = [] := by decide
example : (Go.run (go_Var_lit1_eval ⟨"Var_lit1", .obj, []⟩) cw).1
    = .ok (.map [("config", .handle "circuit.Config" 5), ("is_open", .bool false), ("name", .str "x"), ("run_metrics", .list [.int 1]),
        ("concurrent_commands", .int 2), ("concurrent_fallbacks", .int 0), ("closer", .handle "closer" 0), ("opener", .handle "opener" 0),
        ("fallback_metrics", .list [])]) := rfl
/-- the same handle after the circuit opened and a fallback started: is_open true, concurrent_fallbacks 1 -/
example : ((Go.run (go_Var_lit1_eval ⟨"Var_lit1", .obj, []⟩) { cw with c := { cw.c with isOpen := true, concFb := 1 } }).1)
    = .ok (.map [("config", .handle "circuit.Config" 5), ("is_open", .bool true), ("name", .str "x"), ("run_metrics", .list [.int 1]),
        ("concurrent_commands", .int 2), ("concurrent_fallbacks", .int 1), ("closer", .handle "closer" 0), ("opener", .handle "opener" 0),
        ("fallback_metrics", .list [])]) := rfl
example : (Go.run (go_Var_lit1_eval ⟨"Var_lit1", .obj, []⟩) cw).2.reads = circReads := by decide
example : (Go.run (go_Var_lit1_eval (σo := Unit) (σc := Unit) ⟨"Var_lit1", .nil, []⟩) cw).1 = .ok .nil := rfl
example : (Go.run (go_Var_lit1_eval (σo := Unit) (σc := Unit) ⟨"Var_lit1", .nil, []⟩) cw).2.reads = [] := by decide
example : (Go.run (go_Var_lit1_eval (σo := Unit) (σc := Unit) ⟨"other", .obj, []⟩) cw).1 = .nilCall := rfl

end CM.GoTie.GoCircuitVar

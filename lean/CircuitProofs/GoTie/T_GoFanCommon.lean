/- GoTie/T_GoFanCommon.lean — the collector fan-outs of metrics.go, as translated TODAY: every method of the three
   collections tells EVERY collector of the list exactly once, in list order, with the arguments it was given. -/
import CircuitProofs.GoTie.Sem
import CircuitModel.GoFanoutPrims
set_option linter.unusedSimpArgs false
namespace CM.GoTie.GoFanout
open CM CM.Go

theorem fold_tell {α : Type} (idOf : α → Nat) (e : Emit) (l : List α) (g : GS (List (Nat × Emit)) NoTok) :
    l.foldl (fun (s : GS (List (Nat × Emit)) NoTok) c => { st := s.st ++ [(idOf c, e)], defers := s.defers }) g
      = { g with st := g.st ++ l.map (fun c => (idOf c, e)) } := by
  induction l generalizing g with
  | nil => simp
  | cons c l ih => simp [ih]

/-- what a fan-out has to do: append one entry per collector, in order -/
def told (ids : List Nat) (e : Emit) : XM Unit := upd fun l => l ++ ids.map fun i => (i, e)

end CM.GoTie.GoFanout

/-
  GoTie/I_RC.lean — K6, the INTERFERENCE tie for C14: the bodies of `RollingBuckets.Advance` and of `RollingCounter`'s
  operations, translated from today's Go source over primitives in which an arbitrary move of the other goroutines
  precedes every sync/atomic operation (CircuitModel/GoRCConcPrims*.lean; Generated/GoRCI{Clear,Adv,Ops}), take EXACTLY
  the steps of the small-step model's thread (Conc/RC.step) run alone against the same oracle (Conc/Solo.solo): same
  shared state afterwards, same oracle left, same sequence of atomic operations with the same observed values — for
  every shared state, every oracle (every behaviour of the other goroutines), every timestamp.  The all-schedule theorems
  of Props/C14 speak about `Conc/RC.step`; these theorems say that today's source is that step function, thread by thread.
-/
import Generated.GoRCIOps
import CircuitModel.Conc.RCSolo
import CircuitProofs.GoTie.I_RC_Lemmas
namespace CM.GoTie.IRC
open CM CM.Go CM.Conc CM.Conc.RC CM.GoRCI CM.Generated.GoRCIOps

/-- run a translated operation on shared state `s` against an oracle -/
def runOp (m : IM α) (s : Shared) (w : Int) (fuel : Nat) (envs : List (Shared → Shared)) : Out α × IS :=
  let r := m { st := { sh := s, w := w, fuel := fuel, envs := envs }, defers := [] }
  (r.1, r.2.st)

/-- NumBuckets is immutable configuration: no goroutine changes it -/
def KeepsN (envs : List (Shared → Shared)) : Prop := ∀ e ∈ envs, ∀ x : Shared, (e x).n = x.n

/-- the translated code and the model's thread did the same thing -/
structure Agrees {α : Type} (r : Out α × IS) (st : SoloSt Shared Local Lab) : Prop where
  fin : view.fin st.loc = true
  sh : st.sh = r.2.sh
  envs : st.envs = r.2.envs
  trace : st.trace = r.2.trace


theorem irc_keeps (envs : List (Shared → Shared)) (h : KeepsN envs) : irc_KeepsN envs := h

/-- the interference state an operation is started in -/
def irc_X0 (s : Shared) (w : Int) (fuel : Nat) (envs : List (Shared → Shared)) : IS :=
  { sh := s, w := w, fuel := fuel, envs := envs }

theorem irc_agrees {α : Type} (r : Out α × IS) (op : Op) (s : Shared) (w : Int) (fuel : Nat)
    (envs : List (Shared → Shared)) (h : irc_Done { prog := [op] } (irc_X0 s w fuel envs) r.2) :
    ∃ k, Agrees r (soloOp k op s envs) := by
  obtain ⟨k, l', hs, hf⟩ := h
  refine ⟨k, ?_⟩
  have : soloOp k op s envs = ⟨r.2.sh, l', r.2.envs, r.2.trace⟩ := hs
  rw [this]
  exact ⟨hf, rfl, rfl, rfl⟩

theorem irc_run_inc (now : Int) (s : Shared) (w : Int) (fuel : Nat) (envs : List (Shared → Shared)) :
    runOp (go_Inc now) s w fuel envs = irc_inc now (irc_X0 s w fuel envs) := by
  simp only [runOp, irc_sem_inc]; rfl
theorem irc_run_sumAt (now : Int) (s : Shared) (w : Int) (fuel : Nat) (envs : List (Shared → Shared)) :
    runOp (go_RollingSumAt now) s w fuel envs = irc_sumAt now (irc_X0 s w fuel envs) := by
  simp only [runOp, irc_sem_sumAt]; rfl
theorem irc_run_getBuckets (now : Int) (s : Shared) (w : Int) (fuel : Nat) (envs : List (Shared → Shared)) :
    runOp (go_GetBuckets now) s w fuel envs = irc_getBuckets now (irc_X0 s w fuel envs) := by
  simp only [runOp, irc_sem_getBuckets]; rfl
theorem irc_run_reset (now : Int) (s : Shared) (w : Int) (fuel : Nat) (envs : List (Shared → Shared)) :
    runOp (go_Reset now) s w fuel envs = irc_reset now (irc_X0 s w fuel envs) := by
  simp only [runOp, irc_sem_reset]; rfl

theorem irc_out_eq {α : Type} (r : Out α × IS) (a : α) (h : r.1 = .ok a) : r = (.ok a, r.2) := by
  rcases r with ⟨o, X⟩; simp only at h; rw [h]

/-- whenever today's `Inc` returns (its bound on Advance's self-calls was enough), the model's thread, given enough
    steps, has finished the same operation with the same effects -/
theorem inc_solo (s : Shared) (w : Int) (fuel : Nat) (envs : List (Shared → Shared)) (now : Int)
    (hw : 0 < w) (hn : 0 < s.n) (henv : KeepsN envs)
    (hok : (runOp (go_Inc now) s w fuel envs).1 = .ok ()) :
    ∃ k, Agrees (runOp (go_Inc now) s w fuel envs) (soloOp k (.inc (reqOf w now)) s envs) := by
  rw [irc_run_inc] at hok ⊢
  exact irc_agrees _ _ s w fuel envs
    (irc_inc_done w now hw _ rfl hn (irc_keeps envs henv) _ (irc_out_eq _ _ hok))

theorem sumAt_solo (s : Shared) (w : Int) (fuel : Nat) (envs : List (Shared → Shared)) (now : Int) (v : Int)
    (hw : 0 < w) (hn : 0 < s.n) (henv : KeepsN envs)
    (hok : (runOp (go_RollingSumAt now) s w fuel envs).1 = .ok v) :
    (∃ k, Agrees (runOp (go_RollingSumAt now) s w fuel envs) (soloOp k (.sumAt (reqOf w now)) s envs))
    ∧ (runOp (go_RollingSumAt now) s w fuel envs).2.trace.getLast? = some (.load .rolling v) := by
  rw [irc_run_sumAt] at hok ⊢
  have h := irc_sumAt_done w now hw _ rfl hn (irc_keeps envs henv) v _ (irc_out_eq _ _ hok)
  exact ⟨irc_agrees _ _ s w fuel envs h.1, h.2⟩

/-- value observed by a load -/
def loadObs : Lab → Option Int
  | .load _ v => some v
  | _ => none

theorem getBuckets_solo (s : Shared) (w : Int) (fuel : Nat) (envs : List (Shared → Shared)) (now : Int) (bs : List Int)
    (hw : 0 < w) (hn : 0 < s.n) (henv : KeepsN envs)
    (hok : (runOp (go_GetBuckets now) s w fuel envs).1 = .ok bs) :
    (∃ k, Agrees (runOp (go_GetBuckets now) s w fuel envs) (soloOp k (.getBuckets (reqOf w now)) s envs))
    ∧ bs = (((runOp (go_GetBuckets now) s w fuel envs).2.trace.reverse.take s.n).reverse.filterMap loadObs) := by
  rw [irc_run_getBuckets] at hok ⊢
  have h := irc_getBuckets_done w now hw _ rfl hn (irc_keeps envs henv) bs _ (irc_out_eq _ _ hok)
  have e : loadObs = irc_loadObs := by funext l; cases l <;> rfl
  rw [e]
  exact ⟨irc_agrees _ _ s w fuel envs h.1, h.2⟩

theorem reset_solo (s : Shared) (w : Int) (fuel : Nat) (envs : List (Shared → Shared)) (now : Int)
    (hw : 0 < w) (hn : 0 < s.n) (henv : KeepsN envs)
    (hok : (runOp (go_Reset now) s w fuel envs).1 = .ok ()) :
    ∃ k, Agrees (runOp (go_Reset now) s w fuel envs) (soloOp k (.reset (reqOf w now)) s envs) := by
  rw [irc_run_reset] at hok ⊢
  exact irc_agrees _ _ s w fuel envs
    (irc_reset_done w now hw _ rfl hn (irc_keeps envs henv) _ (irc_out_eq _ _ hok))

/-- the translated code never panics; the only abnormal outcome is running out of the self-call bound -/
theorem inc_ok_or_fuel (s : Shared) (w : Int) (fuel : Nat) (envs : List (Shared → Shared)) (now : Int) :
    (runOp (go_Inc now) s w fuel envs).1 = .ok () ∨ (runOp (go_Inc now) s w fuel envs).1 = .nilCall := by
  rw [irc_run_inc]
  exact irc_inc_ok_or now _

/-- … and a bound that exceeds what the oracle can do is always enough: every self-call of Advance follows a
    CompareAndSwap, and once the oracle is exhausted at most two more happen -/
theorem inc_enough_fuel (s : Shared) (w : Int) (fuel : Nat) (envs : List (Shared → Shared)) (now : Int)
    (hw : 0 < w) (hn : 0 < s.n) (henv : KeepsN envs) (hf : envs.length + 3 ≤ fuel) :
    (runOp (go_Inc now) s w fuel envs).1 = .ok () := by
  -- (the bound alone is enough: `hw`, `hn`, `henv` are not needed)
  have _ := hw; have _ := hn; have _ := henv
  rw [irc_run_inc]
  exact irc_inc_enough now _ hf

/-! non-vacuity: a concrete oracle under which Advance's CAS fails once and the operation still agrees -/
def s0 : Shared := { n := 3, total := 5, last := 4, buckets := [2, 1, 2], rolling := 5 }
def bump : Shared → Shared := fun s => { s with last := s.last + 1 }
example : (runOp (go_Inc 65) s0 10 50 [id, id, bump, id]).1 = .ok () := by decide +kernel
-- (eleven atomic operations: Add, Load, CAS✗, Load, CAS✓, Swap, Add, CAS✓, Load, Add, Add)
example : (runOp (go_Inc 65) s0 10 50 [id, id, bump, id]).2.trace.length = 11 := by decide +kernel
example : (runOp (go_Inc 65) s0 10 50 [id, id, bump, id]).2.trace.filter (fun l => match l with | .cas _ _ _ false => true | _ => false)
    = [.cas .last 4 5 false] := by decide +kernel
/-- the model's thread against the same oracle: same labels, same shared state, and `inc_solo` applies -/
example : (soloOp 20 (.inc (reqOf 10 65)) s0 [id, id, bump, id]).trace = (runOp (go_Inc 65) s0 10 50 [id, id, bump, id]).2.trace
    ∧ (soloOp 20 (.inc (reqOf 10 65)) s0 [id, id, bump, id]).sh = (runOp (go_Inc 65) s0 10 50 [id, id, bump, id]).2.sh := by
  decide +kernel
example : ∃ k, Agrees (runOp (go_Inc 65) s0 10 50 [id, id, bump, id]) (soloOp k (.inc (reqOf 10 65)) s0 [id, id, bump, id]) :=
  inc_solo s0 10 50 _ 65 (by decide) (by decide) (by intro e he x; simp only [List.mem_cons, List.mem_nil_iff, or_false] at he; rcases he with rfl | rfl | rfl | rfl <;> rfl)
    (by decide +kernel)
/-- the bound matters: one level of `Advance` is not enough when the window has to roll -/
example : (runOp (go_Inc 65) s0 10 1 []).1 = .nilCall := by decide +kernel

end CM.GoTie.IRC


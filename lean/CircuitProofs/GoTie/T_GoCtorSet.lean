/- GoTie/T_GoCtorSet.lean — `Circuit.SetConfigNotThreadSafe` over slices with identity (unit GoCtorSet): what unit GoSetCfg
   proves about the VALUES of the three collector lists, plus where they are stored: three arrays allocated by this call;
   no array that existed before — none of the caller's — is written, whatever spare capacity the caller's slices have. -/
import CircuitModel.GoCtorSlicePrims
import CircuitProofs.GoTie.Sem
import Generated.GoCtorSet
set_option linter.unusedSimpArgs false
namespace CM.GoTie.GoCtorSet
open CM CM.Go CM.GoCtorSet CM.Generated.GoCtorSet

theorem setArr_setArr (hp : Nat → List Obj) (n : Nat) (a b : List Obj) : setArr (setArr hp n a) n b = setArr hp n b := by
  funext i; unfold setArr; split <;> rfl
theorem setArr_self (hp : Nat → List Obj) (n : Nat) (a : List Obj) : setArr hp n a n = a := by simp [setArr]

/-- `append` with room: the cells after the length are overwritten in place (nothing to add: nothing changes) -/
theorem appendCells_room (hp : Nat → List Obj) (nx : Nat) (x : Sl) (els : List Obj) (h : x.len + els.length ≤ x.cap) :
    appendCells hp nx x els =
      (setArr hp x.arr ((hp x.arr).take x.len ++ els ++ (hp x.arr).drop (x.len + els.length)), nx, { x with len := x.len + els.length }) := by
  unfold appendCells
  cases els with
  | nil =>
    simp only [List.isEmpty_nil, if_true, List.length_nil, Nat.add_zero, List.append_nil, List.take_append_drop]
    congr 1
    funext i; unfold setArr; split
    · next hi => rw [hi]
    · rfl
  | cons e es => simp only [List.isEmpty_cons, Bool.false_eq_true, if_false, if_pos h]

/-- the first append into a fresh array of k+2 cells -/
theorem append_first (hp : Nat → List Obj) (n nx k : Nat) (a b : Obj) :
    appendCells (setArr hp n (List.replicate (k + 2) zeroObj)) nx ⟨n, 0, k + 2⟩ [a, b]
      = (setArr hp n ([a, b] ++ List.replicate k zeroObj), nx, ⟨n, 2, k + 2⟩) := by
  rw [appendCells_room _ _ _ _ (by simp)]
  simp only [setArr_self, setArr_setArr, List.take_zero, List.nil_append, List.length_cons, List.length_nil, Nat.zero_add]
  congr 2

/-- the second append (the configured collectors) fills it -/
theorem append_second (hp : Nat → List Obj) (n nx k : Nat) (a b : Obj) (l : List Obj) (hl : l.length = k) :
    appendCells (setArr hp n ([a, b] ++ List.replicate k zeroObj)) nx ⟨n, 2, k + 2⟩ l
      = (setArr hp n ([a, b] ++ l), nx, ⟨n, k + 2, k + 2⟩) := by
  rw [appendCells_room _ _ _ _ (by simp [hl]; omega)]
  simp only [setArr_self, setArr_setArr]
  have h1 : List.take 2 ([a, b] ++ List.replicate k zeroObj) = [a, b] := by simp
  have h2 : List.drop (2 + l.length) ([a, b] ++ List.replicate k zeroObj) = [] := by simp [hl]; omega
  rw [h1, h2, List.append_nil, hl, Nat.add_comm 2 k]

/-- the fallback list: one append into a fresh array of k+2 cells leaves two cells unwritten -/
theorem append_fb (hp : Nat → List Obj) (n nx k : Nat) (l : List Obj) (hl : l.length = k) :
    appendCells (setArr hp n (List.replicate (k + 2) zeroObj)) nx ⟨n, 0, k + 2⟩ l
      = (setArr hp n (l ++ [zeroObj, zeroObj]), nx, ⟨n, k, k + 2⟩) := by
  rw [appendCells_room _ _ _ _ (by simp [hl])]
  simp only [setArr_self, setArr_setArr, List.take_zero, List.nil_append, Nat.zero_add, hl]
  have e : ∀ k, List.replicate (k + 2) zeroObj = List.replicate k zeroObj ++ [zeroObj, zeroObj] := by
    intro k
    induction k with
    | zero => rfl
    | succ k ih => rw [show k + 1 + 2 = (k + 2) + 1 from by omega, List.replicate_succ, ih, List.replicate_succ]; rfl
  rw [e, List.drop_left' List.length_replicate]

/-- a slice that lives in an array older than `n` (or is empty) does not see array `n` change -/
theorem contents_setArr (hp : Nat → List Obj) (n : Nat) (a : List Obj) (x : Sl) (nx : Nat) (hx : x.len = 0 ∨ x.arr < nx) (hn : nx ≤ n) :
    contents (setArr hp n a) x = contents hp x := by
  rcases hx with h0 | hlt
  · simp [contents, h0]
  · have : x.arr ≠ n := by omega
    simp [contents, setArr, this]

/-- what a full-length slice of array `n` holds is what array `n` starts with -/
theorem contents_self (hp : Nat → List Obj) (n k cp : Nat) (a : List Obj) : contents (setArr hp n a) ⟨n, k, cp⟩ = a.take k := by
  simp [contents, setArr]

theorem toNat_len (k : Nat) : ((k : Int) + 2).toNat = k + 2 := by omega

local macro "step " h:term : tactic => `(tactic| (refine (sem_bind_ok _ _ _ _ _ $h).trans ?_; try dsimp only))

/-- `SetConfigNotThreadSafe(config)` at slice level = `SW.rebuildS`: everything unit GoSetCfg's `rebuild` says, the three lists
    stored in three arrays allocated by THIS call, and every array that existed before left exactly as it was. -/
theorem go_SetConfigNotThreadSafe_slices (c : CfgS) (g : GS SW NoTok) (h : c.Abs g.st) :
    go_SetConfigNotThreadSafe c g = (.ok (), { g with st := g.st.rebuildS c }) := by
  rw [go_SetConfigNotThreadSafe, fn]
  refine sem_goFunc_st _ _ _ _ _ ?_
  obtain ⟨⟨hr1, hr2, hr3⟩, ⟨hf1, hf2, hf3⟩, ⟨hc1, hc2, hc3⟩⟩ := h
  rcases g with ⟨⟨w, run, fb, circ, heap, next⟩, ds⟩
  try dsimp only at hr1 hr2 hr3 hf1 hf2 hf3 hc1 hc2 hc3 ⊢
  step (rfl : recv_notThreadSafeConfigMu_Lock _ = (Out.ok _, _))
  step (rfl : recv_notThreadSafeConfig_set c _ = (Out.ok _, _))
  step (rfl : recv_notThreadSafeConfigMu_Unlock _ = (Out.ok _, _))
  step (rfl : recv_goroutineWrapper_lostErrors_set _ _ = (Out.ok _, _))
  step (rfl : recv_timeNow_set _ _ = (Out.ok _, _))
  step (rfl : CfgS.m_General_OpenToClosedFactory c _ = (Out.ok _, _))
  step (rfl : recv_OpenToClose_set _ _ = (Out.ok _, _))
  step (rfl : CfgS.m_General_ClosedToOpenFactory c _ = (Out.ok _, _))
  step (rfl : recv_ClosedToOpen_set _ _ = (Out.ok _, _))
  step (rfl : recv_OpenToClose _ = (Out.ok _, _))
  step (rfl : as_Configurable _ _ = (Out.ok _, _))
  cases hcc : c.b.closerConf <;> cases hoc : c.b.openerConf <;>
  ( try simp only [↓reduceIte, Bool.false_eq_true]
    try step (rfl : Cfgable.m_SetConfigNotThreadSafe _ c _ = (Out.ok _, _))
    step (rfl : recv_ClosedToOpen _ = (Out.ok _, _))
    step (rfl : as_Configurable _ _ = (Out.ok _, _))
    try simp only [↓reduceIte, Bool.false_eq_true]
    try step (rfl : Cfgable.m_SetConfigNotThreadSafe _ c _ = (Out.ok _, _))
    -- the run collectors
    step (rfl : goMakeSlice _ _ = (Out.ok _, _))
    simp only [goLen, toNat_len]
    step (rfl : recv_OpenToClose _ = (Out.ok _, _))
    step (rfl : recv_ClosedToOpen _ = (Out.ok _, _))
    step (rfl : goAppend _ _ _ = (Out.ok _, _))
    simp only [append_first]
    step (rfl : recv_CmdMetricCollector_set _ _ = (Out.ok _, _))
    step (rfl : recv_CmdMetricCollector _ = (Out.ok _, _))
    step (rfl : goAppendSlice _ _ _ = (Out.ok _, _))
    simp only [contents_setArr _ _ _ _ next hr3 (Nat.le_refl _), ← hr1, append_second _ _ _ _ _ _ _ hr2]
    step (rfl : recv_CmdMetricCollector_set _ _ = (Out.ok _, _))
    -- the fallback collectors
    step (rfl : goMakeSlice _ _ = (Out.ok _, _))
    simp only [goLen, toNat_len]
    step (rfl : goAppendSlice _ _ _ = (Out.ok _, _))
    simp only [contents_setArr _ _ _ _ next hf3 (Nat.le_add_right next 1), contents_setArr _ _ _ _ next hf3 (Nat.le_refl _), ← hf1,
      append_fb _ _ _ _ _ hf2]
    step (rfl : recv_FallbackMetricCollector_set _ _ = (Out.ok _, _))
    -- the circuit-level collectors
    step (rfl : goMakeSlice _ _ = (Out.ok _, _))
    simp only [goLen, toNat_len]
    step (rfl : recv_OpenToClose _ = (Out.ok _, _))
    step (rfl : recv_ClosedToOpen _ = (Out.ok _, _))
    step (rfl : goAppend _ _ _ = (Out.ok _, _))
    simp only [append_first]
    step (rfl : recv_CircuitMetricsCollector_set _ _ = (Out.ok _, _))
    step (rfl : recv_CircuitMetricsCollector _ = (Out.ok _, _))
    step (rfl : goAppendSlice _ _ _ = (Out.ok _, _))
    simp only [contents_setArr _ _ _ _ next hc3 (Nat.le_add_right next 2), contents_setArr _ _ _ _ next hc3 (Nat.le_add_right next 1),
      contents_setArr _ _ _ _ next hc3 (Nat.le_refl _), ← hc1, append_second _ _ _ _ _ _ _ hc2]
    step (rfl : recv_CircuitMetricsCollector_set _ _ = (Out.ok _, _))
    step (rfl : recv_SetConfigThreadSafe c _ = (Out.ok _, _))
    refine congrArg (fun s => (Out.ok (), ({ st := s, defers := ds } : GS SW NoTok))) ?_
    have t1 : ∀ (x y : Obj), List.take (c.f_Metrics_Run.len + 2) ([x, y] ++ c.b.f_Metrics_Run) = [x, y] ++ c.b.f_Metrics_Run :=
      fun x y => List.take_of_length_le (by simp [hr2])
    have t2 : List.take c.f_Metrics_Fallback.len (c.b.f_Metrics_Fallback ++ [zeroObj, zeroObj]) = c.b.f_Metrics_Fallback :=
      List.take_left' hf2
    have t3 : ∀ (x y : Obj), List.take (c.f_Metrics_Circuit.len + 2) ([x, y] ++ c.b.f_Metrics_Circuit) = [x, y] ++ c.b.f_Metrics_Circuit :=
      fun x y => List.take_of_length_le (by simp [hc2])
    simp only [contents_self, t1, t2, t3]
    simp [SW.rebuildS, GoSetCfg.BuildW.rebuild, GoSetCfg.BuildW.setLive, GoSetCfg.toldIf, hcc, hoc, CfgS.f_General_GoLostErrors,
      CfgS.f_General_TimeKeeper_Now, Nat.add_assoc] )

/-- the abstraction: the non-slice part is EXACTLY unit GoSetCfg's `rebuild` (so everything proved there carries over) -/
theorem rebuildS_w (s : SW) (c : CfgS) : (s.rebuildS c).w = s.w.rebuild c.b := rfl

/-- FRAME: no backing array that existed before the call is written — whatever capacity the caller's slices have -/
theorem rebuildS_frame (s : SW) (c : CfgS) (i : Nat) (hi : i < s.next) : (s.rebuildS c).heap i = s.heap i := by
  have h0 : i ≠ s.next := by omega
  have h1 : i ≠ s.next + 1 := by omega
  have h2 : i ≠ s.next + 2 := by omega
  simp [SW.rebuildS, setArr, h0, h1, h2]

/-- … so the caller's three slices hold afterwards exactly what they held before -/
theorem rebuildS_caller_keeps (s : SW) (c : CfgS) (h : c.Abs s) :
    contents (s.rebuildS c).heap c.f_Metrics_Run = c.b.f_Metrics_Run ∧
    contents (s.rebuildS c).heap c.f_Metrics_Fallback = c.b.f_Metrics_Fallback ∧
    contents (s.rebuildS c).heap c.f_Metrics_Circuit = c.b.f_Metrics_Circuit := by
  obtain ⟨⟨hr1, _, hr3⟩, ⟨hf1, _, hf3⟩, ⟨hc1, _, hc3⟩⟩ := h
  simp only [SW.rebuildS]
  refine ⟨?_, ?_, ?_⟩
  · rw [contents_setArr _ _ _ _ s.next hr3 (Nat.le_add_right _ 2), contents_setArr _ _ _ _ s.next hr3 (Nat.le_add_right _ 1),
      contents_setArr _ _ _ _ s.next hr3 (Nat.le_refl _), hr1]
  · rw [contents_setArr _ _ _ _ s.next hf3 (Nat.le_add_right _ 2), contents_setArr _ _ _ _ s.next hf3 (Nat.le_add_right _ 1),
      contents_setArr _ _ _ _ s.next hf3 (Nat.le_refl _), hf1]
  · rw [contents_setArr _ _ _ _ s.next hc3 (Nat.le_add_right _ 2), contents_setArr _ _ _ _ s.next hc3 (Nat.le_add_right _ 1),
      contents_setArr _ _ _ _ s.next hc3 (Nat.le_refl _), hc1]

/-- the circuit's three lists live in three DIFFERENT arrays, all allocated by this call (identities ≥ the old `next`): they
    share storage neither with the caller's slices nor with each other -/
theorem rebuildS_fresh (s : SW) (c : CfgS) :
    (s.rebuildS c).run.arr = s.next ∧ (s.rebuildS c).fb.arr = s.next + 1 ∧ (s.rebuildS c).circ.arr = s.next + 2 ∧
    (s.rebuildS c).next = s.next + 3 := ⟨rfl, rfl, rfl, rfl⟩

/-- and they hold what unit GoSetCfg says: closer, opener, then the configured collectors in order -/
theorem rebuildS_lists (s : SW) (c : CfgS) (h : c.Abs s) :
    contents (s.rebuildS c).heap (s.rebuildS c).run = (s.w.rebuild c.b).run ∧
    contents (s.rebuildS c).heap (s.rebuildS c).fb = (s.w.rebuild c.b).fb ∧
    contents (s.rebuildS c).heap (s.rebuildS c).circ = (s.w.rebuild c.b).circ := by
  obtain ⟨⟨_, hr2, _⟩, ⟨_, hf2, _⟩, ⟨_, hc2, _⟩⟩ := h
  refine ⟨?_, ?_, ?_⟩
  · simp [SW.rebuildS, contents, setArr, GoSetCfg.BuildW.rebuild, GoSetCfg.BuildW.setLive, ← hr2]
  · simp [SW.rebuildS, contents, setArr, GoSetCfg.BuildW.rebuild, GoSetCfg.BuildW.setLive, ← hf2]
  · simp [SW.rebuildS, contents, setArr, GoSetCfg.BuildW.rebuild, GoSetCfg.BuildW.setLive, ← hc2]

/-- `config.Merge(defaultCommandProperties)` in `NewCircuitFromConfig`: the defaults carry no collectors, and an `append` of
    nothing returns its first argument without touching any array -/
theorem append_nothing (hp : Nat → List Obj) (nx : Nat) (x : Sl) : appendCells hp nx x [] = (hp, nx, x) := rfl

/-! non-vacuity.  The caller's run slice has 2 elements and capacity 5 (three spare cells), its fallback slice is full. -/
def exB : GoSetCfg.CfgB :=
  { tag := 7, f_General_GoLostErrors := 3, f_General_TimeKeeper_Now := 2, closerConf := true, openerConf := false,
    f_Metrics_Run := [⟨2, 0, false⟩, ⟨2, 1, true⟩], f_Metrics_Fallback := [⟨2, 2, false⟩], f_Metrics_Circuit := [],
    live := { f_General_ForceOpen := false, f_General_ForcedClosed := false, f_General_Disabled := false, f_Execution_Timeout := 5,
              f_Execution_MaxConcurrentRequests := 0, f_Execution_IgnoreInterrupts := false, f_Fallback_Disabled := true,
              f_Fallback_MaxConcurrentRequests := 0 } }
def exS : SW :=
  { heap := fun i => if i = 0 then [⟨2, 0, false⟩, ⟨2, 1, true⟩, zeroObj, zeroObj, zeroObj] else if i = 1 then [⟨2, 2, false⟩] else [], next := 2 }
def exC : CfgS := ⟨exB, ⟨0, 2, 5⟩, ⟨1, 1, 1⟩, {}⟩

/-- the translated body on that state: the caller's arrays #0 and #1 unchanged (spare cells still unwritten), the circuit's
    lists in the new arrays #2, #3, #4 -/
example :
    let s' := (run (go_SetConfigNotThreadSafe exC) exS).2
    (s'.run, s'.fb, s'.circ, s'.next) = (⟨2, 4, 4⟩, ⟨3, 1, 3⟩, ⟨4, 2, 2⟩, 5) ∧
    s'.heap 0 = exS.heap 0 ∧ s'.heap 1 = exS.heap 1 ∧
    s'.heap 2 = [⟨0, 0, true⟩, ⟨1, 1, false⟩, ⟨2, 0, false⟩, ⟨2, 1, true⟩] ∧ s'.heap 3 = [⟨2, 2, false⟩, zeroObj, zeroObj] ∧
    s'.heap 4 = [⟨0, 0, true⟩, ⟨1, 1, false⟩] := by decide

/-- what the frame theorem excludes: an `append` INTO the caller's run slice (room for 3 more) overwrites the caller's array #0
    in place — the model does represent that, so a body doing it would make `go_SetConfigNotThreadSafe_slices` false -/
example :
    (appendCells exS.heap exS.next exC.f_Metrics_Run [⟨0, 0, true⟩]).1 0 = [⟨2, 0, false⟩, ⟨2, 1, true⟩, ⟨0, 0, true⟩, zeroObj, zeroObj] ∧
    (appendCells exS.heap exS.next exC.f_Metrics_Run [⟨0, 0, true⟩]).2 = (2, ⟨0, 3, 5⟩) := by decide

end CM.GoTie.GoCtorSet

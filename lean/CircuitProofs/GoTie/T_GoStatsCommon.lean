/- GoTie/T_GoStatsCommon.lean — evaluation lemmas for the primitives of GoStatsPrims.lean (shared by the four GoStats* ties). -/
import CircuitModel.GoStatsPrims
import CircuitProofs.GoTie.Sem
namespace CM.GoTie.GoStats
open CM CM.Go CM.GoStats

@[simp] theorem sem_rdR {ρ tok α : Type} (f : ρ → α) (g : GS (GoStats.St ρ) tok) : (rdR f : M (GoStats.St ρ) tok α) g = (.ok (f g.st.recv), g) := rfl
@[simp] theorem sem_updR {ρ tok : Type} (f : ρ → ρ) (g : GS (GoStats.St ρ) tok) :
    (updR f : M (GoStats.St ρ) tok Unit) g = (.ok (), { g with st := { g.st with recv := f g.st.recv } }) := rfl
@[simp] theorem sem_updRetR {ρ tok α : Type} (f : ρ → ρ × α) (g : GS (GoStats.St ρ) tok) :
    (updRetR f : M (GoStats.St ρ) tok α) g = (.ok (f g.st.recv).2, { g with st := { g.st with recv := (f g.st.recv).1 } }) := rfl
theorem sem_act {ρ tok α : Type} (f : ρ → World → Out α × ρ × World) (g : GS (GoStats.St ρ) tok) :
    (act f : M (GoStats.St ρ) tok α) g
      = ((f g.st.recv g.st.world).1, { g with st := { g.st with recv := (f g.st.recv g.st.world).2.1, world := (f g.st.recv g.st.world).2.2 } }) := rfl
@[simp] theorem sem_raise {σ tok α : Type} (v : Nat) (g : GS σ tok) : (Go.raise v : M σ tok α) g = (.panic v, g) := rfl
@[simp] theorem sem_nilCall {σ tok α : Type} (g : GS σ tok) : (Go.nilCall : M σ tok α) g = (.nilCall, g) := rfl
@[simp] theorem sem_step_panic {σ tok α β : Type} (v : Nat) (s : GS σ tok) (f : α → M σ tok β) :
    sem_step (.panic v, s) f = (.panic v, s) := rfl
@[simp] theorem sem_step_nilCall {σ tok α β : Type} (s : GS σ tok) (f : α → M σ tok β) :
    sem_step (.nilCall, s) f = (.nilCall, s) := rfl

/-- a body that is left — in whatever way — with exactly one deferred call on top of the caller's: that call runs, then
    the caller continues -/
theorem goFunc_one {σ α : Type} (runTok : String → M σ String Unit) (body : M σ String α) (g : GS σ String)
    (o : Out α) (x y : σ) (t : String)
    (hb : body g = (o, { st := x, defers := t :: g.defers }))
    (ht : ∀ d, runTok t { st := x, defers := d } = (.ok (), { st := y, defers := d })) :
    goFunc runTok body g = (o, { st := y, defers := g.defers }) := by
  rw [sem_goFunc_def, hb]
  have h : ¬ (g.defers.length + 1 ≤ g.defers.length) := by omega
  simp only [List.length_cons, unwind, h, if_false, ht]
  exact congrArg (Prod.mk o) (sem_unwind_le runTok g.defers.length g.defers.length { st := y, defers := g.defers } (Nat.le_refl _))

/-- the same, with the final state left to be computed -/
theorem goFunc_one' {σ α : Type} (runTok : String → M σ String Unit) (body : M σ String α) (g : GS σ String)
    (o : Out α) (x y : σ) (t : String) (rhs : Out α × GS σ String)
    (hb : body g = (o, { st := x, defers := t :: g.defers }))
    (ht : ∀ d, runTok t { st := x, defers := d } = (.ok (), { st := y, defers := d }))
    (hy : (o, ({ st := y, defers := g.defers } : GS σ String)) = rhs) :
    goFunc runTok body g = rhs := by
  rw [← hy]; exact goFunc_one runTok body g o x y t hb ht

/-- a locked body: left in whatever way with exactly the unlock token on top; the unlock runs, the outcome stays -/
theorem goFunc_unlock {ρ α : Type} (runTok : String → M (GoStats.St ρ) String Unit) (f : ρ → ρ)
    (hrt : runTok "recv_mu_Unlock" = updR f) (body : M (GoStats.St ρ) String α) (g : GS (GoStats.St ρ) String)
    (o : Out α) (x : GoStats.St ρ) (rhs : Out α × GS (GoStats.St ρ) String)
    (hb : body g = (o, { st := x, defers := "recv_mu_Unlock" :: g.defers }))
    (hy : (o, ({ st := { x with recv := f x.recv }, defers := g.defers } : GS (GoStats.St ρ) String)) = rhs) :
    goFunc runTok body g = rhs :=
  goFunc_one' runTok body g o x { x with recv := f x.recv } "recv_mu_Unlock" rhs hb (fun d => by rw [hrt]; rfl) hy

/-! ### the constructors, the clocks, the division -/
theorem sem_callNow_none {ρ tok : Type} (g : GS (GoStats.St ρ) tok) : (callNow none : M (GoStats.St ρ) tok Int) g = (.nilCall, g) := rfl
theorem sem_callNow_some {ρ tok : Type} (k : Clk) (g : GS (GoStats.St ρ) tok) :
    (callNow (some k) : M (GoStats.St ρ) tok Int) g
      = (.ok (g.st.world.read k).1, { g with st := { g.st with world := (g.st.world.read k).2 } }) := rfl
theorem sem_newCounter_neg {ρ tok : Type} (w n now : Int) (g : GS (GoStats.St ρ) tok) (h : n < 0) :
    (faststats_NewRollingCounter w n now : M (GoStats.St ρ) tok Ctr) g = (.panic panicMakeSlice, g) := by
  simp only [faststats_NewRollingCounter, h, if_true]
theorem sem_newCounter_ok {ρ tok : Type} (w n now : Int) (g : GS (GoStats.St ρ) tok) (h : ¬ n < 0) :
    (faststats_NewRollingCounter w n now : M (GoStats.St ρ) tok Ctr) g
      = (.ok (Ctr.fresh g.st.world.allocs.length w n now),
         { g with st := { g.st with world := { g.st.world with allocs := g.st.world.allocs ++ [.counter w n now] } } }) := by
  simp only [faststats_NewRollingCounter, h, if_false, Ctr.fresh]
theorem sem_newPct_bad {ρ tok : Type} (w n sz now : Int) (g : GS (GoStats.St ρ) tok) (h : n < 0 ∨ (0 < n ∧ sz < 0)) :
    (faststats_NewRollingPercentile w n sz now : M (GoStats.St ρ) tok Pct) g = (.panic panicMakeSlice, g) := by
  simp only [faststats_NewRollingPercentile, h, if_true]
theorem sem_newPct_ok {ρ tok : Type} (w n sz now : Int) (g : GS (GoStats.St ρ) tok) (h : ¬ (n < 0 ∨ (0 < n ∧ sz < 0))) :
    (faststats_NewRollingPercentile w n sz now : M (GoStats.St ρ) tok Pct) g
      = (.ok (Pct.fresh g.st.world.allocs.length w n sz now),
         { g with st := { g.st with world := { g.st.world with allocs := g.st.world.allocs ++ [.percentile w n sz now] } } }) := by
  simp only [faststats_NewRollingPercentile, h, if_false, Pct.fresh]
theorem goDiv_int (a b : Int) : goDiv a b = bucketWidth a b := rfl
theorem sem_timeDuration_none {σ tok : Type} (g : GS σ tok) : (time_Duration none : M σ tok Int) g = (.panic panicDivZero, g) := rfl
theorem sem_timeDuration_some {σ tok : Type} (v : Int) (g : GS σ tok) : (time_Duration (some v) : M σ tok Int) g = (.ok v, g) := rfl
theorem bucketWidth_zero (d : Int) : bucketWidth d 0 = none := rfl
theorem bucketWidth_ne (d n : Int) (h : n ≠ 0) : bucketWidth d n = some (wrap64 (tdiv d n)) := by
  simp only [bucketWidth, h, if_false]

theorem ofInt_zero : F64.ofInt 0 = 0 := by
  unfold F64.ofInt F64.rne; simp

end CM.GoTie.GoStats

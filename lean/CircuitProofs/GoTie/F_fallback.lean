/- GoTie/F_fallback.lean — `fallback` computes the model's `fallbackStep`
   The generated function is today's translation of circuit.go; callee behaviour enters as HYPOTHESES (the callees'
   own ties are proved in their own modules and put together in GoTie/All.lean), so this module depends on the body of
   `fallback` only. -/
import CircuitModel.GoCircuitSpec
import CircuitProofs.GoTie.Basic
import CircuitProofs.GoTie.Big
import Generated.GoCircuit.F_fallback
namespace CM.GoTie
open CM CM.Go CM.GoCircuit CM.Generated.GoCircuit
variable {σo σc : Type} [L : Logic σo σc]

local macro "fb_simp" "[" ts:Lean.Parser.Tactic.simpLemma,* "]" : tactic =>
  `(tactic| simp [spec_now, bind, pure, goOr, isNil, fallbackStep, resOf, recv_threadSafeConfig_Fallback_Disabled_Get,
      readCfg, Go.get, recv_concurrentFallbacks_Add, onSt, Go.modify, deferPrim, Go.pushDefer,
      recv_threadSafeConfig_Fallback_MaxConcurrentRequests_Get, recv_FallbackMetricCollector_ErrConcurrencyLimitReject,
      recv_FallbackMetricCollector_ErrFailure, recv_FallbackMetricCollector_Success, onS, now, emitFb, Call2.call,
      Go.set, Go.raise, lit_circuitError_concurrencyLimitReached_true, gtb_unwind_le, gtb_unwind_one, gtb_runTok_fbDec,
      GoTime.val, GoTime.m_Sub, actValue, GoNil.nil, cancelBy, callerErrAfterRun, $ts,*])

theorem go_fallback_ok (hN : go_now (σo := σo) (σc := σc) = spec_now) : FallbackSpec σo σc go_fallback := by
  intro g e fb runSc hce
  rcases g with ⟨⟨⟨c, obs⟩, caller, callerErr, stuck⟩, defers⟩
  simp only at hce
  subst hce
  cases fb with
  | none => simp only [go_fallback, fn, goFunc, hN]; fb_simp []
  | some sc =>
    simp only [go_fallback, fn, goFunc, hN]
    by_cases hd : c.cfg.fbDisabled = true
    · fb_simp [hd]
    · by_cases hlim : 0 ≤ c.cfg.fbMaxConc ∧ c.cfg.fbMaxConc < c.concFb + 1
      · fb_simp [hd, hlim]
      · cases hact : sc.act with
        | panic v => fb_simp [hd, hlim, hact]
        | ret r => cases r <;> fb_simp [hd, hlim, hact]
        | retCtxErr =>
          rcases runSc with _ | r
          · cases hce : caller.err <;> cases hcc : sc.cancelCaller <;> fb_simp [hd, hlim, hact, hce, hcc]
          · cases hrs : obs.runSeen
            · cases hce : caller.err <;> cases hcc : sc.cancelCaller <;> fb_simp [hd, hlim, hact, hce, hcc, hrs]
            · cases hce : ctxErrAfter caller r <;> cases hcc : sc.cancelCaller <;>
                fb_simp [hd, hlim, hact, hce, hcc, hrs]

end CM.GoTie

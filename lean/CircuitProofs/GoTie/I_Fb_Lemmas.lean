/-
  GoTie/I_Fb_Lemmas.lean — infrastructure for the interference tie I_Fb: evaluation of the Go-semantics monad over the
  interference primitives of the fallback's bulkhead (GoFbConcPrims) and of `solo` over Conc/Gauge, both with the
  oracle's move kept behind `ifb_after` (so that symbolic execution does not nest projections of `popEnv`).
-/
import Generated.GoFbI
import CircuitModel.Conc.GaugeSolo
namespace CM.GoTie.IFb
open CM CM.Go CM.Conc CM.Conc.Gauge CM.GoFbI CM.Generated.GoFbI

/-- continue with what the oracle's move leaves -/
def ifb_after {β : Type} (p : Shared × List (Shared → Shared)) (F : Shared → List (Shared → Shared) → β) : β := F p.1 p.2
theorem ifb_after_mk {β : Type} (s : Shared) (e : List (Shared → Shared)) (F : Shared → List (Shared → Shared) → β) :
    ifb_after (s, e) F = F s e := rfl

/-! ### the Go side -/
section Go
variable {σ tok α β : Type}

def ifb_bindK (r : Out α × GS σ tok) (f : α → M σ tok β) : Out β × GS σ tok :=
  match r with
  | (.ok a, s') => f a s'
  | (.panic v, s') => (.panic v, s')
  | (.nilCall, s') => (.nilCall, s')

theorem ifb_bind_apply (m : FM α) (f : α → FM β) (g : GS FS String) : (m >>= f) g = ifb_bindK (m g) f := rfl
theorem ifb_bindK_ok (a : α) (s : GS FS String) (f : α → FM β) : ifb_bindK (.ok a, s) f = f a s := rfl
theorem ifb_bindK_panic (v : Nat) (s : GS FS String) (f : α → FM β) : ifb_bindK ((.panic v : Out α), s) f = (.panic v, s) := rfl
theorem ifb_bindK_nilCall (s : GS FS String) (f : α → FM β) : ifb_bindK ((.nilCall : Out α), s) f = (.nilCall, s) := rfl
theorem ifb_bindK_ite (c : Prop) [Decidable c] (x y : Out α × GS FS String) (f : α → FM β) :
    ifb_bindK (if c then x else y) f = if c then ifb_bindK x f else ifb_bindK y f := by
  split <;> rfl
theorem ifb_bindK_after (p : Shared × List (Shared → Shared)) (F : Shared → List (Shared → Shared) → Out α × GS FS String) (f : α → FM β) :
    ifb_bindK (ifb_after p F) f = ifb_after p fun s e => ifb_bindK (F s e) f := rfl
theorem ifb_ite_apply (c : Prop) [Decidable c] (m₁ m₂ : FM α) (g : GS FS String) :
    (if c then m₁ else m₂) g = if c then m₁ g else m₂ g := by
  split <;> rfl
theorem ifb_pure_apply (a : α) (g : GS FS String) : (pure a : FM α) g = (.ok a, g) := rfl

/-- what `goFunc` does with the outcome of the body -/
def ifb_wrap (h : Nat) (r : Out α × GS FS String) : Out α × GS FS String :=
  (r.1, unwind runTok h r.2.defers.length r.2)
theorem ifb_fn_apply (body : FM α) (g : GS FS String) : fn body g = ifb_wrap g.defers.length (body g) := rfl
theorem ifb_wrap_ite (c : Prop) [Decidable c] (h : Nat) (x y : Out α × GS FS String) :
    ifb_wrap h (if c then x else y) = if c then ifb_wrap h x else ifb_wrap h y := by
  split <;> rfl
theorem ifb_wrap_after (h : Nat) (p : Shared × List (Shared → Shared)) (F : Shared → List (Shared → Shared) → Out α × GS FS String) :
    ifb_wrap h (ifb_after p F) = ifb_after p fun s e => ifb_wrap h (F s e) := rfl
theorem ifb_wrap_keep (o : Out α) (cs : FS) (d : List String) : ifb_wrap d.length (o, ⟨cs, d⟩) = (o, ⟨cs, d⟩) := by
  show (o, unwind runTok d.length d.length ⟨cs, d⟩) = _
  cases hd : d.length with
  | zero => rfl
  | succ n => simp [unwind, hd]
theorem ifb_wrap_keep_nil (o : Out α) (cs : FS) : ifb_wrap 0 (o, ⟨cs, []⟩) = (o, ⟨cs, []⟩) := ifb_wrap_keep o cs []

/-- the second component after the deferred decrement -/
def ifb_snd {γ : Type} (o : Out α) (r : Out γ × GS FS String) : Out α × GS FS String := (o, r.2)
theorem ifb_snd_mk {γ : Type} (o : Out α) (o' : Out γ) (g : GS FS String) : ifb_snd o (o', g) = (o, g) := rfl
theorem ifb_snd_after {γ : Type} (o : Out α) (p : Shared × List (Shared → Shared)) (F : Shared → List (Shared → Shared) → Out γ × GS FS String) :
    ifb_snd o (ifb_after p F) = ifb_after p fun s e => ifb_snd o (F s e) := rfl

/-! primitives on a state in constructor form -/
theorem ifb_Add_one_apply (s : Shared) (tid : Nat) (sc : Script) (obs : Int) (envs : List (Shared → Shared))
    (tr : List Lab) (x : Bool) (d : List String) :
    recv_concurrentFallbacks_Add 1 ⟨⟨s, tid, sc, obs, envs, tr, x⟩, d⟩ =
      ifb_after (popEnv envs s) fun s1 e1 =>
        (.ok (s1.gauge + 1),
          ⟨⟨⟨s1.gauge + 1, s1.limit, s1.region ++ [⟨tid, s1.gauge + 1, false⟩]⟩, tid, sc, s1.gauge + 1, e1,
            tr ++ [.addGauge 1 (s1.gauge + 1)], x⟩, d⟩) := rfl
theorem ifb_Add_neg_apply (s : Shared) (tid : Nat) (sc : Script) (obs : Int) (envs : List (Shared → Shared))
    (tr : List Lab) (x : Bool) (d : List String) :
    recv_concurrentFallbacks_Add (-1) ⟨⟨s, tid, sc, obs, envs, tr, x⟩, d⟩ =
      ifb_after (popEnv envs s) fun s1 e1 =>
        (.ok (s1.gauge - 1),
          ⟨⟨⟨s1.gauge - 1, s1.limit, s1.region.filter (·.tid ≠ tid)⟩, tid, sc, obs, e1,
            tr ++ [.addGauge (-1) (s1.gauge - 1)], x⟩, d⟩) := rfl
theorem ifb_Get_apply (s : Shared) (tid : Nat) (sc : Script) (obs : Int) (envs : List (Shared → Shared))
    (tr : List Lab) (x : Bool) (d : List String) :
    recv_threadSafeConfig_Fallback_MaxConcurrentRequests_Get ⟨⟨s, tid, sc, obs, envs, tr, x⟩, d⟩ =
      ifb_after (popEnv envs s) fun s1 e1 =>
        (.ok s1.limit,
          ⟨⟨if s1.limit ≥ 0 ∧ obs > s1.limit then s1
             else ⟨s1.gauge, s1.limit, s1.region.map fun e => if e.tid = tid then { e with running := true } else e⟩,
            tid, sc, obs, e1, tr ++ [.loadLimit s1.limit], x⟩, d⟩) := by
  simp only [recv_threadSafeConfig_Fallback_MaxConcurrentRequests_Get, ifb_after]
  by_cases h : (popEnv envs s).1.limit ≥ 0 ∧ obs > (popEnv envs s).1.limit
  · simp only [h, and_self, decide_true, Bool.not_true, Bool.false_eq_true, if_false, if_true]
  · simp only [h, decide_false, Bool.not_false, if_true, if_false]
theorem ifb_call_apply (f : FbFn) (c : Ctx) (er : Err) (s : Shared) (tid : Nat) (sc : Script) (obs : Int) (envs : List (Shared → Shared))
    (tr : List Lab) (x : Bool) (d : List String) :
    (Call2.call f c er : FM Err) ⟨⟨s, tid, sc, obs, envs, tr, x⟩, d⟩ =
      ifb_after (popEnv envs s) fun s1 e1 =>
        if sc.panics = true then (.panic 1, ⟨⟨s1, tid, sc, obs, e1, tr ++ [.invoke], x⟩, d⟩)
        else (.ok (if sc.fails = true then fbErr else none), ⟨⟨s1, tid, sc, obs, e1, tr ++ [.invoke], x⟩, d⟩) := rfl
theorem ifb_Disabled_apply (s : Shared) (tid : Nat) (sc : Script) (obs : Int) (envs : List (Shared → Shared))
    (tr : List Lab) (x : Bool) (d : List String) :
    recv_threadSafeConfig_Fallback_Disabled_Get ⟨⟨s, tid, sc, obs, envs, tr, x⟩, d⟩ =
      (.ok sc.disabled, ⟨⟨s, tid, sc, obs, envs, tr, x⟩, d⟩) := rfl
theorem ifb_deferPrim_apply (c : String) (cs : FS) (d : List String) : deferPrim c ⟨cs, d⟩ = (.ok (), ⟨cs, c :: d⟩) := rfl
theorem ifb_Reject_apply (c : Ctx) (t : GoTime) (g : GS FS String) :
    recv_FallbackMetricCollector_ErrConcurrencyLimitReject c t g = (.ok (), g) := rfl
theorem ifb_ErrFailure_apply (c : Ctx) (t : GoTime) (du : Dur) (g : GS FS String) :
    recv_FallbackMetricCollector_ErrFailure c t du g = (.ok (), g) := rfl
theorem ifb_Success_apply (c : Ctx) (t : GoTime) (du : Dur) (g : GS FS String) :
    recv_FallbackMetricCollector_Success c t du g = (.ok (), g) := rfl
theorem ifb_Sub_apply (t u : Int) (g : GS FS String) : (Int.m_Sub t u : FM Int) g = (.ok (t - u), g) := rfl
theorem ifb_now_apply (cs : FS) (d : List String) : go_now ⟨cs, d⟩ = (.ok 1, ⟨cs, d⟩) := by
  show ifb_wrap d.length ((.ok 1 : Out GoTime), (⟨cs, d⟩ : GS FS String)) = _
  exact ifb_wrap_keep _ _ _
theorem ifb_isNil_fn (f : FbFn) : isNil f = false := rfl
theorem ifb_isNil_none : isNil (none : Err) = true := rfl
theorem ifb_isNil_fbErr : isNil fbErr = false := rfl
theorem ifb_nil_err : (GoNil.nil : Err) = none := rfl

theorem ifb_runTok_dec : runTok "recv_concurrentFallbacks_Add (-1)" = (do let _ ← recv_concurrentFallbacks_Add (-1); pure ()) := rfl

/-- the deferred decrement runs on every exit -/
theorem ifb_wrap_dec (o : Out α) (cs : FS) (d : List String) :
    ifb_wrap d.length (o, ⟨cs, "recv_concurrentFallbacks_Add (-1)" :: d⟩) = ifb_snd o (recv_concurrentFallbacks_Add (-1) ⟨cs, d⟩) := by
  show (o, unwind runTok d.length (d.length + 1) ⟨cs, "recv_concurrentFallbacks_Add (-1)" :: d⟩) = _
  have h : ¬ (d.length + 1 ≤ d.length) := by omega
  simp only [unwind, List.length_cons, h, if_false]
  rw [ifb_runTok_dec]
  obtain ⟨s, tid, sc, obs, envs, tr, x⟩ := cs
  rw [ifb_bind_apply, ifb_Add_neg_apply]
  simp only [ifb_after, ifb_bindK_ok, ifb_pure_apply, ifb_snd]
  exact congrArg (Prod.mk o) (congrArg Prod.snd (ifb_wrap_keep (α := Unit) (.ok ()) _ d))
theorem ifb_wrap_dec_nil (o : Out α) (cs : FS) :
    ifb_wrap 0 (o, ⟨cs, ["recv_concurrentFallbacks_Add (-1)"]⟩) = ifb_snd o (recv_concurrentFallbacks_Add (-1) ⟨cs, []⟩) :=
  ifb_wrap_dec o cs []

end Go

/-! ### the model side -/
abbrev ifb_St := SoloSt Shared Local Lab

section model
variable (tid k : Nat) (s : Shared) (envs : List (Shared → Shared)) (tr : List Lab)

theorem ifb_m_finished (b : Bool) :
    solo sys view tid k (⟨s, .finished b, envs, tr⟩ : ifb_St) = ⟨s, .finished b, envs, tr⟩ := by
  cases k with
  | zero => rfl
  | succ k => simp [solo, view]

theorem ifb_m_idle :
    solo sys view tid (k + 1) (⟨s, .idle, envs, tr⟩ : ifb_St) =
      ifb_after (popEnv envs s) fun s1 e1 =>
        solo sys view tid k ⟨⟨s1.gauge + 1, s1.limit, s1.region ++ [⟨tid, s1.gauge + 1, false⟩]⟩, .incd (s1.gauge + 1), e1,
          tr ++ [.addGauge 1 (s1.gauge + 1)]⟩ := by
  rw [solo]; rfl

theorem ifb_m_incd (obs : Int) :
    solo sys view tid (k + 1) (⟨s, .incd obs, envs, tr⟩ : ifb_St) =
      ifb_after (popEnv envs s) fun s1 e1 =>
        if s1.limit ≥ 0 ∧ obs > s1.limit then solo sys view tid k ⟨s1, .rejecting, e1, tr ++ [.loadLimit s1.limit]⟩
        else solo sys view tid k
          ⟨⟨s1.gauge, s1.limit, s1.region.map fun e => if e.tid = tid then { e with running := true } else e⟩, .running, e1,
            tr ++ [.loadLimit s1.limit]⟩ := by
  rw [solo]
  simp only [ifb_after]
  by_cases h : (popEnv envs s).1.limit ≥ 0 ∧ obs > (popEnv envs s).1.limit
  · simp only [view, sys, step, label, h, and_self, Bool.false_eq_true, if_false, if_true]
  · simp only [view, sys, step, label, h, Bool.false_eq_true, if_false]

theorem ifb_m_running :
    solo sys view tid (k + 1) (⟨s, .running, envs, tr⟩ : ifb_St) =
      ifb_after (popEnv envs s) fun s1 e1 => solo sys view tid k ⟨s1, .leaving, e1, tr ++ [.invoke]⟩ := by
  rw [solo]; rfl

theorem ifb_m_rejecting :
    solo sys view tid (k + 1) (⟨s, .rejecting, envs, tr⟩ : ifb_St) =
      ifb_after (popEnv envs s) fun s1 e1 =>
        ⟨⟨s1.gauge - 1, s1.limit, s1.region.filter (·.tid ≠ tid)⟩, .finished false, e1, tr ++ [.addGauge (-1) (s1.gauge - 1)]⟩ := by
  rw [solo]
  exact ifb_m_finished _ _ _ _ _ _

theorem ifb_m_leaving :
    solo sys view tid (k + 1) (⟨s, .leaving, envs, tr⟩ : ifb_St) =
      ifb_after (popEnv envs s) fun s1 e1 =>
        ⟨⟨s1.gauge - 1, s1.limit, s1.region.filter (·.tid ≠ tid)⟩, .finished true, e1, tr ++ [.addGauge (-1) (s1.gauge - 1)]⟩ := by
  rw [solo]
  exact ifb_m_finished _ _ _ _ _ _

end model

/-! ### agreement of the two sides, along the two trees -/
structure ifb_Ag {α : Type} (r : Out α × GS FS String) (st : SoloSt Shared Local Lab) (fin : Out α → Local → Prop) : Prop where
  sh : st.sh = r.2.st.sh
  envs : st.envs = r.2.st.envs
  trace : st.trace = r.2.st.trace
  loc : fin r.1 st.loc
  notStuck : r.2.st.stuck = false

theorem ifb_Ag_after {α : Type} (p : Shared × List (Shared → Shared)) (F : Shared → List (Shared → Shared) → Out α × GS FS String)
    (G : Shared → List (Shared → Shared) → SoloSt Shared Local Lab) (fin : Out α → Local → Prop)
    (h : ∀ s e, ifb_Ag (F s e) (G s e) fin) : ifb_Ag (ifb_after p F) (ifb_after p G) fin := h _ _
theorem ifb_Ag_ite {α : Type} (c : Prop) [Decidable c] (a b : Out α × GS FS String) (a' b' : SoloSt Shared Local Lab)
    (fin : Out α → Local → Prop) (h₁ : c → ifb_Ag a a' fin) (h₂ : ¬ c → ifb_Ag b b' fin) :
    ifb_Ag (if c then a else b) (if c then a' else b') fin := by
  split
  · exact h₁ ‹_›
  · exact h₂ ‹_›

/-- a property of the outcome of the Go side, along its tree -/
theorem ifb_P_after {γ : Type} (P : γ → Prop) (p : Shared × List (Shared → Shared)) (F : Shared → List (Shared → Shared) → γ)
    (h : ∀ s e, P (F s e)) : P (ifb_after p F) := h _ _
theorem ifb_P_ite {γ : Type} (P : γ → Prop) (c : Prop) [Decidable c] (a b : γ) (h₁ : c → P a) (h₂ : ¬ c → P b) :
    P (if c then a else b) := by
  split
  · exact h₁ ‹_›
  · exact h₂ ‹_›

/-- the admission test of the Go code is the one the load's ghost mark was set by -/
theorem ifb_test (lim cur : Int) : ((decide (lim ≥ 0) && decide (cur > lim)) = true) = (lim ≥ 0 ∧ cur > lim) := by
  simp only [Bool.and_eq_true, decide_eq_true_eq]

end CM.GoTie.IFb

/- GoTie/F_throttleConcurrentCommands.lean — the limit is read once; negative = unlimited; the caller counts itself
   The generated function is today's translation of circuit.go; callee behaviour enters as HYPOTHESES (the callees'
   own ties are proved in their own modules and put together in GoTie/All.lean), so this module depends on the body of
   `throttleConcurrentCommands` only. -/
import CircuitModel.GoCircuitSpec
import CircuitProofs.GoTie.Basic
import Generated.GoCircuit.F_throttleConcurrentCommands
namespace CM.GoTie
open CM CM.Go CM.GoCircuit CM.Generated.GoCircuit
variable {σo σc : Type} [L : Logic σo σc]

theorem go_throttleConcurrentCommands_eq (n : Int) : go_throttleConcurrentCommands (σo := σo) (σc := σc) n = spec_throttleConcurrentCommands n := by
  funext g
  simp only [go_throttleConcurrentCommands, spec_throttleConcurrentCommands]
  rw [gt_fn_keep] <;> gt_eval
  all_goals (repeat' split) <;> simp_all [pkg_errThrottledConcurrentCommands]

end CM.GoTie

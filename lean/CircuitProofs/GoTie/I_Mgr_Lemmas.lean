/-
  GoTie/I_Mgr_Lemmas.lean — helpers of the manager's interference tie (I_Mgr.lean): `liftG` is a monad morphism (so the
  loop lemmas of the SEQUENTIAL tie T_GoManager apply to the lifted loops), the deferred unlock as one step, the ghost
  log under the oracle, and the model's thread in closed form.
-/
import Generated.GoMgrI
import Generated.GoMgrIAll
import CircuitModel.Conc.MgrSolo
import CircuitProofs.GoTie.Sem
import CircuitProofs.GoTie.T_GoManager
set_option linter.unusedSimpArgs false
namespace CM.GoTie.IMgr
open CM CM.Go CM.Conc CM.Conc.Mgr CM.GoMgrI CM.Mgr

/-! ### `liftG`: a sequential action run on the registry -/

theorem imgr_put_proj (g : GS MS String) : put g (proj g) = g := rfl
theorem imgr_proj_put (g : GS MS String) (x : GS GoManager.MW String) : proj (put g x) = x := rfl
theorem imgr_put_put (g : GS MS String) (x y : GS GoManager.MW String) : put (put g x) y = put g y := rfl

/-- what a lifted action does, from what the sequential action does -/
theorem imgr_lift_apply {α : Type} (m : GoManager.GMM α) (g : GS MS String) (o : Go.Out α) (x : GS GoManager.MW String)
    (h : m (proj g) = (o, x)) : liftG m g = (o, put g x) := by
  show ((m (proj g)).1, put g (m (proj g)).2) = _
  rw [h]

theorem imgr_lift_rd {α : Type} (f : GoManager.MW → α) (g : GS MS String) :
    liftG (rd f) g = (.ok (f ⟨g.st.sh.st, g.st.stuck⟩), g) := rfl

theorem imgr_lift_pure {α : Type} (a : α) : liftG (pure a : GoManager.GMM α) = pure a := rfl

theorem imgr_lift_bind {α β : Type} (m : GoManager.GMM α) (f : α → GoManager.GMM β) :
    liftG (m >>= f) = liftG m >>= fun a => liftG (f a) := by
  funext g
  show (((m >>= f) (proj g)).1, put g ((m >>= f) (proj g)).2) = (liftG m >>= fun a => liftG (f a)) g
  rw [sem_bind_step, sem_bind_step]
  show _ = sem_step ((m (proj g)).1, put g (m (proj g)).2) _
  rcases h : m (proj g) with ⟨o, x⟩
  cases o <;> rfl

/-- a lifted loop is the loop of the lifted bodies -/
theorem imgr_lift_forIn {α β : Type} (l : List α) (b : β) (f : α → β → GoManager.GMM (ForInStep β)) :
    liftG (forIn l b f) = forIn l b (fun c s => liftG (f c s)) := by
  induction l generalizing b with
  | nil => rfl
  | cons c l ih =>
    rw [List.forIn_cons, List.forIn_cons, imgr_lift_bind]
    congr 1
    funext r
    cases r with
    | done x => rfl
    | yield x => exact ih x

/-- the first loop of `CreateCircuit` (explicit configs, in argument order), under the lift -/
theorem imgr_loop1 (configs : List Layer) (a : LayI) (g : GS MS String) :
    forIn (configs.map fun l => ((l, none) : LayI)) a
        (fun c s => (do let x ← LayI.m_Merge s c; pure (ForInStep.yield x) : MM (ForInStep LayI))) g
      = (.ok (configs.foldl merge a.1, a.2), g) := by
  have hf : (fun (c s : LayI) => (do let x ← LayI.m_Merge s c; pure (ForInStep.yield x) : MM (ForInStep LayI)))
      = fun c s => liftG (do let x ← Prod.m_Merge s c; pure (ForInStep.yield x)) := by
    funext c s
    exact (imgr_lift_bind (Prod.m_Merge s c) (fun x => pure (ForInStep.yield x))).symm
  rw [hf, ← imgr_lift_forIn]
  exact imgr_lift_apply _ _ _ _ (GoManager.loop1 _ rfl configs a (proj g))

/-- the second loop (default constructors, last to first; a constructor may re-bind the name), under the lift -/
theorem imgr_loop2 (name : String) (a : LayI) (sh : Shared) (tid : Nat) (envs : List (Shared → Shared)) (tr : List Lab) (b x : Bool)
    (d : List String) (n : Int) (hn : n = goLen sh.st.ctors) :
    forIn (goCountdown n) a
        (fun i s => (do
          let x ← recv_DefaultCircuitProperties_call i name
          let y ← LayI.m_Merge s x
          pure (ForInStep.yield y) : MM (ForInStep LayI))) ⟨⟨sh, tid, envs, tr, b, x⟩, d⟩
      = (.ok ((runCtors name sh.st.ctors (a.1, sh.st, a.2)).1, (runCtors name sh.st.ctors (a.1, sh.st, a.2)).2.2),
         ⟨⟨{ sh with st := (runCtors name sh.st.ctors (a.1, sh.st, a.2)).2.1 }, tid, envs, tr, b, x⟩, d⟩) := by
  subst hn
  have hf : (fun (i : Int) (s : LayI) => (do
          let x ← recv_DefaultCircuitProperties_call i name
          let y ← LayI.m_Merge s x
          pure (ForInStep.yield y) : MM (ForInStep LayI)))
      = fun i s => liftG (do
          let x ← GoManager.recv_DefaultCircuitProperties_call i name
          let y ← Prod.m_Merge s x
          pure (ForInStep.yield y)) := by
    funext i s
    refine ((imgr_lift_bind _ _).trans ?_).symm
    congr 1
  rw [hf, ← imgr_lift_forIn]
  exact imgr_lift_apply _ _ _ _ (GoManager.loop2_full name _ rfl a (proj ⟨⟨sh, tid, envs, tr, b, x⟩, d⟩))

theorem imgr_if_set_noop {α : Type} (c : Prop) [Decidable c] (m : MapH) (k : Unit → MM α) :
    (if c then (do let x ← recv_circuitMap_set m; k x) else k ()) = k () := by split <;> rfl

/-! ### the lock operations and the deferred release -/

theorem imgr_runTok_Unlock : runTok "recv_mu_Unlock" = fun g => if g.st.blocked then (.ok (), g) else recv_mu_Unlock g := rfl
theorem imgr_runTok_RUnlock : runTok "recv_mu_RUnlock" = fun g => if g.st.blocked then (.ok (), g) else recv_mu_RUnlock g := rfl

/-- one deferred call that leaves the defer stack alone -/
theorem imgr_unwind_one {σ tok : Type} (runTok : tok → M σ tok Unit) (t : tok) (x : σ) (d : List tok)
    (h : (runTok t { st := x, defers := d }).2.defers = d) :
    unwind runTok d.length (d.length + 1) { st := x, defers := t :: d } = (runTok t { st := x, defers := d }).2 := by
  have hlt : ¬ (d.length + 1 ≤ d.length) := by omega
  simp only [unwind, List.length_cons, hlt, if_false]
  exact sem_unwind_le _ _ _ _ (by rw [h]; exact Nat.le_refl _)

/-! ### the ghost log and the oracle -/

theorem imgr_noLog_popEnv (envs : List (Shared → Shared)) (hr : Rely envs) (x : Shared) (lg : List (Nat × Op × Mgr.Out)) :
    (popEnv envs { x with log := lg }).2 = (popEnv envs x).2 ∧
    noLog (popEnv envs { x with log := lg }).1 = noLog (popEnv envs x).1 := by
  cases envs with
  | nil => exact ⟨rfl, rfl⟩
  | cons e r => exact ⟨rfl, hr e (List.mem_cons_self ..) x lg⟩

theorem imgr_rely_tail (envs : List (Shared → Shared)) (hr : Rely envs) (s : Shared) : Rely (popEnv envs s).2 := by
  cases envs with
  | nil => exact hr
  | cons e r => exact fun e' he' => hr e' (List.mem_cons_of_mem _ he')

/-! ### the model's thread, step by step -/

theorem imgr_solo_begin_w (tid k : Nat) (job : Op) (hw : isWriter job = true) (s : Shared) (envs : List (Shared → Shared)) (tr : List Lab) :
    solo sys view tid (k + 1) ⟨s, ⟨job, .begin⟩, envs, tr⟩ =
      if ((popEnv envs s).1.writer.isNone && (popEnv envs s).1.readers.isEmpty) = true then
        solo sys view tid k ⟨{ (popEnv envs s).1 with writer := some tid }, ⟨job, .locked⟩, (popEnv envs s).2, tr ++ [.lock]⟩
      else ⟨(popEnv envs s).1, ⟨job, .begin⟩, (popEnv envs s).2, tr⟩ := by
  split
  · next h => simp only [solo, view, silent, label, sys, Conc.Mgr.step, hw, h, if_true, Bool.false_eq_true, if_false]
  · next h => simp only [solo, view, silent, label, sys, Conc.Mgr.step, hw, h, if_true, Bool.false_eq_true, if_false]

theorem imgr_solo_begin_r (tid k : Nat) (job : Op) (hw : isWriter job = false) (s : Shared) (envs : List (Shared → Shared)) (tr : List Lab) :
    solo sys view tid (k + 1) ⟨s, ⟨job, .begin⟩, envs, tr⟩ =
      if (popEnv envs s).1.writer.isNone = true then
        solo sys view tid k ⟨{ (popEnv envs s).1 with readers := tid :: (popEnv envs s).1.readers }, ⟨job, .locked⟩, (popEnv envs s).2, tr ++ [.rlock]⟩
      else ⟨(popEnv envs s).1, ⟨job, .begin⟩, (popEnv envs s).2, tr⟩ := by
  split
  · next h => simp only [solo, view, silent, label, sys, Conc.Mgr.step, hw, h, if_true, Bool.false_eq_true, if_false]
  · next h => simp only [solo, view, silent, label, sys, Conc.Mgr.step, hw, h, if_true, Bool.false_eq_true, if_false]

theorem imgr_solo_locked (tid k : Nat) (job : Op) (s : Shared) (envs : List (Shared → Shared)) (tr : List Lab) :
    solo sys view tid (k + 1) ⟨s, ⟨job, .locked⟩, envs, tr⟩ =
      solo sys view tid k ⟨{ s with st := (Mgr.step s.st job).1, log := s.log ++ [(tid, job, (Mgr.step s.st job).2)] },
        ⟨job, .ran (Mgr.step s.st job).2⟩, envs, tr⟩ := by
  simp only [solo, view, silent, sys, Conc.Mgr.step, if_true, Bool.false_eq_true, if_false]

theorem imgr_solo_ran_w (tid k : Nat) (job : Op) (hw : isWriter job = true) (out : Mgr.Out) (s : Shared) (envs : List (Shared → Shared)) (tr : List Lab) :
    solo sys view tid (k + 1) ⟨s, ⟨job, .ran out⟩, envs, tr⟩ =
      solo sys view tid k ⟨{ (popEnv envs s).1 with writer := none }, ⟨job, .done out⟩, (popEnv envs s).2, tr ++ [.unlock]⟩ := by
  simp only [solo, view, silent, label, sys, Conc.Mgr.step, hw, if_true, Bool.false_eq_true, if_false]

theorem imgr_solo_ran_r (tid k : Nat) (job : Op) (hw : isWriter job = false) (out : Mgr.Out) (s : Shared) (envs : List (Shared → Shared)) (tr : List Lab) :
    solo sys view tid (k + 1) ⟨s, ⟨job, .ran out⟩, envs, tr⟩ =
      solo sys view tid k ⟨{ (popEnv envs s).1 with readers := (popEnv envs s).1.readers.erase tid }, ⟨job, .done out⟩, (popEnv envs s).2, tr ++ [.runlock]⟩ := by
  simp only [solo, view, silent, label, sys, Conc.Mgr.step, hw, if_true, Bool.false_eq_true, if_false]

theorem imgr_solo_done (tid k : Nat) (job : Op) (out : Mgr.Out) (s : Shared) (envs : List (Shared → Shared)) (tr : List Lab) :
    solo sys view tid k ⟨s, ⟨job, .done out⟩, envs, tr⟩ = ⟨s, ⟨job, .done out⟩, envs, tr⟩ := by
  cases k with
  | zero => rfl
  | succ k => simp only [solo, view, if_true]

end CM.GoTie.IMgr

/- GoTie/F_checkErrInterrupt.lean — third link of the classification chain
   The generated function is today's translation of circuit.go; callee behaviour enters as HYPOTHESES (the callees'
   own ties are proved in their own modules and put together in GoTie/All.lean), so this module depends on the body of
   `checkErrInterrupt` only. -/
import CircuitModel.GoCircuitSpec
import CircuitProofs.GoTie.Basic
import Generated.GoCircuit.F_checkErrInterrupt
namespace CM.GoTie
open CM CM.Go CM.GoCircuit CM.Generated.GoCircuit
variable {σo σc : Type} [L : Logic σo σc]

theorem go_checkErrInterrupt_eq (ctx orig : GoCtx) (ret : Err) (t : GoTime) (d : Dur) :
    go_checkErrInterrupt (σo := σo) (σc := σc) ctx orig ret t d = spec_checkErrInterrupt ctx orig ret t d := by
  funext g
  simp only [go_checkErrInterrupt, spec_checkErrInterrupt]
  rw [gt_fn_keep] <;> gt_eval
  all_goals
    cases hiei : g.st.s.1.cfg.iei <;> cases ret <;> cases hce : g.st.callerErr <;>
      cases hii : g.st.s.1.cfg.ignoreInterrupts <;> gt_eval [IEI.verdict] <;>
      (try simp) <;> (try (split <;> simp))

end CM.GoTie

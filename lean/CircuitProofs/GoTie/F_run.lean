/- GoTie/F_run.lean — `run` computes the model's `runStep`
   The generated function is today's translation of circuit.go; callee behaviour enters as HYPOTHESES (the callees'
   own ties are proved in their own modules and put together in GoTie/All.lean), so this module depends on the body of
   `run` only. -/
import CircuitModel.GoCircuitSpec
import CircuitProofs.GoTie.Basic
import CircuitProofs.GoTie.Big
import Generated.GoCircuit.F_run
namespace CM.GoTie
open CM CM.Go CM.GoCircuit CM.Generated.GoCircuit
variable {σo σc : Type} [L : Logic σo σc]

set_option linter.unusedVariables false in
/-- `run` with the callees replaced by their specs and the classification chain folded into `gtb_tail` -/
private def gtb_run' (ctx : GoCtx) (runFunc : RunFn) : GM σo σc Err := fn do
  let mut ctx := ctx
  let mut retErr : Err := GoZero.zero
  if (isNil runFunc) then
    return GoNil.nil
  let mut expectedDoneBy : GoTime := GoZero.zero
  let mut startTime := (← spec_now)
  let mut originalContext := ctx
  if (!(← spec_allowNewRun ctx startTime)) then
    let _ := (← recv_CmdMetricCollector_ErrShortCircuit ctx startTime)
    return pkg_errCircuitOpen
  if (← recv_ClosedToOpen_Prevent ctx startTime) then
    return pkg_errCircuitOpen
  let mut currentCommandCount := (← recv_concurrentCommands_Add 1)
  let _ := (← deferPrim "recv_concurrentCommands_Add (-1)")
  let mut err := (← spec_throttleConcurrentCommands currentCommandCount)
  if (!(isNil err)) then
    let _ := (← recv_CmdMetricCollector_ErrConcurrencyLimitReject ctx startTime)
    return err
  let mut executionTimeout := (← recv_threadSafeConfig_Execution_ExecutionTimeout_Duration)
  if (decide (executionTimeout > 0)) then
    let mut timeoutCancel : Fn0 := GoZero.zero
    expectedDoneBy := (← (startTime).m_Add executionTimeout)
    let tmp__1 := (← context_WithDeadline ctx expectedDoneBy)
    ctx := tmp__1.1
    timeoutCancel := tmp__1.2
    let _ := (← deferCall0 timeoutCancel)
    pure ()
  let mut ret := (← Call1.call runFunc ctx)
  gtb_tail ctx originalContext ret expectedDoneBy startTime

local macro "run_simp" "[" ts:Lean.Parser.Tactic.simpLemma,* "]" : tactic =>
  `(tactic| simp [gtb_run', fn, goFunc, isNil, bind, pure, runStep, resOf, callerErrAfterRun, GoNil.nil, gtb_unwind_le,
      spec_now, spec_allowNewRun, spec_throttleConcurrentCommands, onS, now, GoTime.val, GoTime.m_Add,
      recv_CmdMetricCollector_ErrShortCircuit, recv_CmdMetricCollector_ErrConcurrencyLimitReject,
      recv_ClosedToOpen_Prevent, recv_concurrentCommands_Add, recv_threadSafeConfig_Execution_ExecutionTimeout_Duration,
      readCfg, context_WithDeadline, deferCall0, deferPrim, Go.pushDefer, Call1.call, Go.raise,
      onSt, Go.modify, Go.get, Go.set, pkg_errCircuitOpen, GoZero.zero,
      gtb_emitRun_runSeen, gtb_emitRun_released, gtb_classify_runSeen, gtb_classify_released,
      gtb_unwind_one, gtb_unwind_two, gtb_runTok_cmdDec, gtb_runTok_cancel, seenOf, derivedSeen, actValue,
      gtb_ctxErrAfter_eq, gtb_obs_eq_mk, gtb_classify_rel, gtb_setRel, $ts,*])

theorem go_run_ok (hN : go_now (σo := σo) (σc := σc) = spec_now)
    (hAllow : ∀ ctx t, go_allowNewRun (σo := σo) (σc := σc) ctx t = spec_allowNewRun ctx t)
    (hThr : ∀ n, go_throttleConcurrentCommands (σo := σo) (σc := σc) n = spec_throttleConcurrentCommands n)
    (hBad : ∀ ctx r t d, go_checkErrBadRequest (σo := σo) (σc := σc) ctx r t d = spec_checkErrBadRequest ctx r t d)
    (hTo : ∀ ctx e t d, go_checkErrTimeout (σo := σo) (σc := σc) ctx e t d = spec_checkErrTimeout ctx e t d)
    (hInt : ∀ ctx o r t d, go_checkErrInterrupt (σo := σo) (σc := σc) ctx o r t d = spec_checkErrInterrupt ctx o r t d)
    (hFail : ∀ ctx r t d, go_checkErrFailure (σo := σo) (σc := σc) ctx r t d = spec_checkErrFailure ctx r t d)
    (hSucc : ∀ ctx t d, go_checkSuccess (σo := σo) (σc := σc) ctx t d = spec_checkSuccess ctx t d) :
    RunSpec σo σc go_run := by
  have hrun : ∀ ctx runFunc, go_run (σo := σo) (σc := σc) ctx runFunc = gtb_run' ctx runFunc := by
    intro ctx runFunc
    simp only [go_run, hN, hAllow, hThr, hBad, hTo, hInt, hFail, hSucc]
    rfl
  intro g run h1 h2 h3
  rcases g with ⟨⟨⟨c, obs⟩, caller, callerErr, stuck⟩, defers⟩
  simp only at h1 h2 h3
  subst h1
  rw [hrun]
  cases run with
  | none =>
    simp [gtb_run', fn, goFunc, isNil, pure, runStep, resOf, callerErrAfterRun, GoNil.nil, gtb_unwind_le]
  | some sc =>
    obtain ⟨sA, allowed, hA⟩ : ∃ sA allowed, allowNewRun L.C (now (c, obs)).2 (now (c, obs)).1 = (sA, allowed) :=
      ⟨_, _, rfl⟩
    have hAo : sA.2 = (now (c, obs)).2.2 := by
      have := gtb_allowNewRun_obs L.C (now (c, obs)).2 (now (c, obs)).1
      rw [hA] at this; exact this
    simp only [now] at hA hAo
    rcases obs with ⟨emits, readings, runSeen, fbArg, fbSameCtx, released⟩
    simp only at h2 h3 hA hAo
    subst h2 h3
    cases allowed with
    | false => run_simp [hA, hAo]
    | true =>
      obtain ⟨oP, pv, hP⟩ : ∃ oP pv, L.O.prevent sA.1.opener c.clock = (oP, pv) := ⟨_, _, rfl⟩
      cases pv with
      | true => run_simp [hA, hAo, hP]
      | false =>
        by_cases hthr : 0 ≤ sA.1.cfg.maxConc ∧ sA.1.cfg.maxConc < sA.1.conc + 1
        · run_simp [hA, hAo, hP, hthr]
        · by_cases hto : 0 < sA.1.cfg.timeout
          · cases hdl : caller.deadline <;> cases hact : sc.act <;>
              run_simp [hA, hAo, hP, hthr, hto, hact, hdl, gtb_tail_eq (sc := sc)]
          · cases hact : sc.act with
            | panic v => run_simp [hA, hAo, hP, hthr, hto, hact]
            | ret e =>
              run_simp [hA, hAo, hP, hthr, hto, hact, gtb_tail_eq (sc := sc)]
            | retCtxErr =>
              run_simp [hA, hAo, hP, hthr, hto, hact, gtb_tail_eq (sc := sc)]

end CM.GoTie

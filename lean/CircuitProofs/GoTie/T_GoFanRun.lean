/- GoTie/T_GoFanRun.lean — see T_GoFanCommon.lean: the fan-out methods of one collection type of metrics.go, as translated TODAY. -/
import CircuitProofs.GoTie.T_GoFanCommon
import Generated.GoFanRun
set_option linter.unusedSimpArgs false
namespace CM.GoTie.GoFanout
open CM CM.Go

section run
open CM.GoFanRun CM.Generated.GoFanRun
macro "fan_run" f:ident : tactic => `(tactic| (
  funext g
  rw [$f:ident, GoFanRun.fn, sem_goFunc_noDefer] <;>
  simp [bind, told, tellC, Coll.m_Success, Coll.m_ErrFailure, Coll.m_ErrTimeout, Coll.m_ErrBadRequest, Coll.m_ErrInterrupt,
    Coll.m_ErrConcurrencyLimitReject, Coll.m_ErrShortCircuit, sem_forIn_step, fold_tell Coll.id, List.map_map, Function.comp_def]))
theorem run_Success (r : List Coll) (u : Unit) (t d : Int) : go_Success r u t d = told (r.map (·.id)) (.run .success t d) := by fan_run go_Success
theorem run_ErrFailure (r : List Coll) (u : Unit) (t d : Int) : go_ErrFailure r u t d = told (r.map (·.id)) (.run .failure t d) := by fan_run go_ErrFailure
theorem run_ErrTimeout (r : List Coll) (u : Unit) (t d : Int) : go_ErrTimeout r u t d = told (r.map (·.id)) (.run .timeout t d) := by fan_run go_ErrTimeout
theorem run_ErrBadRequest (r : List Coll) (u : Unit) (t d : Int) : go_ErrBadRequest r u t d = told (r.map (·.id)) (.run .badRequest t d) := by fan_run go_ErrBadRequest
theorem run_ErrInterrupt (r : List Coll) (u : Unit) (t d : Int) : go_ErrInterrupt r u t d = told (r.map (·.id)) (.run .interrupt t d) := by fan_run go_ErrInterrupt
theorem run_ErrConcurrencyLimitReject (r : List Coll) (u : Unit) (t : Int) : go_ErrConcurrencyLimitReject r u t = told (r.map (·.id)) (.run .reject t 0) := by fan_run go_ErrConcurrencyLimitReject
theorem run_ErrShortCircuit (r : List Coll) (u : Unit) (t : Int) : go_ErrShortCircuit r u t = told (r.map (·.id)) (.run .shortCircuit t 0) := by fan_run go_ErrShortCircuit
end run

end CM.GoTie.GoFanout

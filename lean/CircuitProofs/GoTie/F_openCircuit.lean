/- GoTie/F_openCircuit.lean — `openCircuit` = the model's `openCircuit`
   The generated function is today's translation of circuit.go; callee behaviour enters as HYPOTHESES (the callees'
   own ties are proved in their own modules and put together in GoTie/All.lean), so this module depends on the body of
   `openCircuit` only. -/
import CircuitModel.GoCircuitSpec
import CircuitProofs.GoTie.Basic
import Generated.GoCircuit.F_IsOpen
import Generated.GoCircuit.F_openCircuit
namespace CM.GoTie
open CM CM.Go CM.GoCircuit CM.Generated.GoCircuit
variable {σo σc : Type} [L : Logic σo σc]

theorem go_openCircuit_eq (_hI : go_IsOpen (σo := σo) (σc := σc) = spec_IsOpen) (ctx : GoCtx) (t : GoTime) :
    go_openCircuit (σo := σo) (σc := σc) ctx t = spec_openCircuit ctx t := by
  funext g
  simp only [go_openCircuit, spec_openCircuit]
  rw [gt_fn_unlock] <;> gt_eval [spec_IsOpen]
  all_goals (repeat' split) <;> simp_all [openCircuit, onS, isOpenEff]

end CM.GoTie

/- GoTie/T_GoConsec.lean — simplelogic.ConsecutiveErrOpener's methods are the model's `ConsecOpener` functions.
   Every theorem says: the method body as translated TODAY from the Go source (Generated/GoConsec/F_*.lean) computes the
   model's function. -/
import CircuitProofs.GoTie.Sem
import Generated.GoConsec
set_option linter.unusedSimpArgs false
namespace CM.GoTie.GoConsec
open CM CM.Go CM.GoConsec CM.Generated.GoConsec

theorem go_Success_eq (u : Unit) (t d : Int) : go_Success u t d = upd (fun s => s.onRun .success t d) := by
  funext g
  rw [go_Success, fn, sem_goFunc_noDefer] <;>
  simp [bind, recv_consecutiveCount_Set, recv_consecutiveCount_Add, recv_consecutiveCount_Get, recv_closeThreshold_Get,
    recv_closeThreshold_Set, ConsecOpener.onRun]

theorem go_ErrFailure_eq (u : Unit) (t d : Int) : go_ErrFailure u t d = upd (fun s => s.onRun .failure t d) := by
  funext g
  rw [go_ErrFailure, fn, sem_goFunc_noDefer] <;>
  simp [bind, recv_consecutiveCount_Set, recv_consecutiveCount_Add, recv_consecutiveCount_Get, recv_closeThreshold_Get,
    recv_closeThreshold_Set, ConsecOpener.onRun]

theorem go_ErrTimeout_eq (u : Unit) (t d : Int) : go_ErrTimeout u t d = upd (fun s => s.onRun .timeout t d) := by
  funext g
  rw [go_ErrTimeout, fn, sem_goFunc_noDefer] <;>
  simp [bind, recv_consecutiveCount_Set, recv_consecutiveCount_Add, recv_consecutiveCount_Get, recv_closeThreshold_Get,
    recv_closeThreshold_Set, ConsecOpener.onRun]

theorem go_ErrBadRequest_eq (u : Unit) (t d : Int) : go_ErrBadRequest u t d = upd (fun s => s.onRun .badRequest t d) := by
  funext g
  rw [go_ErrBadRequest, fn, sem_goFunc_noDefer] <;>
  simp [bind, recv_consecutiveCount_Set, recv_consecutiveCount_Add, recv_consecutiveCount_Get, recv_closeThreshold_Get,
    recv_closeThreshold_Set, ConsecOpener.onRun]

theorem go_ErrInterrupt_eq (u : Unit) (t d : Int) : go_ErrInterrupt u t d = upd (fun s => s.onRun .interrupt t d) := by
  funext g
  rw [go_ErrInterrupt, fn, sem_goFunc_noDefer] <;>
  simp [bind, recv_consecutiveCount_Set, recv_consecutiveCount_Add, recv_consecutiveCount_Get, recv_closeThreshold_Get,
    recv_closeThreshold_Set, ConsecOpener.onRun]

theorem go_ErrConcurrencyLimitReject_eq (u : Unit) (t : Int) : go_ErrConcurrencyLimitReject u t = upd (fun s => s.onRun .reject t 0) := by
  funext g
  rw [go_ErrConcurrencyLimitReject, fn, sem_goFunc_noDefer] <;>
  simp [bind, recv_consecutiveCount_Set, recv_consecutiveCount_Add, recv_consecutiveCount_Get, recv_closeThreshold_Get,
    recv_closeThreshold_Set, ConsecOpener.onRun]

theorem go_ErrShortCircuit_eq (u : Unit) (t : Int) : go_ErrShortCircuit u t = upd (fun s => s.onRun .shortCircuit t 0) := by
  funext g
  rw [go_ErrShortCircuit, fn, sem_goFunc_noDefer] <;>
  simp [bind, recv_consecutiveCount_Set, recv_consecutiveCount_Add, recv_consecutiveCount_Get, recv_closeThreshold_Get,
    recv_closeThreshold_Set, ConsecOpener.onRun]

theorem go_Opened_eq (u : Unit) (t : Int) : go_Opened u t = upd (fun s => { s with count := 0 }) := by
  funext g
  rw [go_Opened, fn, sem_goFunc_noDefer] <;>
  simp [bind, recv_consecutiveCount_Set, recv_consecutiveCount_Add, recv_consecutiveCount_Get, recv_closeThreshold_Get,
    recv_closeThreshold_Set, ConsecOpener.onRun]

theorem go_Closed_eq (u : Unit) (t : Int) : go_Closed u t = upd (fun s => { s with count := 0 }) := by
  funext g
  rw [go_Closed, fn, sem_goFunc_noDefer] <;>
  simp [bind, recv_consecutiveCount_Set, recv_consecutiveCount_Add, recv_consecutiveCount_Get, recv_closeThreshold_Get,
    recv_closeThreshold_Set, ConsecOpener.onRun]

theorem go_Prevent_eq (u : Unit) (t : Int) : go_Prevent u t = rd (fun _ => false) := by
  funext g
  rw [go_Prevent, fn, sem_goFunc_noDefer] <;>
  simp [bind, recv_consecutiveCount_Set, recv_consecutiveCount_Add, recv_consecutiveCount_Get, recv_closeThreshold_Get,
    recv_closeThreshold_Set, ConsecOpener.onRun]

theorem go_ShouldOpen_eq (u : Unit) (t : Int) : go_ShouldOpen u t = rd (fun s => decide (s.count ≥ s.threshold)) := by
  funext g
  rw [go_ShouldOpen, fn, sem_goFunc_noDefer] <;>
  simp [bind, recv_consecutiveCount_Set, recv_consecutiveCount_Add, recv_consecutiveCount_Get, recv_closeThreshold_Get,
    recv_closeThreshold_Set, ConsecOpener.onRun]

theorem go_SetConfigThreadSafe_eq (p : ConfigConsecutiveErrOpener) : go_SetConfigThreadSafe p = upd (fun s => { s with threshold := p.f_ErrorThreshold }) := by
  funext g
  rw [go_SetConfigThreadSafe, fn, sem_goFunc_noDefer] <;>
  simp [bind, recv_consecutiveCount_Set, recv_consecutiveCount_Add, recv_consecutiveCount_Get, recv_closeThreshold_Get,
    recv_closeThreshold_Set, ConsecOpener.onRun]

theorem go_SetConfigNotThreadSafe_eq (p : ConfigConsecutiveErrOpener) : go_SetConfigNotThreadSafe p = upd (fun s => { s with threshold := p.f_ErrorThreshold }) := by
  funext g
  rw [go_SetConfigNotThreadSafe, go_SetConfigThreadSafe_eq, fn, sem_goFunc_noDefer] <;>
  simp [bind, recv_consecutiveCount_Set, recv_consecutiveCount_Add, recv_consecutiveCount_Get, recv_closeThreshold_Get,
    recv_closeThreshold_Set, ConsecOpener.onRun]

end CM.GoTie.GoConsec

/-
  GoTie/I_TC.lean — K6, the INTERFERENCE tie for the gate (C16; C03's first two sentences): the bodies of
  `TimedCheck.Check`, `SleepStart`, `resetOpenTimeWithLock` and of the closure it hands to the timer hook, translated from
  today's Go source over primitives in which an arbitrary move of the other goroutines precedes every sync/atomic AND
  every RWMutex operation (CircuitModel/GoTCConcPrims.lean; Generated/GoTCI), take EXACTLY the steps of the small-step
  model's thread (Conc/TC.step) run alone against the same oracle: same shared state (the ghost event log aside), same
  oracle left, same sequence of operations with the same observed values, same answer — also when the run ends waiting
  for a lock.  The all-schedule theorems of Props/C16Conc speak about `Conc/TC.step`; these say today's source IS that
  step function, thread by thread, under the rely condition the lock discipline (C11) provides.
-/
import Generated.GoTCI
import CircuitModel.Conc.TCSolo
import CircuitProofs.GoTie.I_TC_Lemmas
namespace CM.GoTie.ITC
open CM CM.Go CM.Conc CM.Conc.TC CM.GoTCI CM.Generated.GoTCI

def runT (m : TM α) (s : Shared) (tid : Nat) (envs : List (Shared → Shared)) : Out α × TS :=
  let r := m { st := { sh := s, tid := tid, envs := envs }, defers := [] }
  (r.1, r.2.st)

/-- the ghost event log aside -/
def noEv (s : Shared) : Shared := { s with events := [] }

/-- the translated code and the model's thread did the same thing; `fin` says where the thread stands for each way the
    translated code can end -/
structure Agrees {α : Type} (r : Out α × TS) (st : SoloSt Shared Local Lab) (fin : Out α → Pc → Prop) : Prop where
  sh : noEv st.sh = noEv r.2.sh
  envs : st.envs = r.2.envs
  trace : st.trace = r.2.trace
  pc : fin r.1 st.loc.pc
  notStuck : r.2.stuck = false
  blocked : r.2.blocked = true ↔ r.1 = .nilCall


/-! ### helpers (evaluation of both sides branch by branch; the ghost log at the final `Unlock`) -/

/-- `Agrees`, the shared states compared under a premise `P` only -/
structure itc_AgreesW {α : Type} (P : Prop) (r : Out α × TS) (st : SoloSt Shared Local Lab) (fin : Out α → Pc → Prop) : Prop where
  sh : P → noEv st.sh = noEv r.2.sh
  envs : st.envs = r.2.envs
  trace : st.trace = r.2.trace
  pc : fin r.1 st.loc.pc
  notStuck : r.2.stuck = false
  blocked : r.2.blocked = true ↔ r.1 = .nilCall

theorem itc_agreesW_true {α : Type} {r : Out α × TS} {st : SoloSt Shared Local Lab} {fin : Out α → Pc → Prop}
    (h : itc_AgreesW True r st fin) : Agrees r st fin :=
  ⟨h.sh trivial, h.envs, h.trace, h.pc, h.notStuck, h.blocked⟩

theorem itc_agreesW_of {α : Type} {P : Prop} {r : Out α × TS} {st : SoloSt Shared Local Lab} {fin : Out α → Pc → Prop}
    (h : itc_AgreesW P r st fin) (hp : P) : Agrees r st fin :=
  ⟨h.sh hp, h.envs, h.trace, h.pc, h.notStuck, h.blocked⟩

/-- the same for a result that still carries the defer stack -/
def itc_AgreesG {α : Type} (P : Prop) (r : Out α × GS TS String) (st : SoloSt Shared Local Lab) (fin : Out α → Pc → Prop) : Prop :=
  itc_AgreesW P (r.1, r.2.st) st fin

theorem itc_agrees_runT {α : Type} (P : Prop) (m : TM α) (s : Shared) (tid : Nat) (envs : List (Shared → Shared))
    (st : SoloSt Shared Local Lab) (fin : Out α → Pc → Prop)
    (h : itc_AgreesG P (m { st := { sh := s, tid := tid, envs := envs }, defers := [] }) st fin) :
    itc_AgreesW P (runT m s tid envs) st fin := h

/-- both sides branch on the same condition -/
theorem itc_agreesG_ite {α : Type} (P : Prop) (c : Prop) [Decidable c] (r₁ r₂ : Out α × GS TS String) (st₁ st₂ : SoloSt Shared Local Lab)
    (fin : Out α → Pc → Prop) (h₁ : c → itc_AgreesG P r₁ st₁ fin) (h₂ : ¬ c → itc_AgreesG P r₂ st₂ fin) :
    itc_AgreesG P (if c then r₁ else r₂) (if c then st₁ else st₂) fin := by
  split
  · exact h₁ ‹_›
  · exact h₂ ‹_›

/-- both sides branch on equivalent conditions -/
theorem itc_agreesG_ite2 {α : Type} (P : Prop) (c c' : Prop) [Decidable c] [Decidable c'] (hc : c ↔ c') (r₁ r₂ : Out α × GS TS String)
    (st₁ st₂ : SoloSt Shared Local Lab)
    (fin : Out α → Pc → Prop) (h₁ : c' → itc_AgreesG P r₁ st₁ fin) (h₂ : ¬ c' → itc_AgreesG P r₂ st₂ fin) :
    itc_AgreesG P (if c then r₁ else r₂) (if c' then st₁ else st₂) fin := by
  by_cases h : c'
  · rw [if_pos (hc.mpr h), if_pos h]; exact h₁ h
  · rw [if_neg (fun hh => h (hc.mp hh)), if_neg h]; exact h₂ h

theorem itc_apply_lit1 (v : Int) :
    go_resetOpenTimeWithLock_apply ⟨"resetOpenTimeWithLock_lit1", [v]⟩ = go_resetOpenTimeWithLock_lit1 v := rfl

theorem itc_noEv_of {x y : Shared} (h : noEv x = noEv y) : y = { x with events := y.events } := by
  cases x; cases y
  simp only [noEv, Shared.mk.injEq] at h
  simp only [Shared.mk.injEq]
  simp [h]

/-- a move of the others respects "equal up to the ghost log" -/
theorem itc_noEv_congr {tid : Nat} {e : Shared → Shared} (hF : itc_RelyF tid e) {x y : Shared} (h : noEv x = noEv y) :
    noEv (e x) = noEv (e y) := by
  have h1 : e y = { e x with events := y.events } := (congrArg e (itc_noEv_of h)).trans (hF.2 x y.events)
  rw [h1]
  rfl

/-- the final `Unlock` on states that differ in the ghost log only -/
theorem itc_noEv_unlock {tid : Nat} (e : Shared → Shared) (hF : itc_RelyF tid e) (x y : Shared) (h : noEv x = noEv y) :
    noEv { e x with writer := none } = noEv { e y with writer := none } := by
  have h' := itc_noEv_congr hF h
  simp only [noEv, Shared.mk.injEq] at h' ⊢
  simp [h']

/-- `Check`, the comparison of the shared states made under the `writer`/`version` part of `Rely` only (everything else
    needs the `count` and ghost-log parts) -/
theorem itc_check_solo_partial (s : Shared) (tid : Nat) (envs : List (Shared → Shared)) (now : Int) (hr : Rely tid envs) :
    itc_AgreesW (itc_RelyW tid envs) (runT (go_Check now) s tid envs) (soloJob tid 16 (.check now) .begin s envs)
      (fun o pc => match o with
        | .ok b => pc = .done (some b)
        | .nilCall => pc = .rlock ∨ pc = .wlock
        | .panic _ => False) := by
  apply itc_agrees_runT
  simp only [soloJob, go_Check, itc_fn_apply, itc_bind_apply, recv_isFastFail_Get, recv_mu_RLock, recv_mu_RUnlock, recv_mu_Lock,
    recv_nextOpenTime_After, recv_currentlyAllowedEventCount, recv_currentlyAllowedEventCount_set, recv_eventCountToAllow_Get,
    itc_pushDefer, itc_plainRd, itc_nextAfter, itc_plainWr, itc_atomicOp,
    itc_lockOp, itc_step_ite, itc_step_ok, itc_step_nil, itc_ite_apply,
    itc_go_reset, itc_pure_apply, itc_fin_ite, itc_fin_nil, itc_fin_unlock, List.length_nil, if_true,
    itc_m_beginCheck, itc_m_rlock, itc_m_runlock, itc_m_wlock, itc_m_criticalCheck, itc_m_loadAllow, itc_m_reset, itc_m_wunlock]
  -- fast-fail flag set (after the first move of the others): `false`
  refine itc_agreesG_ite _ _ _ _ _ _ _ (fun h1 => by constructor <;> simp [noEv]) (fun h1 => ?_)
  -- RLock: a writer holds the lock — waiting
  refine itc_agreesG_ite _ _ _ _ _ _ _ (fun h2 => ?_) (fun h2 => by constructor <;> simp [noEv])
  -- still sleeping (read-locked look): RUnlock, `false`
  refine itc_agreesG_ite _ _ _ _ _ _ _ (fun h3 => by constructor <;> simp [noEv]) (fun h3 => ?_)
  -- Lock: not available — waiting
  refine itc_agreesG_ite _ _ _ _ _ _ _ (fun h4 => ?_) (fun h4 => by constructor <;> simp [noEv])
  -- still sleeping (write-locked re-validation): deferred Unlock, `false`
  refine itc_agreesG_ite _ _ _ _ _ _ _ (fun h5 => by constructor <;> simp [noEv]) (fun h5 => ?_)
  -- budget test: Go read the counter BEFORE the others moved, the model reads it after: `Rely`
  have hr5 := itc_rely_tail (itc_rely_tail (itc_rely_tail (itc_rely_tail hr)))
  have hc := (itc_rely_hd hr5).1
  refine itc_agreesG_ite2 _ _ _ ?_ _ _ _ _ _ (fun h6 => ?_) (fun h6 => ?_)
  · rw [hc]
    · simp
    · rfl
  · -- budget used up: re-arm, deferred Unlock, `true`
    refine ⟨fun hw => ?_, ?_, ?_, ?_, ?_, ?_⟩
    · have hw5 := itc_relyW_tail (itc_relyW_tail (itc_relyW_tail (itc_relyW_tail hw)))
      refine itc_noEv_unlock (itc_hd envs.tail.tail.tail.tail.tail.tail.tail.tail.tail)
        (itc_rely_hd (itc_rely_tail (itc_rely_tail (itc_rely_tail (itc_rely_tail (itc_rely_tail hr5)))))) _ _ ?_
      rw [itc_r4_version (itc_relyW_tail hw5)]
      · rfl
      · exact (itc_relyW_hd hw5 _ rfl).1
    all_goals simp
  · -- budget left: deferred Unlock, `true`
    refine ⟨fun _ => ?_, ?_, ?_, ?_, ?_, ?_⟩
    · exact itc_noEv_unlock (itc_hd envs.tail.tail.tail.tail.tail) (itc_rely_hd (itc_rely_tail hr5)) _ _ rfl
    all_goals simp

/-- `SleepStart`, in the same form -/
theorem itc_sleepStart_solo_partial (s : Shared) (tid : Nat) (envs : List (Shared → Shared)) (now : Int) (hr : Rely tid envs) :
    itc_AgreesW (itc_RelyW tid envs) (runT (go_SleepStart now) s tid envs) (soloJob tid 16 (.start now) .begin s envs)
      (fun o pc => match o with
        | .ok () => pc = .done none
        | .nilCall => pc = .wlock
        | .panic _ => False) := by
  apply itc_agrees_runT
  simp only [soloJob, go_SleepStart, itc_fn_apply, itc_bind_apply, recv_mu_Lock, recv_mu_Unlock, itc_lockOp, itc_step_ite,
    itc_step_ok, itc_step_nil, itc_go_reset, itc_pure_apply, itc_fin_ite, itc_fin_nil, if_true,
    itc_m_beginStart, itc_m_wlock, itc_m_criticalStart, itc_m_reset, itc_m_wunlock]
  refine itc_agreesG_ite _ _ _ _ _ _ _ (fun h => ?_) (fun h => ?_)
  · refine ⟨fun hw => ?_, ?_, ?_, ?_, ?_, ?_⟩
    · refine itc_noEv_unlock (itc_hd envs.tail.tail.tail.tail.tail)
        (itc_rely_hd (itc_rely_tail (itc_rely_tail (itc_rely_tail (itc_rely_tail (itc_rely_tail hr)))))) _ _ ?_
      simp [noEv, itc_r4_version (itc_relyW_tail hw)]
    all_goals simp
  · constructor <;> simp [noEv]

/-- `Check(now)`: an answer `b` ⇔ the thread is done with `b`; waiting ⇔ the thread stands before the lock step -/
theorem check_solo (s : Shared) (tid : Nat) (envs : List (Shared → Shared)) (now : Int) (hr : Rely tid envs) :
    Agrees (runT (go_Check now) s tid envs) (soloJob tid 16 (.check now) .begin s envs)
      (fun o pc => match o with
        | .ok b => pc = .done (some b)
        | .nilCall => pc = .rlock ∨ pc = .wlock
        | .panic _ => False) :=
  itc_agreesW_of (itc_check_solo_partial s tid envs now hr) (itc_rely_W hr)

theorem sleepStart_solo (s : Shared) (tid : Nat) (envs : List (Shared → Shared)) (now : Int) (hr : Rely tid envs) :
    Agrees (runT (go_SleepStart now) s tid envs) (soloJob tid 16 (.start now) .begin s envs)
      (fun o pc => match o with
        | .ok () => pc = .done none
        | .nilCall => pc = .wlock
        | .panic _ => False) :=
  itc_agreesW_of (itc_sleepStart_solo_partial s tid envs now hr) (itc_rely_W hr)

/-- the timer callback created when the version became `v` (the model's thread `fire k` once it has looked its version up) -/
theorem callback_solo (s : Shared) (tid k : Nat) (envs : List (Shared → Shared)) (v : Int) (hr : Rely tid envs) :
    Agrees (runT (go_resetOpenTimeWithLock_apply ⟨"resetOpenTimeWithLock_lit1", [v]⟩) s tid envs)
      (soloJob tid 16 (.fire k) (.cbLoadVersion v) s envs)
      (fun o pc => match o with
        | .ok () => pc = .done none
        | _ => False) := by
  have _ := hr
  apply itc_agreesW_true
  apply itc_agrees_runT
  rw [itc_apply_lit1]
  simp only [soloJob, go_resetOpenTimeWithLock_lit1, itc_fn_apply, itc_bind_apply, recv_isFailFastVersion_Get, itc_atomicOp,
    itc_step_ok, recv_isFastFail_Set, itc_ite_apply, itc_pure_apply, itc_fin_ite, itc_fin_nil, itc_m_cbLoad, itc_m_cbStore,
    beq_iff_eq]
  refine itc_agreesG_ite _ _ _ _ _ _ _ (fun h => ?_) (fun h => ?_)
  · constructor <;> simp [noEv]
  · constructor <;> simp [noEv]

/-- the closure `resetOpenTimeWithLock` hands to the timer hook captures the version it has just published: the `armed`
    entry the model's `fire` looks up -/
theorem reset_arms_current_version (s : Shared) (tid : Nat) (envs : List (Shared → Shared)) (now : Int)
    (hw : s.writer = some tid) (hr : Rely tid envs) :
    let r := runT (go_resetOpenTimeWithLock now) s tid envs
    r.1 = .ok () ∧ ∃ v, r.2.sh.armed = s.armed ++ [v] ∧ r.2.trace.filterMap (fun l => match l with | .addVersion x => some x | _ => none) = [v] := by
  intro r
  simp only [r, runT, itc_go_reset, true_and]
  refine ⟨(itc_r3 now envs s).version, ?_, by simp⟩
  show (itc_r4 now envs s).armed ++ _ = _
  rw [itc_r4_armed hr now s hw]


/-! non-vacuity: concrete oracles — an ordinary success, a flip of the fast-fail flag, a lock grabbed by somebody else -/
def s1 : Shared := { sleep := 50, allow := 2, nextOpen := some 100, count := 1 }
def grab : Shared → Shared := fun s => if s.writer.isNone then { s with writer := some 9 } else s
example : Rely 1 [id, grab] := by
  intro e he
  simp only [List.mem_cons, List.not_mem_nil, or_false] at he
  rcases he with rfl | rfl
  · exact ⟨fun _ hx => ⟨hx, rfl, rfl, rfl⟩, fun _ _ => rfl⟩
  · refine ⟨fun x hx => ?_, fun x evs => ?_⟩
    · simp [grab, hx]
    · cases hx : x.writer <;> simp [grab, hx]
example : (runT (go_Check 200) s1 1 []).1 = .ok true := by decide +kernel
example : (runT (go_Check 200) s1 1 [id, grab]).1 = .nilCall := by decide +kernel

end CM.GoTie.ITC

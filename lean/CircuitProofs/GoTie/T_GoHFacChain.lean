/- GoTie/T_GoHFacChain.lean — the units of the hystrix construction glue put end to end: what `Factory.createCloser(name)`
   returns (T_GoHFacLayers), applied (T_GoHFacCloser), is a NEW closer whose sleep window / half-open attempts / required
   successes / timer hook are, field by field, the first SET value in the order
       last constructor, …, first constructor, factory-wide value, package default;
   and the same for the opener's thresholds and window geometry (T_GoHFacOpener).  (C19/C17 precedence; C01/C03, C02.) -/
import CircuitProofs.GoTie.T_GoHFacLayers
import CircuitProofs.GoTie.T_GoHFacCloser
import CircuitProofs.GoTie.T_GoHFacOpener
namespace CM.GoTie.GoHFacChain
open CM CM.Go CM.GoHFac CM.GoHFac.Layers CM.GoTie.GoHFacLayers

theorem gapI_pick_snoc (l : List Int) (b : Int) : gapI (pickI l) b = pickI (l ++ [b]) := by
  induction l with
  | nil => by_cases h : b = 0 <;> simp [gapI, pickI, h]
  | cons a l ih => rw [← gapI_pick, gapI_assoc, ih, gapI_pick]; rfl
theorem gapF_pick_snoc (l : List (Option Nat)) (b : Option Nat) : gapF (pickF l) b = pickF (l ++ [b]) := by
  induction l with
  | nil => cases b <;> rfl
  | cons a l ih => rw [← gapF_pick, gapF_assoc, ih, gapF_pick]; rfl

/-- `createCloser(name)` then one call of what it returned: a NEW cell holding the closer built from the layered config -/
theorem createCloser_then_call (name : String) (f : GS FW NoTok) (cs : List (String → CCfg)) (h : allSome f.st.closerCtors = some cs)
    (g : GS Closer.CW NoTok) :
    ∃ clo, CM.Generated.GoHFacLayers.go_createCloser name f = (.ok clo, f) ∧
      CM.Generated.GoHFacCloser.go_CloserFactory_apply clo g =
        (.ok (⟨g.st.heap.length⟩, Closer.cloOf ((layerC (cs.map (· name)) f.st.closerCfg).merge defaultCCfg)),
         { g with st := { g.st with heap := g.st.heap ++ [Closer.built (layerC (cs.map (· name)) f.st.closerCfg)] } }) := by
  refine ⟨_, ?_, GoHFacCloser.go_CloserFactory_apply_eq _ g⟩
  rw [go_createCloser_eq, h]

/-- the sleep window the gate of that closer really has (C01/C03): last constructor > … > first > factory-wide > 5 s -/
theorem built_sleep (cs : List CCfg) (fw : CCfg) :
    (Closer.built (layerC cs fw)).c.tc.sleep = pickI ((cs.reverse ++ [fw, defaultCCfg]).map (·.f_SleepWindow)) := by
  rw [(GoHFacCloser.built_fields _).1, layerC_SleepWindow, gapI_pick_snoc]
  simp [defaultCCfg]
theorem built_allow (cs : List CCfg) (fw : CCfg) :
    (Closer.built (layerC cs fw)).c.tc.allow = pickI ((cs.reverse ++ [fw, defaultCCfg]).map (·.f_HalfOpenAttempts)) := by
  rw [(GoHFacCloser.built_fields _).2.1, layerC_HalfOpenAttempts, gapI_pick_snoc]
  simp [defaultCCfg]
theorem built_required (cs : List CCfg) (fw : CCfg) :
    (Closer.built (layerC cs fw)).c.required = pickI ((cs.reverse ++ [fw, defaultCCfg]).map (·.f_RequiredConcurrentSuccessful)) := by
  rw [(GoHFacCloser.built_fields _).2.2.1, layerC_RequiredConcurrentSuccessful, gapI_pick_snoc]
  simp [defaultCCfg]
theorem built_afterFunc (cs : List CCfg) (fw : CCfg) :
    (Closer.built (layerC cs fw)).afterFunc = pickF ((cs.reverse ++ [fw]).map (·.f_AfterFunc)) := by
  rw [(GoHFacCloser.built_fields _).2.2.2.1, layerC_AfterFunc]

/-- `createOpener(name)` then one call of what it returned (non-negative bucket count): a NEW cell holding the opener built
    from the layered config in today's environment -/
theorem createOpener_then_call (name : String) (f : GS FW NoTok) (os : List (String → OCfg)) (h : allSome f.st.openerCtors = some os)
    (g : GS Opener.OW String) (hb : 0 ≤ (layerO (os.map (· name)) f.st.openerCfg).f_NumBuckets) :
    ∃ clo, CM.Generated.GoHFacLayers.go_createOpener name f = (.ok clo, f) ∧
      CM.Generated.GoHFacOpener.go_OpenerFactory_apply clo g =
        (.ok (⟨g.st.heap.length⟩, Opener.cloOf ((layerO (os.map (· name)) f.st.openerCfg).merge defaultOCfg)),
         { g with st := { g.st with env := { g.st.env with reads := g.st.env.reads + 1, slices := g.st.env.slices + 2 },
                                    heap := g.st.heap ++ [GoHFacOpener.builtObj (layerO (os.map (· name)) f.st.openerCfg) g.st.env 0] } }) := by
  refine ⟨_, ?_, GoHFacOpener.go_OpenerFactory_apply_ok _ g hb⟩
  rw [go_createOpener_eq, h]

/-- the thresholds that opener really publishes (C02): last constructor > … > first > factory-wide > 50 % / 20 requests -/
theorem builtObj_pct (cs : List OCfg) (fw : OCfg) (e : Opener.Env) (i : Nat) :
    (GoHFacOpener.builtObj (layerO cs fw) e i).pct = pickI ((cs.reverse ++ [fw, defaultOCfg]).map (·.f_ErrorThresholdPercentage)) := by
  show gapI (layerO cs fw).f_ErrorThresholdPercentage 50 = _
  rw [layerO_ErrorThresholdPercentage, gapI_pick_snoc]
  simp [defaultOCfg]
theorem builtObj_vol (cs : List OCfg) (fw : OCfg) (e : Opener.Env) (i : Nat) :
    (GoHFacOpener.builtObj (layerO cs fw) e i).vol = pickI ((cs.reverse ++ [fw, defaultOCfg]).map (·.f_RequestVolumeThreshold)) := by
  show gapI (layerO cs fw).f_RequestVolumeThreshold 20 = _
  rw [layerO_RequestVolumeThreshold, gapI_pick_snoc]
  simp [defaultOCfg]
/-- … and the window geometry: bucket count and bucket width -/
theorem builtObj_geometry (cs : List OCfg) (fw : OCfg) (e : Opener.Env) (i : Nat) :
    let n := pickI ((cs.reverse ++ [fw, defaultOCfg]).map (·.f_NumBuckets))
    let d := pickI ((cs.reverse ++ [fw, defaultOCfg]).map (·.f_RollingDuration))
    (GoHFacOpener.builtObj (layerO cs fw) e i).errors.rc = RC.new n.toNat (tdiv d n) ∧
    (GoHFacOpener.builtObj (layerO cs fw) e i).attempts.rc = RC.new n.toNat (tdiv d n) := by
  have hn : gapI (layerO cs fw).f_NumBuckets 10 = pickI ((cs.reverse ++ [fw, defaultOCfg]).map (·.f_NumBuckets)) := by
    rw [layerO_NumBuckets, gapI_pick_snoc]; simp [defaultOCfg]
  have hd : gapI (layerO cs fw).f_RollingDuration 10000000000 = pickI ((cs.reverse ++ [fw, defaultOCfg]).map (·.f_RollingDuration)) := by
    rw [layerO_RollingDuration, gapI_pick_snoc]; simp [defaultOCfg]
  simp only [← hn, ← hd]
  exact ⟨rfl, rfl⟩

/-! ### non-vacuity: the last constructor sets nothing, the middle one (2) beats the first (1) and the factory-wide 7 -/
example : (Closer.built (layerC [{ f_SleepWindow := 1 }, { f_SleepWindow := 2 }, {}] { f_SleepWindow := 7 })).c.tc.sleep = 2 := by decide
example : (Closer.built (layerC [{}, {}] {})).c.tc.sleep = 5000000000 := by decide

end CM.GoTie.GoHFacChain

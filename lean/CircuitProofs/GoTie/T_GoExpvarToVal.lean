/- GoTie/T_GoExpvarToVal.lean — `expvarToVal` (metrics.go), as translated TODAY: a value whose dynamic type has
   `Value() interface{}` (an `expvar.Func`: `Value()` CALLS the function) is evaluated exactly once, now, and the result
   returned; anything else gives nil and nothing is called.  This is what the `pkg_expvarToVal` primitives of units
   GoManagerVar, GoFanRunVar, GoFanFbVar and GoCircuitVar stand for: one evaluation at the moment of the call. -/
import CircuitModel.GoVarsPrims
import CircuitProofs.GoTie.Sem
import Generated.GoExpvarToVal
namespace CM.GoTie.GoExpvarToVal
open CM CM.Go CM.GoVars CM.GoVars.E2V CM.Generated.GoExpvarToVal

/-- `expvarToVal(v)`: one call of the function when `v` is an `expvar.Func`, else nil and no call. -/
theorem go_expvarToVal_eq (v : CloV) (g : GS E2W NoTok) :
    go_expvarToVal v g = match v with
      | .func id => (.ok (g.st.result id), { g with st := { g.st with calls := g.st.calls ++ [id] } })
      | .other _ => (.ok .nil, g) := by
  unfold go_expvarToVal fn
  cases v with
  | func id => exact sem_goFunc_st _ _ _ _ _ rfl
  | other id => exact sem_goFunc_pure _ _ _ _ rfl

/-- evaluate, let the function's result change, evaluate again: the second call sees the change -/
theorem second_call_sees_the_change (id : Nat) (g : GS E2W NoTok) (res' : Nat → EV) :
    let g₁ := (go_expvarToVal (.func id) g).2
    (go_expvarToVal (.func id) { g₁ with st := { g₁.st with result := res' } }).1 = .ok (res' id) := by
  simp only [go_expvarToVal_eq]

/-! ### non-vacuity -/
def ew : E2W := { result := fun i => .int i }
example : (Go.run (go_expvarToVal (.func 3)) ew).1 = .ok (.int 3) ∧ (Go.run (go_expvarToVal (.func 3)) ew).2.calls = [3] := ⟨rfl, rfl⟩
example : (Go.run (go_expvarToVal (.other 3)) ew).1 = .ok .nil ∧ (Go.run (go_expvarToVal (.other 3)) ew).2.calls = [] := ⟨rfl, rfl⟩

end CM.GoTie.GoExpvarToVal

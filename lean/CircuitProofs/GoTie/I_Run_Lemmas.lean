/-
  GoTie/I_Run_Lemmas.lean — infrastructure for the interference tie I_Run: evaluation of the Go-semantics monad over the
  interference primitives of the whole call (GoRunConcPrims) and of `solo` over Conc/Run, both with the oracle's move kept
  behind `irun_after`; a relation `irun_Rel Φ K` between what is left of the Go side (under the caller's continuation `K`)
  and what is left of the model's run, walked along the two trees in parallel; callees are used through "segment" lemmas
  (the callee's body against the model's steps from its entry pc to its exit pc, for every continuation).
-/
import Generated.GoRunI
import CircuitModel.Conc.RunSolo
namespace CM.GoTie.IRun
open CM CM.Go CM.Conc CM.Conc.Run CM.GoRunI CM.Generated.GoRunI

/-- continue with what the oracle's move leaves -/
def irun_after {β : Type} (p : Shared × List (Shared → Shared)) (F : Shared → List (Shared → Shared) → β) : β := F p.1 p.2
theorem irun_after_mk {β : Type} (s : Shared) (e : List (Shared → Shared)) (F : Shared → List (Shared → Shared) → β) :
    irun_after (s, e) F = F s e := rfl

abbrev irun_G := GS RS String

/-! ### the Go side -/
section Go
variable {σ tok α β γ : Type}

def irun_bindK (r : Out α × GS σ tok) (f : α → M σ tok β) : Out β × GS σ tok :=
  match r with
  | (.ok a, s') => f a s'
  | (.panic v, s') => (.panic v, s')
  | (.nilCall, s') => (.nilCall, s')

theorem irun_bind_apply (m : RM α) (f : α → RM β) (g : irun_G) : (m >>= f) g = irun_bindK (m g) f := rfl
theorem irun_bindK_ok (a : α) (s : irun_G) (f : α → RM β) : irun_bindK (.ok a, s) f = f a s := rfl
theorem irun_bindK_panic (v : Nat) (s : irun_G) (f : α → RM β) : irun_bindK ((.panic v : Out α), s) f = (.panic v, s) := rfl
theorem irun_bindK_nilCall (s : irun_G) (f : α → RM β) : irun_bindK ((.nilCall : Out α), s) f = (.nilCall, s) := rfl
theorem irun_bindK_ite (c : Prop) [Decidable c] (x y : Out α × irun_G) (f : α → RM β) :
    irun_bindK (if c then x else y) f = if c then irun_bindK x f else irun_bindK y f := by
  split <;> rfl
theorem irun_bindK_after (p : Shared × List (Shared → Shared)) (F : Shared → List (Shared → Shared) → Out α × irun_G) (f : α → RM β) :
    irun_bindK (irun_after p F) f = irun_after p fun s e => irun_bindK (F s e) f := rfl
theorem irun_ite_apply (c : Prop) [Decidable c] (m₁ m₂ : RM α) (g : irun_G) :
    (if c then m₁ else m₂) g = if c then m₁ g else m₂ g := by
  split <;> rfl
theorem irun_pure_apply (a : α) (g : irun_G) : (pure a : RM α) g = (.ok a, g) := rfl

/-- what `goFunc` does with the outcome of the body -/
def irun_wrap (h : Nat) (r : Out α × irun_G) : Out α × irun_G :=
  (r.1, unwind runTok h r.2.defers.length r.2)
theorem irun_fn_apply (body : RM α) (g : irun_G) : fn body g = irun_wrap g.defers.length (body g) := rfl
theorem irun_wrap_ite (c : Prop) [Decidable c] (h : Nat) (x y : Out α × irun_G) :
    irun_wrap h (if c then x else y) = if c then irun_wrap h x else irun_wrap h y := by
  split <;> rfl
theorem irun_wrap_after (h : Nat) (p : Shared × List (Shared → Shared)) (F : Shared → List (Shared → Shared) → Out α × irun_G) :
    irun_wrap h (irun_after p F) = irun_after p fun s e => irun_wrap h (F s e) := rfl
theorem irun_wrap_keep (o : Out α) (cs : RS) (d : List String) : irun_wrap d.length (o, ⟨cs, d⟩) = (o, ⟨cs, d⟩) := by
  show (o, unwind runTok d.length d.length ⟨cs, d⟩) = _
  cases hd : d.length with
  | zero => rfl
  | succ n => simp [unwind, hd]
theorem irun_wrap0_nil (o : Out α) (cs : RS) : irun_wrap 0 (o, ⟨cs, []⟩) = (o, ⟨cs, []⟩) := rfl

/-- the second component after a deferred call, the unwinding going on -/
def irun_wsnd (h : Nat) (o : Out α) (r : Out Unit × irun_G) : Out α × irun_G := irun_wrap h (o, r.2)
theorem irun_wsnd_mk (h : Nat) (o : Out α) (o' : Out Unit) (g : irun_G) : irun_wsnd h o (o', g) = irun_wrap h (o, g) := rfl
theorem irun_wsnd_after (h : Nat) (o : Out α) (p : Shared × List (Shared → Shared)) (F : Shared → List (Shared → Shared) → Out Unit × irun_G) :
    irun_wsnd h o (irun_after p F) = irun_after p fun s e => irun_wsnd h o (F s e) := rfl
theorem irun_wsnd_ite (c : Prop) [Decidable c] (h : Nat) (o : Out α) (x y : Out Unit × irun_G) :
    irun_wsnd h o (if c then x else y) = if c then irun_wsnd h o x else irun_wsnd h o y := by
  split <;> rfl

theorem irun_wrap_cons (h : Nat) (o : Out α) (cs : RS) (t : String) (d : List String) (hh : h ≤ d.length)
    (hd : (runTok t ⟨cs, d⟩).2.defers = d) :
    irun_wrap h (o, ⟨cs, t :: d⟩) = irun_wsnd h o (runTok t ⟨cs, d⟩) := by
  show (o, unwind runTok h (d.length + 1) ⟨cs, t :: d⟩) = (o, unwind runTok h (runTok t ⟨cs, d⟩).2.defers.length (runTok t ⟨cs, d⟩).2)
  have h1 : ¬ (d.length + 1 ≤ h) := by omega
  rw [hd]
  simp only [unwind, List.length_cons, h1, if_false]
theorem irun_defers_unlock (cs : RS) (d : List String) : (runTok "recv_transitionMu_Unlock" ⟨cs, d⟩).2.defers = d := by
  unfold runTok
  split <;> rfl
theorem irun_defers_cancel (cs : RS) (d : List String) : (runTok "cancel" ⟨cs, d⟩).2.defers = d := by
  unfold runTok
  split <;> rfl
theorem irun_defers_dec (cs : RS) (d : List String) : (runTok "recv_concurrentCommands_Add (-1)" ⟨cs, d⟩).2.defers = d := by
  unfold runTok
  split <;> rfl
/-- the transitions' deferred unlock above the caller's deferred calls -/
theorem irun_wrap_one (o : Out α) (cs : RS) (d : List String) :
    irun_wrap d.length (o, ⟨cs, "recv_transitionMu_Unlock" :: d⟩) = irun_wsnd d.length o (runTok "recv_transitionMu_Unlock" ⟨cs, d⟩) :=
  irun_wrap_cons _ _ _ _ _ (Nat.le_refl _) (irun_defers_unlock _ _)
/-- `run` itself is entered with no deferred call pending -/
theorem irun_wrap0_cancel (o : Out α) (cs : RS) (d : List String) :
    irun_wrap 0 (o, ⟨cs, "cancel" :: d⟩) = irun_wsnd 0 o (runTok "cancel" ⟨cs, d⟩) :=
  irun_wrap_cons _ _ _ _ _ (Nat.zero_le _) (irun_defers_cancel _ _)
theorem irun_wrap0_dec (o : Out α) (cs : RS) (d : List String) :
    irun_wrap 0 (o, ⟨cs, "recv_concurrentCommands_Add (-1)" :: d⟩) = irun_wsnd 0 o (runTok "recv_concurrentCommands_Add (-1)" ⟨cs, d⟩) :=
  irun_wrap_cons _ _ _ _ _ (Nat.zero_le _) (irun_defers_dec _ _)

/-- a goroutine waiting for the lock runs nothing deferred: the unwinding only forgets the calls -/
def irun_dropTo (h : Nat) : Nat → List String → List String
  | 0, d => d
  | n + 1, d => if d.length ≤ h then d else match d with
    | [] => d
    | _ :: rest => irun_dropTo h n rest
theorem irun_unwind_blocked (h n : Nat) (cs : RS) (hb : cs.blocked = true) (d : List String) :
    unwind runTok h n ⟨cs, d⟩ = ⟨cs, irun_dropTo h n d⟩ := by
  induction n generalizing d with
  | zero => rfl
  | succ n ih =>
    simp only [unwind, irun_dropTo]
    split
    · rfl
    · cases d with
      | nil => rfl
      | cons t rest =>
        have : runTok t ⟨cs, rest⟩ = (.ok (), ⟨cs, rest⟩) := by simp [runTok, hb]
        simp only [this, ih]
theorem irun_wrap_blocked (h : Nat) (o : Out α) (s : Shared) (tid : Nat) (sc : Script) (obs : Int) (e : List (Shared → Shared))
    (tr : List Lab) (x : Bool) (d : List String) :
    irun_wrap h (o, ⟨⟨s, tid, sc, obs, e, tr, true, x⟩, d⟩) = (o, ⟨⟨s, tid, sc, obs, e, tr, true, x⟩, irun_dropTo h d.length d⟩) := by
  show (o, unwind runTok h d.length ⟨⟨s, tid, sc, obs, e, tr, true, x⟩, d⟩) = _
  rw [irun_unwind_blocked _ _ _ rfl]

/-! the deferred calls on a state in constructor form -/
theorem irun_runTok_unlock (s : Shared) (tid : Nat) (sc : Script) (obs : Int) (e : List (Shared → Shared)) (tr : List Lab) (x : Bool)
    (d : List String) :
    runTok "recv_transitionMu_Unlock" ⟨⟨s, tid, sc, obs, e, tr, false, x⟩, d⟩ = recv_transitionMu_Unlock ⟨⟨s, tid, sc, obs, e, tr, false, x⟩, d⟩ := rfl
theorem irun_runTok_cancel (s : Shared) (tid : Nat) (sc : Script) (obs : Int) (e : List (Shared → Shared)) (tr : List Lab) (x : Bool)
    (d : List String) :
    runTok "cancel" ⟨⟨s, tid, sc, obs, e, tr, false, x⟩, d⟩ = (.ok (), ⟨⟨s, tid, sc, obs, e, tr, false, x⟩, d⟩) := rfl
theorem irun_runTok_dec (s : Shared) (tid : Nat) (sc : Script) (obs : Int) (e : List (Shared → Shared)) (tr : List Lab) (x : Bool)
    (d : List String) :
    runTok "recv_concurrentCommands_Add (-1)" ⟨⟨s, tid, sc, obs, e, tr, false, x⟩, d⟩ =
      irun_after (popEnv e s) fun s1 e1 =>
        (.ok (), ⟨⟨{ s1 with gauge := s1.gauge - 1, region := s1.region.filter (·.tid ≠ tid) }, tid, sc, obs, e1,
                   tr ++ [.addGauge (-1) (s1.gauge - 1)], false, x⟩, d⟩) := rfl
theorem irun_runTok_blocked (t : String) (s : Shared) (tid : Nat) (sc : Script) (obs : Int) (e : List (Shared → Shared)) (tr : List Lab) (x : Bool)
    (d : List String) :
    runTok t ⟨⟨s, tid, sc, obs, e, tr, true, x⟩, d⟩ = (.ok (), ⟨⟨s, tid, sc, obs, e, tr, true, x⟩, d⟩) := rfl

/-! primitives on a state in constructor form -/
theorem irun_atomicOp_apply (f : Shared → Shared × α × Lab) (s : Shared) (tid : Nat) (sc : Script) (obs : Int) (envs : List (Shared → Shared))
    (tr : List Lab) (b x : Bool) (d : List String) :
    atomicOp f ⟨⟨s, tid, sc, obs, envs, tr, b, x⟩, d⟩ =
      irun_after (popEnv envs s) fun s1 e1 => (.ok (f s1).2.1, ⟨⟨(f s1).1, tid, sc, obs, e1, tr ++ [(f s1).2.2], b, x⟩, d⟩) := rfl
theorem irun_lockOp_apply (ok : Shared → Bool) (f : Nat → Shared → Shared) (lab : Lab) (s : Shared) (tid : Nat) (sc : Script) (obs : Int)
    (envs : List (Shared → Shared)) (tr : List Lab) (b x : Bool) (d : List String) :
    lockOp ok f lab ⟨⟨s, tid, sc, obs, envs, tr, b, x⟩, d⟩ =
      irun_after (popEnv envs s) fun s1 e1 =>
        if ok s1 then (.ok (), ⟨⟨f tid s1, tid, sc, obs, e1, tr ++ [lab], b, x⟩, d⟩)
        else (.nilCall, ⟨⟨s1, tid, sc, obs, e1, tr, true, x⟩, d⟩) := rfl
theorem irun_deliver_apply (ev : Ev) (s : Shared) (tid : Nat) (sc : Script) (obs : Int) (envs : List (Shared → Shared))
    (tr : List Lab) (b x : Bool) (d : List String) :
    deliver ev ⟨⟨s, tid, sc, obs, envs, tr, b, x⟩, d⟩ =
      irun_after (popEnv envs s) fun s1 e1 =>
        (.ok (), ⟨⟨{ s1 with events := s1.events ++ [(tid, ev)] }, tid, sc, obs, e1, tr ++ [.deliver ev], b, x⟩, d⟩) := rfl
theorem irun_deferPrim_apply (c : String) (g : irun_G) : deferPrim c g = (.ok (), { g with defers := c :: g.defers }) := rfl
theorem irun_deferCall0_apply (c : Fn0) (g : irun_G) : deferCall0 c g = (.ok (), { g with defers := "cancel" :: g.defers }) := rfl
theorem irun_Allow_apply (ctx : Ctx) (now : Int) (g : irun_G) : recv_OpenToClose_Allow ctx now g = (.ok g.st.sc.allow, g) := rfl
theorem irun_ShouldClose_apply (ctx : Ctx) (now : Int) (g : irun_G) : recv_OpenToClose_ShouldClose ctx now g = (.ok g.st.sc.shouldClose, g) := rfl
theorem irun_ShouldOpen_apply (ctx : Ctx) (now : Int) (g : irun_G) : recv_ClosedToOpen_ShouldOpen ctx now g = (.ok g.st.sc.shouldOpen, g) := rfl
theorem irun_Prevent_apply (ctx : Ctx) (now : Int) (s : Shared) (tid : Nat) (sc : Script) (obs : Int) (envs : List (Shared → Shared))
    (tr : List Lab) (b x : Bool) (d : List String) :
    recv_ClosedToOpen_Prevent ctx now ⟨⟨s, tid, sc, obs, envs, tr, b, x⟩, d⟩ =
      if sc.prevent = true then (.ok true, ⟨⟨{ s with events := s.events ++ [(tid, .vetoed)] }, tid, sc, obs, envs, tr, b, x⟩, d⟩)
      else (.ok false, ⟨⟨s, tid, sc, obs, envs, tr, b, x⟩, d⟩) := rfl
theorem irun_Add1_apply (s : Shared) (tid : Nat) (sc : Script) (obs : Int) (envs : List (Shared → Shared))
    (tr : List Lab) (b x : Bool) (d : List String) :
    recv_concurrentCommands_Add 1 ⟨⟨s, tid, sc, obs, envs, tr, b, x⟩, d⟩ =
      irun_after (popEnv envs s) fun s1 e1 =>
        (.ok (s1.gauge + 1), ⟨⟨{ s1 with gauge := s1.gauge + 1, region := s1.region ++ [{ tid := tid, obs := s1.gauge + 1, running := false }] },
          tid, sc, s1.gauge + 1, e1, tr ++ [.addGauge 1 (s1.gauge + 1)], b, x⟩, d⟩) := rfl
theorem irun_Timeout_apply (g : irun_G) :
    recv_threadSafeConfig_Execution_ExecutionTimeout_Duration g = (.ok (if g.st.sc.deadline = true then 1 else 0), g) := rfl
theorem irun_WithDeadline_apply (ctx : Ctx) (t : GoTime) (g : irun_G) : context_WithDeadline ctx t g = (.ok (ctx, .release), g) := rfl
theorem irun_timeNow_apply (g : irun_G) : recv_timeNow g = (.ok 1, g) := rfl
theorem irun_IsZero_apply (t : Int) (g : irun_G) : t.m_IsZero g = (.ok (t == 0), g) := rfl
theorem irun_Before_apply (t u : Int) (g : irun_G) : t.m_Before u g = (.ok g.st.sc.late, g) := rfl
theorem irun_mAdd_apply (t u : Int) (g : irun_G) : (t.m_Add u : RM Int) g = (.ok (t + u), g) := rfl
theorem irun_mSub_apply (t u : Int) (g : irun_G) : (t.m_Sub u : RM Int) g = (.ok (t - u), g) := rfl
theorem irun_CtxErr_apply (c : Ctx) (g : irun_G) : c.m_Err g = (.ok (if g.st.sc.ctxDone = true then some 9 else none), g) := rfl
theorem irun_IsBadRequest_apply (e : Err) (g : irun_G) : pkg_IsBadRequest e g = (.ok (e.isSome && g.st.sc.bad), g) := rfl
theorem irun_cfgLock_apply (g : irun_G) : recv_notThreadSafeConfigMu_Lock g = (.ok (), g) := rfl
theorem irun_cfgUnlock_apply (g : irun_G) : recv_notThreadSafeConfigMu_Unlock g = (.ok (), g) := rfl
theorem irun_IsErrInterrupt_apply (g : irun_G) :
    recv_notThreadSafeConfig_Execution_IsErrInterrupt g = (.ok (some fun _ => g.st.sc.classifier), g) := rfl
theorem irun_IgnoreInterrupts_apply (g : irun_G) :
    recv_threadSafeConfig_GoSpecific_IgnoreInterrupts_Get g = (.ok g.st.sc.ignoreInterrupts, g) := rfl
theorem irun_callOpt_apply (f : Err → Bool) (a : Err) (g : irun_G) : (Call1.call (some f) a : RM Bool) g = (.ok (f a), g) := rfl
/-- the user's function: one visible step; it returns its error or panics -/
theorem irun_callRun_apply (f : RunFn) (c : Ctx) (s : Shared) (tid : Nat) (sc : Script) (obs : Int) (envs : List (Shared → Shared))
    (tr : List Lab) (b x : Bool) (d : List String) :
    (Call1.call f c : RM Err) ⟨⟨s, tid, sc, obs, envs, tr, b, x⟩, d⟩ =
      irun_after (popEnv envs s) fun s1 e1 =>
        if sc.panics = true then (.panic 1, ⟨⟨{ s1 with events := s1.events ++ [(tid, .invoked)] }, tid, sc, obs, e1, tr ++ [.invoke], b, x⟩, d⟩)
        else (.ok (if sc.failed = true then userErr else none),
              ⟨⟨{ s1 with events := s1.events ++ [(tid, .invoked)] }, tid, sc, obs, e1, tr ++ [.invoke], b, x⟩, d⟩) := rfl

end Go

/-! ### the model side -/
def irun_isDone : Pc → Bool
  | .done _ => true
  | _ => false

/-- continue the solo run after a step of the model (no step: the run ends in `n`) -/
def irun_next (tid k : Nat) (o : Option (Shared × Local)) (envs : List (Shared → Shared)) (tr : List Lab)
    (n : SoloSt Shared Local Lab) : SoloSt Shared Local Lab :=
  match o with
  | some (s', l') => solo sys view tid k ⟨s', l', envs, tr⟩
  | none => n
theorem irun_next_some (tid k : Nat) (s' : Shared) (l' : Local) (envs : List (Shared → Shared)) (tr : List Lab)
    (n : SoloSt Shared Local Lab) : irun_next tid k (some (s', l')) envs tr n = solo sys view tid k ⟨s', l', envs, tr⟩ := rfl
theorem irun_next_none (tid k : Nat) (envs : List (Shared → Shared)) (tr : List Lab)
    (n : SoloSt Shared Local Lab) : irun_next tid k none envs tr n = n := rfl
theorem irun_next_ite (tid k : Nat) (c : Prop) [Decidable c] (a b : Option (Shared × Local)) (envs : List (Shared → Shared))
    (tr : List Lab) (n : SoloSt Shared Local Lab) :
    irun_next tid k (if c then a else b) envs tr n = if c then irun_next tid k a envs tr n else irun_next tid k b envs tr n := by
  split <;> rfl

def irun_lab (o : Option Lab) (tr : List Lab) : List Lab := match o with | some a => tr ++ [a] | none => tr
theorem irun_lab_some (a : Lab) (tr : List Lab) : irun_lab (some a) tr = tr ++ [a] := rfl
theorem irun_lab_none (tr : List Lab) : irun_lab none tr = tr := rfl

theorem irun_solo_zero (tid : Nat) (st : SoloSt Shared Local Lab) : solo sys view tid 0 st = st := rfl

theorem irun_fin_eq (loc : Local) : view.fin loc = irun_isDone loc.pc := by
  obtain ⟨j, pc, so⟩ := loc
  cases pc <;> rfl

/-- one step of the model's thread, the oracle's move behind `irun_after` -/
theorem irun_solo_step (tid k : Nat) (s : Shared) (loc : Local) (envs : List (Shared → Shared)) (tr : List Lab) :
    solo sys view tid (k + 1) ⟨s, loc, envs, tr⟩ =
      if irun_isDone loc.pc then ⟨s, loc, envs, tr⟩
      else if silent s loc then irun_next tid k (Run.step tid s loc) envs tr ⟨s, loc, envs, tr⟩
      else irun_after (popEnv envs s) fun s1 e1 =>
        irun_next tid k (Run.step tid s1 loc) e1 (irun_lab (label s1 loc) tr) ⟨s1, loc, e1, tr⟩ := by
  have hf := irun_fin_eq loc
  by_cases h : irun_isDone loc.pc = true
  · simp [solo, h, hf]
  have hv : view.silent = silent := rfl
  have hl : view.label = label := rfl
  by_cases hs : silent s loc = true
  · rcases hst : Run.step tid s loc with _ | ⟨s', l'⟩ <;>
      simp [solo, h, hf, hs, hv, hst, sys, irun_next]
  · rcases hst : Run.step tid (popEnv envs s).1 loc with _ | ⟨s', l'⟩ <;>
      simp [solo, h, hf, hs, hv, hl, hst, sys, irun_next, irun_after, irun_lab]
    cases label (popEnv envs s).1 loc <;> rfl

theorem irun_solo_done (tid k : Nat) (s : Shared) (job : Job) (r : Res) (so : Option Bool) (envs : List (Shared → Shared)) (tr : List Lab) :
    solo sys view tid k ⟨s, ⟨job, .done r, so⟩, envs, tr⟩ = ⟨s, ⟨job, .done r, so⟩, envs, tr⟩ := by
  cases k with
  | zero => rfl
  | succ k => rw [irun_solo_step]; rfl

/-- where a transition leaves the thread -/
def irun_finPc : Res → Pc
  | .manual => .done .manual
  | r => .gaugeDec r
theorem irun_finPc_manual : irun_finPc .manual = .done .manual := rfl
theorem irun_finPc_ran (k : Kind) : irun_finPc (.ran k) = .gaugeDec (.ran k) := rfl

/-- inside a transition the model's thread is the `Trans` thread -/
def irun_tstep (s : Shared) (job : Job) (so : Option Bool) (after : Res) (o : Option (Trans.Shared × Trans.Local)) : Option (Shared × Local) :=
  match o with
  | some (t', tl') => some ({ s with t := t' }, ⟨job, if tl'.pc == .done then irun_finPc after else .trans tl' after, so⟩)
  | none => none
theorem irun_tstep_some (s : Shared) (job : Job) (so : Option Bool) (after : Res) (t' : Trans.Shared) (tl' : Trans.Local) :
    irun_tstep s job so after (some (t', tl')) =
      some ({ s with t := t' }, ⟨job, if tl'.pc == .done then irun_finPc after else .trans tl' after, so⟩) := rfl
theorem irun_tstep_none (s : Shared) (job : Job) (so : Option Bool) (after : Res) : irun_tstep s job so after none = none := rfl
theorem irun_tstep_ite (s : Shared) (job : Job) (so : Option Bool) (after : Res) (c : Prop) [Decidable c] (a b : Option (Trans.Shared × Trans.Local)) :
    irun_tstep s job so after (if c then a else b) = if c then irun_tstep s job so after a else irun_tstep s job so after b := by
  split <;> rfl
theorem irun_step_trans (tid : Nat) (s : Shared) (job : Job) (so : Option Bool) (after : Res) (tl : Trans.Local) (h : tl.pc ≠ .done) :
    Run.step tid s ⟨job, .trans tl after, so⟩ = irun_tstep s job so after (Trans.step tid s.t tl) := by
  obtain ⟨tj, tpc⟩ := tl
  cases tpc <;> first
    | exact absurd rfl h
    | (simp only [Run.step, irun_tstep]; split <;> cases after <;> simp_all [irun_finPc])

/-- the user's function: the way it ends decides where the thread goes -/
theorem irun_step_invoke (tid : Nat) (s : Shared) (sc : Script) (so : Option Bool) :
    Run.step tid s ⟨.call sc, .invoke, so⟩ =
      if sc.panics = true then some ({ s with events := s.events ++ [(tid, .invoked)] }, ⟨.call sc, .gaugeDec .panicked, so⟩)
      else some ({ s with events := s.events ++ [(tid, .invoked)] }, ⟨.call sc, .classify, so⟩) := by
  simp only [Run.step]
  split <;> rfl

/-- the model's thread standing at `pc`, not to be run further by `irun_eval` -/
def irun_held (tid k : Nat) (s : Shared) (job : Job) (pc : Pc) (so : Option Bool) (envs : List (Shared → Shared)) (tr : List Lab) :
    SoloSt Shared Local Lab :=
  solo sys view tid k ⟨s, ⟨job, pc, so⟩, envs, tr⟩
section Hold
variable (tid k : Nat) (s : Shared) (job : Job) (so : Option Bool) (envs : List (Shared → Shared)) (tr : List Lab)
theorem irun_hold_fin (r : Res) :
    solo sys view tid k ⟨s, ⟨job, irun_finPc r, so⟩, envs, tr⟩ = irun_held tid k s job (irun_finPc r) so envs tr := rfl
theorem irun_hold_trans (tl : Trans.Local) (r : Res) :
    solo sys view tid k ⟨s, ⟨job, .trans tl r, so⟩, envs, tr⟩ = irun_held tid k s job (.trans tl r) so envs tr := rfl
theorem irun_hold_oFC (kd : Kind) :
    solo sys view tid k ⟨s, ⟨job, .oFC kd, so⟩, envs, tr⟩ = irun_held tid k s job (.oFC kd) so envs tr := rfl
theorem irun_hold_gaugeDec (r : Res) :
    solo sys view tid k ⟨s, ⟨job, .gaugeDec r, so⟩, envs, tr⟩ = irun_held tid k s job (.gaugeDec r) so envs tr := rfl
theorem irun_hold_askPrevent :
    solo sys view tid k ⟨s, ⟨job, .askPrevent, so⟩, envs, tr⟩ = irun_held tid k s job .askPrevent so envs tr := rfl
theorem irun_hold_deliverShort :
    solo sys view tid k ⟨s, ⟨job, .deliverShort, so⟩, envs, tr⟩ = irun_held tid k s job .deliverShort so envs tr := rfl
theorem irun_hold_aFO :
    solo sys view tid k ⟨s, ⟨job, .aFO, so⟩, envs, tr⟩ = irun_held tid k s job .aFO so envs tr := rfl
theorem irun_hold_classify :
    solo sys view tid k ⟨s, ⟨job, .classify, so⟩, envs, tr⟩ = irun_held tid k s job .classify so envs tr := rfl
theorem irun_hold_deliver (kd : Kind) :
    solo sys view tid k ⟨s, ⟨job, .deliver kd, so⟩, envs, tr⟩ = irun_held tid k s job (.deliver kd) so envs tr := rfl
theorem irun_held_def (pc : Pc) :
    irun_held tid k s job pc so envs tr = solo sys view tid k ⟨s, ⟨job, pc, so⟩, envs, tr⟩ := rfl
end Hold

/-! ### the two sides, related along the two trees -/
/-- what is left of the Go side, seen through the callers' continuation `K`, against what is left of the model's run -/
def irun_Rel {α β : Type} (Φ : Out β × irun_G → SoloSt Shared Local Lab → Prop) (K : Out α × irun_G → Out β × irun_G)
    (r : Out α × irun_G) (st : SoloSt Shared Local Lab) : Prop := Φ (K r) st

theorem irun_Rel_after {α β : Type} (Φ : Out β × irun_G → SoloSt Shared Local Lab → Prop) (K : Out α × irun_G → Out β × irun_G)
    (p : Shared × List (Shared → Shared)) (F : Shared → List (Shared → Shared) → Out α × irun_G)
    (G : Shared → List (Shared → Shared) → SoloSt Shared Local Lab)
    (h : ∀ s e, irun_Rel Φ K (F s e) (G s e)) : irun_Rel Φ K (irun_after p F) (irun_after p G) := h _ _
theorem irun_Rel_ite {α β : Type} (Φ : Out β × irun_G → SoloSt Shared Local Lab → Prop) (K : Out α × irun_G → Out β × irun_G)
    (c : Prop) [Decidable c] (a b : Out α × irun_G) (a' b' : SoloSt Shared Local Lab)
    (h₁ : c → irun_Rel Φ K a a') (h₂ : ¬ c → irun_Rel Φ K b b') :
    irun_Rel Φ K (if c then a else b) (if c then a' else b') := by
  split
  · exact h₁ ‹_›
  · exact h₂ ‹_›
theorem irun_Rel_wrap {α β : Type} (Φ : Out β × irun_G → SoloSt Shared Local Lab → Prop) (K : Out α × irun_G → Out β × irun_G)
    (h : Nat) (r : Out α × irun_G) (st : SoloSt Shared Local Lab)
    (H : irun_Rel Φ (fun r => K (irun_wrap h r)) r st) : irun_Rel Φ K (irun_wrap h r) st := H
theorem irun_Rel_bindK {α β γ : Type} (Φ : Out β × irun_G → SoloSt Shared Local Lab → Prop) (K : Out α × irun_G → Out β × irun_G)
    (r : Out γ × irun_G) (f : γ → RM α) (st : SoloSt Shared Local Lab)
    (H : irun_Rel Φ (fun r => K (irun_bindK r f)) r st) : irun_Rel Φ K (irun_bindK r f) st := H
theorem irun_Rel_def {α β : Type} (Φ : Out β × irun_G → SoloSt Shared Local Lab → Prop) (K : Out α × irun_G → Out β × irun_G)
    (r : Out α × irun_G) (st : SoloSt Shared Local Lab) : irun_Rel Φ K r st = Φ (K r) st := rfl

/-- `if !b` the other way round -/
theorem irun_ite_not {β : Type} (b : Bool) (x y : β) : (if (!b) = true then x else y) = if b = true then y else x := by
  cases b <;> rfl

set_option linter.unusedSimpArgs false
/-- symbolic execution of both sides -/
syntax "irun_eval" "[" Lean.Parser.Tactic.simpLemma,* "]" : tactic
macro_rules
  | `(tactic| irun_eval [$ls,*]) => `(tactic|
  simp only
    [irun_fn_apply, irun_bind_apply, irun_bindK_ok, irun_bindK_nilCall, irun_bindK_panic, irun_bindK_after, irun_bindK_ite,
     irun_ite_apply, irun_pure_apply, irun_wrap_ite, irun_wrap_after, irun_wrap_keep, irun_wrap_one, irun_wrap0_cancel, irun_wrap0_dec, irun_wrap0_nil,
     irun_wrap_blocked, irun_wsnd_mk, irun_wsnd_after, irun_wsnd_ite,
     irun_runTok_unlock, irun_runTok_cancel, irun_runTok_dec, irun_runTok_blocked,
     recv_threadSafeConfig_CircuitBreaker_ForceOpen_Get, recv_threadSafeConfig_CircuitBreaker_ForcedClosed_Get, recv_isOpen_Get,
     recv_isOpen_Set, recv_CircuitMetricsCollector_Opened, recv_CircuitMetricsCollector_Closed,
     recv_transitionMu_Lock, recv_transitionMu_Unlock,
     recv_CmdMetricCollector_ErrShortCircuit, recv_CmdMetricCollector_ErrConcurrencyLimitReject, recv_CmdMetricCollector_Success,
     recv_CmdMetricCollector_ErrFailure, recv_CmdMetricCollector_ErrTimeout, recv_CmdMetricCollector_ErrBadRequest,
     recv_CmdMetricCollector_ErrInterrupt,
     irun_atomicOp_apply, irun_lockOp_apply, irun_deliver_apply, irun_deferPrim_apply, irun_deferCall0_apply,
     irun_Allow_apply, irun_ShouldClose_apply, irun_ShouldOpen_apply, irun_Prevent_apply, irun_Add1_apply,
     irun_Timeout_apply, irun_WithDeadline_apply, irun_timeNow_apply, irun_IsZero_apply, irun_Before_apply, irun_mAdd_apply, irun_mSub_apply,
     irun_CtxErr_apply, irun_IsBadRequest_apply, irun_cfgLock_apply, irun_cfgUnlock_apply, irun_IsErrInterrupt_apply,
     irun_IgnoreInterrupts_apply, irun_callOpt_apply, irun_callRun_apply,
     goOr, goAnd, isNil, recv, Option.isNone_some, Option.isNone_none, Option.isSome_some, Option.isSome_none,
     Bool.false_eq_true, if_false, if_true, irun_ite_not, Bool.not_true, Bool.not_false, Bool.false_or, Bool.true_or, Bool.or_false, Bool.or_true,
     Bool.false_and, Bool.true_and, Bool.and_false, Bool.and_true,
     irun_solo_step, irun_solo_zero, irun_solo_done, irun_isDone, label, ↓reduceIte, transLabel, ↓irun_step_trans, ↓irun_step_invoke,
     Run.step, Trans.step,
     irun_next_some, irun_next_none, irun_next_ite, irun_lab_some, irun_lab_none,
     irun_tstep_some, irun_tstep_none, irun_tstep_ite, irun_finPc_ran,
     beq_iff_eq, reduceCtorEq, List.length_nil, List.length_cons,
     Bool.or_eq_false_iff, beq_eq_false_iff_ne, ne_eq, not_false_eq_true, and_self, Bool.or_eq_true, or_true, true_or, or_false, false_or,
     beq_self_eq_true, silent, Kind.looks, $ls,*])

/-- walk the two trees in parallel; what is left are the leaves -/
macro "irun_walk" : tactic => `(tactic|
  repeat' (first
    | (apply irun_Rel_after; intro _ _)
    | (apply irun_Rel_ite <;> intro _)))

/-! ### segments: a callee's body against the model's steps from its entry to its exit, for every continuation -/
theorem irun_IsOpen_apply (s : Shared) (tid : Nat) (sc : Script) (obs : Int) (envs : List (Shared → Shared)) (tr : List Lab) (b x : Bool) (d : List String) :
    go_IsOpen ⟨⟨s, tid, sc, obs, envs, tr, b, x⟩, d⟩ =
      irun_after (popEnv envs s) fun s1 e1 =>
        if s1.t.forceOpen = true then (.ok true, ⟨⟨s1, tid, sc, obs, e1, tr ++ [.loadFO s1.t.forceOpen], b, x⟩, d⟩)
        else irun_after (popEnv e1 s1) fun s2 e2 =>
          if s2.t.forcedClosed = true then (.ok false, ⟨⟨s2, tid, sc, obs, e2, tr ++ [.loadFO s1.t.forceOpen] ++ [.loadFC s2.t.forcedClosed], b, x⟩, d⟩)
          else irun_after (popEnv e2 s2) fun s3 e3 =>
            (.ok s3.t.isOpen, ⟨⟨s3, tid, sc, obs, e3, tr ++ [.loadFO s1.t.forceOpen] ++ [.loadFC s2.t.forcedClosed] ++ [.loadFlag s3.t.isOpen], b, x⟩, d⟩) := by
  simp only [go_IsOpen]
  irun_eval []

/-- `openCircuit` against the model's transition `open`, for every continuation (each override flag loaded once) -/
theorem irun_seg_openCircuit {β : Type} (Φ : Out β × irun_G → SoloSt Shared Local Lab → Prop) (K : Out Unit × irun_G → Out β × irun_G)
    (s : Shared) (tid : Nat) (sc : Script) (obs : Int) (envs : List (Shared → Shared)) (tr : List Lab) (d : List String)
    (job : Job) (so : Option Bool) (after : Res) (ctx : Ctx) (now : Int) (n : Nat) (hn : 9 ≤ n)
    (hnil : ∀ s' e' tr' j r d', Φ (K (.nilCall, ⟨⟨s', tid, sc, obs, e', tr', true, false⟩, d'⟩)) ⟨s', ⟨job, .trans ⟨j, .start⟩ r, so⟩, e', tr'⟩)
    (hok : ∀ s' e' tr' k', n ≤ k' + 9 →
      Φ (K (.ok (), ⟨⟨s', tid, sc, obs, e', tr', false, false⟩, d⟩)) (solo sys view tid k' ⟨s', ⟨job, irun_finPc after, so⟩, e', tr'⟩)) :
    irun_Rel Φ K (go_openCircuit ctx now ⟨⟨s, tid, sc, obs, envs, tr, false, false⟩, d⟩)
      (solo sys view tid n ⟨s, ⟨job, .trans { job := .open, pc := .start } after, so⟩, envs, tr⟩) := by
  obtain ⟨k, rfl⟩ : ∃ k, n = k + 9 := ⟨n - 9, by omega⟩
  simp only [go_openCircuit]
  irun_eval [↓irun_hold_fin]
  irun_walk
  all_goals first | exact hok _ _ _ _ (by omega) | exact hnil _ _ _ _ _ _

/-- `close` against the model's transition `close`, for every continuation (each override flag loaded once) -/
theorem irun_seg_close {β : Type} (Φ : Out β × irun_G → SoloSt Shared Local Lab → Prop) (K : Out Unit × irun_G → Out β × irun_G)
    (s : Shared) (tid : Nat) (sc : Script) (obs : Int) (envs : List (Shared → Shared)) (tr : List Lab) (d : List String)
    (job : Job) (so : Option Bool) (after : Res) (ctx : Ctx) (now : Int) (force a : Bool) (ha : force = false → a = sc.shouldClose)
    (n : Nat) (hn : 10 ≤ n)
    (hnil : ∀ s' e' tr' j r d', Φ (K (.nilCall, ⟨⟨s', tid, sc, obs, e', tr', true, false⟩, d'⟩)) ⟨s', ⟨job, .trans ⟨j, .start⟩ r, so⟩, e', tr'⟩)
    (hok : ∀ s' e' tr' k', n ≤ k' + 10 →
      Φ (K (.ok (), ⟨⟨s', tid, sc, obs, e', tr', false, false⟩, d⟩)) (solo sys view tid k' ⟨s', ⟨job, irun_finPc after, so⟩, e', tr'⟩)) :
    irun_Rel Φ K (go_close ctx now force ⟨⟨s, tid, sc, obs, envs, tr, false, false⟩, d⟩)
      (solo sys view tid n ⟨s, ⟨job, .trans { job := .close force a, pc := .start } after, so⟩, envs, tr⟩) := by
  obtain ⟨k, rfl⟩ : ∃ k, n = k + 10 := ⟨n - 10, by omega⟩
  simp only [go_close]
  cases force
  · obtain rfl := ha rfl
    cases hsc : sc.shouldClose <;>
    · irun_eval [↓irun_hold_fin, hsc]
      irun_walk
      all_goals first | exact hok _ _ _ _ (by omega) | exact hnil _ _ _ _ _ _
  · cases a <;>
    · irun_eval [↓irun_hold_fin]
      irun_walk
      all_goals first | exact hok _ _ _ _ (by omega) | exact hnil _ _ _ _ _ _

/-- `attemptToOpen` -/
theorem irun_seg_attemptToOpen {β : Type} (Φ : Out β × irun_G → SoloSt Shared Local Lab → Prop) (K : Out Unit × irun_G → Out β × irun_G)
    (s : Shared) (tid : Nat) (sc : Script) (obs : Int) (envs : List (Shared → Shared)) (tr : List Lab) (d : List String)
    (so : Option Bool) (kd : Kind) (ctx : Ctx) (now : Int) (n : Nat) (hn : 15 ≤ n)
    (hnil : ∀ s' e' tr' j r d', Φ (K (.nilCall, ⟨⟨s', tid, sc, obs, e', tr', true, false⟩, d'⟩)) ⟨s', ⟨.call sc, .trans ⟨j, .start⟩ r, so⟩, e', tr'⟩)
    (hok : ∀ s' e' tr' k', n ≤ k' + 15 →
      Φ (K (.ok (), ⟨⟨s', tid, sc, obs, e', tr', false, false⟩, d⟩)) (solo sys view tid k' ⟨s', ⟨.call sc, .gaugeDec (.ran kd), so⟩, e', tr'⟩)) :
    irun_Rel Φ K (go_attemptToOpen ctx now ⟨⟨s, tid, sc, obs, envs, tr, false, false⟩, d⟩)
      (solo sys view tid n ⟨s, ⟨.call sc, .oFC kd, so⟩, envs, tr⟩) := by
  obtain ⟨k, rfl⟩ : ∃ k, n = k + 15 := ⟨n - 15, by omega⟩
  simp only [go_attemptToOpen]
  irun_eval [irun_IsOpen_apply, ↓irun_hold_trans, ↓irun_hold_gaugeDec]
  irun_walk
  all_goals first
    | exact hok _ _ _ _ (by omega)
    | (apply irun_Rel_wrap; apply irun_Rel_bindK
       apply irun_seg_openCircuit _ _ _ _ _ _ _ _ _ _ _ _ _ _ _ (by omega)
       · intro s' e' tr' j r d'
         simp only [irun_bindK_nilCall, irun_wrap_blocked]
         exact hnil _ _ _ _ _ _
       · intro s' e' tr' k' hk
         irun_eval [↓irun_hold_gaugeDec]
         exact hok _ _ _ _ (by omega))

/-- `checkErrFailure` for a failure -/
theorem irun_seg_failure {β : Type} (Φ : Out β × irun_G → SoloSt Shared Local Lab → Prop) (K : Out Bool × irun_G → Out β × irun_G)
    (s : Shared) (tid : Nat) (sc : Script) (obs : Int) (envs : List (Shared → Shared)) (tr : List Lab) (d : List String)
    (so : Option Bool) (ctx : Ctx) (ret : Err) (hret : ret.isNone = false) (t dd : Int) (n : Nat) (hn : 20 ≤ n)
    (hnil : ∀ s' e' tr' j r d', Φ (K (.nilCall, ⟨⟨s', tid, sc, obs, e', tr', true, false⟩, d'⟩)) ⟨s', ⟨.call sc, .trans ⟨j, .start⟩ r, so⟩, e', tr'⟩)
    (hok : ∀ s' e' tr' k', n ≤ k' + 20 →
      Φ (K (.ok true, ⟨⟨s', tid, sc, obs, e', tr', false, false⟩, d⟩)) (solo sys view tid k' ⟨s', ⟨.call sc, .gaugeDec (.ran .failure), so⟩, e', tr'⟩)) :
    irun_Rel Φ K (go_checkErrFailure ctx ret t dd ⟨⟨s, tid, sc, obs, envs, tr, false, false⟩, d⟩)
      (solo sys view tid n ⟨s, ⟨.call sc, .deliver .failure, so⟩, envs, tr⟩) := by
  obtain ⟨k, rfl⟩ : ∃ k, n = k + 20 := ⟨n - 20, by omega⟩
  simp only [go_checkErrFailure]
  irun_eval [irun_IsOpen_apply, ↓irun_hold_oFC, ↓irun_hold_gaugeDec, hret]
  irun_walk
  all_goals first
    | exact hok _ _ _ _ (by omega)
    | (apply irun_Rel_wrap; apply irun_Rel_bindK
       apply irun_seg_attemptToOpen _ _ _ _ _ _ _ _ _ _ _ _ _ _ (by omega)
       · intro s' e' tr' j r d'
         simp only [irun_bindK_nilCall, irun_wrap_blocked]
         exact hnil _ _ _ _ _ _
       · intro s' e' tr' k' hk
         irun_eval [↓irun_hold_gaugeDec]
         exact hok _ _ _ _ (by omega))

/-- `checkErrTimeout` for a timeout -/
theorem irun_seg_timeout {β : Type} (Φ : Out β × irun_G → SoloSt Shared Local Lab → Prop) (K : Out Bool × irun_G → Out β × irun_G)
    (s : Shared) (tid : Nat) (sc : Script) (obs : Int) (envs : List (Shared → Shared)) (tr : List Lab) (d : List String)
    (so : Option Bool) (ctx : Ctx) (exp : Int) (hz : (exp == 0) = false) (hl : sc.late = true) (t dd : Int) (n : Nat) (hn : 20 ≤ n)
    (hnil : ∀ s' e' tr' j r d', Φ (K (.nilCall, ⟨⟨s', tid, sc, obs, e', tr', true, false⟩, d'⟩)) ⟨s', ⟨.call sc, .trans ⟨j, .start⟩ r, so⟩, e', tr'⟩)
    (hok : ∀ s' e' tr' k', n ≤ k' + 20 →
      Φ (K (.ok true, ⟨⟨s', tid, sc, obs, e', tr', false, false⟩, d⟩)) (solo sys view tid k' ⟨s', ⟨.call sc, .gaugeDec (.ran .timeout), so⟩, e', tr'⟩)) :
    irun_Rel Φ K (go_checkErrTimeout ctx exp t dd ⟨⟨s, tid, sc, obs, envs, tr, false, false⟩, d⟩)
      (solo sys view tid n ⟨s, ⟨.call sc, .deliver .timeout, so⟩, envs, tr⟩) := by
  obtain ⟨k, rfl⟩ : ∃ k, n = k + 20 := ⟨n - 20, by omega⟩
  simp only [go_checkErrTimeout]
  irun_eval [irun_IsOpen_apply, ↓irun_hold_oFC, ↓irun_hold_gaugeDec, hz, hl]
  irun_walk
  all_goals first
    | exact hok _ _ _ _ (by omega)
    | (apply irun_Rel_wrap; apply irun_Rel_bindK
       apply irun_seg_attemptToOpen _ _ _ _ _ _ _ _ _ _ _ _ _ _ (by omega)
       · intro s' e' tr' j r d'
         simp only [irun_bindK_nilCall, irun_wrap_blocked]
         exact hnil _ _ _ _ _ _
       · intro s' e' tr' k' hk
         irun_eval [↓irun_hold_gaugeDec]
         exact hok _ _ _ _ (by omega))

/-- `checkSuccess` -/
theorem irun_seg_success {β : Type} (Φ : Out β × irun_G → SoloSt Shared Local Lab → Prop) (K : Out Unit × irun_G → Out β × irun_G)
    (s : Shared) (tid : Nat) (sc : Script) (obs : Int) (envs : List (Shared → Shared)) (tr : List Lab) (d : List String)
    (so : Option Bool) (ctx : Ctx) (t dd : Int) (n : Nat) (hn : 15 ≤ n)
    (hnil : ∀ s' e' tr' j r d', Φ (K (.nilCall, ⟨⟨s', tid, sc, obs, e', tr', true, false⟩, d'⟩)) ⟨s', ⟨.call sc, .trans ⟨j, .start⟩ r, so⟩, e', tr'⟩)
    (hok : ∀ s' e' tr' k', n ≤ k' + 15 →
      Φ (K (.ok (), ⟨⟨s', tid, sc, obs, e', tr', false, false⟩, d⟩)) (solo sys view tid k' ⟨s', ⟨.call sc, .gaugeDec (.ran .success), so⟩, e', tr'⟩)) :
    irun_Rel Φ K (go_checkSuccess ctx t dd ⟨⟨s, tid, sc, obs, envs, tr, false, false⟩, d⟩)
      (solo sys view tid n ⟨s, ⟨.call sc, .deliver .success, so⟩, envs, tr⟩) := by
  obtain ⟨k, rfl⟩ : ∃ k, n = k + 15 := ⟨n - 15, by omega⟩
  simp only [go_checkSuccess]
  irun_eval [irun_IsOpen_apply, ↓irun_hold_trans, ↓irun_hold_gaugeDec]
  irun_walk
  all_goals first
    | exact hok _ _ _ _ (by omega)
    | (apply irun_Rel_wrap; apply irun_Rel_bindK
       apply irun_seg_close _ _ _ _ _ _ _ _ _ _ _ _ _ _ _ _ (fun _ => rfl) _ (by omega)
       · intro s' e' tr' j r d'
         simp only [irun_bindK_nilCall, irun_wrap_blocked]
         exact hnil _ _ _ _ _ _
       · intro s' e' tr' k' hk
         irun_eval [↓irun_hold_gaugeDec]
         exact hok _ _ _ _ (by omega))

/-- `checkErrBadRequest` for a bad request -/
theorem irun_seg_badRequest {β : Type} (Φ : Out β × irun_G → SoloSt Shared Local Lab → Prop) (K : Out Bool × irun_G → Out β × irun_G)
    (s : Shared) (tid : Nat) (sc : Script) (obs : Int) (envs : List (Shared → Shared)) (tr : List Lab) (d : List String)
    (so : Option Bool) (ctx : Ctx) (ret : Err) (hb : (ret.isSome && sc.bad) = true) (t dd : Int) (n : Nat) (hn : 2 ≤ n)
    (hok : ∀ s' e' tr' k', n ≤ k' + 2 →
      Φ (K (.ok true, ⟨⟨s', tid, sc, obs, e', tr', false, false⟩, d⟩)) (solo sys view tid k' ⟨s', ⟨.call sc, .gaugeDec (.ran .badRequest), so⟩, e', tr'⟩)) :
    irun_Rel Φ K (go_checkErrBadRequest ctx ret t dd ⟨⟨s, tid, sc, obs, envs, tr, false, false⟩, d⟩)
      (solo sys view tid n ⟨s, ⟨.call sc, .deliver .badRequest, so⟩, envs, tr⟩) := by
  obtain ⟨k, rfl⟩ : ∃ k, n = k + 2 := ⟨n - 2, by omega⟩
  simp only [go_checkErrBadRequest]
  irun_eval [↓irun_hold_gaugeDec, hb]
  irun_walk
  all_goals exact hok _ _ _ _ (by omega)

/-- `checkErrInterrupt` for an interrupt -/
theorem irun_seg_interrupt {β : Type} (Φ : Out β × irun_G → SoloSt Shared Local Lab → Prop) (K : Out Bool × irun_G → Out β × irun_G)
    (s : Shared) (tid : Nat) (sc : Script) (obs : Int) (envs : List (Shared → Shared)) (tr : List Lab) (d : List String)
    (so : Option Bool) (ctx octx : Ctx) (ret : Err) (hret : ret.isNone = false) (hc : sc.ctxDone = true) (hi : sc.ignoreInterrupts = false)
    (hcl : sc.classifier = true) (t dd : Int) (n : Nat) (hn : 2 ≤ n)
    (hok : ∀ s' e' tr' k', n ≤ k' + 2 →
      Φ (K (.ok true, ⟨⟨s', tid, sc, obs, e', tr', false, false⟩, d⟩)) (solo sys view tid k' ⟨s', ⟨.call sc, .gaugeDec (.ran .interrupt), so⟩, e', tr'⟩)) :
    irun_Rel Φ K (go_checkErrInterrupt ctx octx ret t dd ⟨⟨s, tid, sc, obs, envs, tr, false, false⟩, d⟩)
      (solo sys view tid n ⟨s, ⟨.call sc, .deliver .interrupt, so⟩, envs, tr⟩) := by
  obtain ⟨k, rfl⟩ : ∃ k, n = k + 2 := ⟨n - 2, by omega⟩
  simp only [go_checkErrInterrupt]
  irun_eval [↓irun_hold_gaugeDec, hret, hc, hi, hcl]
  irun_walk
  all_goals exact hok _ _ _ _ (by omega)

/-! the links of the chain that do not fire: no step, answer `false` -/
theorem irun_badRequest_no (ctx : Ctx) (ret : Err) (t dd : Int) (s : Shared) (tid : Nat) (sc : Script) (obs : Int)
    (envs : List (Shared → Shared)) (tr : List Lab) (b x : Bool) (d : List String) (h : (ret.isSome && sc.bad) = false) :
    go_checkErrBadRequest ctx ret t dd ⟨⟨s, tid, sc, obs, envs, tr, b, x⟩, d⟩ = (.ok false, ⟨⟨s, tid, sc, obs, envs, tr, b, x⟩, d⟩) := by
  simp only [go_checkErrBadRequest]
  irun_eval [h]

theorem irun_timeout_no (ctx : Ctx) (exp : Int) (t dd : Int) (s : Shared) (tid : Nat) (sc : Script) (obs : Int)
    (envs : List (Shared → Shared)) (tr : List Lab) (b x : Bool) (d : List String) (h : ((!(exp == 0)) && sc.late) = false) :
    go_checkErrTimeout ctx exp t dd ⟨⟨s, tid, sc, obs, envs, tr, b, x⟩, d⟩ = (.ok false, ⟨⟨s, tid, sc, obs, envs, tr, b, x⟩, d⟩) := by
  simp only [go_checkErrTimeout]
  cases hz : (exp == 0) <;> cases hl : sc.late <;> simp only [hz, hl] at h <;> first | contradiction | irun_eval [hz, hl]

theorem irun_interrupt_no (ctx octx : Ctx) (ret : Err) (t dd : Int) (s : Shared) (tid : Nat) (sc : Script) (obs : Int)
    (envs : List (Shared → Shared)) (tr : List Lab) (b x : Bool) (d : List String)
    (h : (ret.isSome && sc.ctxDone && !sc.ignoreInterrupts && sc.classifier) = false) :
    go_checkErrInterrupt ctx octx ret t dd ⟨⟨s, tid, sc, obs, envs, tr, b, x⟩, d⟩ = (.ok false, ⟨⟨s, tid, sc, obs, envs, tr, b, x⟩, d⟩) := by
  simp only [go_checkErrInterrupt]
  cases ret <;> cases hc : sc.ctxDone <;> cases hi : sc.ignoreInterrupts <;> cases hcl : sc.classifier <;>
    simp only [hc, hi, hcl] at h <;> first | (simp at h; done) | irun_eval [hc, hi, hcl]

theorem irun_failure_no (ctx : Ctx) (t dd : Int) (s : Shared) (tid : Nat) (sc : Script) (obs : Int)
    (envs : List (Shared → Shared)) (tr : List Lab) (b x : Bool) (d : List String) :
    go_checkErrFailure ctx none t dd ⟨⟨s, tid, sc, obs, envs, tr, b, x⟩, d⟩ = (.ok false, ⟨⟨s, tid, sc, obs, envs, tr, b, x⟩, d⟩) := by
  simp only [go_checkErrFailure]
  irun_eval []

/-- `throttleConcurrentCommands`: one load, the ghost `running` mark on admission -/
theorem irun_throttle_apply (v : Int) (s : Shared) (tid : Nat) (sc : Script) (envs : List (Shared → Shared)) (tr : List Lab) (b x : Bool)
    (d : List String) :
    go_throttleConcurrentCommands v ⟨⟨s, tid, sc, v, envs, tr, b, x⟩, d⟩ =
      irun_after (popEnv envs s) fun s1 e1 =>
        if s1.limit ≥ 0 ∧ v > s1.limit then
          (.ok pkg_errThrottledConcurrentCommands, ⟨⟨s1, tid, sc, v, e1, tr ++ [.loadLimit s1.limit], b, x⟩, d⟩)
        else (.ok none, ⟨⟨{ s1 with region := s1.region.map fun e => if e.tid = tid then { e with running := true } else e }, tid, sc, v, e1,
                          tr ++ [.loadLimit s1.limit], b, x⟩, d⟩) := by
  simp only [go_throttleConcurrentCommands, recv_threadSafeConfig_Execution_MaxConcurrentRequests_Get, irun_fn_apply, irun_bind_apply, irun_after]
  generalize popEnv envs s = p
  obtain ⟨s1, e1⟩ := p
  by_cases h1 : s1.limit ≥ 0 <;> by_cases h2 : v > s1.limit <;>
    simp only [h1, h2, irun_bindK_ok, irun_pure_apply, irun_ite_apply, if_true, if_false, decide_true, decide_false, Bool.not_true, Bool.not_false,
      Bool.false_eq_true, and_self, and_true, and_false, Bool.and_self, Bool.and_true, Bool.and_false, irun_wrap_keep, not_true_eq_false,
      not_false_eq_true, true_and, false_and, Bool.true_and, Bool.false_and] <;> rfl


/-- `allowNewRun`: true ⇔ the thread goes on to ask the opener's veto, false ⇔ it delivers the short-circuit event -/
theorem irun_seg_allowNewRun {β : Type} (Φ : Out β × irun_G → SoloSt Shared Local Lab → Prop) (K : Out Bool × irun_G → Out β × irun_G)
    (s : Shared) (tid : Nat) (sc : Script) (obs : Int) (envs : List (Shared → Shared)) (tr : List Lab) (d : List String)
    (so : Option Bool) (ctx : Ctx) (now : Int) (n : Nat) (hn : 6 ≤ n)
    (hyes : ∀ s' e' tr' so' k', n ≤ k' + 6 →
      Φ (K (.ok true, ⟨⟨s', tid, sc, obs, e', tr', false, false⟩, d⟩)) (solo sys view tid k' ⟨s', ⟨.call sc, .askPrevent, so'⟩, e', tr'⟩))
    (hno : ∀ s' e' tr' so' k', n ≤ k' + 6 →
      Φ (K (.ok false, ⟨⟨s', tid, sc, obs, e', tr', false, false⟩, d⟩)) (solo sys view tid k' ⟨s', ⟨.call sc, .deliverShort, so'⟩, e', tr'⟩)) :
    irun_Rel Φ K (go_allowNewRun ctx now ⟨⟨s, tid, sc, obs, envs, tr, false, false⟩, d⟩)
      (solo sys view tid n ⟨s, ⟨.call sc, .aFO, so⟩, envs, tr⟩) := by
  obtain ⟨k, rfl⟩ : ∃ k, n = k + 6 := ⟨n - 6, by omega⟩
  simp only [go_allowNewRun]
  irun_eval [irun_IsOpen_apply, ↓irun_hold_askPrevent, ↓irun_hold_deliverShort]
  irun_walk
  all_goals first | exact hyes _ _ _ _ _ (by omega) | exact hno _ _ _ _ _ (by omega)

theorem irun_now_apply (cs : RS) (d : List String) : go_now ⟨cs, d⟩ = (.ok 1, ⟨cs, d⟩) := by
  simp only [go_now]
  irun_eval []

/-- the classification chain as `run` has it after the user's function returned -/
def irun_chain (ctx octx : Ctx) (ret : Err) (exp t dd : Int) : RM Err := do
  if (← go_checkErrBadRequest ctx ret t dd) then
    return ret
  if (← go_checkErrTimeout ctx exp t dd) then
    return ret
  if (← go_checkErrInterrupt ctx octx ret t dd) then
    return ret
  if (← go_checkErrFailure ctx ret t dd) then
    return ret
  let _ := (← go_checkSuccess ctx t dd)
  return GoNil.nil

/-- the chain selects exactly `sc.kind`: the model's silent step `classify`, the delivery of that run event and what it triggers -/
theorem irun_seg_chain {β : Type} (Φ : Out β × irun_G → SoloSt Shared Local Lab → Prop) (K : Out Err × irun_G → Out β × irun_G)
    (s : Shared) (tid : Nat) (sc : Script) (obs : Int) (envs : List (Shared → Shared)) (tr : List Lab) (d : List String)
    (so : Option Bool) (ctx octx : Ctx) (ret : Err) (hret : ret = if sc.failed = true then userErr else none)
    (exp : Int) (hexp : (exp == 0) = !sc.deadline) (t dd : Int) (n : Nat) (hn : 22 ≤ n)
    (hnil : ∀ s' e' tr' j r d', Φ (K (.nilCall, ⟨⟨s', tid, sc, obs, e', tr', true, false⟩, d'⟩)) ⟨s', ⟨.call sc, .trans ⟨j, .start⟩ r, so⟩, e', tr'⟩)
    (hok : ∀ s' e' tr' k', n ≤ k' + 22 →
      Φ (K (.ok ret, ⟨⟨s', tid, sc, obs, e', tr', false, false⟩, d⟩)) (solo sys view tid k' ⟨s', ⟨.call sc, .gaugeDec (.ran sc.kind), so⟩, e', tr'⟩)) :
    irun_Rel Φ K (irun_chain ctx octx ret exp t dd ⟨⟨s, tid, sc, obs, envs, tr, false, false⟩, d⟩)
      (solo sys view tid n ⟨s, ⟨.call sc, .classify, so⟩, envs, tr⟩) := by
  obtain ⟨k, rfl⟩ : ∃ k, n = k + 22 := ⟨n - 22, by omega⟩
  have hsome : ret.isSome = sc.failed := by subst hret; cases sc.failed <;> rfl
  simp only [irun_chain, irun_bind_apply]
  cases h1 : (sc.failed && sc.bad)
  case true =>
    have hk : sc.kind = .badRequest := by simp only [Script.kind, h1, if_true]
    rw [hk] at hok
    irun_eval [hk, ↓irun_hold_deliver]
    apply irun_Rel_bindK
    apply irun_seg_badRequest _ _ _ _ _ _ _ _ _ _ _ _ (by rw [hsome]; exact h1) _ _ _ (by omega)
    intro s' e' tr' k' hk'
    irun_eval []
    exact hok _ _ _ _ (by omega)
  case false =>
  rw [irun_badRequest_no (h := by rw [hsome]; exact h1)]
  simp only [irun_bindK_ok, Bool.false_eq_true, if_false, irun_bind_apply]
  cases h2 : (sc.deadline && sc.late)
  case true =>
    have hk : sc.kind = .timeout := by simp only [Script.kind, h1, h2, if_true, Bool.false_eq_true, if_false]
    rw [hk] at hok
    simp only [Bool.and_eq_true] at h2
    irun_eval [hk, ↓irun_hold_deliver]
    apply irun_Rel_bindK
    apply irun_seg_timeout _ _ _ _ _ _ _ _ _ _ _ _ (by rw [hexp, h2.1]; rfl) h2.2 _ _ _ (by omega)
    · intro s' e' tr' j r d'
      simp only [irun_bindK_nilCall]
      exact hnil _ _ _ _ _ _
    · intro s' e' tr' k' hk'
      irun_eval []
      exact hok _ _ _ _ (by omega)
  case false =>
  rw [irun_timeout_no (h := by rw [hexp, Bool.not_not]; exact h2)]
  simp only [irun_bindK_ok, Bool.false_eq_true, if_false, irun_bind_apply]
  cases h3 : (sc.failed && sc.ctxDone && !sc.ignoreInterrupts && sc.classifier)
  case true =>
    have hk : sc.kind = .interrupt := by simp only [Script.kind, h1, h2, h3, if_true, Bool.false_eq_true, if_false]
    rw [hk] at hok
    simp only [Bool.and_eq_true, Bool.not_eq_true'] at h3
    irun_eval [hk, ↓irun_hold_deliver]
    apply irun_Rel_bindK
    apply irun_seg_interrupt _ _ _ _ _ _ _ _ _ _ _ _ _ (by rw [hret, h3.1.1.1]; rfl) h3.1.1.2 h3.1.2 h3.2 _ _ _ (by omega)
    intro s' e' tr' k' hk'
    irun_eval []
    exact hok _ _ _ _ (by omega)
  case false =>
  rw [irun_interrupt_no (h := by rw [hsome]; exact h3)]
  simp only [irun_bindK_ok, Bool.false_eq_true, if_false, irun_bind_apply]
  cases h4 : sc.failed
  case true =>
    have hk : sc.kind = .failure := by unfold Script.kind; rw [h1, h2, h3, h4]; rfl
    rw [hk] at hok
    irun_eval [hk, ↓irun_hold_deliver]
    apply irun_Rel_bindK
    apply irun_seg_failure _ _ _ _ _ _ _ _ _ _ _ _ (by rw [hret, h4]; rfl) _ _ _ (by omega)
    · intro s' e' tr' j r d'
      simp only [irun_bindK_nilCall]
      exact hnil _ _ _ _ _ _
    · intro s' e' tr' k' hk'
      irun_eval []
      exact hok _ _ _ _ (by omega)
  case false =>
    have hk : sc.kind = .success := by unfold Script.kind; rw [h1, h2, h3, h4]; rfl
    rw [hk] at hok
    have hn' : ret = none := by rw [hret, h4]; rfl
    subst hn'
    rw [irun_failure_no]
    irun_eval [hk, ↓irun_hold_deliver]
    apply irun_Rel_bindK
    apply irun_seg_success _ _ _ _ _ _ _ _ _ _ _ _ _ _ (by omega)
    · intro s' e' tr' j r d'
      simp only [irun_bindK_nilCall]
      exact hnil _ _ _ _ _ _
    · intro s' e' tr' k' hk'
      irun_eval []
      exact hok _ _ _ _ (by omega)

end CM.GoTie.IRun

/- GoTie/T_GoRunStats.lean — rolling.RunStats' methods are the model's `Cons.RunStats` functions.
   Every theorem says: the method body as translated TODAY from the Go source (Generated/GoRunStats/F_*.lean) computes the
   model's function. -/
import CircuitProofs.GoTie.Sem
import Generated.GoRunStats
set_option linter.unusedSimpArgs false
namespace CM.GoTie.GoRunStats
open CM CM.Cons CM.Go CM.GoRunStats CM.Generated.GoRunStats

theorem go_Success_eq (u : Unit) (t d : Int) : go_Success u t d = upd (fun s => s.onRun .success t d) := by
  funext g
  rw [go_Success, fn, sem_goFunc_noDefer] <;>
  simp [bind, recv_Successes_Inc, recv_ErrConcurrencyLimitRejects_Inc, recv_ErrFailures_Inc, recv_ErrShortCircuits_Inc,
    recv_ErrTimeouts_Inc, recv_ErrBadRequests_Inc, recv_ErrInterrupts_Inc, recv_Latencies_AddDuration,
    recv_Successes_RollingSumAt, recv_ErrFailures_RollingSumAt, recv_ErrTimeouts_RollingSumAt, RunStats.onRun]

theorem go_ErrFailure_eq (u : Unit) (t d : Int) : go_ErrFailure u t d = upd (fun s => s.onRun .failure t d) := by
  funext g
  rw [go_ErrFailure, fn, sem_goFunc_noDefer] <;>
  simp [bind, recv_Successes_Inc, recv_ErrConcurrencyLimitRejects_Inc, recv_ErrFailures_Inc, recv_ErrShortCircuits_Inc,
    recv_ErrTimeouts_Inc, recv_ErrBadRequests_Inc, recv_ErrInterrupts_Inc, recv_Latencies_AddDuration,
    recv_Successes_RollingSumAt, recv_ErrFailures_RollingSumAt, recv_ErrTimeouts_RollingSumAt, RunStats.onRun]

theorem go_ErrTimeout_eq (u : Unit) (t d : Int) : go_ErrTimeout u t d = upd (fun s => s.onRun .timeout t d) := by
  funext g
  rw [go_ErrTimeout, fn, sem_goFunc_noDefer] <;>
  simp [bind, recv_Successes_Inc, recv_ErrConcurrencyLimitRejects_Inc, recv_ErrFailures_Inc, recv_ErrShortCircuits_Inc,
    recv_ErrTimeouts_Inc, recv_ErrBadRequests_Inc, recv_ErrInterrupts_Inc, recv_Latencies_AddDuration,
    recv_Successes_RollingSumAt, recv_ErrFailures_RollingSumAt, recv_ErrTimeouts_RollingSumAt, RunStats.onRun]

theorem go_ErrBadRequest_eq (u : Unit) (t d : Int) : go_ErrBadRequest u t d = upd (fun s => s.onRun .badRequest t d) := by
  funext g
  rw [go_ErrBadRequest, fn, sem_goFunc_noDefer] <;>
  simp [bind, recv_Successes_Inc, recv_ErrConcurrencyLimitRejects_Inc, recv_ErrFailures_Inc, recv_ErrShortCircuits_Inc,
    recv_ErrTimeouts_Inc, recv_ErrBadRequests_Inc, recv_ErrInterrupts_Inc, recv_Latencies_AddDuration,
    recv_Successes_RollingSumAt, recv_ErrFailures_RollingSumAt, recv_ErrTimeouts_RollingSumAt, RunStats.onRun]

theorem go_ErrInterrupt_eq (u : Unit) (t d : Int) : go_ErrInterrupt u t d = upd (fun s => s.onRun .interrupt t d) := by
  funext g
  rw [go_ErrInterrupt, fn, sem_goFunc_noDefer] <;>
  simp [bind, recv_Successes_Inc, recv_ErrConcurrencyLimitRejects_Inc, recv_ErrFailures_Inc, recv_ErrShortCircuits_Inc,
    recv_ErrTimeouts_Inc, recv_ErrBadRequests_Inc, recv_ErrInterrupts_Inc, recv_Latencies_AddDuration,
    recv_Successes_RollingSumAt, recv_ErrFailures_RollingSumAt, recv_ErrTimeouts_RollingSumAt, RunStats.onRun]

theorem go_ErrConcurrencyLimitReject_eq (u : Unit) (t : Int) : go_ErrConcurrencyLimitReject u t = upd (fun s => s.onRun .reject t 0) := by
  funext g
  rw [go_ErrConcurrencyLimitReject, fn, sem_goFunc_noDefer] <;>
  simp [bind, recv_Successes_Inc, recv_ErrConcurrencyLimitRejects_Inc, recv_ErrFailures_Inc, recv_ErrShortCircuits_Inc,
    recv_ErrTimeouts_Inc, recv_ErrBadRequests_Inc, recv_ErrInterrupts_Inc, recv_Latencies_AddDuration,
    recv_Successes_RollingSumAt, recv_ErrFailures_RollingSumAt, recv_ErrTimeouts_RollingSumAt, RunStats.onRun]

theorem go_ErrShortCircuit_eq (u : Unit) (t : Int) : go_ErrShortCircuit u t = upd (fun s => s.onRun .shortCircuit t 0) := by
  funext g
  rw [go_ErrShortCircuit, fn, sem_goFunc_noDefer] <;>
  simp [bind, recv_Successes_Inc, recv_ErrConcurrencyLimitRejects_Inc, recv_ErrFailures_Inc, recv_ErrShortCircuits_Inc,
    recv_ErrTimeouts_Inc, recv_ErrBadRequests_Inc, recv_ErrInterrupts_Inc, recv_Latencies_AddDuration,
    recv_Successes_RollingSumAt, recv_ErrFailures_RollingSumAt, recv_ErrTimeouts_RollingSumAt, RunStats.onRun]

theorem go_ErrorsAt_eq (t : Int) : go_ErrorsAt t = updRet (fun r =>
    ({ r with failures := (r.failures.sumAt t).1, timeouts := (r.timeouts.sumAt t).1 }, (r.failures.sumAt t).2 + (r.timeouts.sumAt t).2)) := by
  funext g
  rw [go_ErrorsAt, fn, sem_goFunc_noDefer] <;>
  simp [bind, recv_Successes_Inc, recv_ErrConcurrencyLimitRejects_Inc, recv_ErrFailures_Inc, recv_ErrShortCircuits_Inc,
    recv_ErrTimeouts_Inc, recv_ErrBadRequests_Inc, recv_ErrInterrupts_Inc, recv_Latencies_AddDuration,
    recv_Successes_RollingSumAt, recv_ErrFailures_RollingSumAt, recv_ErrTimeouts_RollingSumAt, RunStats.onRun]

theorem go_LegitimateAttemptsAt_eq (t : Int) : go_LegitimateAttemptsAt t = updRet (fun r =>
    ({ r with successes := (r.successes.sumAt t).1, failures := (r.failures.sumAt t).1, timeouts := (r.timeouts.sumAt t).1 },
     (r.successes.sumAt t).2 + ((r.failures.sumAt t).2 + (r.timeouts.sumAt t).2))) := by
  funext g
  rw [go_LegitimateAttemptsAt, go_ErrorsAt_eq, fn, sem_goFunc_noDefer] <;>
  simp [bind, recv_Successes_Inc, recv_ErrConcurrencyLimitRejects_Inc, recv_ErrFailures_Inc, recv_ErrShortCircuits_Inc,
    recv_ErrTimeouts_Inc, recv_ErrBadRequests_Inc, recv_ErrInterrupts_Inc, recv_Latencies_AddDuration,
    recv_Successes_RollingSumAt, recv_ErrFailures_RollingSumAt, recv_ErrTimeouts_RollingSumAt, RunStats.onRun]

end CM.GoTie.GoRunStats

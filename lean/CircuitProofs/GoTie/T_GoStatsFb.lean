/- GoTie/T_GoStatsFb.lean — `(*rolling.FallbackStats).SetConfigNotThreadSafe`, as translated TODAY from
   metrics/rolling/rolling.go (Generated/GoStatsFb/F_*.lean), computes `FSV.setConfig` (GoStatsPrims.lean): one reading of
   the config's clock, three counters — each its own allocation — of the configured width and bucket count. -/
import CircuitProofs.GoTie.T_GoStatsCommon
import Generated.GoStatsFb
set_option linter.unusedSimpArgs false
namespace CM.GoTie.GoStatsFb
open CM CM.Go CM.GoStats CM.GoStats.F CM.Generated.GoStatsFb CM.GoTie.GoStats

/-- `SetConfigNotThreadSafe(cfg)` is `FSV.setConfig`: `cfg.Now` read once; Successes, ErrConcurrencyLimitRejects, ErrFailures
    each get the counter made by their OWN `NewRollingCounter(duration / count, count, now)` call (three consecutive fresh
    allocation ids); Go's panics (nil `Now`, zero count, negative count) where Go raises them, nothing assigned then. -/
theorem go_SetConfigNotThreadSafe_eq (cfg : FSCfg) : go_SetConfigNotThreadSafe cfg = act (fun r w => r.setConfig cfg w) := by
  funext g
  rw [sem_act]
  unfold go_SetConfigNotThreadSafe fn
  cases hN : cfg.f_Now with
  | none =>
    apply sem_goFunc_st
    simp only [sem_bind_step, FSCfg.m_Now, hN, sem_callNow_none, sem_step_nilCall, FSV.setConfig]
  | some k =>
    by_cases h1 : cfg.f_RollingStatsNumBuckets = 0
    · apply sem_goFunc_st
      simp only [sem_bind_step, FSCfg.m_Now, hN, sem_callNow_some, sem_step_ok, FSCfg.m_RollingStatsDuration_Nanoseconds, pkg_int64,
        sem_pure, goDiv_int, h1, bucketWidth_zero, sem_timeDuration_none, sem_step_panic, FSV.setConfig]
    · by_cases h3 : cfg.f_RollingStatsNumBuckets < 0
      · apply sem_goFunc_st
        simp only [sem_bind_step, FSCfg.m_Now, hN, sem_callNow_some, sem_step_ok, FSCfg.m_RollingStatsDuration_Nanoseconds, pkg_int64,
        sem_pure, goDiv_int, bucketWidth_ne _ _ h1, sem_timeDuration_some, sem_newCounter_neg _ _ _ _ h3, sem_step_panic,
          FSV.setConfig, h3, if_true]
      · apply sem_goFunc_st
        simp only [sem_bind_step, FSCfg.m_Now, hN, sem_callNow_some, sem_step_ok, FSCfg.m_RollingStatsDuration_Nanoseconds, pkg_int64,
        sem_pure, goDiv_int, bucketWidth_ne _ _ h1, sem_timeDuration_some, sem_newCounter_ok _ _ _ _ h3, sem_updR,
          recv_Successes_set, recv_ErrConcurrencyLimitRejects_set, recv_ErrFailures_set,
          FSV.setConfig, h3, if_false, List.length_append, List.length_cons, List.length_nil, List.append_assoc,
          List.cons_append, List.nil_append, List.replicate]

/-- after a `SetConfigNotThreadSafe` that returns, the three fields hold THREE DIFFERENT counters, none of which existed
    before (the next three allocation numbers; the log grew by exactly those three constructor calls). -/
theorem setConfig_fresh (r r' : FSV) (cfg : FSCfg) (w w' : World) (u : Unit) (h : r.setConfig cfg w = (.ok u, r', w')) :
    [r'.successes.id, r'.rejects.id, r'.failures.id] = [some w.allocs.length, some (w.allocs.length + 1), some (w.allocs.length + 2)] ∧
    w'.allocs.length = w.allocs.length + 3 ∧ w'.allocs.take w.allocs.length = w.allocs := by
  cases hN : cfg.f_Now with
  | none => simp [FSV.setConfig, hN] at h
  | some k =>
    by_cases h1 : cfg.f_RollingStatsNumBuckets = 0
    · simp [FSV.setConfig, hN, h1, bucketWidth_zero] at h
    by_cases h3 : cfg.f_RollingStatsNumBuckets < 0
    · simp [FSV.setConfig, hN, bucketWidth_ne _ _ h1, h3] at h
    simp only [FSV.setConfig, hN, bucketWidth_ne _ _ h1, h3, if_false, Prod.mk.injEq] at h
    obtain ⟨-, rfl, rfl⟩ := h
    have hl : ((w.read k).2).allocs = w.allocs := by cases k <;> rfl
    refine ⟨?_, ?_, ?_⟩
    · simp [Ctr.fresh, hl]
    · simp [hl]
    · simp [hl]

/-! ### non-vacuity -/
section examples
def w0 : World := { wallAt := fun n => 1000 + n, injAt := fun n => 5000 + 10 * n, allocs := [.counter 1 1 1] }
def g0 : GS (GoStats.St FSV) String := { st := { recv := {}, world := w0 } }
/-- one earlier allocation: the three counters are numbers 1, 2, 3; width 100/4 = 25; one reading of the wall clock -/
example : let r := go_SetConfigNotThreadSafe { f_Now := some .wall, f_RollingStatsDuration := 100, f_RollingStatsNumBuckets := 4 } g0
    (r.1 = .ok () ∧ r.2.st.recv.successes.id = some 1 ∧ r.2.st.recv.rejects.id = some 2 ∧ r.2.st.recv.failures.id = some 3 ∧
     r.2.st.world.allocs = [.counter 1 1 1, .counter 25 4 1000, .counter 25 4 1000, .counter 25 4 1000] ∧
     r.2.st.world.wallReads = 1 ∧ r.2.st.recv.failures.rc = RC.new 4 25 ∧ r.2.st.stuck = false) := by decide
example : (go_SetConfigNotThreadSafe { f_Now := none, f_RollingStatsNumBuckets := 4 } g0).1 = .nilCall := by decide
example : (go_SetConfigNotThreadSafe { f_Now := some .wall, f_RollingStatsNumBuckets := -4 } g0).1 = .panic panicMakeSlice := by decide
end examples

end CM.GoTie.GoStatsFb

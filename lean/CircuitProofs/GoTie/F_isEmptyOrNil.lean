/- GoTie/F_isEmptyOrNil.lean — a constructed circuit is neither nil nor empty
   The generated function is today's translation of circuit.go; callee behaviour enters as HYPOTHESES (the callees'
   own ties are proved in their own modules and put together in GoTie/All.lean), so this module depends on the body of
   `isEmptyOrNil` only. -/
import CircuitModel.GoCircuitSpec
import CircuitProofs.GoTie.Basic
import Generated.GoCircuit.F_isEmptyOrNil
namespace CM.GoTie
open CM CM.Go CM.GoCircuit CM.Generated.GoCircuit
variable {σo σc : Type} [L : Logic σo σc]

theorem go_isEmptyOrNil_eq : go_isEmptyOrNil (σo := σo) (σc := σc) = spec_isEmptyOrNil := by
  funext g
  simp only [go_isEmptyOrNil, spec_isEmptyOrNil]
  rw [gt_fn_keep] <;> gt_eval
  all_goals (repeat' split) <;> simp_all

end CM.GoTie

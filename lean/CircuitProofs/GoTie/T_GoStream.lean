/- GoTie/T_GoStream.lean — the hystrix event-stream record: `collectCommandMetrics`, as translated TODAY from
   metriceventstream.go (Generated/GoStream/F_*.lean), fills every count field of the record with the number
   `Cons.All.streamCounts` says (the function the C20 theorems `stream_record_correct` … speak about), all read at ONE
   instant — the configured clock's reading when the stored config has a TimeKeeper, the wall clock otherwise — together
   with the circuit's name, its current IsOpen answer and its run gauge; the latency block is the snapshot at that
   same instant in whole milliseconds. -/
import CircuitModel.GoStreamPrims
import Generated.GoStream
import CircuitProofs.GoTie.Sem
namespace CM.GoTie.GoStream
open CM CM.Go CM.Cons CM.GoStream CM.Generated.GoStream

/-- the latency block for a snapshot: percentiles in whole milliseconds (truncated), `-1` ns for an empty snapshot -/
def latOf (snap : List Int) : streamCmdLatency :=
  let p (q : Rat) : Int := tdiv ((SD.percentile snap (.fin q)).getD (-1)) 1000000
  { Timing0 := p 0, Timing25 := p 25, Timing50 := p 50, Timing75 := p 75, Timing90 := p 90, Timing95 := p 95, Timing99 := p 99,
    Timing995 := p (199 / 2), Timing100 := p 100 }

/-- the error percentage field: 100 × the double `ErrorPercentageAt` computes, truncated -/
def errPctOf (a : All) (now : Int) : Int :=
  let sums := (a.run.sums now).2
  F64.toInt (F64.mul (F64.ofInt 100) (errorPercentage (sums.getD 0 0) (sums.getD 2 0) (sums.getD 4 0)))

/-! ### the rolling counter: reading twice at one instant -/

theorem rollLoop_nwt (abs : Nat) : ∀ (k : Nat) (c : RC),
    (c.rollLoop abs k).n = c.n ∧ (c.rollLoop abs k).w = c.w ∧ (c.rollLoop abs k).total = c.total
  | 0, _ => ⟨rfl, rfl, rfl⟩
  | k + 1, c => by
    simp only [RC.rollLoop]
    split
    · exact rollLoop_nwt abs k _
    · exact ⟨rfl, rfl, rfl⟩

theorem advance_total' (c : RC) (d : Int) : (c.advance d).1.total = c.total := by
  obtain ⟨_, _, h3⟩ := rollLoop_nwt (absIdx c.w d) c.n c
  simp only [RC.advance]
  split
  · rfl
  split
  · rfl
  split
  · rfl
  split
  · split <;> rfl
  · exact h3

theorem advance_idem (c : RC) (d : Int) : ((c.advance d).1.advance d).1 = (c.advance d).1 := by
  obtain ⟨h1, h2, _⟩ := rollLoop_nwt (absIdx c.w d) c.n c
  by_cases hn : c.n = 0
  · simp [RC.advance, hn]
  by_cases hd : d < 0
  · simp [RC.advance, hn, hd]
  by_cases he : absIdx c.w d = c.last
  · simp [RC.advance, hn, hd, he]
  by_cases hl : absIdx c.w d < c.last
  · by_cases hw : c.last - absIdx c.w d ≥ c.n <;> simp [RC.advance, hn, hd, he, hl, hw]
  · have e : (c.advance d).1 = { c.rollLoop (absIdx c.w d) c.n with last := absIdx c.w d } := by
      simp [RC.advance, hn, hd, he, hl]
    rw [e]
    simp [RC.advance, h1, h2, hn, hd]

theorem sumAt_idem (c : RC) (t : Int) : (c.sumAt t).1.sumAt t = c.sumAt t := by
  simp only [RC.sumAt, advance_idem]

theorem sumAt_total (c : RC) (t : Int) : (c.sumAt t).1.total = c.total := advance_total' c t


/-- reading `c` at `now` gives what reading `c0` at `now` gives, and the totals agree -/
def Same (now : Int) (c c0 : RC) : Prop := c.sumAt now = c0.sumAt now ∧ c.total = c0.total

theorem Same.refl (now : Int) (c : RC) : Same now c c := ⟨rfl, rfl⟩
theorem Same.step {now : Int} {c c0 : RC} (h : Same now c c0) : Same now (c.sumAt now).1 c0 :=
  ⟨by rw [sumAt_idem, h.1], by rw [sumAt_total, h.2]⟩

/-- the state while the record is being filled: some of the ten counters have been rolled to `now`, nothing else differs
    from `w` but the percentile window -/
structure Inv (w : StreamW) (now : Int) (s : StreamW) : Prop where
  r1 : Same now s.all.run.successes w.all.run.successes
  r2 : Same now s.all.run.rejects w.all.run.rejects
  r3 : Same now s.all.run.failures w.all.run.failures
  r4 : Same now s.all.run.shortCircuits w.all.run.shortCircuits
  r5 : Same now s.all.run.timeouts w.all.run.timeouts
  r6 : Same now s.all.run.badRequests w.all.run.badRequests
  r7 : Same now s.all.run.interrupts w.all.run.interrupts
  f1 : Same now s.all.fb.successes w.all.fb.successes
  f2 : Same now s.all.fb.rejects w.all.fb.rejects
  f3 : Same now s.all.fb.failures w.all.fb.failures
  cfg : s.cfg = w.cfg
  isOpen : s.isOpen = w.isOpen
  name : s.name = w.name
  conc : s.conc = w.conc
  statsDur : s.statsDur = w.statsDur

/-- from every state satisfying `P` the computation returns `v` normally, leaves a state satisfying `Q` and the defer stack as it was -/
def Ev {α : Type} (P Q : StreamW → Prop) (m : EM α) (v : α) : Prop :=
  ∀ g : GS StreamW NoTok, P g.st → ∃ g', m g = (.ok v, g') ∧ Q g'.st ∧ g'.defers = g.defers

theorem Ev.bind {α β : Type} {P Q R : StreamW → Prop} {m : EM α} {f : α → EM β} {v : α} {u : β}
    (h1 : Ev P Q m v) (h2 : Ev Q R (f v) u) : Ev P R (m >>= f) u := by
  intro g hg
  obtain ⟨g1, e1, q1, d1⟩ := h1 g hg
  obtain ⟨g2, e2, q2, d2⟩ := h2 g1 q1
  exact ⟨g2, by rw [sem_bind_ok m f g g1 v e1, e2], q2, d2.trans d1⟩

theorem Ev.pure' {α : Type} {P : StreamW → Prop} {m : EM α} {v : α} (h : ∀ g, m g = (.ok v, g)) : Ev P P m v :=
  fun g hg => ⟨g, h g, hg, rfl⟩

theorem Ev.read {α : Type} {P : StreamW → Prop} {v : α} (f : StreamW → α) (h : ∀ s, P s → f s = v) : Ev P P (CM.rd f) v :=
  fun g hg => ⟨g, by rw [sem_rd, h _ hg], hg, rfl⟩

theorem Ev.readAt {α : Type} {w : StreamW} (f : StreamW → α) : Ev (· = w) (· = w) (CM.rd f) (f w) :=
  Ev.read f fun _ h => by rw [h]

theorem Ev.ite {α : Type} {P Q : StreamW → Prop} {c : Prop} [Decidable c] {a b : EM α} {v1 v2 : α}
    (h1 : Ev P Q a v1) (h2 : Ev P Q b v2) : Ev P Q (if c then a else b) (if c then v1 else v2) := by
  split
  · exact h1
  · exact h2

theorem Ev.fn {α : Type} {P Q : StreamW → Prop} {body : EM α} {v : α} (h : Ev P Q body v) : Ev P Q (fn body) v := by
  intro g hg
  obtain ⟨g1, e1, q1, d1⟩ := h g hg
  refine ⟨g1, ?_, q1, d1⟩
  show goFunc noTok body g = _
  rw [sem_goFunc_noDefer noTok body g (by rw [e1]; exact d1), e1]


section prims
variable {w : StreamW} {now : Int}

theorem ev_runSum (get : RunStats → RC) (put : RunStats → RC → RunStats)
    (hget : ∀ s, Inv w now s → Same now (get s.all.run) (get w.all.run))
    (hput : ∀ s c, Inv w now s → Same now c (get w.all.run) → Inv w now { s with all := { s.all with run := put s.all.run c } }) :
    Ev (Inv w now) (Inv w now) (runSum get put .attached now) ((get w.all.run).sumAt now).2 := by
  intro g hg
  refine ⟨{ g with st := { g.st with all := { g.st.all with run := put g.st.all.run ((get g.st.all.run).sumAt now).1 } } }, ?_,
    hput g.st _ hg (hget g.st hg).step, rfl⟩
  rw [← show ((get g.st.all.run).sumAt now).2 = ((get w.all.run).sumAt now).2 by rw [(hget g.st hg).1]]
  rfl

theorem ev_fbSum (get : FbStats → RC) (put : FbStats → RC → FbStats)
    (hget : ∀ s, Inv w now s → Same now (get s.all.fb) (get w.all.fb))
    (hput : ∀ s c, Inv w now s → Same now c (get w.all.fb) → Inv w now { s with all := { s.all with fb := put s.all.fb c } }) :
    Ev (Inv w now) (Inv w now) (fbSum get put .attached now) ((get w.all.fb).sumAt now).2 := by
  intro g hg
  refine ⟨{ g with st := { g.st with all := { g.st.all with fb := put g.st.all.fb ((get g.st.all.fb).sumAt now).1 } } }, ?_,
    hput g.st _ hg (hget g.st hg).step, rfl⟩
  rw [← show ((get g.st.all.fb).sumAt now).2 = ((get w.all.fb).sumAt now).2 by rw [(hget g.st hg).1]]
  rfl

theorem ev_r1 : Ev (Inv w now) (Inv w now) (RSH.m_Successes_RollingSumAt .attached now) (w.all.run.successes.sumAt now).2 :=
  ev_runSum _ _ (fun _ h => h.r1) (fun _ _ h hc => { h with r1 := hc })
theorem ev_r2 : Ev (Inv w now) (Inv w now) (RSH.m_ErrConcurrencyLimitRejects_RollingSumAt .attached now) (w.all.run.rejects.sumAt now).2 :=
  ev_runSum _ _ (fun _ h => h.r2) (fun _ _ h hc => { h with r2 := hc })
theorem ev_r3 : Ev (Inv w now) (Inv w now) (RSH.m_ErrFailures_RollingSumAt .attached now) (w.all.run.failures.sumAt now).2 :=
  ev_runSum _ _ (fun _ h => h.r3) (fun _ _ h hc => { h with r3 := hc })
theorem ev_r4 : Ev (Inv w now) (Inv w now) (RSH.m_ErrShortCircuits_RollingSumAt .attached now) (w.all.run.shortCircuits.sumAt now).2 :=
  ev_runSum _ _ (fun _ h => h.r4) (fun _ _ h hc => { h with r4 := hc })
theorem ev_r5 : Ev (Inv w now) (Inv w now) (RSH.m_ErrTimeouts_RollingSumAt .attached now) (w.all.run.timeouts.sumAt now).2 :=
  ev_runSum _ _ (fun _ h => h.r5) (fun _ _ h hc => { h with r5 := hc })
theorem ev_r6 : Ev (Inv w now) (Inv w now) (RSH.m_ErrBadRequests_RollingSumAt .attached now) (w.all.run.badRequests.sumAt now).2 :=
  ev_runSum _ _ (fun _ h => h.r6) (fun _ _ h hc => { h with r6 := hc })
theorem ev_r7 : Ev (Inv w now) (Inv w now) (RSH.m_ErrInterrupts_RollingSumAt .attached now) (w.all.run.interrupts.sumAt now).2 :=
  ev_runSum _ _ (fun _ h => h.r7) (fun _ _ h hc => { h with r7 := hc })
theorem ev_f1 : Ev (Inv w now) (Inv w now) (FSH.m_Successes_RollingSumAt .attached now) (w.all.fb.successes.sumAt now).2 :=
  ev_fbSum _ _ (fun _ h => h.f1) (fun _ _ h hc => { h with f1 := hc })
theorem ev_f2 : Ev (Inv w now) (Inv w now) (FSH.m_ErrConcurrencyLimitRejects_RollingSumAt .attached now) (w.all.fb.rejects.sumAt now).2 :=
  ev_fbSum _ _ (fun _ h => h.f2) (fun _ _ h hc => { h with f2 := hc })
theorem ev_f3 : Ev (Inv w now) (Inv w now) (FSH.m_ErrFailures_RollingSumAt .attached now) (w.all.fb.failures.sumAt now).2 :=
  ev_fbSum _ _ (fun _ h => h.f3) (fun _ _ h hc => { h with f3 := hc })

theorem ev_t1 : Ev (Inv w now) (Inv w now) (RSH.m_Successes_TotalSum .attached) w.all.run.successes.total :=
  Ev.read (P := Inv w now) _ fun _ h => h.r1.2
theorem ev_t2 : Ev (Inv w now) (Inv w now) (RSH.m_ErrConcurrencyLimitRejects_TotalSum .attached) w.all.run.rejects.total :=
  Ev.read (P := Inv w now) _ fun _ h => h.r2.2
theorem ev_t3 : Ev (Inv w now) (Inv w now) (RSH.m_ErrFailures_TotalSum .attached) w.all.run.failures.total :=
  Ev.read (P := Inv w now) _ fun _ h => h.r3.2
theorem ev_t4 : Ev (Inv w now) (Inv w now) (RSH.m_ErrShortCircuits_TotalSum .attached) w.all.run.shortCircuits.total :=
  Ev.read (P := Inv w now) _ fun _ h => h.r4.2
theorem ev_t5 : Ev (Inv w now) (Inv w now) (RSH.m_ErrTimeouts_TotalSum .attached) w.all.run.timeouts.total :=
  Ev.read (P := Inv w now) _ fun _ h => h.r5.2
theorem ev_t6 : Ev (Inv w now) (Inv w now) (RSH.m_ErrBadRequests_TotalSum .attached) w.all.run.badRequests.total :=
  Ev.read (P := Inv w now) _ fun _ h => h.r6.2
theorem ev_t7 : Ev (Inv w now) (Inv w now) (RSH.m_ErrInterrupts_TotalSum .attached) w.all.run.interrupts.total :=
  Ev.read (P := Inv w now) _ fun _ h => h.r7.2
theorem ev_g1 : Ev (Inv w now) (Inv w now) (FSH.m_Successes_TotalSum .attached) w.all.fb.successes.total :=
  Ev.read (P := Inv w now) _ fun _ h => h.f1.2
theorem ev_g2 : Ev (Inv w now) (Inv w now) (FSH.m_ErrConcurrencyLimitRejects_TotalSum .attached) w.all.fb.rejects.total :=
  Ev.read (P := Inv w now) _ fun _ h => h.f2.2
theorem ev_g3 : Ev (Inv w now) (Inv w now) (FSH.m_ErrFailures_TotalSum .attached) w.all.fb.failures.total :=
  Ev.read (P := Inv w now) _ fun _ h => h.f3.2

theorem ev_cfg (cb : CircH) : Ev (Inv w now) (Inv w now) cb.m_Config w.cfg := Ev.read (P := Inv w now) _ fun _ h => h.cfg
theorem ev_name (cb : CircH) : Ev (Inv w now) (Inv w now) cb.m_Name w.name := Ev.read (P := Inv w now) _ fun _ h => h.name
theorem ev_isOpen (cb : CircH) : Ev (Inv w now) (Inv w now) cb.m_IsOpen w.isOpen := Ev.read (P := Inv w now) _ fun _ h => h.isOpen
theorem ev_conc (cb : CircH) : Ev (Inv w now) (Inv w now) cb.m_ConcurrentCommands w.conc := Ev.read (P := Inv w now) _ fun _ h => h.conc
theorem ev_rscfg : Ev (Inv w now) (Inv w now) (RSH.m_Config .attached) ⟨w.statsDur⟩ :=
  Ev.read (P := Inv w now) (fun s => (⟨s.statsDur⟩ : RSCfg)) fun _ h => by rw [h.statsDur]

theorem ev_errorsAt : Ev (Inv w now) (Inv w now) (RSH.m_ErrorsAt .attached now)
    ((w.all.run.failures.sumAt now).2 + (w.all.run.timeouts.sumAt now).2) :=
  Ev.bind ev_r3 (Ev.bind ev_r5 (Ev.pure' fun _ => rfl))
theorem ev_attemptsAt : Ev (Inv w now) (Inv w now) (RSH.m_LegitimateAttemptsAt .attached now)
    ((w.all.run.successes.sumAt now).2 + ((w.all.run.failures.sumAt now).2 + (w.all.run.timeouts.sumAt now).2)) :=
  Ev.bind ev_r1 (Ev.bind ev_errorsAt (Ev.pure' fun _ => rfl))



theorem gp_995 : (99.5 : GoP) = ⟨199 / 2⟩ := by
  show GoP.mk _ = _
  congr 1
  rw [if_pos rfl]
  grind

theorem ev_lat {P : StreamW → Prop} (snap : Snap) : Ev P P (go_generateLatencyTimings snap) (latOf snap.l) := by
  refine Ev.fn (Ev.pure' fun g => ?_)
  rw [gp_995]
  rfl


theorem ev_errPct : Ev (Inv w now) (Inv w now) (RSH.m_ErrorPercentageAt .attached now)
    (if ((w.all.run.successes.sumAt now).2 + ((w.all.run.failures.sumAt now).2 + (w.all.run.timeouts.sumAt now).2) == 0) = true
      then ⟨0⟩
      else ⟨F64.div (F64.ofInt ((w.all.run.failures.sumAt now).2 + (w.all.run.timeouts.sumAt now).2))
              (F64.ofInt ((w.all.run.successes.sumAt now).2 + ((w.all.run.failures.sumAt now).2 + (w.all.run.timeouts.sumAt now).2)))⟩) :=
  Ev.bind ev_attemptsAt (Ev.ite (Ev.pure' fun _ => rfl) (Ev.bind ev_errorsAt (Ev.pure' fun _ => rfl)))

theorem ev_snap : Ev (· = w) (Inv w now) (RSH.m_Latencies_SnapshotAt .attached now) ⟨(w.all.run.latencies.snapshot now).2⟩ := by
  intro g hg
  refine ⟨{ g with st := { w with all := { w.all with run := { w.all.run with latencies := (w.all.run.latencies.snapshot now).1 } } } },
    ?_, ?_, rfl⟩
  · obtain ⟨s, d⟩ := g
    subst hg
    rfl
  · exact ⟨.refl _ _, .refl _ _, .refl _ _, .refl _ _, .refl _ _, .refl _ _, .refl _ _, .refl _ _, .refl _ _, .refl _ _,
      rfl, rfl, rfl, rfl, rfl⟩

end prims

/-- one step of the record: a primitive whose effect is known, then the rest -/
macro "ev_prim" : tactic => `(tactic| first
  | exact ev_r1 | exact ev_r2 | exact ev_r3 | exact ev_r4 | exact ev_r5 | exact ev_r6 | exact ev_r7
  | exact ev_f1 | exact ev_f2 | exact ev_f3
  | exact ev_t1 | exact ev_t2 | exact ev_t3 | exact ev_t4 | exact ev_t5 | exact ev_t6 | exact ev_t7
  | exact ev_g1 | exact ev_g2 | exact ev_g3
  | exact ev_cfg _ | exact ev_name _ | exact ev_isOpen _ | exact ev_conc _ | exact ev_rscfg
  | exact ev_errorsAt | exact ev_attemptsAt | exact ev_errPct | exact ev_snap | exact ev_lat _
  | exact Ev.readAt _
  | exact Ev.pure' fun _ => rfl)
macro "ev_step" : tactic => `(tactic| (apply Ev.bind; (· ev_prim); try dsimp only))

theorem isNil_rsh_attached : isNil RSH.attached = false := rfl
theorem isNil_fsh_attached : isNil FSH.attached = false := rfl
theorem isNil_rsh_nil : isNil RSH.nil = true := rfl
theorem isNil_fsh_nil : isNil FSH.nil = true := rfl
theorem isNil_some (u : Unit) : isNil (some u) = false := rfl
theorem isNil_none : isNil (none : Option Unit) = true := rfl

/-- what the theorems say about the record -/
def Props (w : StreamW) (m : streamCmdMetric) : Prop :=
  countsOf m = w.all.streamCounts w.now w.isOpen ∧
      m.Name = w.name ∧ m.CurrentConcurrentExecutionCount = w.conc ∧ m.ErrorPct = errPctOf w.all w.now ∧
      m.LatencyExecute = latOf (w.all.run.latencies.snapshot w.now).2 ∧ m.LatencyTotal = latOf (w.all.run.latencies.snapshot w.now).2 ∧
      m.LatencyExecuteMean = tdiv (SD.mean (w.all.run.latencies.snapshot w.now).2) 1000000 ∧
      m.LatencyTotalMean = tdiv (SD.mean (w.all.run.latencies.snapshot w.now).2) 1000000 ∧
      m.CircuitBreakerForceOpen = w.cfg.f_General.f_ForceOpen ∧ m.CircuitBreakerForceClosed = w.cfg.f_General.f_ForcedClosed ∧
      m.CircuitBreakerEnabled = !w.cfg.f_General.f_Disabled

/-- the clock the record is read at: the stored config's TimeKeeper when it has one, the wall clock otherwise -/
theorem ev_now {β : Type} {w : StreamW} {Q : StreamW → Prop} (k : Int → EM β) (u : β) (h : Ev (· = w) Q (k w.now) u) :
    Ev (· = w) Q (if (!isNil w.cfg.f_General.f_TimeKeeper.f_Now) = true
      then Call0.call w.cfg.f_General.f_TimeKeeper.f_Now >>= k else k w.wall) u := by
  unfold StreamW.now at h
  cases hnow : w.cfg.f_General.f_TimeKeeper.f_Now with
  | none => rw [hnow] at h; exact h
  | some x => rw [hnow] at h; exact Ev.bind (Ev.readAt _) h

theorem errPct_eq (s f t : Int) :
    F64.toInt ((100 : GoF64) * (if (s + (f + t) == 0) = true then (⟨0⟩ : GoF64)
      else ⟨F64.div (F64.ofInt (f + t)) (F64.ofInt (s + (f + t)))⟩)).r
    = F64.toInt (F64.mul (F64.ofInt 100) (errorPercentage s f t)) := by
  unfold errorPercentage
  rw [← Int.add_assoc]
  by_cases h : s + f + t = 0
  · simp only [h, beq_self_eq_true, if_true]; rfl
  · simp only [h, beq_iff_eq, if_false]; rfl

theorem collect_attached (w : StreamW) (hr : w.runAttached = true) (hf : w.fbAttached = true) :
    ∃ m, Ev (· = w) (Inv w w.now) (go_collectCommandMetrics {}) m ∧ Props w m := by
  unfold go_collectCommandMetrics
  refine ⟨?m, Ev.fn ?ev, ?props⟩
  case ev =>
    refine Ev.bind (Ev.readAt _) ?_
    simp only [hr, if_true, isNil_rsh_attached, Bool.false_eq_true, if_false]
    refine Ev.bind (Ev.readAt _) ?_
    simp only [hf, if_true, isNil_fsh_attached, Bool.false_eq_true, if_false]
    ev_step
    ev_step
    refine ev_now _ _ ?_
    repeat ev_step
    apply Ev.pure'; intro _; rfl
  case props =>
    refine ⟨?_, rfl, rfl, ?_, rfl, rfl, rfl, rfl, rfl, rfl, rfl⟩
    · simp [countsOf, All.streamCounts, RunStats.sums, RunStats.totals, FbStats.sums, Int.add_assoc]
    · exact errPct_eq _ _ _


/-- MAIN: with both collectors attached -/
theorem stream_record_tie (w : StreamW) (hr : w.runAttached = true) (hf : w.fbAttached = true) :
    ∃ m g', go_collectCommandMetrics {} { st := w, defers := [] } = (.ok m, g') ∧ g'.defers = [] ∧
      countsOf m = w.all.streamCounts w.now w.isOpen ∧
      m.Name = w.name ∧ m.CurrentConcurrentExecutionCount = w.conc ∧ m.ErrorPct = errPctOf w.all w.now ∧
      m.LatencyExecute = latOf (w.all.run.latencies.snapshot w.now).2 ∧ m.LatencyTotal = latOf (w.all.run.latencies.snapshot w.now).2 ∧
      m.LatencyExecuteMean = tdiv (SD.mean (w.all.run.latencies.snapshot w.now).2) 1000000 ∧
      m.LatencyTotalMean = tdiv (SD.mean (w.all.run.latencies.snapshot w.now).2) 1000000 ∧
      m.CircuitBreakerForceOpen = w.cfg.f_General.f_ForceOpen ∧ m.CircuitBreakerForceClosed = w.cfg.f_General.f_ForcedClosed ∧
      m.CircuitBreakerEnabled = !w.cfg.f_General.f_Disabled := by
  obtain ⟨m, hev, hp⟩ := collect_attached w hr hf
  obtain ⟨g', e, _, d⟩ := hev { st := w, defers := [] } rfl
  exact ⟨m, g', e, d, hp⟩

section zero
variable {P : StreamW → Prop} {now : Int}
theorem ev_z_errorsAt : Ev P P (RSH.m_ErrorsAt .zero now) 0 := Ev.pure' fun _ => rfl
theorem ev_z_attemptsAt : Ev P P (RSH.m_LegitimateAttemptsAt .zero now) 0 := Ev.pure' fun _ => rfl
theorem ev_z_errPct : Ev P P (RSH.m_ErrorPercentageAt .zero now) ⟨0⟩ := Ev.pure' fun _ => rfl
end zero

theorem errPct_zero : F64.toInt ((100 : GoF64) * (⟨0⟩ : GoF64)).r = 0 := by
  show F64.toInt (F64.rne (F64.ofInt (100 : Nat) * 0)) = 0
  rw [Rat.mul_zero]
  simp [F64.rne, F64.toInt]
  rfl

macro "ev_zprim" : tactic => `(tactic| first
  | exact ev_z_errorsAt | exact ev_z_attemptsAt | exact ev_z_errPct | exact ev_lat _ | exact Ev.readAt _
  | exact Ev.pure' fun _ => rfl)
macro "ev_zstep" : tactic => `(tactic| (apply Ev.bind; (· ev_zprim); try dsimp only))

theorem collect_detached (w : StreamW) (hr : w.runAttached = false) (hf : w.fbAttached = false) :
    ∃ m, Ev (· = w) (· = w) (go_collectCommandMetrics {}) m ∧
      countsOf m = { requestCount := 0, errorCount := 0, rollS := 0, rollRej := 0, rollF := 0, rollSC := 0, rollT := 0, rollBad := 0,
                     cntS := 0, cntRej := 0, cntF := 0, cntSC := 0, cntT := 0, cntBad := 0, fbRollS := 0, fbRollRej := 0, fbRollF := 0,
                     fbCntS := 0, fbCntRej := 0, fbCntF := 0, isOpen := w.isOpen } ∧
      m.Name = w.name ∧ m.ErrorPct = 0 := by
  unfold go_collectCommandMetrics
  refine ⟨?m, Ev.fn ?ev, ?props⟩
  case ev =>
    refine Ev.bind (Ev.readAt _) ?_
    rw [hr, if_neg Bool.false_ne_true]
    dsimp only
    rw [isNil_rsh_nil, if_pos rfl]
    dsimp only [lit_rolling_RunStats]
    refine Ev.bind (Ev.readAt _) ?_
    rw [hf, if_neg Bool.false_ne_true]
    rw [isNil_fsh_nil, if_pos rfl]
    dsimp only [lit_rolling_FallbackStats]
    ev_zstep
    ev_zstep
    refine ev_now _ _ ?_
    repeat ev_zstep
    apply Ev.pure'; intro _; rfl
  case props =>
    refine ⟨rfl, rfl, errPct_zero⟩

/-- a circuit without the rolling collectors is still shown: every count reads zero, the state is still reported -/
theorem stream_record_detached (w : StreamW) (hr : w.runAttached = false) (hf : w.fbAttached = false) :
    ∃ m g', go_collectCommandMetrics {} { st := w, defers := [] } = (.ok m, g') ∧ g'.st.all = w.all ∧
      countsOf m = { requestCount := 0, errorCount := 0, rollS := 0, rollRej := 0, rollF := 0, rollSC := 0, rollT := 0, rollBad := 0,
                     cntS := 0, cntRej := 0, cntF := 0, cntSC := 0, cntT := 0, cntBad := 0, fbRollS := 0, fbRollRej := 0, fbRollF := 0,
                     fbCntS := 0, fbCntRej := 0, fbCntF := 0, isOpen := w.isOpen } ∧
      m.Name = w.name ∧ m.ErrorPct = 0 := by
  obtain ⟨m, hev, hp⟩ := collect_detached w hr hf
  obtain ⟨g', e, q, _⟩ := hev { st := w, defers := [] } rfl
  exact ⟨m, g', e, by rw [q], hp⟩

end CM.GoTie.GoStream

/- GoTie/T_GoRPSnap.lean — `RollingPercentile.SnapshotAt(now)` and `Snapshot()`, as translated TODAY from
   faststats/rolling_percentile.go: `SnapshotAt` IS `SortedDurations(now)` — the model's `RP.snapshot now`, the function C15's
   snapshot refinement speaks about — and `Snapshot()` is `SnapshotAt` at ONE reading of the wall clock. -/
import CircuitModel.GoFsnewPrims
import CircuitProofs.GoTie.Sem
import CircuitProofs.GoTie.T_GoRollingPercentile
import Generated.GoRPSnap
namespace CM.GoTie.GoRPSnap
open CM CM.Go CM.GoFsNew CM.GoFsNew.PW CM.Generated.GoRPSnap

/-- `SnapshotAt(now)` rolls the window to `now` and returns every bucket's valid durations in ascending order:
    `RP.snapshot now` (the clock is not read). -/
theorem go_SnapshotAt_eq (now : Int) : go_SnapshotAt now = onObj (updRet fun (r : RP) => r.snapshot now) := by
  funext g
  unfold go_SnapshotAt fn
  apply sem_goFunc_st _ _ g _ { g.st with obj := (g.st.obj.snapshot now).1 }
  simp only [sem_bind_step, recv_SortedDurations, pkg_SortedDurations, onObj, sem_updRet, sem_step_ok, sem_pure]

/-- … which is today's translated `SortedDurations(now)` (tied to `RP.snapshot` by `GoRP.go_SortedDurations_eq`). -/
theorem go_SnapshotAt_is_SortedDurations (now : Int) :
    go_SnapshotAt now = onObj (CM.Generated.GoRollingPercentile.go_SortedDurations now) := by
  rw [go_SnapshotAt_eq, CM.GoTie.GoRP.go_SortedDurations_eq]

/-- `Snapshot()` takes exactly one reading `t` of the wall clock and is `SnapshotAt(t)`: `RP.snapshot t`. -/
theorem go_Snapshot_eq : go_Snapshot = atWallTime (fun t (r : RP) => r.snapshot t) := by
  funext g
  unfold go_Snapshot fn atWallTime
  rw [sem_updRet]
  apply sem_goFunc_st
  simp only [sem_bind_step, time_Now, wallNow, go_SnapshotAt_eq, onObj, sem_updRet, sem_step_ok]

theorem go_Snapshot_is_SnapshotAt : go_Snapshot = (wallNow >>= fun t => go_SnapshotAt t) := by
  rw [go_Snapshot_eq]
  funext g
  simp only [sem_bind_step, wallNow, sem_updRet, sem_step_ok, go_SnapshotAt_eq, onObj, atWallTime]

/-! ### non-vacuity -/

/-- three samples (7 and 3 at time 5, 9 at time 15; buckets of width 10, 3 of them, capacity 2); the wall clock reads 25, then 125 -/
def fsnew_wp : Walled RP := { obj := (((RP.new 3 10 2).add 7 5).add 3 5).add 9 15, clock := fun k => 100 * k + 25 }
example : (Go.run (go_SnapshotAt 16) fsnew_wp).1 = .ok [3, 7, 9] ∧ (Go.run (go_SnapshotAt 16) fsnew_wp).2.reads = 0 := by decide
example : (Go.run go_Snapshot fsnew_wp).1 = .ok [3, 7, 9] ∧ (Go.run go_Snapshot fsnew_wp).2.reads = 1
    ∧ (Go.run go_Snapshot fsnew_wp).2.obj.last = 2 := by decide
example : (Go.run go_Snapshot { fsnew_wp with reads := 1 }).1 = .ok [] := by decide

end CM.GoTie.GoRPSnap

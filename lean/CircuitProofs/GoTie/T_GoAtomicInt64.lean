/- GoTie/T_GoAtomicInt64.lean — faststats.AtomicInt64 as translated TODAY: `Get` is exactly one `atomic.Int64.Load` of the
   embedded word, `Set(n)` exactly one `atomic.Int64.Store`, `Duration` one `Get` reinterpreted as nanoseconds, `String` the
   decimal of one `Get`.  (`Add`, `CompareAndSwap`, `Swap` are not wrappers: they are sync/atomic's own methods, promoted
   from the embedded `atomic.Int64` — there is no body in faststats/atomic.go to translate.) -/
import CircuitModel.GoErrsPrims
import CircuitProofs.GoTie.Sem
import Generated.GoAtomicInt64
namespace CM.GoTie.GoAtomicInt64
open CM CM.Go CM.GoTie CM.GoAtomic CM.GoAtomic.I CM.Generated.GoAtomicInt64

/-- TIE. `Get()`: one load, the word itself; nothing changes -/
theorem go_Get_eq : go_Get = rd (·.v) := by
  funext g
  rw [go_Get, I.fn]
  exact sem_goFunc_pure _ _ g _ rfl

/-- TIE. `Set(n)`: one store of `n`, whatever the word held -/
theorem go_Set_eq (n : Int) : go_Set n = upd (fun _ => { v := n }) := by
  funext g
  rw [go_Set, I.fn]
  exact sem_goFunc_st _ _ g _ _ rfl

/-- TIE. `Duration()`: one load; the int64 read as a time.Duration (same number of nanoseconds) -/
theorem go_Duration_eq : go_Duration = rd (·.v) := by
  funext g
  rw [go_Duration, I.fn]
  refine sem_goFunc_pure _ _ g _ ?_
  simp only [sem_bind_step, go_Get_eq, sem_rd, sem_step_ok, time_Duration, sem_pure]

/-- TIE. `String()`: the decimal representation of one load -/
theorem go_String_eq : go_String = rd (fun a => toString a.v) := by
  funext g
  rw [go_String, I.fn]
  refine sem_goFunc_pure _ _ g _ ?_
  simp only [sem_bind_step, go_Get_eq, sem_rd, sem_step_ok, strconv_FormatInt, if_true, sem_pure]

/-- the word is an Int field: `Get` after `Set n` reads `n` -/
theorem get_after_set (n : Int) (g : GS AtomicI64 NoTok) : (go_Get (go_Set n g).2).1 = .ok n := by
  simp only [go_Set_eq, go_Get_eq, sem_upd, sem_rd]

/-! ### non-vacuity -/
example : run (go_Set (-5)) { v := 3 } = (.ok (), { v := -5 }) := by rw [go_Set_eq]; rfl
example : run go_Get { v := 42 } = (.ok 42, { v := 42 }) := by rw [go_Get_eq]; rfl
example : run go_Duration { v := 1000000 } = (.ok 1000000, { v := 1000000 }) := by rw [go_Duration_eq]; rfl
example : (run go_String { v := -12 }).1 = .ok "-12" := by rw [go_String_eq]; decide

end CM.GoTie.GoAtomicInt64

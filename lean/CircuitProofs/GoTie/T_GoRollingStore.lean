/- GoTie/T_GoRollingStore.lean — `RollingBuckets.Store`, as translated TODAY from faststats/rolling_bucket.go: the receiver
   becomes a copy of the argument (three plain fields and the atomic word). -/
import CircuitModel.GoCtorPrims
import CircuitProofs.GoTie.Sem
import Generated.GoRollingStore
namespace CM.GoTie.GoRollingStore
open CM CM.Go CM.GoRollingStore CM.Generated.GoRollingStore

/-- `r.Store(b)`: afterwards `r` holds exactly `b`'s geometry and `b`'s newest index — whatever it held before. -/
theorem go_Store_eq (b : RB) (g : GS RB NoTok) : go_Store b g = (.ok (), { g with st := b }) := by
  rw [go_Store, fn]
  exact sem_goFunc_st _ _ _ _ _ rfl

/-- non-vacuity: a ring of 10 x 100 ns at index 7 overwrites a different one -/
example : run (go_Store ⟨10, 5, 100, 7⟩) ⟨3, 1, 2, 99⟩ = (.ok (), ⟨10, 5, 100, 7⟩) := by decide

end CM.GoTie.GoRollingStore

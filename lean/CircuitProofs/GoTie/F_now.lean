/- GoTie/F_now.lean — `c.now()` reads the substitute clock once
   The generated function is today's translation of circuit.go; callee behaviour enters as HYPOTHESES (the callees'
   own ties are proved in their own modules and put together in GoTie/All.lean), so this module depends on the body of
   `now` only. -/
import CircuitModel.GoCircuitSpec
import CircuitProofs.GoTie.Basic
import Generated.GoCircuit.F_now
namespace CM.GoTie
open CM CM.Go CM.GoCircuit CM.Generated.GoCircuit
variable {σo σc : Type} [L : Logic σo σc]

theorem go_now_eq : go_now (σo := σo) (σc := σc) = spec_now := by
  funext g
  simp only [go_now, spec_now]
  rw [gt_fn_keep] <;> gt_eval

end CM.GoTie

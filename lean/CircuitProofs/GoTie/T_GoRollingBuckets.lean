/- GoTie/T_GoRollingBuckets.lean — `RollingBuckets.Advance`, as translated TODAY from faststats/rolling_bucket.go
   (sequential meaning of CompareAndSwap; the function calls itself, so it carries a fuel argument: two levels are
   enough), computes the model's `RC.advance` — the function C13's refinement theorem and C15/C20 stand on. -/
import CircuitModel.GoRollingPrims
import CircuitProofs.GoTie.Sem
import CircuitProofs.Lemmas.RC
import Generated.GoRollingBuckets
namespace CM.GoTie.GoRolling
open CM CM.Go CM.GoRolling CM.GoRolling.B CM.Generated.GoRollingBuckets

/-! ### helpers -/

theorem goDiv_absIdx (w now : Int) (hw : 0 < w) (h0 : 0 ≤ now) : goDiv now w = ((absIdx w now : Nat) : Int) := by
  have : 0 ≤ now / w := Int.ediv_nonneg h0 (by omega)
  simp only [goDiv, tdiv, absIdx]
  rw [Int.tdiv_eq_ediv_of_nonneg h0]
  omega

theorem goMod_nat (a n : Nat) : goMod (a : Int) (n : Int) = ((a % n : Nat) : Int) := rfl

theorem go_Advance_noRoll (c : RC) (hw : 0 < c.w) (f : Nat) (now : Int) (d : List NoTok)
    (h : c.n = 0 ∨ now < 0 ∨ absIdx c.w now ≤ c.last) :
    go_Advance (f + 1) now .counter { st := c, defers := d }
      = (.ok (idxOf (c.advance now).2), { st := (c.advance now).1, defers := d }) := by
  rw [go_Advance]
  apply sem_goFunc_st _ _ { st := c, defers := d } _ (c.advance now).1
  simp only [sem_bind_step, recv_NumBuckets, recv_StartTime, recv_BucketWidth_Nanoseconds, recv_LastAbsIndex_Get,
    pkg_int, pkg_int64, Int.m_Sub, Int.m_Nanoseconds, sem_rd, sem_step_ok, sem_pure, sem_ite_apply]
  simp only [beq_iff_eq, decide_eq_true_eq, Int.sub_zero, RC.advance]
  by_cases hn : c.n = 0
  · rw [if_pos (show (c.n : Int) = 0 by omega), if_pos hn]; rfl
  rw [if_neg (show ¬ (c.n : Int) = 0 by omega), if_neg hn]
  by_cases h0 : now < 0
  · rw [if_pos h0, if_pos h0]; rfl
  rw [if_neg h0, if_neg h0, goDiv_absIdx _ _ hw (by omega)]
  have hle : absIdx c.w now ≤ c.last := by omega
  generalize absIdx c.w now = abs at *
  by_cases he : abs = c.last
  · rw [if_pos (show (abs : Int) - c.last = 0 by omega), if_pos he]; rfl
  rw [if_neg (show ¬ (abs : Int) - c.last = 0 by omega), if_neg he,
    if_pos (show (abs : Int) - c.last < 0 by omega), if_pos (show abs < c.last by omega)]
  by_cases hge : c.last - abs ≥ c.n
  · rw [if_pos (show -((abs : Int) - c.last) ≥ c.n by omega), if_pos hge]; rfl
  · rw [if_neg (show ¬ -((abs : Int) - c.last) ≥ c.n by omega), if_neg hge]; rfl

theorem call_clear (idx : Int) : (Call1.call ClearFn.counter idx : QM Unit) = upd fun c => c.clear idx.toNat := rfl

theorem rollLoop_w (abs : Nat) : ∀ (k : Nat) (c : RC), (c.rollLoop abs k).w = c.w
  | 0, _ => rfl
  | k + 1, c => by
    simp only [RC.rollLoop]
    split
    · exact rollLoop_w abs k _
    · rfl

theorem goRange_length (n : Nat) : (goRange (n : Int)).length = n := by simp [goRange]

theorem go_Advance_same (c : RC) (hw : 0 < c.w) (f : Nat) (now : Int) (d : List NoTok)
    (hn : c.n ≠ 0) (h0 : 0 ≤ now) (he : absIdx c.w now = c.last) :
    go_Advance (f + 1) now .counter { st := c, defers := d }
      = (.ok ((c.last % c.n : Nat) : Int), { st := c, defers := d }) := by
  rw [go_Advance_noRoll c hw f now d (by omega)]
  simp only [RC.advance, if_neg hn, if_neg (show ¬ now < 0 by omega), he, if_true, idxOf]

theorem roll_forIn (A : Nat) (d : List NoTok)
    (body : Int → Option Int × Int → QM (ForInStep (Option Int × Int)))
    (hdone : ∀ i (c' : RC), ¬ c'.last < A →
      body i (none, (c'.last : Int)) { st := c', defers := d } = (.ok (.done (none, (c'.last : Int))), { st := c', defers := d }))
    (hyield : ∀ i (c' : RC), c'.last < A →
      body i (none, (c'.last : Int)) { st := c', defers := d }
        = (.ok (.yield (none, ((c'.last + 1 : Nat) : Int))),
            { st := ({ c' with last := c'.last + 1 }).clear ((c'.last + 1) % c'.n), defers := d })) :
    ∀ (l : List Int) (c' : RC), forIn l (none, (c'.last : Int)) body { st := c', defers := d }
      = (.ok (none, ((c'.rollLoop A l.length).last : Int)), { st := c'.rollLoop A l.length, defers := d }) := by
  intro l
  induction l with
  | nil => intro c'; rfl
  | cons i l ih =>
    intro c'
    rw [List.forIn_cons, sem_bind_step]
    by_cases h : c'.last < A
    · rw [hyield i c' h, sem_step_ok]
      simp only [List.length_cons, RC.rollLoop, if_pos h]
      exact ih ({ c' with last := c'.last + 1 }.clear ((c'.last + 1) % c'.n))
    · rw [hdone i c' h, sem_step_ok]
      simp only [List.length_cons, RC.rollLoop, if_neg h]
      rfl

/-- for every counter state with a positive bucket width, every instant (before the start included) and any fuel ≥ 2 -/
theorem go_Advance_eq (c : RC) (hw : 0 < c.w) (fuel : Nat) (hf : 2 ≤ fuel) (now : Int) (d : List NoTok) :
    go_Advance fuel now .counter { st := c, defers := d } = (.ok (idxOf (c.advance now).2), { st := (c.advance now).1, defers := d }) := by
  obtain ⟨f, rfl⟩ : ∃ f, fuel = f + 2 := ⟨fuel - 2, by omega⟩
  by_cases h : c.n = 0 ∨ now < 0 ∨ absIdx c.w now ≤ c.last
  · exact go_Advance_noRoll c hw (f + 1) now d h
  have hn : c.n ≠ 0 := by omega
  have h0 : 0 ≤ now := by omega
  have hlt : c.last < absIdx c.w now := by omega
  rw [go_Advance]
  apply sem_goFunc_st _ _ { st := c, defers := d } _ (c.advance now).1
  simp only [sem_bind_step, recv_NumBuckets, recv_StartTime, recv_BucketWidth_Nanoseconds, recv_LastAbsIndex_Get,
    pkg_int, pkg_int64, Int.m_Sub, Int.m_Nanoseconds, sem_rd, sem_step_ok, sem_pure, sem_ite_apply]
  simp only [beq_iff_eq, decide_eq_true_eq, Int.sub_zero, RC.advance]
  rw [if_neg (show ¬ (c.n : Int) = 0 by omega), if_neg hn, if_neg (show ¬ now < 0 by omega), if_neg (show ¬ now < 0 by omega),
    goDiv_absIdx _ _ hw h0]
  have hw' := rollLoop_w (absIdx c.w now) c.n c
  have hn' := (rollLoop_length (absIdx c.w now) c.n c).2
  generalize habs : absIdx c.w now = abs at *
  rw [if_neg (show ¬ (abs : Int) - c.last = 0 by omega), if_neg (show ¬ abs = c.last by omega),
    if_neg (show ¬ (abs : Int) - c.last < 0 by omega), if_neg (show ¬ abs < c.last by omega)]
  rw [roll_forIn abs d]
  · rw [sem_step_ok, goRange_length]
    generalize c.rollLoop abs c.n = L at *
    simp only [sem_bind_step, sem_pure, sem_step_ok, recv_LastAbsIndex_CompareAndSwap, sem_updRet, if_true,
      Int.toNat_natCast]
    rw [go_Advance_same _ (by simpa [hw'] using hw) f now d (by simpa [hn'] using hn) h0 (by simp [hw', habs])]
    simp only [idxOf, hn']
  · intro i c' hc'
    rw [sem_ite_apply, if_pos (by simpa using hc')]
    rfl
  · intro i c' hc'
    rw [sem_ite_apply, if_neg (by simpa using hc')]
    have e1 : (c'.last : Int) + 1 = ((c'.last + 1 : Nat) : Int) := by omega
    simp only [sem_bind_step, sem_pure, sem_step_ok, recv_LastAbsIndex_CompareAndSwap, sem_updRet, if_true]
    rw [sem_ite_apply, if_neg (by simp)]
    simp only [sem_bind_step, sem_pure, sem_step_ok, sem_rd, call_clear, sem_upd, e1, goMod_nat,
      Int.toNat_natCast]

end CM.GoTie.GoRolling

/- GoTie/F_OpenCircuit.lean — `OpenCircuit` stamps one reading of the substitute clock
   The generated function is today's translation of circuit.go; callee behaviour enters as HYPOTHESES (the callees'
   own ties are proved in their own modules and put together in GoTie/All.lean), so this module depends on the body of
   `OpenCircuit` only. -/
import CircuitModel.GoCircuitSpec
import CircuitProofs.GoTie.Basic
import Generated.GoCircuit.F_OpenCircuit
namespace CM.GoTie
open CM CM.Go CM.GoCircuit CM.Generated.GoCircuit
variable {σo σc : Type} [L : Logic σo σc]

theorem go_OpenCircuit_eq (hN : go_now (σo := σo) (σc := σc) = spec_now) (hO : ∀ ctx t, go_openCircuit (σo := σo) (σc := σc) ctx t = spec_openCircuit ctx t) (ctx : GoCtx) :
    go_OpenCircuit (σo := σo) (σc := σc) ctx = spec_OpenCircuit ctx := by
  funext g
  simp only [go_OpenCircuit, spec_OpenCircuit, hN, hO]
  rw [gt_fn_keep] <;> gt_eval [spec_now, spec_openCircuit]
  all_goals (repeat' split) <;> simp_all [CM.now, onS, GoTime.val]

end CM.GoTie

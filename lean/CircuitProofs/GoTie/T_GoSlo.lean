/- GoTie/T_GoSlo.lean — responsetimeslo.Tracker's methods are the model's `Cons.Slo.onRun`, and every attached collector is told each verdict.
   Every theorem says: the method body as translated TODAY from the Go source (Generated/GoSlo/F_*.lean) computes the
   model's function. -/
import CircuitProofs.GoTie.Sem
import Generated.GoSlo
set_option linter.unusedSimpArgs false
namespace CM.GoTie.GoSlo
open CM CM.Cons CM.Go CM.GoSlo CM.Generated.GoSlo

theorem go_failure_eq : go_failure = upd (fun w => w.tell false) := by
  funext g
  rw [go_failure, fn, sem_goFunc_noDefer] <;>
  simp [bind, recv_FailsSLOCount_Add, recv_MeetsSLOCount_Add, recv_MaximumHealthyTime_Get, recv_Collectors,
    Collector.m_Failed, Collector.m_Passed, Int.m_Nanoseconds, sem_forIn_step, sem_slo_told_foldl, SloW.tell, SloW.onRun,
    List.map_map, Function.comp_def]

theorem go_healthy_eq : go_healthy = upd (fun w => w.tell true) := by
  funext g
  rw [go_healthy, fn, sem_goFunc_noDefer] <;>
  simp [bind, recv_FailsSLOCount_Add, recv_MeetsSLOCount_Add, recv_MaximumHealthyTime_Get, recv_Collectors,
    Collector.m_Failed, Collector.m_Passed, Int.m_Nanoseconds, sem_forIn_step, sem_slo_told_foldl, SloW.tell, SloW.onRun,
    List.map_map, Function.comp_def]

theorem go_Success_eq (u : Unit) (t d : Int) : go_Success u t d = upd (fun s => s.onRun .success d) := by
  funext g
  rw [go_Success, go_failure_eq, go_healthy_eq, fn, sem_goFunc_noDefer] <;>
  by_cases h : d ≤ g.st.slo.maxHealthy <;>
  simp [h, bind, recv_FailsSLOCount_Add, recv_MeetsSLOCount_Add, recv_MaximumHealthyTime_Get, recv_Collectors,
    Collector.m_Failed, Collector.m_Passed, Int.m_Nanoseconds, sem_forIn_step, sem_slo_told_foldl, SloW.tell, SloW.onRun,
    List.map_map, Function.comp_def]

theorem go_ErrFailure_eq (u : Unit) (t d : Int) : go_ErrFailure u t d = upd (fun s => s.onRun .failure d) := by
  funext g
  rw [go_ErrFailure, go_failure_eq, fn, sem_goFunc_noDefer] <;>
  simp [bind, recv_FailsSLOCount_Add, recv_MeetsSLOCount_Add, recv_MaximumHealthyTime_Get, recv_Collectors,
    Collector.m_Failed, Collector.m_Passed, Int.m_Nanoseconds, sem_forIn_step, sem_slo_told_foldl, SloW.tell, SloW.onRun,
    List.map_map, Function.comp_def]

theorem go_ErrTimeout_eq (u : Unit) (t d : Int) : go_ErrTimeout u t d = upd (fun s => s.onRun .timeout d) := by
  funext g
  rw [go_ErrTimeout, go_failure_eq, fn, sem_goFunc_noDefer] <;>
  simp [bind, recv_FailsSLOCount_Add, recv_MeetsSLOCount_Add, recv_MaximumHealthyTime_Get, recv_Collectors,
    Collector.m_Failed, Collector.m_Passed, Int.m_Nanoseconds, sem_forIn_step, sem_slo_told_foldl, SloW.tell, SloW.onRun,
    List.map_map, Function.comp_def]

theorem go_ErrBadRequest_eq (u : Unit) (t d : Int) : go_ErrBadRequest u t d = upd (fun s => s.onRun .badRequest d) := by
  funext g
  rw [go_ErrBadRequest, fn, sem_goFunc_noDefer] <;>
  simp [bind, recv_FailsSLOCount_Add, recv_MeetsSLOCount_Add, recv_MaximumHealthyTime_Get, recv_Collectors,
    Collector.m_Failed, Collector.m_Passed, Int.m_Nanoseconds, sem_forIn_step, sem_slo_told_foldl, SloW.tell, SloW.onRun,
    List.map_map, Function.comp_def]

theorem go_ErrInterrupt_eq (u : Unit) (t d : Int) : go_ErrInterrupt u t d = upd (fun s => s.onRun .interrupt d) := by
  funext g
  rw [go_ErrInterrupt, go_failure_eq, fn, sem_goFunc_noDefer] <;>
  by_cases h : g.st.slo.maxHealthy < d <;>
  simp [h, bind, recv_FailsSLOCount_Add, recv_MeetsSLOCount_Add, recv_MaximumHealthyTime_Get, recv_Collectors,
    Collector.m_Failed, Collector.m_Passed, Int.m_Nanoseconds, sem_forIn_step, sem_slo_told_foldl, SloW.tell, SloW.onRun,
    List.map_map, Function.comp_def]

theorem go_ErrConcurrencyLimitReject_eq (u : Unit) (t : Int) : go_ErrConcurrencyLimitReject u t = upd (fun s => s.onRun .reject 0) := by
  funext g
  rw [go_ErrConcurrencyLimitReject, go_failure_eq, fn, sem_goFunc_noDefer] <;>
  simp [bind, recv_FailsSLOCount_Add, recv_MeetsSLOCount_Add, recv_MaximumHealthyTime_Get, recv_Collectors,
    Collector.m_Failed, Collector.m_Passed, Int.m_Nanoseconds, sem_forIn_step, sem_slo_told_foldl, SloW.tell, SloW.onRun,
    List.map_map, Function.comp_def]

theorem go_ErrShortCircuit_eq (u : Unit) (t : Int) : go_ErrShortCircuit u t = upd (fun s => s.onRun .shortCircuit 0) := by
  funext g
  rw [go_ErrShortCircuit, go_failure_eq, fn, sem_goFunc_noDefer] <;>
  simp [bind, recv_FailsSLOCount_Add, recv_MeetsSLOCount_Add, recv_MaximumHealthyTime_Get, recv_Collectors,
    Collector.m_Failed, Collector.m_Passed, Int.m_Nanoseconds, sem_forIn_step, sem_slo_told_foldl, SloW.tell, SloW.onRun,
    List.map_map, Function.comp_def]

/-- the tracker part of `SloW.onRun` is the `Slo.onRun` the C20 theorems speak about -/
theorem onRun_slo (w : SloW) (k : Kind) (d : Int) : (w.onRun k d).slo = w.slo.onRun k d := by
  cases k <;> simp [SloW.onRun, SloW.tell, Slo.onRun] <;> split <;> simp_all

/-- each verdict reaches every attached collector exactly once, in attachment order, with the same pass/fail value -/
theorem tell_told (w : SloW) (b : Bool) : (w.tell b).told = w.told ++ w.collectors.map (fun c => (c, b)) := by
  rfl

end CM.GoTie.GoSlo

/- GoTie/T_GoFanCirc.lean — see T_GoFanCommon.lean: the fan-out methods of one collection type of metrics.go, as translated TODAY. -/
import CircuitProofs.GoTie.T_GoFanCommon
import Generated.GoFanCirc
set_option linter.unusedSimpArgs false
namespace CM.GoTie.GoFanout
open CM CM.Go

section circ
open CM.GoFanCirc CM.Generated.GoFanCirc
macro "fan_circ" f:ident : tactic => `(tactic| (
  funext g
  rw [$f:ident, GoFanCirc.fn, sem_goFunc_noDefer] <;>
  simp [bind, told, MColl.m_Opened, MColl.m_Closed, sem_forIn_step, fold_tell MColl.id, List.map_map, Function.comp_def]))
theorem circ_Opened (r : List MColl) (u : Unit) (t : Int) : go_Opened r u t = told (r.map (·.id)) (.opened t) := by fan_circ go_Opened
theorem circ_Closed (r : List MColl) (u : Unit) (t : Int) : go_Closed r u t = told (r.map (·.id)) (.closed t) := by fan_circ go_Closed
end circ

end CM.GoTie.GoFanout

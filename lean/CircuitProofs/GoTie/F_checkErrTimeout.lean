/- GoTie/F_checkErrTimeout.lean — second link of the classification chain
   The generated function is today's translation of circuit.go; callee behaviour enters as HYPOTHESES (the callees'
   own ties are proved in their own modules and put together in GoTie/All.lean), so this module depends on the body of
   `checkErrTimeout` only. -/
import CircuitModel.GoCircuitSpec
import CircuitProofs.GoTie.Basic
import Generated.GoCircuit.F_checkErrTimeout
namespace CM.GoTie
open CM CM.Go CM.GoCircuit CM.Generated.GoCircuit
variable {σo σc : Type} [L : Logic σo σc]

theorem go_checkErrTimeout_eq (hI : go_IsOpen (σo := σo) (σc := σc) = spec_IsOpen) (hA : ∀ ctx t, go_attemptToOpen (σo := σo) (σc := σc) ctx t = spec_attemptToOpen ctx t) (ctx : GoCtx) (e t : GoTime) (d : Dur) :
    go_checkErrTimeout (σo := σo) (σc := σc) ctx e t d = spec_checkErrTimeout ctx e t d := by
  funext g
  simp only [go_checkErrTimeout, spec_checkErrTimeout, hI, hA]
  rw [gt_fn_keep] <;> gt_eval [spec_IsOpen, spec_attemptToOpen]
  all_goals (repeat' split) <;> simp_all [onS]

end CM.GoTie

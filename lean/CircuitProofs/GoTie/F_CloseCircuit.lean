/- GoTie/F_CloseCircuit.lean — `CloseCircuit` stamps one reading of the substitute clock and forces the close
   The generated function is today's translation of circuit.go; callee behaviour enters as HYPOTHESES (the callees'
   own ties are proved in their own modules and put together in GoTie/All.lean), so this module depends on the body of
   `CloseCircuit` only. -/
import CircuitModel.GoCircuitSpec
import CircuitProofs.GoTie.Basic
import Generated.GoCircuit.F_CloseCircuit
namespace CM.GoTie
open CM CM.Go CM.GoCircuit CM.Generated.GoCircuit
variable {σo σc : Type} [L : Logic σo σc]

theorem go_CloseCircuit_eq (hN : go_now (σo := σo) (σc := σc) = spec_now) (hC : ∀ ctx t f, go_close (σo := σo) (σc := σc) ctx t f = spec_close ctx t f) (ctx : GoCtx) :
    go_CloseCircuit (σo := σo) (σc := σc) ctx = spec_CloseCircuit ctx := by
  funext g
  simp only [go_CloseCircuit, spec_CloseCircuit, hN, hC]
  rw [gt_fn_keep] <;> gt_eval [spec_now, spec_close]
  all_goals (repeat' split) <;> simp_all [CM.now, onS, GoTime.val]

end CM.GoTie

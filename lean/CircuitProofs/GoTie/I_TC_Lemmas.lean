/-
  GoTie/I_TC_Lemmas.lean — helper lemmas for the interference tie of the gate (I_TC.lean): the oracle as head / tail,
  evaluation of `>>=` chains over the interference primitives, `fn` (defer unwinding), one-step facts.
-/
import Generated.GoTCI
import CircuitModel.Conc.TCSolo
namespace CM.GoTie.ITC
open CM CM.Go CM.Conc CM.Conc.TC CM.GoTCI CM.Generated.GoTCI

/-- the oracle's next move (nothing left: no move) -/
def itc_hd (envs : List (Shared → Shared)) : Shared → Shared :=
  match envs with
  | [] => id
  | e :: _ => e

theorem itc_popEnv (envs : List (Shared → Shared)) (s : Shared) : popEnv envs s = (itc_hd envs s, envs.tail) := by
  cases envs <;> rfl

/-- what `>>=` does with the outcome of its first operand -/
def itc_step {σ tok α β : Type} (r : Out α × GS σ tok) (f : α → M σ tok β) : Out β × GS σ tok :=
  match r with
  | (.ok a, s') => f a s'
  | (.panic v, s') => (.panic v, s')
  | (.nilCall, s') => (.nilCall, s')

theorem itc_bind_apply_gen {σ tok α β : Type} (m : M σ tok α) (f : α → M σ tok β) (g : GS σ tok) :
    (m >>= f) g = itc_step (m g) f := rfl
theorem itc_bind_apply {α β : Type} (m : M TS String α) (f : α → M TS String β) (g : GS TS String) :
    (m >>= f) g = itc_step (m g) f := itc_bind_apply_gen m f g
theorem itc_step_ok {α β : Type} (a : α) (s : GS TS String) (f : α → M TS String β) : itc_step (.ok a, s) f = f a s := rfl
theorem itc_step_nil {α β : Type} (s : GS TS String) (f : α → M TS String β) : itc_step (.nilCall, s) f = (.nilCall, s) := rfl
theorem itc_pure_apply {α : Type} (a : α) (g : GS TS String) : (pure a : M TS String α) g = (.ok a, g) := rfl
theorem itc_ite_apply {α : Type} (c : Prop) [Decidable c] (m₁ m₂ : M TS String α) (g : GS TS String) :
    (if c then m₁ else m₂) g = if c then m₁ g else m₂ g := by
  split <;> rfl
theorem itc_step_ite {α β : Type} (c : Prop) [Decidable c] (r₁ r₂ : Out α × GS TS String) (f : α → M TS String β) :
    itc_step (if c then r₁ else r₂) f = if c then itc_step r₁ f else itc_step r₂ f := by
  split <;> rfl

theorem itc_atomicOp {α : Type} (f : Shared → Shared × α × Lab) (g : GS TS String) :
    atomicOp f g = (.ok (f (itc_hd g.st.envs g.st.sh)).2.1,
      { g with st := { g.st with sh := (f (itc_hd g.st.envs g.st.sh)).1, envs := g.st.envs.tail,
                                 trace := g.st.trace ++ [(f (itc_hd g.st.envs g.st.sh)).2.2] } }) := by
  simp only [atomicOp, itc_popEnv]

theorem itc_lockOp (ok : Nat → Shared → Bool) (f : Nat → Shared → Shared) (lab : Lab) (g : GS TS String) :
    lockOp ok f lab g =
      if ok g.st.tid (itc_hd g.st.envs g.st.sh) then
        (.ok (), { g with st := { g.st with sh := f g.st.tid (itc_hd g.st.envs g.st.sh), envs := g.st.envs.tail,
                                            trace := g.st.trace ++ [lab] } })
      else (.nilCall, { g with st := { g.st with sh := itc_hd g.st.envs g.st.sh, envs := g.st.envs.tail, blocked := true } }) := by
  simp only [lockOp, itc_popEnv]

theorem itc_plainRd {α : Type} (f : Shared → α) (g : GS TS String) : plainRd f g = (.ok (f g.st.sh), g) := rfl
theorem itc_plainWr (f : Shared → Shared) (g : GS TS String) :
    plainWr f g = (.ok (), { g with st := { g.st with sh := f g.st.sh } }) := rfl

/-! ### `fn`: the deferred calls -/
/-- what `goFunc` does once the body has run -/
def itc_fin {α : Type} (h : Nat) (r : Out α × GS TS String) : Out α × GS TS String :=
  (r.1, unwind runTok h r.2.defers.length r.2)

theorem itc_fn_apply {α : Type} (body : TM α) (g : GS TS String) : fn body g = itc_fin g.defers.length (body g) := rfl

theorem itc_unwind_le (h n : Nat) (g : GS TS String) (hle : g.defers.length ≤ h) : unwind runTok h n g = g := by
  cases n with
  | zero => rfl
  | succ n => simp [unwind, hle]

theorem itc_fin_le {α : Type} (h : Nat) (o : Out α) (st : TS) (d : List String) (hle : d.length ≤ h) :
    itc_fin h (o, ({ st := st, defers := d } : GS TS String)) = (o, { st := st, defers := d }) := by
  simp only [itc_fin]
  rw [itc_unwind_le _ _ _ hle]

theorem itc_fin_ite {α : Type} (h : Nat) (c : Prop) [Decidable c] (r₁ r₂ : Out α × GS TS String) :
    itc_fin h (if c then r₁ else r₂) = if c then itc_fin h r₁ else itc_fin h r₂ := by
  split <;> rfl

/-! ### the model's thread, one step at a time -/
theorem itc_solo_fin {σ loc lab : Type} (S : Sys σ loc) (V : View σ loc lab) (tid k : Nat) (st : SoloSt σ loc lab)
    (h : V.fin st.loc = true) : solo S V tid k st = st := by
  cases k with
  | zero => rfl
  | succ k => simp [solo, h]

theorem itc_solo_vis {loc lab : Type} (S : Sys Shared loc) (V : View Shared loc lab) (tid k : Nat)
    (sh : Shared) (l : loc) (envs : List (Shared → Shared)) (tr : List lab) (s' : Shared) (l' : loc) (a : lab)
    (hf : V.fin l = false) (hs : V.silent sh l = false) (hl : V.label (itc_hd envs sh) l = some a)
    (hstep : S.step tid (itc_hd envs sh) l = some (s', l')) :
    solo S V tid (k + 1) { sh := sh, loc := l, envs := envs, trace := tr } =
      solo S V tid k { sh := s', loc := l', envs := envs.tail, trace := tr ++ [a] } := by
  rw [solo]
  simp only [hf, hs, itc_popEnv, Bool.false_eq_true, if_false, hstep, hl]

theorem itc_solo_blk {loc lab : Type} (S : Sys Shared loc) (V : View Shared loc lab) (tid k : Nat)
    (sh : Shared) (l : loc) (envs : List (Shared → Shared)) (tr : List lab)
    (hf : V.fin l = false) (hs : V.silent sh l = false)
    (hstep : S.step tid (itc_hd envs sh) l = none) :
    solo S V tid (k + 1) { sh := sh, loc := l, envs := envs, trace := tr } =
      { sh := itc_hd envs sh, loc := l, envs := envs.tail, trace := tr } := by
  rw [solo]
  simp only [hf, hs, itc_popEnv, Bool.false_eq_true, if_false, hstep]

theorem itc_solo_sil {loc lab : Type} (S : Sys Shared loc) (V : View Shared loc lab) (tid k : Nat)
    (sh : Shared) (l : loc) (envs : List (Shared → Shared)) (tr : List lab) (s' : Shared) (l' : loc)
    (hf : V.fin l = false) (hs : V.silent sh l = true) (hstep : S.step tid sh l = some (s', l')) :
    solo S V tid (k + 1) { sh := sh, loc := l, envs := envs, trace := tr } =
      solo S V tid k { sh := s', loc := l', envs := envs, trace := tr } := by
  rw [solo]
  simp only [hf, hs, Bool.false_eq_true, if_false, if_true, hstep]

abbrev itc_St := SoloSt Shared Local Lab

section model
variable (tid k : Nat) (sh : Shared) (envs : List (Shared → Shared)) (tr : List Lab)

theorem itc_m_done (job : Job) (r : Option Bool) :
    solo sys view tid k ({ sh := sh, loc := { job := job, pc := .done r }, envs := envs, trace := tr } : itc_St)
      = { sh := sh, loc := { job := job, pc := .done r }, envs := envs, trace := tr } :=
  itc_solo_fin _ _ _ _ _ rfl

theorem itc_m_cbLoad (job : Job) (v : Int) :
    solo sys view tid (k + 1) ({ sh := sh, loc := { job := job, pc := .cbLoadVersion v }, envs := envs, trace := tr } : itc_St)
      = if v = (itc_hd envs sh).version then
          solo sys view tid k { sh := itc_hd envs sh, loc := { job := job, pc := .cbStoreFF }, envs := envs.tail,
                                trace := tr ++ [.loadVersion (itc_hd envs sh).version] }
        else { sh := itc_hd envs sh, loc := { job := job, pc := .done none }, envs := envs.tail,
               trace := tr ++ [.loadVersion (itc_hd envs sh).version] } := by
  by_cases h : v = (itc_hd envs sh).version
  · rw [if_pos h]
    exact itc_solo_vis _ _ _ _ _ _ _ _ _ _ _ rfl rfl rfl (by simp only [sys, step, h]; rfl)
  · rw [if_neg h]
    rw [itc_solo_vis _ _ _ _ _ _ _ _ _ _ _ rfl rfl rfl (by simp only [sys, step, h]; rfl), itc_m_done]

theorem itc_m_cbStore (job : Job) :
    solo sys view tid (k + 1) ({ sh := sh, loc := { job := job, pc := .cbStoreFF }, envs := envs, trace := tr } : itc_St)
      = { sh := { itc_hd envs sh with fastFail := false }, loc := { job := job, pc := .done none }, envs := envs.tail,
          trace := tr ++ [.storeFF false] } := by
  rw [itc_solo_vis _ _ _ _ _ _ _ _ _ _ _ rfl rfl rfl rfl, itc_m_done]

theorem itc_m_beginCheck (t : Int) :
    solo sys view tid (k + 1) ({ sh := sh, loc := { job := .check t, pc := .begin }, envs := envs, trace := tr } : itc_St)
      = if (itc_hd envs sh).fastFail = true then
          { sh := itc_hd envs sh, loc := { job := .check t, pc := .done (some false) }, envs := envs.tail,
            trace := tr ++ [.loadFF (itc_hd envs sh).fastFail] }
        else solo sys view tid k { sh := itc_hd envs sh, loc := { job := .check t, pc := .rlock }, envs := envs.tail,
                                   trace := tr ++ [.loadFF (itc_hd envs sh).fastFail] } := by
  by_cases h : (itc_hd envs sh).fastFail = true
  · rw [if_pos h, itc_solo_vis _ _ _ _ _ _ _ _ _ _ _ rfl rfl rfl (by simp only [sys, step, h]; rfl), itc_m_done]
  · rw [if_neg h]
    exact itc_solo_vis _ _ _ _ _ _ _ _ _ _ _ rfl rfl rfl (by simp only [sys, step, h]; rfl)

theorem itc_m_beginStart (t : Int) :
    solo sys view tid (k + 1) ({ sh := sh, loc := { job := .start t, pc := .begin }, envs := envs, trace := tr } : itc_St)
      = solo sys view tid k { sh := sh, loc := { job := .start t, pc := .wlock }, envs := envs, trace := tr } :=
  itc_solo_sil _ _ _ _ _ _ _ _ _ _ rfl rfl rfl

theorem itc_m_rlock (t : Int) :
    solo sys view tid (k + 1) ({ sh := sh, loc := { job := .check t, pc := .rlock }, envs := envs, trace := tr } : itc_St)
      = if (itc_hd envs sh).writer.isNone = true then
          solo sys view tid k { sh := { itc_hd envs sh with readers := (itc_hd envs sh).readers + 1 },
                                loc := { job := .check t, pc := .runlock (nextAfter (itc_hd envs sh) t) }, envs := envs.tail,
                                trace := tr ++ [.rlock] }
        else { sh := itc_hd envs sh, loc := { job := .check t, pc := .rlock }, envs := envs.tail, trace := tr } := by
  by_cases h : (itc_hd envs sh).writer.isNone = true
  · rw [if_pos h]
    exact itc_solo_vis _ _ _ _ _ _ _ _ _ _ _ rfl rfl rfl (by simp only [sys, step, h]; rfl)
  · rw [if_neg h]
    exact itc_solo_blk _ _ _ _ _ _ _ _ rfl rfl (by simp only [sys, step, h]; rfl)

theorem itc_m_runlock (t : Int) (after : Bool) :
    solo sys view tid (k + 1) ({ sh := sh, loc := { job := .check t, pc := .runlock after }, envs := envs, trace := tr } : itc_St)
      = if after = true then
          { sh := { itc_hd envs sh with readers := (itc_hd envs sh).readers - 1 },
            loc := { job := .check t, pc := .done (some false) }, envs := envs.tail, trace := tr ++ [.runlock] }
        else solo sys view tid k { sh := { itc_hd envs sh with readers := (itc_hd envs sh).readers - 1 },
                                   loc := { job := .check t, pc := .wlock }, envs := envs.tail, trace := tr ++ [.runlock] } := by
  cases after
  · exact itc_solo_vis _ _ _ _ _ _ _ _ _ _ _ rfl rfl rfl rfl
  · rw [itc_solo_vis _ _ _ _ _ _ _ _ _ _ _ rfl rfl rfl rfl]
    exact itc_m_done ..

theorem itc_m_wlock (job : Job) :
    solo sys view tid (k + 1) ({ sh := sh, loc := { job := job, pc := .wlock }, envs := envs, trace := tr } : itc_St)
      = if ((itc_hd envs sh).writer.isNone && (itc_hd envs sh).readers == 0) = true then
          solo sys view tid k { sh := { itc_hd envs sh with writer := some tid },
                                loc := { job := job, pc := .critical }, envs := envs.tail, trace := tr ++ [.lock] }
        else { sh := itc_hd envs sh, loc := { job := job, pc := .wlock }, envs := envs.tail, trace := tr } := by
  by_cases h : ((itc_hd envs sh).writer.isNone && (itc_hd envs sh).readers == 0) = true
  · rw [if_pos h]
    have h' : (itc_hd envs sh).writer.isNone = true ∧ (itc_hd envs sh).readers = 0 := by simpa using h
    cases job <;> exact itc_solo_vis _ _ _ _ _ _ _ _ _ _ _ rfl rfl rfl (by simp only [sys, step, h']; rfl)
  · rw [if_neg h]
    have h' : ¬ ((itc_hd envs sh).writer.isNone = true ∧ (itc_hd envs sh).readers = 0) := by simpa using h
    cases job <;> exact itc_solo_blk _ _ _ _ _ _ _ _ rfl rfl (by simp only [sys, step, h']; rfl)

theorem itc_m_criticalCheck (t : Int) :
    solo sys view tid (k + 1) ({ sh := sh, loc := { job := .check t, pc := .critical }, envs := envs, trace := tr } : itc_St)
      = if nextAfter sh t = true then
          solo sys view tid k { sh := sh, loc := { job := .check t, pc := .wunlock false }, envs := envs, trace := tr }
        else solo sys view tid k { sh := { sh with count := sh.count + 1 }, loc := { job := .check t, pc := .loadAllow },
                                   envs := envs, trace := tr } := by
  by_cases h : nextAfter sh t = true
  · rw [if_pos h]
    exact itc_solo_sil _ _ _ _ _ _ _ _ _ _ rfl rfl (by simp only [sys, step, h]; rfl)
  · rw [if_neg h]
    exact itc_solo_sil _ _ _ _ _ _ _ _ _ _ rfl rfl (by simp only [sys, step, h]; rfl)

theorem itc_m_criticalStart (t : Int) :
    solo sys view tid (k + 1) ({ sh := sh, loc := { job := .start t, pc := .critical }, envs := envs, trace := tr } : itc_St)
      = solo sys view tid k { sh := sh, loc := { job := .start t, pc := .resetLoadSleep t false }, envs := envs, trace := tr } :=
  itc_solo_sil _ _ _ _ _ _ _ _ _ _ rfl rfl rfl

theorem itc_m_loadAllow (t : Int) :
    solo sys view tid (k + 1) ({ sh := sh, loc := { job := .check t, pc := .loadAllow }, envs := envs, trace := tr } : itc_St)
      = if (itc_hd envs sh).count ≥ (itc_hd envs sh).allow then
          solo sys view tid k { sh := itc_hd envs sh, loc := { job := .check t, pc := .resetLoadSleep t true },
                                envs := envs.tail, trace := tr ++ [.loadAllow (itc_hd envs sh).allow] }
        else solo sys view tid k { sh := { itc_hd envs sh with events := (itc_hd envs sh).events ++ [.success t false] },
                                   loc := { job := .check t, pc := .wunlock true },
                                   envs := envs.tail, trace := tr ++ [.loadAllow (itc_hd envs sh).allow] } := by
  by_cases h : (itc_hd envs sh).count ≥ (itc_hd envs sh).allow
  · rw [if_pos h]
    exact itc_solo_vis _ _ _ _ _ _ _ _ _ _ _ rfl rfl rfl (by simp only [sys, step, h]; rfl)
  · rw [if_neg h]
    exact itc_solo_vis _ _ _ _ _ _ _ _ _ _ _ rfl rfl rfl (by simp only [sys, step, h]; rfl)

theorem itc_m_resetLoadSleep (job : Job) (t : Int) (ret : Bool) :
    solo sys view tid (k + 1) ({ sh := sh, loc := { job := job, pc := .resetLoadSleep t ret }, envs := envs, trace := tr } : itc_St)
      = solo sys view tid k { sh := { itc_hd envs sh with nextOpen := some (t + (itc_hd envs sh).sleep), count := 0 },
                              loc := { job := job, pc := .resetStoreFF t ret },
                              envs := envs.tail, trace := tr ++ [.loadSleep (itc_hd envs sh).sleep] } := by
  cases job <;> exact itc_solo_vis _ _ _ _ _ _ _ _ _ _ _ rfl rfl rfl rfl

theorem itc_m_resetStoreFF (job : Job) (t : Int) (ret : Bool) :
    solo sys view tid (k + 1) ({ sh := sh, loc := { job := job, pc := .resetStoreFF t ret }, envs := envs, trace := tr } : itc_St)
      = solo sys view tid k { sh := { itc_hd envs sh with fastFail := true },
                              loc := { job := job, pc := .resetAddVersion t ret },
                              envs := envs.tail, trace := tr ++ [.storeFF true] } := by
  cases job <;> exact itc_solo_vis _ _ _ _ _ _ _ _ _ _ _ rfl rfl rfl rfl

theorem itc_m_resetAddVersion (job : Job) (t : Int) (ret : Bool) :
    solo sys view tid (k + 1) ({ sh := sh, loc := { job := job, pc := .resetAddVersion t ret }, envs := envs, trace := tr } : itc_St)
      = solo sys view tid k { sh := { itc_hd envs sh with version := (itc_hd envs sh).version + 1 },
                              loc := { job := job, pc := .resetArm t ret },
                              envs := envs.tail, trace := tr ++ [.addVersion ((itc_hd envs sh).version + 1)] } := by
  cases job <;> exact itc_solo_vis _ _ _ _ _ _ _ _ _ _ _ rfl rfl rfl rfl

theorem itc_m_resetArm (job : Job) (t : Int) (ret : Bool) :
    solo sys view tid (k + 1) ({ sh := sh, loc := { job := job, pc := .resetArm t ret }, envs := envs, trace := tr } : itc_St)
      = solo sys view tid k { sh := { itc_hd envs sh with armed := (itc_hd envs sh).armed ++ [(itc_hd envs sh).version],
                                                              events := (itc_hd envs sh).events ++ [(if ret = true then Ev.success t true else Ev.start t)] },
                              loc := { job := job, pc := .wunlock ret },
                              envs := envs.tail, trace := tr ++ [.loadSleep (itc_hd envs sh).sleep] } := by
  cases job <;> exact itc_solo_vis _ _ _ _ _ _ _ _ _ _ _ rfl rfl rfl rfl

theorem itc_m_wunlock (job : Job) (ret : Bool) :
    solo sys view tid (k + 1) ({ sh := sh, loc := { job := job, pc := .wunlock ret }, envs := envs, trace := tr } : itc_St)
      = { sh := { itc_hd envs sh with writer := none },
          loc := { job := job, pc := .done (match job with | .check _ => some ret | _ => none) },
          envs := envs.tail, trace := tr ++ [.unlock] } := by
  cases job <;> rw [itc_solo_vis _ _ _ _ _ _ _ _ _ _ _ rfl rfl rfl rfl, itc_m_done]

end model

/-! ### the four oracle moves and atomics of `resetOpenTimeWithLock` -/
def itc_r1 (t : Int) (envs : List (Shared → Shared)) (sh : Shared) : Shared :=
  { itc_hd envs sh with nextOpen := some (t + (itc_hd envs sh).sleep), count := 0 }
def itc_r2 (t : Int) (envs : List (Shared → Shared)) (sh : Shared) : Shared :=
  { itc_hd envs.tail (itc_r1 t envs sh) with fastFail := true }
def itc_r3 (t : Int) (envs : List (Shared → Shared)) (sh : Shared) : Shared :=
  { itc_hd envs.tail.tail (itc_r2 t envs sh) with version := (itc_hd envs.tail.tail (itc_r2 t envs sh)).version + 1 }
def itc_r4 (t : Int) (envs : List (Shared → Shared)) (sh : Shared) : Shared :=
  itc_hd envs.tail.tail.tail (itc_r3 t envs sh)

/-- `resetOpenTimeWithLock(now)` in closed form -/
theorem itc_go_reset (now : Int) (g : GS TS String) :
    go_resetOpenTimeWithLock now g = (.ok (), { g with st := { g.st with
      sh := { itc_r4 now g.st.envs g.st.sh with armed := (itc_r4 now g.st.envs g.st.sh).armed ++ [(itc_r3 now g.st.envs g.st.sh).version] },
      timer := some (itc_r4 now g.st.envs g.st.sh).armed.length,
      envs := g.st.envs.tail.tail.tail.tail,
      trace := g.st.trace ++ [.loadSleep (itc_hd g.st.envs g.st.sh).sleep] ++ [.storeFF true]
                 ++ [.addVersion (itc_r3 now g.st.envs g.st.sh).version] ++ [.loadSleep (itc_r4 now g.st.envs g.st.sh).sleep] } }) := by
  rcases g with ⟨⟨sh, tid, timer, envs, trace, blocked, stuck⟩, defers⟩
  cases timer <;>
  simp only [go_resetOpenTimeWithLock, itc_fn_apply, itc_bind_apply, itc_step_ok, itc_pure_apply, itc_ite_apply,
    recv_lastSetTimer, recv_lastSetTimer_Stop, recv_lastSetTimer_set, recv_nextOpenTime_set, Int.m_Add,
    recv_sleepDuration_Duration, recv_currentlyAllowedEventCount_set, recv_isFastFail_Set, recv_isFailFastVersion_Add,
    recv_afterFunc, itc_atomicOp, itc_plainWr, isNil, GoNil.nil, Option.isNone]
  all_goals simp only [Bool.not_true, Bool.not_false, Bool.false_eq_true, if_false, if_true]
  all_goals rw [itc_fin_le _ _ _ _ (Nat.le_refl _)]
  all_goals rfl

/-- the model's four steps of the same -/
theorem itc_m_reset (tid k : Nat) (sh : Shared) (envs : List (Shared → Shared)) (tr : List Lab) (job : Job) (t : Int) (ret : Bool) :
    solo sys view tid (k + 1 + 1 + 1 + 1) ({ sh := sh, loc := { job := job, pc := .resetLoadSleep t ret }, envs := envs, trace := tr } : itc_St)
      = solo sys view tid k
          { sh := { itc_r4 t envs sh with armed := (itc_r4 t envs sh).armed ++ [(itc_r4 t envs sh).version],
                                            events := (itc_r4 t envs sh).events ++ [(if ret = true then Ev.success t true else Ev.start t)] },
            loc := { job := job, pc := .wunlock ret }, envs := envs.tail.tail.tail.tail,
            trace := tr ++ [.loadSleep (itc_hd envs sh).sleep] ++ [.storeFF true]
                 ++ [.addVersion (itc_r3 t envs sh).version] ++ [.loadSleep (itc_r4 t envs sh).sleep] } := by
  rw [itc_m_resetLoadSleep, itc_m_resetStoreFF, itc_m_resetAddVersion, itc_m_resetArm]
  rfl

theorem itc_pushDefer (t : String) (g : GS TS String) : deferPrim t g = (.ok (), { g with defers := t :: g.defers }) := rfl

theorem itc_fin_nil {α : Type} (h : Nat) (o : Out α) (st : TS) :
    itc_fin h (o, ({ st := st, defers := [] } : GS TS String)) = (o, { st := st, defers := [] }) :=
  itc_fin_le _ _ _ _ (Nat.zero_le _)

theorem itc_runTok_unlock : runTok "recv_mu_Unlock" = recv_mu_Unlock := rfl

/-- the deferred `Unlock` of `Check` -/
theorem itc_fin_unlock {α : Type} (o : Out α) (st : TS) :
    itc_fin 0 (o, ({ st := st, defers := ["recv_mu_Unlock"] } : GS TS String)) =
      (o, { st := { st with sh := { itc_hd st.envs st.sh with writer := none }, envs := st.envs.tail, trace := st.trace ++ [.unlock] },
            defers := [] }) := by
  simp only [itc_fin, List.length_cons, List.length_nil]
  rw [unwind]
  simp only [List.length_cons, List.length_nil, itc_runTok_unlock, recv_mu_Unlock, itc_lockOp, if_true]
  rw [if_neg (by omega)]
  rfl

/-! ### the rely condition, move by move -/
def itc_RelyF (tid : Nat) (e : Shared → Shared) : Prop :=
  (∀ x : Shared, x.writer = some tid → (e x).count = x.count) ∧
  (∀ (x : Shared) (evs : List Ev), e { x with events := evs } = { e x with events := evs })

theorem itc_rely_hd {tid : Nat} {envs : List (Shared → Shared)} (h : Rely tid envs) : itc_RelyF tid (itc_hd envs) := by
  cases envs with
  | nil => exact ⟨fun _ _ => rfl, fun _ _ => rfl⟩
  | cons e r => exact ⟨fun x hx => ((h e (List.mem_cons_self ..)).1 x hx).2.1, (h e (List.mem_cons_self ..)).2⟩

theorem itc_rely_tail {tid : Nat} {envs : List (Shared → Shared)} (h : Rely tid envs) : Rely tid envs.tail := by
  cases envs with
  | nil => exact h
  | cons e r => exact fun e' he' => h e' (List.mem_cons_of_mem _ he')

/-- the part of `Rely` about `writer` and `version` -/
def itc_RelyW (tid : Nat) (envs : List (Shared → Shared)) : Prop :=
  ∀ e ∈ envs, ∀ x : Shared, x.writer = some tid → (e x).writer = some tid ∧ (e x).version = x.version

theorem itc_rely_W {tid : Nat} {envs : List (Shared → Shared)} (h : Rely tid envs) : itc_RelyW tid envs :=
  fun e he x hx => ⟨((h e he).1 x hx).1, ((h e he).1 x hx).2.2.1⟩

def itc_RelyWF (tid : Nat) (e : Shared → Shared) : Prop :=
  ∀ x : Shared, x.writer = some tid → (e x).writer = some tid ∧ (e x).version = x.version

theorem itc_relyW_hd {tid : Nat} {envs : List (Shared → Shared)} (h : itc_RelyW tid envs) : itc_RelyWF tid (itc_hd envs) := by
  cases envs with
  | nil => exact fun _ hx => ⟨hx, rfl⟩
  | cons e r => exact h e (List.mem_cons_self ..)

theorem itc_relyW_tail {tid : Nat} {envs : List (Shared → Shared)} (h : itc_RelyW tid envs) : itc_RelyW tid envs.tail := by
  cases envs with
  | nil => exact h
  | cons e r => exact fun e' he' => h e' (List.mem_cons_of_mem _ he')

theorem itc_r3_writer {tid : Nat} {envs : List (Shared → Shared)} (hw : itc_RelyW tid envs) (t : Int) (sh : Shared)
    (h : sh.writer = some tid) : (itc_r3 t envs sh).writer = some tid := by
  have h1 : (itc_r1 t envs sh).writer = some tid := (itc_relyW_hd hw sh h).1
  have h2 : (itc_r2 t envs sh).writer = some tid := (itc_relyW_hd (itc_relyW_tail hw) _ h1).1
  exact (itc_relyW_hd (itc_relyW_tail (itc_relyW_tail hw)) _ h2).1

/-- the version the closure captured is still the current one when the timer is armed -/
theorem itc_r4_version {tid : Nat} {envs : List (Shared → Shared)} (hw : itc_RelyW tid envs) (t : Int) (sh : Shared)
    (h : sh.writer = some tid) : (itc_r4 t envs sh).version = (itc_r3 t envs sh).version :=
  (itc_relyW_hd (itc_relyW_tail (itc_relyW_tail (itc_relyW_tail hw))) _ (itc_r3_writer hw t sh h)).2

/-- `nextOpenTime.After(now)` looks at one field -/
def itc_na (o : Option Int) (now : Int) : Bool := match o with | none => false | some t => decide (now < t)
theorem itc_nextAfter (s : Shared) (now : Int) : nextAfter s now = itc_na s.nextOpen now := rfl

/-- what one move of the others keeps while this thread holds the write lock -/
theorem itc_rely_hd_locked {tid : Nat} {envs : List (Shared → Shared)} (h : Rely tid envs) (x : Shared) (hx : x.writer = some tid) :
    (itc_hd envs x).writer = some tid ∧ (itc_hd envs x).armed = x.armed := by
  cases envs with
  | nil => exact ⟨hx, rfl⟩
  | cons e r => exact ⟨((h e (List.mem_cons_self ..)).1 x hx).1, ((h e (List.mem_cons_self ..)).1 x hx).2.2.2⟩

/-- under the write lock `resetOpenTimeWithLock` finds the `armed` list it started with -/
theorem itc_r4_armed {tid : Nat} {envs : List (Shared → Shared)} (h : Rely tid envs) (t : Int) (sh : Shared)
    (hs : sh.writer = some tid) : (itc_r4 t envs sh).armed = sh.armed := by
  have a1 := itc_rely_hd_locked h sh hs
  have w1 : (itc_r1 t envs sh).writer = some tid := a1.1
  have a2 := itc_rely_hd_locked (itc_rely_tail h) _ w1
  have w2 : (itc_r2 t envs sh).writer = some tid := a2.1
  have a3 := itc_rely_hd_locked (itc_rely_tail (itc_rely_tail h)) _ w2
  have w3 : (itc_r3 t envs sh).writer = some tid := a3.1
  have a4 := itc_rely_hd_locked (itc_rely_tail (itc_rely_tail (itc_rely_tail h))) _ w3
  show (itc_hd envs.tail.tail.tail (itc_r3 t envs sh)).armed = _
  rw [a4.2]
  show (itc_hd envs.tail.tail (itc_r2 t envs sh)).armed = _
  rw [a3.2]
  show (itc_hd envs.tail (itc_r1 t envs sh)).armed = _
  rw [a2.2]
  exact a1.2

end CM.GoTie.ITC

/- GoTie/T_GoLiveCfg.lean — `atomicCircuitConfig.reset`, as translated TODAY from config.go, publishes EVERY mirrored
   setting of the configuration it is given (whatever the other settings are — e.g. also when `Disabled` is set) and
   nothing else. -/
import CircuitModel.GoLiveCfgPrims
import Generated.GoLiveCfg
namespace CM.GoTie.GoLiveCfg
open CM CM.Go CM.GoLiveCfg CM.Generated.GoLiveCfg

theorem lc_unwind_le (h n : Nat) (g : GS LiveCfg NoTok) (hle : g.defers.length ≤ h) : unwind noTok h n g = g := by
  cases n with
  | zero => rfl
  | succ n => simp [unwind, hle]

theorem go_reset_eq (c : GoConfig) : go_reset c = fun g => (.ok (), { g with st := liveOf c g.st.iei }) := by
  funext g
  simp only [go_reset, fn, goFunc]
  rw [lc_unwind_le] <;>
  simp [bind, pure, w, liveOf, GoConfig.m_Execution_Timeout_Nanoseconds,
    recv_CircuitBreaker_ForcedClosed_Set, recv_CircuitBreaker_ForceOpen_Set, recv_CircuitBreaker_Disabled_Set,
    recv_Execution_ExecutionTimeout_Set, recv_Execution_MaxConcurrentRequests_Set, recv_GoSpecific_IgnoreInterrupts_Set,
    recv_Fallback_Disabled_Set, recv_Fallback_MaxConcurrentRequests_Set]

/-- consequently: after `reset(c)` every live setting reads the value `c` carries -/
theorem reset_publishes_all (c : GoConfig) (g : GS LiveCfg NoTok) :
    let l := (go_reset c g).2.st
    l.forceOpen = c.f_General_ForceOpen ∧ l.forcedClosed = c.f_General_ForcedClosed ∧ l.disabled = c.f_General_Disabled ∧
    l.timeout = c.f_Execution_Timeout ∧ l.maxConc = c.f_Execution_MaxConcurrentRequests ∧
    l.ignoreInterrupts = c.f_Execution_IgnoreInterrupts ∧ l.fbDisabled = c.f_Fallback_Disabled ∧
    l.fbMaxConc = c.f_Fallback_MaxConcurrentRequests ∧ l.iei = g.st.iei := by
  simp [go_reset_eq, liveOf]

end CM.GoTie.GoLiveCfg

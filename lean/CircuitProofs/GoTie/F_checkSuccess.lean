/- GoTie/F_checkSuccess.lean — last link of the classification chain
   The generated function is today's translation of circuit.go; callee behaviour enters as HYPOTHESES (the callees'
   own ties are proved in their own modules and put together in GoTie/All.lean), so this module depends on the body of
   `checkSuccess` only. -/
import CircuitModel.GoCircuitSpec
import CircuitProofs.GoTie.Basic
import Generated.GoCircuit.F_checkSuccess
namespace CM.GoTie
open CM CM.Go CM.GoCircuit CM.Generated.GoCircuit
variable {σo σc : Type} [L : Logic σo σc]

theorem go_checkSuccess_eq (hI : go_IsOpen (σo := σo) (σc := σc) = spec_IsOpen) (hC : ∀ ctx t f, go_close (σo := σo) (σc := σc) ctx t f = spec_close ctx t f) (ctx : GoCtx) (t : GoTime) (d : Dur) :
    go_checkSuccess (σo := σo) (σc := σc) ctx t d = spec_checkSuccess ctx t d := by
  funext g
  simp only [go_checkSuccess, spec_checkSuccess, hI, hC]
  rw [gt_fn_keep] <;> gt_eval [spec_IsOpen, spec_close]
  all_goals (repeat' split) <;> simp_all [onS]

end CM.GoTie

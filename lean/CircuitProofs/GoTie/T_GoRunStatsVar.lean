/- GoTie/T_GoRunStatsVar.lean — `(*RunStats).Var()`, as translated TODAY from metrics/rolling/rolling.go: the call computes
   nothing (a function value over the receiver); EVALUATING it publishes the seven counters BY REFERENCE — `evar.ForExpvar(&r.X)`
   of a `*RollingCounter`, which has no `Var()`: the pointer itself, nothing of the counter is read (`encoding/json` reads it
   through `MarshalJSON` when the page is rendered, i.e. even later) — and the latencies BY VALUE as of the evaluation:
   `*RollingPercentile` has a `Var()`, so one wall-clock reading is taken, `Snapshot()` rolls the ring to it, and the
   snapshot's summary (min, p25 ↦ Percentile(25), …, mean: C15) stands under "Latencies"/"snap".  C20 / C15 / C11. -/
import CircuitModel.GoVarsPrims
import CircuitProofs.GoTie.Sem
import CircuitProofs.GoTie.T_GoRunStats
import Generated.GoRunStatsVar
namespace CM.GoTie.GoRunStatsVar
open CM CM.Go CM.Cons CM.GoFsNew CM.GoVars CM.GoVars.Run CM.Generated.GoRunStatsVar

/-- the function value `Var()` returns -/
def theClo : CloV := ⟨"Var_lit1", (), []⟩

/-- the RunStats after the latencies ring was rolled to wall-clock reading `t` by `Snapshot()` -/
def snapped (r : RunStats) (t : Int) : RunStats := { r with latencies := (r.latencies.snapshot t).1 }

/-- `r.Var()` computes nothing: no clock reading, no counter read; the result is the function value over the receiver alone. -/
theorem go_Var_eq (g : GS (Walled RunStats) NoTok) : go_Var g = (.ok theClo, g) := by
  unfold go_Var fn
  apply sem_goFunc_pure
  rfl

/-- `evar.ForExpvar(&r.X)` for the seven counters: the pointer, nothing read -/
theorem forExpvar_counters :
    evar_ForExpvar .successes = pure (ctrHandle 0) ∧ evar_ForExpvar .rejects = pure (ctrHandle 1) ∧
    evar_ForExpvar .failures = pure (ctrHandle 2) ∧ evar_ForExpvar .shortCircuits = pure (ctrHandle 3) ∧
    evar_ForExpvar .timeouts = pure (ctrHandle 4) ∧ evar_ForExpvar .badRequests = pure (ctrHandle 5) ∧
    evar_ForExpvar .interrupts = pure (ctrHandle 6) := ⟨rfl, rfl, rfl, rfl, rfl, rfl, rfl⟩

/-- `evar.ForExpvar(&r.Latencies)`: one wall-clock reading, the ring rolled to it, the snapshot's summary -/
theorem forExpvar_latencies (g : GS (Walled RunStats) NoTok) :
    evar_ForExpvar .latencies g
      = ((match (rpPublish g.st.obj.latencies (g.st.clock g.st.reads)).2 with | some m => .ok m | none => .nilCall),
         { g with st := { g.st with obj := snapped g.st.obj (g.st.clock g.st.reads), reads := g.st.reads + 1 } }) := by
  unfold evar_ForExpvar
  simp only [snapped]
  cases (rpPublish g.st.obj.latencies (g.st.clock g.st.reads)).2 <;> rfl

theorem run_stepN {α β : Type} (s : GS (Walled RunStats) NoTok) (f : α → RVM β) : sem_step ((.nilCall : Out α), s) f = (.nilCall, s) := rfl

/-- EVALUATING it takes ONE wall-clock reading `t` — the next one of the moment of evaluation — and yields `runSummary` of the
    state of that moment at `t` (Go's panic where a percentile has no value); afterwards the latencies ring is as
    `Snapshot()` leaves it and the seven counters are untouched. -/
theorem go_Var_eval_eq (g : GS (Walled RunStats) NoTok) :
    go_Var_lit1_eval theClo g
      = ((match runSummary g.st.obj (g.st.clock g.st.reads) with | some m => .ok m | none => .nilCall),
         { g with st := { g.st with obj := snapped g.st.obj (g.st.clock g.st.reads), reads := g.st.reads + 1 } }) := by
  show go_Var_lit1 g = _
  unfold go_Var_lit1 fn
  apply sem_goFunc_st
  obtain ⟨h0, h1, h2, h3, h4, h5, h6⟩ := forExpvar_counters
  simp only [sem_bind_step, recvAddr_Successes, recvAddr_ErrConcurrencyLimitRejects, recvAddr_ErrFailures,
    recvAddr_ErrShortCircuits, recvAddr_ErrTimeouts, recvAddr_ErrBadRequests, recvAddr_ErrInterrupts, recvAddr_Latencies,
    h0, h1, h2, h3, h4, h5, h6, forExpvar_latencies, sem_pure, sem_step_ok, runSummary]
  cases (rpPublish g.st.obj.latencies (g.st.clock g.st.reads)).2 <;> rfl

/-- the seven counters are published by REFERENCE: whatever the state and the clock, the same seven pointers, in field order -/
theorem counters_by_reference (r : RunStats) (t : Int) (m : EV) (h : runSummary r t = some m) :
    m.lookup "Successes" = some (ctrHandle 0) ∧ m.lookup "ErrConcurrencyLimitRejects" = some (ctrHandle 1) ∧
    m.lookup "ErrFailures" = some (ctrHandle 2) ∧ m.lookup "ErrShortCircuits" = some (ctrHandle 3) ∧
    m.lookup "ErrTimeouts" = some (ctrHandle 4) ∧ m.lookup "ErrBadRequests" = some (ctrHandle 5) ∧
    m.lookup "ErrInterrupts" = some (ctrHandle 6) := by
  unfold runSummary at h
  cases hl : (rpPublish r.latencies t).2 <;> simp only [hl, Option.map] at h
  · contradiction
  · injection h with h
    subst h
    exact ⟨rfl, rfl, rfl, rfl, rfl, rfl, rfl⟩

/-- the latencies are published by VALUE, as of the evaluation: the summary of `Snapshot()` at the reading `t` -/
theorem latencies_at_evaluation (r : RunStats) (t : Int) (m : EV) (h : runSummary r t = some m) :
    ∃ s, sdEV (r.latencies.snapshot t).2 = some s ∧ m.lookup "Latencies" = some (.map [("snap", s)]) := by
  unfold runSummary rpPublish at h
  cases hl : sdEV (r.latencies.snapshot t).2 <;> simp only [hl, Option.map] at h
  · contradiction
  · injection h with h
    subst h
    exact ⟨_, rfl, rfl⟩

/-- **The handle follows the object's history**: take the handle in `g₀`; let any later history bring the stats to `r` and the
    wall clock to its `k`-th reading; evaluating the OLD handle publishes `r`'s latencies as of THAT reading. -/
theorem var_follows_history (g₀ : GS (Walled RunStats) NoTok) (r : RunStats) (k : Nat) :
    ∀ c, (go_Var g₀).1 = .ok c →
      (go_Var_lit1_eval c { g₀ with st := { g₀.st with obj := r, reads := k } }).1
        = (match runSummary r (g₀.st.clock k) with | some m => .ok m | none => .nilCall) := by
  intro c hc
  rw [go_Var_eq] at hc
  cases Out.ok.inj hc
  rw [go_Var_eval_eq]

/-! ### non-vacuity: one handle, read twice around a `Success` delivered through the translated callback -/
def rs0 : RunStats := RunStats.new 10 1000 3 30 2
/-- one sample of 7 ns at offset 5; the wall clock reads 16, 41, … -/
def rw0 : Walled RunStats := { obj := rs0.onRun .success 5 7, clock := fun k => 16 + 25 * k }
def counters : List (String × EV) :=
  [("Successes", ctrHandle 0), ("ErrConcurrencyLimitRejects", ctrHandle 1), ("ErrFailures", ctrHandle 2), ("ErrShortCircuits", ctrHandle 3),
   ("ErrTimeouts", ctrHandle 4), ("ErrBadRequests", ctrHandle 5), ("ErrInterrupts", ctrHandle 6)]
/-- a summary whose seven entries are all `d` (a one-sample snapshot) -/
def allD (d : Int) : EV := .map ([("min", d), ("p25", d), ("p50", d), ("p90", d), ("p99", d), ("max", d), ("mean", d)].map fun e => (e.1, .durStr e.2))
example : (Go.run go_Var rw0).1 = .ok theClo ∧ (Go.run go_Var rw0).2.reads = 0 := by decide
/-- first reading (wall clock 16): the sample 7 -/
example : (Go.run (go_Var_lit1_eval theClo) rw0).1 = .ok (.map (counters ++ [("Latencies", .map [("snap", allD 7)])])) := rfl
example : (Go.run (go_Var_lit1_eval theClo) rw0).2.reads = 1 := rfl
/-- a success of 9 ns at offset 40 is delivered (unit GoRunStats' translated `Success`), then the SAME handle is read again
    (wall clock 41: the 30 ns window has left the first sample behind): the sample 9 — and the same seven pointers -/
example : (Go.run (onObj (CM.Generated.GoRunStats.go_Success () 40 9) >>= fun _ => go_Var_lit1_eval theClo)
      (Go.run (go_Var_lit1_eval theClo) rw0).2).1
    = .ok (.map (counters ++ [("Latencies", .map [("snap", allD 9)])])) := rfl
example : (Go.run (go_Var_lit1_eval ⟨"other", (), []⟩) rw0).1 = .nilCall := rfl

/-! ### a READ with a write effect (reported as a finding): the evaluation rolls the latencies ring to the WALL clock, whatever
    clock the stats were given (`RunStatsConfig.Now`).  Stats whose own clock stands at offset 6 while the wall clock reads 1000
    (a frozen / simulated clock, more than the 30 ns window behind): WITHOUT a reading, a success of 9 ns at offset 6 is in the
    snapshot at offset 6; AFTER one reading of the published value the same success is counted but its latency is dropped. -/
def behind : Walled RunStats := { obj := rs0, clock := fun _ => 1000 }
example : ((Go.run (onObj (CM.Generated.GoRunStats.go_Success () 6 9)) behind).2.obj.latencies.snapshot 6).2 = [9] := by decide
example : ((Go.run (go_Var_lit1_eval theClo >>= fun _ => onObj (CM.Generated.GoRunStats.go_Success () 6 9)) behind).2.obj.latencies.snapshot 6).2 = [] := by decide
example : (Go.run (go_Var_lit1_eval theClo >>= fun _ => onObj (CM.Generated.GoRunStats.go_Success () 6 9)) behind).2.obj.successes.total = 1 := by decide

end CM.GoTie.GoRunStatsVar

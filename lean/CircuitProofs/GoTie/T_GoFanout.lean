/- GoTie/T_GoFanout.lean — the collector fan-outs of metrics.go, as translated TODAY: every method of the three
   collections tells EVERY collector of the list exactly once, in list order, with the arguments it was given. -/
import CircuitProofs.GoTie.Sem
import CircuitModel.GoFanoutPrims
import Generated.GoFanRun
import Generated.GoFanFb
import Generated.GoFanCirc
set_option linter.unusedSimpArgs false
namespace CM.GoTie.GoFanout
open CM CM.Go

theorem fold_tell {α : Type} (idOf : α → Nat) (e : Emit) (l : List α) (g : GS (List (Nat × Emit)) NoTok) :
    l.foldl (fun (s : GS (List (Nat × Emit)) NoTok) c => { st := s.st ++ [(idOf c, e)], defers := s.defers }) g
      = { g with st := g.st ++ l.map (fun c => (idOf c, e)) } := by
  induction l generalizing g with
  | nil => simp
  | cons c l ih => simp [ih]

/-- what a fan-out has to do: append one entry per collector, in order -/
def told (ids : List Nat) (e : Emit) : XM Unit := upd fun l => l ++ ids.map fun i => (i, e)

section run
open CM.GoFanRun CM.Generated.GoFanRun
macro "fan_run" f:ident : tactic => `(tactic| (
  funext g
  rw [$f:ident, GoFanRun.fn, sem_goFunc_noDefer] <;>
  simp [bind, told, tellC, Coll.m_Success, Coll.m_ErrFailure, Coll.m_ErrTimeout, Coll.m_ErrBadRequest, Coll.m_ErrInterrupt,
    Coll.m_ErrConcurrencyLimitReject, Coll.m_ErrShortCircuit, sem_forIn_step, fold_tell Coll.id, List.map_map, Function.comp_def]))
theorem run_Success (r : List Coll) (u : Unit) (t d : Int) : go_Success r u t d = told (r.map (·.id)) (.run .success t d) := by fan_run go_Success
theorem run_ErrFailure (r : List Coll) (u : Unit) (t d : Int) : go_ErrFailure r u t d = told (r.map (·.id)) (.run .failure t d) := by fan_run go_ErrFailure
theorem run_ErrTimeout (r : List Coll) (u : Unit) (t d : Int) : go_ErrTimeout r u t d = told (r.map (·.id)) (.run .timeout t d) := by fan_run go_ErrTimeout
theorem run_ErrBadRequest (r : List Coll) (u : Unit) (t d : Int) : go_ErrBadRequest r u t d = told (r.map (·.id)) (.run .badRequest t d) := by fan_run go_ErrBadRequest
theorem run_ErrInterrupt (r : List Coll) (u : Unit) (t d : Int) : go_ErrInterrupt r u t d = told (r.map (·.id)) (.run .interrupt t d) := by fan_run go_ErrInterrupt
theorem run_ErrConcurrencyLimitReject (r : List Coll) (u : Unit) (t : Int) : go_ErrConcurrencyLimitReject r u t = told (r.map (·.id)) (.run .reject t 0) := by fan_run go_ErrConcurrencyLimitReject
theorem run_ErrShortCircuit (r : List Coll) (u : Unit) (t : Int) : go_ErrShortCircuit r u t = told (r.map (·.id)) (.run .shortCircuit t 0) := by fan_run go_ErrShortCircuit
end run

section fb
open CM.GoFanFb CM.Generated.GoFanFb
macro "fan_fb" f:ident : tactic => `(tactic| (
  funext g
  rw [$f:ident, GoFanFb.fn, sem_goFunc_noDefer] <;>
  simp [bind, told, FColl.m_Success, FColl.m_ErrFailure, FColl.m_ErrConcurrencyLimitReject, sem_forIn_step, fold_tell FColl.id,
    List.map_map, Function.comp_def]))
theorem fb_Success (r : List FColl) (u : Unit) (t d : Int) : go_Success r u t d = told (r.map (·.id)) (.fb .success t d) := by fan_fb go_Success
theorem fb_ErrFailure (r : List FColl) (u : Unit) (t d : Int) : go_ErrFailure r u t d = told (r.map (·.id)) (.fb .failure t d) := by fan_fb go_ErrFailure
theorem fb_ErrConcurrencyLimitReject (r : List FColl) (u : Unit) (t : Int) : go_ErrConcurrencyLimitReject r u t = told (r.map (·.id)) (.fb .reject t 0) := by fan_fb go_ErrConcurrencyLimitReject
end fb

section circ
open CM.GoFanCirc CM.Generated.GoFanCirc
macro "fan_circ" f:ident : tactic => `(tactic| (
  funext g
  rw [$f:ident, GoFanCirc.fn, sem_goFunc_noDefer] <;>
  simp [bind, told, MColl.m_Opened, MColl.m_Closed, sem_forIn_step, fold_tell MColl.id, List.map_map, Function.comp_def]))
theorem circ_Opened (r : List MColl) (u : Unit) (t : Int) : go_Opened r u t = told (r.map (·.id)) (.opened t) := by fan_circ go_Opened
theorem circ_Closed (r : List MColl) (u : Unit) (t : Int) : go_Closed r u t = told (r.map (·.id)) (.closed t) := by fan_circ go_Closed
end circ

end CM.GoTie.GoFanout

/- GoTie/T_GoNewRC.lean — `NewRollingCounter`, as translated TODAY from faststats/rolling_counter.go, builds the model's
   `RC.new`: a counter over its OWN, newly made array of `numBuckets` zero cells, both sums zero, a ring of `numBuckets`
   buckets of the given width starting at `now` with newest index 0 (C13's initial state). -/
import CircuitModel.GoFsnewPrims
import CircuitProofs.GoTie.Sem
import Generated.GoNewRC
namespace CM.GoTie.GoNewRC
open CM CM.Go CM.GoFsNew CM.GoFsNew.H CM.Generated.GoNewRC

/-! ### helpers (shared with T_GoNewRP) -/

theorem fsnew_step_nilCall {σ tok α β : Type} (s : GS σ tok) (f : α → M σ tok β) :
    sem_step ((.nilCall : Out α), s) f = (.nilCall, s) := rfl

theorem fsnew_make_neg (n : Int) (hn : n < 0) (g : GS Heap NoTok) : goMake_AtomicInt64 n g = (.nilCall, g) := by
  simp [goMake_AtomicInt64, hn]

theorem fsnew_make_nonneg (n : Int) (hn : ¬ n < 0) (g : GS Heap NoTok) :
    goMake_AtomicInt64 n g = (.ok (.mk g.st.cells.length n.toNat), { g with st := g.st.grow 1 n.toNat }) := by
  simp [goMake_AtomicInt64, hn, Heap.grow]

/-- what was on the heap before stays readable, unchanged, after any number of allocations -/
theorem read_grow (h : Heap) (m size : Nat) (s : Slice) (a : List Int) (hr : h.read s = some a) :
    (h.grow m size).read s = some a := by
  cases s with
  | nil => exact hr
  | mk b n =>
    simp only [Heap.read] at hr ⊢
    cases hb : h.cells[b]? with
    | none => simp [hb] at hr
    | some x =>
      have hlt : b < h.cells.length := by
        rcases List.getElem?_eq_some_iff.mp hb with ⟨hlt, _⟩
        exact hlt
      simp only [Heap.grow, List.getElem?_append_left hlt]
      exact hr

/-! ### the tie -/

/-- `NewRollingCounter(w, n, now)`: a negative `n` is the runtime panic of `make`; otherwise ONE new array of `n` zero cells
    is made and the counter `newRC w n now k` over it (array number `k` = a number no earlier slice has) is returned. -/
theorem go_NewRollingCounter_eq (w n now : Int) :
    go_NewRollingCounter w n now = construct (n < 0) (newRC w n now) 1 n.toNat := by
  funext g
  unfold go_NewRollingCounter fn construct
  by_cases hn : n < 0
  · rw [if_pos hn]
    apply sem_goFunc_pure
    rw [sem_bind_step, fsnew_make_neg n hn, fsnew_step_nilCall]
  · rw [if_neg hn]
    apply sem_goFunc_st _ _ g _ (g.st.grow 1 n.toNat)
    rw [sem_bind_step, fsnew_make_nonneg n hn, sem_step_ok, sem_pure]
    rfl

/-- read back into the model, the new counter IS `RC.new n w`; it was started at `now`; its bucket array is the new one. -/
theorem newRC_abs (h : Heap) (w n now : Int) :
    absRC (h.grow 1 n.toNat) (newRC w n now h.cells.length) = some (RC.new n.toNat w)
    ∧ (newRC w n now h.cells.length).rollingBucket.StartTime = now
    ∧ (newRC w n now h.cells.length).buckets = .mk h.cells.length n.toNat := by
  refine ⟨?_, rfl, rfl⟩
  simp [absRC, newRC, Heap.read, Heap.grow, RC.new]

/-- all together, from any heap: the call returns a counter that abstracts to `RC.new`, and every slice that could be read
    before the call still reads the same (the new counter shares its cells with nothing). -/
theorem NewRollingCounter_new (h : Heap) (w n now : Int) (hn : 0 ≤ n) (dl : List NoTok) :
    ∃ c h', go_NewRollingCounter w n now { st := h, defers := dl } = (.ok c, { st := h', defers := dl })
      ∧ absRC h' c = some (RC.new n.toNat w)
      ∧ c.rollingBucket.StartTime = now
      ∧ h.read c.buckets = none
      ∧ ∀ s a, h.read s = some a → h'.read s = some a := by
  refine ⟨newRC w n now h.cells.length, h.grow 1 n.toNat, ?_, (newRC_abs h w n now).1, rfl, ?_, fun s a => read_grow h 1 n.toNat s a⟩
  · rw [go_NewRollingCounter_eq, construct, if_neg (by omega)]
  · simp [newRC, Heap.read]

/-! ### non-vacuity -/

example : Go.run (go_NewRollingCounter 1000 3 55) { cells := [[7, 7]] }
    = (.ok { buckets := .mk 1 3, rollingSum := 0, totalSum := 0,
             rollingBucket := { NumBuckets := 3, StartTime := 55, BucketWidth := 1000, LastAbsIndex := 0 } },
       { cells := [[7, 7], [0, 0, 0]] }) := by decide
example : absRC { cells := [[7, 7], [0, 0, 0]] } (newRC 1000 3 55 1) = some (RC.new 3 1000) := by decide
example : (Go.run (go_NewRollingCounter 1000 (-1) 55) { cells := [] }).1 = .nilCall := by decide

end CM.GoTie.GoNewRC

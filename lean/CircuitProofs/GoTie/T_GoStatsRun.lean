/- GoTie/T_GoStatsRun.lean — `(*rolling.RunStats)`: the error percentage, its wall-clock wrapper, `Config` and
   `SetConfigNotThreadSafe`, as translated TODAY from metrics/rolling/rolling.go (Generated/GoStatsRun/F_*.lean), compute
   the functions of GoStatsPrims.lean's statement section: `Cons.errorPercentage` of the three rolling sums (the function
   C20's theorems speak about), and eight fresh rolling objects — each its own allocation — made from the stored config
   and ONE reading of its clock. -/
import CircuitProofs.GoTie.T_GoStatsCommon
import CircuitProofs.GoTie.T_GoStream
import CircuitProofs.Lemmas.Cons
import CircuitProofs.Lemmas.SD
import Generated.GoStatsRun
set_option linter.unusedSimpArgs false
namespace CM.GoTie.GoStatsRun
open CM CM.Go CM.GoStats CM.GoStats.R CM.Generated.GoStatsRun CM.GoTie.GoStats

theorem runTok_unlock : runTok "recv_mu_Unlock" = updR fun r => { r with mu := r.mu - 1 } := rfl

/-! ### the two readings -/

/-- `ErrorsAt(t)` = failures + timeouts, both read (and rolled) at `t`; nothing else changes. -/
theorem go_ErrorsAt_eq (t : Int) : go_ErrorsAt t = updRetR (fun r => r.errorsAt t) := by
  funext g
  rw [sem_updRetR]
  unfold go_ErrorsAt fn
  apply sem_goFunc_st
  simp only [sem_bind_step, recv_ErrFailures_RollingSumAt, recv_ErrTimeouts_RollingSumAt, sem_updRetR, sem_step_ok, sem_pure]
  rfl

/-- `LegitimateAttemptsAt(t)` = successes + (failures + timeouts), each read (and rolled) at `t`. -/
theorem go_LegitimateAttemptsAt_eq (t : Int) : go_LegitimateAttemptsAt t = updRetR (fun r => r.attemptsAt t) := by
  funext g
  rw [sem_updRetR]
  unfold go_LegitimateAttemptsAt fn
  apply sem_goFunc_st
  simp only [sem_bind_step, go_ErrorsAt_eq, recv_Successes_RollingSumAt, sem_updRetR, sem_step_ok, sem_pure]
  rfl

/-! ### the percentage -/

/-- reading a counter twice at one instant: the second reading changes nothing and returns the same number -/
theorem ctr_sumAt_idem (c : Ctr) (t : Int) : (c.sumAt t).1.sumAt t = c.sumAt t := by
  simp only [Ctr.sumAt, GoStream.sumAt_idem]

theorem errorsAt_after_attempts (r : RSV) (t : Int) :
    (r.attemptsAt t).1.errorsAt t = ((r.attemptsAt t).1, (r.failures.sumAt t).2 + (r.timeouts.sumAt t).2) := by
  simp only [RSV.attemptsAt, RSV.errorsAt, ctr_sumAt_idem]

/-- `ErrorPercentageAt(t)` returns the model's `Cons.errorPercentage` of the successes / failures / timeouts rolling sums
    at `t` (0 without attempts, else the binary64 quotient errors / attempts) and leaves those three counters rolled to `t`
    (the second reading of failures and timeouts, made when there are attempts, is a reading at the same instant). -/
theorem go_ErrorPercentageAt_eq (t : Int) : go_ErrorPercentageAt t = updRetR (fun r => r.errorPercentageAt t) := by
  funext g
  rw [sem_updRetR]
  unfold go_ErrorPercentageAt fn
  apply sem_goFunc_st
  simp only [sem_bind_step, go_LegitimateAttemptsAt_eq, go_ErrorsAt_eq, sem_updRetR, sem_step_ok, sem_pure, sem_ite_apply,
    pkg_float64]
  rw [errorsAt_after_attempts]
  simp only [RSV.errorPercentageAt, RSV.attemptsAt, Cons.errorPercentage, goDiv, GoDivC.div, ← Int.add_assoc]
  by_cases h : (g.st.recv.successes.sumAt t).2 + (g.st.recv.failures.sumAt t).2 + (g.st.recv.timeouts.sumAt t).2 = 0
  · simp only [h, beq_self_eq_true, if_true]
    show (Out.ok (⟨F64.ofInt 0⟩ : GoF64), _) = _
    rw [ofInt_zero]
  · simp only [h, beq_iff_eq, if_false]

/-- `ErrorPercentage()` is `ErrorPercentageAt` of ONE reading of the wall clock (`time.Now()`, not the configured `Now`). -/
theorem go_ErrorPercentage_eq : go_ErrorPercentage = act (fun r w =>
    (.ok (r.errorPercentageAt (w.read .wall).1).2, (r.errorPercentageAt (w.read .wall).1).1, (w.read .wall).2)) := by
  funext g
  rw [sem_act]
  unfold go_ErrorPercentage fn
  apply sem_goFunc_st
  simp only [sem_bind_step, time_Now, go_ErrorPercentageAt_eq, sem_updRetR, sem_step_ok]

/-! ### the configuration -/

/-- `Config()` returns the stored configuration; the mutex is taken and given back. -/
theorem go_Config_eq : go_Config = rdR (·.config) := by
  funext g
  rw [sem_rdR]
  unfold go_Config fn
  refine goFunc_unlock runTok _ runTok_unlock _ g ?o ?x _ ?hb ?hy
  case hb =>
    simp only [sem_bind_step, recv_mu_Lock, deferPrim, sem_pushDefer, sem_updR, sem_step_ok, recv_config, sem_rdR]
    rfl
  case hy => simp only [Nat.add_sub_cancel]

/-- `SetConfigNotThreadSafe(cfg)` is `RSV.setConfig`: config stored, `cfg.Now` read once, seven counters and the latency
    sample each made by its OWN constructor call (consecutive fresh allocation ids, one per field) with the configured
    width = duration / count, count and that one reading; Go's panics where Go raises them; the mutex given back on
    every path, panics included. -/
theorem go_SetConfigNotThreadSafe_eq (cfg : RSCfg) : go_SetConfigNotThreadSafe cfg = act (fun r w => r.setConfig cfg w) := by
  funext g
  rw [sem_act]
  unfold go_SetConfigNotThreadSafe fn
  cases hN : cfg.f_Now with
  | none =>
    refine goFunc_unlock runTok _ runTok_unlock _ g ?o1 ?x1 _ ?hb ?hy
    case hb =>
      simp only [sem_bind_step, recv_mu_Lock, deferPrim, sem_pushDefer, sem_updR, sem_step_ok, recv_config_set,
        RSCfg.m_Now, hN, sem_callNow_none, sem_step_nilCall]
      rfl
    case hy => simp only [RSV.setConfig, hN, Nat.add_sub_cancel]
  | some k =>
    by_cases h1 : cfg.f_RollingStatsNumBuckets = 0
    · refine goFunc_unlock runTok _ runTok_unlock _ g ?o2 ?x2 _ ?hb ?hy
      case hb =>
        simp only [sem_bind_step, recv_mu_Lock, deferPrim, sem_pushDefer, sem_updR, sem_step_ok, recv_config_set,
          RSCfg.m_Now, hN, sem_callNow_some, RSCfg.m_RollingStatsDuration_Nanoseconds, pkg_int64, sem_pure, goDiv_int, h1,
          bucketWidth_zero, sem_timeDuration_none, sem_step_panic]
        rfl
      case hy => simp only [RSV.setConfig, hN, h1, bucketWidth_zero, Nat.add_sub_cancel]
    · by_cases h2 : cfg.f_RollingPercentileNumBuckets = 0
      · refine goFunc_unlock runTok _ runTok_unlock _ g ?o3 ?x3 _ ?hb ?hy
        case hb =>
          simp only [sem_bind_step, recv_mu_Lock, deferPrim, sem_pushDefer, sem_updR, sem_step_ok, recv_config_set,
          RSCfg.m_Now, hN, sem_callNow_some, RSCfg.m_RollingStatsDuration_Nanoseconds, RSCfg.m_RollingPercentileDuration_Nanoseconds,
          pkg_int64, sem_pure, goDiv_int, bucketWidth_ne _ _ h1, sem_timeDuration_some, h2, bucketWidth_zero, sem_timeDuration_none, sem_step_panic]
          rfl
        case hy => simp only [RSV.setConfig, hN, bucketWidth_ne _ _ h1, h2, bucketWidth_zero, Nat.add_sub_cancel]
      · by_cases h3 : cfg.f_RollingStatsNumBuckets < 0
        · refine goFunc_unlock runTok _ runTok_unlock _ g ?o4 ?x4 _ ?hb ?hy
          case hb =>
            simp only [sem_bind_step, recv_mu_Lock, deferPrim, sem_pushDefer, sem_updR, sem_step_ok, recv_config_set,
          RSCfg.m_Now, hN, sem_callNow_some, RSCfg.m_RollingStatsDuration_Nanoseconds, RSCfg.m_RollingPercentileDuration_Nanoseconds,
          pkg_int64, sem_pure, goDiv_int, bucketWidth_ne _ _ h1, sem_timeDuration_some, bucketWidth_ne _ _ h2, sem_newCounter_neg _ _ _ _ h3, sem_step_panic]
            rfl
          case hy => simp only [RSV.setConfig, hN, bucketWidth_ne _ _ h1, bucketWidth_ne _ _ h2, h3, if_true, Nat.add_sub_cancel]
        · by_cases h4 : cfg.f_RollingPercentileNumBuckets < 0 ∨ (0 < cfg.f_RollingPercentileNumBuckets ∧ cfg.f_RollingPercentileBucketSize < 0)
          · refine goFunc_unlock runTok _ runTok_unlock _ g ?o5 ?x5 _ ?hb ?hy
            case hb =>
              simp only [sem_bind_step, recv_mu_Lock, deferPrim, sem_pushDefer, sem_updR, sem_step_ok, recv_config_set,
          RSCfg.m_Now, hN, sem_callNow_some, RSCfg.m_RollingStatsDuration_Nanoseconds, RSCfg.m_RollingPercentileDuration_Nanoseconds,
          pkg_int64, sem_pure, goDiv_int, bucketWidth_ne _ _ h1, sem_timeDuration_some, bucketWidth_ne _ _ h2, sem_newCounter_ok _ _ _ _ h3, sem_newPct_bad _ _ _ _ _ h4, sem_step_panic,
                recv_Successes_set, recv_ErrConcurrencyLimitRejects_set, recv_ErrFailures_set, recv_ErrShortCircuits_set,
                recv_ErrTimeouts_set, recv_ErrBadRequests_set, recv_ErrInterrupts_set, recv_Latencies_set]
              rfl
            case hy =>
              simp only [RSV.setConfig, hN, bucketWidth_ne _ _ h1, bucketWidth_ne _ _ h2, h3, h4, if_true, if_false, Nat.add_sub_cancel,
                List.length_append, List.length_cons, List.length_nil, List.append_assoc, List.cons_append, List.nil_append, List.replicate]
          · refine goFunc_unlock runTok _ runTok_unlock _ g ?o6 ?x6 _ ?hb ?hy
            case hb =>
              simp only [sem_bind_step, recv_mu_Lock, deferPrim, sem_pushDefer, sem_updR, sem_step_ok, recv_config_set,
          RSCfg.m_Now, hN, sem_callNow_some, RSCfg.m_RollingStatsDuration_Nanoseconds, RSCfg.m_RollingPercentileDuration_Nanoseconds,
          pkg_int64, sem_pure, goDiv_int, bucketWidth_ne _ _ h1, sem_timeDuration_some, bucketWidth_ne _ _ h2, sem_newCounter_ok _ _ _ _ h3, sem_newPct_ok _ _ _ _ _ h4,
                recv_Successes_set, recv_ErrConcurrencyLimitRejects_set, recv_ErrFailures_set, recv_ErrShortCircuits_set,
                recv_ErrTimeouts_set, recv_ErrBadRequests_set, recv_ErrInterrupts_set, recv_Latencies_set]
              rfl
            case hy =>
              simp only [RSV.setConfig, hN, bucketWidth_ne _ _ h1, bucketWidth_ne _ _ h2, h3, h4, if_true, if_false, Nat.add_sub_cancel,
                List.length_append, List.length_cons, List.length_nil, List.append_assoc, List.cons_append, List.nil_append, List.replicate]

/-! ### what the ties give: every field its own object; the model's `RunStats.new`; the property's formula -/

/-- the allocation ids of the eight rolling objects of a RunStats value, in field order -/
def ids (r : RSV) : List (Option Nat) :=
  [r.successes.id, r.rejects.id, r.failures.id, r.shortCircuits.id, r.timeouts.id, r.badRequests.id, r.interrupts.id, r.latencies.id]

/-- after a `SetConfigNotThreadSafe` that returns, the eight fields hold EIGHT DIFFERENT objects, none of which existed
    before: their ids are the next eight allocation numbers, the log grew by exactly those eight constructor calls. -/
theorem setConfig_fresh (r r' : RSV) (cfg : RSCfg) (w w' : World) (u : Unit) (h : r.setConfig cfg w = (.ok u, r', w')) :
    ids r' = (List.range 8).map (fun i => some (w.allocs.length + i)) ∧ (ids r').Nodup ∧
    w'.allocs.length = w.allocs.length + 8 ∧ w'.allocs.take w.allocs.length = w.allocs := by
  cases hN : cfg.f_Now with
  | none => simp [RSV.setConfig, hN] at h
  | some k =>
    by_cases h1 : cfg.f_RollingStatsNumBuckets = 0
    · simp [RSV.setConfig, hN, h1, bucketWidth_zero] at h
    by_cases h2 : cfg.f_RollingPercentileNumBuckets = 0
    · simp [RSV.setConfig, hN, bucketWidth_ne _ _ h1, h2, bucketWidth_zero] at h
    by_cases h3 : cfg.f_RollingStatsNumBuckets < 0
    · simp [RSV.setConfig, hN, bucketWidth_ne _ _ h1, bucketWidth_ne _ _ h2, h3] at h
    by_cases h4 : cfg.f_RollingPercentileNumBuckets < 0 ∨ (0 < cfg.f_RollingPercentileNumBuckets ∧ cfg.f_RollingPercentileBucketSize < 0)
    · simp [RSV.setConfig, hN, bucketWidth_ne _ _ h1, bucketWidth_ne _ _ h2, h3, h4] at h
    simp only [RSV.setConfig, hN, bucketWidth_ne _ _ h1, bucketWidth_ne _ _ h2, h3, h4, if_false, Prod.mk.injEq] at h
    obtain ⟨-, rfl, rfl⟩ := h
    have hl : ((w.read k).2).allocs = w.allocs := by cases k <;> rfl
    refine ⟨?_, ?_, ?_, ?_⟩
    · simp [ids, Ctr.fresh, Pct.fresh, List.range, List.range.loop, hl]
    · simp [ids, Ctr.fresh, Pct.fresh]
    · simp [hl]
    · simp [hl]

/-- … and they are the model's `Cons.RunStats.new` (the collectors C20's theorems start from), all started at the one reading
    of the config's clock — for positive bucket counts and durations that fit an int64. -/
def toCons (r : RSV) : Cons.RunStats :=
  { successes := r.successes.rc, rejects := r.rejects.rc, failures := r.failures.rc, shortCircuits := r.shortCircuits.rc,
    timeouts := r.timeouts.rc, badRequests := r.badRequests.rc, interrupts := r.interrupts.rc, latencies := r.latencies.rp }

theorem tdiv_wrap (d : Int) (n : Nat) (hd0 : 0 ≤ d) (hd : d < 9223372036854775808) : wrap64 (tdiv d n) = tdiv d n := by
  apply wrap64_id
  · have : 0 ≤ tdiv d n := by
      unfold tdiv; rw [Int.tdiv_eq_ediv_of_nonneg hd0]; exact Int.ediv_nonneg hd0 (by omega)
    omega
  · have : tdiv d n ≤ d := by
      unfold tdiv; rw [Int.tdiv_eq_ediv_of_nonneg hd0]; exact Int.ediv_le_self _ hd0
    omega

theorem setConfig_toCons (r : RSV) (cfg : RSCfg) (w : World) (k : Clk) (n pn ps : Nat)
    (hN : cfg.f_Now = some k) (hn : cfg.f_RollingStatsNumBuckets = n) (hpn : cfg.f_RollingPercentileNumBuckets = pn)
    (hps : cfg.f_RollingPercentileBucketSize = ps) (hn0 : 0 < n) (hpn0 : 0 < pn)
    (hd : 0 ≤ cfg.f_RollingStatsDuration ∧ cfg.f_RollingStatsDuration < 9223372036854775808)
    (hpd : 0 ≤ cfg.f_RollingPercentileDuration ∧ cfg.f_RollingPercentileDuration < 9223372036854775808) :
    (r.setConfig cfg w).1 = .ok () ∧
    toCons (r.setConfig cfg w).2.1 = Cons.RunStats.new n cfg.f_RollingStatsDuration pn cfg.f_RollingPercentileDuration ps ∧
    (r.setConfig cfg w).2.1.successes.start = (w.read k).1 ∧ (r.setConfig cfg w).2.1.failures.start = (w.read k).1 ∧
    (r.setConfig cfg w).2.1.timeouts.start = (w.read k).1 ∧ (r.setConfig cfg w).2.1.config = cfg := by
  have h1 : cfg.f_RollingStatsNumBuckets ≠ 0 := by omega
  have h2 : cfg.f_RollingPercentileNumBuckets ≠ 0 := by omega
  have h3 : ¬ cfg.f_RollingStatsNumBuckets < 0 := by omega
  have h4 : ¬ (cfg.f_RollingPercentileNumBuckets < 0 ∨ (0 < cfg.f_RollingPercentileNumBuckets ∧ cfg.f_RollingPercentileBucketSize < 0)) := by omega
  simp only [RSV.setConfig, hN, bucketWidth_ne _ _ h1, bucketWidth_ne _ _ h2, h3, h4, if_false]
  simp only [toCons, Ctr.fresh, Pct.fresh, Cons.RunStats.new, hn, hpn, hps, Int.toNat_natCast, tdiv_wrap _ _ hd.1 hd.2,
    tdiv_wrap _ _ hpd.1 hpd.2, and_self, true_and]

/-- C20's sentence for the number `ErrorPercentageAt` returns: with `s`, `f`, `t` the successes / failures / timeouts inside
    the window at `now`, it is 0 when `s + f + t = 0` and otherwise the double nearest to `(f + t) / (s + f + t)`. -/
theorem errorPercentageAt_formula (r : RSV) (now : Int)
    (hs : 0 ≤ (r.successes.sumAt now).2) (hf : 0 ≤ (r.failures.sumAt now).2) (ht : 0 ≤ (r.timeouts.sumAt now).2)
    (hb : (r.successes.sumAt now).2 + (r.failures.sumAt now).2 + (r.timeouts.sumAt now).2 ≤ 9007199254740992) :
    (r.errorPercentageAt now).2.r =
      (if (r.successes.sumAt now).2 + (r.failures.sumAt now).2 + (r.timeouts.sumAt now).2 = 0 then 0
       else F64.rne ((((r.failures.sumAt now).2 + (r.timeouts.sumAt now).2 : Int) : Rat) /
                     (((r.successes.sumAt now).2 + (r.failures.sumAt now).2 + (r.timeouts.sumAt now).2 : Int) : Rat))) :=
  Cons.errorPercentage_eq _ _ _ hs hf ht hb

/-! ### non-vacuity -/
section examples
def w0 : World := { wallAt := fun n => 1000 + n, injAt := fun n => 5000 + 10 * n }
def cfg1 : RSCfg :=
  { f_Now := some .inj, f_RollingStatsDuration := 100, f_RollingStatsNumBuckets := 10,
    f_RollingPercentileDuration := 60, f_RollingPercentileNumBuckets := 6, f_RollingPercentileBucketSize := 3 }
def g0 : GS (GoStats.St RSV) String := { st := { recv := {}, world := w0 } }
def rs1 : RSV := (RSV.setConfig {} cfg1 w0).2.1
/-- three successes (offsets 3, 4, 25), one failure (5), one timeout (95) in ten buckets of width 10 started at 5000 -/
def rs2 : RSV :=
  { rs1 with successes := { rs1.successes with rc := ((rs1.successes.rc.inc 3).inc 4).inc 25 },
             failures := { rs1.failures with rc := rs1.failures.rc.inc 5 },
             timeouts := { rs1.timeouts with rc := rs1.timeouts.rc.inc 95 } }
def g2 : GS (GoStats.St RSV) String := { st := { recv := rs2, world := (RSV.setConfig {} cfg1 w0).2.2 } }

/-- the translated `SetConfigNotThreadSafe` on a zero RunStats: returns, ids 0…7, eight logged calls, ONE reading of the
    injected clock (5000), none of the wall clock, lock given back, nothing left deferred -/
example : let r := go_SetConfigNotThreadSafe cfg1 g0
    (r.1 = .ok () ∧ ids r.2.st.recv = [some 0, some 1, some 2, some 3, some 4, some 5, some 6, some 7] ∧
     r.2.st.world.allocs = List.replicate 7 (.counter 10 10 5000) ++ [.percentile 10 6 3 5000] ∧
     r.2.st.world.injReads = 1 ∧ r.2.st.world.wallReads = 0 ∧ r.2.st.recv.mu = 0 ∧ r.2.defers = [] ∧ r.2.st.stuck = false ∧
     r.2.st.recv.config = cfg1) := by decide
/-- a negative percentile ring: the seven counters are already assigned when `NewRollingPercentile` panics; lock given back -/
example : let r := go_SetConfigNotThreadSafe { cfg1 with f_RollingPercentileNumBuckets := -1 } g0
    (r.1 = .panic panicMakeSlice ∧ r.2.st.recv.interrupts.id = some 6 ∧ r.2.st.recv.latencies.id = none ∧ r.2.st.recv.mu = 0 ∧ r.2.defers = []) := by decide
/-- zero buckets: the division panics before anything is built (the config is already stored) -/
example : let r := go_SetConfigNotThreadSafe { cfg1 with f_RollingStatsNumBuckets := 0 } g0
    (r.1 = .panic panicDivZero ∧ r.2.st.world.allocs = [] ∧ r.2.st.recv.config.f_RollingStatsNumBuckets = 0 ∧ r.2.st.recv.mu = 0) := by decide
/-- at offset 99 all five events are in the window: 2/5 as a double; at offset 104 the oldest bucket has gone: 1/2; far
    later the window is empty: 0 -/
example : (go_ErrorPercentageAt 5099 g2).1 = .ok ⟨F64.div (F64.ofInt 2) (F64.ofInt 5)⟩ := by
  rw [go_ErrorPercentageAt_eq, sem_updRetR]
  have hs : (g2.st.recv.successes.sumAt 5099).2 = 3 := by decide
  have hf : (g2.st.recv.failures.sumAt 5099).2 = 1 := by decide
  have ht : (g2.st.recv.timeouts.sumAt 5099).2 = 1 := by decide
  simp only [RSV.errorPercentageAt, hs, hf, ht, Cons.errorPercentage]
  rfl
example : (go_ErrorPercentageAt 5104 g2).1 = .ok ⟨F64.div (F64.ofInt 1) (F64.ofInt 2)⟩ := by
  rw [go_ErrorPercentageAt_eq, sem_updRetR]
  have hs : (g2.st.recv.successes.sumAt 5104).2 = 1 := by decide
  have hf : (g2.st.recv.failures.sumAt 5104).2 = 0 := by decide
  have ht : (g2.st.recv.timeouts.sumAt 5104).2 = 1 := by decide
  simp only [RSV.errorPercentageAt, hs, hf, ht, Cons.errorPercentage]
  rfl
example : (go_ErrorPercentageAt 9999 g2).1 = .ok ⟨0⟩ := by
  rw [go_ErrorPercentageAt_eq, sem_updRetR]
  have hs : (g2.st.recv.successes.sumAt 9999).2 = 0 := by decide
  have hf : (g2.st.recv.failures.sumAt 9999).2 = 0 := by decide
  have ht : (g2.st.recv.timeouts.sumAt 9999).2 = 0 := by decide
  simp only [RSV.errorPercentageAt, hs, hf, ht, Cons.errorPercentage]
  rfl
/-- `ErrorPercentage()` reads the WALL clock once (1000: before the counters' start, so nothing rolls) -/
example : (go_ErrorPercentage g2).2.st.world.wallReads = 1 ∧ (go_ErrorPercentage g2).2.st.world.injReads = 1 := by
  rw [go_ErrorPercentage_eq, sem_act]; decide
example : (go_Config g2).1 = .ok cfg1 ∧ (go_Config g2).2.st.recv.mu = 0 := by decide
/-- SURPRISE (see REPORT_stats.md): the stats run on an injected clock (started at 5000), the wall clock reads 1 000 000.
    `ErrorPercentage()` reads the WALL clock, so it rolls the three windows there: the three successes that
    `ErrorPercentageAt(5099)` counted before the call are gone after it. -/
def g3 : GS (GoStats.St RSV) String := { g2 with st := { g2.st with world := { g2.st.world with wallAt := fun _ => 1000000 } } }
example : (g3.st.recv.successes.sumAt 5099).2 = 3 ∧ ((go_ErrorPercentage g3).2.st.recv.successes.sumAt 5099).2 = 0 ∧
    ((go_ErrorPercentage g3).2.st.recv.timeouts.sumAt 5099).2 = 0 := by
  rw [go_ErrorPercentage_eq, sem_act]; decide
end examples

end CM.GoTie.GoStatsRun

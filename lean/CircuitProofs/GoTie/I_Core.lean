/-
  GoTie/I_Core.lean — why "one thread alone against an ORACLE" (Conc/Solo) is what a thread experiences in ANY schedule
  of the whole system (Conc/Core.run): for every system, every configuration, every schedule and every thread there is
  an oracle — what the other threads did between this thread's turns — under which the thread alone reaches exactly the
  local state it has after the schedule, and the shared state differs only by the others' moves after its last turn.
  So a statement proved for EVERY oracle (the K6 ties I_RC, I_TC, I_Call) covers every schedule of any number of threads.
-/
import CircuitModel.Conc.Solo
namespace CM.GoTie.ICore
open CM.Conc

/-- prepend a move of the others to an oracle (it merges with the move that precedes the thread's next turn) -/
def precompose (f : σ → σ) : List (σ → σ) × (σ → σ) → List (σ → σ) × (σ → σ)
  | ([], last) => ([], last ∘ f)
  | (e :: r, last) => ((e ∘ f) :: r, last)

theorem soloAll_precompose (S : Sys σ loc) (i : Nat) (f : σ → σ) (p : List (σ → σ) × (σ → σ)) (s : σ) (l : loc) :
    (precompose f p).2 (soloAll S i (precompose f p).1 s l).1 = p.2 (soloAll S i p.1 (f s) l).1 ∧
    (soloAll S i (precompose f p).1 s l).2 = (soloAll S i p.1 (f s) l).2 := by
  obtain ⟨envs, last⟩ := p
  cases envs with
  | nil => simp [precompose, soloAll]
  | cons e r =>
    simp only [precompose, soloAll, Function.comp]
    cases S.step i (e (f s)) l <;> simp

/-- every schedule, seen from thread `i`, is a solo run against some oracle -/
theorem thread_view (S : Sys σ loc) (sched : List Nat) (i : Nat) :
    ∀ (c : Config σ loc) (l : loc), c.locals[i]? = some l →
    ∃ (envs : List (σ → σ)) (last : σ → σ),
      (run S c sched).shared = last (soloAll S i envs c.shared l).1 ∧
      (run S c sched).locals[i]? = some (soloAll S i envs c.shared l).2 := by
  induction sched with
  | nil => intro c l h; exact ⟨[], id, rfl, h⟩
  | cons j rest ih =>
    intro c l h
    by_cases hj : j = i
    · -- the thread's own turn: the others did nothing in between (identity move)
      subst hj
      simp only [run, h]
      cases hs : S.step j c.shared l with
      | none =>
        obtain ⟨envs, last, h1, h2⟩ := ih c l h
        refine ⟨id :: envs, last, ?_, ?_⟩ <;> simp [soloAll, hs, h1, h2]
      | some q =>
        obtain ⟨s', l'⟩ := q
        have hl : ({ shared := s', locals := c.locals.set j l' } : Config σ loc).locals[j]? = some l' := by
          have : j < c.locals.length := by
            rcases Nat.lt_or_ge j c.locals.length with h' | h'
            · exact h'
            · simp [List.getElem?_eq_none h'] at h
          simp [this]
        obtain ⟨envs, last, h1, h2⟩ := ih _ l' hl
        refine ⟨id :: envs, last, ?_, ?_⟩ <;> simp [soloAll, hs, h1, h2]
    · -- somebody else's turn: whatever it does to the shared state becomes part of the oracle's next move
      cases hl : c.locals[j]? with
      | none => simpa [run, hl] using ih c l h
      | some lj =>
        cases hs : S.step j c.shared lj with
        | none => simpa [run, hl, hs] using ih c l h
        | some q =>
          obtain ⟨s', lj'⟩ := q
          have hl' : ({ shared := s', locals := c.locals.set j lj' } : Config σ loc).locals[i]? = some l := by
            simp [hj, h]
          obtain ⟨envs, last, h1, h2⟩ := ih _ l hl'
          have hp := soloAll_precompose S i (fun _ => s') (envs, last) c.shared l
          refine ⟨(precompose (fun _ => s') (envs, last)).1, (precompose (fun _ => s') (envs, last)).2, ?_, ?_⟩
          · simp only [run, hl, hs]; rw [hp.1]; exact h1
          · simp only [run, hl, hs]; rw [hp.2]; exact h2

end CM.GoTie.ICore

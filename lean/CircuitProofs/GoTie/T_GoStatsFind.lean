/- GoTie/T_GoStatsFind.lean — `rolling.FindCommandMetrics` / `FindFallbackMetrics`, as translated TODAY from
   metrics/rolling/rolling.go (Generated/GoStatsFind/F_*.lean): the FIRST element of the circuit's collector list whose
   dynamic type is *RunStats (resp. *FallbackStats) — `findRun` / `findFb` of GoStatsPrims.lean — nil when there is none. -/
import CircuitProofs.GoTie.T_GoStatsCommon
import Generated.GoStatsFind
set_option linter.unusedSimpArgs false
namespace CM.GoTie.GoStatsFind
open CM CM.Go CM.GoStats CM.GoStats.Find CM.Generated.GoStatsFind CM.GoTie.GoStats

/-- the search loop: it stops at the first element the type assertion accepts, with the pointer that element holds -/
theorem loop_find {β : Type} (sel : Coll → β × Bool) (f : Coll → Option β × Unit → NM (ForInStep (Option β × Unit)))
    (hf : ∀ r s g, f r s g = (.ok (if (sel r).2 = true then ForInStep.done (some (sel r).1, ()) else ForInStep.yield (none, ())), g))
    (l : List Coll) (g : GS Unit NoTok) :
    forIn l (none, ()) f g = (.ok ((l.find? (fun c => (sel c).2)).map (fun c => (sel c).1), ()), g) := by
  induction l with
  | nil => rfl
  | cons c l ih =>
    rw [List.forIn_cons, sem_bind_ok _ _ _ _ _ (hf c (none, ()) g)]
    by_cases hc : (sel c).2 = true
    · simp only [hc, if_true, List.find?_cons_of_pos, Option.map_some]
      rfl
    · have hc' : (sel c).2 = false := by simpa using hc
      rw [List.find?_cons_of_neg (by simpa using hc)]
      simp only [hc', Bool.false_eq_true, if_false]
      exact ih

theorem findRun_eq (l : List Coll) :
    findRun l = ((l.find? (fun c => (match c with | .runStats p => (p, true) | _ => ((none : RSP), false)).2)).map
      (fun c => (match c with | .runStats p => (p, true) | _ => ((none : RSP), false)).1)).getD none := by
  induction l with
  | nil => rfl
  | cons c l ih => cases c <;> simp [findRun, List.find?_cons, ih]

theorem findFb_eq (l : List Coll) :
    findFb l = ((l.find? (fun c => (match c with | .fbStats p => (p, true) | _ => ((none : FSP), false)).2)).map
      (fun c => (match c with | .fbStats p => (p, true) | _ => ((none : FSP), false)).1)).getD none := by
  induction l with
  | nil => rfl
  | cons c l ih => cases c <;> simp [findFb, List.find?_cons, ih]

/-- `FindCommandMetrics(c)` returns the first *RunStats among `c.CmdMetricCollector` (the pointer it holds, nil included),
    nil when no element has that dynamic type; nothing is changed. -/
theorem go_FindCommandMetrics_eq (c : CircV) : go_FindCommandMetrics c = pure (findRun c.f_CmdMetricCollector) := by
  funext g
  unfold go_FindCommandMetrics fn
  apply sem_goFunc_pure
  rw [sem_bind_step, loop_find (fun c => match c with | .runStats p => (p, true) | _ => ((none : RSP), false)) _
    (fun r s g => by cases r <;> rfl), sem_step_ok, findRun_eq]
  cases List.find? _ c.f_CmdMetricCollector <;> rfl

/-- `FindFallbackMetrics(c)` returns the first *FallbackStats among `c.FallbackMetricCollector`, nil when there is none. -/
theorem go_FindFallbackMetrics_eq (c : CircV) : go_FindFallbackMetrics c = pure (findFb c.f_FallbackMetricCollector) := by
  funext g
  unfold go_FindFallbackMetrics fn
  apply sem_goFunc_pure
  rw [sem_bind_step, loop_find (fun c => match c with | .fbStats p => (p, true) | _ => ((none : FSP), false)) _
    (fun r s g => by cases r <;> rfl), sem_step_ok, findFb_eq]
  cases List.find? _ c.f_FallbackMetricCollector <;> rfl

/-- a circuit's run collectors are its closer, its opener, then the configured ones (unit GoSetCfg, `rebuild_replaces_collectors`):
    when those two are of other types and the configured list is what the stat factory returned, the search finds the
    factory's RunStats. -/
theorem find_after_others (a b : Nat) (p : RSP) (rest : List Coll) :
    findRun (.other a :: .other b :: .runStats p :: rest) = p := rfl

/-! ### non-vacuity -/
section examples
def rs7 : RSV := { successes := { id := some 7 } }
def c0 : CircV :=
  { f_CmdMetricCollector := [.other 1, .nilIface, .fbStats none, .runStats (some rs7), .runStats none],
    f_FallbackMetricCollector := [.other 1, .runStats (some rs7)] }
/-- the first *RunStats wins (later ones are not looked at); no *FallbackStats in the fallback list: nil -/
example : (go_FindCommandMetrics c0 { st := () }).1 = .ok (some rs7) := by decide
example : (go_FindFallbackMetrics c0 { st := () }).1 = .ok none := by decide
/-- a typed nil pointer in the list IS found (the assertion succeeds) and returned: the caller gets nil although a later
    element holds a real RunStats -/
example : (go_FindCommandMetrics { c0 with f_CmdMetricCollector := [.runStats none, .runStats (some rs7)] } { st := () }).1 = .ok none := by decide
end examples

end CM.GoTie.GoStatsFind

/- GoTie/T_GoSDVar.lean — `SortedDurations.Var()`, as translated TODAY from faststats/rolling_percentile.go: it returns a
   function value closed over the snapshot it was called on, and EVALUATING that value yields the map
   {min, p25 ↦ Percentile(25), p50 ↦ Percentile(50), p90 ↦ Percentile(90), p99 ↦ Percentile(99), max, mean} of THAT snapshot
   (C15: "the published summary labels each pNN with Percentile(NN)").  The unit translates Mean / Min / Max / Percentile once
   more next to Var; those four bodies are literally the ones tied in T_GoSortedDurations. -/
import CircuitModel.GoFsnewPrims
import CircuitProofs.GoTie.Sem
import CircuitProofs.GoTie.T_GoSortedDurations
import Generated.GoSDVar
namespace CM.GoTie.GoSDVar
open CM CM.Go CM.GoSD CM.GoFsNew CM.GoFsNew.SV CM.Generated.GoSDVar

/-! ### the four summaries of this unit ARE the ones of unit GoSortedDurations -/
theorem go_Min_same : @go_Min = @CM.Generated.GoSortedDurations.go_Min := rfl
theorem go_Max_same : @go_Max = @CM.Generated.GoSortedDurations.go_Max := rfl
theorem go_Mean_same : @go_Mean = @CM.Generated.GoSortedDurations.go_Mean := rfl
theorem go_Percentile_same : @go_Percentile = @CM.Generated.GoSortedDurations.go_Percentile := rfl

/-! ### the ties -/

/-- `s.Var()` computes nothing yet: it returns the function value "closure #1 of Var, over `s`". -/
theorem go_Var_eq (s : List Int) (g : GS Unit NoTok) :
    go_Var (s.map I64.mk) g = (.ok ⟨"Var_lit1", s.map I64.mk, []⟩, g) := by
  unfold go_Var fn
  apply sem_goFunc_pure
  rfl

theorem fsnew_stepN {α β : Type} (s : GS Unit NoTok) (f : α → DM β) : sem_step ((.nilCall : Out α), s) f = (.nilCall, s) := rfl

/-- Evaluating that value: the summary `varSummary s` of the snapshot it was created from — every `pNN` is `Percentile(NN)`,
    min / max / mean are `Min()` / `Max()` / `Mean()` — or Go's panic where a percentile has none. -/
theorem go_Var_eval_eq (s : List Int) (g : GS Unit NoTok) :
    go_Var_lit1_eval ⟨"Var_lit1", s.map I64.mk, []⟩ g
      = ((match varSummary s with | some m => .ok m | none => .nilCall), g) := by
  show go_Var_lit1 (s.map I64.mk) g = _
  unfold go_Var_lit1 fn
  apply sem_goFunc_pure
  have e25 : (25 : GoF64) = ⟨(25 : Rat)⟩ := rfl
  have e50 : (50 : GoF64) = ⟨(50 : Rat)⟩ := rfl
  have e90 : (90 : GoF64) = ⟨(90 : Rat)⟩ := rfl
  have e99 : (99 : GoF64) = ⟨(99 : Rat)⟩ := rfl
  simp only [go_Min_same, go_Max_same, go_Mean_same, go_Percentile_same, e25, e50, e90, e99, varSummary]
  simp only [sem_bind_step, CM.GoTie.GoSD.go_Min_eq, sem_step_ok, I64.m_String, sem_pure, CM.GoTie.GoSD.go_Percentile_eq]
  cases ha : SD.percentile s (.fin 25) <;> cases hb : SD.percentile s (.fin 50) <;>
  cases hc : SD.percentile s (.fin 90) <;> cases hd : SD.percentile s (.fin 99) <;>
  simp only [outOf, sem_bind_step, sem_step_ok, sem_pure, CM.GoTie.GoSD.go_Percentile_eq, CM.GoTie.GoSD.go_Max_eq,
    CM.GoTie.GoSD.go_Mean_eq, goMapLit, fsnew_stepN, hb, hc, hd]

/-- the `pNN` entries are exactly the model's label table `SD.varLabels` (p25 ↦ 25, p50 ↦ 50, p90 ↦ 90, p99 ↦ 99), each with
    `Percentile` at its number -/
theorem varSummary_labels (s : List Int) (m : VarMap) (h : varSummary s = some m) :
    ∀ lab p, (lab, p) ∈ SD.varLabels → ∃ v, SD.percentile s (.fin p) = some v ∧ (lab, (⟨v⟩ : DurStr)) ∈ m := by
  unfold varSummary at h
  cases ha : SD.percentile s (.fin 25) <;> cases hb : SD.percentile s (.fin 50) <;>
  cases hc : SD.percentile s (.fin 90) <;> cases hd : SD.percentile s (.fin 99) <;> simp only [ha, hb, hc, hd] at h <;> try contradiction
  injection h with h
  subst h
  intro lab p hm
  simp only [SD.varLabels, List.mem_cons, Prod.mk.injEq, List.not_mem_nil, or_false] at hm
  rcases hm with ⟨rfl, rfl⟩ | ⟨rfl, rfl⟩ | ⟨rfl, rfl⟩ | ⟨rfl, rfl⟩
  · exact ⟨_, ha, by simp⟩
  · exact ⟨_, hb, by simp⟩
  · exact ⟨_, hc, by simp⟩
  · exact ⟨_, hd, by simp⟩

/-! ### non-vacuity -/

/-- a one-sample snapshot: every entry is that sample; an empty one: every entry is -1 (kernel-evaluated; on
    `[10, 20, 30, 40, 1000]` `#eval` gives min 10, p25 20, p50 30, p90 616, p99 961, max 1000, mean 220 for both sides) -/
example : (Go.run (go_Var_lit1_eval ⟨"Var_lit1", [7].map I64.mk, []⟩) ()).1
    = .ok [("min", ⟨7⟩), ("p25", ⟨7⟩), ("p50", ⟨7⟩), ("p90", ⟨7⟩), ("p99", ⟨7⟩), ("max", ⟨7⟩), ("mean", ⟨7⟩)] := by decide
example : varSummary [7] = some [("min", ⟨7⟩), ("p25", ⟨7⟩), ("p50", ⟨7⟩), ("p90", ⟨7⟩), ("p99", ⟨7⟩), ("max", ⟨7⟩), ("mean", ⟨7⟩)] := by decide
example : varSummary [] = some [("min", ⟨-1⟩), ("p25", ⟨-1⟩), ("p50", ⟨-1⟩), ("p90", ⟨-1⟩), ("p99", ⟨-1⟩), ("max", ⟨-1⟩), ("mean", ⟨-1⟩)] := by decide
example : (Go.run (go_Var ([7].map I64.mk)) ()).1 = .ok ⟨"Var_lit1", [⟨7⟩], []⟩ := by decide
/-- a function value this unit did not make cannot be evaluated -/
example : (Go.run (go_Var_lit1_eval ⟨"other", [], []⟩) ()).1 = .nilCall := by decide

end CM.GoTie.GoSDVar

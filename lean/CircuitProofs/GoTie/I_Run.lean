/-
  GoTie/I_Run.lean — K6, the INTERFERENCE tie for the WHOLE call: the body of `Circuit.run` with everything it calls
  (`allowNewRun`, `IsOpen`, `throttleConcurrentCommands`, the five links of the classification chain, `attemptToOpen`,
  `openCircuit`, `close`), translated from today's circuit.go over primitives in which an arbitrary move of the other
  goroutines precedes every atomic operation on the flags and the gauge, every mutex operation, every delivery to the
  collectors and the execution of the user's function (CircuitModel/GoRunConcPrims.lean; Generated/GoRunI), takes
  EXACTLY the steps of the small-step model's thread (Conc/Run.step) run alone against the same oracle: same shared
  state (gauge, ghost region and event log included), same oracle left, same sequence of operations with the same
  observed values, same way of ending — a returned error, the user's panic passing through with the deferred decrement
  done, or waiting for the transition mutex.
-/
import Generated.GoRunI
import CircuitModel.Conc.RunSolo
import CircuitProofs.GoTie.I_Run_Lemmas
namespace CM.GoTie.IRun
open CM CM.Go CM.Conc CM.Conc.Run CM.GoRunI CM.Generated.GoRunI

def runR (m : RM α) (s : Shared) (tid : Nat) (sc : Script) (envs : List (Shared → Shared)) : Out α × RS :=
  let r := m { st := { sh := s, tid := tid, sc := sc, envs := envs }, defers := [] }
  (r.1, r.2.st)

structure Agrees {α : Type} (r : Out α × RS) (st : SoloSt Shared Local Lab) (fin : Out α → Pc → Prop) : Prop where
  sh : st.sh = r.2.sh
  envs : st.envs = r.2.envs
  trace : st.trace = r.2.trace
  pc : fin r.1 st.loc.pc
  notStuck : r.2.stuck = false
  blocked : r.2.blocked = true ↔ r.1 = .nilCall

/-- what `run` returns for each way the model's call ends -/
def errOf (sc : Script) : Res → Err
  | .shed => pkg_errCircuitOpen
  | .rejected => pkg_errThrottledConcurrentCommands
  | .ran _ => if sc.failed then userErr else none
  | _ => none

/-- waiting for the transition mutex at the start of a transition -/
def Waiting (pc : Pc) : Prop := ∃ j r, pc = .trans { job := j, pc := .start } r

set_option linter.unusedSimpArgs false

/-! ### helpers: the statement about `runR` as a relation between the two sides; the leaves; the body of `run` -/
def irun_Top {α : Type} (fin : Out α → Pc → Prop) (r : Out α × irun_G) (st : SoloSt Shared Local Lab) : Prop :=
  Agrees (r.1, r.2.st) st fin
theorem irun_Top_leaf {α : Type} (fin : Out α → Pc → Prop) (o : Out α) (sh : Shared) (tid : Nat) (sc : Script) (obs : Int)
    (envs : List (Shared → Shared)) (tr : List Lab) (b : Bool) (d : List String) (loc : Local)
    (hpc : fin o loc.pc) (hb : b = true ↔ o = .nilCall) :
    irun_Top fin (o, ⟨⟨sh, tid, sc, obs, envs, tr, b, false⟩, d⟩) ⟨sh, loc, envs, tr⟩ :=
  ⟨rfl, rfl, rfl, hpc, rfl, hb⟩
theorem irun_Top_of {α : Type} (m : RM α) (s : Shared) (tid : Nat) (sc : Script) (envs : List (Shared → Shared))
    (st : SoloSt Shared Local Lab) (fin : Out α → Pc → Prop)
    (h : irun_Rel (irun_Top fin) (fun r => r) (m ⟨⟨s, tid, sc, 0, envs, [], false, false⟩, []⟩) st) : Agrees (runR m s tid sc envs) st fin := h

def irun_runFin (sc : Script) : Out Err → Pc → Prop := fun o pc => match o with
        | .ok e => ∃ r, pc = .done r ∧ e = errOf sc r ∧ r ≠ .panicked ∧ r ≠ .manual
        | .panic _ => pc = .done .panicked
        | .nilCall => Waiting pc

theorem irun_throttled_isNone : Option.isNone pkg_errThrottledConcurrentCommands = false := rfl

/-- the leaves of `run`: a returned error, the user's panic, or waiting -/
macro "irun_run_leaf" : tactic => `(tactic|
  (refine irun_Top_leaf _ _ _ _ _ _ _ _ _ _ _ ?_ (by simp)
   first
     | (show ∃ r, _ = Pc.done r ∧ _ = errOf _ r ∧ r ≠ .panicked ∧ r ≠ .manual
        refine ⟨_, rfl, rfl, ?_, ?_⟩ <;> simp)
     | exact (rfl : _ = Pc.done .panicked)))

theorem irun_run_gen (s : Shared) (tid : Nat) (sc : Script) (envs : List (Shared → Shared)) :
    irun_Rel (irun_Top (irun_runFin sc)) (fun r => r) (go_run {} {} ⟨⟨s, tid, sc, 0, envs, [], false, false⟩, []⟩)
      (solo sys view tid 64 ⟨s, ⟨.call sc, .aFO, none⟩, envs, []⟩) := by
  simp only [go_run]
  irun_eval [irun_now_apply, ↓irun_hold_aFO]
  apply irun_Rel_wrap; apply irun_Rel_bindK
  apply irun_seg_allowNewRun _ _ _ _ _ _ _ _ _ _ _ _ _ (by omega)
  · intro s' e' tr' so' k' hk
    obtain ⟨i, rfl⟩ : ∃ i, k' = i + 50 := ⟨k' - 50, by omega⟩
    cases hd : sc.deadline
    · irun_eval [irun_now_apply, irun_throttle_apply, ↓irun_hold_classify, hd, irun_throttled_isNone, Int.reduceGT, decide_false, decide_true]
      change irun_Rel (irun_Top _) (fun r => r) _ _
      irun_walk
      all_goals try irun_run_leaf
      · apply irun_Rel_wrap
        change irun_Rel _ _ (irun_chain _ _ _ _ _ _ _) _
        apply irun_seg_chain _ _ _ _ _ _ _ _ _ _ _ _ _ rfl _ (by rw [hd]; rfl) _ _ _ (by omega)
        · intro s' e' tr' j r d'
          simp only [irun_wrap_blocked]
          exact irun_Top_leaf _ _ _ _ _ _ _ _ _ _ _ ⟨j, r, rfl⟩ (by simp)
        · intro s' e' tr' k' hk'
          obtain ⟨j, rfl⟩ : ∃ j, k' = j + 2 := ⟨k' - 2, by omega⟩
          irun_eval []
          change irun_Rel (irun_Top _) (fun r => r) _ _
          irun_walk
          all_goals irun_run_leaf
    · irun_eval [irun_now_apply, irun_throttle_apply, ↓irun_hold_classify, hd, irun_throttled_isNone, Int.reduceGT, decide_false, decide_true]
      change irun_Rel (irun_Top _) (fun r => r) _ _
      irun_walk
      all_goals try irun_run_leaf
      · apply irun_Rel_wrap
        change irun_Rel _ _ (irun_chain _ _ _ _ _ _ _) _
        apply irun_seg_chain _ _ _ _ _ _ _ _ _ _ _ _ _ rfl _ (by rw [hd]; rfl) _ _ _ (by omega)
        · intro s' e' tr' j r d'
          simp only [irun_wrap_blocked]
          exact irun_Top_leaf _ _ _ _ _ _ _ _ _ _ _ ⟨j, r, rfl⟩ (by simp)
        · intro s' e' tr' k' hk'
          obtain ⟨j, rfl⟩ : ∃ j, k' = j + 2 := ⟨k' - 2, by omega⟩
          irun_eval []
          change irun_Rel (irun_Top _) (fun r => r) _ _
          irun_walk
          all_goals irun_run_leaf
  · intro s' e' tr' so' k' hk
    obtain ⟨i, rfl⟩ : ∃ i, k' = i + 50 := ⟨k' - 50, by omega⟩
    irun_eval []
    change irun_Rel (irun_Top _) (fun r => r) _ _
    irun_walk
    all_goals irun_run_leaf

/-- THE WHOLE `run`, for every shared state, script and oracle -/
theorem run_solo (s : Shared) (tid : Nat) (sc : Script) (envs : List (Shared → Shared)) :
    Agrees (runR (go_run {} {}) s tid sc envs) (soloCall tid 64 (.call sc) s envs)
      (fun o pc => match o with
        | .ok e => ∃ r, pc = .done r ∧ e = errOf sc r ∧ r ≠ .panicked ∧ r ≠ .manual
        | .panic _ => pc = .done .panicked
        | .nilCall => Waiting pc) := by
  exact irun_Top_of _ _ _ _ _ _ _ (irun_run_gen s tid sc envs)

/-- `openCircuit` / `close(forceClosed = true)` as OpenCircuit / CloseCircuit run them, in the same model -/
theorem openCircuit_solo (s : Shared) (tid : Nat) (sc : Script) (envs : List (Shared → Shared)) :
    Agrees (runR (go_openCircuit {} 1) s tid sc envs) (soloCall tid 64 .open s envs)
      (fun o pc => match o with
        | .ok () => pc = .done .manual
        | .nilCall => Waiting pc
        | .panic _ => False) := by
  apply irun_Top_of
  apply irun_seg_openCircuit _ _ _ _ _ _ _ _ _ _ _ _ _ _ _ (by omega)
  · intro s' e' tr' j r d'
    exact irun_Top_leaf _ _ _ _ _ _ _ _ _ _ _ ⟨j, r, rfl⟩ (by simp)
  · intro s' e' tr' k' _
    rw [irun_finPc_manual, irun_solo_done]
    exact irun_Top_leaf _ _ _ _ _ _ _ _ _ _ _ rfl (by simp)

theorem closeCircuit_solo (s : Shared) (tid : Nat) (sc : Script) (envs : List (Shared → Shared)) :
    Agrees (runR (go_close {} 1 true) s tid sc envs) (soloCall tid 64 .close s envs)
      (fun o pc => match o with
        | .ok () => pc = .done .manual
        | .nilCall => Waiting pc
        | .panic _ => False) := by
  apply irun_Top_of
  apply irun_seg_close _ _ _ _ _ _ _ _ _ _ _ _ _ _ _ _ (by simp) _ (by omega)
  · intro s' e' tr' j r d'
    exact irun_Top_leaf _ _ _ _ _ _ _ _ _ _ _ ⟨j, r, rfl⟩ (by simp)
  · intro s' e' tr' k' _
    rw [irun_finPc_manual, irun_solo_done]
    exact irun_Top_leaf _ _ _ _ _ _ _ _ _ _ _ rfl (by simp)

/-! non-vacuity: a panicking function under a full bulkhead next door; an opening that has to wait -/
def sh0 : Shared := { t := { forceOpen := false, forcedClosed := false, isOpen := false }, limit := 5 }
def inc : Shared → Shared := fun s => { s with gauge := s.gauge + 1, region := s.region ++ [{ tid := 5, obs := s.gauge + 1, running := true }] }
def grab : Shared → Shared := fun s => if s.t.holder.isNone then { s with t := { s.t with holder := some 7 } } else s
example : (runR (go_run {} {}) sh0 1 { panics := true } [inc, id, id, inc]).1 = .panic 1 := by decide
example : (runR (go_run {} {}) sh0 1 { panics := true } [inc, id, id, inc]).2.sh.gauge = 2 := by decide
example : (runR (go_run {} {}) sh0 1 { failed := true, shouldOpen := true } [id,id,id,id,id,id,id,id,id,id,id,id,grab]).1 = .nilCall := by decide
example : (runR (go_run {} {}) sh0 1 { failed := true, shouldOpen := true } []).2.sh.t.log = [true] := by decide

end CM.GoTie.IRun

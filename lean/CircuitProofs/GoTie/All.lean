/- GoTie/All.lean — the per-function ties put together: no hypotheses left.
   The control flow of circuit.go — as translated TODAY by tools/extract/gotrans — computes the model's functions. -/
import CircuitProofs.GoTie.F_now
import CircuitProofs.GoTie.F_IsOpen
import CircuitProofs.GoTie.F_isEmptyOrNil
import CircuitProofs.GoTie.F_ConcurrentCommands
import CircuitProofs.GoTie.F_ConcurrentFallbacks
import CircuitProofs.GoTie.F_throttleConcurrentCommands
import CircuitProofs.GoTie.F_openCircuit
import CircuitProofs.GoTie.F_close
import CircuitProofs.GoTie.F_attemptToOpen
import CircuitProofs.GoTie.F_allowNewRun
import CircuitProofs.GoTie.F_OpenCircuit
import CircuitProofs.GoTie.F_CloseCircuit
import CircuitProofs.GoTie.F_checkErrBadRequest
import CircuitProofs.GoTie.F_checkErrTimeout
import CircuitProofs.GoTie.F_checkErrInterrupt
import CircuitProofs.GoTie.F_checkErrFailure
import CircuitProofs.GoTie.F_checkSuccess
import CircuitProofs.GoTie.F_fallback
import CircuitProofs.GoTie.F_run
import CircuitProofs.GoTie.F_Execute
import CircuitProofs.GoTie.F_Run
namespace CM.GoTie
open CM CM.Go CM.GoCircuit CM.Generated.GoCircuit
variable {σo σc : Type} [L : Logic σo σc]

/-- `Execute` (every path: disabled pass-through, short-circuit, rejection, the five outcome kinds, panics, fallback) -/
theorem execute_tie : ExecSpec σo σc go_Execute :=
  have hI := go_IsOpen_eq (σo := σo) (σc := σc)
  have hN := go_now_eq (σo := σo) (σc := σc)
  have hO := go_openCircuit_eq (σo := σo) (σc := σc) hI
  have hC := go_close_eq (σo := σo) (σc := σc) hI
  have hA := go_attemptToOpen_eq (σo := σo) (σc := σc) hI hO
  go_Execute_ok go_isEmptyOrNil_eq
    (go_run_ok hN (go_allowNewRun_eq hI) go_throttleConcurrentCommands_eq go_checkErrBadRequest_eq
      (go_checkErrTimeout_eq hI hA) go_checkErrInterrupt_eq (go_checkErrFailure_eq hI hA) (go_checkSuccess_eq hI hC))
    (go_fallback_ok hN)

/-- `Run` -/
theorem run_tie (c : Circ σo σc) (ctx : CallerCtx) (run : Option Script) :
    let r := go_Run (σo := σo) (σc := σc) .caller run { st := callState c ctx, defers := [] }
    (r.2.st.s.1, r.2.st.s.2, resOf r.1) = execute L.O L.C c ctx run none ∧ r.2.defers = [] ∧ r.2.st.stuck = false :=
  go_Run_ok execute_tie c ctx run

/-- `OpenCircuit`, `CloseCircuit`, `IsOpen` -/
theorem manual_tie : ManualSpec σo σc go_OpenCircuit go_CloseCircuit go_IsOpen := by
  intro c ctx
  have hI := go_IsOpen_eq (σo := σo) (σc := σc)
  have hN := go_now_eq (σo := σo) (σc := σc)
  have hO := go_openCircuit_eq (σo := σo) (σc := σc) hI
  have hC := go_close_eq (σo := σo) (σc := σc) hI
  simp only [go_OpenCircuit_eq hN hO, go_CloseCircuit_eq hN hC, hI]
  refine ⟨⟨rfl, rfl⟩, ⟨rfl, rfl⟩, rfl⟩

/-- the gauges -/
theorem gauges_tie : go_ConcurrentCommands (σo := σo) (σc := σc) = spec_ConcurrentCommands ∧
    go_ConcurrentFallbacks (σo := σo) (σc := σc) = spec_ConcurrentFallbacks :=
  ⟨go_ConcurrentCommands_eq, go_ConcurrentFallbacks_eq⟩

end CM.GoTie

/- GoTie/T_GoHCloser.lean — hystrix.Closer's methods are the model's `HCloser` functions (the gate itself is `TC`, C16).
   Every theorem says: the method body as translated TODAY from the Go source (Generated/GoHCloser/F_*.lean) computes the
   model's function. -/
import CircuitProofs.GoTie.Sem
import Generated.GoHCloser
set_option linter.unusedSimpArgs false
namespace CM.GoTie.GoHCloser
open CM CM.Go CM.GoHCloser CM.Generated.GoHCloser

theorem go_Success_eq (u : Unit) (t d : Int) : go_Success u t d = upd (fun s => s.onRun .success t d) := by
  funext g
  rw [go_Success, fn, sem_goFunc_noDefer] <;>
  simp [bind, recv_concurrentSuccessfulAttempts_Set, recv_concurrentSuccessfulAttempts_Add,
    recv_concurrentSuccessfulAttempts_Get, recv_closeOnCurrentCount_Get, recv_reopenCircuitCheck_SleepStart,
    recv_reopenCircuitCheck_Check, HCloser.onRun, HCloser.transition]

theorem go_ErrFailure_eq (u : Unit) (t d : Int) : go_ErrFailure u t d = upd (fun s => s.onRun .failure t d) := by
  funext g
  rw [go_ErrFailure, fn, sem_goFunc_noDefer] <;>
  simp [bind, recv_concurrentSuccessfulAttempts_Set, recv_concurrentSuccessfulAttempts_Add,
    recv_concurrentSuccessfulAttempts_Get, recv_closeOnCurrentCount_Get, recv_reopenCircuitCheck_SleepStart,
    recv_reopenCircuitCheck_Check, HCloser.onRun, HCloser.transition]

theorem go_ErrTimeout_eq (u : Unit) (t d : Int) : go_ErrTimeout u t d = upd (fun s => s.onRun .timeout t d) := by
  funext g
  rw [go_ErrTimeout, fn, sem_goFunc_noDefer] <;>
  simp [bind, recv_concurrentSuccessfulAttempts_Set, recv_concurrentSuccessfulAttempts_Add,
    recv_concurrentSuccessfulAttempts_Get, recv_closeOnCurrentCount_Get, recv_reopenCircuitCheck_SleepStart,
    recv_reopenCircuitCheck_Check, HCloser.onRun, HCloser.transition]

theorem go_ErrBadRequest_eq (u : Unit) (t d : Int) : go_ErrBadRequest u t d = upd (fun s => s.onRun .badRequest t d) := by
  funext g
  rw [go_ErrBadRequest, fn, sem_goFunc_noDefer] <;>
  simp [bind, recv_concurrentSuccessfulAttempts_Set, recv_concurrentSuccessfulAttempts_Add,
    recv_concurrentSuccessfulAttempts_Get, recv_closeOnCurrentCount_Get, recv_reopenCircuitCheck_SleepStart,
    recv_reopenCircuitCheck_Check, HCloser.onRun, HCloser.transition]

theorem go_ErrInterrupt_eq (u : Unit) (t d : Int) : go_ErrInterrupt u t d = upd (fun s => s.onRun .interrupt t d) := by
  funext g
  rw [go_ErrInterrupt, fn, sem_goFunc_noDefer] <;>
  simp [bind, recv_concurrentSuccessfulAttempts_Set, recv_concurrentSuccessfulAttempts_Add,
    recv_concurrentSuccessfulAttempts_Get, recv_closeOnCurrentCount_Get, recv_reopenCircuitCheck_SleepStart,
    recv_reopenCircuitCheck_Check, HCloser.onRun, HCloser.transition]

theorem go_ErrConcurrencyLimitReject_eq (u : Unit) (t : Int) : go_ErrConcurrencyLimitReject u t = upd (fun s => s.onRun .reject t 0) := by
  funext g
  rw [go_ErrConcurrencyLimitReject, fn, sem_goFunc_noDefer] <;>
  simp [bind, recv_concurrentSuccessfulAttempts_Set, recv_concurrentSuccessfulAttempts_Add,
    recv_concurrentSuccessfulAttempts_Get, recv_closeOnCurrentCount_Get, recv_reopenCircuitCheck_SleepStart,
    recv_reopenCircuitCheck_Check, HCloser.onRun, HCloser.transition]

theorem go_ErrShortCircuit_eq (u : Unit) (t : Int) : go_ErrShortCircuit u t = upd (fun s => s.onRun .shortCircuit t 0) := by
  funext g
  rw [go_ErrShortCircuit, fn, sem_goFunc_noDefer] <;>
  simp [bind, recv_concurrentSuccessfulAttempts_Set, recv_concurrentSuccessfulAttempts_Add,
    recv_concurrentSuccessfulAttempts_Get, recv_closeOnCurrentCount_Get, recv_reopenCircuitCheck_SleepStart,
    recv_reopenCircuitCheck_Check, HCloser.onRun, HCloser.transition]

theorem go_Opened_eq (u : Unit) (t : Int) : go_Opened u t = upd (fun s => s.transition t) := by
  funext g
  rw [go_Opened, fn, sem_goFunc_noDefer] <;>
  simp [bind, recv_concurrentSuccessfulAttempts_Set, recv_concurrentSuccessfulAttempts_Add,
    recv_concurrentSuccessfulAttempts_Get, recv_closeOnCurrentCount_Get, recv_reopenCircuitCheck_SleepStart,
    recv_reopenCircuitCheck_Check, HCloser.onRun, HCloser.transition]

theorem go_Closed_eq (u : Unit) (t : Int) : go_Closed u t = upd (fun s => s.transition t) := by
  funext g
  rw [go_Closed, fn, sem_goFunc_noDefer] <;>
  simp [bind, recv_concurrentSuccessfulAttempts_Set, recv_concurrentSuccessfulAttempts_Add,
    recv_concurrentSuccessfulAttempts_Get, recv_closeOnCurrentCount_Get, recv_reopenCircuitCheck_SleepStart,
    recv_reopenCircuitCheck_Check, HCloser.onRun, HCloser.transition]

theorem go_Allow_eq (u : Unit) (t : Int) : go_Allow u t = updRet (fun s => ({ s with tc := (s.tc.check t).1 }, (s.tc.check t).2)) := by
  funext g
  rw [go_Allow, fn, sem_goFunc_noDefer] <;>
  simp [bind, recv_concurrentSuccessfulAttempts_Set, recv_concurrentSuccessfulAttempts_Add,
    recv_concurrentSuccessfulAttempts_Get, recv_closeOnCurrentCount_Get, recv_reopenCircuitCheck_SleepStart,
    recv_reopenCircuitCheck_Check, HCloser.onRun, HCloser.transition]

theorem go_ShouldClose_eq (u : Unit) (t : Int) : go_ShouldClose u t = rd (fun s => decide (s.succ ≥ s.required)) := by
  funext g
  rw [go_ShouldClose, fn, sem_goFunc_noDefer] <;>
  simp [bind, recv_concurrentSuccessfulAttempts_Set, recv_concurrentSuccessfulAttempts_Add,
    recv_concurrentSuccessfulAttempts_Get, recv_closeOnCurrentCount_Get, recv_reopenCircuitCheck_SleepStart,
    recv_reopenCircuitCheck_Check, HCloser.onRun, HCloser.transition]

end CM.GoTie.GoHCloser

/- GoTie/F_ConcurrentCommands.lean — the run gauge
   The generated function is today's translation of circuit.go; callee behaviour enters as HYPOTHESES (the callees'
   own ties are proved in their own modules and put together in GoTie/All.lean), so this module depends on the body of
   `ConcurrentCommands` only. -/
import CircuitModel.GoCircuitSpec
import CircuitProofs.GoTie.Basic
import Generated.GoCircuit.F_ConcurrentCommands
namespace CM.GoTie
open CM CM.Go CM.GoCircuit CM.Generated.GoCircuit
variable {σo σc : Type} [L : Logic σo σc]

theorem go_ConcurrentCommands_eq : go_ConcurrentCommands (σo := σo) (σc := σc) = spec_ConcurrentCommands := by
  funext g
  simp only [go_ConcurrentCommands, spec_ConcurrentCommands]
  rw [gt_fn_keep] <;> gt_eval

end CM.GoTie

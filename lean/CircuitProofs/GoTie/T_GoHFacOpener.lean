/- GoTie/T_GoHFacOpener.lean — `OpenerFactory`, as translated TODAY from closers/hystrix/opener.go: the func value it
   returns, APPLIED, makes one NEW `Opener` cell per call, configured (`SetConfigNotThreadSafe`, tied in
   T_GoHFacOpenerSet) with `cfg` merged with the package defaults: thresholds published, one reading of the configured
   clock (the wall clock when none was configured), two new counters of the configured geometry with their own bucket
   slices (C02: thresholds / window; C09: each circuit its own logic object).  A negative bucket count is the
   `make` panic, as in Go; zero cannot happen after the defaults are merged. -/
import CircuitModel.GoHfacPrims
import CircuitProofs.GoTie.Sem
import CircuitProofs.GoTie.T_GoHFacOpenerSet
import Generated.GoHFacOpener
namespace CM.GoTie.GoHFacOpener
open CM CM.Go CM.GoHFac CM.GoHFac.Opener CM.Generated.GoHFacOpener

/-- running a method of the receiver on the local value `s`: the receiver slot is lent to `s` for the call -/
def withRecv {α : Type} (s : OpenerObj) (m : OFM α) : OFM OpenerObj := fun g =>
  match m { g with st := { g.st with recv := s } } with
  | (.ok _, g') => (.ok g'.st.recv, { g' with st := { g'.st with recv := g.st.recv } })
  | (.panic v, g') => (.panic v, { g' with st := { g'.st with recv := g.st.recv } })
  | (.nilCall, g') => (.nilCall, { g' with st := { g'.st with recv := g.st.recv } })

/-- the primitive `s.SetConfigNotThreadSafe(cfg)` of this unit IS the translated method body (unit GoHFacOpenerSet) run
    with `s` as its receiver -/
theorem m_SetConfigNotThreadSafe_is_method (s : OpenerObj) (p : OCfg) (g : GS OW String) :
    s.m_SetConfigNotThreadSafe p g = withRecv s (CM.Generated.GoHFacOpenerSet.go_SetConfigNotThreadSafe p) g := by
  unfold withRecv OpenerObj.m_SetConfigNotThreadSafe
  rw [GoHFacOpenerSet.go_SetConfigNotThreadSafe_eq]
  simp only []
  generalize s.setNTS p g.st.env = r
  obtain ⟨o, s', e'⟩ := r
  cases o <;> rfl

/-- `OpenerFactory(cfg)` only packages `cfg` into the closure -/
theorem go_OpenerFactory_eq (cfg : OCfg) (g : GS OW String) : go_OpenerFactory cfg g = (.ok (cloOf cfg), g) := by
  unfold go_OpenerFactory Opener.fn
  exact sem_goFunc_pure _ _ g _ rfl

/-- one call of the returned func: `Opener{}` configured (`setNTS`) with `cfg.merge defaults` in today's environment goes
    into a NEW cell; the closure now carries the merged config.  If the configuration panics no cell is made. -/
theorem go_OpenerFactory_apply_eq (cfg : OCfg) (g : GS OW String) :
    go_OpenerFactory_apply (cloOf cfg) g =
      match lit_Opener.setNTS (cfg.merge defaultOCfg) g.st.env with
      | (.ok _, s', e') => (.ok (⟨g.st.heap.length⟩, cloOf (cfg.merge defaultOCfg)), { g with st := { g.st with env := e', heap := g.st.heap ++ [s'] } })
      | (.panic v, _, e') => (.panic v, { g with st := { g.st with env := e' } })
      | (.nilCall, _, e') => (.nilCall, { g with st := { g.st with env := e' } }) := by
  show go_OpenerFactory_lit1 cfg g = _
  unfold go_OpenerFactory_lit1 Opener.fn
  have hmerge : (cfg.m_Merge pkg_defaultConfigureOpener : OFM OCfg) g = (.ok (cfg.merge defaultOCfg), g) := rfl
  generalize h : lit_Opener.setNTS (cfg.merge defaultOCfg) g.st.env = r
  obtain ⟨o, s', e'⟩ := r
  cases o with
  | ok u =>
    have hm : lit_Opener.m_SetConfigNotThreadSafe (cfg.merge defaultOCfg) g = (.ok s', { g with st := { g.st with env := e' } }) := by
      unfold OpenerObj.m_SetConfigNotThreadSafe; rw [h]
    refine sem_goFunc_st _ _ g _ _ ?_
    refine (sem_bind_ok _ _ _ _ _ hmerge).trans ?_
    refine (sem_bind_ok _ _ _ _ _ hm).trans ?_
    rfl
  | panic v =>
    have hm : lit_Opener.m_SetConfigNotThreadSafe (cfg.merge defaultOCfg) g = (.panic v, { g with st := { g.st with env := e' } }) := by
      unfold OpenerObj.m_SetConfigNotThreadSafe; rw [h]
    refine sem_goFunc_st _ _ g _ _ ?_
    refine (sem_bind_ok _ _ _ _ _ hmerge).trans ?_
    exact sem_bind_panic _ _ _ _ _ hm
  | nilCall =>
    have hm : lit_Opener.m_SetConfigNotThreadSafe (cfg.merge defaultOCfg) g = (.nilCall, { g with st := { g.st with env := e' } }) := by
      unfold OpenerObj.m_SetConfigNotThreadSafe; rw [h]
    refine sem_goFunc_st _ _ g _ _ ?_
    refine (sem_bind_ok _ _ _ _ _ hmerge).trans ?_
    exact sem_bind_nilCall _ _ _ _ hm

/-- a func value that is not `OpenerFactory`'s closure cannot be applied here -/
theorem go_OpenerFactory_apply_other (c : Clo) (h : ∀ cfg, c ≠ cloOf cfg) (g : GS OW String) : go_OpenerFactory_apply c g = (.nilCall, g) := by
  unfold go_OpenerFactory_apply
  split
  · next cfg => exact absurd rfl (h cfg)
  · rfl

/-- the clock the opener is built against: the configured one, else the wall clock -/
def clockOf (cfg : OCfg) : Nat := cfg.f_Now.getD wallClock

/-- the `i`-th opener (0-based) the closure of `OpenerFactory(cfg)` makes, counting from environment `e`: thresholds and
    geometry from `cfg.merge defaults`, both counters empty and started at the `i`-th next reading of the clock, slices
    `2i` and `2i+1` after the ones that exist -/
def builtObj (cfg : OCfg) (e : Env) (i : Nat) : OpenerObj :=
  let p := cfg.merge defaultOCfg
  let now := e.clock (clockOf cfg) (e.reads + i)
  let rc := RC.new p.f_NumBuckets.toNat (tdiv p.f_RollingDuration p.f_NumBuckets)
  { errors := { rc := rc, start := now, slice := some (e.slices + 2 * i) },
    attempts := { rc := rc, start := now, slice := some (e.slices + 2 * i + 1) },
    pct := p.f_ErrorThresholdPercentage, vol := p.f_RequestVolumeThreshold, config := p }

theorem merged_now (cfg : OCfg) : (cfg.merge defaultOCfg).f_Now = some (clockOf cfg) := by
  show gapF cfg.f_Now (some wallClock) = _
  unfold clockOf; cases cfg.f_Now <;> rfl
theorem merged_buckets (cfg : OCfg) (h : 0 ≤ cfg.f_NumBuckets) : 0 < (cfg.merge defaultOCfg).f_NumBuckets := by
  show 0 < gapI cfg.f_NumBuckets 10
  unfold gapI; split <;> omega
theorem gapI_idem (a d : Int) : gapI (gapI a d) d = gapI a d := by unfold gapI; split <;> simp_all
theorem gapF_idem (a d : Option Nat) : gapF (gapF a d) d = gapF a d := by cases a <;> cases d <;> rfl
theorem merge_idem (c d : OCfg) : (c.merge d).merge d = c.merge d := by
  simp [OCfg.merge, gapI_idem, gapF_idem]

/-- with a non-negative bucket count the configuration succeeds: one reading, two slices -/
theorem setNTS_merged (cfg : OCfg) (e : Env) (h : 0 ≤ cfg.f_NumBuckets) :
    lit_Opener.setNTS (cfg.merge defaultOCfg) e = (.ok (), builtObj cfg e 0, { e with reads := e.reads + 1, slices := e.slices + 2 }) := by
  have h1 := merged_buckets cfg h
  have h0 : ¬ (cfg.merge defaultOCfg).f_NumBuckets = 0 := by omega
  have hneg : ¬ (cfg.merge defaultOCfg).f_NumBuckets < 0 := by omega
  simp only [OpenerObj.setNTS, merged_now, h0, hneg, if_false, builtObj, Nat.mul_zero, Nat.add_zero]

/-- one call, spelled out for a non-negative bucket count: a NEW cell holding `builtObj cfg e 0` -/
theorem go_OpenerFactory_apply_ok (cfg : OCfg) (g : GS OW String) (h : 0 ≤ cfg.f_NumBuckets) :
    go_OpenerFactory_apply (cloOf cfg) g =
      (.ok (⟨g.st.heap.length⟩, cloOf (cfg.merge defaultOCfg)),
       { g with st := { g.st with env := { g.st.env with reads := g.st.env.reads + 1, slices := g.st.env.slices + 2 },
                                  heap := g.st.heap ++ [builtObj cfg g.st.env 0] } }) := by
  rw [go_OpenerFactory_apply_eq, setNTS_merged cfg _ h]

/-- a negative bucket count: the `make` panic after the clock was read; no cell is made -/
theorem go_OpenerFactory_apply_neg (cfg : OCfg) (g : GS OW String) (h : cfg.f_NumBuckets < 0) :
    go_OpenerFactory_apply (cloOf cfg) g = (.nilCall, { g with st := { g.st with env := { g.st.env with reads := g.st.env.reads + 1 } } }) := by
  rw [go_OpenerFactory_apply_eq]
  have hb : (cfg.merge defaultOCfg).f_NumBuckets = cfg.f_NumBuckets := by
    show gapI cfg.f_NumBuckets 10 = _
    unfold gapI; split <;> omega
  have h0 : ¬ (cfg.merge defaultOCfg).f_NumBuckets = 0 := by omega
  have hneg : (cfg.merge defaultOCfg).f_NumBuckets < 0 := by omega
  simp only [OpenerObj.setNTS, merged_now, h0, hneg, if_false, if_true]

/-- calling the returned func `n` times, each time through the closure value the previous call left -/
def calls : Nat → Clo → OFM (List Ref)
  | 0, _ => pure []
  | n + 1, c => do
    let (r, c') ← go_OpenerFactory_apply c
    let rs ← calls n c'
    pure (r :: rs)

theorem builtObj_shift (cfg : OCfg) (e : Env) (i : Nat) :
    builtObj (cfg.merge defaultOCfg) { e with reads := e.reads + 1, slices := e.slices + 2 } i = builtObj cfg e (i + 1) := by
  have hc : clockOf (cfg.merge defaultOCfg) = clockOf cfg := by
    unfold clockOf; rw [merged_now]; rfl
  simp only [builtObj, merge_idem, hc]
  have e1 : e.reads + 1 + i = e.reads + (i + 1) := by omega
  have e2 : e.slices + 2 + 2 * i = e.slices + 2 * (i + 1) := by omega
  rw [e1, e2]

/-- EVERY call yields a fresh object: `n` calls give the `n` consecutive new cells; the `i`-th holds `builtObj cfg e i` —
    its own two slices, its own reading of the clock; the clock was read `n` times and `2n` slices were made in all;
    no earlier cell is touched -/
theorem calls_eq (n : Nat) (cfg : OCfg) (g : GS OW String) (h : 0 ≤ cfg.f_NumBuckets) :
    calls n (cloOf cfg) g =
      (.ok ((List.range n).map fun i => ⟨g.st.heap.length + i⟩),
       { g with st := { g.st with env := { g.st.env with reads := g.st.env.reads + n, slices := g.st.env.slices + 2 * n },
                                  heap := g.st.heap ++ (List.range n).map (builtObj cfg g.st.env) } }) := by
  induction n generalizing cfg g with
  | zero => simp [calls]
  | succ n ih =>
    unfold calls
    rw [sem_bind_step, go_OpenerFactory_apply_ok cfg g h, sem_step_ok]
    show sem_step (calls n (cloOf (cfg.merge defaultOCfg)) _) _ = _
    rw [ih _ _ (Int.le_of_lt (merged_buckets cfg h)), sem_step_ok]
    simp only [sem_pure, List.length_append, List.length_cons, List.length_nil, List.append_assoc, List.cons_append, List.nil_append]
    refine Prod.ext ?_ ?_
    · simp only [List.range_succ_eq_map, List.map_cons, List.map_map, Nat.add_zero]
      congr 2
      apply List.map_congr_left
      intro i _
      simp only [Function.comp, Ref.mk.injEq]
      omega
    · have hsh : (List.range n).map (builtObj (cfg.merge defaultOCfg) { clock := g.st.env.clock, reads := g.st.env.reads + 1, slices := g.st.env.slices + 2 })
          = (List.range n).map (builtObj cfg g.st.env ∘ Nat.succ) := by
        apply List.map_congr_left
        intro i _
        exact builtObj_shift cfg g.st.env i
      have e1 : g.st.env.reads + 1 + n = g.st.env.reads + (n + 1) := by omega
      have e2 : g.st.env.slices + 2 + 2 * n = g.st.env.slices + 2 * (n + 1) := by omega
      simp only [List.range_succ_eq_map, List.map_cons, List.map_map, hsh, e1, e2]

/-- two objects made by the factory share nothing: different cells, different slices -/
theorem builtObj_disjoint (cfg : OCfg) (e : Env) (i j : Nat) (h : i ≠ j) :
    let a := builtObj cfg e i
    let b := builtObj cfg e j
    a.errors.slice ≠ b.errors.slice ∧ a.errors.slice ≠ b.attempts.slice ∧ a.attempts.slice ≠ b.errors.slice ∧ a.attempts.slice ≠ b.attempts.slice ∧
    a.errors.slice ≠ a.attempts.slice := by
  simp only [builtObj, ne_eq, Option.some.injEq]
  omega

/-- in the words of C02's model every such opener is `HOpener.new` with the merged settings -/
theorem builtObj_model (cfg : OCfg) (e : Env) (i : Nat) (h : 0 ≤ cfg.f_NumBuckets) :
    (builtObj cfg e i).model =
      HOpener.new (gapI cfg.f_NumBuckets 10).toNat (gapI cfg.f_RollingDuration 10000000000) (gapI cfg.f_ErrorThresholdPercentage 50)
        (gapI cfg.f_RequestVolumeThreshold 20) := by
  have h1 := merged_buckets cfg h
  simp only [builtObj, OpenerObj.model, HOpener.new]
  show _ = ({ errors := RC.new _ (tdiv _ ((gapI cfg.f_NumBuckets 10).toNat : Int)), attempts := _, pct := _, vol := _ } : HOpener)
  have h2 : (0 : Int) ≤ gapI cfg.f_NumBuckets 10 := Int.le_of_lt h1
  rw [Int.toNat_of_nonneg h2]
  rfl

/-! ### non-vacuity: the wall clock shows the number of readings so far; two calls -/
def exEnv : Env := { clock := fun c k => 1000 * c + k }
example :
    let r := Go.run (do let c ← go_OpenerFactory { f_NumBuckets := 2 }
                        let (r1, c1) ← go_OpenerFactory_apply c
                        let (r2, _) ← go_OpenerFactory_apply c1
                        pure (r1, r2)) { env := exEnv }
    r.1 = .ok (⟨0⟩, ⟨1⟩) ∧ r.2.heap = [builtObj { f_NumBuckets := 2 } exEnv 0, builtObj { f_NumBuckets := 2 } exEnv 1] ∧
    r.2.env.reads = 2 ∧ r.2.env.slices = 4 := by decide
example : (builtObj { f_NumBuckets := 2 } exEnv 1).errors = { rc := RC.new 2 5000000000, start := 1, slice := some 2 } ∧
    (builtObj { f_NumBuckets := 2 } exEnv 1).attempts.slice = some 3 ∧ (builtObj { f_NumBuckets := 2 } exEnv 1).vol = 20 := by decide

end CM.GoTie.GoHFacOpener

/- GoTie/F_close.lean — `close` = the model's `closeCircuit`
   The generated function is today's translation of circuit.go; callee behaviour enters as HYPOTHESES (the callees'
   own ties are proved in their own modules and put together in GoTie/All.lean), so this module depends on the body of
   `close` only. -/
import CircuitModel.GoCircuitSpec
import CircuitProofs.GoTie.Basic
import Generated.GoCircuit.F_IsOpen
import Generated.GoCircuit.F_close
namespace CM.GoTie
open CM CM.Go CM.GoCircuit CM.Generated.GoCircuit
variable {σo σc : Type} [L : Logic σo σc]

theorem go_close_eq (_hI : go_IsOpen (σo := σo) (σc := σc) = spec_IsOpen) (ctx : GoCtx) (t : GoTime) (f : Bool) :
    go_close (σo := σo) (σc := σc) ctx t f = spec_close ctx t f := by
  funext g
  simp only [go_close, spec_close]
  cases f <;> rw [gt_fn_unlock] <;> gt_eval [spec_IsOpen]
  all_goals (repeat' split) <;> simp_all [closeCircuit, onS, isOpenEff]

end CM.GoTie

/-
  GoTie/I_Fb.lean — K6, the INTERFERENCE tie for the fallback's bulkhead (C04, C06): the body of `Circuit.fallback`,
  translated from today's circuit.go over primitives in which an arbitrary move of the other goroutines precedes the Add
  on `concurrentFallbacks`, the load of `Fallback.MaxConcurrentRequests`, the execution of the user's fallback and the deferred
  Add(-1) (CircuitModel/GoFbConcPrims.lean; Generated/GoFbI), takes EXACTLY the steps of the bulkhead model's thread
  (Conc/Gauge.step — the model C04's all-schedule theorems are about) run alone against the same oracle: same gauge and
  ghost region, same oracle left, same operations with the same observed values; refused ⇔ `.finished false` with the
  limit error and the function not invoked; otherwise `.finished true` with the fallback's own result — or its panic
  passing through, the slot released.
-/
import Generated.GoFbI
import CircuitModel.Conc.GaugeSolo
import CircuitProofs.GoTie.I_Fb_Lemmas
namespace CM.GoTie.IFb
open CM CM.Go CM.Conc CM.Conc.Gauge CM.GoFbI CM.Generated.GoFbI

def runF (m : FM α) (s : Shared) (tid : Nat) (sc : Script) (envs : List (Shared → Shared)) : Out α × FS :=
  let r := m { st := { sh := s, tid := tid, sc := sc, envs := envs }, defers := [] }
  (r.1, r.2.st)

structure Agrees {α : Type} (r : Out α × FS) (st : SoloSt Shared Local Lab) (fin : Out α → Local → Prop) : Prop where
  sh : st.sh = r.2.sh
  envs : st.envs = r.2.envs
  trace : st.trace = r.2.trace
  loc : fin r.1 st.loc
  notStuck : r.2.stuck = false

set_option linter.unusedSimpArgs false
/-- symbolic execution of both sides -/
local macro "ifb_eval" : tactic => `(tactic|
  simp only
    [go_fallback, ifb_fn_apply, ifb_bind_apply, ifb_bindK_ok, ifb_bindK_nilCall, ifb_bindK_panic, ifb_bindK_after, ifb_bindK_ite,
     ifb_ite_apply, ifb_pure_apply, ifb_wrap_ite, ifb_wrap_after, ifb_wrap_keep_nil, ifb_wrap_dec_nil,
     ifb_snd_mk, ifb_snd_after, goOr,
     ifb_Add_one_apply, ifb_Add_neg_apply, ifb_Get_apply, ifb_call_apply, ifb_Disabled_apply, ifb_deferPrim_apply,
     ifb_Reject_apply, ifb_ErrFailure_apply, ifb_Success_apply, ifb_Sub_apply, ifb_now_apply,
     ifb_isNil_fn, ifb_isNil_none, ifb_isNil_fbErr, ifb_nil_err, ifb_test,
     Bool.false_eq_true, if_false, if_true, Bool.not_true, Bool.not_false, ↓reduceIte, List.length_nil, List.nil_append,
     soloCaller, ifb_m_idle, ifb_m_incd, ifb_m_running, ifb_m_rejecting, ifb_m_leaving, ifb_m_finished])

/-- walk the two trees in parallel -/
local macro "ifb_walk" : tactic => `(tactic|
  repeat' (first
    | (apply ifb_Ag_after; intro _ _)
    | (apply ifb_Ag_ite <;> intro h <;> simp only [h, not_false_eq_true, and_self, if_true, if_false])
    | exact ⟨rfl, rfl, rfl, by simp, rfl⟩))

/-- from the agreement along the trees to the statement about `runF` -/
theorem ifb_Agrees_of {α : Type} (m : FM α) (s : Shared) (tid : Nat) (sc : Script) (envs : List (Shared → Shared))
    (st : SoloSt Shared Local Lab) (fin : Out α → Local → Prop)
    (h : ifb_Ag (m ⟨⟨s, tid, sc, 0, envs, [], false⟩, []⟩) st fin) : Agrees (runF m s tid sc envs) st fin :=
  ⟨h.sh, h.envs, h.trace, h.loc, h.notStuck⟩

/-- an enabled fallback, for every gauge state, script and oracle -/
theorem fallback_solo (s : Shared) (tid : Nat) (sc : Script) (hd : sc.disabled = false) (envs : List (Shared → Shared)) (e : Nat) :
    Agrees (runF (go_fallback {} (some e) {}) s tid sc envs) (soloCaller tid 8 s envs)
      (fun o l => match o with
        | .ok r => (l = .finished false ∧ r = lit_circuitError_concurrencyLimitReached_true) ∨
                   (l = .finished true ∧ sc.panics = false ∧ r = (if sc.fails then fbErr else none))
        | .panic _ => l = .finished true ∧ sc.panics = true
        | .nilCall => False) := by
  obtain ⟨dis, fa, pa⟩ := sc
  simp only at hd
  subst hd
  apply ifb_Agrees_of
  cases fa <;> cases pa <;> ifb_eval <;> ifb_walk

/-- "answered with the limit error ⇒ no `invoke` recorded", as a property of an outcome of the Go side -/
def ifb_NotInv (r : Out Err × GS FS String) : Prop :=
  r.1 = .ok lit_circuitError_concurrencyLimitReached_true → Lab.invoke ∉ r.2.st.trace

/-- a refused fallback was not invoked: no `invoke` in its trace -/
theorem refused_not_invoked (s : Shared) (tid : Nat) (sc : Script) (hd : sc.disabled = false) (envs : List (Shared → Shared)) (e : Nat)
    (h : (runF (go_fallback {} (some e) {}) s tid sc envs).1 = .ok lit_circuitError_concurrencyLimitReached_true) :
    Lab.invoke ∉ (runF (go_fallback {} (some e) {}) s tid sc envs).2.trace := by
  obtain ⟨dis, fa, pa⟩ := sc
  simp only at hd
  subst hd
  revert h
  show ifb_NotInv (go_fallback {} (some e) {} ⟨⟨s, tid, ⟨false, fa, pa⟩, 0, envs, [], false⟩, []⟩)
  cases fa <;> cases pa <;> ifb_eval <;>
    repeat' (first
      | (apply ifb_P_after ifb_NotInv; intro _ _)
      | (apply ifb_P_ite ifb_NotInv <;> intro _)
      | (simp [ifb_NotInv, lit_circuitError_concurrencyLimitReached_true, fbErr]; done))

/-- a disabled fallback returns the run step's error untouched and touches nothing -/
theorem fallback_disabled (s : Shared) (tid : Nat) (sc : Script) (hd : sc.disabled = true) (envs : List (Shared → Shared)) (err : Err) :
    let r := runF (go_fallback {} err {}) s tid sc envs
    r.1 = .ok err ∧ r.2.sh = s ∧ r.2.envs = envs ∧ r.2.trace = [] := by
  obtain ⟨dis, fa, pa⟩ := sc
  simp only at hd
  subst hd
  simp only [runF]
  ifb_eval
  exact ⟨trivial, trivial, trivial, trivial⟩

/-! non-vacuity: somebody else enters between this caller's increment and its reading of the limit -/
def g1 : Shared := { limit := 1 }
def other : Shared → Shared := fun s => { s with gauge := s.gauge + 1 }
example : (runF (go_fallback {} (some 3) {}) g1 1 {} []).1 = .ok none := by decide
example : (runF (go_fallback {} (some 3) {}) g1 1 {} [other]).1 = .ok lit_circuitError_concurrencyLimitReached_true := by decide
example : (runF (go_fallback {} (some 3) {}) g1 1 { panics := true } []).2.sh.gauge = 0 := by decide

end CM.GoTie.IFb

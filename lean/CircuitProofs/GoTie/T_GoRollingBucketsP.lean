/- GoTie/T_GoRollingBucketsP.lean — `RollingBuckets.Advance`, translated once more over the percentile ring's state,
   computes the model's `RP.advance` (the plan `ringPlan`: new last index, the slots cleared in order, the returned index). -/
import CircuitModel.GoRollingPercentilePrims
import CircuitProofs.GoTie.Sem
import Generated.GoRollingBucketsP
namespace CM.GoTie.GoRP
open CM CM.Go CM.GoRP CM.GoRP.B CM.Generated.GoRollingBucketsP

/-! ### helpers -/

theorem goDiv_absIdx (w now : Int) (hw : 0 < w) (h0 : 0 ≤ now) : goDiv now w = ((absIdx w now : Nat) : Int) := by
  have : 0 ≤ now / w := Int.ediv_nonneg h0 (by omega)
  simp only [goDiv, tdiv, absIdx]
  rw [Int.tdiv_eq_ediv_of_nonneg h0]
  omega

theorem goMod_nat (a n : Nat) : goMod (a : Int) (n : Int) = ((a % n : Nat) : Int) := rfl

theorem goRange_length (n : Nat) : (goRange (n : Int)).length = n := by simp [goRange]

theorem call_clear (idx : Int) : (Call1.call ClearFn.ring idx : PM Unit) = upd fun r => r.clearSlot idx.toNat := rfl

/-- the model's `advance` with the plan spelled out -/
theorem advance_eq (r : RP) (d : Int) : r.advance d =
    if r.n = 0 then (r, none)
    else if d < 0 then (r, none)
    else if absIdx r.w d = r.last then (r, some (absIdx r.w d % r.n))
    else if absIdx r.w d < r.last then
      if r.last - absIdx r.w d ≥ r.n then (r, none) else (r, some (absIdx r.w d % r.n))
    else ((ringClears r.n r.last (absIdx r.w d) r.n).foldl RP.clearSlot { r with last := absIdx r.w d },
          some (absIdx r.w d % r.n)) := by
  simp only [RP.advance, ringPlan]
  repeat' split
  all_goals rfl

theorem clearSlot_n (r : RP) (i : Nat) : (r.clearSlot i).n = r.n := by
  unfold RP.clearSlot; split <;> rfl
theorem clearSlot_w (r : RP) (i : Nat) : (r.clearSlot i).w = r.w := by
  unfold RP.clearSlot; split <;> rfl
theorem clearSlot_last (r : RP) (i : Nat) : (r.clearSlot i).last = r.last := by
  unfold RP.clearSlot; split <;> rfl

/-- `{ r with last := a }`, named so that rewriting can find it -/
def setLast (r : RP) (a : Nat) : RP := { n := r.n, w := r.w, last := a, slots := r.slots }

/-- clearing a slot and setting the newest index commute -/
theorem clearSlot_setLast (r : RP) (i a : Nat) :
    setLast (r.clearSlot i) a = RP.clearSlot (setLast r a) i := by
  cases h : r.slots[i]? <;> simp [RP.clearSlot, setLast, h]

/-- the Go loop: the newest index moves one step at a time and the slot it reaches is cleared -/
def rollP (A : Nat) : Nat → RP → RP
  | 0, r => r
  | k + 1, r =>
    if r.last < A then rollP A k (({ r with last := r.last + 1 }).clearSlot ((r.last + 1) % r.n)) else r

theorem rollP_n (A : Nat) : ∀ (k : Nat) (r : RP), (rollP A k r).n = r.n
  | 0, _ => rfl
  | k + 1, r => by
    simp only [rollP]
    split
    · rw [rollP_n A k, clearSlot_n]
    · rfl

theorem rollP_w (A : Nat) : ∀ (k : Nat) (r : RP), (rollP A k r).w = r.w
  | 0, _ => rfl
  | k + 1, r => by
    simp only [rollP]
    split
    · rw [rollP_w A k, clearSlot_w]
    · rfl

/-- … which is the model's order (set the newest index, then clear the planned slots) -/
theorem rollP_setLast (A a : Nat) : ∀ (k : Nat) (r : RP),
    setLast (rollP A k r) a = (ringClears r.n r.last A k).foldl RP.clearSlot (setLast r a)
  | 0, _ => rfl
  | k + 1, r => by
    simp only [rollP, ringClears]
    split
    · rw [rollP_setLast A a k, clearSlot_n, clearSlot_last, clearSlot_setLast, List.foldl_cons]
      rfl
    · rfl

theorem go_Advance_noRoll (c : RP) (hw : 0 < c.w) (f : Nat) (now : Int) (d : List NoTok)
    (h : c.n = 0 ∨ now < 0 ∨ absIdx c.w now ≤ c.last) :
    go_Advance (f + 1) now .ring { st := c, defers := d }
      = (.ok (idxOf (c.advance now).2), { st := (c.advance now).1, defers := d }) := by
  rw [go_Advance]
  apply sem_goFunc_st _ _ { st := c, defers := d } _ (c.advance now).1
  simp only [sem_bind_step, recv_NumBuckets, recv_StartTime, recv_BucketWidth_Nanoseconds, recv_LastAbsIndex_Get,
    pkg_int, pkg_int64, Int.m_Sub, Int.m_Nanoseconds, sem_rd, sem_step_ok, sem_pure, sem_ite_apply]
  simp only [beq_iff_eq, decide_eq_true_eq, Int.sub_zero, advance_eq]
  by_cases hn : c.n = 0
  · rw [if_pos (show (c.n : Int) = 0 by omega), if_pos hn]; rfl
  rw [if_neg (show ¬ (c.n : Int) = 0 by omega), if_neg hn]
  by_cases h0 : now < 0
  · rw [if_pos h0, if_pos h0]; rfl
  rw [if_neg h0, if_neg h0, goDiv_absIdx _ _ hw (by omega)]
  have hle : absIdx c.w now ≤ c.last := by omega
  generalize absIdx c.w now = abs at *
  by_cases he : abs = c.last
  · rw [if_pos (show (abs : Int) - c.last = 0 by omega), if_pos he]; rfl
  rw [if_neg (show ¬ (abs : Int) - c.last = 0 by omega), if_neg he,
    if_pos (show (abs : Int) - c.last < 0 by omega), if_pos (show abs < c.last by omega)]
  by_cases hge : c.last - abs ≥ c.n
  · rw [if_pos (show -((abs : Int) - c.last) ≥ c.n by omega), if_pos hge]; rfl
  · rw [if_neg (show ¬ -((abs : Int) - c.last) ≥ c.n by omega), if_neg hge]; rfl

theorem go_Advance_same (c : RP) (hw : 0 < c.w) (f : Nat) (now : Int) (d : List NoTok)
    (hn : c.n ≠ 0) (h0 : 0 ≤ now) (he : absIdx c.w now = c.last) :
    go_Advance (f + 1) now .ring { st := c, defers := d }
      = (.ok ((c.last % c.n : Nat) : Int), { st := c, defers := d }) := by
  rw [go_Advance_noRoll c hw f now d (by omega)]
  simp only [advance_eq, if_neg hn, if_neg (show ¬ now < 0 by omega), he, if_true, idxOf]

theorem roll_forIn (A : Nat) (d : List NoTok)
    (body : Int → Option Int × Int → PM (ForInStep (Option Int × Int)))
    (hdone : ∀ i (c' : RP), ¬ c'.last < A →
      body i (none, (c'.last : Int)) { st := c', defers := d } = (.ok (.done (none, (c'.last : Int))), { st := c', defers := d }))
    (hyield : ∀ i (c' : RP), c'.last < A →
      body i (none, (c'.last : Int)) { st := c', defers := d }
        = (.ok (.yield (none, ((c'.last + 1 : Nat) : Int))),
            { st := ({ c' with last := c'.last + 1 }).clearSlot ((c'.last + 1) % c'.n), defers := d })) :
    ∀ (l : List Int) (c' : RP), forIn l (none, (c'.last : Int)) body { st := c', defers := d }
      = (.ok (none, ((rollP A l.length c').last : Int)), { st := rollP A l.length c', defers := d }) := by
  intro l
  induction l with
  | nil => intro c'; rfl
  | cons i l ih =>
    intro c'
    rw [List.forIn_cons, sem_bind_step]
    by_cases h : c'.last < A
    · rw [hyield i c' h, sem_step_ok]
      simp only [List.length_cons, rollP, if_pos h]
      have := ih ({ c' with last := c'.last + 1 }.clearSlot ((c'.last + 1) % c'.n))
      rw [clearSlot_last] at this
      exact this
    · rw [hdone i c' h, sem_step_ok]
      simp only [List.length_cons, rollP, if_neg h]
      rfl

/-- for every ring state with a positive bucket width, every instant (before the start included) and any fuel ≥ 2 -/
theorem go_Advance_eq (r : RP) (hw : 0 < r.w) (fuel : Nat) (hf : 2 ≤ fuel) (now : Int) (d : List NoTok) :
    go_Advance fuel now .ring { st := r, defers := d } = (.ok (idxOf (r.advance now).2), { st := (r.advance now).1, defers := d }) := by
  obtain ⟨f, rfl⟩ : ∃ f, fuel = f + 2 := ⟨fuel - 2, by omega⟩
  by_cases h : r.n = 0 ∨ now < 0 ∨ absIdx r.w now ≤ r.last
  · exact go_Advance_noRoll r hw (f + 1) now d h
  have hn : r.n ≠ 0 := by omega
  have h0 : 0 ≤ now := by omega
  have hlt : r.last < absIdx r.w now := by omega
  rw [go_Advance]
  apply sem_goFunc_st _ _ { st := r, defers := d } _ (r.advance now).1
  simp only [sem_bind_step, recv_NumBuckets, recv_StartTime, recv_BucketWidth_Nanoseconds, recv_LastAbsIndex_Get,
    pkg_int, pkg_int64, Int.m_Sub, Int.m_Nanoseconds, sem_rd, sem_step_ok, sem_pure, sem_ite_apply]
  simp only [beq_iff_eq, decide_eq_true_eq, Int.sub_zero, advance_eq]
  rw [if_neg (show ¬ (r.n : Int) = 0 by omega), if_neg hn, if_neg (show ¬ now < 0 by omega), if_neg (show ¬ now < 0 by omega),
    goDiv_absIdx _ _ hw h0]
  have hw' := rollP_w (absIdx r.w now) r.n r
  have hn' := rollP_n (absIdx r.w now) r.n r
  have hs := rollP_setLast (absIdx r.w now) (absIdx r.w now) r.n r
  generalize habs : absIdx r.w now = abs at *
  rw [if_neg (show ¬ (abs : Int) - r.last = 0 by omega), if_neg (show ¬ abs = r.last by omega),
    if_neg (show ¬ (abs : Int) - r.last < 0 by omega), if_neg (show ¬ abs < r.last by omega)]
  rw [roll_forIn abs d]
  · rw [sem_step_ok, goRange_length]
    show _ = (_, ({ st := List.foldl RP.clearSlot (setLast r abs) (ringClears r.n r.last abs r.n), defers := d } : GS RP NoTok))
    rw [← hs]
    generalize rollP abs r.n r = L at *
    simp only [sem_bind_step, sem_pure, sem_step_ok, recv_LastAbsIndex_CompareAndSwap, sem_updRet, if_true,
      Int.toNat_natCast]
    rw [go_Advance_same _ (by simpa [hw'] using hw) f now d (by simpa [hn'] using hn) h0 (by simp [hw', habs])]
    simp only [idxOf, hn', setLast]
  · intro i c' hc'
    rw [sem_ite_apply, if_pos (by simpa using hc')]
    rfl
  · intro i c' hc'
    rw [sem_ite_apply, if_neg (by simpa using hc')]
    have e1 : (c'.last : Int) + 1 = ((c'.last + 1 : Nat) : Int) := by omega
    simp only [sem_bind_step, sem_pure, sem_step_ok, recv_LastAbsIndex_CompareAndSwap, sem_updRet, if_true]
    rw [sem_ite_apply, if_neg (by simp)]
    simp only [sem_bind_step, sem_pure, sem_step_ok, sem_rd, call_clear, sem_upd, e1, goMod_nat,
      Int.toNat_natCast]

end CM.GoTie.GoRP

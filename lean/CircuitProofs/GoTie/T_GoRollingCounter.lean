/- GoTie/T_GoRollingCounter.lean — `RollingCounter`'s methods, as translated TODAY from faststats/rolling_counter.go,
   compute the model's `RC.inc`, `RC.sumAt`, `total`, `RC.getBuckets`, `RC.clear`, `RC.reset`. -/
import CircuitModel.GoRollingPrims
import CircuitProofs.GoTie.Sem
import CircuitProofs.Lemmas.RC
import Generated.GoRollingCounter
namespace CM.GoTie.GoRolling
open CM CM.Go CM.GoRolling CM.GoRolling.C CM.Generated.GoRollingCounter

/-! ### helpers -/

theorem goRange_natCast (k : Nat) : goRange (k : Int) = (List.range k).map Int.ofNat := by
  simp [goRange]

theorem goMod_natCast (a n : Nat) : goMod (a : Int) (n : Int) = ((a % n : Nat) : Int) := rfl

/-- `Reset`'s loop, as a fold of the state transformer of `clearBucket` -/
theorem clearAll_foldl (k : Nat) (g : GS RC NoTok) :
    (goRange (k : Int)).foldl (fun (s : GS RC NoTok) i => { s with st := s.st.clear i.toNat }) g
      = { g with st := g.st.clearAll k } := by
  rw [goRange_natCast]
  induction k with
  | zero => rfl
  | succ k ih =>
    rw [List.range_succ, List.map_append, List.foldl_append, ih]
    simp [RC.clearAll]

/-- `GetBuckets`' loop: after `k` trips the first `k` slots of `ret` hold the model's answer, the rest is still zero -/
theorem getBuckets_fold (n S : Nat) (B : List Int) : ∀ k, k ≤ n →
    (goRange (k : Int)).foldl (fun ret i => goSet ret i
        (B.getD (if (S : Int) - i < 0 then (S : Int) - i + (n : Int) else (S : Int) - i).toNat 0)) (List.replicate n 0)
      = (List.range k).map (fun i => B.getD (if S < i then S + n - i else S - i) 0) ++ List.replicate (n - k) 0 := by
  intro k
  rw [goRange_natCast]
  induction k with
  | zero => intro _; simp
  | succ k ih =>
    intro hk
    rw [List.range_succ, List.map_append, List.foldl_append, ih (by omega)]
    simp only [List.map_cons, List.map_nil, List.foldl_cons, List.foldl_nil, goSet]
    have e : n - k = (n - (k + 1)) + 1 := by omega
    rw [e, List.replicate_succ]
    have hl : ((List.range k).map (fun i => B.getD (if S < i then S + n - i else S - i) 0)).length = k := by simp
    rw [show (Int.ofNat k).toNat = k from rfl]
    rw [List.set_append_right _ _ (by omega), hl, Nat.sub_self, List.set_cons_zero]
    rw [List.map_append, List.append_assoc]
    congr 2
    show B.getD _ 0 = B.getD _ 0
    congr 1
    show (if (S : Int) - (k : Int) < 0 then (S : Int) - (k : Int) + (n : Int) else (S : Int) - (k : Int)).toNat = _
    split <;> split <;> omega

/-! ### the ties -/

theorem go_Inc_eq (now : Int) : go_Inc now = upd (fun c => c.inc now) := by
  funext g
  rw [sem_upd]
  unfold go_Inc fn
  apply sem_goFunc_st
  simp only [sem_bind_step, recv_totalSum_Add, recv_buckets, recv_rollingBucket_Advance, recv_buckets_at_Add,
    recv_rollingSum_Add, sem_updRet, sem_rd, sem_step_ok, sem_ite_apply, sem_pure]
  simp only [RC.inc, goLen]
  by_cases h0 : g.st.buckets.length = 0
  · simp [h0]
  · have h0' : ¬ ((g.st.buckets.length : Int) = 0) := by omega
    simp only [beq_iff_eq, h0', h0, if_false]
    generalize RC.advance _ now = p
    obtain ⟨c1, r⟩ := p
    cases r with
    | none => simp [idxOf]
    | some i =>
      have : ¬ ((i : Int) < 0) := by omega
      simp [idxOf, this]

theorem go_RollingSumAt_eq (now : Int) : go_RollingSumAt now = updRet (fun c => c.sumAt now) := by
  funext g
  rw [sem_updRet]
  unfold go_RollingSumAt fn
  apply sem_goFunc_st
  simp only [sem_bind_step, recv_rollingBucket_Advance, recv_rollingSum_Get, sem_updRet, sem_rd, sem_step_ok]
  rfl

theorem go_TotalSum_eq : go_TotalSum = rd (fun c => c.total) := by
  funext g
  rw [sem_rd]
  unfold go_TotalSum fn
  apply sem_goFunc_st _ _ _ _ g.st
  simp only [recv_totalSum_Get, sem_rd]

theorem go_clearBucket_eq (idx : Int) : go_clearBucket idx = upd (fun c => c.clear idx.toNat) := by
  funext g
  rw [sem_upd]
  unfold go_clearBucket fn
  apply sem_goFunc_st
  simp only [sem_bind_step, recv_buckets_at_Swap, recv_rollingSum_Add, sem_updRet, sem_step_ok, sem_pure]
  simp only [RC.clear, Int.sub_eq_add_neg]

theorem go_Reset_eq (now : Int) : go_Reset now = upd (fun c => c.reset now) := by
  funext g
  rw [sem_upd]
  unfold go_Reset fn
  apply sem_goFunc_st
  simp only [sem_bind_step, recv_rollingBucket_Advance, recv_rollingBucket_NumBuckets, sem_updRet, sem_rd, sem_step_ok]
  rw [sem_forIn_yield _ (fun i s => { s with st := s.st.clear i.toNat })]
  · rw [sem_step_ok, sem_pure, clearAll_foldl]
    rfl
  · intro i u s
    simp only [sem_bind_step, go_clearBucket_eq, sem_upd, sem_step_ok, sem_pure]

/-- `GetBuckets` (with at least one bucket; with none the Go code panics on the division, which the model calls `none`) -/
theorem go_GetBuckets_eq (c : RC) (hn : 0 < c.n) (now : Int) (d : List NoTok) :
    ∃ l, go_GetBuckets now { st := c, defers := d } = (.ok l, { st := (c.getBuckets now).1, defers := d }) ∧
      (c.getBuckets now).2 = some l := by
  have hn' : (c.advance now).1.n ≠ 0 := by rw [(advance_length c now).2]; omega
  simp only [RC.getBuckets, if_neg hn']
  refine ⟨_, ?_, rfl⟩
  unfold go_GetBuckets fn
  apply sem_goFunc_st _ _ { st := c, defers := d } _ (c.advance now).1
  simp only [sem_bind_step, recv_rollingBucket_Advance, recv_rollingBucket_NumBuckets, recv_rollingBucket_LastAbsIndex_Get,
    pkg_int, pkg_int64, sem_updRet, sem_rd, sem_step_ok, sem_pure]
  generalize (c.advance now).1 = c' at *
  rw [sem_forIn_acc _ (fun i ret => goSet ret i
        (c'.buckets.getD (if ((c'.last % c'.n : Nat) : Int) - i < 0 then ((c'.last % c'.n : Nat) : Int) - i + (c'.n : Int)
          else ((c'.last % c'.n : Nat) : Int) - i).toNat 0))]
  · rw [sem_step_ok, sem_pure, goMakeZeros, Int.toNat_natCast, getBuckets_fold _ _ _ _ (Nat.le_refl _)]
    simp
  · intro i ret
    rw [goMod_natCast, sem_ite_apply]
    simp only [sem_bind_step, recv_buckets_at_Get, sem_rd, sem_step_ok, sem_pure, decide_eq_true_eq]
    split <;> rfl

end CM.GoTie.GoRolling

/- GoTie/T_GoManagerVar.lean — `(*Manager).Var()`, as translated TODAY from manager.go: the call computes nothing — no lock
   is taken, the registry is not looked at, the function value holds the receiver alone.  EVALUATING it takes the READ LOCK
   THEN, walks `circuitMap` as it is THEN, evaluates every registered circuit's own `Var()` (while the lock is held), keeps
   the non-nil results under the circuits' names, and releases the lock on the way out (deferred).  So a handle published
   once (`expvar.Publish("hystrix", h.Var())`) lists the circuits created afterwards: C17's "AllCircuits holds exactly the
   successfully created circuits" through the expvar channel, and C11's diagnostics under the lock.
   (The seeded change C17-10 snapshots `h.AllCircuits()` BEFORE the closure: the body then captures a local, which has no
   type in this unit — the translation fails, and with it every theorem below.) -/
import CircuitModel.GoVarsPrims
import CircuitProofs.GoTie.Basic
import CircuitProofs.GoTie.Sem
import CircuitProofs.Lemmas.Mgr
import Generated.GoManagerVar
namespace CM.GoTie.GoManagerVar
open CM CM.Go CM.Mgr CM.GoVars CM.GoVars.Mgr CM.Generated.GoManagerVar

/-- the function value `Var()` returns -/
def theClo : CloV := ⟨"Var_lit1", (), []⟩

/-- the entries a `range` over the map meets -/
def visited (w : VarW) : List (String × Circuit) := w.order w.s.circuits

/-- one trip of the loop on the local map -/
def step (view : Nat → EV) (acc : EV) (e : String × Circuit) : EV :=
  if isNil (view e.2.id) then acc else goSet acc e.1 (view e.2.id)

def addLog (g : GS VarW String) (es : List MEvt) : GS VarW String := { g with st := { g.st with log := g.st.log ++ es } }

/-- `h.Var()` computes nothing: no lock operation, nothing evaluated, the registry not read; the result is the function value
    over the receiver alone. -/
theorem go_Var_eq (g : GS VarW String) : go_Var g = (.ok theClo, g) := by
  unfold go_Var fn
  apply sem_goFunc_pure
  rfl

theorem mgr_goFunc_of_body {α : Type} (body : MVM α) (g : GS VarW String) (r : Out α) (g1 : GS VarW String) (h : body g = (r, g1)) :
    goFunc runTok body g = (r, unwind runTok g.defers.length g1.defers.length g1) := by
  rw [sem_goFunc_def, h]

/-- the loop: every entry's circuit is evaluated once, in visiting order; the local map collects the non-nil results -/
theorem mgr_loop_eq (f : String × Circuit → EV → MVM (ForInStep EV))
    (h : ∀ k v acc s, f (k, v) acc s = (.ok (.yield (step s.st.view acc (k, v))), addLog s [.evalCircuit v.id]))
    (l : List (String × Circuit)) (acc : EV) (g : GS VarW String) :
    forIn l acc f g = (.ok (l.foldl (step g.st.view) acc), addLog g (l.map fun e => .evalCircuit e.2.id)) := by
  induction l generalizing acc g with
  | nil => simp [addLog]
  | cons e l ih =>
    obtain ⟨k, v⟩ := e
    rw [List.forIn_cons, sem_bind_ok _ _ _ _ _ (h k v acc g)]
    refine (ih _ _).trans ?_
    simp [addLog, List.append_assoc]

theorem mgr_foldl_map (view : Nat → EV) (l : List (String × Circuit)) (kv : List (String × EV)) :
    l.foldl (step view) (.map kv) = .map (l.foldl (fun acc e => if isNil (view e.2.id) then acc else storeKV e.1 (view e.2.id) acc) kv) := by
  induction l generalizing kv with
  | nil => rfl
  | cons e l ih =>
    simp only [List.foldl_cons, step]
    split
    · exact ih kv
    · exact ih _

/-- EVALUATING it, in whatever state the manager is by then: `RLock`, then every entry of the registry AS IT IS NOW is visited
    and that circuit's published function evaluated (in visiting order), then `RUnlock`; the result is `mgrSummary` of that
    state: one entry, under the circuit's name, per registered circuit whose `Var` does not evaluate to nil. -/
theorem go_Var_eval_eq (g : GS VarW String) :
    go_Var_lit1_eval theClo g
      = (.ok (mgrSummary g.st),
         addLog g ([.rlock] ++ (visited g.st).map (fun e => .evalCircuit e.2.id) ++ [.runlock])) := by
  show go_Var_lit1 g = _
  rw [go_Var_lit1, fn]
  apply Eq.trans (mgr_goFunc_of_body _ g _ _ _)
  rotate_left 3
  · refine (sem_bind_ok _ _ _ _ _ (rfl : recv_mu_RLock g = (.ok (), addLog g [.rlock]))).trans ?_
    refine (sem_bind_ok _ _ _ _ _ (sem_pushDefer "recv_mu_RUnlock" _)).trans ?_
    refine (sem_bind_ok _ _ _ _ _ (sem_rd _ _)).trans ?_
    refine (sem_bind_ok _ _ _ _ _ (mgr_loop_eq _ ?hloop _ _ _)).trans ?_
    case hloop =>
      intro k v acc s
      simp only [sem_bind_step, Circuit.m_Var, pkg_expvarToVal, sem_pure, sem_updRet, sem_step_ok, step, addLog]
      cases isNil (s.st.view v.id) <;> simp <;> rfl
    rfl
  simp only [List.length_cons, addLog]
  rw [gt_unwind_one _ _ _ _ _ rfl]
  simp only [mgrSummary, mgrCollect, goMakeMap, mgr_foldl_map, runTok, sem_upd, visited, List.append_assoc]

/-- the read lock is taken first and released last, and every evaluation of a circuit's `Var` happens in between -/
theorem evaluations_under_the_read_lock (g : GS VarW String) :
    ∃ evs, (go_Var_lit1_eval theClo g).2.st.log = g.st.log ++ (.rlock :: evs ++ [.runlock]) ∧
      evs = (visited g.st).map fun e => MEvt.evalCircuit e.2.id := by
  refine ⟨_, ?_, rfl⟩
  rw [go_Var_eval_eq]
  simp [addLog]

/-! ### the published map, when names are unique (they are: `CreateCircuit` refuses a second circuit of a name) -/

theorem storeKV_lookup (k : String) (v : EV) (kv : List (String × EV)) : (EV.map (storeKV k v kv)).lookup k = some v := by
  induction kv with
  | nil => simp [storeKV, EV.lookup]
  | cons e kv ih =>
    obtain ⟨k', v'⟩ := e
    simp only [storeKV]
    split
    · simp [EV.lookup]
    · rename_i hne
      simp only [EV.lookup, List.find?_cons] at ih ⊢
      simp [hne, ih]

/-- **A handle obtained BEFORE a `CreateCircuit` lists the circuit created AFTER it** (the statement the seeded change C17-10
    falsifies): take the handle in `g₀`; then `name` is created (model `Mgr.create`, to which the translated `CreateCircuit` is
    tied in T_GoManager) — the registry becomes `(create s name configs).1`; evaluating the OLD handle in that state, with
    the map visited in registration order, publishes an entry under `name`: what the NEW circuit's `Var` evaluates to. -/
theorem var_sees_later_creates (g₀ : GS VarW String) (name : String) (configs : List Layer)
    (hfree : g₀.st.s.get name = none) (hord : g₀.st.order = id) :
    ∀ c, (go_Var g₀).1 = .ok c →
      let s₁ := (create g₀.st.s name configs).1
      ∃ nc, s₁.get name = some nc ∧
        (¬ isNil (g₀.st.view nc.id) →
          ∃ m, (go_Var_lit1_eval c { g₀ with st := { g₀.st with s := s₁ } }).1 = .ok m ∧ m.lookup name = some (g₀.st.view nc.id)) := by
  intro c hc s₁
  rw [go_Var_eq] at hc
  cases Out.ok.inj hc
  have hs₁ : ∃ nc, s₁.circuits = g₀.st.s.circuits ++ [(name, nc)] := by
    simp only [s₁, create, hfree, runCtors_circuits]
    exact ⟨_, rfl⟩
  obtain ⟨nc, hnc⟩ := hs₁
  have hget : s₁.get name = some nc := by
    have h0 : g₀.st.s.circuits.find? (fun e => e.1 == name) = none := by
      have := hfree
      simp only [State.get, Option.map_eq_none_iff] at this
      exact this
    simp [State.get, hnc, List.find?_append, h0]
  refine ⟨nc, hget, ?_⟩
  intro hnn
  refine ⟨_, by rw [go_Var_eval_eq], ?_⟩
  simp only [mgrSummary, mgrCollect, hord, id, hnc, List.foldl_append, List.foldl_cons, List.foldl_nil]
  have : isNil (g₀.st.view nc.id) = false := by simpa using hnn
  simp only [this]
  exact storeKV_lookup _ _ _

/-- **The handle follows the object's history**, in general: taken in `g₀`, evaluated when the registry is `s` and the circuits'
    own views are `view`, it publishes `mgrSummary` of THAT state. -/
theorem var_follows_history (g₀ : GS VarW String) (w : VarW) :
    ∀ c, (go_Var g₀).1 = .ok c → (go_Var_lit1_eval c { g₀ with st := w }).1 = .ok (mgrSummary w) := by
  intro c hc
  rw [go_Var_eq] at hc
  cases Out.ok.inj hc
  rw [go_Var_eval_eq]

/-! ### non-vacuity -/
def s0 : State := { ctors := [] }
def s1 : State := (create s0 "first" []).1
def s2 : State := (create s1 "second" []).1
def w1 : VarW := { s := s1, view := fun i => .handle "circuit view" i }
example : (Go.run go_Var w1).1 = .ok theClo ∧ (Go.run go_Var w1).2.log = [] := by decide
/-- the handle read with one circuit registered … -/
example : (Go.run (go_Var_lit1_eval theClo) w1).1 = .ok (.map [("first", .handle "circuit view" 0)]) := rfl
example : (Go.run (go_Var_lit1_eval theClo) w1).2.log = [.rlock, .evalCircuit 0, .runlock] := by decide
/-- … and the SAME handle read after a second one was created: both -/
example : (Go.run (go_Var_lit1_eval theClo) { w1 with s := s2 }).1
    = .ok (.map [("first", .handle "circuit view" 0), ("second", .handle "circuit view" 1)]) := rfl
/-- a circuit whose `Var` evaluates to nil gets no entry (but is evaluated) -/
example : (Go.run (go_Var_lit1_eval theClo) { s := s2, view := fun i => if i = 0 then .nil else .int 5 }).1 = .ok (.map [("second", .int 5)]) := rfl
example : (Go.run (go_Var_lit1_eval theClo) { s := s2, view := fun i => if i = 0 then .nil else .int 5 }).2.log
    = [.rlock, .evalCircuit 0, .evalCircuit 1, .runlock] := by decide
example : (Go.run (go_Var_lit1_eval ⟨"other", (), []⟩) w1).1 = .nilCall := rfl

end CM.GoTie.GoManagerVar

/- GoTie/T_GoHFacNow.lean — `(*ConfigureOpener).now` (closers/hystrix/opener.go), as translated TODAY: ONE reading of
   the configured clock, of the wall clock when none is configured (used by `Opener.MarshalJSON`). -/
import CircuitModel.GoHfacPrims
import CircuitProofs.GoTie.Sem
import Generated.GoHFacNow
namespace CM.GoTie.GoHFacNow
open CM CM.Go CM.GoHFac CM.GoHFac.Opener CM.GoHFac.Now CM.Generated.GoHFacNow

/-- `c.now()`: one reading of clock `c.Now`, of `time.Now` when `c.Now` is nil; the config is not changed -/
theorem go_now_eq (g : GS NW NoTok) :
    go_now g = (.ok (g.st.env.clock (g.st.cfg.f_Now.getD wallClock) g.st.env.reads),
                { g with st := { g.st with env := { g.st.env with reads := g.st.env.reads + 1 } } }) := by
  unfold go_now Now.fn
  refine sem_goFunc_st _ _ g _ _ ?_
  cases h : g.st.cfg.f_Now with
  | none =>
    simp only [sem_bind_step, recv_Now, sem_rd, h, sem_step_ok, Option.map_none]
    rfl
  | some c =>
    simp only [sem_bind_step, recv_Now, sem_rd, h, sem_step_ok, Option.map_some]
    have hn : (isNil (some (ClockFn.mk c)) = true) = False := by simp [isNil, IsNil.isNil]
    simp only [hn, if_false, sem_bind_step, sem_rd, h, sem_step_ok, Option.map_some]
    rfl

/-! ### non-vacuity -/
def exEnv : Env := { clock := fun c k => 1000 * c + k }
example : (Go.run go_now { cfg := {}, env := exEnv }).1 = .ok 0 ∧ (Go.run go_now { cfg := { f_Now := some 7 }, env := { exEnv with reads := 3 } }).1 = .ok 7003 := by decide

end CM.GoTie.GoHFacNow

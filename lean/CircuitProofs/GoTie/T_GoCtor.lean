/- GoTie/T_GoCtor.lean — `NewCircuitFromConfig`, as translated TODAY from circuit.go: the caller's config (its own copy) is
   merged with the package defaults, a zero circuit with the given name and that merged config is made, and then EXACTLY the
   translated `SetConfigNotThreadSafe(merged)` of unit GoSetCfg runs on it (tied there: `go_SetConfigNotThreadSafe_eq` =
   `BuildW.rebuild`); that circuit is returned.  (That the rebuilt collector lists live in backing arrays of their own — no
   write into the caller's slices — is unit GoCtorSet: T_GoCtorSet.lean.) -/
import CircuitModel.GoCtorPrims
import CircuitProofs.GoTie.Sem
import CircuitProofs.GoTie.T_GoSetCfg
import Generated.GoCtor
namespace CM.GoTie.GoCtor
open CM CM.Go CM.GoCtor CM.Generated.GoCtor

/-- running unit GoSetCfg's translated `SetConfigNotThreadSafe` on a circuit value is the model's `rebuild` -/
theorem m_SetConfigNotThreadSafe_eq (c : Circuit) (cfg : CfgB) (g : GS CtorW NoTok) :
    Circuit.m_SetConfigNotThreadSafe c cfg g = (.ok (Circuit.ofW c.name c.notThreadSafeConfig (c.toW.rebuild cfg)), g) := by
  have h := GoSetCfg.go_SetConfigNotThreadSafe_eq cfg { st := c.toW, defers := [] }
  have h1 : (runOn (CM.Generated.GoSetCfg.go_SetConfigNotThreadSafe cfg) c.toW : NCM (Unit × BuildW)) g
      = (.ok ((), c.toW.rebuild cfg), g) := by
    simp only [runOn, h]
  unfold Circuit.m_SetConfigNotThreadSafe
  refine (sem_bind_ok _ _ _ _ _ h1).trans ?_
  rfl

/-- `NewCircuitFromConfig(name, cfg)` returns `newCircuit name (cfg merged with defaultCommandProperties)`: a circuit with
    that name, whose stored config is the MERGED one, and whose every other part is what `SetConfigNotThreadSafe(merged)`
    leaves on a zero circuit.  The package state is not written. -/
theorem go_NewCircuitFromConfig_eq (name : String) (cfg : CfgB) (g : GS CtorW NoTok) :
    go_NewCircuitFromConfig name cfg g = (.ok (newCircuit name (g.st.merge cfg pkg_defaultCommandProperties)), g) := by
  rw [go_NewCircuitFromConfig, fn]
  refine sem_goFunc_pure _ _ _ _ ?_
  refine (sem_bind_ok _ _ _ _ _ (sem_rd _ _)).trans ?_
  refine (sem_bind_ok _ _ _ _ _ (m_SetConfigNotThreadSafe_eq _ _ _)).trans ?_
  rfl

/-- spelled out (C05 / C09): the new circuit's run collectors are its closer, its opener, then the MERGED config's run
    collectors in their order; the fallback collectors are the merged config's; the circuit-level collectors are closer,
    opener, then the merged config's. -/
theorem newCircuit_collectors (name : String) (m : CfgB) :
    (newCircuit name m).rest.run = [(newCircuit name m).rest.closer, (newCircuit name m).rest.opener] ++ m.f_Metrics_Run ∧
    (newCircuit name m).rest.fb = m.f_Metrics_Fallback ∧
    (newCircuit name m).rest.circ = [(newCircuit name m).rest.closer, (newCircuit name m).rest.opener] ++ m.f_Metrics_Circuit :=
  GoSetCfg.rebuild_replaces_collectors _ m

/-- spelled out (C12, C17): the clock and the lost-errors hook are the MERGED config's, both logic objects come from the merged
    config's factories (closer made first), the live mirror holds the merged settings, the name is the given one, and
    `Config()` will return the merged config. -/
theorem newCircuit_fields (name : String) (m : CfgB) :
    (newCircuit name m).name = name ∧ (newCircuit name m).notThreadSafeConfig = m ∧ (newCircuit name m).rest.storedCfg = some m ∧
    (newCircuit name m).rest.timeNow = m.f_General_TimeKeeper_Now ∧ (newCircuit name m).rest.lostErrors = m.f_General_GoLostErrors ∧
    (newCircuit name m).rest.closer = ⟨0, 0, m.closerConf⟩ ∧ (newCircuit name m).rest.opener = ⟨1, 1, m.openerConf⟩ ∧
    (newCircuit name m).rest.live = GoLiveCfg.liveOf m.live ({} : LiveCfg).iei ∧ (newCircuit name m).rest.stuck = false := by
  simp [newCircuit, GoSetCfg.BuildW.rebuild, GoSetCfg.BuildW.setLive]

def exCfg : CfgB :=
  { tag := 7, f_General_GoLostErrors := 3, f_General_TimeKeeper_Now := 0, closerConf := true, openerConf := false,
    f_Metrics_Run := [⟨2, 0, false⟩, ⟨2, 1, true⟩], f_Metrics_Fallback := [⟨2, 2, false⟩], f_Metrics_Circuit := [],
    live := { f_General_ForceOpen := false, f_General_ForcedClosed := false, f_General_Disabled := false, f_Execution_Timeout := 5,
              f_Execution_MaxConcurrentRequests := 0, f_Execution_IgnoreInterrupts := false, f_Fallback_Disabled := true,
              f_Fallback_MaxConcurrentRequests := 0 } }
def okVal {α : Type} : Out α → Option α
  | .ok a => some a
  | _ => none

/-- non-vacuity: a config with two run collectors, one fallback collector, a Configurable closer, no clock: the defaults fill the
    clock (identity 1) and the limits; the lists are closer, opener, then the configured collectors -/
example :
    (okVal (run (go_NewCircuitFromConfig "abc" exCfg) ⟨stdMerge⟩).1).map
        (fun c => (c.name, c.rest.run, c.rest.fb, c.rest.circ, c.rest.timeNow, c.rest.lostErrors, c.rest.live.maxConc, c.rest.live.timeout, c.rest.told))
      = some ("abc", [⟨0, 0, true⟩, ⟨1, 1, false⟩, ⟨2, 0, false⟩, ⟨2, 1, true⟩], [⟨2, 2, false⟩], [⟨0, 0, true⟩, ⟨1, 1, false⟩], 1, 3, 10, 5,
              [.notThreadSafe ⟨0, 0, true⟩ 7, .threadSafe ⟨0, 0, true⟩ 7]) := by
  rfl

end CM.GoTie.GoCtor

/- GoTie/T_GoRPVar.lean — `(*RollingPercentile).Var()`, as translated TODAY from faststats/rolling_percentile.go: the call
   computes nothing (no clock reading, the ring is not rolled); EVALUATING the function value takes `r.Snapshot()` THEN — one
   wall-clock reading at evaluation time, the ring rolled to it (`RP.snapshot`, tied in T_GoRPSnap) — and publishes
   `{"snap": summary of that snapshot}` where the summary is `SortedDurations.Var()` evaluated (unit GoSDVar: every pNN is
   Percentile(NN); C15).  This is what `evar.ForExpvar(&r.Latencies)` stands for in unit GoRunStatsVar (`rpPublish`). -/
import CircuitModel.GoVarsPrims
import CircuitProofs.GoTie.Sem
import CircuitProofs.GoTie.T_GoRPSnap
import CircuitProofs.GoTie.T_GoSDVar
import Generated.GoRPVar
namespace CM.GoTie.GoRPVar
open CM CM.Go CM.GoFsNew CM.GoVars CM.GoVars.RPV CM.Generated.GoRPVar

/-- the function value `Var()` returns -/
def theClo : CloV := ⟨"Var_lit1", (), []⟩

/-- `r.Var()` computes nothing: no clock reading, the ring untouched; the result is the function value over the receiver alone. -/
theorem go_Var_eq (g : GS (Walled RP) NoTok) : go_Var g = (.ok theClo, g) := by
  unfold go_Var fn
  apply sem_goFunc_pure
  rfl

/-- the two callees are what their own units' ties say: `r.Snapshot()` is the translated `Snapshot` of unit GoRPSnap … -/
theorem recv_Snapshot_is : recv_Snapshot = CM.Generated.GoRPSnap.go_Snapshot := CM.GoTie.GoRPSnap.go_Snapshot_eq.symm

/-- … and `evar.ForExpvar(s)` is the translated `SortedDurations.Var()` of unit GoSDVar, evaluated at once, with its
    durations boxed (`sdEV`) -/
theorem forExpvar_is (s : List Int) (g : GS Unit NoTok) :
    ((CM.Generated.GoSDVar.go_Var_lit1_eval ⟨"Var_lit1", s.map CM.GoSD.I64.mk, []⟩ g).1, sdEV s)
      = ((match varSummary s with | some m => Out.ok m | none => .nilCall), (varSummary s).map fun m => .map (m.map fun e => (e.1, .durStr e.2.of))) := by
  rw [CM.GoTie.GoSDVar.go_Var_eval_eq]
  rfl

/-- EVALUATING it: ONE wall-clock reading `t` (the next one at the moment of evaluation), the ring as `Snapshot()` at `t`
    leaves it, and `{"snap": summary}` of that snapshot (Go's panic where a percentile has no value): `rpPublish`. -/
theorem go_Var_eval_eq (g : GS (Walled RP) NoTok) :
    go_Var_lit1_eval theClo g
      = ((match (rpPublish g.st.obj (g.st.clock g.st.reads)).2 with | some m => .ok m | none => .nilCall),
         { g with st := { g.st with obj := (rpPublish g.st.obj (g.st.clock g.st.reads)).1, reads := g.st.reads + 1 } }) := by
  show go_Var_lit1 g = _
  unfold go_Var_lit1 fn
  apply sem_goFunc_st
  simp only [sem_bind_step, recv_Snapshot, atWallTime, sem_updRet, sem_step_ok, evar_ForExpvar, rpPublish]
  cases sdEV (g.st.obj.snapshot (g.st.clock g.st.reads)).2 <;> rfl

/-- **The handle follows the object's history**: taken in `g₀`, evaluated when the ring is `r` and the wall clock is at its
    `k`-th reading, it publishes the summary of `r`'s window as of THAT reading. -/
theorem var_follows_history (g₀ : GS (Walled RP) NoTok) (r : RP) (k : Nat) :
    ∀ c, (go_Var g₀).1 = .ok c →
      (go_Var_lit1_eval c { g₀ with st := { g₀.st with obj := r, reads := k } }).1
        = (match (rpPublish r (g₀.st.clock k)).2 with | some m => .ok m | none => .nilCall) := by
  intro c hc
  rw [go_Var_eq] at hc
  cases Out.ok.inj hc
  rw [go_Var_eval_eq]

/-! ### non-vacuity: 3 buckets of 10 ns; a sample of 7 ns at offset 5; wall clock 16, 41, … -/
def rpw : Walled RP := { obj := (RP.new 3 10 2).add 7 5, clock := fun k => 16 + 25 * k }
def allD (d : Int) : EV := .map ([("min", d), ("p25", d), ("p50", d), ("p90", d), ("p99", d), ("max", d), ("mean", d)].map fun e => (e.1, .durStr e.2))
example : (Go.run go_Var rpw).1 = .ok theClo ∧ (Go.run go_Var rpw).2.reads = 0 := by decide
example : (Go.run (go_Var_lit1_eval theClo) rpw).1 = .ok (.map [("snap", allD 7)]) := rfl
example : (Go.run (go_Var_lit1_eval theClo) rpw).2.reads = 1 := rfl
/-- the same handle read a second time, at wall clock 41: the sample has left the 30 ns window — the empty snapshot's summary (-1) -/
example : (Go.run (go_Var_lit1_eval theClo) (Go.run (go_Var_lit1_eval theClo) rpw).2).1 = .ok (.map [("snap", allD (-1))]) := rfl
/-- … and with a sample of 9 ns added at offset 40 in between: that sample -/
example : (Go.run (go_Var_lit1_eval theClo) { (Go.run (go_Var_lit1_eval theClo) rpw).2 with obj := (Go.run (go_Var_lit1_eval theClo) rpw).2.obj.add 9 40 }).1
    = .ok (.map [("snap", allD 9)]) := rfl
example : (Go.run (go_Var_lit1_eval ⟨"other", (), []⟩) rpw).1 = .nilCall := rfl

end CM.GoTie.GoRPVar

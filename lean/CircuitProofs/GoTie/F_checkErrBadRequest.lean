/- GoTie/F_checkErrBadRequest.lean — first link of the classification chain
   The generated function is today's translation of circuit.go; callee behaviour enters as HYPOTHESES (the callees'
   own ties are proved in their own modules and put together in GoTie/All.lean), so this module depends on the body of
   `checkErrBadRequest` only. -/
import CircuitModel.GoCircuitSpec
import CircuitProofs.GoTie.Basic
import Generated.GoCircuit.F_checkErrBadRequest
namespace CM.GoTie
open CM CM.Go CM.GoCircuit CM.Generated.GoCircuit
variable {σo σc : Type} [L : Logic σo σc]

theorem go_checkErrBadRequest_eq (ctx : GoCtx) (ret : Err) (t : GoTime) (d : Dur) :
    go_checkErrBadRequest (σo := σo) (σc := σc) ctx ret t d = spec_checkErrBadRequest ctx ret t d := by
  funext g
  simp only [go_checkErrBadRequest, spec_checkErrBadRequest]
  rw [gt_fn_keep] <;> gt_eval
  all_goals (repeat' split) <;> simp_all

end CM.GoTie

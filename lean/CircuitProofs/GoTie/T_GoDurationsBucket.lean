/- GoTie/T_GoDurationsBucket.lean — `durationsBucket.{addDuration, clear, Durations}`, as translated TODAY, compute the model's
   `DSlot.add`, `DSlot.clear`, `DSlot.durations` (a circular buffer keeping the most recent `size` values), for slots whose
   array has the declared size. -/
import CircuitModel.GoRollingPercentilePrims
import CircuitProofs.GoTie.Sem
import Generated.GoDurationsBucket
namespace CM.GoTie.GoRP
open CM CM.Go CM.GoRP CM.GoRP.D CM.Generated.GoDurationsBucket

/-! ### helpers -/

theorem goRange_natCast (k : Nat) : goRange (k : Int) = (List.range k).map Int.ofNat := by
  simp [goRange]

theorem goMod_natCast (a n : Nat) : goMod (a : Int) (n : Int) = ((a % n : Nat) : Int) := rfl

/-- `Durations`' loop: after `k` trips the first `k` slots of `ret` hold the array's, the rest is still zero -/
theorem durations_fold (arr : List Int) (m : Nat) (hm : m ≤ arr.length) : ∀ k, k ≤ m →
    (goRange (k : Int)).foldl (fun ret i => goSet ret i (arr.getD i.toNat 0)) (List.replicate m 0)
      = arr.take k ++ List.replicate (m - k) 0 := by
  intro k
  rw [goRange_natCast]
  induction k with
  | zero => intro _; simp
  | succ k ih =>
    intro hk
    rw [List.range_succ, List.map_append, List.foldl_append, ih (by omega)]
    simp only [List.map_cons, List.map_nil, List.foldl_cons, List.foldl_nil, goSet]
    have e : m - k = (m - (k + 1)) + 1 := by omega
    rw [e, List.replicate_succ]
    have hl : (arr.take k).length = k := by rw [List.length_take]; omega
    rw [show (Int.ofNat k).toNat = k from rfl]
    rw [List.set_append_right _ _ (by omega), hl, Nat.sub_self, List.set_cons_zero]
    have hk' : k < arr.length := by omega
    rw [List.take_add_one, List.append_assoc, List.getD_eq_getElem?_getD, List.getElem?_eq_getElem hk']
    simp

/-! ### the ties -/

theorem go_addDuration_eq (s : DSlot) (h : s.arr.length = s.size) (d : Int) (dl : List NoTok) :
    go_addDuration d { st := s, defers := dl } = (.ok (), { st := s.add d, defers := dl }) := by
  unfold go_addDuration fn
  apply sem_goFunc_st _ _ { st := s, defers := dl } _ (s.add d)
  simp only [sem_bind_step, recv_durationsSomeInvalid, recv_currentIndex_Add, recv_durationsSomeInvalid_at_Set,
    pkg_int64, Int.m_Nanoseconds, sem_rd, sem_updRet, sem_upd, sem_step_ok, sem_pure, sem_ite_apply]
  simp only [goLen, beq_iff_eq, DSlot.add, h]
  by_cases h0 : s.size = 0
  · rw [if_pos (show (s.size : Int) = 0 by omega), if_pos h0]
  · rw [if_neg (show ¬ (s.size : Int) = 0 by omega), if_neg h0]
    have e1 : (s.cur : Int) + 1 - 1 = (s.cur : Int) := by omega
    have e2 : ((s.cur : Int) + 1).toNat = s.cur + 1 := by omega
    simp only [e1, e2, goMod_natCast, Int.toNat_natCast]

theorem go_clear_eq : go_clear = upd (fun s => s.clear) := by
  funext g
  rw [sem_upd]
  unfold go_clear fn
  apply sem_goFunc_st
  simp only [sem_bind_step, recv_currentIndex_Set, sem_upd, sem_step_ok, sem_pure]
  rfl

theorem go_Durations_eq (s : DSlot) (h : s.arr.length = s.size) (dl : List NoTok) :
    go_Durations { st := s, defers := dl } = (.ok s.durations, { st := s, defers := dl }) := by
  unfold go_Durations fn
  apply sem_goFunc_pure
  simp only [sem_bind_step, recv_currentIndex_Get, recv_durationsSomeInvalid, pkg_int64, pkg_int, sem_rd, sem_step_ok,
    sem_pure, sem_ite_apply]
  have loop : ∀ m : Nat, m ≤ s.arr.length →
      (forIn (goRange (m : Int)) (goMakeZeros (m : Int))
          (fun i __s => do
            let __do_lift ← recv_durationsSomeInvalid_at_Duration i
            pure (ForInStep.yield (goSet __s i __do_lift))) : SLM (List Int))
          ({ st := s, defers := dl } : GS DSlot NoTok)
        = (.ok (s.arr.take m), { st := s, defers := dl }) := by
    intro m hm
    rw [sem_forIn_acc _ (fun i ret => goSet ret i (s.arr.getD i.toNat 0))]
    · rw [goMakeZeros, Int.toNat_natCast, durations_fold _ _ hm _ (Nat.le_refl _)]
      simp
    · intro i ret
      simp only [sem_bind_step, recv_durationsSomeInvalid_at_Duration, sem_rd, sem_step_ok, sem_pure]
  simp only [goLen, decide_eq_true_eq, DSlot.durations, h]
  by_cases hc : (s.cur : Int) > s.size
  · rw [if_pos hc, loop _ (by omega), sem_step_ok, sem_pure, Nat.min_eq_right (by omega)]
  · rw [if_neg hc, loop _ (by omega), sem_step_ok, sem_pure, Nat.min_eq_left (by omega)]

end CM.GoTie.GoRP

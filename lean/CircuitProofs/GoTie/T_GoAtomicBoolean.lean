/- GoTie/T_GoAtomicBoolean.lean — faststats.AtomicBoolean as translated TODAY: `Get` is exactly one `atomic.Bool.Load`
   of the embedded word (true ⇔ the uint32 is non-zero), `Set(b)` exactly one `atomic.Bool.Store` (stores 1 for true, 0 for
   false), `String` formats one `Get`.  So the word behaves as a Bool field of the model state: a `Get` after `Set b` reads `b`. -/
import CircuitModel.GoErrsPrims
import CircuitProofs.GoTie.Sem
import Generated.GoAtomicBoolean
namespace CM.GoTie.GoAtomicBoolean
open CM CM.Go CM.GoTie CM.GoAtomic CM.GoAtomic.B CM.Generated.GoAtomicBoolean

/-- TIE. `Get()`: one load; the answer is `word ≠ 0`; the word is unchanged -/
theorem go_Get_eq : go_Get = rd AtomicBool.val := by
  funext g
  rw [go_Get, B.fn]
  exact sem_goFunc_pure _ _ g _ rfl

/-- TIE. `Set(b)`: one store of 1 (true) or 0 (false), whatever the word held -/
theorem go_Set_eq (b : Bool) : go_Set b = upd (fun _ => { v := b32 b }) := by
  funext g
  rw [go_Set, B.fn]
  exact sem_goFunc_st _ _ g _ _ rfl

/-- TIE. `String()`: "true" / "false" of one `Get` -/
theorem go_String_eq : go_String = rd (fun a => if a.val then "true" else "false") := by
  funext g
  rw [go_String, B.fn]
  refine sem_goFunc_pure _ _ g _ ?_
  simp only [sem_bind_step, go_Get_eq, sem_rd, sem_step_ok, strconv_FormatBool, sem_pure]

/-- the word is a Bool field: after `Set b` (from ANY word, e.g. one that held 7) the abstraction `val` is `b`, and `Get` reads it -/
theorem get_after_set (b : Bool) (g : GS AtomicBool NoTok) :
    ((go_Set b g).2.st.val = b) ∧ (go_Get (go_Set b g).2).1 = .ok b := by
  simp only [go_Set_eq, go_Get_eq, sem_upd, sem_rd]
  cases b <;> exact ⟨rfl, rfl⟩

/-! ### non-vacuity -/
example : run (go_Set true) { v := 0 } = (.ok (), { v := 1 }) := by rw [go_Set_eq]; rfl
example : run (go_Set false) { v := 7 } = (.ok (), { v := 0 }) := by rw [go_Set_eq]; rfl
example : run go_Get { v := 7 } = (.ok true, { v := 7 }) := by rw [go_Get_eq]; rfl
example : run go_Get { v := 0 } = (.ok false, { v := 0 }) := by rw [go_Get_eq]; rfl
example : (run go_String { v := 1 }).1 = .ok "true" := by rw [go_String_eq]; rfl

end CM.GoTie.GoAtomicBoolean

/-
  GoTie/I_Call_Lemmas.lean — infrastructure for the interference tie I_Call: evaluation of the Go-semantics monad over
  the interference primitives (GoCallConcPrims) and of `solo` over Conc/Call, both with the oracle's move kept behind
  `icall_after` (so that symbolic execution does not nest projections of `popEnv`).
-/
import Generated.GoCallI
import CircuitModel.Conc.CallSolo
namespace CM.GoTie.ICall
open CM CM.Go CM.Conc CM.Conc.Call CM.GoCallI CM.Generated.GoCallI

/-- continue with what the oracle's move leaves -/
def icall_after {β : Type} (p : Shared × List (Shared → Shared)) (F : Shared → List (Shared → Shared) → β) : β := F p.1 p.2
theorem icall_after_mk {β : Type} (s : Shared) (e : List (Shared → Shared)) (F : Shared → List (Shared → Shared) → β) :
    icall_after (s, e) F = F s e := rfl

/-! ### the Go side -/
section Go
variable {σ tok α β : Type}

def icall_bindK (r : Out α × GS σ tok) (f : α → M σ tok β) : Out β × GS σ tok :=
  match r with
  | (.ok a, s') => f a s'
  | (.panic v, s') => (.panic v, s')
  | (.nilCall, s') => (.nilCall, s')

theorem icall_bind_apply (m : KM α) (f : α → KM β) (g : GS CS String) : (m >>= f) g = icall_bindK (m g) f := rfl
theorem icall_bindK_ok (a : α) (s : GS CS String) (f : α → KM β) : icall_bindK (.ok a, s) f = f a s := rfl
theorem icall_bindK_panic (v : Nat) (s : GS CS String) (f : α → KM β) : icall_bindK ((.panic v : Out α), s) f = (.panic v, s) := rfl
theorem icall_bindK_nilCall (s : GS CS String) (f : α → KM β) : icall_bindK ((.nilCall : Out α), s) f = (.nilCall, s) := rfl
theorem icall_bindK_ite (c : Prop) [Decidable c] (x y : Out α × GS CS String) (f : α → KM β) :
    icall_bindK (if c then x else y) f = if c then icall_bindK x f else icall_bindK y f := by
  split <;> rfl
theorem icall_bindK_after (p : Shared × List (Shared → Shared)) (F : Shared → List (Shared → Shared) → Out α × GS CS String) (f : α → KM β) :
    icall_bindK (icall_after p F) f = icall_after p fun s e => icall_bindK (F s e) f := rfl
theorem icall_ite_apply (c : Prop) [Decidable c] (m₁ m₂ : KM α) (g : GS CS String) :
    (if c then m₁ else m₂) g = if c then m₁ g else m₂ g := by
  split <;> rfl
theorem icall_pure_apply (a : α) (g : GS CS String) : (pure a : KM α) g = (.ok a, g) := rfl

/-- what `goFunc` does with the outcome of the body -/
def icall_wrap (h : Nat) (r : Out α × GS CS String) : Out α × GS CS String :=
  (r.1, unwind runTok h r.2.defers.length r.2)
theorem icall_fn_apply (body : KM α) (g : GS CS String) : fn body g = icall_wrap g.defers.length (body g) := rfl
theorem icall_wrap_ite (c : Prop) [Decidable c] (h : Nat) (x y : Out α × GS CS String) :
    icall_wrap h (if c then x else y) = if c then icall_wrap h x else icall_wrap h y := by
  split <;> rfl
theorem icall_wrap_after (h : Nat) (p : Shared × List (Shared → Shared)) (F : Shared → List (Shared → Shared) → Out α × GS CS String) :
    icall_wrap h (icall_after p F) = icall_after p fun s e => icall_wrap h (F s e) := rfl
theorem icall_wrap_keep (o : Out α) (cs : CS) (d : List String) : icall_wrap d.length (o, ⟨cs, d⟩) = (o, ⟨cs, d⟩) := by
  show (o, unwind runTok d.length d.length ⟨cs, d⟩) = _
  cases hd : d.length with
  | zero => rfl
  | succ n => simp [unwind, hd]
/-- the second component after the deferred unlock -/
def icall_snd (o : Out α) (r : Out Unit × GS CS String) : Out α × GS CS String := (o, r.2)
theorem icall_snd_mk (o : Out α) (o' : Out Unit) (g : GS CS String) : icall_snd o (o', g) = (o, g) := rfl
theorem icall_snd_after (o : Out α) (p : Shared × List (Shared → Shared)) (F : Shared → List (Shared → Shared) → Out Unit × GS CS String) :
    icall_snd o (icall_after p F) = icall_after p fun s e => icall_snd o (F s e) := rfl
theorem icall_snd_ite (c : Prop) [Decidable c] (o : Out α) (x y : Out Unit × GS CS String) :
    icall_snd o (if c then x else y) = if c then icall_snd o x else icall_snd o y := by
  split <;> rfl

/-! primitives on a state in constructor form -/
theorem icall_atomicOp_apply (f : Shared → Shared × α × Lab) (s : Shared) (tid : Nat) (sc : Script) (envs : List (Shared → Shared))
    (tr : List Lab) (b x : Bool) (d : List String) :
    atomicOp f ⟨⟨s, tid, sc, envs, tr, b, x⟩, d⟩ =
      icall_after (popEnv envs s) fun s1 e1 => (.ok (f s1).2.1, ⟨⟨(f s1).1, tid, sc, e1, tr ++ [(f s1).2.2], b, x⟩, d⟩) := rfl
theorem icall_lockOp_apply (ok : Shared → Bool) (f : Nat → Shared → Shared) (lab : Lab) (s : Shared) (tid : Nat) (sc : Script)
    (envs : List (Shared → Shared)) (tr : List Lab) (b x : Bool) (d : List String) :
    lockOp ok f lab ⟨⟨s, tid, sc, envs, tr, b, x⟩, d⟩ =
      icall_after (popEnv envs s) fun s1 e1 =>
        if ok s1 then (.ok (), ⟨⟨f tid s1, tid, sc, e1, tr ++ [lab], b, x⟩, d⟩)
        else (.nilCall, ⟨⟨s1, tid, sc, e1, tr, true, x⟩, d⟩) := rfl
theorem icall_wrap_unlock (o : Out α) (cs : CS) (d : List String) :
    icall_wrap d.length (o, ⟨cs, "recv_transitionMu_Unlock" :: d⟩) = icall_snd o (recv_transitionMu_Unlock ⟨cs, d⟩) := by
  show (o, unwind runTok d.length (d.length + 1) ⟨cs, "recv_transitionMu_Unlock" :: d⟩) = _
  have h : ¬ (d.length + 1 ≤ d.length) := by omega
  simp only [unwind, List.length_cons, h, if_false]
  show (o, unwind runTok d.length d.length (recv_transitionMu_Unlock ⟨cs, d⟩).2) = (o, (recv_transitionMu_Unlock ⟨cs, d⟩).2)
  have hk : (recv_transitionMu_Unlock ⟨cs, d⟩).2.defers = d := by
    simp only [recv_transitionMu_Unlock, lockOp]; rfl
  generalize (recv_transitionMu_Unlock ⟨cs, d⟩).2 = g at hk
  obtain ⟨cs', d'⟩ := g
  subst hk
  exact icall_wrap_keep (α := α) o cs' d'
theorem icall_deferPrim_apply (c : String) (g : GS CS String) : deferPrim c g = (.ok (), { g with defers := c :: g.defers }) := rfl
theorem icall_Allow_apply (ctx : Unit) (now : Int) (g : GS CS String) : recv_OpenToClose_Allow ctx now g = (.ok g.st.sc.allow, g) := rfl
theorem icall_ShouldClose_apply (ctx : Unit) (now : Int) (g : GS CS String) : recv_OpenToClose_ShouldClose ctx now g = (.ok g.st.sc.shouldClose, g) := rfl
theorem icall_ShouldOpen_apply (ctx : Unit) (now : Int) (g : GS CS String) : recv_ClosedToOpen_ShouldOpen ctx now g = (.ok g.st.sc.shouldOpen, g) := rfl
theorem icall_Success_apply (ctx : Unit) (t d : Int) (g : GS CS String) : recv_CmdMetricCollector_Success ctx t d g = (.ok (), g) := rfl
theorem icall_ErrFailure_apply (ctx : Unit) (t d : Int) (g : GS CS String) : recv_CmdMetricCollector_ErrFailure ctx t d g = (.ok (), g) := rfl

end Go

/-! ### the model side -/
/-- continue the solo run after a step of the model (no step: the run ends in `n`) -/
def icall_next (stop : Pc → Bool) (tid k : Nat) (o : Option (Shared × Local)) (envs : List (Shared → Shared)) (tr : List Lab)
    (n : SoloSt Shared Local Lab) : SoloSt Shared Local Lab :=
  match o with
  | some (s', l') => solo sys (viewUntil stop) tid k ⟨s', l', envs, tr⟩
  | none => n
theorem icall_next_some (stop : Pc → Bool) (tid k : Nat) (s' : Shared) (l' : Local) (envs : List (Shared → Shared)) (tr : List Lab)
    (n : SoloSt Shared Local Lab) : icall_next stop tid k (some (s', l')) envs tr n = solo sys (viewUntil stop) tid k ⟨s', l', envs, tr⟩ := rfl
theorem icall_next_none (stop : Pc → Bool) (tid k : Nat) (envs : List (Shared → Shared)) (tr : List Lab)
    (n : SoloSt Shared Local Lab) : icall_next stop tid k none envs tr n = n := rfl
theorem icall_next_ite (stop : Pc → Bool) (tid k : Nat) (c : Prop) [Decidable c] (a b : Option (Shared × Local)) (envs : List (Shared → Shared))
    (tr : List Lab) (n : SoloSt Shared Local Lab) :
    icall_next stop tid k (if c then a else b) envs tr n = if c then icall_next stop tid k a envs tr n else icall_next stop tid k b envs tr n := by
  split <;> rfl

def icall_lab (o : Option Lab) (tr : List Lab) : List Lab := match o with | some a => tr ++ [a] | none => tr
theorem icall_lab_some (a : Lab) (tr : List Lab) : icall_lab (some a) tr = tr ++ [a] := rfl
theorem icall_lab_none (tr : List Lab) : icall_lab none tr = tr := rfl

theorem icall_solo_zero (stop : Pc → Bool) (tid : Nat) (st : SoloSt Shared Local Lab) : solo sys (viewUntil stop) tid 0 st = st := rfl

/-- one step of the model's thread, the oracle's move behind `icall_after` (to be used with `↓reduceIte`: the conditions
    are decided before a branch is looked at) -/
theorem icall_solo_step (stop : Pc → Bool) (tid k : Nat) (s : Shared) (loc : Local) (envs : List (Shared → Shared)) (tr : List Lab) :
    solo sys (viewUntil stop) tid (k + 1) ⟨s, loc, envs, tr⟩ =
      if stop loc.pc then ⟨s, loc, envs, tr⟩
      else if silent s loc then icall_next stop tid k (Call.step tid s loc) envs tr ⟨s, loc, envs, tr⟩
      else icall_after (popEnv envs s) fun s1 e1 =>
        icall_next stop tid k (Call.step tid s1 loc) e1 (icall_lab (label s1 loc) tr) ⟨s1, loc, e1, tr⟩ := by
  by_cases h : stop loc.pc = true
  · simp [solo, viewUntil, h]
  by_cases hs : silent s loc = true
  · rcases hst : Call.step tid s loc with _ | ⟨s', l'⟩ <;>
      simp [solo, viewUntil, h, hs, hst, sys, icall_next]
  · rcases hst : Call.step tid (popEnv envs s).1 loc with _ | ⟨s', l'⟩ <;>
      simp [solo, viewUntil, h, hs, hst, sys, icall_next, icall_after, icall_lab]
    cases label (popEnv envs s).1 loc <;> rfl

/-- inside a transition the model's thread is the `Trans` thread -/
def icall_tstep (s : Shared) (job : Job) (so : Option Bool) (o : Option (Trans.Shared × Trans.Local)) : Option (Shared × Local) :=
  match o with
  | some (t', tl') => some ({ s with t := t' }, ⟨job, if tl'.pc == .done then .done else .trans tl', so⟩)
  | none => none
theorem icall_tstep_some (s : Shared) (job : Job) (so : Option Bool) (t' : Trans.Shared) (tl' : Trans.Local) :
    icall_tstep s job so (some (t', tl')) = some ({ s with t := t' }, ⟨job, if tl'.pc == .done then .done else .trans tl', so⟩) := rfl
theorem icall_tstep_none (s : Shared) (job : Job) (so : Option Bool) : icall_tstep s job so none = none := rfl
theorem icall_tstep_ite (s : Shared) (job : Job) (so : Option Bool) (c : Prop) [Decidable c] (a b : Option (Trans.Shared × Trans.Local)) :
    icall_tstep s job so (if c then a else b) = if c then icall_tstep s job so a else icall_tstep s job so b := by
  split <;> rfl
theorem icall_step_trans (tid : Nat) (s : Shared) (job : Job) (so : Option Bool) (tl : Trans.Local) (h : tl.pc ≠ .done) :
    Call.step tid s ⟨job, .trans tl, so⟩ = icall_tstep s job so (Trans.step tid s.t tl) := by
  obtain ⟨tj, tpc⟩ := tl
  cases tpc <;> first | exact absurd rfl h | (simp only [Call.step, icall_tstep]; split <;> simp_all)

/-! ### agreement of the two sides, along the two trees -/
structure icall_Ag {α : Type} (r : Out α × GS CS String) (d : List String) (st : SoloSt Shared Local Lab) (fin : Out α → Pc → Prop) : Prop where
  defers : r.2.defers = d
  sh : st.sh = r.2.st.sh
  envs : st.envs = r.2.st.envs
  trace : st.trace = r.2.st.trace
  pc : fin r.1 st.loc.pc
  notStuck : r.2.st.stuck = false
  blocked : r.2.st.blocked = true ↔ r.1 = .nilCall

theorem icall_Ag_after {α : Type} (p : Shared × List (Shared → Shared)) (F : Shared → List (Shared → Shared) → Out α × GS CS String)
    (G : Shared → List (Shared → Shared) → SoloSt Shared Local Lab) (d : List String) (fin : Out α → Pc → Prop)
    (h : ∀ s e, icall_Ag (F s e) d (G s e) fin) : icall_Ag (icall_after p F) d (icall_after p G) fin := h _ _
theorem icall_Ag_ite {α : Type} (c : Prop) [Decidable c] (a b : Out α × GS CS String) (a' b' : SoloSt Shared Local Lab) (d : List String)
    (fin : Out α → Pc → Prop) (h₁ : c → icall_Ag a d a' fin) (h₂ : ¬ c → icall_Ag b d b' fin) :
    icall_Ag (if c then a else b) d (if c then a' else b') fin := by
  split
  · exact h₁ ‹_›
  · exact h₂ ‹_›
theorem icall_Ag_leaf {α : Type} (o : Out α) (sh : Shared) (tid : Nat) (sc : Script) (envs : List (Shared → Shared)) (tr : List Lab)
    (b : Bool) (d : List String) (loc : Local) (fin : Out α → Pc → Prop) (hpc : fin o loc.pc) (hb : b = true ↔ o = .nilCall) :
    icall_Ag (o, ⟨⟨sh, tid, sc, envs, tr, b, false⟩, d⟩) d ⟨sh, loc, envs, tr⟩ fin :=
  ⟨rfl, rfl, rfl, rfl, hpc, rfl, hb⟩

/-- a callee in tail position: what is left of the caller only renames the answer -/
theorem icall_Ag_tail {α β : Type} (r : Out α × GS CS String) (d : List String) (st : SoloSt Shared Local Lab)
    (fin : Out α → Pc → Prop) (fin' : Out β → Pc → Prop) (f : α → KM β) (b : β) (hf : ∀ a g, f a g = (.ok b, g))
    (h : icall_Ag r d st fin)
    (hok : ∀ a pc, fin (.ok a) pc → fin' (.ok b) pc) (hnil : ∀ pc, fin .nilCall pc → fin' .nilCall pc)
    (hpanic : ∀ v pc, fin (.panic v) pc → fin' (.panic v) pc) :
    icall_Ag (icall_wrap d.length (icall_bindK r f)) d st fin' := by
  obtain ⟨o, cs, d'⟩ := r
  obtain ⟨hd, hsh, henvs, htr, hpc, hst, hbl⟩ := h
  simp only at hd hsh henvs htr hpc hst hbl
  subst hd
  cases o with
  | ok a =>
    rw [icall_bindK_ok, hf, icall_wrap_keep]
    exact ⟨rfl, hsh, henvs, htr, hok _ _ hpc, hst, by simpa using hbl⟩
  | panic v =>
    rw [icall_bindK_panic, icall_wrap_keep]
    exact ⟨rfl, hsh, henvs, htr, hpanic _ _ hpc, hst, by simpa using hbl⟩
  | nilCall =>
    rw [icall_bindK_nilCall, icall_wrap_keep]
    exact ⟨rfl, hsh, henvs, htr, hnil _ hpc, hst, by simpa using hbl⟩

/-- `if !b` the other way round -/
theorem icall_ite_not {β : Type} (b : Bool) (x y : β) : (if (!b) = true then x else y) = if b = true then y else x := by
  cases b <;> rfl

/-- the model's thread standing inside a transition, not to be run by `icall_eval` (composite functions: the transition is
    the business of `go_openCircuit` / `go_close`'s own lemma) -/
def icall_soloT (stop : Pc → Bool) (tid k : Nat) (s : Shared) (job : Job) (tl : Trans.Local) (so : Option Bool)
    (envs : List (Shared → Shared)) (tr : List Lab) : SoloSt Shared Local Lab :=
  solo sys (viewUntil stop) tid k ⟨s, ⟨job, .trans tl, so⟩, envs, tr⟩
theorem icall_hold_trans (stop : Pc → Bool) (tid k : Nat) (s : Shared) (job : Job) (tl : Trans.Local) (so : Option Bool)
    (envs : List (Shared → Shared)) (tr : List Lab) :
    solo sys (viewUntil stop) tid k ⟨s, ⟨job, .trans tl, so⟩, envs, tr⟩ = icall_soloT stop tid k s job tl so envs tr := rfl

/-- the same at the entry of `attemptToOpen` (for `checkErrFailure`) -/
def icall_soloO (stop : Pc → Bool) (tid k : Nat) (s : Shared) (job : Job) (so : Option Bool)
    (envs : List (Shared → Shared)) (tr : List Lab) : SoloSt Shared Local Lab :=
  solo sys (viewUntil stop) tid k ⟨s, ⟨job, .oFC, so⟩, envs, tr⟩
theorem icall_hold_oFC (stop : Pc → Bool) (tid k : Nat) (s : Shared) (job : Job) (so : Option Bool)
    (envs : List (Shared → Shared)) (tr : List Lab) :
    solo sys (viewUntil stop) tid k ⟨s, ⟨job, .oFC, so⟩, envs, tr⟩ = icall_soloO stop tid k s job so envs tr := rfl

set_option linter.unusedSimpArgs false
/-- symbolic execution of both sides -/
syntax "icall_eval" "[" Lean.Parser.Tactic.simpLemma,* "]" : tactic
macro_rules
  | `(tactic| icall_eval [$ls,*]) => `(tactic|
  simp only
    [icall_fn_apply, icall_bind_apply, icall_bindK_ok, icall_bindK_nilCall, icall_bindK_panic, icall_bindK_after, icall_bindK_ite,
     icall_ite_apply, icall_pure_apply, icall_wrap_ite, icall_wrap_after, icall_wrap_keep, icall_wrap_unlock,
     icall_snd_mk, icall_snd_after, icall_snd_ite,
     recv_threadSafeConfig_CircuitBreaker_ForceOpen_Get, recv_threadSafeConfig_CircuitBreaker_ForcedClosed_Get, recv_isOpen_Get,
     recv_isOpen_Set, recv_CircuitMetricsCollector_Opened, recv_CircuitMetricsCollector_Closed,
     recv_transitionMu_Lock, recv_transitionMu_Unlock,
     icall_atomicOp_apply, icall_lockOp_apply, icall_deferPrim_apply, icall_Allow_apply, icall_ShouldClose_apply, icall_ShouldOpen_apply,
     icall_Success_apply, icall_ErrFailure_apply, goOr, isNil, recv, Option.isNone_some, Option.isNone_none,
     Bool.false_eq_true, if_false, if_true, icall_ite_not, Bool.not_true, Bool.not_false, Bool.false_or, Bool.true_or, Bool.or_false, Bool.or_true,
     icall_solo_step, icall_solo_zero, label, ↓reduceIte, transLabel, ↓icall_step_trans, Call.step, Trans.step,
     icall_next_some, icall_next_none, icall_next_ite, icall_lab_some, icall_lab_none,
     icall_tstep_some, icall_tstep_none, icall_tstep_ite,
     beq_iff_eq, reduceCtorEq, List.length_nil, List.length_cons,
     Bool.or_eq_false_iff, beq_eq_false_iff_ne, ne_eq, not_false_eq_true, and_self, Bool.or_eq_true, or_true, true_or, or_false, false_or, beq_self_eq_true, silent, $ls,*])

/-- walk the two trees in parallel -/
macro "icall_walk" : tactic => `(tactic|
  repeat' (first
    | (apply icall_Ag_after; intro _ _)
    | (apply icall_Ag_ite <;> intro _)
    | (apply icall_Ag_leaf <;> first | rfl | (simp; done) | (simp; rfl))))

end CM.GoTie.ICall

/- GoTie/T_GoHFacLayers.lean — `Factory.createCloser`, `createOpener`, `Configure`, as translated TODAY from
   closers/hystrix/config.go, hand `CloserFactory` / `OpenerFactory` exactly `layer cs fw`: the per-circuit constructors
   merged from LAST to first (the one appended last wins), then the factory-wide value — field by field; the package
   defaults come after that, inside the returned closure (T_GoHFacCloser / T_GoHFacOpener).  A nil constructor entry is
   Go's nil-call panic.  (C19/C17: precedence of layers; C01–C03: the logic really gets the configured values.) -/
import CircuitModel.GoHfacPrims
import CircuitProofs.GoTie.Sem
import Generated.GoHFacLayers
namespace CM.GoTie.GoHFacLayers
open CM CM.Go CM.GoHFac CM.GoHFac.Layers CM.Generated.GoHFacLayers

theorem goCountdown_succ (k : Nat) : goCountdown ((k + 1 : Nat) : Int) = (k : Int) :: goCountdown (k : Int) := by
  simp [goCountdown, List.range_succ]
theorem goCountdown_zero : goCountdown ((0 : Nat) : Int) = [] := by
  simp [goCountdown]

theorem allSome_snoc {α : Type} (l : List (Option α)) (x : Option α) :
    allSome (l ++ [x]) = match x with
      | none => none
      | some v => (allSome l).map (· ++ [v]) := by
  induction l with
  | nil => cases x <;> rfl
  | cons a l ih =>
    cases a with
    | none => cases x <;> rfl
    | some a =>
      simp only [List.cons_append, allSome, ih]
      cases x with
      | none => rfl
      | some v => cases allSome l <;> rfl

/-- the countdown loop over the first `k` constructors: from index k-1 down to 0, each result merged UNDER what is
    already there; the first nil entry met is the nil-call panic; the Factory is not changed -/
theorem loop_eq {α : Type} (merge : α → α → α) (ctors : List (Option (String → α))) (name : String) (g : GS FW NoTok)
    (call : Int → LYM α) (hcall : ∀ i, call i g = callAt ctors i name g)
    (mm : α → α → LYM α) (hmm : ∀ a b g, mm a b g = (.ok (merge a b), g))
    (k : Nat) (hk : k ≤ ctors.length) (a : α) :
    (forIn (goCountdown (k : Int)) a (fun i r => do let x ← call i; let y ← mm r x; pure (ForInStep.yield y)) : LYM α) g =
      match allSome (ctors.take k) with
      | some fs => (Out.ok ((fs.map (· name)).foldr (fun c acc => merge acc c) a), g)
      | none => (Out.nilCall, g) := by
  induction k generalizing a with
  | zero => rw [goCountdown_zero]; rfl
  | succ k ih =>
    have hk' : k < ctors.length := hk
    rw [goCountdown_succ, List.forIn_cons]
    have ht : ctors.take (k + 1) = ctors.take k ++ [ctors[k]] := by
      rw [List.take_add_one, List.getElem?_eq_getElem hk']; rfl
    rw [ht, allSome_snoc]
    have hc : ctors[(k : Int).toNat]? = some ctors[k] := by simp
    have hneg : ¬ ((k : Int) < 0) := by omega
    cases hck : ctors[k] with
    | none =>
      rw [hck] at hc
      have h1 : (do let x ← call (k : Int); let y ← mm a x; pure (ForInStep.yield y) : LYM (ForInStep α)) g = (.nilCall, g) := by
        refine sem_bind_nilCall _ _ _ _ ?_
        rw [hcall]; simp only [callAt, hneg, if_false, hc]
      exact sem_bind_nilCall _ _ _ _ h1
    | some f =>
      rw [hck] at hc
      have h1 : (do let x ← call (k : Int); let y ← mm a x; pure (ForInStep.yield y) : LYM (ForInStep α)) g
          = (.ok (.yield (merge a (f name))), g) := by
        have : call (k : Int) g = (.ok (f name), g) := by rw [hcall]; simp only [callAt, hneg, if_false, hc]
        rw [sem_bind_ok _ _ _ _ _ this, sem_bind_ok _ _ _ _ _ (hmm _ _ _)]; rfl
      refine (sem_bind_ok _ _ _ _ _ h1).trans ?_
      refine (ih (Nat.le_of_lt hk') _).trans ?_
      cases allSome (ctors.take k) with
      | none => rfl
      | some fs => simp [List.foldr_append]

theorem loop_full {α : Type} (merge : α → α → α) (ctors : List (Option (String → α))) (name : String) (g : GS FW NoTok)
    (call : Int → LYM α) (hcall : ∀ i, call i g = callAt ctors i name g)
    (mm : α → α → LYM α) (hmm : ∀ a b g, mm a b g = (.ok (merge a b), g)) (a : α) :
    (forIn (goCountdown (goLen ctors)) a (fun i r => do let x ← call i; let y ← mm r x; pure (ForInStep.yield y)) : LYM α) g =
      match allSome ctors with
      | some fs => (Out.ok ((fs.map (· name)).foldr (fun c acc => merge acc c) a), g)
      | none => (Out.nilCall, g) := by
  have h := loop_eq merge ctors name g call hcall mm hmm ctors.length (Nat.le_refl _) a
  rw [List.take_length] at h
  exact h

/-- `createCloser(name)`: the closure `CloserFactory` makes for `layerC` of the constructors' results and the factory-wide
    value (last constructor > … > first constructor > factory-wide); a nil constructor is the nil-call panic; the Factory
    is only read -/
theorem go_createCloser_eq (name : String) (g : GS FW NoTok) :
    go_createCloser name g =
      (match allSome g.st.closerCtors with
       | some fs => .ok (Closer.cloOf (layerC (fs.map (· name)) g.st.closerCfg))
       | none => .nilCall, g) := by
  unfold go_createCloser Layers.fn
  refine sem_goFunc_pure _ _ g _ ?_
  have hl := loop_full CCfg.merge g.st.closerCtors name g (fun i => recv_CreateConfigureCloser_call i name) (fun _ => rfl)
    CCfg.m_Merge (fun _ _ _ => rfl) lit_ConfigureCloser
  refine (sem_bind_ok _ _ _ _ _ (sem_rd _ g)).trans ?_
  cases hs : allSome g.st.closerCtors with
  | none =>
    rw [hs] at hl
    exact sem_bind_nilCall _ _ _ _ hl
  | some fs =>
    rw [hs] at hl
    refine (sem_bind_ok _ _ _ _ _ hl).trans ?_
    rfl

/-- `createOpener(name)`: the same for the opener's configuration -/
theorem go_createOpener_eq (name : String) (g : GS FW NoTok) :
    go_createOpener name g =
      (match allSome g.st.openerCtors with
       | some fs => .ok (Opener.cloOf (layerO (fs.map (· name)) g.st.openerCfg))
       | none => .nilCall, g) := by
  unfold go_createOpener Layers.fn
  refine sem_goFunc_pure _ _ g _ ?_
  have hl := loop_full OCfg.merge g.st.openerCtors name g (fun i => recv_CreateConfigureOpener_call i name) (fun _ => rfl)
    OCfg.m_Merge (fun _ _ _ => rfl) lit_ConfigureOpener
  refine (sem_bind_ok _ _ _ _ _ (sem_rd _ g)).trans ?_
  cases hs : allSome g.st.openerCtors with
  | none =>
    rw [hs] at hl
    exact sem_bind_nilCall _ _ _ _ hl
  | some fs =>
    rw [hs] at hl
    refine (sem_bind_ok _ _ _ _ _ hl).trans ?_
    rfl

/-- `Configure(name)`: a config whose ONLY settings are the two factories — the closer's made first, then the opener's
    (a nil closer constructor panics before any opener constructor runs) -/
theorem go_Configure_eq (name : String) (g : GS FW NoTok) :
    go_Configure name g =
      (match allSome g.st.closerCtors, allSome g.st.openerCtors with
       | some cs, some os =>
         .ok { General := { OpenToClosedFactory := Closer.cloOf (layerC (cs.map (· name)) g.st.closerCfg),
                            ClosedToOpenFactory := Opener.cloOf (layerO (os.map (· name)) g.st.openerCfg) } }
       | _, _ => .nilCall, g) := by
  unfold go_Configure Layers.fn
  refine sem_goFunc_pure _ _ g _ ?_
  have hc := go_createCloser_eq name g
  have ho := go_createOpener_eq name g
  cases hcs : allSome g.st.closerCtors with
  | none =>
    rw [hcs] at hc
    exact sem_bind_nilCall _ _ _ _ hc
  | some cs =>
    rw [hcs] at hc
    refine (sem_bind_ok _ _ _ _ _ hc).trans ?_
    cases hos : allSome g.st.openerCtors with
    | none =>
      rw [hos] at ho
      exact sem_bind_nilCall _ _ _ _ ho
    | some os =>
      rw [hos] at ho
      refine (sem_bind_ok _ _ _ _ _ ho).trans ?_
      rfl

/-! ### what `layer` means field by field: the first SET value in precedence order -/

theorem gapI_pick (a : Int) (l : List Int) : gapI a (pickI l) = pickI (a :: l) := by
  by_cases h : a = 0 <;> simp [gapI, pickI, h]
theorem gapF_pick (a : Option Nat) (l : List (Option Nat)) : gapF a (pickF l) = pickF (a :: l) := by
  cases a <;> simp [gapF, pickF]

/-- a field filled by `gap` (a monoid whose unit is the zero value), over the layers in precedence order -/
theorem layer_field {α β : Type} (merge : α → α → α) (zero : α) (p : α → β) (gap : β → β → β) (pick : List β → β)
    (hm : ∀ a b, p (merge a b) = gap (p a) (p b)) (hp : ∀ a l, gap a (pick l) = pick (a :: l))
    (hz : p zero = pick []) (hl : ∀ b, gap (pick []) b = b) (hr : ∀ b, gap b (pick []) = b)
    (hassoc : ∀ a b c, gap (gap a b) c = gap a (gap b c)) (cs : List α) (fw : α) :
    p (layer merge zero cs fw) = pick ((cs.reverse ++ [fw]).map p) := by
  have hA : ∀ (l : List β) (b : β), gap (pick l) b = pick (l ++ [b]) := by
    intro l b
    induction l with
    | nil => rw [hl, List.nil_append, ← hp, hr]
    | cons a l ih => rw [← hp, hassoc, ih, hp]; rfl
  have hB : p (cs.foldr (fun c acc => merge acc c) zero) = pick (cs.reverse.map p) := by
    induction cs with
    | nil => exact hz
    | cons c cs ih => simp only [List.foldr_cons, hm, ih, hA, List.reverse_cons, List.map_append, List.map_cons, List.map_nil]
  unfold layer
  rw [hm, hB, hA]
  simp

theorem gapI_zero_right (b : Int) : gapI b (pickI []) = b := by
  unfold gapI pickI; split <;> simp_all
theorem gapI_assoc (a b c : Int) : gapI (gapI a b) c = gapI a (gapI b c) := by
  unfold gapI; split <;> simp_all
theorem gapF_assoc (a b c : Option Nat) : gapF (gapF a b) c = gapF a (gapF b c) := by
  cases a <;> rfl

/-- the sleep window the closer gets: the LAST constructor that sets one, else an earlier one, else the factory-wide
    value (else 0: the package default is filled in by the closure `CloserFactory` returns) -/
theorem layerC_SleepWindow (cs : List CCfg) (fw : CCfg) :
    (layerC cs fw).f_SleepWindow = pickI ((cs.reverse ++ [fw]).map (·.f_SleepWindow)) :=
  layer_field CCfg.merge {} (·.f_SleepWindow) gapI pickI (fun _ _ => rfl) gapI_pick rfl (fun _ => rfl) gapI_zero_right gapI_assoc cs fw
theorem layerC_HalfOpenAttempts (cs : List CCfg) (fw : CCfg) :
    (layerC cs fw).f_HalfOpenAttempts = pickI ((cs.reverse ++ [fw]).map (·.f_HalfOpenAttempts)) :=
  layer_field CCfg.merge {} (·.f_HalfOpenAttempts) gapI pickI (fun _ _ => rfl) gapI_pick rfl (fun _ => rfl) gapI_zero_right gapI_assoc cs fw
theorem layerC_RequiredConcurrentSuccessful (cs : List CCfg) (fw : CCfg) :
    (layerC cs fw).f_RequiredConcurrentSuccessful = pickI ((cs.reverse ++ [fw]).map (·.f_RequiredConcurrentSuccessful)) :=
  layer_field CCfg.merge {} (·.f_RequiredConcurrentSuccessful) gapI pickI (fun _ _ => rfl) gapI_pick rfl (fun _ => rfl) gapI_zero_right gapI_assoc cs fw
theorem layerC_AfterFunc (cs : List CCfg) (fw : CCfg) :
    (layerC cs fw).f_AfterFunc = pickF ((cs.reverse ++ [fw]).map (·.f_AfterFunc)) :=
  layer_field CCfg.merge {} (·.f_AfterFunc) gapF pickF (fun _ _ => rfl) gapF_pick rfl (fun _ => rfl) (fun b => by cases b <;> rfl) gapF_assoc cs fw
theorem layerO_ErrorThresholdPercentage (cs : List OCfg) (fw : OCfg) :
    (layerO cs fw).f_ErrorThresholdPercentage = pickI ((cs.reverse ++ [fw]).map (·.f_ErrorThresholdPercentage)) :=
  layer_field OCfg.merge {} (·.f_ErrorThresholdPercentage) gapI pickI (fun _ _ => rfl) gapI_pick rfl (fun _ => rfl) gapI_zero_right gapI_assoc cs fw
theorem layerO_RequestVolumeThreshold (cs : List OCfg) (fw : OCfg) :
    (layerO cs fw).f_RequestVolumeThreshold = pickI ((cs.reverse ++ [fw]).map (·.f_RequestVolumeThreshold)) :=
  layer_field OCfg.merge {} (·.f_RequestVolumeThreshold) gapI pickI (fun _ _ => rfl) gapI_pick rfl (fun _ => rfl) gapI_zero_right gapI_assoc cs fw
theorem layerO_RollingDuration (cs : List OCfg) (fw : OCfg) :
    (layerO cs fw).f_RollingDuration = pickI ((cs.reverse ++ [fw]).map (·.f_RollingDuration)) :=
  layer_field OCfg.merge {} (·.f_RollingDuration) gapI pickI (fun _ _ => rfl) gapI_pick rfl (fun _ => rfl) gapI_zero_right gapI_assoc cs fw
theorem layerO_NumBuckets (cs : List OCfg) (fw : OCfg) :
    (layerO cs fw).f_NumBuckets = pickI ((cs.reverse ++ [fw]).map (·.f_NumBuckets)) :=
  layer_field OCfg.merge {} (·.f_NumBuckets) gapI pickI (fun _ _ => rfl) gapI_pick rfl (fun _ => rfl) gapI_zero_right gapI_assoc cs fw
theorem layerO_Now (cs : List OCfg) (fw : OCfg) :
    (layerO cs fw).f_Now = pickF ((cs.reverse ++ [fw]).map (·.f_Now)) :=
  layer_field OCfg.merge {} (·.f_Now) gapF pickF (fun _ _ => rfl) gapF_pick rfl (fun _ => rfl) (fun b => by cases b <;> rfl) gapF_assoc cs fw

/-! ### non-vacuity: three closer constructors (the last sets nothing, the middle one wins over the first), a factory-wide
    value that only fills what no constructor set -/
def exFW : FW :=
  { closerCfg := { f_SleepWindow := 7, f_HalfOpenAttempts := 70 }, closerCtors := [some (fun _ => { f_SleepWindow := 1, f_RequiredConcurrentSuccessful := 11 }), some (fun n => { f_SleepWindow := 2, f_AfterFunc := some n.length }), some (fun _ => {})], openerCfg := { f_NumBuckets := 3 }, openerCtors := [some (fun _ => { f_NumBuckets := 5, f_RollingDuration := 9 }), some (fun _ => { f_RollingDuration := 4 })] }
example : (Go.run (go_createCloser "abc") exFW).1 =
    .ok (Closer.cloOf { f_AfterFunc := some 3, f_SleepWindow := 2, f_HalfOpenAttempts := 70, f_RequiredConcurrentSuccessful := 11 }) := by decide
example : (Go.run (go_createOpener "abc") exFW).1 = .ok (Opener.cloOf { f_NumBuckets := 5, f_RollingDuration := 4 }) := by decide
example : (Go.run (go_createCloser "abc") { exFW with closerCtors := exFW.closerCtors ++ [none] }).1 = .nilCall := by decide

end CM.GoTie.GoHFacLayers

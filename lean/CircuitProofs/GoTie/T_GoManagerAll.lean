/- GoTie/T_GoManagerAll.lean — `Manager.AllCircuits`, as translated TODAY from manager.go: under the read lock (taken once,
   released once, on the way out), one pass over the registry map, every value appended once — so the result holds exactly
   the registered circuits, in the order the map's iteration happened to have (Go leaves it unspecified: a permutation). -/
import CircuitModel.GoCtorPrims
import CircuitProofs.GoTie.Basic
import CircuitProofs.GoTie.Sem
import Generated.GoManagerAll
set_option linter.unusedSimpArgs false
namespace CM.GoTie.GoManagerAll
open CM CM.Go CM.Mgr CM.GoManagerAll CM.Generated.GoManagerAll

theorem foldl_snoc {α : Type} (l acc : List α) : l.foldl (fun a c => a ++ [c]) acc = acc ++ l := by
  induction l generalizing acc with
  | nil => simp
  | cons c l ih => simp [ih]

/-- the circuits a `range` over the map meets -/
def visited (w : AllW) : List CircP := (w.order w.s.circuits).map fun e => some e.2

/-- `h.AllCircuits()`: nil on a nil manager (nothing touched); otherwise the values of the map in iteration order, each once,
    the registry unchanged, one `RLock` and one (deferred) `RUnlock`. -/
theorem go_AllCircuits_eq (recv : Recv) (g : GS AllW String) :
    go_AllCircuits recv g =
      if recv.isNilPtr then (.ok [], g)
      else (.ok (visited g.st), { g with st := { g.st with rlocks := g.st.rlocks + 1, runlocks := g.st.runlocks + 1 } }) := by
  rw [go_AllCircuits, fn, sem_goFunc_def]
  rcases recv with ⟨_ | _⟩
  · -- a live manager
    have hb : ∀ m : AM (List CircP), (if isNil (Recv.mk false) = true then m else do
          let __do_lift ← recv_mu_RLock
          have x : Unit := __do_lift
          let __do_lift ← deferPrim "recv_mu_RUnlock"
          have x : Unit := __do_lift
          let ret : List CircP := []
          let __do_lift ← recv_circuitMap
          let r ← forIn __do_lift ret fun c r => do
              let ret : List CircP := r
              let ret : List CircP := ret ++ [c]
              pure PUnit.unit
              pure (ForInStep.yield ret)
          let ret : List CircP := r
          pure ret) g
        = (.ok (visited g.st), { st := { g.st with rlocks := g.st.rlocks + 1 }, defers := "recv_mu_RUnlock" :: g.defers }) := by
      intro m
      refine (sem_bind_ok _ _ _ _ _ (rfl : recv_mu_RLock g = (.ok (), _))).trans ?_
      refine (sem_bind_ok _ _ _ _ _ (sem_pushDefer "recv_mu_RUnlock" _)).trans ?_
      refine (sem_bind_ok _ _ _ _ _ (sem_rd _ _)).trans ?_
      refine (sem_bind_ok _ _ _ _ _ (sem_forIn_accG _ (fun (a : List CircP) c => a ++ [c]) (fun _ _ _ => rfl) _ _ _)).trans ?_
      rw [foldl_snoc]
      rfl
    rw [hb]
    simp only [List.length_cons]
    rw [gt_unwind_one _ _ _ _ _ rfl]
    rfl
  · -- a nil manager
    have hb : ∀ m : AM (List CircP), (if isNil (Recv.mk true) = true then (pure GoNil.nil : AM (List CircP)) else m) g = (.ok [], g) := by
      intro m; rfl
    rw [hb]
    simp only [gt_unwind_self]
    rfl

/-- whatever order the iteration has, as long as it is a permutation of the entries (it is, in Go): the result is a
    permutation of the registered circuits — none missing, none twice, none invented. -/
theorem allCircuits_perm (g : GS AllW String) (hperm : (g.st.order g.st.s.circuits).Perm g.st.s.circuits) :
    (visited g.st).Perm (g.st.s.circuits.map fun e => some e.2) := hperm.map _

/-- insertion sort does not see the order of its input -/
theorem insertNat_comm (x y : Nat) (l : List Nat) : insertNat x (insertNat y l) = insertNat y (insertNat x l) := by
  induction l with
  | nil =>
    simp only [insertNat]
    by_cases h1 : x ≤ y <;> by_cases h2 : y ≤ x <;> simp [insertNat, h1, h2] <;> omega
  | cons z l ih =>
    simp only [insertNat]
    by_cases hy : y ≤ z <;> by_cases hx : x ≤ z <;> simp only [hy, hx, if_true, if_false, insertNat]
    · by_cases h1 : x ≤ y <;> by_cases h2 : y ≤ x <;> simp [h1, h2, hx, hy] <;> omega
    · have : ¬ x ≤ y := by omega
      simp [this, hy]
    · have : ¬ y ≤ x := by omega
      simp [this, hx]
    · simp [ih]

theorem sortNat_perm {l1 l2 : List Nat} (h : l1.Perm l2) : sortNat l1 = sortNat l2 := by
  induction h with
  | nil => rfl
  | cons x _ ih => simp [sortNat, ih]
  | swap x y l => simp only [sortNat]; exact insertNat_comm _ _ _
  | trans _ _ ih1 ih2 => exact ih1.trans ih2

/-- … so the sorted identities of what `AllCircuits` returns are what the model's `Mgr.step s .all` reports (the form in
    which C17's theorems and the sequential differential speak about it). -/
theorem allCircuits_sorted_ids (g : GS AllW String) (hperm : (g.st.order g.st.s.circuits).Perm g.st.s.circuits) :
    Mgr.Out.all (sortNat ((visited g.st).filterMap fun c => c.map (·.id))) = (Mgr.step g.st.s .all).2 := by
  simp only [Mgr.step, visited]
  congr 1
  apply sortNat_perm
  have : (List.map (fun e => some e.2) (g.st.order g.st.s.circuits)).filterMap (fun c => c.map (·.id))
      = (g.st.order g.st.s.circuits).map (·.2.id) := by
    simp [List.filterMap_map, Function.comp_def]
  rw [this]
  exact hperm.map _

/-- non-vacuity: three registered circuits met in reverse order: all three, each once, lock taken and released -/
example :
    let w : AllW := { s := { ctors := [], circuits := [("a", ⟨0, {}, none⟩), ("b", ⟨1, {}, none⟩), ("c", ⟨2, {}, none⟩)] }, order := List.reverse }
    let r := run (go_AllCircuits ⟨false⟩) w
    r.1 = .ok [some ⟨2, {}, none⟩, some ⟨1, {}, none⟩, some ⟨0, {}, none⟩] ∧ r.2.rlocks = 1 ∧ r.2.runlocks = 1 ∧ r.2.stuck = false := by
  decide
example : (run (go_AllCircuits ⟨true⟩) { s := { ctors := [] } }).1 = .ok [] := by decide

end CM.GoTie.GoManagerAll

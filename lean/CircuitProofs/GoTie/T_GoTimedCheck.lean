/- GoTie/T_GoTimedCheck.lean — faststats.TimedCheck's methods, as translated TODAY from timedcheck.go
   (Generated/GoTimedCheck/F_*.lean), compute the model `TC` (TimedCheck.lean): `SleepStart` / `resetOpenTimeWithLock`
   = `TC.resetOpen`, `Check` = `TC.check`, the two setters, and the timer callback = `TC.fire`. -/
import CircuitModel.GoTimedCheckPrims
import Generated.GoTimedCheck
namespace CM.GoTie.GoTimedCheck
open CM CM.Go CM.GoTimedCheck CM.Generated.GoTimedCheck

theorem tc_unwind_le (h n : Nat) (g : GS TCW String) (hle : g.defers.length ≤ h) : unwind runTok h n g = g := by
  cases n with
  | zero => rfl
  | succ n => simp [unwind, hle]

/-- the model's `resetOpen` is what `TCW.reset` does to the `tc` part -/
theorem reset_tc (w : TCW) (now : Int) : (w.reset now).tc = w.tc.resetOpen now := rfl

/-- … and it keeps the recorded closures in step with the model's armed versions -/
theorem reset_inv (w : TCW) (now : Int) (h : w.Inv) : (w.reset now).Inv := by
  unfold TCW.Inv at h ⊢
  simp [TCW.reset, TC.resetOpen, h]

theorem go_resetOpenTimeWithLock_eq (now : Int) :
    go_resetOpenTimeWithLock now = fun g => (.ok (), { g with st := g.st.reset now }) := by
  funext g
  simp only [go_resetOpenTimeWithLock, fn, goFunc]
  rcases g with ⟨⟨tc, timer, clos, stuck⟩, defers⟩
  cases timer <;>
    simp [bind, pure, isNil, GoNil.nil, recv_lastSetTimer, recv_lastSetTimer_Stop, recv_lastSetTimer_set,
      recv_nextOpenTime_set, recv_sleepDuration_Duration, recv_currentlyAllowedEventCount_set, recv_isFastFail_Set,
      recv_isFailFastVersion_Add, recv_afterFunc, onTC, rdTC, Int.m_Add, tc_unwind_le, TCW.reset, TC.resetOpen, cloFor]

theorem go_SleepStart_eq (now : Int) : go_SleepStart now = fun g => (.ok (), { g with st := g.st.reset now }) := by
  funext g
  simp only [go_SleepStart, fn, goFunc, go_resetOpenTimeWithLock_eq]
  simp [bind, pure, recv_mu_Lock, recv_mu_Unlock, tc_unwind_le]

theorem go_SetSleepDuration_eq (d : Int) : go_SetSleepDuration d = onTC (fun c => { c with sleep := d }) := by
  funext g
  simp only [go_SetSleepDuration, fn, goFunc]
  simp [bind, pure, recv_sleepDuration_Set, onTC, Int.m_Nanoseconds, tc_unwind_le]

theorem go_SetEventCountToAllow_eq (k : Int) : go_SetEventCountToAllow k = onTC (fun c => { c with allow := k }) := by
  funext g
  simp only [go_SetEventCountToAllow, fn, goFunc]
  simp [bind, pure, recv_eventCountToAllow_Set, onTC, tc_unwind_le]

theorem runTok_unlock : runTok "recv_mu_Unlock" = pure () := rfl

/-- the one deferred `Unlock` of `Check` is popped by the unwinding -/
theorem tc_unwind_unlock (h n : Nat) (st : TCW) (rest : List String) (hle : rest.length = h) :
    unwind runTok h (n + 1) { st := st, defers := "recv_mu_Unlock" :: rest } = { st := st, defers := rest } := by
  subst hle
  rw [unwind]
  simp only [List.length_cons, runTok_unlock]
  rw [if_neg (by omega)]
  exact tc_unwind_le _ _ _ (Nat.le_refl _)

/-- a function body whose result is known: only the unwinding is left -/
theorem goFunc_of {α : Type} {body : TM α} {g : GS TCW String} {r : Out α × GS TCW String} (h : body g = r) :
    goFunc runTok body g = (r.1, unwind runTok g.defers.length r.2.defers.length r.2) := by
  subst h; rfl

/-- `Check(now)` in closed form -/
theorem go_Check_val (now : Int) (g : GS TCW String) :
    go_Check now g =
      if g.st.tc.fastFail then (.ok false, g)
      else if g.st.tc.nextAfter now then (.ok false, g)
      else if g.st.tc.count + 1 ≥ g.st.tc.allow then
        (.ok true, { g with st := TCW.reset { g.st with tc := { g.st.tc with count := g.st.tc.count + 1 } } now })
      else (.ok true, { g with st := { g.st with tc := { g.st.tc with count := g.st.tc.count + 1 } } }) := by
  unfold go_Check fn
  simp only [go_resetOpenTimeWithLock_eq]
  rw [goFunc_of (r := if g.st.tc.fastFail then (.ok false, g)
      else if g.st.tc.nextAfter now then (.ok false, g)
      else if g.st.tc.count + 1 ≥ g.st.tc.allow then
        (.ok true, { st := TCW.reset { g.st with tc := { g.st.tc with count := g.st.tc.count + 1 } } now,
                     defers := "recv_mu_Unlock" :: g.defers })
      else (.ok true, { st := { g.st with tc := { g.st.tc with count := g.st.tc.count + 1 } },
                        defers := "recv_mu_Unlock" :: g.defers }))]
  · by_cases hf : g.st.tc.fastFail = true
    · simp [hf, tc_unwind_le]
    · by_cases hn : g.st.tc.nextAfter now = true
      · simp [hf, hn, tc_unwind_le]
      · by_cases hc : g.st.tc.count + 1 ≥ g.st.tc.allow
        · simp [hf, hn, hc, tc_unwind_unlock]
        · simp [hf, hn, hc, tc_unwind_unlock]
  · rcases g with ⟨⟨tc, timer, clos, stuck⟩, defers⟩
    cases hf : tc.fastFail
    · cases hn : tc.nextAfter now
      · by_cases hc : tc.count + 1 ≥ tc.allow
        · simp [bind, pure, recv_isFastFail_Get, recv_mu_RLock, recv_mu_RUnlock, recv_mu_Lock, recv_nextOpenTime_After,
            recv_currentlyAllowedEventCount_set, recv_currentlyAllowedEventCount, recv_eventCountToAllow_Get,
            deferPrim, Go.pushDefer, onTC, rdTC, hf, hn, hc]
        · simp [bind, pure, recv_isFastFail_Get, recv_mu_RLock, recv_mu_RUnlock, recv_mu_Lock, recv_nextOpenTime_After,
            recv_currentlyAllowedEventCount_set, recv_currentlyAllowedEventCount, recv_eventCountToAllow_Get,
            deferPrim, Go.pushDefer, onTC, rdTC, hf, hn, hc]
      · simp [bind, pure, recv_isFastFail_Get, recv_mu_RLock, recv_mu_RUnlock, recv_nextOpenTime_After,
          rdTC, hf, hn]
    · simp [bind, pure, recv_isFastFail_Get, rdTC, hf]

/-- `Check(now)`: the answer and the gate afterwards are the model's `TC.check`; a re-arming records its closure -/
theorem go_Check_eq (now : Int) (g : GS TCW String) :
    (go_Check now g).1 = .ok (g.st.tc.check now).2 ∧ (go_Check now g).2.st.tc = (g.st.tc.check now).1 ∧
    (go_Check now g).2.defers = g.defers ∧ (go_Check now g).2.st.stuck = g.st.stuck ∧
    (g.st.Inv → (go_Check now g).2.st.Inv) := by
  rw [go_Check_val]
  by_cases hf : g.st.tc.fastFail = true
  · simp [hf, TC.check]
  · by_cases hn : g.st.tc.nextAfter now = true
    · simp [hf, hn, TC.check]
    · by_cases hc : g.st.tc.count + 1 ≥ g.st.tc.allow
      · simp only [Bool.not_eq_true] at hf hn
        simp [hf, hn, hc, TC.check]
        refine ⟨rfl, rfl, fun h => reset_inv _ _ ?_⟩
        exact h
      · simp only [Bool.not_eq_true] at hf hn
        simp [hf, hn, hc, TC.check]
        exact fun h => h

theorem go_apply_cloFor (v : Int) : go_resetOpenTimeWithLock_apply (cloFor v) = go_resetOpenTimeWithLock_lit1 v := rfl

/-- the callback's body in closed form -/
theorem go_lit1_val (v : Int) (g : GS TCW String) :
    go_resetOpenTimeWithLock_lit1 v g =
      (.ok (), if v = g.st.tc.version then { g with st := { g.st with tc := { g.st.tc with fastFail := false } } } else g) := by
  simp only [go_resetOpenTimeWithLock_lit1, fn, goFunc]
  by_cases hv : v = g.st.tc.version
  · simp [bind, pure, recv_isFailFastVersion_Get, recv_isFastFail_Set, onTC, rdTC, hv, tc_unwind_le]
  · simp [bind, pure, recv_isFailFastVersion_Get, rdTC, hv, tc_unwind_le]

/-- the timer callback: running the k-th recorded closure is the model's `fire k` -/
theorem go_fire_eq (k : Nat) (g : GS TCW String) (h : g.st.Inv) (c : Clo) (hk : g.st.clos[k]? = some c) :
    (go_resetOpenTimeWithLock_apply c g).1 = .ok () ∧ (go_resetOpenTimeWithLock_apply c g).2.st.tc = g.st.tc.fire k ∧
    (go_resetOpenTimeWithLock_apply c g).2.st.clos = g.st.clos ∧ (go_resetOpenTimeWithLock_apply c g).2.st.stuck = g.st.stuck ∧
    (go_resetOpenTimeWithLock_apply c g).2.defers = g.defers := by
  unfold TCW.Inv at h
  rw [h, List.getElem?_map] at hk
  cases hv : g.st.tc.armed[k]? with
  | none => simp [hv] at hk
  | some v =>
    simp only [hv, Option.map_some, Option.some.injEq] at hk
    subst hk
    rw [go_apply_cloFor, go_lit1_val]
    by_cases hvv : v = g.st.tc.version
    · simp [TC.fire, hv, hvv]
    · simp [TC.fire, hv, hvv]

end CM.GoTie.GoTimedCheck

/- GoTie/T_GoFanFbVar.lean — `FallbackMetricsCollection.Var()`, as translated TODAY from metrics.go: word for word the run
   collection's (T_GoFanRunVar): the call computes nothing, the function value closes over the slice value; EVALUATING it asks
   every collector that has a `Var()`, in slice order, at that moment, and keeps the non-nil results in that order.  This is
   the circuit's "fallback_metrics" entry (C20, C11). -/
import CircuitModel.GoVarsPrims
import CircuitProofs.GoTie.Sem
import CircuitProofs.GoTie.T_GoFanRunVar
import Generated.GoFanFbVar
namespace CM.GoTie.GoFanFbVar
open CM CM.Go CM.GoVars CM.GoVars.Fan CM.GoTie.GoFanVar CM.Generated.GoFanFbVar

/-- today the two bodies are the same term -/
theorem same_as_run : @go_Var_lit1 = @CM.Generated.GoFanRunVar.go_Var_lit1 ∧ @go_Var = @CM.Generated.GoFanRunVar.go_Var
    ∧ @go_Var_lit1_eval = @CM.Generated.GoFanRunVar.go_Var_lit1_eval := ⟨rfl, rfl, rfl⟩

/-- `r.Var()` computes nothing: no collector is asked anything; the result is the function value over the slice value. -/
theorem go_Var_eq (r : List CollP) (g : GS FanW NoTok) : go_Var r g = (.ok ⟨"Var_lit1", r, []⟩, g) :=
  CM.GoTie.GoFanRunVar.go_Var_eq r g

/-- EVALUATING it: every collector of the slice that has a `Var()` is evaluated ONCE, in slice order, in the state of the
    moment; the result is the list of the non-nil results in that order (`fanSummary`). -/
theorem go_Var_eval_eq (r : List CollP) (g : GS FanW NoTok) :
    go_Var_lit1_eval ⟨"Var_lit1", r, []⟩ g
      = (.ok (fanSummary g.st.view r), addEvals g ((r.filter (·.varable)).map (·.id))) :=
  CM.GoTie.GoFanRunVar.go_Var_eval_eq r g

/-- **The handle follows the collectors' history** -/
theorem var_follows_history (r : List CollP) (g₀ : GS FanW NoTok) (view : Nat → EV) :
    ∀ c, (go_Var r g₀).1 = .ok c → (go_Var_lit1_eval c { g₀ with st := { g₀.st with view := view } }).1 = .ok (fanSummary view r) :=
  CM.GoTie.GoFanRunVar.var_follows_history r g₀ view

/-! ### non-vacuity: one fallback collector (a FallbackStats, say), read twice -/
def fw : FanW := { view := fun _ => .map [("Successes", .int 0)] }
def cl : List CollP := [⟨0, true⟩]
example : (Go.run (go_Var cl) fw).1 = .ok ⟨"Var_lit1", cl, []⟩ := by decide
example : (Go.run (go_Var_lit1_eval ⟨"Var_lit1", cl, []⟩) fw).1 = .ok (.list [.map [("Successes", .int 0)]]) := rfl
example : (Go.run (go_Var_lit1_eval ⟨"Var_lit1", cl, []⟩) { fw with view := fun _ => .map [("Successes", .int 2)] }).1
    = .ok (.list [.map [("Successes", .int 2)]]) := rfl
example : (Go.run (go_Var_lit1_eval ⟨"Var_lit1", [], []⟩) fw).1 = .ok (.list []) := rfl

end CM.GoTie.GoFanFbVar

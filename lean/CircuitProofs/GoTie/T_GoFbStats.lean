/- GoTie/T_GoFbStats.lean — rolling.FallbackStats' methods are the model's `Cons.FbStats` functions.
   Every theorem says: the method body as translated TODAY from the Go source (Generated/GoFbStats/F_*.lean) computes the
   model's function. -/
import CircuitProofs.GoTie.Sem
import Generated.GoFbStats
set_option linter.unusedSimpArgs false
namespace CM.GoTie.GoFbStats
open CM CM.Cons CM.Go CM.GoFbStats CM.Generated.GoFbStats

theorem go_Success_eq (u : Unit) (t d : Int) : go_Success u t d = upd (fun s => s.onFb .success t) := by
  funext g
  rw [go_Success, fn, sem_goFunc_noDefer] <;>
  simp [bind, recv_Successes_Inc, recv_ErrConcurrencyLimitRejects_Inc, recv_ErrFailures_Inc, FbStats.onFb]

theorem go_ErrFailure_eq (u : Unit) (t d : Int) : go_ErrFailure u t d = upd (fun s => s.onFb .failure t) := by
  funext g
  rw [go_ErrFailure, fn, sem_goFunc_noDefer] <;>
  simp [bind, recv_Successes_Inc, recv_ErrConcurrencyLimitRejects_Inc, recv_ErrFailures_Inc, FbStats.onFb]

theorem go_ErrConcurrencyLimitReject_eq (u : Unit) (t : Int) : go_ErrConcurrencyLimitReject u t = upd (fun s => s.onFb .reject t) := by
  funext g
  rw [go_ErrConcurrencyLimitReject, fn, sem_goFunc_noDefer] <;>
  simp [bind, recv_Successes_Inc, recv_ErrConcurrencyLimitRejects_Inc, recv_ErrFailures_Inc, FbStats.onFb]

end CM.GoTie.GoFbStats

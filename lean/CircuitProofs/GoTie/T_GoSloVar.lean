/- GoTie/T_GoSloVar.lean — `(*Tracker).Var()`, as translated TODAY from metrics/responsetimeslo/responsetime.go: the call
   computes nothing; EVALUATING the function value reads the tracker's CURRENT config (`Config()`, unit GoSloCfg) and the two
   counters `MeetsSLOCount` / `FailsSLOCount` of that moment — "pass" is the passes, "fail" the fails (C20), and a handle
   obtained once follows later verdicts and later `SetConfigThreadSafe` calls (C11). -/
import CircuitModel.GoVarsPrims
import CircuitProofs.GoTie.Sem
import Generated.GoSloVar
namespace CM.GoTie.GoSloVar
open CM CM.Go CM.Cons CM.GoSloCfg CM.GoVars CM.GoVars.Slo CM.Generated.GoSloVar

/-- the function value `Var()` returns -/
def theClo : CloV := ⟨"Var_lit1", (), []⟩

/-- `r.Var()` computes nothing: the state is untouched, the result is the function value over the receiver alone. -/
theorem go_Var_eq (g : GS W NoTok) : go_Var g = (.ok theClo, g) := by
  unfold go_Var Slo.fn
  apply sem_goFunc_pure
  rfl

/-- EVALUATING it yields the config and the two counts of the state of THAT moment, and changes nothing. -/
theorem go_Var_eval_eq (g : GS W NoTok) : go_Var_lit1_eval theClo g = (.ok (sloSummary g.st), g) := by
  show go_Var_lit1 g = _
  unfold go_Var_lit1 Slo.fn
  apply sem_goFunc_pure
  rfl

/-- "pass" is the number of passes and "fail" the number of fails (not the other way round), "config" the stored config -/
theorem sloSummary_lookup (w : W) :
    (sloSummary w).lookup "pass" = some (.int w.slo.pass) ∧ (sloSummary w).lookup "fail" = some (.int w.slo.fail) ∧
    (sloSummary w).lookup "config" = some (.handle "responsetimeslo.Config" (w.config.getD ⟨0, 0⟩).tag) := ⟨rfl, rfl, rfl⟩

/-- **The handle follows the object's history**: taken in `g₀`, evaluated after any history that left the tracker in `w`, it
    publishes `w`'s counts and config. -/
theorem var_follows_history (g₀ : GS W NoTok) (w : W) :
    ∀ c, (go_Var g₀).1 = .ok c → (go_Var_lit1_eval c { g₀ with st := w }).1 = .ok (sloSummary w) := by
  intro c hc
  rw [go_Var_eq] at hc
  cases Out.ok.inj hc
  rw [go_Var_eval_eq]

/-- … concretely: evaluate, let one run event of kind `k` with duration `d` reach the tracker (the model's `Slo.onRun`, to
    which the translated callbacks are tied in T_GoSlo), evaluate the SAME handle again: the second reading shows the verdict. -/
theorem second_reading_counts_the_event (g : GS W NoTok) (k : Kind) (d : Int) :
    (go_Var_lit1_eval theClo { g with st := { g.st with slo := g.st.slo.onRun k d } }).1
      = .ok (.map [("config", .handle "responsetimeslo.Config" (g.st.config.getD ⟨0, 0⟩).tag),
                   ("pass", .int (g.st.slo.onRun k d).pass), ("fail", .int (g.st.slo.onRun k d).fail)]) := by
  rw [go_Var_eval_eq]
  rfl

/-! ### non-vacuity -/
def sw : W := { slo := { maxHealthy := 100, pass := 3, fail := 1 }, config := some ⟨7, 100⟩ }
example : (Go.run go_Var sw).1 = .ok theClo := by decide
example : (Go.run (go_Var_lit1_eval theClo) sw).1
    = .ok (.map [("config", .handle "responsetimeslo.Config" 7), ("pass", .int 3), ("fail", .int 1)]) := rfl
/-- a slow success (150 > 100) arrives, and the tracker is reconfigured: the OLD handle shows fail = 2 and config #8 -/
example : (Go.run (go_Var_lit1_eval theClo) { slo := sw.slo.onRun .success 150, config := some ⟨8, 200⟩ }).1
    = .ok (.map [("config", .handle "responsetimeslo.Config" 8), ("pass", .int 3), ("fail", .int 2)]) := rfl
/-- a tracker that was never configured publishes Go's zero config -/
example : (Go.run (go_Var_lit1_eval theClo) { slo := { maxHealthy := 0 }, config := none }).1
    = .ok (.map [("config", .handle "responsetimeslo.Config" 0), ("pass", .int 0), ("fail", .int 0)]) := rfl
example : (Go.run (go_Var_lit1_eval ⟨"other", (), []⟩) sw).1 = .nilCall := rfl

end CM.GoTie.GoSloVar

/- GoTie/T_GoNewRP.lean — `NewRollingPercentile`, `makeBuckets`, `newDurationsBucket`, as translated TODAY from
   faststats/rolling_percentile.go, build the model's `RP.new`: `numBuckets` slots, EACH over its own newly made buffer of
   exactly `bucketSize` zero cells with cursor 0 (C15's initial state: "keeping per bucket the most recent BucketSize values"
   needs a buffer of that length per bucket, shared with no other bucket). -/
import CircuitModel.GoFsnewPrims
import CircuitProofs.GoTie.Sem
import CircuitProofs.GoTie.T_GoNewRC
import Generated.GoNewRP
namespace CM.GoTie.GoNewRP
open CM CM.Go CM.GoFsNew CM.GoFsNew.H CM.Generated.GoNewRP CM.GoTie.GoNewRC

/-! ### helpers -/

/-- a loop that threads an accumulator AND changes the state, its body always running to the end -/
theorem fsnew_forIn_both {σ tok α β : Type} (f : α → β → M σ tok (ForInStep β)) (F : α → β × GS σ tok → β × GS σ tok)
    (h : ∀ c b s, f c b s = (.ok (.yield (F c (b, s)).1), (F c (b, s)).2)) (l : List α) (b : β) (g : GS σ tok) :
    forIn l b f g = (.ok (l.foldl (fun p c => F c p) (b, g)).1, (l.foldl (fun p c => F c p) (b, g)).2) := by
  induction l generalizing b g with
  | nil => rfl
  | cons c l ih =>
    rw [List.forIn_cons, sem_bind_step, h, sem_step_ok]
    exact ih _ _

theorem fsnew_goRange_natCast (k : Nat) : goRange (k : Int) = (List.range k).map Int.ofNat := by
  simp [goRange]

theorem fsnew_grow_grow (h : Heap) (k size : Nat) : (h.grow k size).grow 1 size = h.grow (k + 1) size := by
  simp [Heap.grow, List.replicate_succ', List.append_assoc]

theorem fsnew_grow_length (h : Heap) (k size : Nat) : (h.grow k size).cells.length = h.cells.length + k := by
  simp [Heap.grow]

/-- one trip of `makeBuckets`' loop -/
def fsnew_fillStep (size : Int) (i : Int) (p : List durationsBucket × GS Heap NoTok) : List durationsBucket × GS Heap NoTok :=
  (goSet p.1 i (newSlot size p.2.st.cells.length), { st := p.2.st.grow 1 size.toNat, defers := p.2.defers })

/-- `makeBuckets`' loop: after `k` trips the first `k` entries are the new slots over arrays `K, K+1, …`, the rest still zero
    buckets, and `k` arrays have been made -/
theorem fsnew_fill_fold (size : Int) (N : Nat) (g : GS Heap NoTok) : ∀ k, k ≤ N →
    ((List.range k).map Int.ofNat).foldl (fun p i => fsnew_fillStep size i p)
        (List.replicate N ({} : durationsBucket), g)
      = ((List.range k).map (fun i => newSlot size (g.st.cells.length + i)) ++ List.replicate (N - k) ({} : durationsBucket),
         { g with st := g.st.grow k size.toNat }) := by
  intro k
  induction k with
  | zero =>
    intro _
    simp [Heap.grow]
  | succ k ih =>
    intro hk
    rw [List.range_succ, List.map_append, List.foldl_append, ih (by omega)]
    simp only [List.map_cons, List.map_nil, List.foldl_cons, List.foldl_nil, fsnew_fillStep, goSet]
    have e : N - k = (N - (k + 1)) + 1 := by omega
    rw [e, List.replicate_succ]
    have hl : ((List.range k).map (fun i => newSlot size (g.st.cells.length + i))).length = k := by simp
    rw [show (Int.ofNat k).toNat = k from rfl]
    rw [List.set_append_right _ _ (by omega), hl, Nat.sub_self, List.set_cons_zero]
    rw [fsnew_grow_grow, fsnew_grow_length, List.map_append, List.append_assoc]
    rfl

/-! ### the ties -/

/-- `newDurationsBucket(size)`: ONE new array of `size` zero cells, cursor 0 (a negative size is `make`'s runtime panic). -/
theorem go_newDurationsBucket_eq (size : Int) :
    go_newDurationsBucket size = construct (size < 0) (newSlot size) 1 size.toNat := by
  funext g
  unfold go_newDurationsBucket fn construct
  by_cases hn : size < 0
  · rw [if_pos hn]
    apply sem_goFunc_pure
    rw [sem_bind_step, fsnew_make_neg size hn, fsnew_step_nilCall]
  · rw [if_neg hn]
    apply sem_goFunc_st _ _ g _ (g.st.grow 1 size.toNat)
    rw [sem_bind_step, fsnew_make_nonneg size hn, sem_step_ok, sem_pure]
    rfl

/-- `makeBuckets(n, size)`: `n` new arrays of `size` zero cells each; slot `i` is over array number `k + i` — its own — with
    cursor 0.  A negative `n`, or a negative `size` when there is at least one bucket to make, is a runtime panic. -/
theorem go_makeBuckets_eq (n size : Int) :
    go_makeBuckets n size = construct (n < 0 ∨ (0 < n ∧ size < 0)) (newSlots n size) n.toNat size.toNat := by
  funext g
  unfold go_makeBuckets fn construct
  by_cases hn : n < 0
  · rw [if_pos (Or.inl hn)]
    apply sem_goFunc_pure
    rw [sem_bind_step]
    simp only [goMake_durationsBucket, if_pos hn]
    rfl
  · have hmk : goMake_durationsBucket n g = (.ok (List.replicate n.toNat {}), g) := by
      simp only [goMake_durationsBucket, if_neg hn]; rfl
    have hcast : n = ((n.toNat : Nat) : Int) := by omega
    by_cases hs : size < 0
    · by_cases h0 : n = 0
      · subst h0
        rw [if_neg (by omega)]
        apply sem_goFunc_st _ _ g _ (g.st.grow 0 size.toNat)
        rw [sem_bind_step, hmk, sem_step_ok]
        simp only [goRange, newSlots, Heap.grow, Int.toNat_zero, List.range_zero, List.map_nil, List.replicate_zero,
          List.append_nil, List.forIn_nil]
        rfl
      · rw [if_pos (Or.inr ⟨by omega, hs⟩)]
        apply sem_goFunc_pure
        rw [sem_bind_step, hmk, sem_step_ok]
        obtain ⟨m, hm⟩ : ∃ m, n.toNat = m + 1 := ⟨n.toNat - 1, by omega⟩
        rw [sem_bind_step, hcast, fsnew_goRange_natCast, hm, List.range_succ_eq_map, List.map_cons, List.forIn_cons,
          sem_bind_step, sem_bind_step, go_newDurationsBucket_eq, construct, if_pos hs]
        rfl
    · rw [if_neg (by omega)]
      apply sem_goFunc_st _ _ g _ (g.st.grow n.toNat size.toNat)
      rw [sem_bind_step, hmk, sem_step_ok, sem_bind_step]
      rw [fsnew_forIn_both _ (fsnew_fillStep size)]
      · rw [sem_step_ok, sem_pure, show goRange n = (List.range n.toNat).map Int.ofNat from rfl,
          fsnew_fill_fold size n.toNat g n.toNat (Nat.le_refl _)]
        simp [newSlots]
      · intro i b s
        rw [sem_bind_step, go_newDurationsBucket_eq, construct, if_neg hs, sem_step_ok, sem_pure]
        rfl

/-- `NewRollingPercentile(w, n, size, now)` = the buckets `makeBuckets(n, size)` makes, in a ring of `n` buckets of width `w`
    starting at `now`, newest index 0. -/
theorem go_NewRollingPercentile_eq (w n size now : Int) :
    go_NewRollingPercentile w n size now
      = construct (n < 0 ∨ (0 < n ∧ size < 0)) (newRP w n size now) n.toNat size.toNat := by
  funext g
  unfold go_NewRollingPercentile fn
  by_cases hb : n < 0 ∨ (0 < n ∧ size < 0)
  · rw [construct, if_pos hb]
    apply sem_goFunc_pure
    rw [sem_bind_step, go_makeBuckets_eq, construct, if_pos hb, fsnew_step_nilCall]
  · rw [construct, if_neg hb]
    apply sem_goFunc_st _ _ g _ (g.st.grow n.toNat size.toNat)
    rw [sem_bind_step, go_makeBuckets_eq, construct, if_neg hb, sem_step_ok, sem_pure]
    rfl

/-! ### what was built, in the model's terms -/

theorem fsnew_absSlot_new (h : Heap) (size : Int) (N i : Nat) (hi : i < N) :
    absSlot (h.grow N size.toNat) (newSlot size (h.cells.length + i)) = some (DSlot.new size.toNat) := by
  simp [absSlot, newSlot, Heap.read, Heap.grow, hi, DSlot.new, sliceLen]

theorem fsnew_absSlots_new (h : Heap) (size : Int) (N : Nat) : ∀ m j, j + m ≤ N →
    absSlots (h.grow N size.toNat) ((List.range' j m).map fun i => newSlot size (h.cells.length + i))
      = some (List.replicate m (DSlot.new size.toNat)) := by
  intro m
  induction m with
  | zero => intro j _; rfl
  | succ m ih =>
    intro j hj
    rw [List.range'_succ, List.map_cons, absSlots, fsnew_absSlot_new h size N j (by omega), ih (j + 1) (by omega)]
    rfl

/-- read back into the model, the new ring IS `RP.new n w size`: `n` slots, each a `DSlot.new size` — declared size `size`,
    a buffer of exactly `size` zero cells, cursor 0. -/
theorem newRP_abs (h : Heap) (w n size now : Int) :
    absRP (h.grow n.toNat size.toNat) (newRP w n size now h.cells.length) = some (RP.new n.toNat w size.toNat)
    ∧ (newRP w n size now h.cells.length).rollingBucket.StartTime = now := by
  refine ⟨?_, rfl⟩
  have := fsnew_absSlots_new h size n.toNat n.toNat 0 (by omega)
  rw [← List.range_eq_range'] at this
  simp [absRP, newRP, newSlots, this, RP.new]

/-- each slot has its OWN buffer: the arrays the slots point to are `k, k+1, …, k+n-1` — pairwise different, and none of them
    existed before the call. -/
theorem newSlots_bases (n size : Int) (k : Nat) : bases (newSlots n size k) = (List.range n.toNat).map (k + ·) := by
  unfold newSlots
  generalize n.toNat = N
  rw [List.range_eq_range']
  generalize 0 = j
  induction N generalizing j with
  | zero => rfl
  | succ N ih =>
    rw [List.range'_succ, List.map_cons, List.map_cons]
    show (k + j) :: bases _ = _
    rw [ih]

theorem newSlots_own (n size : Int) (k : Nat) :
    (bases (newSlots n size k)).Pairwise (· ≠ ·) ∧ (∀ a ∈ bases (newSlots n size k), k ≤ a)
    ∧ (bases (newSlots n size k)).length = n.toNat
    ∧ ∀ b ∈ newSlots n size k, sliceLen b.durationsSomeInvalid = size.toNat ∧ b.currentIndex = 0 := by
  rw [newSlots_bases]
  refine ⟨?_, ?_, by simp, ?_⟩
  · rw [List.pairwise_map]
    exact (List.nodup_range (n := n.toNat)).imp (fun h => by omega)
  · intro a ha
    simp only [List.mem_map, List.mem_range] at ha
    omega
  · intro b hb
    simp only [newSlots, List.mem_map] at hb
    obtain ⟨i, _, rfl⟩ := hb
    exact ⟨rfl, rfl⟩

/-- all together, from any heap, for a non-negative bucket count and capacity: the call returns a ring that abstracts to
    `RP.new`, started at `now`, none of whose buffers could be read before the call, and every slice that could still reads
    the same. -/
theorem NewRollingPercentile_new (h : Heap) (w n size now : Int) (hn : 0 ≤ n) (hs : 0 ≤ size) (dl : List NoTok) :
    ∃ r h', go_NewRollingPercentile w n size now { st := h, defers := dl } = (.ok r, { st := h', defers := dl })
      ∧ absRP h' r = some (RP.new n.toNat w size.toNat)
      ∧ r.rollingBucket.StartTime = now
      ∧ (bases r.buckets).Pairwise (· ≠ ·)
      ∧ (∀ a ∈ bases r.buckets, h.cells.length ≤ a)
      ∧ ∀ s a, h.read s = some a → h'.read s = some a := by
  refine ⟨newRP w n size now h.cells.length, h.grow n.toNat size.toNat, ?_, (newRP_abs h w n size now).1, rfl,
    (newSlots_own n size _).1, (newSlots_own n size _).2.1, fun s a => read_grow h _ _ s a⟩
  rw [go_NewRollingPercentile_eq, construct, if_neg (by omega)]

/-! ### non-vacuity -/

example : Go.run (go_makeBuckets 3 2) { cells := [[7, 7]] }
    = (.ok [{ durationsSomeInvalid := .mk 1 2, currentIndex := 0 }, { durationsSomeInvalid := .mk 2 2, currentIndex := 0 },
            { durationsSomeInvalid := .mk 3 2, currentIndex := 0 }],
       { cells := [[7, 7], [0, 0], [0, 0], [0, 0]] }) := by decide
example : absRP { cells := [[7, 7], [0, 0], [0, 0], [0, 0]] } (newRP 1000 3 2 55 1) = some (RP.new 3 1000 2) := by decide
/-- slots sharing one buffer, or over a longer buffer, are NOT what the theorems describe -/
def fsnew_shared : RollingPercentile :=
  { buckets := [{ durationsSomeInvalid := .mk 0 2 }, { durationsSomeInvalid := .mk 0 2 }], rollingBucket := { NumBuckets := 2, BucketWidth := 10 } }
def fsnew_longer : RollingPercentile :=
  { buckets := [{ durationsSomeInvalid := .mk 0 3 }], rollingBucket := { NumBuckets := 1, BucketWidth := 10 } }
example : absRP { cells := [[0, 0]] } fsnew_shared = some (RP.new 2 10 2) ∧ ¬ (bases fsnew_shared.buckets).Pairwise (· ≠ ·) := by decide
example : absRP { cells := [[0, 0, 0]] } fsnew_longer ≠ some (RP.new 1 10 2) := by decide
example : (Go.run (go_makeBuckets 2 (-1)) { cells := [] }).1 = .nilCall ∧ (Go.run (go_makeBuckets 0 (-1)) { cells := [] }).1 = .ok [] := by decide

end CM.GoTie.GoNewRP

/- GoTie/T_GoIsBadRequest.lean — `IsBadRequest` (errors.go) as translated TODAY is the model's `isBadRequest`:
   "the first BadRequest implementer found by errors.As's depth-first pre-order search exists and answers true".
   Also: what that search does on each shape of error (nil, plain, library rejection, SimpleBadRequest, a caller's
   BadRequest type, `%w` wrappers, multi-error joins), and that the verdict primitive `pkg_IsBadRequest` of
   GoCircuitPrims (used by the ties of circuit.go's `Execute` / `run` / `checkErrBadRequest`) is this function under the
   abstraction of error values to the circuit model's `ErrV`. -/
import CircuitModel.GoErrsPrims
import CircuitModel.Circuit
import CircuitProofs.GoTie.Sem
import Generated.GoIsBadRequest
namespace CM.GoTie.GoIsBadRequest
open CM CM.Go CM.GoTie CM.GoErrs CM.GoErrs.IsBad CM.Generated.GoIsBadRequest

/-- the cells after the call: none allocated for a nil error (early return); otherwise ONE new cell (`var br BadRequest`),
    holding what `errors.As` stored in it (still nil when nothing was found) -/
def heapAfter (err : EV) (h : List BRV) : List BRV := if isNil err then h else h ++ [firstBadRequest err]

theorem errs_isNil_isBadRequest (err : EV) (h : isNil err = true) : isBadRequest err = false := by
  cases err <;> first | rfl | cases h

theorem errs_set_last {α : Type} (l : List α) (a b : α) : (l ++ [a]).set l.length b = l ++ [b] := by
  induction l with
  | nil => rfl
  | cons x l ih => simp [ih]
theorem errs_get_last {α : Type} (l : List α) (a : α) : (l ++ [a])[l.length]? = some a := by
  induction l with
  | nil => rfl
  | cons x l ih => simp

/-- TIE. `IsBadRequest(err)` never panics and returns `isBadRequest err`: false for nil; otherwise true exactly when
    errors.As finds a BadRequest implementer (first in depth-first pre-order) and that one answers true.  It allocates at
    most the one cell of its local `br` and touches no other cell. -/
theorem go_IsBadRequest_eq (err : EV) (g : GS (List BRV) NoTok) :
    go_IsBadRequest err g = (.ok (isBadRequest err), { g with st := heapAfter err g.st }) := by
  rw [go_IsBadRequest, IsBad.fn]
  refine sem_goFunc_st _ _ g _ _ ?_
  by_cases hn : isNil err = true
  · simp only [hn, heapAfter, if_true, errs_isNil_isBadRequest err hn, sem_pure]
  · simp only [hn, heapAfter, if_false, Bool.false_eq_true]
    simp only [sem_bind_step, pkg_goVarNew, sem_step_ok, goAnd, errors_As, hn, isBadRequest]
    cases hf : firstBadRequest err <;>
      simp only [sem_step_ok, if_true, if_false, Bool.false_eq_true, sem_pure, pkg_goZero_BadRequest, errs_set_last, sem_bind_step,
        pkg_goVarLoad, errs_get_last, BRV.m_BadRequest]

/-- the result alone, from any heap -/
theorem go_IsBadRequest_result (err : EV) (h : List BRV) : (run (go_IsBadRequest err) h).1 = .ok (isBadRequest err) := by
  simp only [run, go_IsBadRequest_eq]

/-! ### what the verdict is, shape by shape (all by unfolding the search) -/
/-- nil is not a bad request -/
theorem isBadRequest_nil : isBadRequest .nil = false := rfl
/-- an error without the method and without `Unwrap` is not a bad request -/
theorem isBadRequest_plain (m : String) : isBadRequest (.plain m) = false := rfl
/-- the library's own rejections (`errCircuitOpen`, `errThrottledConcurrentCommands`, any `*circuitError`) are never bad
    requests — whatever their flags (C01, C04, C06: a rejection does reach the fallback) -/
theorem isBadRequest_circuit (c o : Bool) (m : String) : isBadRequest (.circuit c o m) = false := rfl
/-- `SimpleBadRequest{Err: anything}` is a bad request, whatever it wraps (even nil) -/
theorem isBadRequest_simpleBad (cause : EV) : isBadRequest (.simpleBad cause) = true := rfl
/-- a caller's BadRequest type decides for itself -/
theorem isBadRequest_userBad (a : Bool) (m : String) : isBadRequest (.userBad a m) = a := by
  cases a <;> rfl
/-- a `%w` / `Unwrap() error` wrapper is transparent (C05: "wrapped bad-request"); wrapping nil gives false -/
theorem isBadRequest_wrap (m : String) (inner : EV) : isBadRequest (.wrap m inner) = isBadRequest inner := by
  simp only [isBadRequest, firstBadRequest]
/-- a join with no elements is not a bad request -/
theorem isBadRequest_join_nil (m : String) : isBadRequest (.join m []) = false := rfl
/-- a join is decided by its FIRST element (left to right) under which the search finds an implementer — even when that
    one answers false and a later element would answer true -/
theorem isBadRequest_join_cons (m : String) (e : EV) (es : List EV) :
    isBadRequest (.join m (e :: es)) =
      (match firstBadRequest e with
       | .nil => isBadRequest (.join m es)
       | found => found.answer) := by
  simp only [isBadRequest, firstBadRequest, firstBadRequestL]
  cases firstBadRequest e <;> rfl

/-! ### the verdict primitive of the circuit.go ties -/
/-- the circuit model's abstraction of an error value: the two library rejections are recognised by their flags, every
    other non-nil error is a caller-made object `plain id bad` whose `bad` is the verdict of `IsBadRequest` -/
def absErr (id : Nat) : EV → Option ErrV
  | .nil => none
  | .circuit false true _ => some .circuitOpen
  | .circuit true false _ => some .concLimit
  | e => some (.plain id (isBadRequest e))

/-- `pkg_IsBadRequest` of GoCircuitPrims (`match e with | some e => e.isBad | none => false`) computes, on the abstraction of
    an error value, what the translated `IsBadRequest` computes on the value itself -/
theorem absErr_isBad (id : Nat) (e : EV) :
    (match absErr id e with | some v => v.isBad | none => false) = isBadRequest e := by
  cases e with
  | circuit c o m => cases c <;> cases o <;> rfl
  | _ => rfl

/-! ### non-vacuity -/
/-- a `%w` wrapper around a join whose first implementer (pre-order) answers true: found through two levels -/
example : (run (go_IsBadRequest (.wrap "w" (.join "j" [.nil, .plain "p", .userBad true "u", .simpleBad .nil]))) []).1 = .ok true := by
  simp only [go_IsBadRequest_result]; rfl
/-- the same with the first implementer answering false: the later SimpleBadRequest is never consulted -/
example : run (go_IsBadRequest (.wrap "w" (.join "j" [.userBad false "u", .simpleBad (.plain "p")]))) [] = (.ok false, [.userBad false "u"]) := rfl
/-- `Cause()` is not `Unwrap()`: nothing is looked for below a SimpleBadRequest, and nothing needs to be -/
example : (run (go_IsBadRequest (.simpleBad (.userBad false "u"))) []).1 = .ok true := rfl
/-- the open-circuit rejection is not a bad request; one cell was allocated and left nil -/
example : run (go_IsBadRequest (.circuit false true "circuit is open")) [] = (.ok false, [.nil]) := rfl
example : run (go_IsBadRequest .nil) [] = (.ok false, []) := rfl

end CM.GoTie.GoIsBadRequest

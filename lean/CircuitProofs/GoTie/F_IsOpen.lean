/- GoTie/F_IsOpen.lean — `IsOpen()` is ForceOpen, else not ForcedClosed and the stored flag
   The generated function is today's translation of circuit.go; callee behaviour enters as HYPOTHESES (the callees'
   own ties are proved in their own modules and put together in GoTie/All.lean), so this module depends on the body of
   `IsOpen` only. -/
import CircuitModel.GoCircuitSpec
import CircuitProofs.GoTie.Basic
import Generated.GoCircuit.F_IsOpen
namespace CM.GoTie
open CM CM.Go CM.GoCircuit CM.Generated.GoCircuit
variable {σo σc : Type} [L : Logic σo σc]

theorem go_IsOpen_eq : go_IsOpen (σo := σo) (σc := σc) = spec_IsOpen := by
  funext g
  simp only [go_IsOpen, spec_IsOpen]
  rw [gt_fn_keep] <;> gt_eval
  all_goals (repeat' split) <;> simp_all [isOpenEff]

end CM.GoTie

/-
  GoTie/I_RC_Lemmas.lean — helpers for I_RC.lean (K6, the interference tie for C14).
  Part 1: the translated bodies over the interference primitives, evaluated once into plain recursive functions on the
  interference state `IS` (`irc_adv`, `irc_loop` …) — equations, no hypotheses.
-/
import Generated.GoRCIOps
import CircuitModel.Conc.RCSolo
import CircuitProofs.GoTie.Sem
set_option linter.unusedSimpArgs false
namespace CM.GoTie.IRC
open CM CM.Go CM.Conc CM.Conc.RC CM.GoRCI CM.GoTie
open CM.Generated.GoRCIClear CM.Generated.GoRCIAdv CM.Generated.GoRCIOps

/-! ### the monad: no defers ever, atomic operations as functions on `IS` -/

theorem irc_defers_nil (d : List NoTok) : d = [] := by
  cases d with
  | nil => rfl
  | cons t _ => exact nomatch t

theorem irc_fn {α} (body : IM α) : fn body = body := by
  funext g
  unfold fn
  apply sem_goFunc_noDefer
  rw [irc_defers_nil (body g).2.defers, irc_defers_nil g.defers]

/-- an atomic operation as a function on the interference state -/
def irc_at {α : Type} (f : Shared → Shared × α × Lab) (X : IS) : α × IS :=
  ((f (popEnv X.envs X.sh).1).2.1,
   { X with sh := (f (popEnv X.envs X.sh).1).1, envs := (popEnv X.envs X.sh).2,
            trace := X.trace ++ [(f (popEnv X.envs X.sh).1).2.2] })

/-- outcome on `IS` seen as an outcome of the monad -/
def irc_lift {α : Type} (r : Out α × IS) (g : GS IS NoTok) : Out α × GS IS NoTok := (r.1, { g with st := r.2 })

theorem irc_atomicOp {α : Type} (f : Shared → Shared × α × Lab) (g : GS IS NoTok) :
    atomicOp f g = irc_lift (.ok (irc_at f g.st).1, (irc_at f g.st).2) g := rfl

@[simp] theorem irc_step_lift_ok {α β : Type} (a : α) (X : IS) (g : GS IS NoTok) (f : α → IM β) :
    sem_step (irc_lift (.ok a, X) g) f = f a { g with st := X } := rfl
@[simp] theorem irc_step_lift_nil {α β : Type} (X : IS) (g : GS IS NoTok) (f : α → IM β) :
    sem_step (irc_lift (.nilCall, X) g) f = irc_lift (.nilCall, X) g := rfl
@[simp] theorem irc_step_lift_panic {α β : Type} (v : Nat) (X : IS) (g : GS IS NoTok) (f : α → IM β) :
    sem_step (irc_lift (.panic v, X) g) f = irc_lift (.panic v, X) g := rfl
@[simp] theorem irc_lift_st {α : Type} (r : Out α × IS) (g : GS IS NoTok) (X : IS) :
    irc_lift r { g with st := X } = irc_lift r g := rfl

def irc_load (X : IS) : Int × IS := irc_at (fun s => (s, (s.last : Int), Lab.load .last s.last)) X
def irc_cas (old new : Int) (X : IS) : Bool × IS := irc_at (fun s =>
  if (s.last : Int) = old then ({ s with last := new.toNat }, true, Lab.cas .last old new true)
  else (s, false, Lab.cas .last old new false)) X
def irc_swapB (idx v : Int) (X : IS) : Int × IS := irc_at (fun s =>
  let old := s.buckets.getD idx.toNat 0
  ({ s with buckets := s.buckets.set idx.toNat v }, old, Lab.swap (.bucket idx.toNat) v old)) X
def irc_addR (n : Int) (X : IS) : Int × IS :=
  irc_at (fun s => ({ s with rolling := s.rolling + n }, s.rolling + n, Lab.add .rolling n (s.rolling + n))) X
def irc_addB (idx n : Int) (X : IS) : Int × IS := irc_at (fun s =>
  let v := s.buckets.getD idx.toNat 0 + n
  ({ s with buckets := s.buckets.set idx.toNat v }, v, Lab.add (.bucket idx.toNat) n v)) X
def irc_getB (idx : Int) (X : IS) : Int × IS := irc_at (fun s =>
  (s, s.buckets.getD idx.toNat 0, Lab.load (.bucket idx.toNat) (s.buckets.getD idx.toNat 0))) X
def irc_addT (n : Int) (X : IS) : Int × IS :=
  irc_at (fun s => ({ s with total := s.total + n }, s.total + n, Lab.add .total n (s.total + n))) X
def irc_getR (X : IS) : Int × IS := irc_at (fun s => (s, s.rolling, Lab.load .rolling s.rolling)) X

theorem irc_sem_load (g : GS IS NoTok) : B.recv_LastAbsIndex_Get g = irc_lift (.ok (irc_load g.st).1, (irc_load g.st).2) g := rfl
theorem irc_sem_cas (o n : Int) (g : GS IS NoTok) :
    B.recv_LastAbsIndex_CompareAndSwap o n g = irc_lift (.ok (irc_cas o n g.st).1, (irc_cas o n g.st).2) g := rfl
theorem irc_sem_swapB (i v : Int) (g : GS IS NoTok) : swapBucket i v g = irc_lift (.ok (irc_swapB i v g.st).1, (irc_swapB i v g.st).2) g := rfl
theorem irc_sem_addR (n : Int) (g : GS IS NoTok) : addRolling n g = irc_lift (.ok (irc_addR n g.st).1, (irc_addR n g.st).2) g := rfl
theorem irc_sem_addB (i n : Int) (g : GS IS NoTok) : addBucket i n g = irc_lift (.ok (irc_addB i n g.st).1, (irc_addB i n g.st).2) g := rfl
theorem irc_sem_getB (i : Int) (g : GS IS NoTok) : getBucket i g = irc_lift (.ok (irc_getB i g.st).1, (irc_getB i g.st).2) g := rfl
theorem irc_sem_addT (n : Int) (g : GS IS NoTok) : C.recv_totalSum_Add n g = irc_lift (.ok (irc_addT n g.st).1, (irc_addT n g.st).2) g := rfl
theorem irc_sem_getR (g : GS IS NoTok) : C.recv_rollingSum_Get g = irc_lift (.ok (irc_getR g.st).1, (irc_getR g.st).2) g := rfl

/-- `clearBucket` -/
def irc_clear (idx : Int) (X : IS) : IS := (irc_addR (-(irc_swapB idx 0 X).1) (irc_swapB idx 0 X).2).2

theorem irc_sem_clear (idx : Int) (g : GS IS NoTok) : go_clearBucket idx g = irc_lift (.ok (), irc_clear idx g.st) g := by
  rw [go_clearBucket, irc_fn]
  simp only [sem_bind_step, K.recv_buckets_at_Swap, K.recv_rollingSum_Add, irc_sem_swapB, irc_sem_addR, irc_step_lift_ok, sem_pure]
  rfl

/-! ### `Advance` as a recursive function on `IS` -/

/-- the loop of `Advance` with what follows it: `r` trips left, `lv` = the local `lastAbsVal`, `adv` = the self-call -/
def irc_loop (adv : IS → Out Int × IS) (abs : Int) : Nat → Int → IS → Out Int × IS
  | 0, lv, X => adv (irc_cas lv abs X).2
  | r + 1, lv, X =>
    if lv < abs then
      (if (irc_cas lv (lv + 1) X).1 then
        irc_loop adv abs r (lv + 1) (irc_clear (goMod (lv + 1) (irc_cas lv (lv + 1) X).2.sh.n) (irc_cas lv (lv + 1) X).2)
       else adv (irc_cas lv (lv + 1) X).2)
    else adv (irc_cas lv abs X).2

def irc_adv (now : Int) : Nat → IS → Out Int × IS
  | 0, X => (.nilCall, X)
  | f + 1, X =>
    if (X.sh.n : Int) = 0 then (.ok (-1), X)
    else if now - 0 < 0 then (.ok (-1), X)
    else if goDiv (now - 0) X.w - (irc_load X).1 = 0 then (.ok (goMod (goDiv (now - 0) X.w) (irc_load X).2.sh.n), (irc_load X).2)
    else if goDiv (now - 0) X.w - (irc_load X).1 < 0 then
      (if -(goDiv (now - 0) X.w - (irc_load X).1) ≥ (irc_load X).2.sh.n then (.ok (-1), (irc_load X).2)
       else (.ok (goMod (goDiv (now - 0) X.w) (irc_load X).2.sh.n), (irc_load X).2))
    else irc_loop (irc_adv now f) (goDiv (now - 0) X.w) (irc_load X).2.sh.n (irc_load X).1 (irc_load X).2

theorem irc_loop_eq (adv : IS → Out Int × IS) (abs : Int)
    (body : Int → Option Int × Int → IM (ForInStep (Option Int × Int))) (post : Option Int × Int → IM Int)
    (hdone : ∀ i lv g, ¬ lv < abs → body i (none, lv) g = (.ok (.done (none, lv)), g))
    (hstep : ∀ i lv g, lv < abs → body i (none, lv) g =
      if (irc_cas lv (lv + 1) g.st).1 then
        (.ok (.yield (none, lv + 1)),
          { g with st := irc_clear (goMod (lv + 1) (irc_cas lv (lv + 1) g.st).2.sh.n) (irc_cas lv (lv + 1) g.st).2 })
      else sem_step (irc_lift (adv (irc_cas lv (lv + 1) g.st).2) g) (fun v => (pure (ForInStep.done (some v, lv)) : IM (ForInStep (Option Int × Int)))))
    (hsome : ∀ v lv g, post (some v, lv) g = (.ok v, g))
    (hnone : ∀ lv g, post (none, lv) g = irc_lift (adv (irc_cas lv abs g.st).2) g) :
    ∀ (l : List Int) (lv : Int) (g : GS IS NoTok),
      sem_step (forIn l (none, lv) body g) post = irc_lift (irc_loop adv abs l.length lv g.st) g := by
  intro l
  induction l with
  | nil =>
    intro lv g
    show post (none, lv) g = _
    rw [hnone]; rfl
  | cons i l ih =>
    intro lv g
    rw [List.forIn_cons, sem_bind_step]
    by_cases h : lv < abs
    · rw [hstep i lv g h]
      simp only [List.length_cons, irc_loop, if_pos h]
      by_cases hc : (irc_cas lv (lv + 1) g.st).1 = true
      · rw [if_pos hc, if_pos hc, sem_step_ok]
        exact ih _ _
      · rw [if_neg hc, if_neg hc]
        generalize (irc_cas lv (lv + 1) g.st).2 = X1
        rcases hr : adv X1 with ⟨o, X2⟩
        cases o with
        | ok v =>
          show post (some v, lv) _ = _
          rw [hsome]; rfl
        | panic v => rfl
        | nilCall => rfl
    · rw [hdone i lv g h, sem_step_ok]
      simp only [List.length_cons, irc_loop, if_neg h, sem_pure, sem_step_ok, hnone]

theorem irc_goRange_length (n : Nat) : (goRange (n : Int)).length = n := by simp [goRange]

theorem irc_sem_adv (now : Int) : ∀ (f : Nat) (g : GS IS NoTok),
    go_Advance f now .counter g = irc_lift (irc_adv now f g.st) g := by
  intro f
  induction f with
  | zero => intro g; rfl
  | succ f ih =>
    intro g
    have ih' : go_Advance f now .counter = fun g => irc_lift (irc_adv now f g.st) g := funext ih
    rw [go_Advance, irc_fn]
    simp only [sem_bind_step, B.recv_NumBuckets, B.recv_StartTime, B.recv_BucketWidth_Nanoseconds,
      pkg_int, pkg_int64, Int.m_Sub, Int.m_Nanoseconds, sem_rd, sem_step_ok, sem_pure, sem_ite_apply, irc_sem_load,
      irc_step_lift_ok]
    simp only [beq_iff_eq, decide_eq_true_eq, irc_adv]
    by_cases h1 : (g.st.sh.n : Int) = 0
    · rw [if_pos h1, if_pos h1]; rfl
    rw [if_neg h1, if_neg h1]
    by_cases h2 : now - 0 < 0
    · rw [if_pos h2, if_pos h2]; rfl
    rw [if_neg h2, if_neg h2]
    by_cases h3 : goDiv (now - 0) g.st.w - (irc_load g.st).1 = 0
    · rw [if_pos h3, if_pos h3]; rfl
    rw [if_neg h3, if_neg h3]
    by_cases h4 : goDiv (now - 0) g.st.w - (irc_load g.st).1 < 0
    · rw [if_pos h4, if_pos h4]
      by_cases h5 : -(goDiv (now - 0) g.st.w - (irc_load g.st).1) ≥ ((irc_load g.st).2.sh.n : Int)
      · rw [if_pos h5, if_pos h5]; rfl
      · rw [if_neg h5, if_neg h5]; rfl
    rw [if_neg h4, if_neg h4]
    rw [irc_loop_eq (irc_adv now f) (goDiv (now - 0) g.st.w)]
    · rw [irc_goRange_length]; rfl
    · intro i lv g' hlv
      rw [sem_ite_apply, if_pos (by simpa using hlv)]
      rfl
    · intro i lv g' hlv
      rw [sem_ite_apply, if_neg (by simpa using hlv)]
      simp only [sem_bind_step, sem_pure, sem_step_ok, irc_sem_cas, irc_step_lift_ok, sem_ite_apply, sem_rd]
      by_cases hc : (irc_cas lv (lv + 1) g'.st).1 = true
      · rw [if_pos hc, if_neg (by simp [hc])]
        show sem_step (go_clearBucket _ _) _ = _
        rw [irc_sem_clear]; rfl
      · rw [if_neg hc, if_pos (by simpa using hc), ih']
        rfl
    · intro v lv g'; rfl
    · intro lv g'
      simp only [sem_bind_step, sem_pure, sem_step_ok, ih']
      rfl

/-! ### the operations of the counter as functions on `IS` -/

def irc_bind {α β : Type} (r : Out α × IS) (f : α → IS → Out β × IS) : Out β × IS :=
  match r with
  | (.ok a, X) => f a X
  | (.panic v, X) => (.panic v, X)
  | (.nilCall, X) => (.nilCall, X)

theorem irc_step_bind {α β : Type} (r : Out α × IS) (g : GS IS NoTok) (f : α → IM β) (F : α → IS → Out β × IS)
    (h : ∀ a X, f a { g with st := X } = irc_lift (F a X) g) :
    sem_step (irc_lift r g) f = irc_lift (irc_bind r F) g := by
  rcases r with ⟨o, X⟩
  cases o with
  | ok a => exact h a X
  | panic v => rfl
  | nilCall => rfl

theorem irc_forIn_fold {α β : Type} (f : α → β → IM (ForInStep β)) (F : β × IS → α → β × IS)
    (h : ∀ c b g, f c b g = (.ok (.yield (F (b, g.st) c).1), { g with st := (F (b, g.st) c).2 }))
    (l : List α) (b : β) (g : GS IS NoTok) :
    forIn l b f g = (.ok (l.foldl F (b, g.st)).1, { g with st := (l.foldl F (b, g.st)).2 }) := by
  induction l generalizing b g with
  | nil => rfl
  | cons c l ih =>
    rw [List.forIn_cons, sem_bind_step, h, sem_step_ok]
    exact ih _ _

def irc_incK (idx : Int) (X : IS) : Out Unit × IS :=
  if idx < 0 then (.ok (), X) else (.ok (), (irc_addR 1 (irc_addB idx 1 X).2).2)
def irc_inc (now : Int) (X : IS) : Out Unit × IS :=
  if ((irc_addT 1 X).2.sh.n : Int) = 0 then (.ok (), (irc_addT 1 X).2)
  else irc_bind (irc_adv now (irc_addT 1 X).2.fuel (irc_addT 1 X).2) irc_incK
def irc_sumAt (now : Int) (X : IS) : Out Int × IS :=
  irc_bind (irc_adv now X.fuel X) fun _ X => (.ok (irc_getR X).1, (irc_getR X).2)
def irc_resetStep (p : PUnit.{1} × IS) (i : Int) : PUnit.{1} × IS := (p.1, irc_clear i p.2)
def irc_reset (now : Int) (X : IS) : Out Unit × IS :=
  irc_bind (irc_adv now X.fuel X) fun _ X => (.ok (), ((goRange X.sh.n).foldl irc_resetStep (PUnit.unit, X)).2)
def irc_gbStep (S : Int) (p : List Int × IS) (i : Int) : List Int × IS :=
  (goSet p.1 i (irc_getB (if S - i < 0 then S - i + p.2.sh.n else S - i) p.2).1,
   (irc_getB (if S - i < 0 then S - i + p.2.sh.n else S - i) p.2).2)
def irc_gbK (X : IS) : Out (List Int) × IS :=
  (.ok ((goRange (irc_load X).2.sh.n).foldl (irc_gbStep (goMod (irc_load X).1 (irc_load X).2.sh.n))
          (goMakeZeros (irc_load X).2.sh.n, (irc_load X).2)).1,
   ((goRange (irc_load X).2.sh.n).foldl (irc_gbStep (goMod (irc_load X).1 (irc_load X).2.sh.n))
          (goMakeZeros (irc_load X).2.sh.n, (irc_load X).2)).2)
def irc_getBuckets (now : Int) (X : IS) : Out (List Int) × IS :=
  irc_bind (irc_adv now X.fuel X) fun _ X => irc_gbK X

theorem irc_sem_inc (now : Int) (g : GS IS NoTok) : go_Inc now g = irc_lift (irc_inc now g.st) g := by
  rw [go_Inc, irc_fn]
  simp only [sem_bind_step, C.recv_rollingBucket_Advance, C.recvMethod_clearBucket,
    sem_rd, sem_step_ok, sem_pure, sem_ite_apply, irc_sem_adv, irc_sem_addT, C.recv_buckets, irc_step_lift_ok, irc_inc]
  have e : (goLen (List.replicate (irc_addT 1 g.st).2.sh.n (0 : Int)) == 0) = true ↔ ((irc_addT 1 g.st).2.sh.n : Int) = 0 := by
    simp [goLen]
  by_cases h : ((irc_addT 1 g.st).2.sh.n : Int) = 0
  · rw [if_pos (e.2 h), if_pos h]; rfl
  rw [if_neg (fun h' => h (e.1 h')), if_neg h]
  apply irc_step_bind
  intro idx X
  rw [sem_ite_apply]
  simp only [decide_eq_true_eq, irc_incK]
  by_cases hi : idx < 0
  · rw [if_pos hi, if_pos hi]; rfl
  · rw [if_neg hi, if_neg hi]
    simp only [sem_bind_step, C.recv_buckets_at_Add, C.recv_rollingSum_Add, irc_sem_addB, irc_sem_addR, irc_step_lift_ok]
    rfl

theorem irc_sem_sumAt (now : Int) (g : GS IS NoTok) : go_RollingSumAt now g = irc_lift (irc_sumAt now g.st) g := by
  rw [go_RollingSumAt, irc_fn]
  simp only [sem_bind_step, C.recv_rollingBucket_Advance, C.recvMethod_clearBucket,
    sem_rd, sem_step_ok, sem_pure, irc_sem_adv, irc_sumAt]
  apply irc_step_bind
  intro _ X
  simp only [irc_sem_getR, irc_step_lift_ok]
  rfl

theorem irc_sem_reset (now : Int) (g : GS IS NoTok) : go_Reset now g = irc_lift (irc_reset now g.st) g := by
  rw [go_Reset, irc_fn]
  simp only [sem_bind_step, C.recv_rollingBucket_Advance, C.recvMethod_clearBucket, C.recv_rollingBucket_NumBuckets,
    B.recv_NumBuckets, sem_rd, sem_step_ok, sem_pure, irc_sem_adv, irc_reset]
  apply irc_step_bind
  intro _ X
  simp only [sem_bind_step, sem_rd, sem_step_ok]
  rw [irc_forIn_fold _ irc_resetStep]
  · rfl
  · intro c b g'
    simp only [sem_bind_step, C.recv_clearBucket, irc_sem_clear, irc_step_lift_ok, sem_pure]
    rfl

theorem irc_sem_getBuckets (now : Int) (g : GS IS NoTok) : go_GetBuckets now g = irc_lift (irc_getBuckets now g.st) g := by
  rw [go_GetBuckets, irc_fn]
  simp only [sem_bind_step, C.recv_rollingBucket_Advance, C.recvMethod_clearBucket, C.recv_rollingBucket_NumBuckets,
    C.recv_rollingBucket_LastAbsIndex_Get, pkg_int, pkg_int64,
    B.recv_NumBuckets, sem_rd, sem_step_ok, sem_pure, irc_sem_adv, irc_getBuckets, irc_sem_load, irc_step_lift_ok]
  apply irc_step_bind
  intro _ X
  simp only [sem_bind_step, sem_rd, sem_step_ok, sem_pure, irc_sem_load, irc_step_lift_ok]
  rw [irc_forIn_fold _ (irc_gbStep (goMod (irc_load X).1 (irc_load X).2.sh.n))]
  · rfl
  · intro c b g'
    rw [sem_ite_apply]
    simp only [sem_bind_step, C.recv_buckets_at_Get, irc_sem_getB, irc_step_lift_ok, sem_pure, sem_rd, sem_step_ok,
      decide_eq_true_eq, irc_gbStep]
    split <;> rfl

/-! ### the model's thread alone: a composable "reaches" relation -/

abbrev irc_St := SoloSt Shared Local Lab

def irc_Reaches (a b : irc_St) : Prop := ∃ k, ∀ m, solo sys view 0 (k + m) a = solo sys view 0 m b

theorem irc_reaches_refl (a : irc_St) : irc_Reaches a a := ⟨0, fun m => by rw [Nat.zero_add]⟩
theorem irc_reaches_trans {a b c : irc_St} (h1 : irc_Reaches a b) (h2 : irc_Reaches b c) : irc_Reaches a c := by
  obtain ⟨k1, h1⟩ := h1
  obtain ⟨k2, h2⟩ := h2
  exact ⟨k1 + k2, fun m => by rw [Nat.add_assoc, h1, h2]⟩
theorem irc_reaches_solo {a b : irc_St} (h : irc_Reaches a b) : ∃ k, solo sys view 0 k a = b := by
  obtain ⟨k, h⟩ := h
  exact ⟨k, by simpa [solo] using h 0⟩

/-- one step of `solo` -/
def irc_next (a : irc_St) : irc_St :=
  if silent a.sh a.loc then
    match step 0 a.sh a.loc with
    | some (s', l') => { a with sh := s', loc := l' }
    | none => a
  else
    match step 0 (popEnv a.envs a.sh).1 a.loc with
    | some (s', l') =>
      { sh := s', loc := l', envs := (popEnv a.envs a.sh).2,
        trace := match label (popEnv a.envs a.sh).1 a.loc with | some x => a.trace ++ [x] | none => a.trace }
    | none => { a with sh := (popEnv a.envs a.sh).1, envs := (popEnv a.envs a.sh).2 }

theorem irc_step_none (t : Nat) (s : Shared) (l : Local) (h : step t s l = none) : view.fin l = true := by
  rcases l with ⟨prog, pc, a, b, c⟩
  cases pc <;> simp [step, view] at h ⊢
  all_goals (repeat' split at h)
  all_goals simp_all

theorem irc_solo_succ (a : irc_St) (hfin : view.fin a.loc = false) (m : Nat) :
    solo sys view 0 (m + 1) a = solo sys view 0 m (irc_next a) := by
  have hne : ∀ s, step 0 s a.loc ≠ none := fun s h => by
    have := irc_step_none 0 s a.loc h
    rw [hfin] at this; exact Bool.noConfusion this
  rw [solo, hfin, irc_next]
  simp only [Bool.false_eq_true, if_false]
  show (if silent a.sh a.loc = true then _ else _) = _
  by_cases hs : silent a.sh a.loc = true
  · rw [if_pos hs, if_pos hs]
    simp only [show sys.step = step from rfl, show view.label = label from rfl]
    rcases h : step 0 a.sh a.loc with _ | ⟨s', l'⟩
    · exact absurd h (hne _)
    · rfl
  · rw [if_neg hs, if_neg hs]
    simp only [show sys.step = step from rfl, show view.label = label from rfl]
    rcases h : step 0 (popEnv a.envs a.sh).1 a.loc with _ | ⟨s', l'⟩
    · exact absurd h (hne _)
    · dsimp only
      rcases label (popEnv a.envs a.sh).fst a.loc with _ | x <;> rfl

theorem irc_reaches_next (a : irc_St) (hfin : view.fin a.loc = false) : irc_Reaches a (irc_next a) :=
  ⟨1, fun m => by rw [Nat.add_comm, irc_solo_succ a hfin]⟩

/-- from `pc` in interference state `X` the thread gets to `pc'` in `X'` (whatever its ghost fields) -/
def irc_R (pc : Pc) (X : IS) (pc' : Pc) (X' : IS) : Prop :=
  ∀ l : Local, l.prog = [] → l.pc = pc →
    ∃ l' : Local, l'.prog = [] ∧ l'.pc = pc' ∧
      irc_Reaches ⟨X.sh, l, X.envs, X.trace⟩ ⟨X'.sh, l', X'.envs, X'.trace⟩

theorem irc_R_refl (pc : Pc) (X : IS) : irc_R pc X pc X := fun l hp hpc => ⟨l, hp, hpc, irc_reaches_refl _⟩
theorem irc_R_trans {pc1 pc2 pc3 : Pc} {X1 X2 X3 : IS} (h1 : irc_R pc1 X1 pc2 X2) (h2 : irc_R pc2 X2 pc3 X3) :
    irc_R pc1 X1 pc3 X3 := by
  intro l hp hpc
  obtain ⟨l2, hp2, hpc2, r1⟩ := h1 l hp hpc
  obtain ⟨l3, hp3, hpc3, r2⟩ := h2 l2 hp2 hpc2
  exact ⟨l3, hp3, hpc3, irc_reaches_trans r1 r2⟩

theorem irc_R_step (pc : Pc) (X : IS) (pc' : Pc) (X' : IS) (hne : pc ≠ .next)
    (h : ∀ l : Local, l.prog = [] → l.pc = pc →
      irc_next ⟨X.sh, l, X.envs, X.trace⟩ = ⟨X'.sh, (irc_next ⟨X.sh, l, X.envs, X.trace⟩).loc, X'.envs, X'.trace⟩ ∧
      (irc_next ⟨X.sh, l, X.envs, X.trace⟩).loc.prog = [] ∧ (irc_next ⟨X.sh, l, X.envs, X.trace⟩).loc.pc = pc') :
    irc_R pc X pc' X' := by
  intro l hp hpc
  obtain ⟨h1, h2, h3⟩ := h l hp hpc
  refine ⟨_, h2, h3, ?_⟩
  rw [← h1]
  apply irc_reaches_next
  show (l.prog.isEmpty && l.pc == .next) = false
  rw [hpc]
  cases pc <;> simp at hne ⊢

/-- the value of `LastAbsIndex` the next atomic operation sees -/
def irc_lastN (X : IS) : Nat := (popEnv X.envs X.sh).1.last
/-- `NumBuckets` as the next atomic operation sees it -/
def irc_nN (X : IS) : Nat := (popEnv X.envs X.sh).1.n

theorem irc_load_fst (X : IS) : (irc_load X).1 = (irc_lastN X : Int) := rfl
theorem irc_load_n (X : IS) : (irc_load X).2.sh.n = irc_nN X := rfl

theorem irc_R_advLoad_eq (A : Nat) (k : Cont) (X : IS) (h : A = irc_lastN X) :
    irc_R (.advLoad A k) X (afterAdvance k (some (A % irc_nN X))) (irc_load X).2 := by
  apply irc_R_step _ _ _ _ (by simp)
  intro l hp hpc
  simp only [irc_lastN] at h
  simp [irc_next, silent, label, step, hpc, hp, irc_load, irc_at, ← h, irc_nN]

theorem irc_R_advLoad_far (A : Nat) (k : Cont) (X : IS) (h : A < irc_lastN X) (h2 : irc_lastN X - A ≥ irc_nN X) :
    irc_R (.advLoad A k) X (afterAdvance k none) (irc_load X).2 := by
  apply irc_R_step _ _ _ _ (by simp)
  intro l hp hpc
  simp only [irc_lastN, irc_nN] at h h2
  have h1 : ¬ A = (popEnv X.envs X.sh).1.last := by omega
  simp [irc_next, silent, label, step, hpc, hp, irc_load, irc_at, h, h1, h2]

theorem irc_R_advLoad_near (A : Nat) (k : Cont) (X : IS) (h : A < irc_lastN X) (h2 : ¬ irc_lastN X - A ≥ irc_nN X) :
    irc_R (.advLoad A k) X (afterAdvance k (some (A % irc_nN X))) (irc_load X).2 := by
  apply irc_R_step _ _ _ _ (by simp)
  intro l hp hpc
  simp only [irc_lastN, irc_nN] at h h2
  have h1 : ¬ A = (popEnv X.envs X.sh).1.last := by omega
  simp [irc_next, silent, label, step, hpc, hp, irc_load, irc_at, h, h1, h2, irc_nN]

theorem irc_R_advLoad_gt (A : Nat) (k : Cont) (X : IS) (h : irc_lastN X < A) (hn : 0 < irc_nN X) :
    irc_R (.advLoad A k) X (.advCas A (irc_lastN X) 0 k) (irc_load X).2 := by
  apply irc_R_step _ _ _ _ (by simp)
  intro l hp hpc
  simp only [irc_lastN, irc_nN] at h hn
  have h1 : ¬ A = (popEnv X.envs X.sh).1.last := by omega
  have h2 : ¬ A < (popEnv X.envs X.sh).1.last := by omega
  simp [irc_next, silent, label, step, hpc, hp, irc_load, irc_at, h1, h2, hn, irc_lastN]

theorem irc_cas_fst (o n : Int) (X : IS) : (irc_cas o n X).1 = decide ((irc_lastN X : Int) = o) := by
  simp only [irc_cas, irc_at, irc_lastN]
  split <;> simp [*]

theorem irc_R_advCas_ok (A lv i : Nat) (k : Cont) (X : IS) (h : irc_lastN X = lv) :
    irc_R (.advCas A lv i k) X (.advSwap A (lv + 1) i k) (irc_cas lv ((lv : Int) + 1) X).2 := by
  apply irc_R_step _ _ _ _ (by simp)
  intro l hp hpc
  simp only [irc_lastN] at h
  have e : ((lv : Int) + 1).toNat = lv + 1 := by omega
  simp [irc_next, silent, label, step, hpc, hp, irc_cas, irc_at, h, e]

theorem irc_R_advCas_fail (A lv i : Nat) (k : Cont) (X : IS) (h : ¬ irc_lastN X = lv) :
    irc_R (.advCas A lv i k) X (.advLoad A k) (irc_cas lv ((lv : Int) + 1) X).2 := by
  apply irc_R_step _ _ _ _ (by simp)
  intro l hp hpc
  simp only [irc_lastN] at h
  have h' : ¬ ((popEnv X.envs X.sh).1.last : Int) = (lv : Int) := by omega
  simp [irc_next, silent, label, step, hpc, hp, irc_cas, irc_at, h, h']

theorem irc_R_advFinal (A lv : Nat) (k : Cont) (X : IS) :
    irc_R (.advFinalCas A lv k) X (.advLoad A k) (irc_cas lv (A : Int) X).2 := by
  apply irc_R_step _ _ _ _ (by simp)
  intro l hp hpc
  by_cases h : (popEnv X.envs X.sh).1.last = lv
  · simp [irc_next, silent, label, step, hpc, hp, irc_cas, irc_at, h]
  · have h' : ¬ ((popEnv X.envs X.sh).1.last : Int) = (lv : Int) := by omega
    simp [irc_next, silent, label, step, hpc, hp, irc_cas, irc_at, h, h']

theorem irc_R_advSwap (A lv i : Nat) (k : Cont) (X : IS) :
    irc_R (.advSwap A lv i k) X (.advDec A lv i (irc_swapB (goMod lv (irc_nN X)) 0 X).1 k)
      (irc_swapB (goMod lv (irc_nN X)) 0 X).2 := by
  apply irc_R_step _ _ _ _ (by simp)
  intro l hp hpc
  have e : (goMod (lv : Int) (irc_nN X : Int)).toNat = lv % (popEnv X.envs X.sh).1.n := rfl
  simp [irc_next, silent, label, step, hpc, hp, irc_swapB, irc_at, e]

/-- where the loop of `Advance` stands after `i` trips -/
def irc_pcLoop (A lv i : Nat) (k : Cont) (n : Nat) : Pc :=
  if i < n ∧ lv < A then .advCas A lv i k else .advFinalCas A lv k

theorem irc_R_advDec (A lv i : Nat) (x : Int) (k : Cont) (X : IS) :
    irc_R (.advDec A lv i x k) X (irc_pcLoop A lv (i + 1) k (irc_nN X)) (irc_addR (-x) X).2 := by
  apply irc_R_step _ _ _ _ (by simp)
  intro l hp hpc
  by_cases hc : i + 1 < (popEnv X.envs X.sh).1.n ∧ lv < A
  · simp [irc_next, silent, label, step, hpc, hp, irc_addR, irc_at, irc_pcLoop, irc_nN, Int.sub_eq_add_neg, hc]
  · simp [irc_next, silent, label, step, hpc, hp, irc_addR, irc_at, irc_pcLoop, irc_nN, Int.sub_eq_add_neg, hc]

theorem irc_R_incBucket (idx : Nat) (X : IS) : irc_R (.incBucket idx) X .incRolling (irc_addB idx 1 X).2 := by
  apply irc_R_step _ _ _ _ (by simp)
  intro l hp hpc
  simp [irc_next, silent, label, step, hpc, hp, irc_addB, irc_at]

theorem irc_R_incRolling (X : IS) : irc_R .incRolling X .next (irc_addR 1 X).2 := by
  apply irc_R_step _ _ _ _ (by simp)
  intro l hp hpc
  simp [irc_next, silent, label, step, hpc, hp, irc_addR, irc_at]

theorem irc_R_sumLoad (X : IS) : irc_R .sumLoad X .next (irc_getR X).2 := by
  apply irc_R_step _ _ _ _ (by simp)
  intro l hp hpc
  simp [irc_next, silent, label, step, hpc, hp, irc_getR, irc_at]

theorem irc_R_gbLast (X : IS) (hn : 0 < irc_nN X) :
    irc_R .gbLast X (.gbLoad (irc_lastN X % irc_nN X) 0) (irc_load X).2 := by
  apply irc_R_step _ _ _ _ (by simp)
  intro l hp hpc
  simp only [irc_nN] at hn
  simp [irc_next, silent, label, step, hpc, hp, irc_load, irc_at, hn, irc_lastN, irc_nN]

theorem irc_R_gbLoad (S i : Nat) (X : IS) :
    irc_R (.gbLoad S i) X (if i + 1 < irc_nN X then .gbLoad S (i + 1) else .next)
      (irc_getB (if (S : Int) - i < 0 then (S : Int) - i + irc_nN X else (S : Int) - i) X).2 := by
  apply irc_R_step _ _ _ _ (by simp)
  intro l hp hpc
  have e : (if (S : Int) - i < 0 then (S : Int) - i + irc_nN X else (S : Int) - i).toNat
      = if S < i then S + (popEnv X.envs X.sh).1.n - i else S - i := by
    simp only [irc_nN]; split <;> split <;> omega
  simp only [irc_getB, irc_at, e]
  by_cases hc : i + 1 < (popEnv X.envs X.sh).1.n
  · simp [irc_next, silent, label, step, hpc, hp, irc_nN, hc]
  · simp [irc_next, silent, label, step, hpc, hp, irc_nN, hc]

theorem irc_R_rsSwap (i : Nat) (X : IS) (h : i < X.sh.n) (hn : irc_nN X = X.sh.n) :
    irc_R (.rsSwap i) X (.rsDec i (irc_swapB i 0 X).1) (irc_swapB i 0 X).2 := by
  apply irc_R_step _ _ _ _ (by simp)
  intro l hp hpc
  have h' : ¬ X.sh.n ≤ i := by omega
  have h2 : i < (popEnv X.envs X.sh).1.n := by simp only [irc_nN] at hn; omega
  simp [irc_next, silent, label, step, hpc, hp, irc_swapB, irc_at, h', h2]

theorem irc_R_rsDec (i : Nat) (x : Int) (X : IS) : irc_R (.rsDec i x) X (.rsSwap (i + 1)) (irc_addR (-x) X).2 := by
  apply irc_R_step _ _ _ _ (by simp)
  intro l hp hpc
  simp [irc_next, silent, label, step, hpc, hp, irc_addR, irc_at, Int.sub_eq_add_neg]

theorem irc_R_rsEnd (i : Nat) (X : IS) (h : X.sh.n ≤ i) : irc_R (.rsSwap i) X .next X := by
  apply irc_R_step _ _ _ _ (by simp)
  intro l hp hpc
  have h' : ¬ i < X.sh.n := by omega
  simp [irc_next, silent, label, step, hpc, hp, h, h']

/-! ### what every atomic operation preserves -/

/-- (`KeepsN` of I_RC.lean) -/
def irc_KeepsN (envs : List (Shared → Shared)) : Prop := ∀ e ∈ envs, ∀ x : Shared, (e x).n = x.n

theorem irc_popEnv_n (envs : List (Shared → Shared)) (s : Shared) (h : irc_KeepsN envs) : (popEnv envs s).1.n = s.n := by
  cases envs with
  | nil => rfl
  | cons e r => exact h e (List.mem_cons_self ..) s

theorem irc_popEnv_keeps (envs : List (Shared → Shared)) (s : Shared) (h : irc_KeepsN envs) : irc_KeepsN (popEnv envs s).2 := by
  cases envs with
  | nil => exact h
  | cons e r => exact fun e' he' => h e' (List.mem_cons_of_mem _ he')

theorem irc_popEnv_len (envs : List (Shared → Shared)) (s : Shared) : (popEnv envs s).2.length = envs.length - 1 := by
  cases envs <;> rfl

structure irc_Ext (X X' : IS) : Prop where
  w : X'.w = X.w
  fuel : X'.fuel = X.fuel
  keeps : irc_KeepsN X.envs → irc_KeepsN X'.envs
  n : irc_KeepsN X.envs → X'.sh.n = X.sh.n
  len : X'.envs.length ≤ X.envs.length

theorem irc_ext_refl (X : IS) : irc_Ext X X := ⟨rfl, rfl, id, fun _ => rfl, Nat.le_refl _⟩
theorem irc_ext_trans {X Y Z : IS} (h1 : irc_Ext X Y) (h2 : irc_Ext Y Z) : irc_Ext X Z :=
  ⟨h2.w.trans h1.w, h2.fuel.trans h1.fuel, fun h => h2.keeps (h1.keeps h), fun h => (h2.n (h1.keeps h)).trans (h1.n h),
   Nat.le_trans h2.len h1.len⟩

theorem irc_ext_at {α : Type} (f : Shared → Shared × α × Lab) (hf : ∀ s, (f s).1.n = s.n) (X : IS) :
    irc_Ext X (irc_at f X).2 :=
  ⟨rfl, rfl, fun h => irc_popEnv_keeps _ _ h, fun h => (hf _).trans (irc_popEnv_n _ _ h),
   by show (popEnv X.envs X.sh).2.length ≤ _; rw [irc_popEnv_len]; omega⟩

theorem irc_at_len {α : Type} (f : Shared → Shared × α × Lab) (X : IS) : (irc_at f X).2.envs.length = X.envs.length - 1 :=
  irc_popEnv_len _ _

theorem irc_ext_load (X : IS) : irc_Ext X (irc_load X).2 := irc_ext_at _ (fun _ => rfl) X
theorem irc_ext_cas (o n : Int) (X : IS) : irc_Ext X (irc_cas o n X).2 := irc_ext_at _ (fun s => by split <;> rfl) X
theorem irc_ext_swapB (i v : Int) (X : IS) : irc_Ext X (irc_swapB i v X).2 := irc_ext_at _ (fun _ => rfl) X
theorem irc_ext_addR (n : Int) (X : IS) : irc_Ext X (irc_addR n X).2 := irc_ext_at _ (fun _ => rfl) X
theorem irc_ext_addB (i n : Int) (X : IS) : irc_Ext X (irc_addB i n X).2 := irc_ext_at _ (fun _ => rfl) X
theorem irc_ext_getB (i : Int) (X : IS) : irc_Ext X (irc_getB i X).2 := irc_ext_at _ (fun _ => rfl) X
theorem irc_ext_addT (n : Int) (X : IS) : irc_Ext X (irc_addT n X).2 := irc_ext_at _ (fun _ => rfl) X
theorem irc_ext_getR (X : IS) : irc_Ext X (irc_getR X).2 := irc_ext_at _ (fun _ => rfl) X
theorem irc_ext_clear (i : Int) (X : IS) : irc_Ext X (irc_clear i X) :=
  irc_ext_trans (irc_ext_swapB i 0 X) (irc_ext_addR _ _)

theorem irc_nN_eq (X : IS) (h : irc_KeepsN X.envs) : irc_nN X = X.sh.n := irc_popEnv_n _ _ h

/-! ### `Advance`: the translated body takes the model's steps -/

/-- the model's reading of what `Advance` returns -/
def irc_idx (idx : Int) : Option Nat := if idx < 0 then none else some idx.toNat

theorem irc_idx_nat (a : Nat) : irc_idx (a : Int) = some a := by
  simp [irc_idx]
theorem irc_idx_neg : irc_idx (-1) = none := rfl

/-- Advance's result, for a state `Y` at its entry -/
def irc_AdvOk (k : Cont) (A : Nat) (w : Int) (adv : IS → Out Int × IS) : Prop :=
  ∀ Y idx Y', Y.w = w → 0 < Y.sh.n → irc_KeepsN Y.envs → adv Y = (.ok idx, Y') →
    irc_R (.advLoad A k) Y (afterAdvance k (irc_idx idx)) Y' ∧ irc_Ext Y Y'

theorem irc_final_R (k : Cont) (A : Nat) (w : Int) (adv : IS → Out Int × IS) (hadv : irc_AdvOk k A w adv)
    (lv : Nat) (X : IS) (hw : X.w = w) (hn : 0 < X.sh.n) (hk : irc_KeepsN X.envs) (idx : Int) (X' : IS)
    (h : adv (irc_cas lv A X).2 = (.ok idx, X')) :
    irc_R (.advFinalCas A lv k) X (afterAdvance k (irc_idx idx)) X' ∧ irc_Ext X X' := by
  have e := irc_ext_cas lv A X
  obtain ⟨r, e2⟩ := hadv _ idx X' (e.w.trans hw) (by rw [e.n hk]; exact hn) (e.keeps hk) h
  exact ⟨irc_R_trans (irc_R_advFinal A lv k X) r, irc_ext_trans e e2⟩

theorem irc_loop_R (k : Cont) (A : Nat) (w : Int) (adv : IS → Out Int × IS) (hadv : irc_AdvOk k A w adv) :
    ∀ (r lv i : Nat) (X : IS), X.w = w → 0 < X.sh.n → irc_KeepsN X.envs → i + r = X.sh.n →
      ∀ idx X', irc_loop adv A r lv X = (.ok idx, X') →
        irc_R (irc_pcLoop A lv i k X.sh.n) X (afterAdvance k (irc_idx idx)) X' ∧ irc_Ext X X' := by
  intro r
  induction r with
  | zero =>
    intro lv i X hw hn hk hi idx X' h
    simp only [irc_loop] at h
    rw [irc_pcLoop, if_neg (by omega)]
    exact irc_final_R k A w adv hadv lv X hw hn hk idx X' h
  | succ r ih =>
    intro lv i X hw hn hk hi idx X' h
    simp only [irc_loop] at h
    by_cases hlt : lv < A
    · rw [if_pos (by omega)] at h
      rw [irc_pcLoop, if_pos ⟨by omega, hlt⟩]
      have e1 := irc_ext_cas lv ((lv : Int) + 1) X
      by_cases hc : (irc_cas lv ((lv : Int) + 1) X).1 = true
      · rw [if_pos hc] at h
        have hl : irc_lastN X = lv := by
          rw [irc_cas_fst] at hc
          have := of_decide_eq_true hc
          omega
        generalize hX1 : (irc_cas lv ((lv : Int) + 1) X).2 = X1 at h e1
        have s1 : irc_R (.advCas A lv i k) X (.advSwap A (lv + 1) i k) X1 := hX1 ▸ irc_R_advCas_ok A lv i k X hl
        have hk1 := e1.keeps hk
        have hn1 : X1.sh.n = X.sh.n := e1.n hk
        have s2 := irc_R_advSwap A (lv + 1) i k X1
        rw [irc_nN_eq X1 hk1] at s2
        have e2 := irc_ext_swapB (goMod ((lv + 1 : Nat) : Int) X1.sh.n) 0 X1
        generalize hX2 : (irc_swapB (goMod ((lv + 1 : Nat) : Int) X1.sh.n) 0 X1) = p2 at s2 e2
        have hk2 := e2.keeps hk1
        have hn2 : p2.2.sh.n = X1.sh.n := e2.n hk1
        have s3 := irc_R_advDec A (lv + 1) i p2.1 k p2.2
        rw [irc_nN_eq _ hk2, hn2, hn1] at s3
        have e3 := irc_ext_addR (-p2.1) p2.2
        have hcl : irc_clear (goMod ((lv : Int) + 1) X1.sh.n) X1 = (irc_addR (-p2.1) p2.2).2 := by
          rw [← hX2]; rfl
        rw [hcl] at h
        generalize (irc_addR (-p2.1) p2.2).2 = X3 at h s3 e3
        have e13 := irc_ext_trans e1 (irc_ext_trans e2 e3)
        have hn3 : X3.sh.n = X.sh.n := e13.n hk
        obtain ⟨r4, e4⟩ := ih (lv + 1) (i + 1) X3 (e13.w.trans hw) (by omega) (e13.keeps hk) (by omega) idx X' h
        rw [hn3] at r4
        exact ⟨irc_R_trans s1 (irc_R_trans s2 (irc_R_trans s3 r4)), irc_ext_trans e13 e4⟩
      · rw [if_neg hc] at h
        have hl : ¬ irc_lastN X = lv := by
          rw [irc_cas_fst] at hc
          intro h'; apply hc; simp [h']
        obtain ⟨r2, e2⟩ := hadv _ idx X' (e1.w.trans hw) (by rw [e1.n hk]; exact hn) (e1.keeps hk) h
        exact ⟨irc_R_trans (irc_R_advCas_fail A lv i k X hl) r2, irc_ext_trans e1 e2⟩
    · rw [if_neg (by omega)] at h
      rw [irc_pcLoop, if_neg (by omega)]
      exact irc_final_R k A w adv hadv lv X hw hn hk idx X' h

theorem irc_goDiv_req (w now : Int) (hw : 0 < w) (h0 : ¬ now - 0 < 0) :
    goDiv (now - 0) w = (((now / w).toNat : Nat) : Int) ∧ reqOf w now = some (now / w).toNat := by
  have h0' : 0 ≤ now := by omega
  have : 0 ≤ now / w := Int.ediv_nonneg h0' (by omega)
  refine ⟨?_, by simp [reqOf]; omega⟩
  simp only [goDiv, tdiv, Int.sub_zero]
  rw [Int.tdiv_eq_ediv_of_nonneg h0']
  omega

theorem irc_goMod_nat (a n : Nat) : goMod (a : Int) (n : Int) = ((a % n : Nat) : Int) := rfl

theorem irc_adv_R (k : Cont) (w now : Int) (hw : 0 < w) :
    ∀ (f : Nat) (X : IS), X.w = w → 0 < X.sh.n → irc_KeepsN X.envs →
      ∀ idx X', irc_adv now f X = (.ok idx, X') →
        irc_R (enterAdvance (reqOf w now) k) X (afterAdvance k (irc_idx idx)) X' ∧ irc_Ext X X' := by
  intro f
  induction f with
  | zero =>
    intro X _ _ _ idx X' h
    simp [irc_adv] at h
  | succ f ih =>
    intro X hXw hn hk idx X' h
    simp only [irc_adv] at h
    rw [if_neg (by omega)] at h
    by_cases h0 : now - 0 < 0
    · rw [if_pos h0] at h
      obtain ⟨rfl, rfl⟩ : -1 = idx ∧ X = X' := by simpa using h
      have : reqOf w now = none := by simp [reqOf]; omega
      rw [this]
      exact ⟨irc_R_refl _ _, irc_ext_refl _⟩
    rw [if_neg h0] at h
    obtain ⟨hA, hreq⟩ := irc_goDiv_req w now hw h0
    rw [hXw, hA, irc_load_fst, irc_load_n, irc_nN_eq X hk] at h
    rw [hreq]
    generalize (now / w).toNat = A at h hreq ⊢
    show irc_R (.advLoad A k) X _ X' ∧ _
    have e1 := irc_ext_load X
    have hnN := irc_nN_eq X hk
    by_cases h1 : (A : Int) - (irc_lastN X : Int) = 0
    · rw [if_pos h1] at h
      obtain ⟨rfl, rfl⟩ : goMod (A : Int) (X.sh.n : Int) = idx ∧ (irc_load X).2 = X' := by simpa using h
      have := irc_R_advLoad_eq A k X (by omega)
      rw [hnN] at this
      rw [irc_goMod_nat, irc_idx_nat]
      exact ⟨this, e1⟩
    rw [if_neg h1] at h
    by_cases h2 : (A : Int) - (irc_lastN X : Int) < 0
    · rw [if_pos h2] at h
      by_cases h3 : -((A : Int) - (irc_lastN X : Int)) ≥ (X.sh.n : Int)
      · rw [if_pos h3] at h
        obtain ⟨rfl, rfl⟩ : -1 = idx ∧ (irc_load X).2 = X' := by simpa using h
        exact ⟨irc_R_advLoad_far A k X (by omega) (by omega), e1⟩
      · rw [if_neg h3] at h
        obtain ⟨rfl, rfl⟩ : goMod (A : Int) (X.sh.n : Int) = idx ∧ (irc_load X).2 = X' := by simpa using h
        have := irc_R_advLoad_near A k X (by omega) (by omega)
        rw [hnN] at this
        rw [irc_goMod_nat, irc_idx_nat]
        exact ⟨this, e1⟩
    rw [if_neg h2] at h
    have s1 := irc_R_advLoad_gt A k X (by omega) (by omega)
    have hadv : irc_AdvOk k A w (irc_adv now f) := by
      intro Y idx Y' hYw hYn hYk hY
      have := ih Y hYw hYn hYk idx Y' hY
      rw [hreq] at this
      exact this
    have hn1 : (irc_load X).2.sh.n = X.sh.n := e1.n hk
    obtain ⟨r2, e2⟩ := irc_loop_R k A w (irc_adv now f) hadv X.sh.n (irc_lastN X) 0 (irc_load X).2 (e1.w.trans hXw)
      (by omega) (e1.keeps hk) (by omega) idx X' h
    rw [hn1, irc_pcLoop, if_pos ⟨hn, by omega⟩] at r2
    exact ⟨irc_R_trans s1 r2, irc_ext_trans e1 e2⟩

/-! ### the operations: first step, what follows `Advance`, the end -/

theorem irc_bind_ok {α β : Type} (r : Out α × IS) (F : α → IS → Out β × IS) (b : β) (X' : IS)
    (h : irc_bind r F = (.ok b, X')) : ∃ a X2, r = (.ok a, X2) ∧ F a X2 = (.ok b, X') := by
  rcases r with ⟨o, X2⟩
  cases o with
  | ok a => exact ⟨a, X2, rfl, h⟩
  | panic v => simp [irc_bind] at h
  | nilCall => simp [irc_bind] at h

/-- the thread has finished in the state the translated code ended in -/
def irc_Done (l0 : Local) (X X' : IS) : Prop :=
  ∃ k l', solo sys view 0 k ⟨X.sh, l0, X.envs, X.trace⟩ = ⟨X'.sh, l', X'.envs, X'.trace⟩ ∧ view.fin l' = true

theorem irc_finish (l0 : Local) (X X1 X' : IS) (pc : Pc)
    (hfirst : ∃ l' : Local, l'.prog = [] ∧ l'.pc = pc ∧
      irc_Reaches ⟨X.sh, l0, X.envs, X.trace⟩ ⟨X1.sh, l', X1.envs, X1.trace⟩)
    (hR : irc_R pc X1 .next X') : irc_Done l0 X X' := by
  obtain ⟨l1, hp1, hpc1, r1⟩ := hfirst
  obtain ⟨l2, hp2, hpc2, r2⟩ := hR l1 hp1 hpc1
  obtain ⟨k, hk⟩ := irc_reaches_solo (irc_reaches_trans r1 r2)
  exact ⟨k, l2, hk, by simp [view, hp2, hpc2]⟩

theorem irc_first_inc (req : Option Nat) (X : IS) :
    ∃ l' : Local, l'.prog = [] ∧ l'.pc = enterAdvance req .inc ∧
      irc_Reaches ⟨X.sh, { prog := [.inc req] }, X.envs, X.trace⟩
        ⟨(irc_addT 1 X).2.sh, l', (irc_addT 1 X).2.envs, (irc_addT 1 X).2.trace⟩ := by
  have h := irc_reaches_next ⟨X.sh, { prog := [.inc req] }, X.envs, X.trace⟩ (by simp [view])
  refine ⟨(irc_next ⟨X.sh, { prog := [.inc req] }, X.envs, X.trace⟩).loc, ?_, ?_, ?_⟩
  · simp [irc_next, silent, step]
  · simp [irc_next, silent, step]
  · have e : irc_next ⟨X.sh, { prog := [.inc req] }, X.envs, X.trace⟩
        = ⟨(irc_addT 1 X).2.sh, (irc_next ⟨X.sh, { prog := [.inc req] }, X.envs, X.trace⟩).loc,
            (irc_addT 1 X).2.envs, (irc_addT 1 X).2.trace⟩ := by
      simp [irc_next, silent, step, label, irc_addT, irc_at]
    rw [← e]; exact h

theorem irc_first_silent (op : Op) (req : Option Nat) (c : Cont)
    (hop : (op = .sumAt req ∧ c = .sumAt) ∨ (op = .getBuckets req ∧ c = .getBuckets) ∨ (op = .reset req ∧ c = .reset))
    (X : IS) :
    ∃ l' : Local, l'.prog = [] ∧ l'.pc = enterAdvance req c ∧
      irc_Reaches ⟨X.sh, { prog := [op] }, X.envs, X.trace⟩ ⟨X.sh, l', X.envs, X.trace⟩ := by
  have h := irc_reaches_next ⟨X.sh, { prog := [op] }, X.envs, X.trace⟩ (by simp [view])
  refine ⟨(irc_next ⟨X.sh, { prog := [op] }, X.envs, X.trace⟩).loc, ?_, ?_, ?_⟩
  · rcases hop with ⟨rfl, rfl⟩ | ⟨rfl, rfl⟩ | ⟨rfl, rfl⟩ <;> simp [irc_next, silent, step]
  · rcases hop with ⟨rfl, rfl⟩ | ⟨rfl, rfl⟩ | ⟨rfl, rfl⟩ <;> simp [irc_next, silent, step]
  · have e : irc_next ⟨X.sh, { prog := [op] }, X.envs, X.trace⟩
        = ⟨X.sh, (irc_next ⟨X.sh, { prog := [op] }, X.envs, X.trace⟩).loc, X.envs, X.trace⟩ := by
      rcases hop with ⟨rfl, rfl⟩ | ⟨rfl, rfl⟩ | ⟨rfl, rfl⟩ <;> simp [irc_next, silent, step]
    rw [← e]; exact h

theorem irc_inc_done (w now : Int) (hw : 0 < w) (X : IS) (hXw : X.w = w) (hn : 0 < X.sh.n) (hk : irc_KeepsN X.envs)
    (X' : IS) (h : irc_inc now X = (.ok (), X')) : irc_Done { prog := [.inc (reqOf w now)] } X X' := by
  have e1 := irc_ext_addT 1 X
  apply irc_finish _ X (irc_addT 1 X).2 X' _ (irc_first_inc (reqOf w now) X)
  simp only [irc_inc] at h
  rw [if_neg (by rw [e1.n hk]; omega)] at h
  obtain ⟨idx, X2, ha, hK⟩ := irc_bind_ok _ _ _ _ h
  obtain ⟨r, e2⟩ := irc_adv_R .inc w now hw _ _ (e1.w.trans hXw) (by rw [e1.n hk]; exact hn) (e1.keeps hk) idx X2 ha
  simp only [irc_incK] at hK
  by_cases hi : idx < 0
  · rw [if_pos hi] at hK
    obtain rfl : X2 = X' := by simpa using hK
    simpa [irc_idx, hi, afterAdvance] using r
  · rw [if_neg hi] at hK
    obtain rfl : (irc_addR 1 (irc_addB idx 1 X2).2).2 = X' := by simpa using hK
    have hidx : ((idx.toNat : Nat) : Int) = idx := by omega
    have r' : irc_R (enterAdvance (reqOf w now) .inc) (irc_addT 1 X).2 (.incBucket idx.toNat) X2 := by
      simpa [irc_idx, hi, afterAdvance] using r
    have s1 := irc_R_incBucket idx.toNat X2
    rw [hidx] at s1
    exact irc_R_trans r' (irc_R_trans s1 (irc_R_incRolling _))

theorem irc_sumAt_done (w now : Int) (hw : 0 < w) (X : IS) (hXw : X.w = w) (hn : 0 < X.sh.n) (hk : irc_KeepsN X.envs)
    (v : Int) (X' : IS) (h : irc_sumAt now X = (.ok v, X')) :
    irc_Done { prog := [.sumAt (reqOf w now)] } X X' ∧ X'.trace.getLast? = some (.load .rolling v) := by
  simp only [irc_sumAt] at h
  obtain ⟨idx, X2, ha, hK⟩ := irc_bind_ok _ _ _ _ h
  obtain ⟨r, e2⟩ := irc_adv_R .sumAt w now hw _ _ hXw hn hk idx X2 ha
  obtain ⟨rfl, rfl⟩ : (irc_getR X2).1 = v ∧ (irc_getR X2).2 = X' := by simpa using hK
  refine ⟨?_, by simp [irc_getR, irc_at]⟩
  apply irc_finish _ X X _ _ (irc_first_silent _ (reqOf w now) .sumAt (Or.inl ⟨rfl, rfl⟩) X)
  exact irc_R_trans r (irc_R_sumLoad X2)

theorem irc_goRange_range' (n : Nat) : goRange (n : Int) = (List.range' 0 n).map Int.ofNat := by
  simp [goRange, List.range_eq_range']

theorem irc_reset_loop : ∀ (r i : Nat) (X : IS), i + r = X.sh.n → irc_KeepsN X.envs →
    irc_R (.rsSwap i) X .next (((List.range' i r).map Int.ofNat).foldl irc_resetStep (PUnit.unit, X)).2 ∧
    irc_Ext X (((List.range' i r).map Int.ofNat).foldl irc_resetStep (PUnit.unit, X)).2 := by
  intro r
  induction r with
  | zero =>
    intro i X hi _
    exact ⟨irc_R_rsEnd i X (by omega), irc_ext_refl _⟩
  | succ r ih =>
    intro i X hi hk
    rw [List.range'_succ, List.map_cons, List.foldl_cons]
    have s1 := irc_R_rsSwap i X (by omega) (irc_nN_eq X hk)
    have e1 := irc_ext_swapB i 0 X
    have s2 := irc_R_rsDec i (irc_swapB i 0 X).1 (irc_swapB i 0 X).2
    have e2 := irc_ext_addR (-(irc_swapB i 0 X).1) (irc_swapB i 0 X).2
    have e12 := irc_ext_trans e1 e2
    have hst : irc_resetStep (PUnit.unit, X) (Int.ofNat i) = (PUnit.unit, (irc_addR (-(irc_swapB i 0 X).1) (irc_swapB i 0 X).2).2) := rfl
    rw [hst]
    generalize (irc_addR (-(irc_swapB i 0 X).1) (irc_swapB i 0 X).2).2 = X3 at s2 e12
    obtain ⟨r3, e3⟩ := ih (i + 1) X3 (by rw [e12.n hk]; omega) (e12.keeps hk)
    exact ⟨irc_R_trans s1 (irc_R_trans s2 r3), irc_ext_trans e12 e3⟩

theorem irc_reset_done (w now : Int) (hw : 0 < w) (X : IS) (hXw : X.w = w) (hn : 0 < X.sh.n) (hk : irc_KeepsN X.envs)
    (X' : IS) (h : irc_reset now X = (.ok (), X')) : irc_Done { prog := [.reset (reqOf w now)] } X X' := by
  simp only [irc_reset] at h
  obtain ⟨idx, X2, ha, hK⟩ := irc_bind_ok _ _ _ _ h
  obtain ⟨r, e2⟩ := irc_adv_R .reset w now hw _ _ hXw hn hk idx X2 ha
  rw [irc_goRange_range'] at hK
  obtain rfl : (((List.range' 0 X2.sh.n).map Int.ofNat).foldl irc_resetStep (PUnit.unit, X2)).2 = X' := by simpa using hK
  apply irc_finish _ X X _ _ (irc_first_silent _ (reqOf w now) .reset (Or.inr (Or.inr ⟨rfl, rfl⟩)) X)
  have r' : irc_R (enterAdvance (reqOf w now) .reset) X (.rsSwap 0) X2 := by
    simpa [afterAdvance] using r
  exact irc_R_trans r' (irc_reset_loop X2.sh.n 0 X2 (by omega) (e2.keeps hk)).1

theorem irc_gb_loop (S n : Nat) : ∀ (r i : Nat) (p : List Int × IS), i + r + 1 = n → p.2.sh.n = n → irc_KeepsN p.2.envs →
    irc_R (.gbLoad S i) p.2 .next (((List.range' i (r + 1)).map Int.ofNat).foldl (irc_gbStep S) p).2 := by
  intro r
  induction r with
  | zero =>
    intro i p hi hn hk
    have s1 := irc_R_gbLoad S i p.2
    rw [irc_nN_eq _ hk, if_neg (by omega), hn] at s1
    simpa [List.range'_succ, irc_gbStep, hn] using s1
  | succ r ih =>
    intro i p hi hn hk
    rw [List.range'_succ, List.map_cons, List.foldl_cons]
    have s1 := irc_R_gbLoad S i p.2
    rw [irc_nN_eq _ hk, if_pos (by omega)] at s1
    have e1 := irc_ext_getB (if (S : Int) - i < 0 then (S : Int) - i + p.2.sh.n else (S : Int) - i) p.2
    have := ih (i + 1) (irc_gbStep S p (Int.ofNat i)) (by omega) ((e1.n hk).trans hn) (e1.keeps hk)
    exact irc_R_trans s1 this

/-- (`loadObs` of I_RC.lean) -/
def irc_loadObs : Lab → Option Int
  | .load _ v => some v
  | _ => none

theorem irc_set_mid (vs : List Int) (m : Nat) (v : Int) :
    (vs ++ List.replicate (m + 1) 0).set vs.length v = (vs ++ [v]) ++ List.replicate m 0 := by
  rw [List.set_append_right _ _ (Nat.le_refl _), Nat.sub_self, List.replicate_succ, List.set_cons_zero, List.append_assoc]
  rfl

theorem irc_gb_fold (S : Int) (n : Nat) (X3 : IS) : ∀ k, k ≤ n →
    ∃ ls : List Lab, ls.length = k ∧
      (((List.range k).map Int.ofNat).foldl (irc_gbStep S) (List.replicate n 0, X3)).2.trace = X3.trace ++ ls ∧
      (ls.filterMap irc_loadObs).length = k ∧
      (((List.range k).map Int.ofNat).foldl (irc_gbStep S) (List.replicate n 0, X3)).1
        = ls.filterMap irc_loadObs ++ List.replicate (n - k) 0 := by
  intro k
  induction k with
  | zero => intro _; exact ⟨[], rfl, by simp, rfl, by simp⟩
  | succ k ih =>
    intro hk
    obtain ⟨ls, h1, h2, h3, h4⟩ := ih (by omega)
    rw [List.range_succ, List.map_append, List.foldl_append]
    generalize ((List.range k).map Int.ofNat).foldl (irc_gbStep S) (List.replicate n 0, X3) = q at h2 h4
    obtain ⟨ret, Y⟩ := q
    simp only at h2 h4
    simp only [List.map_cons, List.map_nil, List.foldl_cons, List.foldl_nil, irc_gbStep]
    generalize (if S - Int.ofNat k < 0 then S - Int.ofNat k + (Y.sh.n : Int) else S - Int.ofNat k) = idx
    refine ⟨ls ++ [.load (.bucket idx.toNat) (irc_getB idx Y).1], by simp [h1], ?_, ?_, ?_⟩
    · simp [irc_getB, irc_at, h2]
    · simp [List.filterMap_append, irc_loadObs, h3]
    · have e : n - k = (n - (k + 1)) + 1 := by omega
      rw [h4, e, goSet, show (Int.ofNat k).toNat = k from rfl]
      have := irc_set_mid (ls.filterMap irc_loadObs) (n - (k + 1)) (irc_getB idx Y).1
      rw [h3] at this
      rw [this]
      simp [List.filterMap_append, irc_loadObs]

theorem irc_getBuckets_done (w now : Int) (hw : 0 < w) (X : IS) (hXw : X.w = w) (hn : 0 < X.sh.n) (hk : irc_KeepsN X.envs)
    (bs : List Int) (X' : IS) (h : irc_getBuckets now X = (.ok bs, X')) :
    irc_Done { prog := [.getBuckets (reqOf w now)] } X X' ∧
      bs = ((X'.trace.reverse.take X.sh.n).reverse.filterMap irc_loadObs) := by
  simp only [irc_getBuckets] at h
  obtain ⟨idx, X2, ha, hK⟩ := irc_bind_ok _ _ _ _ h
  obtain ⟨r, e2⟩ := irc_adv_R .getBuckets w now hw _ _ hXw hn hk idx X2 ha
  have hk2 := e2.keeps hk
  have hn2 : X2.sh.n = X.sh.n := e2.n hk
  have e3 := irc_ext_load X2
  have hn3 : (irc_load X2).2.sh.n = X.sh.n := (e3.n hk2).trans hn2
  simp only [irc_gbK, hn3, irc_load_fst, irc_goMod_nat] at hK
  have s1 := irc_R_gbLast X2 (by rw [irc_nN_eq X2 hk2]; omega)
  rw [irc_nN_eq X2 hk2, hn2] at s1
  generalize irc_lastN X2 % X.sh.n = S at hK s1
  generalize (irc_load X2).2 = X3 at hK s1 e3 hn3
  obtain ⟨hbs, hX'⟩ : _ = bs ∧ _ = X' := by simpa using hK
  constructor
  · apply irc_finish _ X X _ _ (irc_first_silent _ (reqOf w now) .getBuckets (Or.inr (Or.inl ⟨rfl, rfl⟩)) X)
    have r' : irc_R (enterAdvance (reqOf w now) .getBuckets) X .gbLast X2 := by
      simpa [afterAdvance] using r
    refine irc_R_trans r' (irc_R_trans s1 ?_)
    obtain ⟨m, hm⟩ : ∃ m, X.sh.n = m + 1 := ⟨X.sh.n - 1, by omega⟩
    have := irc_gb_loop S X.sh.n m 0 (goMakeZeros X.sh.n, X3) (by omega) hn3 (e3.keeps hk2)
    rw [← hX', irc_goRange_range', hm]
    rw [hm] at this
    exact this
  · obtain ⟨ls, h1, h2, h3, h4⟩ := irc_gb_fold S X.sh.n X3 X.sh.n (Nat.le_refl _)
    simp only [goRange, Int.toNat_natCast, goMakeZeros] at hbs hX'
    rw [← hbs, ← hX', h2, h4]
    simp [h1]

/-! ### no panic; enough fuel -/

def irc_NP {α : Type} (r : Out α × IS) : Prop := ∀ v, r.1 ≠ .panic v

theorem irc_loop_np (adv : IS → Out Int × IS) (A : Int) (hadv : ∀ Y, irc_NP (adv Y)) :
    ∀ (r : Nat) (lv : Int) (X : IS), irc_NP (irc_loop adv A r lv X) := by
  intro r
  induction r with
  | zero => intro lv X; exact hadv _
  | succ r ih =>
    intro lv X
    simp only [irc_loop]
    split
    · split
      · exact ih _ _
      · exact hadv _
    · exact hadv _

theorem irc_adv_np (now : Int) : ∀ (f : Nat) (X : IS), irc_NP (irc_adv now f X) := by
  intro f
  induction f with
  | zero => intro X v h; cases h
  | succ f ih =>
    intro X
    simp only [irc_adv]
    repeat' split
    all_goals first
      | exact irc_loop_np _ _ ih _ _ _
      | (intro v h; cases h)

theorem irc_inc_ok_or (now : Int) (X : IS) : (irc_inc now X).1 = .ok () ∨ (irc_inc now X).1 = .nilCall := by
  simp only [irc_inc]
  split
  · exact Or.inl rfl
  · have hnp := irc_adv_np now (irc_addT 1 X).2.fuel (irc_addT 1 X).2
    rcases h : irc_adv now (irc_addT 1 X).2.fuel (irc_addT 1 X).2 with ⟨o, X2⟩
    rw [h] at hnp
    cases o with
    | ok idx =>
      simp only [irc_bind, irc_incK]
      split <;> exact Or.inl rfl
    | panic v => exact absurd rfl (hnp v)
    | nilCall => exact Or.inr rfl

def irc_IsOk {α : Type} (r : Out α × IS) : Prop := ∃ a, r.1 = .ok a

/-- with the oracle exhausted every CompareAndSwap succeeds -/
theorem irc_cas_quiet (lv new : Int) (X : IS) (he : X.envs = []) (hl : (X.sh.last : Int) = lv) :
    (irc_cas lv new X).1 = true ∧ (irc_cas lv new X).2.envs = [] ∧ (irc_cas lv new X).2.sh.last = new.toNat ∧
      (irc_cas lv new X).2.w = X.w := by
  simp [irc_cas, irc_at, he, popEnv, hl]

theorem irc_clear_quiet (i : Int) (X : IS) (he : X.envs = []) :
    (irc_clear i X).envs = [] ∧ (irc_clear i X).sh.last = X.sh.last ∧ (irc_clear i X).w = X.w := by
  simp [irc_clear, irc_swapB, irc_addR, irc_at, he, popEnv]

theorem irc_loop_quiet (adv : IS → Out Int × IS) (A w : Int)
    (hadv : ∀ Y : IS, Y.envs = [] → (Y.sh.last : Int) = A → Y.w = w → irc_IsOk (adv Y)) :
    ∀ (r : Nat) (lv : Int) (X : IS), X.envs = [] → (X.sh.last : Int) = lv → lv ≤ A → X.w = w →
      irc_IsOk (irc_loop adv A r lv X) := by
  have hfin : ∀ (lv : Int) (X : IS), X.envs = [] → (X.sh.last : Int) = lv → lv ≤ A → X.w = w →
      irc_IsOk (adv (irc_cas lv A X).2) := by
    intro lv X he hl hle hw
    obtain ⟨_, h2, h3, h4⟩ := irc_cas_quiet lv A X he hl
    exact hadv _ h2 (by rw [h3]; omega) (h4.trans hw)
  intro r
  induction r with
  | zero => intro lv X he hl hle hw; exact hfin lv X he hl hle hw
  | succ r ih =>
    intro lv X he hl hle hw
    simp only [irc_loop]
    by_cases hlt : lv < A
    · obtain ⟨h1, h2, h3, h4⟩ := irc_cas_quiet lv (lv + 1) X he hl
      rw [if_pos hlt, if_pos h1]
      obtain ⟨c1, c2, c3⟩ := irc_clear_quiet (goMod (lv + 1) (irc_cas lv (lv + 1) X).2.sh.n) _ h2
      exact ih _ _ c1 (by rw [c2, h3]; omega) (by omega) (c3.trans (h4.trans hw))
    · rw [if_neg hlt]
      exact hfin lv X he hl hle hw

theorem irc_load_quiet (X : IS) (he : X.envs = []) :
    (irc_load X).1 = (X.sh.last : Int) ∧ (irc_load X).2.envs = [] ∧ (irc_load X).2.sh.last = X.sh.last ∧
      (irc_load X).2.w = X.w := by
  simp [irc_load, irc_at, he, popEnv]

/-- the oracle exhausted and `LastAbsIndex` already there: `Advance` returns at once -/
theorem irc_adv_sync (now : Int) (f : Nat) (Y : IS) (he : Y.envs = [])
    (hl : (Y.sh.last : Int) = goDiv (now - 0) Y.w) : irc_IsOk (irc_adv now (f + 1) Y) := by
  simp only [irc_adv]
  split
  · exact ⟨_, rfl⟩
  split
  · exact ⟨_, rfl⟩
  rw [if_pos (by rw [(irc_load_quiet Y he).1]; omega)]
  exact ⟨_, rfl⟩

/-- the oracle exhausted: one self-call is enough -/
theorem irc_adv_quiet (now : Int) (f : Nat) (X : IS) (he : X.envs = []) : irc_IsOk (irc_adv now (f + 2) X) := by
  rw [irc_adv]
  repeat' split
  all_goals first
    | exact ⟨_, rfl⟩
    | skip
  obtain ⟨l1, l2, l3, l4⟩ := irc_load_quiet X he
  apply irc_loop_quiet (irc_adv now (f + 1)) (goDiv (now - 0) X.w) X.w
  · intro Y hYe hYl hYw
    exact irc_adv_sync now f Y hYe (by rw [hYw]; exact hYl)
  · exact l2
  · rw [l3, l1]
  · omega
  · exact l4

/-- every self-call of the loop is made with no more of the oracle left than the loop started with -/
theorem irc_loop_len (adv : IS → Out Int × IS) (A : Int) (m : Nat)
    (hadv : ∀ Y : IS, Y.envs.length ≤ m → irc_IsOk (adv Y)) :
    ∀ (r : Nat) (lv : Int) (X : IS), X.envs.length ≤ m → irc_IsOk (irc_loop adv A r lv X) := by
  intro r
  induction r with
  | zero =>
    intro lv X hX
    exact hadv _ (Nat.le_trans (irc_ext_cas lv A X).len hX)
  | succ r ih =>
    intro lv X hX
    simp only [irc_loop]
    split
    · split
      · exact ih _ _ (Nat.le_trans (irc_ext_clear _ _).len (Nat.le_trans (irc_ext_cas _ _ X).len hX))
      · exact hadv _ (Nat.le_trans (irc_ext_cas _ _ X).len hX)
    · exact hadv _ (Nat.le_trans (irc_ext_cas lv A X).len hX)

theorem irc_adv_enough (now : Int) : ∀ (f : Nat) (X : IS), X.envs.length + 3 ≤ f → irc_IsOk (irc_adv now f X) := by
  intro f
  induction f with
  | zero => intro X h; omega
  | succ f ih =>
    intro X hf
    rw [irc_adv]
    repeat' split
    all_goals first
      | exact ⟨_, rfl⟩
      | skip
    apply irc_loop_len (irc_adv now f) _ (X.envs.length - 1)
    · intro Y hY
      by_cases he : X.envs.length = 0
      · obtain ⟨f', rfl⟩ : ∃ f', f = f' + 2 := ⟨f - 2, by omega⟩
        exact irc_adv_quiet now f' Y (List.eq_nil_of_length_eq_zero (by omega))
      · exact ih Y (by omega)
    · show (irc_at _ X).2.envs.length ≤ _
      rw [irc_at_len]; exact Nat.le_refl _

theorem irc_inc_enough (now : Int) (X : IS) (hf : X.envs.length + 3 ≤ X.fuel) : (irc_inc now X).1 = .ok () := by
  simp only [irc_inc]
  split
  · rfl
  · have e := irc_ext_addT 1 X
    obtain ⟨idx, h⟩ := irc_adv_enough now (irc_addT 1 X).2.fuel (irc_addT 1 X).2 (by rw [e.fuel]; have := e.len; omega)
    rcases hr : irc_adv now (irc_addT 1 X).2.fuel (irc_addT 1 X).2 with ⟨o, X2⟩
    rw [hr] at h
    simp only at h
    subst h
    simp only [irc_bind, irc_incK]
    split <;> rfl

end CM.GoTie.IRC


/- GoTie/Basic.lean — helper lemmas about the Go-semantics monad (GoSem.lean) and the primitives (GoCircuitPrims.lean)
   shared by the per-function ties.  Nothing here mentions a generated function. -/
import CircuitModel.GoCircuitSpec
namespace CM.GoTie
open CM CM.Go CM.GoCircuit

section Sem
variable {σ tok α β : Type}

/-- nothing to unwind when the defer stack is not above the height -/
theorem gt_unwind_le (rt : tok → M σ tok Unit) (h n : Nat) (g : GS σ tok) (hle : g.defers.length ≤ h) :
    unwind rt h n g = g := by
  cases n with
  | zero => rfl
  | succ n => simp [unwind, hle]

@[simp] theorem gt_unwind_self (rt : tok → M σ tok Unit) (n : Nat) (g : GS σ tok) :
    unwind rt g.defers.length n g = g := gt_unwind_le rt _ n g (Nat.le_refl _)

/-- exactly one token above the height: it is run once -/
theorem gt_unwind_one (rt : tok → M σ tok Unit) (n : Nat) (st : σ) (t : tok) (ds : List tok)
    (hkeep : (rt t { st := st, defers := ds }).2.defers = ds) :
    unwind rt ds.length (n + 1) { st := st, defers := t :: ds } = (rt t { st := st, defers := ds }).2 := by
  simp only [unwind, List.length_cons]
  rw [if_neg (by omega)]
  apply gt_unwind_le
  rw [hkeep]
  exact Nat.le_refl _

/-- an `if` between two computations, applied to a state -/
theorem gt_ite_apply (c : Prop) [Decidable c] (f h : M σ tok α) (x : GS σ tok) :
    (if c then f else h) x = if c then f x else h x := by
  split <;> rfl

theorem gt_ite_fun_apply {γ δ : Type} (c : Prop) [Decidable c] (f h : γ → δ) (x : γ) :
    (if c then f else h) x = if c then f x else h x := by
  split <;> rfl

theorem gt_pure_apply (a : α) (g : GS σ tok) : (pure a : M σ tok α) g = (.ok a, g) := rfl

/-- the continuation step of `bind`, as a function of the first computation's result (so that it can be pushed
    through an `if`) -/
def gt_bindK (r : Out α × GS σ tok) (f : α → M σ tok β) : Out β × GS σ tok :=
  match r with
  | (.ok a, s') => f a s'
  | (.panic v, s') => (.panic v, s')
  | (.nilCall, s') => (.nilCall, s')

theorem gt_bind_apply (m : M σ tok α) (f : α → M σ tok β) (g : GS σ tok) :
    (m >>= f) g = gt_bindK (m g) f := rfl

theorem gt_bindK_ok (a : α) (s : GS σ tok) (f : α → M σ tok β) : gt_bindK (.ok a, s) f = f a s := rfl
theorem gt_bindK_panic (v : Nat) (s : GS σ tok) (f : α → M σ tok β) :
    gt_bindK ((.panic v : Out α), s) f = (.panic v, s) := rfl
theorem gt_bindK_nilCall (s : GS σ tok) (f : α → M σ tok β) :
    gt_bindK ((.nilCall : Out α), s) f = (.nilCall, s) := rfl
theorem gt_bindK_ite (c : Prop) [Decidable c] (x y : Out α × GS σ tok) (f : α → M σ tok β) :
    gt_bindK (if c then x else y) f = if c then gt_bindK x f else gt_bindK y f := by
  split <;> rfl

/-- bind after a computation whose outcome at `g` is known to be `ok` -/
theorem gt_bind_ok (m : M σ tok α) (f : α → M σ tok β) (g g' : GS σ tok) (a : α) (h : m g = (.ok a, g')) :
    (m >>= f) g = f a g' := by
  rw [gt_bind_apply, h, gt_bindK_ok]

/-- a body that leaves the defer stack as it found it: `goFunc` adds nothing -/
theorem gt_goFunc_keep (rt : tok → M σ tok Unit) (body : M σ tok α) (g : GS σ tok)
    (h : (body g).2.defers = g.defers) : goFunc rt body g = body g := by
  simp only [goFunc]
  rw [gt_unwind_le _ _ _ _ (by rw [h]; exact Nat.le_refl _)]

end Sem

section Prims
variable {σo σc : Type} {α : Type}

@[simp] theorem gt_onS_st (g : G σo σc) (f : St σo σc → St σo σc) : (onS g f).st.s = f g.st.s := rfl
@[simp] theorem gt_onS_defers (g : G σo σc) (f : St σo σc → St σo σc) : (onS g f).defers = g.defers := rfl
@[simp] theorem gt_onS_caller (g : G σo σc) (f : St σo σc → St σo σc) : (onS g f).st.caller = g.st.caller := rfl
@[simp] theorem gt_onS_callerErr (g : G σo σc) (f : St σo σc → St σo σc) : (onS g f).st.callerErr = g.st.callerErr := rfl
@[simp] theorem gt_onS_stuck (g : G σo σc) (f : St σo σc → St σo σc) : (onS g f).st.stuck = g.st.stuck := rfl

theorem gt_onS_onS (g : G σo σc) (f h : St σo σc → St σo σc) : onS (onS g f) h = onS g (fun s => h (f s)) := rfl

theorem gt_onS_id (g : G σo σc) : onS g (fun s => s) = g := rfl

theorem gt_onSt_apply (f : St σo σc → St σo σc) (g : G σo σc) :
    (onSt f : GM σo σc Unit) g = (.ok (), onS g f) := rfl

theorem gt_readCfg_apply (f : LiveCfg → α) (g : G σo σc) :
    (readCfg f : GM σo σc α) g = (.ok (f g.st.s.1.cfg), g) := rfl

theorem gt_runTok_unlock (g : G σo σc) :
    runTok (σo := σo) (σc := σc) (.prim "recv_transitionMu_Unlock") g = (.ok (), g) := rfl

/-- a package function whose body leaves the defer stack alone -/
theorem gt_fn_keep (body : GM σo σc α) (g : G σo σc) (h : (body g).2.defers = g.defers) :
    fn body g = body g := gt_goFunc_keep _ body g h

/-- a package function whose body ends with exactly the transition mutex's unlock deferred -/
theorem gt_fn_unlock (body : GM σo σc α) (g : G σo σc)
    (h : (body g).2.defers = .prim "recv_transitionMu_Unlock" :: g.defers) :
    fn body g = ((body g).1, { (body g).2 with defers := g.defers }) := by
  simp only [fn, goFunc]
  generalize body g = r at h
  rcases r with ⟨a, st, ds⟩
  simp only at h
  subst h
  simp only [List.length_cons]
  rw [gt_unwind_one]
  · rfl
  · rfl

/-! ### what each primitive does to a state -/
theorem gt_deferPrim_apply (c : String) (g : G σo σc) :
    (deferPrim c : GM σo σc Unit) g = (.ok (), { g with defers := .prim c :: g.defers }) := rfl

theorem gt_cfg_forceOpen (g : G σo σc) :
    (recv_threadSafeConfig_CircuitBreaker_ForceOpen_Get : GM σo σc Bool) g = (.ok g.st.s.1.cfg.forceOpen, g) := rfl
theorem gt_cfg_forcedClosed (g : G σo σc) :
    (recv_threadSafeConfig_CircuitBreaker_ForcedClosed_Get : GM σo σc Bool) g = (.ok g.st.s.1.cfg.forcedClosed, g) := rfl
theorem gt_cfg_disabled (g : G σo σc) :
    (recv_threadSafeConfig_CircuitBreaker_Disabled_Get : GM σo σc Bool) g = (.ok g.st.s.1.cfg.disabled, g) := rfl
theorem gt_cfg_maxConc (g : G σo σc) :
    (recv_threadSafeConfig_Execution_MaxConcurrentRequests_Get : GM σo σc Int) g = (.ok g.st.s.1.cfg.maxConc, g) := rfl
theorem gt_cfg_timeout (g : G σo σc) :
    (recv_threadSafeConfig_Execution_ExecutionTimeout_Duration : GM σo σc Dur) g = (.ok g.st.s.1.cfg.timeout, g) := rfl
theorem gt_cfg_fbDisabled (g : G σo σc) :
    (recv_threadSafeConfig_Fallback_Disabled_Get : GM σo σc Bool) g = (.ok g.st.s.1.cfg.fbDisabled, g) := rfl
theorem gt_cfg_fbMaxConc (g : G σo σc) :
    (recv_threadSafeConfig_Fallback_MaxConcurrentRequests_Get : GM σo σc Int) g = (.ok g.st.s.1.cfg.fbMaxConc, g) := rfl
theorem gt_cfg_ignoreInterrupts (g : G σo σc) :
    (recv_threadSafeConfig_GoSpecific_IgnoreInterrupts_Get : GM σo σc Bool) g = (.ok g.st.s.1.cfg.ignoreInterrupts, g) := rfl

theorem gt_cfg_iei (g : G σo σc) :
    (recv_notThreadSafeConfig_Execution_IsErrInterrupt : GM σo σc (Option (Err → Bool))) g =
      (.ok (match g.st.s.1.cfg.iei with
        | .unset => none
        | other => some fun e => match e with
          | some (.ctx ce) => other.verdict ce
          | _ => false), g) := rfl

theorem gt_transitionMu_Lock (g : G σo σc) : (recv_transitionMu_Lock : GM σo σc Unit) g = (.ok (), g) := rfl
theorem gt_transitionMu_Unlock (g : G σo σc) : (recv_transitionMu_Unlock : GM σo σc Unit) g = (.ok (), g) := rfl
theorem gt_cfgMu_Lock (g : G σo σc) : (recv_notThreadSafeConfigMu_Lock : GM σo σc Unit) g = (.ok (), g) := rfl
theorem gt_cfgMu_Unlock (g : G σo σc) : (recv_notThreadSafeConfigMu_Unlock : GM σo σc Unit) g = (.ok (), g) := rfl

theorem gt_isOpen_Get (g : G σo σc) : (recv_isOpen_Get : GM σo σc Bool) g = (.ok g.st.s.1.isOpen, g) := rfl
theorem gt_isOpen_Set (b : Bool) (g : G σo σc) :
    (recv_isOpen_Set b : GM σo σc Unit) g = (.ok (), onS g fun s => ({ s.1 with isOpen := b }, s.2)) := rfl
theorem gt_conc_Get (g : G σo σc) : (recv_concurrentCommands_Get : GM σo σc Int) g = (.ok g.st.s.1.conc, g) := rfl
theorem gt_concFb_Get (g : G σo σc) : (recv_concurrentFallbacks_Get : GM σo σc Int) g = (.ok g.st.s.1.concFb, g) := rfl
theorem gt_conc_Add (n : Int) (g : G σo σc) :
    (recv_concurrentCommands_Add n : GM σo σc Int) g =
      (.ok (g.st.s.1.conc + n), onS g fun s => ({ s.1 with conc := s.1.conc + n }, s.2)) := rfl
theorem gt_concFb_Add (n : Int) (g : G σo σc) :
    (recv_concurrentFallbacks_Add n : GM σo σc Int) g =
      (.ok (g.st.s.1.concFb + n), onS g fun s => ({ s.1 with concFb := s.1.concFb + n }, s.2)) := rfl
theorem gt_OpenToClose (g : G σo σc) : (recv_OpenToClose : GM σo σc Iface) g = (.ok {}, g) := rfl
theorem gt_ClosedToOpen (g : G σo σc) : (recv_ClosedToOpen : GM σo σc Iface) g = (.ok {}, g) := rfl

theorem gt_timeNow (g : G σo σc) :
    (recv_timeNow : GM σo σc GoTime) g = (.ok (.at g.st.s.1.clock), onS g fun s => (CM.now s).2) := rfl

theorem gt_time_Add (t : GoTime) (d : Dur) (g : G σo σc) :
    (t.m_Add d : GM σo σc GoTime) g = (.ok (.at (t.val + d)), g) := rfl
theorem gt_time_Sub (t u : GoTime) (g : G σo σc) :
    (t.m_Sub u : GM σo σc Dur) g = (.ok (t.val - u.val), g) := rfl
theorem gt_time_IsZero (t : GoTime) (g : G σo σc) :
    (t.m_IsZero : GM σo σc Bool) g = (.ok (t == .zero), g) := rfl
theorem gt_time_Before (t u : GoTime) (g : G σo σc) :
    (t.m_Before u : GM σo σc Bool) g = (.ok (decide (t.val < u.val)), g) := rfl

theorem gt_ctx_Err (c : GoCtx) (g : G σo σc) :
    (c.m_Err : GM σo σc Err) g = (.ok (g.st.callerErr.map ErrV.ctx), g) := rfl

theorem gt_IsBadRequest (e : Err) (g : G σo σc) :
    (pkg_IsBadRequest e : GM σo σc Bool) g = (.ok (match e with | some e => e.isBad | none => false), g) := rfl

theorem gt_call1_some {β γ : Type} (f : β → γ) (a : β) (g : G σo σc) :
    (Call1.call (m := GM σo σc) (some f) a) g = (.ok (f a), g) := rfl
theorem gt_call1_none {β γ : Type} (a : β) (g : G σo σc) :
    (Call1.call (m := GM σo σc) (none : Option (β → γ)) a) g = (.nilCall, g) := rfl

theorem gt_isNil_recv (r : Recv) : isNil r = false := rfl
theorem gt_isNil_iface (r : Iface) : isNil r = false := rfl
theorem gt_isNil_option {β : Type} (o : Option β) : isNil o = o.isNone := rfl
theorem gt_isNil_fn0 (f : Fn0) : isNil f = (f == .nilFn) := rfl
theorem gt_nil_option {β : Type} : (GoNil.nil : Option β) = none := rfl

end Prims

section Logic
variable {σo σc : Type} [L : Logic σo σc]

theorem gt_Allow (c : GoCtx) (t : GoTime) (g : G σo σc) :
    (recv_OpenToClose_Allow c t : GM σo σc Bool) g =
      (.ok (L.C.allow g.st.s.1.closer t.val).2,
        onS g fun s => ({ s.1 with closer := (L.C.allow s.1.closer t.val).1 }, s.2)) := rfl
theorem gt_ShouldClose (c : GoCtx) (t : GoTime) (g : G σo σc) :
    (recv_OpenToClose_ShouldClose c t : GM σo σc Bool) g =
      (.ok (L.C.shouldClose g.st.s.1.closer t.val).2,
        onS g fun s => ({ s.1 with closer := (L.C.shouldClose s.1.closer t.val).1 }, s.2)) := rfl
theorem gt_ShouldOpen (c : GoCtx) (t : GoTime) (g : G σo σc) :
    (recv_ClosedToOpen_ShouldOpen c t : GM σo σc Bool) g =
      (.ok (L.O.shouldOpen g.st.s.1.opener t.val).2,
        onS g fun s => ({ s.1 with opener := (L.O.shouldOpen s.1.opener t.val).1 }, s.2)) := rfl
theorem gt_Prevent (c : GoCtx) (t : GoTime) (g : G σo σc) :
    (recv_ClosedToOpen_Prevent c t : GM σo σc Bool) g =
      (.ok (L.O.prevent g.st.s.1.opener t.val).2,
        onS g fun s => ({ s.1 with opener := (L.O.prevent s.1.opener t.val).1 }, s.2)) := rfl

theorem gt_Opened (c : GoCtx) (t : GoTime) (g : G σo σc) :
    (recv_CircuitMetricsCollector_Opened c t : GM σo σc Unit) g =
      (.ok (), onS g fun s =>
        ({ s.1 with closer := L.C.onOpened s.1.closer t.val, opener := L.O.onOpened s.1.opener t.val },
         { s.2 with emits := s.2.emits ++ [.opened t.val] })) := rfl
theorem gt_Closed (c : GoCtx) (t : GoTime) (g : G σo σc) :
    (recv_CircuitMetricsCollector_Closed c t : GM σo σc Unit) g =
      (.ok (), onS g fun s =>
        ({ s.1 with closer := L.C.onClosed s.1.closer t.val, opener := L.O.onClosed s.1.opener t.val },
         { s.2 with emits := s.2.emits ++ [.closed t.val] })) := rfl

theorem gt_Cmd_Success (c : GoCtx) (t : GoTime) (d : Dur) (g : G σo σc) :
    (recv_CmdMetricCollector_Success c t d : GM σo σc Unit) g = (.ok (), onS g fun s => emitRun L.O L.C s .success t.val d) := rfl
theorem gt_Cmd_ErrFailure (c : GoCtx) (t : GoTime) (d : Dur) (g : G σo σc) :
    (recv_CmdMetricCollector_ErrFailure c t d : GM σo σc Unit) g = (.ok (), onS g fun s => emitRun L.O L.C s .failure t.val d) := rfl
theorem gt_Cmd_ErrTimeout (c : GoCtx) (t : GoTime) (d : Dur) (g : G σo σc) :
    (recv_CmdMetricCollector_ErrTimeout c t d : GM σo σc Unit) g = (.ok (), onS g fun s => emitRun L.O L.C s .timeout t.val d) := rfl
theorem gt_Cmd_ErrBadRequest (c : GoCtx) (t : GoTime) (d : Dur) (g : G σo σc) :
    (recv_CmdMetricCollector_ErrBadRequest c t d : GM σo σc Unit) g = (.ok (), onS g fun s => emitRun L.O L.C s .badRequest t.val d) := rfl
theorem gt_Cmd_ErrInterrupt (c : GoCtx) (t : GoTime) (d : Dur) (g : G σo σc) :
    (recv_CmdMetricCollector_ErrInterrupt c t d : GM σo σc Unit) g = (.ok (), onS g fun s => emitRun L.O L.C s .interrupt t.val d) := rfl
theorem gt_Cmd_Reject (c : GoCtx) (t : GoTime) (g : G σo σc) :
    (recv_CmdMetricCollector_ErrConcurrencyLimitReject c t : GM σo σc Unit) g = (.ok (), onS g fun s => emitRun L.O L.C s .reject t.val 0) := rfl
theorem gt_Cmd_ShortCircuit (c : GoCtx) (t : GoTime) (g : G σo σc) :
    (recv_CmdMetricCollector_ErrShortCircuit c t : GM σo σc Unit) g = (.ok (), onS g fun s => emitRun L.O L.C s .shortCircuit t.val 0) := rfl

end Logic

/-- evaluate a translated body on a state: monad laws, `if` between computations, every primitive -/
syntax "gt_eval" (" [" Lean.Parser.Tactic.simpLemma,* "]")? : tactic
macro_rules
  | `(tactic| gt_eval) => `(tactic| gt_eval [])
  | `(tactic| gt_eval [$ls,*]) => `(tactic|
      simp only [gt_bind_apply, gt_bindK_ok, gt_bindK_panic, gt_bindK_nilCall, gt_bindK_ite, gt_pure_apply, gt_ite_apply,
        goOr, goAnd,
        gt_deferPrim_apply, gt_cfg_forceOpen, gt_cfg_forcedClosed, gt_cfg_disabled, gt_cfg_maxConc, gt_cfg_timeout,
        gt_cfg_fbDisabled, gt_cfg_fbMaxConc, gt_cfg_ignoreInterrupts, gt_cfg_iei,
        gt_transitionMu_Lock, gt_transitionMu_Unlock, gt_cfgMu_Lock, gt_cfgMu_Unlock,
        gt_isOpen_Get, gt_isOpen_Set, gt_conc_Get, gt_concFb_Get, gt_conc_Add, gt_concFb_Add,
        gt_OpenToClose, gt_ClosedToOpen, gt_timeNow, gt_time_Add, gt_time_Sub, gt_time_IsZero, gt_time_Before,
        gt_ctx_Err, gt_IsBadRequest, gt_call1_some, gt_call1_none,
        gt_Allow, gt_ShouldClose, gt_ShouldOpen, gt_Prevent, gt_Opened, gt_Closed,
        gt_Cmd_Success, gt_Cmd_ErrFailure, gt_Cmd_ErrTimeout, gt_Cmd_ErrBadRequest, gt_Cmd_ErrInterrupt,
        gt_Cmd_Reject, gt_Cmd_ShortCircuit,
        gt_isNil_recv, gt_isNil_iface, gt_isNil_option, gt_isNil_fn0, gt_nil_option,
        gt_onS_st, gt_onS_defers, gt_onS_caller, gt_onS_callerErr, gt_onS_stuck, gt_onS_onS,
        Bool.false_eq_true, Bool.not_true, Bool.not_false, reduceIte, $ls,*])

end CM.GoTie

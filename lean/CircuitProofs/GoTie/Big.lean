/- GoTie/Big.lean — helper lemmas for the ties of `run`, `fallback`, `Execute`, `Run`.
   Nothing here mentions a generated function. -/
import CircuitModel.GoCircuitSpec
namespace CM.GoTie
open CM CM.Go CM.GoCircuit

section mon
variable {σ tok α β : Type}

theorem gtb_unwind_le (rt : tok → M σ tok Unit) (h n : Nat) (s : GS σ tok) (hle : s.defers.length ≤ h) :
    unwind rt h n s = s := by
  cases n <;> simp [unwind, hle]

theorem gtb_unwind_nil (rt : tok → M σ tok Unit) (h n : Nat) (s : GS σ tok) (hd : s.defers = []) :
    unwind rt h n s = s := by
  apply gtb_unwind_le; simp [hd]

theorem gtb_bind_pure (m : M σ tok α) : (m >>= fun a => pure a) = m := by
  funext g
  show (match m g with | (.ok a, s') => _ | (.panic v, s') => _ | (.nilCall, s') => _) = _
  rcases h : m g with ⟨o, s'⟩
  cases o <;> rfl

theorem gtb_unwind_one (rt : tok → M σ tok Unit) (st : σ) (t : tok) (d : List tok) (n : Nat)
    (h : (rt t ⟨st, d⟩).2.defers = d) :
    unwind rt d.length (n + 1) ⟨st, t :: d⟩ = (rt t ⟨st, d⟩).2 := by
  simp only [unwind, List.length_cons]
  rw [if_neg (by omega)]
  apply gtb_unwind_le
  rw [h]; exact Nat.le_refl _

theorem gtb_unwind_two (rt : tok → M σ tok Unit) (st : σ) (t1 t2 : tok) (d : List tok) (n : Nat)
    (h1 : (rt t1 ⟨st, t2 :: d⟩).2.defers = t2 :: d)
    (h2 : (rt t2 ⟨(rt t1 ⟨st, t2 :: d⟩).2.st, d⟩).2.defers = d) :
    unwind rt d.length (n + 2) ⟨st, t1 :: t2 :: d⟩ = (rt t2 ⟨(rt t1 ⟨st, t2 :: d⟩).2.st, d⟩).2 := by
  simp only [unwind, List.length_cons]
  rw [if_neg (by omega)]
  have : (rt t1 ⟨st, t2 :: d⟩).2 = ⟨(rt t1 ⟨st, t2 :: d⟩).2.st, t2 :: d⟩ := by
    generalize (rt t1 ⟨st, t2 :: d⟩).2 = x at h1 ⊢
    cases x; simp only at h1; subst h1; rfl
  rw [this]
  exact gtb_unwind_one rt _ t2 d n h2

end mon

section prims
variable {σo σc : Type}

theorem gtb_runTok_cmdDec (g : G σo σc) :
    runTok (.prim "recv_concurrentCommands_Add (-1)") g =
      (.ok (), onS g fun s => ({ s.1 with conc := s.1.conc - 1 }, s.2)) := by
  simp [runTok, recv_concurrentCommands_Add, onSt, Go.modify, Go.get, bind, pure, onS, Int.sub_eq_add_neg]

theorem gtb_runTok_fbDec (g : G σo σc) :
    runTok (.prim "recv_concurrentFallbacks_Add (-1)") g =
      (.ok (), onS g fun s => ({ s.1 with concFb := s.1.concFb - 1 }, s.2)) := by
  simp [runTok, recv_concurrentFallbacks_Add, onSt, Go.modify, Go.get, bind, pure, onS, Int.sub_eq_add_neg]

theorem gtb_runTok_cancel (g : G σo σc) :
    runTok .cancel g = (.ok (), onS g fun s => (s.1, { s.2 with released := some true })) := by
  simp [runTok, Call0.call, onSt, Go.modify, onS]

end prims

section frame
variable {σo σc : Type} (O : OpenerI σo) (C : CloserI σc)

theorem gtb_allowNewRun_obs (s : St σo σc) (t : Int) : (allowNewRun C s t).1.2 = s.2 := by
  unfold allowNewRun
  split
  · rfl
  · split <;> rfl

theorem gtb_emitRun_runSeen (s : St σo σc) (k : Kind) (t d : Int) : (emitRun O C s k t d).2.runSeen = s.2.runSeen := rfl
theorem gtb_emitRun_released (s : St σo σc) (k : Kind) (t d : Int) : (emitRun O C s k t d).2.released = s.2.released := rfl

theorem gtb_openCircuit_runSeen (s : St σo σc) (t : Int) : (openCircuit O C s t).2.runSeen = s.2.runSeen := by
  unfold openCircuit; split; · rfl
  split <;> rfl
theorem gtb_openCircuit_released (s : St σo σc) (t : Int) : (openCircuit O C s t).2.released = s.2.released := by
  unfold openCircuit; split; · rfl
  split <;> rfl

theorem gtb_attemptToOpen_runSeen (s : St σo σc) (t : Int) : (attemptToOpen O C s t).2.runSeen = s.2.runSeen := by
  unfold attemptToOpen; split; · rfl
  split; · rfl
  simp only
  split
  · rw [gtb_openCircuit_runSeen]
  · rfl
theorem gtb_attemptToOpen_released (s : St σo σc) (t : Int) : (attemptToOpen O C s t).2.released = s.2.released := by
  unfold attemptToOpen; split; · rfl
  split; · rfl
  simp only
  split
  · rw [gtb_openCircuit_released]
  · rfl

theorem gtb_closeCircuit_runSeen (s : St σo σc) (t : Int) (f : Bool) : (closeCircuit O C s t f).2.runSeen = s.2.runSeen := by
  cases f <;> simp only [closeCircuit] <;> (repeat' split) <;> rfl
theorem gtb_closeCircuit_released (s : St σo σc) (t : Int) (f : Bool) : (closeCircuit O C s t f).2.released = s.2.released := by
  cases f <;> simp only [closeCircuit] <;> (repeat' split) <;> rfl

theorem gtb_now_runSeen (s : St σo σc) : (now s).2.2.runSeen = s.2.runSeen := rfl
theorem gtb_now_released (s : St σo σc) : (now s).2.2.released = s.2.released := rfl

theorem gtb_classify_runSeen (s : St σo σc) (ctx : CallerCtx) (sc : Script) (ret : Option ErrV) (start : Int) :
    (classify O C s ctx sc ret start).2.runSeen = s.2.runSeen := by
  simp only [classify]
  (repeat' split) <;>
    simp only [gtb_emitRun_runSeen, gtb_attemptToOpen_runSeen, gtb_closeCircuit_runSeen, gtb_now_runSeen]

theorem gtb_classify_released (s : St σo σc) (ctx : CallerCtx) (sc : Script) (ret : Option ErrV) (start : Int) :
    (classify O C s ctx sc ret start).2.released = s.2.released := by
  simp only [classify]
  (repeat' split) <;>
    simp only [gtb_emitRun_released, gtb_attemptToOpen_released, gtb_closeCircuit_released, gtb_now_released]

theorem gtb_obs_released_eta (o : Obs) (x : Option Bool) (h : o.released = x) : { o with released := x } = o := by
  cases o; simp only at h; subst h; rfl

theorem gtb_obs_eq_mk (o : Obs) (rs : Option Seen) (rel : Option Bool) :
    (o = { emits := o.emits, readings := o.readings, runSeen := rs, fbArg := o.fbArg, fbSameCtx := o.fbSameCtx,
           released := rel }) ↔ (o.runSeen = rs ∧ o.released = rel) := by
  cases o
  simp

theorem gtb_ctxErrAfter_eq (ctx : CallerCtx) (sc : Script) : ctxErrAfter ctx sc = cancelBy sc ctx.err := by
  unfold ctxErrAfter cancelBy
  cases ctx.err <;> rfl

/-! ### the `released` mark is carried along unchanged by everything the classification chain does -/

/-- overwrite the `released` mark of the observations -/
def gtb_setRel (x : Option Bool) (s : St σo σc) : St σo σc := (s.1, { s.2 with released := x })

theorem gtb_setRel_fst (x : Option Bool) (s : St σo σc) : (gtb_setRel x s).1 = s.1 := rfl
theorem gtb_setRel_setRel (x y : Option Bool) (s : St σo σc) : gtb_setRel x (gtb_setRel y s) = gtb_setRel x s := rfl
theorem gtb_now_setRel (x : Option Bool) (s : St σo σc) :
    now (gtb_setRel x s) = ((now s).1, gtb_setRel x (now s).2) := rfl
theorem gtb_emitRun_setRel (x : Option Bool) (s : St σo σc) (k : Kind) (t d : Int) :
    emitRun O C (gtb_setRel x s) k t d = gtb_setRel x (emitRun O C s k t d) := rfl

theorem gtb_openCircuit_setRel (x : Option Bool) (s : St σo σc) (t : Int) :
    openCircuit O C (gtb_setRel x s) t = gtb_setRel x (openCircuit O C s t) := by
  by_cases h1 : s.1.cfg.forcedClosed = true
  · simp [openCircuit, gtb_setRel, h1]
  · by_cases h2 : isOpenEff s.1 = true <;> simp [openCircuit, gtb_setRel, h1, h2]

theorem gtb_attemptToOpen_setRel (x : Option Bool) (s : St σo σc) (t : Int) :
    attemptToOpen O C (gtb_setRel x s) t = gtb_setRel x (attemptToOpen O C s t) := by
  by_cases h1 : s.1.cfg.forcedClosed = true
  · simp [attemptToOpen, gtb_setRel_fst, h1]
  · by_cases h2 : isOpenEff s.1 = true
    · simp [attemptToOpen, gtb_setRel_fst, h1, h2]
    · cases h3 : (O.shouldOpen s.1.opener t).2
      · simp [attemptToOpen, gtb_setRel_fst, h1, h2, h3]
        rfl
      · simp only [attemptToOpen, gtb_setRel_fst, h1, h2, h3]
        exact gtb_openCircuit_setRel O C x ({ s.1 with opener := (O.shouldOpen s.1.opener t).1 }, s.2) t

theorem gtb_closeCircuit_setRel (x : Option Bool) (s : St σo σc) (t : Int) (f : Bool) :
    closeCircuit O C (gtb_setRel x s) t f = gtb_setRel x (closeCircuit O C s t f) := by
  by_cases h1 : isOpenEff s.1 = true
  · by_cases h2 : s.1.cfg.forceOpen = true
    · simp [closeCircuit, gtb_setRel_fst, h1, h2]
    · cases f
      · cases h3 : (C.shouldClose s.1.closer t).2 <;> simp [closeCircuit, gtb_setRel, h1, h2, h3]
      · simp [closeCircuit, gtb_setRel, h1, h2]
  · simp [closeCircuit, gtb_setRel_fst, h1]

theorem gtb_classify_setRel (x : Option Bool) (s : St σo σc) (ctx : CallerCtx) (sc : Script) (ret : Option ErrV)
    (start : Int) :
    classify O C (gtb_setRel x s) ctx sc ret start = gtb_setRel x (classify O C s ctx sc ret start) := by
  simp only [classify, gtb_now_setRel, gtb_emitRun_setRel, gtb_setRel_fst, gtb_attemptToOpen_setRel,
    gtb_closeCircuit_setRel, apply_ite (gtb_setRel x)]

/-- the form in which the tie of `run` meets it: the derived context exists (`some false`) while the chain runs -/
theorem gtb_classify_rel (c : Circ σo σc) (em : List Emit) (rd : List Int) (rs : Option Seen) (fa : Option ErrV)
    (fs : Bool) (ctx : CallerCtx) (sc : Script) (ret : Option ErrV) (start : Int) :
    classify O C (c, { emits := em, readings := rd, runSeen := rs, fbArg := fa, fbSameCtx := fs, released := some false })
        ctx sc ret start =
      gtb_setRel (some false)
        (classify O C (c, { emits := em, readings := rd, runSeen := rs, fbArg := fa, fbSameCtx := fs, released := none })
          ctx sc ret start) :=
  gtb_classify_setRel O C (some false)
    (c, { emits := em, readings := rd, runSeen := rs, fbArg := fa, fbSameCtx := fs, released := none }) ctx sc ret start

end frame

section chain
variable {σo σc : Type} [L : Logic σo σc]

/-- the part of `run` after the user function returned, over the specs of the callees -/
def gtb_tail (ctx originalContext : GoCtx) (ret : Err) (expectedDoneBy startTime : GoTime) : GM σo σc Err := do
  let mut endTime := (← spec_now)
  let mut totalCmdTime := (← (endTime).m_Sub startTime)
  let mut runFuncDoneTime := (← spec_now)
  if (← spec_checkErrBadRequest ctx ret runFuncDoneTime totalCmdTime) then
    return ret
  if (← spec_checkErrTimeout ctx expectedDoneBy runFuncDoneTime totalCmdTime) then
    return ret
  if (← spec_checkErrInterrupt ctx originalContext ret runFuncDoneTime totalCmdTime) then
    return ret
  if (← spec_checkErrFailure ctx ret runFuncDoneTime totalCmdTime) then
    return ret
  let _ := (← spec_checkSuccess ctx runFuncDoneTime totalCmdTime)
  return GoNil.nil

local macro "gtb_tail_simp" "[" ts:Lean.Parser.Tactic.simpLemma,* "]" : tactic =>
  `(tactic| simp [gtb_tail, classify, spec_now, bind, pure, onS, now, GoTime.m_Sub, GoTime.val, spec_checkErrBadRequest,
      spec_checkErrTimeout, spec_checkErrInterrupt, spec_checkErrFailure, spec_checkSuccess, GoNil.nil, $ts,*])

theorem gtb_tail_eq (ctx orig : GoCtx) (ret : Err) (edb : GoTime) (start : Int) (sc : Script) (g : G σo σc)
    (hce : g.st.callerErr = ctxErrAfter g.st.caller sc)
    (hedb : edb = if g.st.s.1.cfg.timeout > 0 then .at (start + g.st.s.1.cfg.timeout) else .zero) :
    gtb_tail ctx orig ret edb (.at start) g =
      (.ok ret, onS g fun s => classify L.O L.C s g.st.caller sc ret start) := by
  rcases g with ⟨⟨⟨c, obs⟩, caller, callerErr, stuck⟩, defers⟩
  simp only at hce hedb
  subst hce
  by_cases hto : c.cfg.timeout > 0 <;> simp only [hto, if_true, if_false] at hedb <;> subst hedb <;>
  by_cases htc : start + c.cfg.timeout < c.clock + 1
  all_goals
    rcases ret with _ | e
    · gtb_tail_simp [hto, htc]
      all_goals rfl
    · cases hb : e.isBad
      · cases hce : ctxErrAfter caller sc with
        | none => gtb_tail_simp [hto, htc, hb, hce]
        | some ce =>
          cases hig : c.cfg.ignoreInterrupts <;> cases hv : c.cfg.iei.verdict ce <;>
            gtb_tail_simp [hto, htc, hb, hce, hig, hv]
      · gtb_tail_simp [hto, htc, hb]

end chain

end CM.GoTie

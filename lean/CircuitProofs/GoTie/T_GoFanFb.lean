/- GoTie/T_GoFanFb.lean — see T_GoFanCommon.lean: the fan-out methods of one collection type of metrics.go, as translated TODAY. -/
import CircuitProofs.GoTie.T_GoFanCommon
import Generated.GoFanFb
set_option linter.unusedSimpArgs false
namespace CM.GoTie.GoFanout
open CM CM.Go

section fb
open CM.GoFanFb CM.Generated.GoFanFb
macro "fan_fb" f:ident : tactic => `(tactic| (
  funext g
  rw [$f:ident, GoFanFb.fn, sem_goFunc_noDefer] <;>
  simp [bind, told, FColl.m_Success, FColl.m_ErrFailure, FColl.m_ErrConcurrencyLimitReject, sem_forIn_step, fold_tell FColl.id,
    List.map_map, Function.comp_def]))
theorem fb_Success (r : List FColl) (u : Unit) (t d : Int) : go_Success r u t d = told (r.map (·.id)) (.fb .success t d) := by fan_fb go_Success
theorem fb_ErrFailure (r : List FColl) (u : Unit) (t d : Int) : go_ErrFailure r u t d = told (r.map (·.id)) (.fb .failure t d) := by fan_fb go_ErrFailure
theorem fb_ErrConcurrencyLimitReject (r : List FColl) (u : Unit) (t : Int) : go_ErrConcurrencyLimitReject r u t = told (r.map (·.id)) (.fb .reject t 0) := by fan_fb go_ErrConcurrencyLimitReject
end fb

end CM.GoTie.GoFanout

/- GoTie/T_GoRCWall.lean — `RollingCounter.RollingSum()`, as translated TODAY from faststats/rolling_counter.go, is
   `RollingSumAt` at ONE reading of the wall clock: the model's `RC.sumAt` (C13's windowed sum) at that instant; and
   `StringAt(now)` renders `GetBuckets(now)`, `RollingSumAt(now)` and `TotalSum()`. -/
import CircuitModel.GoFsnewPrims
import CircuitProofs.GoTie.Sem
import CircuitProofs.GoTie.T_GoRollingCounter
import CircuitProofs.Lemmas.RC
import Generated.GoRCWall
namespace CM.GoTie.GoRCWall
open CM CM.Go CM.GoFsNew CM.GoFsNew.CW CM.Generated.GoRCWall

/-- `RollingSum()` takes exactly one reading `t` of the wall clock, rolls the window to `t` and returns the rolling sum:
    `RC.sumAt t`. -/
theorem go_RollingSum_eq : go_RollingSum = atWallTime (fun t (c : RC) => c.sumAt t) := by
  funext g
  unfold go_RollingSum fn atWallTime
  rw [sem_updRet]
  apply sem_goFunc_st
  simp only [sem_bind_step, time_Now, wallNow, recv_rollingBucket_Advance, recv_rollingSum_Get, onObj,
    GoRolling.C.recv_rollingBucket_Advance, GoRolling.C.recv_rollingSum_Get, sem_updRet, sem_rd, sem_step_ok]
  rfl

/-- … which is today's translated `RollingSumAt` run at that reading. -/
theorem go_RollingSum_is_RollingSumAt :
    go_RollingSum = (wallNow >>= fun t => onObj (CM.Generated.GoRollingCounter.go_RollingSumAt t)) := by
  rw [go_RollingSum_eq]
  funext g
  simp only [sem_bind_step, wallNow, sem_updRet, sem_step_ok, CM.GoTie.GoRolling.go_RollingSumAt_eq, onObj, atWallTime]

/-! ### `StringAt` -/

theorem fsnew_collect_fold (f : Int → String) (l : List Int) (acc : List String) :
    l.foldl (fun acc v => acc ++ [f v]) acc = acc ++ l.map f := by
  induction l generalizing acc with
  | nil => simp
  | cons v l ih => rw [List.foldl_cons, ih]; simp

/-- `StringAt(now)` on a counter with at least one bucket (with none, `GetBuckets` panics): `GetBuckets(now)`, then
    `RollingSumAt(now)`, then `TotalSum()`, rendered by `rcRender` — buckets newest first, decimal, comma-separated. -/
theorem go_StringAt_eq (w : Walled RC) (hn : 0 < w.obj.n) (now : Int) (dl : List NoTok) :
    ∃ bs, (w.obj.getBuckets now).2 = some bs ∧
      go_StringAt now { st := w, defers := dl }
        = (.ok (rcRender (((w.obj.getBuckets now).1).sumAt now).2 (((w.obj.getBuckets now).1).sumAt now).1.total bs),
           { st := { w with obj := (((w.obj.getBuckets now).1).sumAt now).1 }, defers := dl }) := by
  have hn' : (w.obj.advance now).1.n ≠ 0 := by rw [(advance_length w.obj now).2]; omega
  have hb : ∃ bs, (w.obj.getBuckets now).2 = some bs := by
    simp only [RC.getBuckets, if_neg hn']
    exact ⟨_, rfl⟩
  obtain ⟨bs, hbs⟩ := hb
  refine ⟨bs, hbs, ?_⟩
  unfold go_StringAt fn
  apply sem_goFunc_st _ _ ({ st := w, defers := dl } : GS (Walled RC) NoTok) _
    ({ w with obj := (((w.obj.getBuckets now).1).sumAt now).1 } : Walled RC)
  simp only [sem_bind_step, recv_GetBuckets, onObj, hbs, sem_step_ok]
  rw [sem_forIn_acc _ (fun v acc => acc ++ [toString v])]
  · simp only [sem_step_ok, sem_bind_step, recv_RollingSumAt, recv_TotalSum, strings_Join, fmt_Sprintf, onObj, sem_updRet,
      sem_rd, sem_pure, fsnew_collect_fold, List.nil_append, rcRender]
  · intro v acc
    simp only [sem_bind_step, strconv_FormatInt, sem_pure, sem_step_ok, if_true]

/-! ### non-vacuity -/

/-- two increments (at 5 and 15, buckets of width 10, window of 3); the wall clock reads 25, then 125 -/
def fsnew_wc : Walled RC := { obj := ((RC.new 3 10).inc 5).inc 15, clock := fun k => 100 * k + 25 }
example : (Go.run go_RollingSum fsnew_wc).1 = .ok 2 ∧ (Go.run go_RollingSum fsnew_wc).2.reads = 1
    ∧ (Go.run go_RollingSum fsnew_wc).2.obj.last = 2 := by decide
example : (Go.run go_RollingSum { fsnew_wc with reads := 1 }).1 = .ok 0
    ∧ (Go.run go_RollingSum { fsnew_wc with reads := 1 }).2.obj.buckets = [0, 0, 0] := by decide

/-- three increments (5, 15, 15), asked at 25: newest bucket (index 2) empty, then 2, then 1 -/
example : (Go.run (go_StringAt 25) { fsnew_wc with obj := fsnew_wc.obj.inc 15 }).1 = .ok "rolling_sum=3 total_sum=3 parts=(0,2,1)" := by decide
example : rcRender 3 3 [0, 2, 1] = "rolling_sum=3 total_sum=3 parts=(0,2,1)" := by decide
example : (Go.run (go_StringAt 25) { fsnew_wc with obj := RC.new 0 10 }).1 = .nilCall := by decide

end CM.GoTie.GoRCWall

/- GoTie/T_GoFanRunVar.lean — `RunMetricsCollection.Var()`, as translated TODAY from metrics.go: the call computes nothing —
   the function value closes over the slice VALUE (the collector pointers), no collector is asked anything.  EVALUATING it
   walks the slice in order; every collector whose dynamic type has `Var() expvar.Var` gets its `Var()` taken AND evaluated
   THEN (`expvarToVal`), the non-nil results are appended in slice order.  So the circuit's "run_metrics" entry is computed
   from the collectors' state at the moment the circuit's own published function is evaluated (C20, C11). -/
import CircuitModel.GoVarsPrims
import CircuitProofs.GoTie.Sem
import Generated.GoFanRunVar
namespace CM.GoTie.GoFanVar
open CM CM.Go CM.GoVars CM.GoVars.Fan

/-- one trip of the loop on the local slice -/
def step (view : Nat → EV) (acc : List EV) (c : CollP) : List EV :=
  if c.varable && !isNil (view c.id) then acc ++ [view c.id] else acc

def addEvals (g : GS FanW NoTok) (ids : List Nat) : GS FanW NoTok := { g with st := { g.st with evals := g.st.evals ++ ids } }

/-- the loop: every varable collector is evaluated once, in slice order; the local slice collects the non-nil results -/
theorem fan_loop_eq (f : CollP → List EV → NVM (ForInStep (List EV)))
    (h : ∀ c acc s, f c acc s = (.ok (.yield (step s.st.view acc c)), addEvals s (if c.varable then [c.id] else [])))
    (l : List CollP) (acc : List EV) (g : GS FanW NoTok) :
    forIn l acc f g = (.ok (l.foldl (step g.st.view) acc), addEvals g ((l.filter (·.varable)).map (·.id))) := by
  induction l generalizing acc g with
  | nil => simp [addEvals]
  | cons c l ih =>
    rw [List.forIn_cons, sem_bind_ok _ _ _ _ _ (h c acc g)]
    refine (ih _ _).trans ?_
    cases hv : c.varable <;> simp [addEvals, hv]

theorem fan_foldl (view : Nat → EV) (l : List CollP) (acc : List EV) :
    l.foldl (step view) acc = acc ++ (((l.filter (·.varable)).map fun c => view c.id).filter fun v => !isNil v) := by
  induction l generalizing acc with
  | nil => simp
  | cons c l ih =>
    rw [List.foldl_cons, ih]
    cases hv : c.varable <;> cases hn : isNil (view c.id) <;> simp [step, hv, hn]

end CM.GoTie.GoFanVar

namespace CM.GoTie.GoFanRunVar
open CM CM.Go CM.GoVars CM.GoVars.Fan CM.GoTie.GoFanVar CM.Generated.GoFanRunVar

/-- `r.Var()` computes nothing: no collector is asked anything; the result is the function value over the slice value. -/
theorem go_Var_eq (r : List CollP) (g : GS FanW NoTok) : go_Var r g = (.ok ⟨"Var_lit1", r, []⟩, g) := by
  unfold go_Var fn
  apply sem_goFunc_pure
  rfl

/-- EVALUATING it: every collector of the slice that has a `Var()` is evaluated ONCE, in slice order, in the state of the
    moment; the result is the list of the non-nil results in that order (`fanSummary`). -/
theorem go_Var_eval_eq (r : List CollP) (g : GS FanW NoTok) :
    go_Var_lit1_eval ⟨"Var_lit1", r, []⟩ g
      = (.ok (fanSummary g.st.view r), addEvals g ((r.filter (·.varable)).map (·.id))) := by
  show go_Var_lit1 r g = _
  unfold go_Var_lit1 fn
  unfold addEvals
  apply sem_goFunc_st
  refine (sem_bind_ok _ _ _ _ _ (fan_loop_eq _ ?hloop _ _ _)).trans ?_
  case hloop =>
    intro c acc s
    simp only [sem_bind_step, as_varable, sem_pure, sem_step_ok]
    cases hv : c.varable
    · simp [step, hv, addEvals]
    · simp only [CollP.m_Var, pkg_expvarToVal, step, hv, addEvals]
      rw [sem_pure_bind]
      refine (sem_bind_ok _ _ _ _ _ (sem_updRet _ _)).trans ?_
      cases isNil (s.st.view c.id) <;> rfl
  simp only [fan_foldl, List.nil_append, fanSummary]
  rfl

/-- **The handle follows the collectors' history**: taken in `g₀`, evaluated when the collectors' own views are `view`, it
    publishes what they evaluate to THEN. -/
theorem var_follows_history (r : List CollP) (g₀ : GS FanW NoTok) (view : Nat → EV) :
    ∀ c, (go_Var r g₀).1 = .ok c → (go_Var_lit1_eval c { g₀ with st := { g₀.st with view := view } }).1 = .ok (fanSummary view r) := by
  intro c hc
  rw [go_Var_eq] at hc
  cases Out.ok.inj hc
  rw [go_Var_eval_eq]

/-! ### non-vacuity: collector 1 has no `Var`, collector 2's evaluates to nil -/
def fw : FanW := { view := fun i => if i = 2 then .nil else .int i }
def cl : List CollP := [⟨0, true⟩, ⟨1, false⟩, ⟨2, true⟩, ⟨3, true⟩]
example : (Go.run (go_Var cl) fw).1 = .ok ⟨"Var_lit1", cl, []⟩ ∧ (Go.run (go_Var cl) fw).2.evals = [] := by decide
example : (Go.run (go_Var_lit1_eval ⟨"Var_lit1", cl, []⟩) fw).1 = .ok (.list [.int 0, .int 3]) := rfl
example : (Go.run (go_Var_lit1_eval ⟨"Var_lit1", cl, []⟩) fw).2.evals = [0, 2, 3] := by decide
example : (Go.run (go_Var_lit1_eval ⟨"Var_lit1", cl, []⟩) { fw with view := fun i => .int (10 * i) }).1 = .ok (.list [.int 0, .int 20, .int 30]) := rfl
example : (Go.run (go_Var_lit1_eval ⟨"other", cl, []⟩) fw).1 = .nilCall := rfl

end CM.GoTie.GoFanRunVar

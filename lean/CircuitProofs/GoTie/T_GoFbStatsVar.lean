/- GoTie/T_GoFbStatsVar.lean — `(*FallbackStats).Var()`, as translated TODAY from metrics/rolling/rolling.go: the call
   computes NOTHING — it returns the function value "closure #1 of Var" over the receiver, which holds none of the
   counters' contents — and EVALUATING that value reads the three `TotalSum()`s of the state OF THAT MOMENT.  So a handle
   obtained once (`expvar.Publish(name, stats.Var())` at start-up) follows the fallbacks that happen afterwards: C20's
   "FallbackStats report per outcome kind a total equal to the number of calls of that kind", through the expvar channel.
   (The seeded change C20-10 builds the map BEFORE the closure: its body captures a local, which has no type in this
   unit — the translation fails, and with it every theorem below.) -/
import CircuitModel.GoVarsPrims
import CircuitProofs.GoTie.Sem
import CircuitProofs.GoTie.T_GoFbStats
import CircuitProofs.Lemmas.Cons
import Generated.GoFbStatsVar
namespace CM.GoTie.GoFbStatsVar
open CM CM.Go CM.Cons CM.GoVars CM.GoVars.Fb CM.Generated.GoFbStatsVar

/-- the function value `Var()` returns -/
def theClo : CloV := ⟨"Var_lit1", (), []⟩

/-- `r.Var()` computes nothing: the state is untouched and the result is the function value closed over the receiver alone
    (no captured local: nothing of the counters' contents is in it). -/
theorem go_Var_eq (g : GS FbStats NoTok) : go_Var g = (.ok theClo, g) := by
  unfold go_Var fn
  apply sem_goFunc_pure
  rfl

/-- EVALUATING it — in whatever state the object is by then — yields the three totals of THAT state, and changes nothing. -/
theorem go_Var_eval_eq (g : GS FbStats NoTok) : go_Var_lit1_eval theClo g = (.ok (fbSummary g.st), g) := by
  show go_Var_lit1 g = _
  unfold go_Var_lit1 fn
  apply sem_goFunc_pure
  rfl

/-- a function value this unit did not make cannot be evaluated -/
theorem go_Var_eval_other (c : CloV) (h : c ≠ theClo) (g : GS FbStats NoTok) : go_Var_lit1_eval c g = (.nilCall, g) := by
  unfold go_Var_lit1_eval
  split
  · rename_i u
    cases u
    exact absurd rfl h
  · rfl

/-- what is published under a key -/
theorem fbSummary_lookup (f : FbStats) :
    (fbSummary f).lookup "Successes" = some (.int f.successes.total) ∧
    (fbSummary f).lookup "ErrConcurrencyLimitRejects" = some (.int f.rejects.total) ∧
    (fbSummary f).lookup "ErrFailures" = some (.int f.failures.total) := ⟨rfl, rfl, rfl⟩

/-- **The handle follows the object's history** (the statement the seeded change C20-10 falsifies): take the handle in a state
    `g₀`; let ANY later history bring the stats to `f` (the handle itself is not touched: it is a value); evaluating the OLD
    handle then publishes the totals of `f`, not those of `g₀`. -/
theorem var_follows_history (g₀ : GS FbStats NoTok) (f : FbStats) :
    let clo := (go_Var g₀).1
    ∀ c, clo = .ok c → (go_Var_lit1_eval c { g₀ with st := f }).1 = .ok (fbSummary f) := by
  intro clo c hc
  have : c = theClo := by
    have h := hc
    simp only [clo, go_Var_eq] at h
    exact (Out.ok.inj h).symm
  subst this
  rw [go_Var_eval_eq]

/-- … concretely, with the translated callbacks of unit GoFbStats as the history: evaluate, deliver one fallback success /
    failure / rejection (`go_Success`, `go_ErrFailure`, `go_ErrConcurrencyLimitReject` as tied in T_GoFbStats), evaluate the
    SAME handle again — the second reading shows that kind's total one higher and the other two unchanged. -/
theorem second_reading_counts_the_event (g : GS FbStats NoTok) (k : FbKind) (now d : Int) :
    let deliver : M FbStats NoTok Unit := match k with
      | .success => CM.Generated.GoFbStats.go_Success () now d
      | .failure => CM.Generated.GoFbStats.go_ErrFailure () now d
      | .reject => CM.Generated.GoFbStats.go_ErrConcurrencyLimitReject () now
    let g₁ := (deliver g).2
    (go_Var_lit1_eval theClo g).1 = .ok (fbSummary g.st) ∧
    (go_Var_lit1_eval theClo g₁).1 = .ok (.map [
      ("Successes", .int (g.st.successes.total + if k = .success then 1 else 0)),
      ("ErrConcurrencyLimitRejects", .int (g.st.rejects.total + if k = .reject then 1 else 0)),
      ("ErrFailures", .int (g.st.failures.total + if k = .failure then 1 else 0))]) := by
  intro deliver g₁
  refine ⟨by rw [go_Var_eval_eq], ?_⟩
  rw [go_Var_eval_eq]
  cases k <;>
    simp [g₁, deliver, CM.GoTie.GoFbStats.go_Success_eq, CM.GoTie.GoFbStats.go_ErrFailure_eq,
      CM.GoTie.GoFbStats.go_ErrConcurrencyLimitReject_eq, FbStats.onFb, fbSummary, CM.Cons.inc_total]

/-! ### non-vacuity -/
def fb0 : FbStats := FbStats.new 10 1000
/-- the handle is taken on fresh stats (all zero), two fallback events happen, the OLD handle shows them -/
example : (Go.run go_Var fb0).1 = .ok theClo := by decide
example : (Go.run (go_Var_lit1_eval theClo) fb0).1
    = .ok (.map [("Successes", .int 0), ("ErrConcurrencyLimitRejects", .int 0), ("ErrFailures", .int 0)]) := rfl
example : (Go.run (go_Var_lit1_eval theClo) ((fb0.onFb .success 5).onFb .failure 7)).1
    = .ok (.map [("Successes", .int 1), ("ErrConcurrencyLimitRejects", .int 0), ("ErrFailures", .int 1)]) := rfl
example : (Go.run (go_Var_lit1_eval ⟨"other", (), []⟩) fb0).1 = .nilCall := rfl

end CM.GoTie.GoFbStatsVar

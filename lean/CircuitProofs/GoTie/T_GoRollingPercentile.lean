/- GoTie/T_GoRollingPercentile.lean — `RollingPercentile.{AddDuration, clearBucket, Reset, SortedDurations}`, as translated
   TODAY from faststats/rolling_percentile.go, compute the model's `RP.add`, `RP.clearSlot`, `RP.reset`, `RP.snapshot` —
   the functions C15's snapshot refinement speaks about. -/
import CircuitModel.GoRollingPercentilePrims
import CircuitProofs.GoTie.Sem
import Generated.GoRollingPercentile
namespace CM.GoTie.GoRP
open CM CM.Go CM.GoRP CM.GoRP.P CM.Generated.GoRollingPercentile

/-! ### helpers -/

theorem rp_goRange_natCast (k : Nat) : goRange (k : Int) = (List.range k).map Int.ofNat := by
  simp [goRange]

/-- `Reset`'s loop, as a fold of the state transformer of `clearBucket` -/
theorem rp_clearAll_foldl (k : Nat) (g : GS RP NoTok) :
    (goRange (k : Int)).foldl (fun (s : GS RP NoTok) i => { s with st := s.st.clearSlot i.toNat }) g
      = { g with st := (List.range k).foldl RP.clearSlot g.st } := by
  rw [rp_goRange_natCast]
  induction k with
  | zero => rfl
  | succ k ih =>
    rw [List.range_succ, List.map_append, List.foldl_append, ih]
    simp

/-- `SortedDurations`' loop: after `k` trips `ret` holds the first `k` buckets' durations -/
theorem rp_collect_fold (slots : List DSlot) : ∀ k, k ≤ slots.length →
    (goRange (k : Int)).foldl (fun ret i => ret ++ ((slots[i.toNat]?).map DSlot.durations).getD []) []
      = ((slots.take k).map DSlot.durations).flatten := by
  intro k
  rw [rp_goRange_natCast]
  induction k with
  | zero => intro _; simp
  | succ k ih =>
    intro hk
    rw [List.range_succ, List.map_append, List.foldl_append, ih (by omega)]
    simp only [List.map_cons, List.map_nil, List.foldl_cons, List.foldl_nil]
    rw [show (Int.ofNat k).toNat = k from rfl]
    have hk' : k < slots.length := by omega
    rw [List.take_add_one, List.getElem?_eq_getElem hk']
    simp only [Option.map_some, Option.getD_some, Option.toList_some, List.map_append, List.flatten_append,
      List.map_cons, List.map_nil, List.flatten_cons, List.flatten_nil, List.append_nil]

theorem rp_insertBy_eq (x : Int) : ∀ l, insertBy (fun a b => decide (a < b)) x l = insertSorted x l
  | [] => rfl
  | y :: ys => by
    simp only [insertBy, insertSorted, rp_insertBy_eq x ys]
    by_cases h : x ≤ y
    · rw [if_pos h, if_pos (by simpa using h)]
    · rw [if_neg h, if_neg (by simpa using h)]

theorem rp_goSortBy_eq : ∀ l, goSortBy (fun a b => decide (a < b)) l = isort l
  | [] => rfl
  | x :: xs => by simp only [goSortBy, isort, rp_goSortBy_eq xs, rp_insertBy_eq]

/-! ### the ties -/

theorem go_AddDuration_eq (d now : Int) : go_AddDuration d now = upd (fun r => r.add d now) := by
  funext g
  rw [sem_upd]
  unfold go_AddDuration fn
  apply sem_goFunc_st
  simp only [sem_bind_step, recv_buckets, recv_rollingBucket_Advance, recv_buckets_at_addDuration, sem_updRet, sem_rd,
    sem_upd, sem_step_ok, sem_ite_apply, sem_pure]
  simp only [RP.add, goLen]
  by_cases h0 : g.st.slots.length = 0
  · simp [h0]
  · have h0' : ¬ ((g.st.slots.length : Int) = 0) := by omega
    simp only [beq_iff_eq, h0', h0, if_false]
    generalize RP.advance _ now = p
    obtain ⟨c1, r⟩ := p
    cases r with
    | none => simp [idxOf]
    | some i =>
      have : ¬ ((i : Int) < 0) := by omega
      simp only [idxOf, this, decide_false, Bool.false_eq_true, if_false, Int.toNat_natCast]
      cases c1.slots[i]? <;> rfl

theorem go_clearBucket_eq (idx : Int) : go_clearBucket idx = upd (fun r => r.clearSlot idx.toNat) := by
  funext g
  rw [sem_upd]
  unfold go_clearBucket fn
  apply sem_goFunc_st
  simp only [sem_bind_step, recv_buckets_at_clear, sem_upd, sem_step_ok, sem_pure]

theorem go_Reset_eq (now : Int) : go_Reset now = upd (fun r => r.reset now) := by
  funext g
  rw [sem_upd]
  unfold go_Reset fn
  apply sem_goFunc_st
  simp only [sem_bind_step, recv_rollingBucket_Advance, recv_rollingBucket_NumBuckets, sem_updRet, sem_rd, sem_step_ok]
  rw [sem_forIn_yield _ (fun i s => { s with st := s.st.clearSlot i.toNat })]
  · rw [sem_step_ok, sem_pure, rp_clearAll_foldl]
    rfl
  · intro i u s
    simp only [sem_bind_step, go_clearBucket_eq, sem_upd, sem_step_ok, sem_pure]

/-- the snapshot: every bucket's valid durations, ALL of them (no truncation), in ascending order -/
theorem go_SortedDurations_eq (now : Int) : go_SortedDurations now = updRet (fun r => r.snapshot now) := by
  funext g
  rw [sem_updRet]
  unfold go_SortedDurations fn
  apply sem_goFunc_st
  simp only [sem_bind_step, recv_buckets, recv_rollingBucket_Advance, sem_updRet, sem_rd,
    sem_step_ok, sem_ite_apply, sem_pure]
  simp only [goLen, beq_iff_eq, RP.snapshot]
  by_cases h0 : g.st.slots.length = 0
  · rw [if_pos (show (g.st.slots.length : Int) = 0 by omega), if_pos h0]
    rfl
  · rw [if_neg (show ¬ (g.st.slots.length : Int) = 0 by omega), if_neg h0]
    generalize (g.st.advance now).1 = r'
    rw [sem_forIn_acc _ (fun i ret => ret ++ ((r'.slots[i.toNat]?).map DSlot.durations).getD [])]
    · rw [sem_step_ok, sem_pure, rp_collect_fold _ _ (Nat.le_refl _), List.take_length, rp_goSortBy_eq]
    · intro i ret
      simp only [sem_bind_step, recv_buckets_at_Durations, sem_rd, sem_step_ok, sem_pure]

end CM.GoTie.GoRP

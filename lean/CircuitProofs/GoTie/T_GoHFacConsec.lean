/- GoTie/T_GoHFacConsec.lean — `ConsecutiveErrOpenerFactory`, as translated TODAY from closers/simplelogic/closers.go:
   the func value it returns, APPLIED, allocates one NEW `ConsecutiveErrOpener` per call (count 0) and sets its threshold
   to the configured one, 10 when none was configured (C09: each circuit its own logic object; C02-style: the opener
   has the configured threshold). -/
import CircuitModel.GoHfacPrims
import CircuitProofs.GoTie.Sem
import Generated.GoHFacConsec
namespace CM.GoTie.GoHFacConsec
open CM CM.Go CM.GoHFac CM.GoHFac.Consec CM.Generated.GoHFacConsec

/-- the object every call builds -/
def built (cfg : KCfg) : ConsecOpener := { count := 0, threshold := gapI cfg.f_ErrorThreshold 10 }

/-- `ConsecutiveErrOpenerFactory(cfg)` only packages `cfg` into the closure -/
theorem go_ConsecutiveErrOpenerFactory_eq (cfg : KCfg) (g : GS KW NoTok) : go_ConsecutiveErrOpenerFactory cfg g = (.ok (cloOf cfg), g) := by
  unfold go_ConsecutiveErrOpenerFactory Consec.fn
  exact sem_goFunc_pure _ _ g _ rfl

/-- one call of the returned func: a NEW cell (index = old size of the store, existing cells untouched) holding a zero
    counter and the threshold of `cfg.merge defaults`; the closure now carries the merged config -/
theorem go_ConsecutiveErrOpenerFactory_apply_eq (cfg : KCfg) (g : GS KW NoTok) :
    go_ConsecutiveErrOpenerFactory_apply (cloOf cfg) g =
      (.ok (⟨g.st.heap.length⟩, cloOf (cfg.merge defaultKCfg)), { g with st := { g.st with heap := g.st.heap ++ [built cfg] } }) := by
  show go_ConsecutiveErrOpenerFactory_lit1 cfg g = _
  unfold go_ConsecutiveErrOpenerFactory_lit1 Consec.fn
  refine sem_goFunc_st _ _ g _ _ ?_
  refine (sem_bind_ok _ _ _ _ _ (rfl : goNew lit_ConsecutiveErrOpener g = (.ok ⟨g.st.heap.length⟩, { g with st := { g.st with heap := g.st.heap ++ [lit_ConsecutiveErrOpener] } }))).trans ?_
  refine (sem_bind_ok _ _ _ _ _ (rfl : (cfg.m_Merge pkg_defaultConfigConsecutiveErrOpener : KFM KCfg) _ = (.ok (cfg.merge defaultKCfg), _))).trans ?_
  have hset : (Ref.m_SetConfigThreadSafe ⟨g.st.heap.length⟩ (cfg.merge defaultKCfg))
      { g with st := { g.st with heap := g.st.heap ++ [lit_ConsecutiveErrOpener] } } =
      (.ok (), { g with st := { g.st with heap := g.st.heap ++ [built cfg] } }) := by
    simp [Ref.m_SetConfigThreadSafe, built, lit_ConsecutiveErrOpener, KCfg.merge, defaultKCfg]
  refine (sem_bind_ok _ _ _ _ _ hset).trans ?_
  rfl

/-- a func value that is not this factory's closure cannot be applied here -/
theorem go_ConsecutiveErrOpenerFactory_apply_other (c : Clo) (h : ∀ cfg, c ≠ cloOf cfg) (g : GS KW NoTok) :
    go_ConsecutiveErrOpenerFactory_apply c g = (.nilCall, g) := by
  unfold go_ConsecutiveErrOpenerFactory_apply
  split
  · next cfg => exact absurd rfl (h cfg)
  · rfl

theorem built_merge (cfg : KCfg) : built (cfg.merge defaultKCfg) = built cfg := by
  simp only [built, KCfg.merge, defaultKCfg, ConsecOpener.mk.injEq, true_and]
  unfold gapI; split <;> simp_all

/-- calling the returned func `n` times, each time through the closure value the previous call left -/
def calls : Nat → Clo → KFM (List Ref)
  | 0, _ => pure []
  | n + 1, c => do
    let (r, c') ← go_ConsecutiveErrOpenerFactory_apply c
    let rs ← calls n c'
    pure (r :: rs)

/-- EVERY call yields a fresh object: `n` calls give the `n` consecutive new cells, each holding its own `built cfg` -/
theorem calls_eq (n : Nat) (cfg : KCfg) (g : GS KW NoTok) :
    calls n (cloOf cfg) g =
      (.ok ((List.range n).map fun i => ⟨g.st.heap.length + i⟩), { g with st := { g.st with heap := g.st.heap ++ List.replicate n (built cfg) } }) := by
  induction n generalizing cfg g with
  | zero => simp [calls]
  | succ n ih =>
    unfold calls
    rw [sem_bind_step, go_ConsecutiveErrOpenerFactory_apply_eq, sem_step_ok]
    show sem_step (calls n (cloOf (cfg.merge defaultKCfg)) _) _ = _
    rw [ih, sem_step_ok, built_merge]
    simp only [sem_pure, List.length_append, List.length_cons, List.length_nil, List.append_assoc, List.cons_append, List.nil_append]
    refine Prod.ext ?_ ?_
    · simp only [List.range_succ_eq_map, List.map_cons, List.map_map, Nat.add_zero]
      congr 2
      apply List.map_congr_left
      intro i _
      simp only [Function.comp, Ref.mk.injEq]
      omega
    · simp [List.replicate_succ]

/-! ### non-vacuity -/
example : (Go.run (do let c ← go_ConsecutiveErrOpenerFactory { f_ErrorThreshold := 3 }
                      let (r1, c1) ← go_ConsecutiveErrOpenerFactory_apply c
                      let (r2, _) ← go_ConsecutiveErrOpenerFactory_apply c1
                      pure (r1, r2)) {}) =
    (.ok (⟨0⟩, ⟨1⟩), { heap := [{ count := 0, threshold := 3 }, { count := 0, threshold := 3 }] }) := by decide
example : built {} = { count := 0, threshold := 10 } := by decide

end CM.GoTie.GoHFacConsec

/- GoTie/T_GoSetCfg.lean — `Circuit.SetConfigThreadSafe`, `SetConfigNotThreadSafe` and `Config`, as translated TODAY from
   circuit.go: what a (re)configuration writes and what it leaves alone. -/
import CircuitModel.GoSetCfgPrims
import CircuitProofs.GoTie.Basic
import Generated.GoSetCfg
namespace CM.GoTie.GoSetCfg
open CM CM.Go CM.GoSetCfg CM.Generated.GoSetCfg

theorem sc_unwind_le (h n : Nat) (g : GS BuildW String) (hle : g.defers.length ≤ h) : unwind runTok h n g = g := by
  cases n with
  | zero => rfl
  | succ n => simp [unwind, hle]

theorem sc_runTok_unlock : runTok "recv_notThreadSafeConfigMu_Unlock" = pure () := rfl

/-- a body that pushed exactly the unlock token: it is popped, nothing else happens -/
theorem sc_unwind_unlock (g : GS BuildW String) (d : List String) (n : Nat) (hd : g.defers = "recv_notThreadSafeConfigMu_Unlock" :: d) :
    unwind runTok d.length (n + 1) g = { g with defers := d } := by
  have h1 : (runTok "recv_notThreadSafeConfigMu_Unlock" { g with defers := d }).2 = { g with defers := d } := rfl
  have h2 : ¬ (g.defers.length ≤ d.length) := by simp [hd]
  rw [unwind, if_neg h2]
  rw [hd]
  show unwind runTok d.length n (runTok "recv_notThreadSafeConfigMu_Unlock" { g with defers := d }).2 = _
  rw [h1]
  exact sc_unwind_le _ _ _ (by simp)

theorem sc_goFunc_of {α : Type} (body : BM α) (g : GS BuildW String) (r : Out α × GS BuildW String) (h : body g = r) :
    goFunc runTok body g = (r.1, unwind runTok g.defers.length r.2.defers.length r.2) := by
  subst h; rfl

/-- evaluating a translated body on a state -/
macro "sc_eval" "[" ls:Lean.Parser.Tactic.simpLemma,* "]" : tactic => `(tactic|
  simp only [gt_bind_apply, gt_bindK_ok, gt_bindK_panic, gt_bindK_nilCall, gt_bindK_ite, gt_pure_apply, gt_ite_apply,
    recv_notThreadSafeConfigMu_Lock, recv_notThreadSafeConfigMu_Unlock, deferPrim, Go.pushDefer, recv_notThreadSafeConfig_set,
    recv_notThreadSafeConfig, recv_threadSafeConfig_reset, recv_OpenToClose, recv_ClosedToOpen, as_Configurable,
    Obj.m_SetConfigThreadSafe, Obj.m_SetConfigNotThreadSafe, recv_goroutineWrapper_lostErrors_set, recv_timeNow_set,
    recv_OpenToClose_set, recv_ClosedToOpen_set, CfgB.m_General_OpenToClosedFactory, CfgB.m_General_ClosedToOpenFactory,
    recv_CmdMetricCollector, recv_CmdMetricCollector_set, recv_FallbackMetricCollector_set, recv_CircuitMetricsCollector,
    recv_CircuitMetricsCollector_set, upd, rd, updRet, $ls,*])

theorem go_SetConfigThreadSafe_eq (c : CfgB) (g : GS BuildW String) :
    go_SetConfigThreadSafe c g = (.ok (), { g with st := g.st.setLive c }) := by
  rw [go_SetConfigThreadSafe, fn]
  rw [sc_goFunc_of _ g (.ok (), { st := g.st.setLive c, defers := "recv_notThreadSafeConfigMu_Unlock" :: g.defers })]
  · simp only [List.length_cons]
    rw [sc_unwind_unlock _ g.defers _ rfl]
  · sc_eval []
    cases hc : g.st.closer.conf <;> cases ho : g.st.opener.conf <;> simp [BuildW.setLive, toldIf, hc, ho]

theorem go_SetConfigNotThreadSafe_eq (c : CfgB) (g : GS BuildW String) :
    go_SetConfigNotThreadSafe c g = (.ok (), { g with st := g.st.rebuild c }) := by
  rw [go_SetConfigNotThreadSafe, fn]
  rw [sc_goFunc_of _ g (.ok (), { st := g.st.rebuild c, defers := g.defers })]
  · simp only []
    rw [sc_unwind_le _ _ _ (by simp)]
  · sc_eval [go_SetConfigThreadSafe_eq]
    cases hc : c.closerConf <;> cases ho : c.openerConf <;> simp [BuildW.rebuild, BuildW.setLive, toldIf, hc, ho]

/-- `Config()` after a configuration returns that configuration -/
theorem go_Config_eq (c : CfgB) (g : GS BuildW String) (h : g.st.storedCfg = some c) : go_Config g = (.ok c, g) := by
  rw [go_Config, fn]
  rw [sc_goFunc_of _ g (.ok c, { st := g.st, defers := "recv_notThreadSafeConfigMu_Unlock" :: g.defers })]
  · simp only [List.length_cons]
    rw [sc_unwind_unlock _ g.defers _ rfl]
  · sc_eval []
    simp [h]

/-- spelled out: a second `SetConfigNotThreadSafe` REBUILDS the collector lists — nothing of the previous
    configuration's collectors or logic objects stays in them -/
theorem rebuild_replaces_collectors (w : BuildW) (c : CfgB) :
    (w.rebuild c).run = [(w.rebuild c).closer, (w.rebuild c).opener] ++ c.f_Metrics_Run ∧
    (w.rebuild c).fb = c.f_Metrics_Fallback ∧
    (w.rebuild c).circ = [(w.rebuild c).closer, (w.rebuild c).opener] ++ c.f_Metrics_Circuit := by
  simp [BuildW.rebuild, BuildW.setLive]

/-- a live reconfiguration leaves collectors, logic objects and hooks alone -/
theorem setLive_keeps (w : BuildW) (c : CfgB) :
    (w.setLive c).run = w.run ∧ (w.setLive c).fb = w.fb ∧ (w.setLive c).circ = w.circ ∧ (w.setLive c).closer = w.closer ∧
    (w.setLive c).opener = w.opener ∧ (w.setLive c).lostErrors = w.lostErrors ∧ (w.setLive c).timeNow = w.timeNow := by
  simp [BuildW.setLive]

end CM.GoTie.GoSetCfg

/- GoTie/T_GoSortedDurations.lean — `SortedDurations.Mean / Min / Max / Percentile`, as translated TODAY from
   faststats/rolling_percentile.go, compute the model's `SD.mean / min / max / percentile` (RollingPercentile.lean) —
   the functions C15's percentile and mean theorems speak about — for every list of durations and every finite p. -/
import CircuitModel.GoSortedDurationsPrims
import CircuitProofs.GoTie.Sem
import Generated.GoSortedDurations
namespace CM.GoTie.GoSD
open CM CM.Go CM.GoSD CM.Generated.GoSortedDurations

theorem wrap64_neg_one : wrap64 (-1) = -1 := by decide
theorem neg_one_I64 : (-1 : I64) = ⟨-1⟩ := by
  show (⟨wrap64 (-1)⟩ : I64) = _
  rw [wrap64_neg_one]

/-- indexing, as an option -/
def idx (s : List Int) (i : Int) : Option Int := if i < 0 then none else s[i.toNat]?

theorem goIndex_map (s : List Int) (i : Int) (g : GS Unit NoTok) :
    goIndex (s.map I64.mk) i g = (outOf (idx s i), g) := by
  unfold goIndex idx
  by_cases hi : i < 0
  · simp [hi, outOf, Go.nilCall]
  · simp only [hi, if_false, List.getElem?_map]
    cases s[i.toNat]? <;> simp [outOf, Go.nilCall]

theorem goLen_map (s : List Int) : goLen (s.map I64.mk) = (s.length : Int) := by simp [goLen]

theorem go_Min_eq (s : List Int) (g : GS Unit NoTok) : go_Min (s.map I64.mk) g = (.ok ⟨SD.min s⟩, g) := by
  unfold go_Min fn
  apply sem_goFunc_pure
  rw [goLen_map]
  cases s with
  | nil => simp [SD.min, neg_one_I64]
  | cons x xs =>
    have : ¬ ((((x :: xs).length : Nat) : Int) == 0) = true := by simp <;> omega
    rw [if_neg this, goIndex_map]
    simp [idx, outOf, SD.min]

theorem idx_last (s : List Int) (h : s ≠ []) : idx s ((s.length : Int) - 1) = some (SD.max s) := by
  have h0 : 0 < s.length := List.length_pos_iff.mpr h
  have h1 : ¬ ((s.length : Nat) : Int) - 1 < 0 := by omega
  have h2 : (((s.length : Nat) : Int) - 1).toNat = s.length - 1 := by omega
  rw [idx, if_neg h1, h2, SD.max, ← List.getLast?_eq_getElem?]
  cases h : s.getLast? with
  | none => simp_all
  | some y => rfl

theorem go_Max_eq (s : List Int) (g : GS Unit NoTok) : go_Max (s.map I64.mk) g = (.ok ⟨SD.max s⟩, g) := by
  unfold go_Max fn
  apply sem_goFunc_pure
  rw [goLen_map]
  cases s with
  | nil => simp [SD.max, neg_one_I64]
  | cons x xs =>
    have : ¬ ((((x :: xs).length : Nat) : Int) == 0) = true := by simp <;> omega
    rw [if_neg this, goIndex_map]
    have h1 : ¬ (((x :: xs).length : Nat) : Int) - 1 < 0 := by simp <;> omega
    have h2 : ((((x :: xs).length : Nat) : Int) - 1).toNat = (x :: xs).length - 1 := by simp
    rw [idx, if_neg h1, h2, SD.max, ← List.getLast?_eq_getElem?]
    cases h : (x :: xs).getLast? with
    | none => simp at h
    | some y => simp [outOf]


theorem wrap64_wrap64_add (a b : Int) : wrap64 (wrap64 a + b) = wrap64 (a + b) := by
  unfold wrap64
  simp only []
  split <;> split <;> split <;> omega

theorem wrap64_zero : wrap64 0 = 0 := by decide

theorem mean_loop (l : List Int) (a : Int) (g : GS Unit NoTok) :
    (forIn (l.map I64.mk) (⟨wrap64 a⟩ : I64) (fun d __s => do
        let x ← d.m_Nanoseconds
        pure (ForInStep.yield (__s + x))) : DM I64) g = (.ok ⟨wrap64 (a + l.sum)⟩, g) := by
  induction l generalizing a with
  | nil => simp
  | cons d l ih =>
    rw [List.map_cons, List.forIn_cons]
    simp only [I64.m_Nanoseconds, sem_pure_bind]
    show (forIn _ (⟨wrap64 (wrap64 a + d)⟩ : I64) _ : DM I64) g = _
    rw [wrap64_wrap64_add]
    have := ih (a + d)
    simp only [I64.m_Nanoseconds, sem_pure_bind] at this
    rw [this, List.sum_cons, Int.add_assoc]

/-- int64 sum with wrap-around, then truncated division -/
theorem go_Mean_eq (s : List Int) (g : GS Unit NoTok) : go_Mean (s.map I64.mk) g = (.ok ⟨SD.mean s⟩, g) := by
  unfold go_Mean fn
  apply sem_goFunc_pure
  rw [goLen_map]
  by_cases h : s.length = 0
  · simp [SD.mean, h, neg_one_I64]
  · have : ¬ (((s.length : Nat) : Int) == 0) = true := by simp only [beq_iff_eq]; omega
    rw [if_neg this]
    simp only [pkg_int64, time_Duration, sem_pure_bind]
    show ((forIn _ (⟨0⟩ : I64) _ : DM I64) >>= _) g = _
    rw [sem_bind_ok _ _ g g _ (by rw [← wrap64_zero]; exact mean_loop s 0 g)]
    simp [SD.mean, h, goDiv, GoDivC.div, ToI64.conv]


theorem sd_toInt_intCast (z : Int) : F64.toInt ((z : Int) : Rat) = z := by
  unfold F64.toInt
  split
  · rw [← Rat.intCast_neg, Rat.floor_intCast, Int.neg_neg]
  · exact Rat.floor_intCast z

theorem sd_floor_le_ceil (a : Rat) : a.floor ≤ a.ceil := by
  have h1 := Rat.floor_le a
  have h2 := @Rat.le_ceil a
  exact Rat.intCast_le_intCast.mp (Rat.le_trans h1 h2)

theorem f64_le_zero (p : Rat) : ((⟨p⟩ : GoF64) ≤ 0) ↔ p ≤ 0 := Iff.rfl
theorem f64_ge_100 (p : Rat) : ((⟨p⟩ : GoF64) ≥ 100) ↔ p ≥ 100 := Iff.rfl

/-- the interpolation branch of the model through `idx` -/
theorem interp_idx (s : List Int) (fl ce : Int) (hle : fl ≤ ce) (F : Int → Int → Int) :
    (match s[fl.toNat]?, s[ce.toNat]? with
      | some first, some second => if fl < 0 then none else some (F first second)
      | _, _ => none)
    = (idx s fl).bind fun first => (idx s ce).bind fun second => some (F first second) := by
  unfold idx
  by_cases hf : fl < 0
  · simp only [hf, if_true, Option.bind_none]
    split <;> rfl
  · have hc : ¬ ce < 0 := by omega
    simp only [hf, hc, if_false]
    cases s[fl.toNat]? <;> cases s[ce.toNat]? <;> rfl

theorem percentile_cons2 (x0 y : Int) (rest : List Int) (p : Rat) :
    SD.percentile (x0 :: y :: rest) (.fin p) =
      if p ≤ 0 then some x0 else if p ≥ 100 then some (SD.max (x0 :: y :: rest)) else
        let abs := F64.mul (F64.div p 100) (F64.ofInt (((x0 :: y :: rest).length : Int) - 1))
        (idx (x0 :: y :: rest) abs.floor).bind fun first => (idx (x0 :: y :: rest) abs.ceil).bind fun second =>
          some (wrap64 (first + F64.toInt (F64.mul (F64.ofInt (wrap64 (second - first))) (F64.sub abs (abs.floor : Rat))))) := by
  simp only [SD.percentile]
  split
  · rfl
  · split
    · rfl
    · exact interp_idx _ _ _ (sd_floor_le_ceil _) _

/-- every finite p (below 0, above 100, in between): the model's value, or Go's index panic where the model says `none` -/
theorem go_Percentile_eq (s : List Int) (p : Rat) (g : GS Unit NoTok) :
    go_Percentile (s.map I64.mk) ⟨p⟩ g = (outOf (SD.percentile s (.fin p)), g) := by
  unfold go_Percentile fn
  apply sem_goFunc_pure
  rw [goLen_map]
  match s with
  | [] => simp [SD.percentile, outOf, neg_one_I64]
  | [x] =>
    simp [SD.percentile, outOf, goIndex]
  | x0 :: y :: rest =>
    have h0 : ¬ ((((x0 :: y :: rest).length : Nat) : Int) == 0) = true := by
      simp only [beq_iff_eq, List.length_cons]; omega
    have h1 : ¬ ((((x0 :: y :: rest).length : Nat) : Int) == 1) = true := by
      simp only [beq_iff_eq, List.length_cons]; omega
    rw [if_neg h0, if_neg h1, percentile_cons2]
    simp only [decide_eq_true_eq, f64_le_zero, f64_ge_100]
    have hlast : idx (x0 :: y :: rest) ((((x0 :: y :: rest).length : Nat) : Int) - 1) = some (SD.max (x0 :: y :: rest)) :=
      idx_last _ (by simp)
    have hfirst : idx (x0 :: y :: rest) 0 = some x0 := by simp [idx]
    generalize x0 :: y :: rest = s at *
    by_cases hp0 : p ≤ 0
    · rw [if_pos hp0, if_pos hp0, goIndex_map, hfirst]
    rw [if_neg hp0, if_neg hp0]
    by_cases hp1 : p ≥ 100
    · rw [if_pos hp1, if_pos hp1, goIndex_map, hlast]
    rw [if_neg hp1, if_neg hp1]
    simp only [pkg_float64, pkg_int64, pkg_int, math_Floor, math_Ceil, time_Duration, sem_pure_bind, sd_toInt_intCast]
    have habs : (goDiv (⟨p⟩ : GoF64) 100 * ToF64.conv (((s.length : Nat) : Int) - 1) : GoF64)
        = ⟨F64.mul (F64.div p 100) (F64.ofInt (((s.length : Nat) : Int) - 1))⟩ := rfl
    rw [habs]
    generalize F64.mul (F64.div p 100) (F64.ofInt (((s.length : Nat) : Int) - 1)) = a
    cases hf : idx s a.floor with
    | none => rw [sem_bind_nilCall _ _ g g (by rw [goIndex_map, hf]; rfl)]; rfl
    | some first =>
      rw [sem_bind_ok _ _ g g ⟨first⟩ (by rw [goIndex_map, hf]; rfl)]
      cases hc : idx s a.ceil with
      | none => rw [sem_bind_nilCall _ _ g g (by rw [goIndex_map, hc]; rfl)]; rfl
      | some second =>
        rw [sem_bind_ok _ _ g g ⟨second⟩ (by rw [goIndex_map, hc]; rfl)]
        rfl

end CM.GoTie.GoSD

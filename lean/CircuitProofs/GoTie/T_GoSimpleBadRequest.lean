/- GoTie/T_GoSimpleBadRequest.lean — `SimpleBadRequest`'s three methods as translated TODAY: `BadRequest()` is the
   constant true, `Cause()` returns the wrapped error, `Error()` is the wrapped error's `Error()` (a runtime panic when
   nothing is wrapped).  The clauses of the error-value model (`BRV.answer`, `EV.errorStr`) for this type are these bodies. -/
import CircuitModel.GoErrsPrims
import CircuitProofs.GoTie.Sem
import Generated.GoSimpleBadRequest
namespace CM.GoTie.GoSimpleBadRequest
open CM CM.Go CM.GoTie CM.GoErrs CM.GoErrs.SB CM.Generated.GoSimpleBadRequest

/-- TIE. `BadRequest()` always returns true, reads nothing -/
theorem go_BadRequest_eq : go_BadRequest = (pure true : SBM Bool) := by
  funext g
  rw [go_BadRequest, SB.fn]
  exact sem_goFunc_pure _ _ g _ rfl

/-- TIE. `Cause()` returns the field `Err` (nil included) -/
theorem go_Cause_eq : go_Cause = rd (·.Err) := by
  funext g
  rw [go_Cause, SB.fn]
  exact sem_goFunc_pure _ _ g _ rfl

/-- TIE. `Error()` is `s.Err.Error()`: the wrapped error's text, or Go's nil-interface panic when `Err` is nil (or is
    itself a SimpleBadRequest around nil, …) -/
theorem go_Error_eq (g : GS SimpleBadRequest NoTok) : go_Error g = (outStr g.st.Err.errorStr, g) := by
  rw [go_Error, SB.fn]
  refine sem_goFunc_pure _ _ g _ ?_
  simp only [recv_Err_Error]

/-- the answer the As-search model gives for a found SimpleBadRequest is the translated method's -/
theorem answer_simpleBad (s : SimpleBadRequest) : (run go_BadRequest s).1 = .ok (BRV.simpleBad s.Err).answer := by
  rw [go_BadRequest_eq]; rfl
/-- the `Error()` clause of the error-value model for a SimpleBadRequest is the translated method -/
theorem errorStr_simpleBad (s : SimpleBadRequest) : (run go_Error s).1 = outStr s.toEV.errorStr := by
  simp only [run, go_Error_eq, SimpleBadRequest.toEV, EV.errorStr]

/-! ### non-vacuity -/
example : run go_Error { Err := .wrap "w: boom" (.plain "boom") } = (.ok "w: boom", { Err := .wrap "w: boom" (.plain "boom") }) := by
  simp only [run, go_Error_eq]; rfl
/-- the zero value `SimpleBadRequest{}` IS a bad request whose `Error()` panics -/
example : (run go_Error {}).1 = .nilCall ∧ isBadRequest (SimpleBadRequest.toEV {}) = true := by
  simp only [run, go_Error_eq]; exact ⟨rfl, rfl⟩
example : (run go_Cause { Err := .plain "p" }).1 = .ok (.plain "p") := by
  rw [go_Cause_eq]; rfl

end CM.GoTie.GoSimpleBadRequest

/- GoTie/T_GoHOpener.lean — hystrix.Opener's methods are the model's `HOpener` functions.
   Every theorem says: the method body as translated TODAY from the Go source (Generated/GoHOpener/F_*.lean) computes the
   model's function. -/
import CircuitProofs.GoTie.Sem
import Generated.GoHOpener
set_option linter.unusedSimpArgs false
namespace CM.GoTie.GoHOpener
open CM CM.Go CM.GoHOpener CM.Generated.GoHOpener

theorem go_Success_eq (u : Unit) (t d : Int) : go_Success u t d = upd (fun s => s.onRun .success t d) := by
  funext g
  rw [go_Success, fn, sem_goFunc_noDefer] <;>
  simp [bind, recv_legitimateAttemptsCount_Inc, recv_errorsCount_Inc, recv_errorsCount_Reset,
    recv_legitimateAttemptsCount_Reset, HOpener.onRun, HOpener.resetBoth]

theorem go_ErrFailure_eq (u : Unit) (t d : Int) : go_ErrFailure u t d = upd (fun s => s.onRun .failure t d) := by
  funext g
  rw [go_ErrFailure, fn, sem_goFunc_noDefer] <;>
  simp [bind, recv_legitimateAttemptsCount_Inc, recv_errorsCount_Inc, recv_errorsCount_Reset,
    recv_legitimateAttemptsCount_Reset, HOpener.onRun, HOpener.resetBoth]

theorem go_ErrTimeout_eq (u : Unit) (t d : Int) : go_ErrTimeout u t d = upd (fun s => s.onRun .timeout t d) := by
  funext g
  rw [go_ErrTimeout, fn, sem_goFunc_noDefer] <;>
  simp [bind, recv_legitimateAttemptsCount_Inc, recv_errorsCount_Inc, recv_errorsCount_Reset,
    recv_legitimateAttemptsCount_Reset, HOpener.onRun, HOpener.resetBoth]

theorem go_ErrBadRequest_eq (u : Unit) (t d : Int) : go_ErrBadRequest u t d = upd (fun s => s.onRun .badRequest t d) := by
  funext g
  rw [go_ErrBadRequest, fn, sem_goFunc_noDefer] <;>
  simp [bind, recv_legitimateAttemptsCount_Inc, recv_errorsCount_Inc, recv_errorsCount_Reset,
    recv_legitimateAttemptsCount_Reset, HOpener.onRun, HOpener.resetBoth]

theorem go_ErrInterrupt_eq (u : Unit) (t d : Int) : go_ErrInterrupt u t d = upd (fun s => s.onRun .interrupt t d) := by
  funext g
  rw [go_ErrInterrupt, fn, sem_goFunc_noDefer] <;>
  simp [bind, recv_legitimateAttemptsCount_Inc, recv_errorsCount_Inc, recv_errorsCount_Reset,
    recv_legitimateAttemptsCount_Reset, HOpener.onRun, HOpener.resetBoth]

theorem go_ErrConcurrencyLimitReject_eq (u : Unit) (t : Int) : go_ErrConcurrencyLimitReject u t = upd (fun s => s.onRun .reject t 0) := by
  funext g
  rw [go_ErrConcurrencyLimitReject, fn, sem_goFunc_noDefer] <;>
  simp [bind, recv_legitimateAttemptsCount_Inc, recv_errorsCount_Inc, recv_errorsCount_Reset,
    recv_legitimateAttemptsCount_Reset, HOpener.onRun, HOpener.resetBoth]

theorem go_ErrShortCircuit_eq (u : Unit) (t : Int) : go_ErrShortCircuit u t = upd (fun s => s.onRun .shortCircuit t 0) := by
  funext g
  rw [go_ErrShortCircuit, fn, sem_goFunc_noDefer] <;>
  simp [bind, recv_legitimateAttemptsCount_Inc, recv_errorsCount_Inc, recv_errorsCount_Reset,
    recv_legitimateAttemptsCount_Reset, HOpener.onRun, HOpener.resetBoth]

theorem go_Opened_eq (u : Unit) (t : Int) : go_Opened u t = upd (fun s => s.resetBoth t) := by
  funext g
  rw [go_Opened, fn, sem_goFunc_noDefer] <;>
  simp [bind, recv_legitimateAttemptsCount_Inc, recv_errorsCount_Inc, recv_errorsCount_Reset,
    recv_legitimateAttemptsCount_Reset, HOpener.onRun, HOpener.resetBoth]

theorem go_Closed_eq (u : Unit) (t : Int) : go_Closed u t = upd (fun s => s.resetBoth t) := by
  funext g
  rw [go_Closed, fn, sem_goFunc_noDefer] <;>
  simp [bind, recv_legitimateAttemptsCount_Inc, recv_errorsCount_Inc, recv_errorsCount_Reset,
    recv_legitimateAttemptsCount_Reset, HOpener.onRun, HOpener.resetBoth]

theorem go_Prevent_eq (u : Unit) (t : Int) : go_Prevent u t = rd (fun _ => false) := by
  funext g
  rw [go_Prevent, fn, sem_goFunc_noDefer] <;>
  simp [bind, recv_legitimateAttemptsCount_Inc, recv_errorsCount_Inc, recv_errorsCount_Reset,
    recv_legitimateAttemptsCount_Reset, HOpener.onRun, HOpener.resetBoth]

theorem go_ShouldOpen_eq (u : Unit) (t : Int) : go_ShouldOpen u t = updRet (fun s => s.shouldOpen t) := by
  funext g
  rw [go_ShouldOpen, fn, sem_goFunc_noDefer] <;>
  by_cases h0 : (g.st.attempts.sumAt t).2 = 0 <;>
  by_cases h1 : (g.st.attempts.sumAt t).2 < g.st.vol <;>
  simp [bind, goOr, recv_legitimateAttemptsCount_RollingSumAt, recv_requestVolumeThreshold_Get,
    recv_errorsCount_RollingSumAt, recv_errorPercentage_Get, HOpener.shouldOpen, h0, h1]

end CM.GoTie.GoHOpener

/- GoTie/F_ConcurrentFallbacks.lean — the fallback gauge
   The generated function is today's translation of circuit.go; callee behaviour enters as HYPOTHESES (the callees'
   own ties are proved in their own modules and put together in GoTie/All.lean), so this module depends on the body of
   `ConcurrentFallbacks` only. -/
import CircuitModel.GoCircuitSpec
import CircuitProofs.GoTie.Basic
import Generated.GoCircuit.F_ConcurrentFallbacks
namespace CM.GoTie
open CM CM.Go CM.GoCircuit CM.Generated.GoCircuit
variable {σo σc : Type} [L : Logic σo σc]

theorem go_ConcurrentFallbacks_eq : go_ConcurrentFallbacks (σo := σo) (σc := σc) = spec_ConcurrentFallbacks := by
  funext g
  simp only [go_ConcurrentFallbacks, spec_ConcurrentFallbacks]
  rw [gt_fn_keep] <;> gt_eval

end CM.GoTie

/-
  GoTie/I_Call.lean — K6, the INTERFERENCE tie for the transitions and the admission (C09, C01): the bodies of
  `openCircuit`, `close`, `attemptToOpen`, `allowNewRun`, `checkSuccess`, `checkErrFailure` (with `IsOpen` inlined by their
  calls), translated from today's circuit.go over primitives in which an arbitrary move of the other goroutines precedes
  every atomic load / store of the three flags, every operation on `transitionMu` and every delivery of Opened / Closed
  (CircuitModel/GoCallConcPrims.lean; Generated/GoCallI), take EXACTLY the steps of the small-step model's thread
  (Conc/Call.step, which embeds Conc/Trans.step) run alone against the same oracle: same shared state, same oracle left,
  same sequence of operations with the same observed values, same answer — also when the run ends waiting for the
  transition mutex.  The all-schedule theorems of Props/C09Conc and Props/C01Conc speak about those step functions.
-/
import Generated.GoCallI
import CircuitModel.Conc.CallSolo
import CircuitProofs.GoTie.I_Call_Lemmas
namespace CM.GoTie.ICall
open CM CM.Go CM.Conc CM.Conc.Call CM.GoCallI CM.Generated.GoCallI

def runK (m : KM α) (s : Shared) (tid : Nat) (sc : Script) (envs : List (Shared → Shared)) : Out α × CS :=
  let r := m { st := { sh := s, tid := tid, sc := sc, envs := envs }, defers := [] }
  (r.1, r.2.st)

structure Agrees {α : Type} (r : Out α × CS) (st : SoloSt Shared Local Lab) (fin : Out α → Pc → Prop) : Prop where
  sh : st.sh = r.2.sh
  envs : st.envs = r.2.envs
  trace : st.trace = r.2.trace
  pc : fin r.1 st.loc.pc
  notStuck : r.2.stuck = false
  blocked : r.2.blocked = true ↔ r.1 = .nilCall

def isDone : Pc → Bool := fun pc => pc == .done
def decided : Pc → Bool := fun pc => pc == .askPrevent || pc == .shedNow
/-- waiting for the transition mutex at the start of the transition `j` -/
def waitingFor (j : Trans.Job) : Pc := .trans { job := j, pc := .start }

/-- the model's `Call` thread inside a transition IS the `Trans` thread (C09's theorems are about `Trans.step`) -/
theorem call_embeds_trans (tid : Nat) (s : Shared) (l : Local) (tl : Trans.Local) (h : l.pc = .trans tl) (hd : tl.pc ≠ .done) :
    Call.step tid s l =
      (Trans.step tid s.t tl).map fun p => ({ s with t := p.1 }, { l with pc := if p.2.pc == .done then .done else .trans p.2 }) := by
  obtain ⟨job, pc, so⟩ := l
  subst h
  rw [icall_step_trans tid s job so tl hd]
  cases Trans.step tid s.t tl <;> rfl

set_option linter.unusedSimpArgs false

/-- from the agreement along the trees to the statement about `runK` -/
theorem icall_Agrees_of {α : Type} (m : KM α) (s : Shared) (tid : Nat) (sc : Script) (envs : List (Shared → Shared))
    (st : SoloSt Shared Local Lab) (fin : Out α → Pc → Prop)
    (h : icall_Ag (m ⟨⟨s, tid, sc, envs, [], false, false⟩, []⟩) [] st fin) : Agrees (runK m s tid sc envs) st fin :=
  ⟨h.sh, h.envs, h.trace, h.pc, h.notStuck, h.blocked⟩

/-- `IsOpen()`: three loads, each after a move of the others -/
theorem icall_IsOpen_apply (s : Shared) (tid : Nat) (sc : Script) (envs : List (Shared → Shared)) (tr : List Lab) (b x : Bool) (d : List String) :
    go_IsOpen ⟨⟨s, tid, sc, envs, tr, b, x⟩, d⟩ =
      icall_after (popEnv envs s) fun s1 e1 =>
        if s1.t.forceOpen = true then (.ok true, ⟨⟨s1, tid, sc, e1, tr ++ [.loadFO s1.t.forceOpen], b, x⟩, d⟩)
        else icall_after (popEnv e1 s1) fun s2 e2 =>
          if s2.t.forcedClosed = true then (.ok false, ⟨⟨s2, tid, sc, e2, tr ++ [.loadFO s1.t.forceOpen] ++ [.loadFC s2.t.forcedClosed], b, x⟩, d⟩)
          else icall_after (popEnv e2 s2) fun s3 e3 =>
            (.ok s3.t.isOpen, ⟨⟨s3, tid, sc, e3, tr ++ [.loadFO s1.t.forceOpen] ++ [.loadFC s2.t.forcedClosed] ++ [.loadFlag s3.t.isOpen], b, x⟩, d⟩) := by
  simp only [go_IsOpen]
  icall_eval []

theorem icall_allowNewRun_gen (s : Shared) (tid : Nat) (sc : Script) (envs : List (Shared → Shared)) (tr : List Lab) (d : List String)
    (so : Option Bool) (k : Nat) (now : Int) :
    icall_Ag (go_allowNewRun () now ⟨⟨s, tid, sc, envs, tr, false, false⟩, d⟩) d
      (solo sys (viewUntil decided) tid (k + 6) ⟨s, ⟨.call sc, .aFO, so⟩, envs, tr⟩)
      (fun o pc => match o with
        | .ok b => pc = (if b then .askPrevent else .shedNow)
        | _ => False) := by
  simp only [go_allowNewRun]
  unfold decided
  icall_eval [icall_IsOpen_apply]
  icall_walk

theorem icall_openCircuit_gen (s : Shared) (tid : Nat) (sc : Script) (envs : List (Shared → Shared)) (tr : List Lab) (d : List String)
    (job : Job) (so : Option Bool) (k : Nat) (now : Int) :
    icall_Ag (go_openCircuit () now ⟨⟨s, tid, sc, envs, tr, false, false⟩, d⟩) d
      (solo sys (viewUntil isDone) tid (k + 9) ⟨s, ⟨job, .trans { job := .open, pc := .start }, so⟩, envs, tr⟩)
      (fun o pc => match o with
        | .ok () => pc = .done
        | .nilCall => pc = waitingFor .open
        | .panic _ => False) := by
  simp only [go_openCircuit]
  unfold isDone
  icall_eval [icall_IsOpen_apply]
  icall_walk

theorem icall_close_gen (s : Shared) (tid : Nat) (sc : Script) (envs : List (Shared → Shared)) (tr : List Lab) (d : List String)
    (job : Job) (so : Option Bool) (k : Nat) (now : Int) (force : Bool) :
    icall_Ag (go_close () now force ⟨⟨s, tid, sc, envs, tr, false, false⟩, d⟩) d
      (solo sys (viewUntil isDone) tid (k + 10) ⟨s, ⟨job, .trans { job := .close force sc.shouldClose, pc := .start }, so⟩, envs, tr⟩)
      (fun o pc => match o with
        | .ok () => pc = .done
        | .nilCall => pc = waitingFor (.close force sc.shouldClose)
        | .panic _ => False) := by
  obtain ⟨al, pr, fa, sho, shc⟩ := sc
  simp only [go_close]
  unfold isDone
  cases force <;> cases shc <;> icall_eval [icall_IsOpen_apply] <;> icall_walk


/-- `allowNewRun`: true ⇔ the thread goes on to ask the opener's veto, false ⇔ it sheds -/
theorem allowNewRun_solo (s : Shared) (tid : Nat) (sc : Script) (envs : List (Shared → Shared)) (now : Int) :
    Agrees (runK (go_allowNewRun () now) s tid sc envs) (soloFrom tid 24 decided (.call sc) .aFO s envs)
      (fun o pc => match o with
        | .ok b => pc = (if b then .askPrevent else .shedNow)
        | _ => False) := by
  exact icall_Agrees_of _ _ _ _ _ _ _ (icall_allowNewRun_gen s tid sc envs [] [] none 18 now)

theorem openCircuit_solo (s : Shared) (tid : Nat) (sc : Script) (job : Job) (envs : List (Shared → Shared)) (now : Int) :
    Agrees (runK (go_openCircuit () now) s tid sc envs) (soloFrom tid 24 isDone job (.trans { job := .open }) s envs)
      (fun o pc => match o with
        | .ok () => pc = .done
        | .nilCall => pc = waitingFor .open
        | .panic _ => False) := by
  exact icall_Agrees_of _ _ _ _ _ _ _ (icall_openCircuit_gen s tid sc envs [] [] job none 15 now)

theorem close_solo (s : Shared) (tid : Nat) (sc : Script) (job : Job) (force : Bool) (envs : List (Shared → Shared)) (now : Int) :
    Agrees (runK (go_close () now force) s tid sc envs)
      (soloFrom tid 24 isDone job (.trans { job := .close force sc.shouldClose }) s envs)
      (fun o pc => match o with
        | .ok () => pc = .done
        | .nilCall => pc = waitingFor (.close force sc.shouldClose)
        | .panic _ => False) := by
  exact icall_Agrees_of _ _ _ _ _ _ _ (icall_close_gen s tid sc envs [] [] job none 14 now force)

theorem icall_attemptToOpen_gen (s : Shared) (tid : Nat) (sc : Script) (envs : List (Shared → Shared)) (tr : List Lab) (d : List String)
    (so : Option Bool) (k : Nat) (now : Int) :
    icall_Ag (go_attemptToOpen () now ⟨⟨s, tid, sc, envs, tr, false, false⟩, d⟩) d
      (solo sys (viewUntil isDone) tid (k + 15) ⟨s, ⟨.call sc, .oFC, so⟩, envs, tr⟩)
      (fun o pc => match o with
        | .ok () => pc = .done
        | .nilCall => pc = waitingFor .open
        | .panic _ => False) := by
  simp only [go_attemptToOpen]
  unfold isDone
  icall_eval [icall_IsOpen_apply, ↓icall_hold_trans]
  icall_walk
  all_goals
    exact (icall_Ag_tail _ _ _ _ _ _ () (fun _ _ => rfl) (icall_openCircuit_gen _ _ _ _ _ _ _ _ _ _)
      (fun _ _ h => h) (fun _ h => h) (fun _ _ h => h))

theorem attemptToOpen_solo (s : Shared) (tid : Nat) (sc : Script) (envs : List (Shared → Shared)) (now : Int) :
    Agrees (runK (go_attemptToOpen () now) s tid sc envs) (soloFrom tid 24 isDone (.call sc) .oFC s envs)
      (fun o pc => match o with
        | .ok () => pc = .done
        | .nilCall => pc = waitingFor .open
        | .panic _ => False) := by
  exact icall_Agrees_of _ _ _ _ _ _ _ (icall_attemptToOpen_gen s tid sc envs [] [] none 9 now)

theorem icall_checkSuccess_gen (s : Shared) (tid : Nat) (sc : Script) (hs : sc.fails = false) (envs : List (Shared → Shared)) (tr : List Lab)
    (d : List String) (so : Option Bool) (k : Nat) (t' d' : Int) :
    icall_Ag (go_checkSuccess () t' d' ⟨⟨s, tid, sc, envs, tr, false, false⟩, d⟩) d
      (solo sys (viewUntil isDone) tid (k + 14) ⟨s, ⟨.call sc, .pFO, so⟩, envs, tr⟩)
      (fun o pc => match o with
        | .ok () => pc = .done
        | .nilCall => pc = waitingFor (.close false sc.shouldClose)
        | .panic _ => False) := by
  obtain ⟨al, pr, fa, sho, shc⟩ := sc
  simp only at hs
  subst hs
  simp only [go_checkSuccess]
  unfold isDone
  icall_eval [icall_IsOpen_apply, ↓icall_hold_trans]
  icall_walk
  all_goals
    exact (icall_Ag_tail _ _ _ _ _ _ () (fun _ _ => rfl) (icall_close_gen _ _ _ _ _ _ _ _ _ _ _)
      (fun _ _ h => h) (fun _ h => h) (fun _ _ h => h))

theorem icall_checkErrFailure_gen (s : Shared) (tid : Nat) (sc : Script) (hs : sc.fails = true) (envs : List (Shared → Shared)) (tr : List Lab)
    (d : List String) (so : Option Bool) (k : Nat) (e : Nat) (t' d' : Int) :
    icall_Ag (go_checkErrFailure () (some e) t' d' ⟨⟨s, tid, sc, envs, tr, false, false⟩, d⟩) d
      (solo sys (viewUntil isDone) tid (k + 18) ⟨s, ⟨.call sc, .pFO, so⟩, envs, tr⟩)
      (fun o pc => match o with
        | .ok b => b = true ∧ pc = .done
        | .nilCall => pc = waitingFor .open
        | .panic _ => False) := by
  obtain ⟨al, pr, fa, sho, shc⟩ := sc
  simp only at hs
  subst hs
  simp only [go_checkErrFailure]
  unfold isDone
  icall_eval [icall_IsOpen_apply, ↓icall_hold_oFC]
  icall_walk
  all_goals
    exact (icall_Ag_tail _ _ _ _ _ _ true (fun _ _ => rfl) (icall_attemptToOpen_gen _ _ _ _ _ _ _ _ _)
      (fun _ _ h => ⟨rfl, h⟩) (fun _ h => h) (fun _ _ h => h))

/-- after a run function that succeeded -/
theorem checkSuccess_solo (s : Shared) (tid : Nat) (sc : Script) (hs : sc.fails = false) (envs : List (Shared → Shared)) (t d : Int) :
    Agrees (runK (go_checkSuccess () t d) s tid sc envs) (soloFrom tid 24 isDone (.call sc) .pFO s envs)
      (fun o pc => match o with
        | .ok () => pc = .done
        | .nilCall => pc = waitingFor (.close false sc.shouldClose)
        | .panic _ => False) := by
  exact icall_Agrees_of _ _ _ _ _ _ _ (icall_checkSuccess_gen s tid sc hs envs [] [] none 10 t d)

/-- after a run function that failed (`ret != nil`) -/
theorem checkErrFailure_solo (s : Shared) (tid : Nat) (sc : Script) (hs : sc.fails = true) (envs : List (Shared → Shared)) (e : Nat) (t d : Int) :
    Agrees (runK (go_checkErrFailure () (some e) t d) s tid sc envs) (soloFrom tid 24 isDone (.call sc) .pFO s envs)
      (fun o pc => match o with
        | .ok b => b = true ∧ pc = .done
        | .nilCall => pc = waitingFor .open
        | .panic _ => False) := by
  exact icall_Agrees_of _ _ _ _ _ _ _ (icall_checkErrFailure_gen s tid sc hs envs [] [] none 6 e t d)

/-- … and with `ret == nil` it is not a failure: nothing happens -/
theorem checkErrFailure_nil (s : Shared) (tid : Nat) (sc : Script) (envs : List (Shared → Shared)) (t d : Int) :
    let r := runK (go_checkErrFailure () none t d) s tid sc envs
    r.1 = .ok false ∧ r.2.sh = s ∧ r.2.envs = envs ∧ r.2.trace = [] := by
  simp only [runK, go_checkErrFailure]
  icall_eval []
  exact ⟨rfl, rfl, rfl, rfl⟩

/-! non-vacuity: a flag flipped by another goroutine between two loads; the mutex grabbed by somebody else -/
def sh0 : Shared := { t := { forceOpen := false, forcedClosed := false, isOpen := false } }
def flp : Shared → Shared := fun s => { s with t := { s.t with isOpen := !s.t.isOpen } }
def grab : Shared → Shared := fun s => { s with t := { s.t with holder := some 7 } }
example : (runK (go_openCircuit () 5) sh0 1 {} [id, id, flp, flp]).2.sh.t.log = [true] := by decide
example : (runK (go_openCircuit () 5) sh0 1 {} [id, id, id, flp]).2.sh.t.log = [] := by decide
example : (runK (go_openCircuit () 5) sh0 1 {} [grab]).1 = .nilCall := by decide

end CM.GoTie.ICall

/- GoTie/T_GoLiveLogic.lean — five small units, as translated TODAY:
   the default logic of closers.go never opens, never closes, never vetoes, never admits, and ignores every callback;
   a live reconfiguration of the hystrix opener / the hystrix closer / the SLO tracker stores the config and pushes EVERY
   setting into the word the object reads while running; `Config()` returns what was stored. -/
import CircuitModel.GoLiveLogicPrims
import CircuitProofs.GoTie.Sem
import Generated.GoNeverOpens
import Generated.GoNeverCloses
import Generated.GoHOpenerCfg
import Generated.GoHCloserCfg
import Generated.GoSloCfg
namespace CM.GoTie.GoLiveLogic
open CM CM.Go

/-- a locked body that ends `.ok a` in state `x` with exactly the unlock token on top -/
theorem locked {σ α : Type} (body : M σ String α) (g : GS σ String) (a : α) (x : σ)
    (h : body g = (.ok a, { st := x, defers := "recv_mu_Unlock" :: g.defers })) :
    goFunc (unlockTok σ) body g = (.ok a, { st := x, defers := g.defers }) := by
  rw [sem_goFunc_def, h]
  simp only [List.length_cons]
  rw [sem_unwind_one (unlockTok σ) "recv_mu_Unlock" rfl]

section never
open CM.GoNever
macro "never_tac" f:ident : tactic => `(tactic| (funext g; rw [$f:ident, GoNever.fn, sem_goFunc_pure] <;> rfl))
namespace Opens
open CM.Generated.GoNeverOpens
theorem go_ShouldOpen_eq (u : Unit) (t : Int) : go_ShouldOpen u t = pure false := by never_tac go_ShouldOpen
theorem go_Prevent_eq (u : Unit) (t : Int) : go_Prevent u t = pure false := by never_tac go_Prevent
theorem go_Success_eq (u : Unit) (t d : Int) : go_Success u t d = pure () := by never_tac go_Success
theorem go_ErrFailure_eq (u : Unit) (t d : Int) : go_ErrFailure u t d = pure () := by never_tac go_ErrFailure
theorem go_ErrTimeout_eq (u : Unit) (t d : Int) : go_ErrTimeout u t d = pure () := by never_tac go_ErrTimeout
theorem go_ErrBadRequest_eq (u : Unit) (t d : Int) : go_ErrBadRequest u t d = pure () := by never_tac go_ErrBadRequest
theorem go_ErrInterrupt_eq (u : Unit) (t d : Int) : go_ErrInterrupt u t d = pure () := by never_tac go_ErrInterrupt
theorem go_ErrConcurrencyLimitReject_eq (u : Unit) (t : Int) : go_ErrConcurrencyLimitReject u t = pure () := by never_tac go_ErrConcurrencyLimitReject
theorem go_ErrShortCircuit_eq (u : Unit) (t : Int) : go_ErrShortCircuit u t = pure () := by never_tac go_ErrShortCircuit
theorem go_Opened_eq (u : Unit) (t : Int) : go_Opened u t = pure () := by never_tac go_Opened
theorem go_Closed_eq (u : Unit) (t : Int) : go_Closed u t = pure () := by never_tac go_Closed
end Opens
namespace Closes
open CM.Generated.GoNeverCloses
theorem go_ShouldClose_eq (u : Unit) (t : Int) : go_ShouldClose u t = pure false := by never_tac go_ShouldClose
theorem go_Allow_eq (u : Unit) (t : Int) : go_Allow u t = pure false := by never_tac go_Allow
theorem go_Success_eq (u : Unit) (t d : Int) : go_Success u t d = pure () := by never_tac go_Success
theorem go_ErrFailure_eq (u : Unit) (t d : Int) : go_ErrFailure u t d = pure () := by never_tac go_ErrFailure
theorem go_ErrTimeout_eq (u : Unit) (t d : Int) : go_ErrTimeout u t d = pure () := by never_tac go_ErrTimeout
theorem go_ErrBadRequest_eq (u : Unit) (t d : Int) : go_ErrBadRequest u t d = pure () := by never_tac go_ErrBadRequest
theorem go_ErrInterrupt_eq (u : Unit) (t d : Int) : go_ErrInterrupt u t d = pure () := by never_tac go_ErrInterrupt
theorem go_ErrConcurrencyLimitReject_eq (u : Unit) (t : Int) : go_ErrConcurrencyLimitReject u t = pure () := by never_tac go_ErrConcurrencyLimitReject
theorem go_ErrShortCircuit_eq (u : Unit) (t : Int) : go_ErrShortCircuit u t = pure () := by never_tac go_ErrShortCircuit
theorem go_Opened_eq (u : Unit) (t : Int) : go_Opened u t = pure () := by never_tac go_Opened
theorem go_Closed_eq (u : Unit) (t : Int) : go_Closed u t = pure () := by never_tac go_Closed
end Closes
end never

namespace Opener
open CM.GoHOpenerCfg CM.Generated.GoHOpenerCfg
/-- both thresholds reach the words `ShouldOpen` reads; the counters are untouched -/
theorem go_SetConfigThreadSafe_eq (p : ConfigureOpener) (g : GS W String) :
    go_SetConfigThreadSafe p g =
      (.ok (), { g with st := { o := { g.st.o with pct := p.f_ErrorThresholdPercentage, vol := p.f_RequestVolumeThreshold }, config := some p } }) := by
  rw [go_SetConfigThreadSafe, GoHOpenerCfg.fn]
  exact locked _ g () _ rfl
theorem go_Config_eq (p : ConfigureOpener) (g : GS W String) (h : g.st.config = some p) : go_Config g = (.ok p, g) := by
  rw [go_Config, GoHOpenerCfg.fn]
  refine locked _ g p g.st ?_
  simp only [sem_bind_step, recv_mu_Lock, deferPrim, sem_pure, sem_pushDefer, sem_step_ok, recv_config, h]
end Opener

namespace Closer
open CM.GoHCloserCfg CM.Generated.GoHCloserCfg
/-- sleep window, probe budget, required successes and the timer hook all reach the running object -/
theorem go_SetConfigThreadSafe_eq (c : ConfigureCloser) (g : GS W String) :
    go_SetConfigThreadSafe c g = (.ok (), { g with st := g.st.configured c }) := by
  rw [go_SetConfigThreadSafe, GoHCloserCfg.fn]
  exact locked _ g () _ rfl
theorem go_SetConfigNotThreadSafe_eq (c : ConfigureCloser) (g : GS W String) :
    go_SetConfigNotThreadSafe c g = (.ok (), { g with st := g.st.configured c }) := by
  rw [go_SetConfigNotThreadSafe, GoHCloserCfg.fn]
  refine sem_goFunc_st _ _ g _ _ ?_
  simp only [sem_bind_step, go_SetConfigThreadSafe_eq, sem_step_ok, sem_pure]
theorem go_Config_eq (c : ConfigureCloser) (g : GS W String) (h : g.st.config = some c) : go_Config g = (.ok c, g) := by
  rw [go_Config, GoHCloserCfg.fn]
  refine locked _ g c g.st ?_
  simp only [sem_bind_step, recv_mu_Lock, deferPrim, sem_pure, sem_pushDefer, sem_step_ok, recv_config, h]
end Closer

namespace Slo
open CM.GoSloCfg CM.Generated.GoSloCfg
theorem go_SetConfigThreadSafe_eq (c : SloConfig) (g : GS W String) :
    go_SetConfigThreadSafe c g = (.ok (), { g with st := { slo := { g.st.slo with maxHealthy := c.f_MaximumHealthyTime }, config := some c } }) := by
  rw [go_SetConfigThreadSafe, GoSloCfg.fn]
  exact locked _ g () _ rfl
theorem go_Config_eq (c : SloConfig) (g : GS W String) (h : g.st.config = some c) : go_Config g = (.ok c, g) := by
  rw [go_Config, GoSloCfg.fn]
  refine locked _ g c g.st ?_
  simp only [sem_bind_step, recv_mu_Lock, deferPrim, sem_pure, sem_pushDefer, sem_step_ok, recv_config, h]
end Slo

end CM.GoTie.GoLiveLogic

/- GoTie/T_GoHFacNever.lean — `neverOpensFactory` / `neverClosesFactory` (closers.go), as translated TODAY: they return
   the stateless default logic values `neverOpens{}` / `neverCloses{}` (whose methods are tied in T_GoLiveLogic: never
   open, never close, never prevent, never allow) and touch nothing. -/
import CircuitModel.GoHfacPrims
import CircuitProofs.GoTie.Sem
import Generated.GoHFacNever
namespace CM.GoTie.GoHFacNever
open CM CM.Go CM.GoHFac CM.GoHFac.Never CM.Generated.GoHFacNever

/-- the default closed→open logic is `neverOpens{}` -/
theorem go_neverOpensFactory_eq (g : GS Unit NoTok) : go_neverOpensFactory g = (.ok OState.never, g) := by
  unfold go_neverOpensFactory Never.fn
  exact sem_goFunc_pure _ _ g _ rfl
/-- the default open→closed logic is `neverCloses{}` -/
theorem go_neverClosesFactory_eq (g : GS Unit NoTok) : go_neverClosesFactory g = (.ok CState.never, g) := by
  unfold go_neverClosesFactory Never.fn
  exact sem_goFunc_pure _ _ g _ rfl

/-! ### non-vacuity: the value returned really is the logic that never opens / never lets a probe through -/
example : (Go.run go_neverOpensFactory ()).1 = .ok OState.never ∧ (openerI.shouldOpen .never 5).2 = false := by decide
example : (Go.run go_neverClosesFactory ()).1 = .ok CState.never ∧ (closerI.allow .never 5).2 = false := by decide

end CM.GoTie.GoHFacNever

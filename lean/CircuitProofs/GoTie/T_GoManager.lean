/- GoTie/T_GoManager.lean — `Manager.CreateCircuit`, `GetCircuit`, `MustCreateCircuit`, as translated TODAY from
   manager.go, compute the model's `Mgr.create` / `State.get` (Manager.lean) — the functions C17's theorems speak about:
   existence test first (a failed create runs no constructor), explicit configs merged in argument order, default
   constructors from LAST to first, library defaults last, one new entry in the map. -/
import CircuitModel.GoManagerPrims
import CircuitProofs.GoTie.Sem
import Generated.GoManager
namespace CM.GoTie.GoManager
open CM CM.Go CM.Mgr CM.GoManager CM.Generated.GoManager

theorem runTok_Unlock : runTok "recv_mu_Unlock" = pure () := rfl
theorem runTok_RUnlock : runTok "recv_mu_RUnlock" = pure () := rfl

theorem merge_empty (a : Layer) : merge a {} = a := by
  cases a; simp only [merge, Bool.or_false, Layer.mk.injEq, and_true]
  refine ⟨?_, ?_, ?_⟩ <;> split <;> simp_all
theorem orElse_none {α : Type} (o : Option α) : (o.orElse fun _ => none) = o := by cases o <;> rfl

theorem runCtors_append (name : String) (l1 l2 : List Ctor) (acc : Layer × State × Option Nat) :
    runCtors name (l1 ++ l2) acc = runCtors name l1 (runCtors name l2 acc) := by
  induction l1 with
  | nil => rfl
  | cons c l ih => simp only [List.cons_append, runCtors, ih]

theorem runCtors_keeps (name : String) (l : List Ctor) (acc : Layer × State × Option Nat) :
    (runCtors name l acc).2.1.ctors = acc.2.1.ctors ∧ (runCtors name l acc).2.1.circuits = acc.2.1.circuits ∧
    (runCtors name l acc).2.1.nextId = acc.2.1.nextId := by
  induction l with
  | nil => simp [runCtors]
  | cons c l ih =>
    simp only [runCtors]
    cases c <;> simp [ih]

theorem goCountdown_succ (k : Nat) : goCountdown ((k + 1 : Nat) : Int) = (k : Int) :: goCountdown (k : Int) := by
  simp [goCountdown, List.range_succ]

theorem goCountdown_zero : goCountdown ((0 : Nat) : Int) = [] := by
  simp [goCountdown]

theorem loop1 (f : Lay → Lay → GMM (ForInStep Lay))
    (hf : f = fun c s => do let x ← Prod.m_Merge s c; pure (ForInStep.yield x))
    (configs : List Layer) (a : Lay) (g : GS MW String) :
    forIn (configs.map fun l => ((l, none) : Lay)) a f g = (.ok (configs.foldl merge a.1, a.2), g) := by
  subst hf
  refine (sem_forIn_accG _ (fun (a c : Lay) => ((merge a.1 c.1, a.2.orElse fun _ => c.2) : Lay)) (fun _ _ _ => rfl) _ _ _).trans ?_
  congr 2
  induction configs generalizing a with
  | nil => rfl
  | cons c l ih => simp only [List.map_cons, List.foldl_cons]; rw [ih]; simp

theorem loop2 (name : String) (f : Int → Lay → GMM (ForInStep Lay))
    (hf : f = fun i s => do
      let x ← recv_DefaultCircuitProperties_call i name
      let y ← Prod.m_Merge s x
      pure (ForInStep.yield y))
    (ctors : List Ctor) (k : Nat) (hk : k ≤ ctors.length) (a : Lay) (g : GS MW String) (hg : g.st.s.ctors = ctors) :
    forIn (goCountdown (k : Int)) a f g =
      (.ok ((runCtors name (ctors.take k) (a.1, g.st.s, a.2)).1, (runCtors name (ctors.take k) (a.1, g.st.s, a.2)).2.2),
       { g with st := { g.st with s := (runCtors name (ctors.take k) (a.1, g.st.s, a.2)).2.1 } }) := by
  subst hf
  induction k generalizing a g with
  | zero => rw [goCountdown_zero]; rfl
  | succ k ih =>
    have hk' : k < ctors.length := hk
    rw [goCountdown_succ, List.forIn_cons]
    have ht : ctors.take (k + 1) = ctors.take k ++ [ctors[k]] := by
      rw [List.take_add_one, List.getElem?_eq_getElem hk']; rfl
    rw [ht, runCtors_append]
    have hc : g.st.s.ctors[(k : Int).toNat]? = some ctors[k] := by
      rw [hg]; simp
    cases hck : ctors[k] with
    | layer l =>
      rw [hck] at hc
      have h1 : (do
          let x ← recv_DefaultCircuitProperties_call (k : Int) name
          let y ← Prod.m_Merge a x
          pure (ForInStep.yield y) : GMM (ForInStep Lay)) g = (.ok (.yield (merge a.1 l, a.2)), g) := by
        have : recv_DefaultCircuitProperties_call (k : Int) name g = (.ok (l, none), g) := by
          simp only [recv_DefaultCircuitProperties_call, hc]
        rw [sem_bind_ok _ _ _ _ _ this]
        show (Out.ok (ForInStep.yield (merge a.1 l, a.2.orElse fun _ => none)), g) = _
        rw [orElse_none]
      refine (sem_bind_ok _ _ _ _ _ h1).trans ?_
      refine Eq.trans (ih (Nat.le_of_lt hk') _ _ ?_) ?_
      · exact hg
      simp [runCtors]
    | statFactory =>
      rw [hck] at hc
      have h1 : (do
          let x ← recv_DefaultCircuitProperties_call (k : Int) name
          let y ← Prod.m_Merge a x
          pure (ForInStep.yield y) : GMM (ForInStep Lay)) g =
            (.ok (.yield (a.1, a.2.orElse fun _ => some g.st.s.nextStat)),
             { g with st := { g.st with s := { g.st.s with statBinding := (name, g.st.s.nextStat) :: g.st.s.statBinding, nextStat := g.st.s.nextStat + 1 } } }) := by
        have : recv_DefaultCircuitProperties_call (k : Int) name g = (.ok ({}, some g.st.s.nextStat),
             { g with st := { g.st with s := { g.st.s with statBinding := (name, g.st.s.nextStat) :: g.st.s.statBinding, nextStat := g.st.s.nextStat + 1 } } }) := by
          simp only [recv_DefaultCircuitProperties_call, hc]
        refine (sem_bind_ok _ _ _ _ _ this).trans ?_
        show (Out.ok (ForInStep.yield (merge a.1 {}, a.2.orElse fun _ => some g.st.s.nextStat)), _) = _
        rw [merge_empty]
      refine (sem_bind_ok _ _ _ _ _ h1).trans ?_
      refine Eq.trans (ih (Nat.le_of_lt hk') _ _ ?_) ?_
      · exact hg
      simp [runCtors]

theorem loop2_full (name : String) (f : Int → Lay → GMM (ForInStep Lay))
    (hf : f = fun i s => do
      let x ← recv_DefaultCircuitProperties_call i name
      let y ← Prod.m_Merge s x
      pure (ForInStep.yield y))
    (a : Lay) (g : GS MW String) :
    forIn (goCountdown (goLen g.st.s.ctors)) a f g =
      (.ok ((runCtors name g.st.s.ctors (a.1, g.st.s, a.2)).1, (runCtors name g.st.s.ctors (a.1, g.st.s, a.2)).2.2),
       { g with st := { g.st with s := (runCtors name g.st.s.ctors (a.1, g.st.s, a.2)).2.1 } }) := by
  have h := loop2 name f hf g.st.s.ctors g.st.s.ctors.length (Nat.le_refl _) a g rfl
  rw [List.take_length] at h
  exact h

theorem get_append_new (s : State) (name : String) (c : Circuit) (circuits : List (String × Circuit))
    (hc : circuits = s.circuits) (h : s.get name = none) (ctors sb nid ns) :
    State.get { ctors := ctors, circuits := circuits ++ [(name, c)], statBinding := sb, nextId := nid, nextStat := ns } name = some c := by
  subst hc
  simp only [State.get, Option.map_eq_none_iff] at h
  simp [State.get, List.find?_append, h]

theorem if_set_noop {α : Type} (c : Prop) [Decidable c] (m : MapH) (k : Unit → GMM α) :
    (if c then (do let x ← recv_circuitMap_set m; k x) else k ()) = k () := by split <;> rfl

local macro "step " h:term : tactic => `(tactic| refine (sem_bind_ok _ _ _ _ _ $h).trans ?_)

theorem go_CreateCircuit_run (name : String) (configs : List Layer) (g : GS MW String) :
    go_CreateCircuit name (configs.map fun l => (l, none)) g =
      match g.st.s.get name with
      | some _ => (.ok (none, some "circuit with that name already exists"), g)
      | none =>
        let R := runCtors name g.st.s.ctors (configs.foldl merge {}, g.st.s, none)
        let c : Circuit := { id := R.2.1.nextId, cfg := merge R.1 libDefaults, stats := R.2.2 }
        (.ok (some c, none),
         { g with st := { g.st with s := { R.2.1 with circuits := R.2.1.circuits ++ [(name, c)], nextId := R.2.1.nextId + 1 } } }) := by
  unfold go_CreateCircuit fn
  rw [sem_goFunc_def]
  generalize hb : (do
        let __do_lift ← recv_mu_Lock
        have x : Unit := __do_lift
        let __do_lift ← deferPrim "recv_mu_Unlock"
        _ : GMM (CircP × MErr)) = body
  have key : body g =
      match g.st.s.get name with
      | some _ => (.ok (none, some "circuit with that name already exists"), { st := g.st, defers := "recv_mu_Unlock" :: g.defers })
      | none =>
        let R := runCtors name g.st.s.ctors (configs.foldl merge {}, g.st.s, none)
        let c : Circuit := { id := R.2.1.nextId, cfg := merge R.1 libDefaults, stats := R.2.2 }
        (.ok (some c, none),
         { st := { g.st with s := { R.2.1 with circuits := R.2.1.circuits ++ [(name, c)], nextId := R.2.1.nextId + 1 } },
           defers := "recv_mu_Unlock" :: g.defers }) := by
    subst hb
    step (rfl : recv_mu_Lock g = (.ok (), g))
    step (sem_pushDefer "recv_mu_Unlock" g)
    step (sem_rd _ _)
    refine (congrFun (if_set_noop _ _ _) _).trans ?_
    step (sem_rd _ _)
    cases hget : g.st.s.get name with
    | some c0 =>
      refine (congrFun (if_pos ?_) _).trans ?_
      · rfl
      rfl
    | none =>
      refine (congrFun (if_neg ?_) _).trans ?_
      · simp
      step (loop1 _ rfl _ _ _)
      step (sem_rd _ _)
      step (loop2_full name _ rfl _ _)
      step (rfl : pkg_NewCircuitFromConfig name _ _ = (Out.ok _, _))
      step (rfl : recv_circuitMap_store name (some _) _ = (Out.ok _, _))
      step (sem_rd _ _)
      have hk := runCtors_keeps name g.st.s.ctors (List.foldl merge {} configs, g.st.s, none)
      refine Prod.ext ?_ rfl
      refine congrArg (fun x => Out.ok (x, none)) ?_
      exact get_append_new g.st.s name _ _ hk.2.1 hget _ _ _ _
  rw [key]
  cases g.st.s.get name with
  | some c0 =>
    show (_, unwind runTok g.defers.length (g.defers.length + 1) _) = _
    rw [sem_unwind_one _ _ runTok_Unlock]
  | none =>
    show (_, unwind runTok g.defers.length (g.defers.length + 1) _) = _
    rw [sem_unwind_one _ _ runTok_Unlock]

theorem go_MustCreateCircuit_run (name : String) (configs : List Layer) (g : GS MW String) :
    go_MustCreateCircuit name (configs.map fun l => (l, none)) g =
      match g.st.s.get name with
      | some _ => (.panic 0, g)
      | none =>
        let R := runCtors name g.st.s.ctors (configs.foldl merge {}, g.st.s, none)
        let c : Circuit := { id := R.2.1.nextId, cfg := merge R.1 libDefaults, stats := R.2.2 }
        (.ok (some c),
         { g with st := { g.st with s := { R.2.1 with circuits := R.2.1.circuits ++ [(name, c)], nextId := R.2.1.nextId + 1 } } }) := by
  unfold go_MustCreateCircuit fn
  generalize hb : (do
        let __do_lift ← go_CreateCircuit name (configs.map fun l => (l, none))
        _ : GMM CircP) = body
  have key : body g =
      match g.st.s.get name with
      | some _ => (.panic 0, g)
      | none =>
        let R := runCtors name g.st.s.ctors (configs.foldl merge {}, g.st.s, none)
        let c : Circuit := { id := R.2.1.nextId, cfg := merge R.1 libDefaults, stats := R.2.2 }
        (.ok (some c),
         { g with st := { g.st with s := { R.2.1 with circuits := R.2.1.circuits ++ [(name, c)], nextId := R.2.1.nextId + 1 } } }) := by
    subst hb
    have hrun := go_CreateCircuit_run name configs g
    cases hget : g.st.s.get name with
    | some c0 =>
      rw [hget] at hrun
      step hrun
      rfl
    | none =>
      rw [hget] at hrun
      step hrun
      rfl
  rw [sem_goFunc_noDefer, key]
  rw [key]
  cases g.st.s.get name <;> rfl

theorem go_GetCircuit_eq (name : String) (g : GS MW String) : go_GetCircuit name g = (.ok (g.st.s.get name), g) := by
  unfold go_GetCircuit fn
  rw [sem_goFunc_def]
  have hb : ∀ m : GMM CircP, (if isNil recv = true then m else do
        let __do_lift ← recv_mu_RLock
        have x : Unit := __do_lift
        let __do_lift ← deferPrim "recv_mu_RUnlock"
        have x : Unit := __do_lift
        recv_circuitMap_at name) g = (.ok (g.st.s.get name), { st := g.st, defers := "recv_mu_RUnlock" :: g.defers }) := by
    intro m; rfl
  rw [hb]
  simp only [List.length_cons]
  rw [sem_unwind_one _ _ runTok_RUnlock]

/-- `CreateCircuit(name, configs...)` -/
theorem go_CreateCircuit_eq (s : State) (name : String) (configs : List Layer) (d : List String) :
    let r := go_CreateCircuit name (configs.map fun l => (l, none)) { st := { s := s }, defers := d }
    let m := create s name configs
    r.2.st.s = m.1 ∧ r.2.defers = d ∧ r.2.st.stuck = false ∧
    (match m.2 with
     | .created c => r.1 = .ok (some c, none)
     | .exists_ => ∃ msg, r.1 = .ok (none, some msg)
     | _ => False) := by
  intro r m
  have hr : r = _ := go_CreateCircuit_run name configs { st := { s := s }, defers := d }
  have hm : m = create s name configs := rfl
  unfold create at hm
  simp only at hr
  cases hget : s.get name with
  | some c0 =>
    rw [hget] at hr hm
    simp only at hr hm
    rw [hr, hm]
    exact ⟨rfl, rfl, rfl, _, rfl⟩
  | none =>
    rw [hget] at hr hm
    simp only at hr hm
    rw [hr, hm]
    exact ⟨rfl, rfl, rfl, rfl⟩

/-- `MustCreateCircuit`: the created circuit, or a panic when the name is taken (nothing changed) -/
theorem go_MustCreateCircuit_eq (s : State) (name : String) (configs : List Layer) (d : List String) :
    let r := go_MustCreateCircuit name (configs.map fun l => (l, none)) { st := { s := s }, defers := d }
    let m := create s name configs
    r.2.st.s = m.1 ∧ r.2.defers = d ∧
    (match m.2 with
     | .created c => r.1 = .ok (some c)
     | .exists_ => ∃ v, r.1 = .panic v
     | _ => False) := by
  intro r m
  have hr : r = _ := go_MustCreateCircuit_run name configs { st := { s := s }, defers := d }
  have hm : m = create s name configs := rfl
  unfold create at hm
  simp only at hr
  cases hget : s.get name with
  | some c0 =>
    rw [hget] at hr hm
    simp only at hr hm
    rw [hr, hm]
    exact ⟨rfl, rfl, _, rfl⟩
  | none =>
    rw [hget] at hr hm
    simp only at hr hm
    rw [hr, hm]
    exact ⟨rfl, rfl, rfl⟩

end CM.GoTie.GoManager

/- GoTie/F_attemptToOpen.lean — `attemptToOpen` = the model's `attemptToOpen`
   The generated function is today's translation of circuit.go; callee behaviour enters as HYPOTHESES (the callees'
   own ties are proved in their own modules and put together in GoTie/All.lean), so this module depends on the body of
   `attemptToOpen` only. -/
import CircuitModel.GoCircuitSpec
import CircuitProofs.GoTie.Basic
import Generated.GoCircuit.F_attemptToOpen
namespace CM.GoTie
open CM CM.Go CM.GoCircuit CM.Generated.GoCircuit
variable {σo σc : Type} [L : Logic σo σc]

theorem go_attemptToOpen_eq (hI : go_IsOpen (σo := σo) (σc := σc) = spec_IsOpen) (hO : ∀ ctx t, go_openCircuit (σo := σo) (σc := σc) ctx t = spec_openCircuit ctx t) (ctx : GoCtx) (t : GoTime) :
    go_attemptToOpen (σo := σo) (σc := σc) ctx t = spec_attemptToOpen ctx t := by
  funext g
  simp only [go_attemptToOpen, spec_attemptToOpen, hI, hO]
  rw [gt_fn_keep] <;> gt_eval [spec_IsOpen, spec_openCircuit]
  all_goals (repeat' split) <;> simp_all [attemptToOpen, onS]

end CM.GoTie

/- GoTie/F_allowNewRun.lean — `allowNewRun` = the model's `allowNewRun`
   The generated function is today's translation of circuit.go; callee behaviour enters as HYPOTHESES (the callees'
   own ties are proved in their own modules and put together in GoTie/All.lean), so this module depends on the body of
   `allowNewRun` only. -/
import CircuitModel.GoCircuitSpec
import CircuitProofs.GoTie.Basic
import Generated.GoCircuit.F_allowNewRun
namespace CM.GoTie
open CM CM.Go CM.GoCircuit CM.Generated.GoCircuit
variable {σo σc : Type} [L : Logic σo σc]

theorem go_allowNewRun_eq (hI : go_IsOpen (σo := σo) (σc := σc) = spec_IsOpen) (ctx : GoCtx) (t : GoTime) :
    go_allowNewRun (σo := σo) (σc := σc) ctx t = spec_allowNewRun ctx t := by
  funext g
  simp only [go_allowNewRun, spec_allowNewRun, hI]
  rw [gt_fn_keep] <;> gt_eval [spec_IsOpen]
  all_goals (repeat' split) <;> simp_all [allowNewRun, onS]

end CM.GoTie

/- GoTie/T_GoCircMisc.lean — `Circuit.Name` and `Circuit.Go`, as translated TODAY from circuit.go.  `Go` only wraps the two
   user functions with the goroutine wrapper (gowrapper.go: goroutines and channels, NOT translated — primitives here) and
   delegates to `Execute` (unit GoCircuit) exactly once. -/
import CircuitModel.GoCtorPrims
import CircuitProofs.GoTie.Sem
import Generated.GoCircMisc
namespace CM.GoTie.GoCircMisc
open CM CM.Go CM.GoCircMisc CM.Generated.GoCircMisc

/-- `c.Name()`: the name the circuit was constructed with; the empty string on a nil circuit.  Nothing is written. -/
theorem go_Name_eq (recv : Recv) (g : GS MiscW NoTok) :
    go_Name recv g = (.ok (if recv.isNilPtr then "" else g.st.name), g) := by
  rw [go_Name, fn]
  rcases recv with ⟨_ | _⟩ <;> exact sem_goFunc_pure _ _ _ _ rfl

/-- `c.Go(ctx, run, fb)`: ONE call of `Execute`, with the caller's context and the two user functions wrapped by the
    circuit's own goroutine wrapper (a zero wrapper on a nil circuit) — and `Go` returns what that call returned. -/
theorem go_Go_eq (recv : Recv) (ctx : Ctx) (r : RunFn) (f : FbFn) (g : GS MiscW NoTok) :
    go_Go recv ctx r f g =
      (.ok (g.st.execAnswer ctx (.run (wrapperOf recv g.st) r) (.fallback (wrapperOf recv g.st) f)),
       { g with st := { g.st with execCalls := g.st.execCalls ++ [(ctx, .run (wrapperOf recv g.st) r, .fallback (wrapperOf recv g.st) f)] } }) := by
  rw [go_Go, fn]
  rcases recv with ⟨_ | _⟩ <;> exact sem_goFunc_st _ _ _ _ _ rfl

/-- non-vacuity: a live circuit hands its own wrapper (lost-errors hook 4), a nil circuit a zero wrapper -/
example : (run (go_Go ⟨false⟩ 9 (some 1) none) { name := "n", wrapper := { lostErrors := 4 } }).2.execCalls
    = [(9, .run { lostErrors := 4 } (some 1), .fallback { lostErrors := 4 } none)] := by decide
example : (run (go_Go ⟨true⟩ 9 (some 1) (some 2)) { name := "n", wrapper := { lostErrors := 4 } }).2.execCalls
    = [(9, .run {} (some 1), .fallback {} (some 2))] := by decide
example : (run (go_Name ⟨false⟩) { name := "n" }).1 = .ok "n" ∧ (run (go_Name ⟨true⟩) { name := "n" }).1 = .ok "" := by decide

end CM.GoTie.GoCircMisc

/- GoTie/T_GoTCHook.lean — `TimedCheck.afterFunc` and `TimedCheck.SetTimeAfterFunc`, as translated TODAY from
   faststats/timedcheck.go.  Unit GoTimedCheck treats `c.afterFunc(d, f)` as the PRIMITIVE `recv_afterFunc`; here its body is
   tied: the injected `TimeAfterFunc` is asked when one is set, `time.AfterFunc` otherwise, with the same duration and the
   same closure — and the gate changes exactly as that primitive says. -/
import CircuitModel.GoCtorPrims
import CircuitProofs.GoTie.Sem
import Generated.GoTCHook
namespace CM.GoTie.GoTCHook
open CM CM.Go CM.GoTCHook CM.Generated.GoTCHook

/-- `c.SetTimeAfterFunc(h)` stores the hook (under the lock); the gate and the record of factory calls stay. -/
theorem go_SetTimeAfterFunc_eq (h : Hook) (g : GS HookW String) :
    go_SetTimeAfterFunc h g = (.ok (), { g with st := { g.st with hook := h } }) := by
  rw [go_SetTimeAfterFunc, fn]
  exact sem_goFunc_st _ _ _ _ _ rfl

/-- `c.afterFunc(d, f)` asks exactly ONE timer factory — the injected hook when set, `time.AfterFunc` otherwise — with the
    duration and the closure it was given. -/
theorem go_afterFunc_eq (d : Int) (f : Clo) (g : GS HookW String) :
    go_afterFunc d f g = arm (factoryOf g.st) d f g := by
  rw [go_afterFunc, fn]
  rcases g with ⟨⟨w, hook, asked⟩, ds⟩
  cases hook <;> exact sem_goFunc_st _ _ _ _ _ rfl

/-- … and what that does to the gate is what unit GoTimedCheck's primitive `recv_afterFunc d f` says (same timer identity,
    same recorded closure, same `armed` entry); the factory, duration and closure are appended to the record. -/
theorem arm_is_recv_afterFunc (who : Factory) (d : Int) (f : Clo) (g : GS HookW String) :
    (arm who d f g).1 = (GoTimedCheck.recv_afterFunc d f { st := g.st.w, defers := [] }).1 ∧
    (arm who d f g).2.st.w = (GoTimedCheck.recv_afterFunc d f { st := g.st.w, defers := [] }).2.st ∧
    (arm who d f g).2.st.asked = g.st.asked ++ [(who, d, f)] ∧ (arm who d f g).2.st.hook = g.st.hook ∧
    (arm who d f g).2.defers = g.defers := ⟨rfl, rfl, rfl, rfl, rfl⟩

/-- after `SetTimeAfterFunc(some h)` every arming goes to `h`; after `SetTimeAfterFunc(nil)` to the standard library -/
theorem afterFunc_after_set (h : Hook) (d : Int) (f : Clo) (g : GS HookW String) :
    (go_afterFunc d f (go_SetTimeAfterFunc h g).2).2.st.asked
      = g.st.asked ++ [((match h with | some k => Factory.injected k | none => Factory.stdlib), d, f)] := by
  rw [go_SetTimeAfterFunc_eq, go_afterFunc_eq]
  cases h <;> rfl

/-- non-vacuity -/
example : (run (go_afterFunc 5 ⟨"x", [3]⟩) { w := { tc := {} } }).2.asked = [(.stdlib, 5, ⟨"x", [3]⟩)] := by decide
example : (run (do go_SetTimeAfterFunc (some 8); go_afterFunc 5 ⟨"x", [3]⟩) { w := { tc := {} } }).2.asked = [(.injected 8, 5, ⟨"x", [3]⟩)] := by decide

end CM.GoTie.GoTCHook

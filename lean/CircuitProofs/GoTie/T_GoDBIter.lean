/- GoTie/T_GoDBIter.lean — `durationsBucket.IterateDurations(startingIndex, callback)`, as translated TODAY from
   faststats/rolling_percentile.go: the callback is handed, newest first, the cells at `i % size` for the absolute indices
   `i = currentIndex-1, …, startingIndex`; the bucket is not changed; the cursor `currentIndex` is returned. -/
import CircuitModel.GoFsnewPrims
import CircuitProofs.GoTie.Sem
import Generated.GoDBIter
namespace CM.GoTie.GoDBIter
open CM CM.Go CM.GoFsNew CM.GoFsNew.IT CM.Generated.GoDBIter

/-! ### helpers -/

/-- a `for` loop whose body runs to its end for every element OF THE LIST from every state satisfying an invariant that the
    body keeps: the body's state transformer is folded -/
theorem fsnew_forIn_yield_inv {σ tok α : Type} (f : α → PUnit → M σ tok (ForInStep PUnit)) (F : α → GS σ tok → GS σ tok)
    (P : GS σ tok → Prop) (l : List α)
    (h : ∀ c ∈ l, ∀ u s, P s → f c u s = (.ok (.yield PUnit.unit), F c s) ∧ P (F c s)) (g : GS σ tok) (hg : P g) :
    forIn l PUnit.unit f g = (.ok PUnit.unit, l.foldl (fun s c => F c s) g) := by
  induction l generalizing g with
  | nil => rfl
  | cons c l ih =>
    have hc := h c (List.mem_cons_self ..) PUnit.unit g hg
    rw [List.forIn_cons, sem_bind_step, hc.1, sem_step_ok]
    exact ih (fun c' hc' => h c' (List.mem_cons_of_mem _ hc')) _ hc.2

theorem fsnew_mem_downFrom (a b i : Int) (hi : i ∈ goDownFrom a b) : b ≤ i ∧ i ≤ a := by
  simp only [goDownFrom, List.mem_map, List.mem_range] at hi
  obtain ⟨k, hk, rfl⟩ := hi
  have : (Int.ofNat k) = (k : Int) := rfl
  omega

/-- handing the values of a fixed bucket to the recorder, one after the other -/
theorem fsnew_record_fold (val : DSlot → Int → Int) (l : List Int) (g : GS ITW NoTok) :
    l.foldl (fun (s : GS ITW NoTok) i => { s with st := { s.st with seen := s.st.seen ++ [val s.st.slot i] } }) g
      = { g with st := { g.st with seen := g.st.seen ++ l.map (val g.st.slot) } } := by
  induction l generalizing g with
  | nil => simp
  | cons i l ih => rw [List.foldl_cons, ih]; simp

theorem fsnew_tmod_range (i : Int) (n : Nat) (hi : 0 ≤ i) (hn : 0 < n) : 0 ≤ Int.tmod i n ∧ (Int.tmod i n).toNat < n := by
  have h1 : Int.tmod i n = i % n := Int.tmod_eq_emod_of_nonneg hi
  have h2 : 0 ≤ i % (n : Int) := Int.emod_nonneg _ (by omega)
  have h3 : i % (n : Int) < n := Int.emod_lt_of_pos _ (by omega)
  omega

/-! ### the tie -/

/-- For a bucket whose buffer has the declared size, a non-negative starting index and a non-empty buffer (or nothing to
    iterate): the callback receives exactly `iterValues s start`, in that order, the bucket is untouched, `cur` is returned. -/
theorem go_IterateDurations_eq (s : DSlot) (h : s.arr.length = s.size) (start : Int) (h0 : 0 ≤ start)
    (hs : 0 < s.size ∨ (s.cur : Int) ≤ start) (seen : List Int) (dl : List NoTok) :
    go_IterateDurations start .record { st := { slot := s, seen := seen }, defers := dl }
      = (.ok (s.cur : Int), { st := { slot := s, seen := seen ++ iterValues s start }, defers := dl }) := by
  unfold go_IterateDurations fn
  apply sem_goFunc_st _ _ ({ st := ({ slot := s, seen := seen } : ITW), defers := dl } : GS ITW NoTok) _
    ({ slot := s, seen := seen ++ iterValues s start } : ITW)
  simp only [sem_bind_step, recv_currentIndex_Get, sem_rd, sem_step_ok]
  rw [fsnew_forIn_yield_inv _ (fun i (g : GS ITW NoTok) =>
      { g with st := { g.st with seen := g.st.seen ++ [g.st.slot.arr.getD (Int.tmod i g.st.slot.size).toNat 0] } })
      (fun g => g.st.slot = s)]
  · rw [sem_step_ok, sem_pure, fsnew_record_fold (fun sl i => sl.arr.getD (Int.tmod i sl.size).toNat 0)]
    simp only [iterValues, Int.sub_add_cancel]
  · intro i hi u g hg
    obtain ⟨hlo, hhi⟩ := fsnew_mem_downFrom _ _ _ hi
    have hpos : 0 < s.size := by omega
    obtain ⟨hm0, hm1⟩ := fsnew_tmod_range i s.size (by omega) hpos
    have hlt : (Int.tmod i s.size).toNat < s.arr.length := by omega
    subst hg
    refine ⟨?_, rfl⟩
    simp only [sem_bind_step, recv_durationsSomeInvalid, sem_rd, sem_step_ok, pkg_int64, sem_pure, goLen, goMod,
      recv_durationsSomeInvalid_at_Duration, h, if_neg (Int.not_lt.mpr hm0)]
    rw [List.getElem?_eq_getElem hlt, List.getD_eq_getElem?_getD, List.getElem?_eq_getElem hlt]
    rfl
  · rfl

/-- with an EMPTY buffer and something to iterate, the first trip is a runtime panic (Go: integer divide by zero) -/
theorem go_IterateDurations_empty (s : DSlot) (h : s.arr = []) (start : Int) (hlt : start < (s.cur : Int)) (seen : List Int) (dl : List NoTok) :
    go_IterateDurations start .record { st := { slot := s, seen := seen }, defers := dl }
      = (.nilCall, { st := { slot := s, seen := seen }, defers := dl }) := by
  unfold go_IterateDurations fn
  apply sem_goFunc_pure
  simp only [sem_bind_step, recv_currentIndex_Get, sem_rd, sem_step_ok]
  obtain ⟨m, hm⟩ : ∃ m, ((s.cur : Int) - 1 - start + 1).toNat = m + 1 := ⟨((s.cur : Int) - 1 - start + 1).toNat - 1, by omega⟩
  rw [goDownFrom, hm, List.range_succ_eq_map, List.map_cons, List.forIn_cons]
  simp only [sem_bind_step, recv_durationsSomeInvalid, sem_rd, sem_step_ok, pkg_int64, sem_pure,
    recv_durationsSomeInvalid_at_Duration, h, List.getElem?_nil]
  split <;> rfl

/-! ### non-vacuity (and a surprise) -/

/-- capacity 2, three values added: 1 was overwritten by 3 -/
def fsnew_slot : DSlot := (((DSlot.new 2).add 1).add 2).add 3
example : fsnew_slot = { size := 2, cur := 3, arr := [3, 2] } := by decide
/-- from cursor 1 (the two newest): 3 then 2, and the new cursor is 3 -/
example : Go.run (go_IterateDurations 1 .record) { slot := fsnew_slot, seen := [] }
    = (.ok 3, { slot := fsnew_slot, seen := [3, 2] }) := by decide
/-- from cursor 0, i.e. MORE than `size` indices back: the overwritten value 1 cannot be delivered — the newest value 3 is
    delivered a second time in its place -/
example : Go.run (go_IterateDurations 0 .record) { slot := fsnew_slot, seen := [] }
    = (.ok 3, { slot := fsnew_slot, seen := [3, 2, 3] }) := by decide
/-- a negative starting index runs into the runtime panic of a negative array index, after the deliveries -/
example : (Go.run (go_IterateDurations (-1) .record) { slot := fsnew_slot, seen := [] }).1 = .nilCall := by decide

end CM.GoTie.GoDBIter

/- GoTie/T_GoHFacOpenerSet.lean — `Opener.SetConfigThreadSafe` / `SetConfigNotThreadSafe`, as translated TODAY from
   closers/hystrix/opener.go, over an opener VALUE with construction environment (clocks, slice allocator):
   `SetConfigNotThreadSafe(p)` stores `p`, publishes BOTH thresholds, reads the configured clock exactly ONCE and builds
   BOTH rolling counters from that one reading with `NumBuckets` buckets of width `RollingDuration / NumBuckets`, each
   with its own bucket slice (C02: the opener's thresholds / window are the configured ones).  The panics (nil clock,
   zero or negative bucket count) are part of the statement. -/
import CircuitModel.GoHfacPrims
import CircuitProofs.GoTie.Sem
import Generated.GoHFacOpenerSet
namespace CM.GoTie.GoHFacOpenerSet
open CM CM.Go CM.GoHFac CM.GoHFac.Opener CM.Generated.GoHFacOpenerSet

/-- a body that registered exactly the unlock: the unlock runs, the result and state stay -/
theorem locked {α : Type} (body : OFM α) (g : GS OW String) (a : α) (x : OW)
    (h : body g = (.ok a, { st := x, defers := "recv_mu_Unlock" :: g.defers })) :
    Opener.fn body g = (.ok a, { st := x, defers := g.defers }) := by
  unfold Opener.fn
  rw [sem_goFunc_def, h]
  simp only [List.length_cons]
  rw [sem_unwind_one _ "recv_mu_Unlock" rfl]

/-- `SetConfigThreadSafe(p)`: the config is stored and both thresholds reach the words `ShouldOpen` reads; the counters,
    the clocks and the allocator are untouched -/
theorem go_SetConfigThreadSafe_eq (p : OCfg) (g : GS OW String) :
    go_SetConfigThreadSafe p g =
      (.ok (), { g with st := { g.st with recv := { g.st.recv with config := p, pct := p.f_ErrorThresholdPercentage, vol := p.f_RequestVolumeThreshold } } }) := by
  rw [go_SetConfigThreadSafe]
  exact locked _ g () _ rfl

/-- `SetConfigNotThreadSafe(p)` is `OpenerObj.setNTS`: thresholds published, ONE reading of `p.Now`, both counters built
    from it (`RC.new NumBuckets (RollingDuration / NumBuckets)`, start = that reading, slices `k` and `k+1`) -/
theorem go_SetConfigNotThreadSafe_eq (p : OCfg) (g : GS OW String) :
    go_SetConfigNotThreadSafe p g =
      ((g.st.recv.setNTS p g.st.env).1, { g with st := { g.st with recv := (g.st.recv.setNTS p g.st.env).2.1, env := (g.st.recv.setNTS p g.st.env).2.2 } }) := by
  rw [go_SetConfigNotThreadSafe]
  unfold Opener.fn
  refine sem_goFunc_st _ _ g _ _ ?_
  rw [sem_bind_step, go_SetConfigThreadSafe_eq, sem_step_ok]
  unfold OpenerObj.setNTS
  cases hn : p.f_Now with
  | none =>
    refine (sem_bind_nilCall _ _ _ _ (by simp only [OCfg.m_Now, hn]; rfl)).trans ?_
    rfl
  | some c =>
    have hnow : p.m_Now { g with st := { g.st with recv := { g.st.recv with config := p, pct := p.f_ErrorThresholdPercentage, vol := p.f_RequestVolumeThreshold } } }
        = (.ok (g.st.env.clock c g.st.env.reads),
           { g with st := { g.st with recv := { g.st.recv with config := p, pct := p.f_ErrorThresholdPercentage, vol := p.f_RequestVolumeThreshold },
                                      env := { g.st.env with reads := g.st.env.reads + 1 } } }) := by
      simp only [OCfg.m_Now, hn]; rfl
    refine (sem_bind_ok _ _ _ _ _ hnow).trans ?_
    by_cases h0 : p.f_NumBuckets = 0
    · simp only [h0, if_true]
      rfl
    · simp only [h0, if_false]
      by_cases hneg : p.f_NumBuckets < 0
      · simp only [hneg, if_true, sem_bind_step, OCfg.m_RollingDuration_Nanoseconds, pkg_int64, sem_pure, sem_step_ok, goDiv, h0, if_false,
          time_Duration, faststats_NewRollingCounter]
        rfl
      · simp only [hneg, if_false, sem_bind_step, OCfg.m_RollingDuration_Nanoseconds, pkg_int64, sem_pure, sem_step_ok, goDiv, h0,
          time_Duration, faststats_NewRollingCounter, recv_errorsCount_set, recv_legitimateAttemptsCount_set, onRecv, sem_upd]

/-- the statement of the tie, spelled out for a usable configuration (a clock, a positive bucket count): ONE more clock
    reading, TWO more slices, both counters empty with the configured geometry and the SAME start time, each its own
    slice, both thresholds published; in the words of C02's model the opener is `HOpener.new` -/
theorem setNTS_ok (s : OpenerObj) (p : OCfg) (e : Env) (c : Nat) (hc : p.f_Now = some c) (hn : 0 < p.f_NumBuckets) :
    let r := s.setNTS p e
    r.1 = .ok () ∧ r.2.2.reads = e.reads + 1 ∧ r.2.2.slices = e.slices + 2 ∧ r.2.2.clock = e.clock ∧
    r.2.1.errors.start = e.clock c e.reads ∧ r.2.1.attempts.start = e.clock c e.reads ∧
    r.2.1.errors.slice = some e.slices ∧ r.2.1.attempts.slice = some (e.slices + 1) ∧ r.2.1.errors.slice ≠ r.2.1.attempts.slice ∧
    r.2.1.config = p ∧
    r.2.1.model = HOpener.new p.f_NumBuckets.toNat p.f_RollingDuration p.f_ErrorThresholdPercentage p.f_RequestVolumeThreshold := by
  have h0 : ¬ p.f_NumBuckets = 0 := by omega
  have h1 : ¬ p.f_NumBuckets < 0 := by omega
  simp only [OpenerObj.setNTS, hc, h0, h1, if_false, OpenerObj.model, HOpener.new, true_and, Option.some.injEq, ne_eq]
  refine ⟨by omega, ?_⟩
  rw [Int.toNat_of_nonneg (by omega)]

/-! ### non-vacuity: clock 5 shows 5000 + (number of readings so far); 4 buckets over 103 ns -/
def exEnv : Env := { clock := fun c k => 1000 * c + k }
example :
    let r := Go.run (go_SetConfigNotThreadSafe { f_Now := some 5, f_NumBuckets := 4, f_RollingDuration := 103, f_ErrorThresholdPercentage := 33, f_RequestVolumeThreshold := 2 }) { env := exEnv }
    r.1 = .ok () ∧ r.2.recv.errors = { rc := RC.new 4 25, start := 5000, slice := some 0 } ∧
    r.2.recv.attempts = { rc := RC.new 4 25, start := 5000, slice := some 1 } ∧ r.2.recv.pct = 33 ∧ r.2.recv.vol = 2 ∧ r.2.env.reads = 1 ∧ r.2.env.slices = 2 := by
  decide
example : (Go.run (go_SetConfigNotThreadSafe { f_Now := some 5, f_NumBuckets := 0 }) { env := exEnv }).1 = .nilCall := by decide
example : (Go.run (go_SetConfigNotThreadSafe { f_NumBuckets := 4 }) { env := exEnv }).1 = .nilCall := by decide

end CM.GoTie.GoHFacOpenerSet

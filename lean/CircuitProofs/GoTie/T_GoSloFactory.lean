/- GoTie/T_GoSloFactory.lean — the SLO `Factory` (metrics/responsetimeslo/responsetime.go), as translated TODAY:
   `getConfig(name)` merges the `ConfigConstructor`s' answers from LAST to first, then the factory's own `Config`, then the
   package default (250 ms) — with a gap-filling `Merge` that is a precedence order: the most recently appended constructor
   wins, the factory's `Config` only counts when no constructor sets the value.  `CommandProperties(name)` returns a circuit
   config whose ONLY content is one new tracker (zero counters, one collector per collector constructor, in order)
   configured with `getConfig(name)` by the translated `Tracker.SetConfigThreadSafe` of unit GoSloCfg. -/
import CircuitModel.GoCtorPrims
import CircuitProofs.GoTie.Sem
import CircuitProofs.GoTie.T_GoLiveLogic
import Generated.GoSloFactory
namespace CM.GoTie.GoSloFactory
open CM CM.Go CM.GoSloFactory CM.Generated.GoSloFactory

theorem goCountdown_succ (k : Nat) : goCountdown ((k + 1 : Nat) : Int) = (k : Int) :: goCountdown (k : Int) := by
  simp [goCountdown, List.range_succ]
theorem goCountdown_zero : goCountdown ((0 : Nat) : Int) = [] := by
  simp [goCountdown]

/-- the countdown loop over the first `k` constructors: the answers of constructors k-1 … 0 are merged into the accumulator in
    that order, each constructor called once -/
theorem loop_ctors (name : String) (f : Int → Config → FAM (ForInStep Config))
    (hf : f = fun i s => do
      let x ← recv_ConfigConstructor_call i name
      let y ← Config.m_Merge s x
      pure (ForInStep.yield y))
    (ctors : List CfgCtor) (k : Nat) (hk : k ≤ ctors.length) (a : Config) (g : GS FacW NoTok) (hg : g.st.cfgCtors = ctors) :
    forIn (goCountdown (k : Int)) a f g =
      (.ok (((ctors.take k).reverse.map fun c => c.make name).foldl Config.merge a),
       { g with st := { g.st with cfgCalls := g.st.cfgCalls ++ (ctors.take k).reverse.map fun c => (c.id, name) } }) := by
  subst hf
  induction k generalizing a g with
  | zero => rw [goCountdown_zero]; simp
  | succ k ih =>
    have hk' : k < ctors.length := hk
    rw [goCountdown_succ, List.forIn_cons]
    have ht : ctors.take (k + 1) = ctors.take k ++ [ctors[k]] := by
      rw [List.take_add_one, List.getElem?_eq_getElem hk']; rfl
    have hc : g.st.cfgCtors[(k : Int).toNat]? = some ctors[k] := by
      rw [hg]; simp
    have h1 : (do
        let x ← recv_ConfigConstructor_call (k : Int) name
        let y ← Config.m_Merge a x
        pure (ForInStep.yield y) : FAM (ForInStep Config)) g
          = (.ok (.yield (a.merge (ctors[k].make name))),
             { g with st := { g.st with cfgCalls := g.st.cfgCalls ++ [(ctors[k].id, name)] } }) := by
      have : recv_ConfigConstructor_call (k : Int) name g
          = (.ok (ctors[k].make name), { g with st := { g.st with cfgCalls := g.st.cfgCalls ++ [(ctors[k].id, name)] } }) := by
        simp only [recv_ConfigConstructor_call, hc]
      refine (sem_bind_ok _ _ _ _ _ this).trans ?_
      rfl
    refine (sem_bind_ok _ _ _ _ _ h1).trans ?_
    refine Eq.trans (ih (Nat.le_of_lt hk') _ _ hg) ?_
    rw [ht, List.reverse_append]
    simp only [List.reverse_cons, List.reverse_nil, List.nil_append, List.cons_append, List.map_cons, List.foldl_cons,
      List.append_assoc]

/-- `r.getConfig(name)`: the gap-filling merge of the layers in the order last constructor, …, first constructor, `r.Config`,
    package default; every config constructor is called exactly once, from last to first; nothing else changes. -/
theorem go_getConfig_eq (name : String) (g : GS FacW NoTok) :
    go_getConfig name g = (.ok (specConfig g.st name), { g with st := g.st.afterGet name }) := by
  rw [go_getConfig, fn]
  refine sem_goFunc_st _ _ _ _ _ ?_
  refine (sem_bind_ok _ _ _ _ _ (sem_rd _ _)).trans ?_
  have hl := loop_ctors name _ rfl g.st.cfgCtors g.st.cfgCtors.length (Nat.le_refl _) {} g rfl
  rw [List.take_length] at hl
  refine (sem_bind_ok _ _ _ _ _ hl).trans ?_
  refine (sem_bind_ok _ _ _ _ _ (sem_rd _ _)).trans ?_
  simp only [specConfig, layers, List.foldl_append, List.foldl_cons, List.foldl_nil]
  rfl

/-- what the gap-filling fold computes: the FIRST layer (in the order of `layers`) that sets the healthy time -/
theorem foldl_merge_first (l : List Config) (a : Config) :
    (l.foldl Config.merge a).f_MaximumHealthyTime = (((a :: l).map (·.f_MaximumHealthyTime)).find? (· ≠ 0)).getD 0 := by
  induction l generalizing a with
  | nil =>
    by_cases h : a.f_MaximumHealthyTime = 0 <;> simp [h]
  | cons b l ih =>
    rw [List.foldl_cons, ih]
    by_cases h : a.f_MaximumHealthyTime = 0
    · simp [Config.merge, h]
    · simp [Config.merge, h]

/-- PRECEDENCE, spelled out: the healthy time `getConfig` returns is the first non-zero one among: last constructor's answer,
    …, first constructor's answer, `Factory.Config`, 250 ms.  (So a `Factory.Config` value is overridden by ANY constructor
    that sets one, and the result is never zero.) -/
theorem specConfig_first (w : FacW) (name : String) :
    (specConfig w name).f_MaximumHealthyTime = (((layers w name).map (·.f_MaximumHealthyTime)).find? (· ≠ 0)).getD 0 := by
  rw [specConfig, foldl_merge_first]
  simp

theorem loop_colls (name : String) (l : List CollCtor) (acc : List Collector) (g : GS FacW NoTok) :
    (forIn l acc (fun constructor r => do
        let x ← (Call1.call constructor name : FAM Collector)
        pure (ForInStep.yield (r ++ [x])) : CollCtor → List Collector → FAM (ForInStep (List Collector)))) g
      = (.ok (acc ++ l.map fun c => { id := c.id, name := name }),
         { g with st := { g.st with collCalls := g.st.collCalls ++ l.map fun c => (c.id, name) } }) := by
  induction l generalizing acc g with
  | nil => simp
  | cons c l ih =>
    rw [List.forIn_cons]
    have h1 : (do
        let x ← (Call1.call c name : FAM Collector)
        pure (ForInStep.yield (acc ++ [x])) : FAM (ForInStep (List Collector))) g
          = (Out.ok (ForInStep.yield (acc ++ [({ id := c.id, name := name } : Collector)])),
             ({ g with st := { g.st with collCalls := g.st.collCalls ++ [(c.id, name)] } } : GS FacW NoTok)) := rfl
    refine (sem_bind_ok _ _ _ _ _ h1).trans ?_
    refine Eq.trans (ih _ _) ?_
    simp [List.append_assoc]

/-- the factory after `CommandProperties(name)`: every collector constructor called once, in order, then what `getConfig` does -/
def afterProps (w : FacW) (name : String) : FacW :=
  FacW.afterGet { w with collCalls := w.collCalls ++ w.collCtors.map fun c => (c.id, name) } name

/-- `r.CommandProperties(name)`: a config whose run-metrics list holds exactly ONE tracker — a new one (zero counters), with
    one collector per collector constructor in order, its healthy time and stored config set from `getConfig(name)`. -/
theorem go_CommandProperties_eq (name : String) (g : GS FacW NoTok) :
    go_CommandProperties name g
      = (.ok { Metrics := { Run := [newTracker g.st name] } }, { g with st := afterProps g.st name }) := by
  rw [go_CommandProperties, fn]
  refine sem_goFunc_st _ _ _ _ _ ?_
  refine (sem_bind_ok _ _ _ _ _ (sem_rd _ _)).trans ?_
  refine (sem_bind_ok _ _ _ _ _ (loop_colls name _ _ _)).trans ?_
  refine (sem_bind_ok _ _ _ _ _ (go_getConfig_eq name _)).trans ?_
  have hs : ∀ (t : Tracker) (c : Config) (g' : GS FacW NoTok),
      Tracker.m_SetConfigThreadSafe t c g'
        = (.ok { t with w := { slo := { t.w.slo with maxHealthy := c.f_MaximumHealthyTime }, config := some (toSlo c) } }, g') := by
    intro t c g'
    have := GoLiveLogic.Slo.go_SetConfigThreadSafe_eq (toSlo c) { st := t.w, defers := [] }
    have h1 : (runOn (CM.Generated.GoSloCfg.go_SetConfigThreadSafe (toSlo c)) t.w : FAM (Unit × GoSloCfg.W)) g'
        = (.ok ((), { slo := { t.w.slo with maxHealthy := c.f_MaximumHealthyTime }, config := some (toSlo c) }), g') := by
      simp only [runOn, this]
      rfl
    unfold Tracker.m_SetConfigThreadSafe
    refine (sem_bind_ok _ _ _ _ _ h1).trans ?_
    rfl
  refine (sem_bind_ok _ _ _ _ _ (hs _ _ _)).trans ?_
  rfl

/-- non-vacuity: constructors #1 (11 ns) and #2 (unset) and #3 (length of the name), factory config 7 ns -/
example :
    let w : FacW := { config := ⟨7⟩, cfgCtors := [⟨1, fun _ => ⟨11⟩⟩, ⟨2, fun _ => ⟨0⟩⟩, ⟨3, fun n => ⟨n.length⟩⟩], collCtors := [⟨5⟩, ⟨6⟩] }
    (run (go_getConfig "abcd") w).1 = .ok ⟨4⟩ ∧ (run (go_getConfig "") w).1 = .ok ⟨11⟩ ∧
    (run (go_getConfig "abcd") w).2.cfgCalls = [(3, "abcd"), (2, "abcd"), (1, "abcd")] ∧
    (run (go_getConfig "x") { config := ⟨7⟩ }).1 = .ok ⟨7⟩ ∧ (run (go_getConfig "x") {}).1 = .ok ⟨250000000⟩ := by decide
example :
    let w : FacW := { config := ⟨7⟩, cfgCtors := [⟨1, fun _ => ⟨11⟩⟩], collCtors := [⟨5⟩, ⟨6⟩] }
    (newTracker w "c").Collectors = [⟨5, "c"⟩, ⟨6, "c"⟩] ∧ (newTracker w "c").w.slo = { maxHealthy := 11, pass := 0, fail := 0 } := by decide

end CM.GoTie.GoSloFactory

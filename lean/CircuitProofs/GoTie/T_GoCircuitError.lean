/- GoTie/T_GoCircuitError.lean — `*circuitError`'s three methods as translated TODAY return the struct's fields
   (`CircuitOpen()` the flag `circuitOpen`, `ConcurrencyLimitReached()` the flag `concurrencyLimitReached`, `Error()` the
   message followed by both flags), and the two package-level sentinels — whose struct LITERALS are translated from
   errors.go as well (Generated/GoCircuitError/F_var_*.lean) — therefore report exactly one flag each:
   `errCircuitOpen.CircuitOpen() == true` (C01), `errThrottledConcurrentCommands.ConcurrencyLimitReached() == true` (C04). -/
import CircuitModel.GoErrsPrims
import CircuitProofs.GoTie.Sem
import Generated.GoCircuitError
namespace CM.GoTie.GoCircuitError
open CM CM.Go CM.GoTie CM.GoErrs CM.GoErrs.CE CM.Generated.GoCircuitError

/-- TIE. `CircuitOpen()` returns the field, changes nothing -/
theorem go_CircuitOpen_eq : go_CircuitOpen = rd (·.circuitOpen) := by
  funext g
  rw [go_CircuitOpen, CE.fn]
  exact sem_goFunc_pure _ _ g _ rfl

/-- TIE. `ConcurrencyLimitReached()` returns the field, changes nothing -/
theorem go_ConcurrencyLimitReached_eq : go_ConcurrencyLimitReached = rd (·.concurrencyLimitReached) := by
  funext g
  rw [go_ConcurrencyLimitReached, CE.fn]
  exact sem_goFunc_pure _ _ g _ rfl

theorem errs_fmt (m : String) (c o : Bool) :
    fmtGo "%s: concurrencyReached=%t circuitOpen=%t".toList [.s m, .t c, .t o]
      = some (m.toList ++ ": concurrencyReached=".toList ++ (boolStr c).toList ++ " circuitOpen=".toList ++ (boolStr o).toList) := by
  simp [fmtGo]

/-- TIE. `Error()` is `"<msg>: concurrencyReached=<flag> circuitOpen=<flag>"`, both flags printed as true/false -/
theorem go_Error_eq : go_Error = rd (fun c => circuitErrorString c.msg c.concurrencyLimitReached c.circuitOpen) := by
  funext g
  rw [go_Error, CE.fn]
  refine sem_goFunc_pure _ _ g _ ?_
  simp only [sem_bind_step, recv_msg, sem_rd, sem_step_ok, go_ConcurrencyLimitReached_eq, go_CircuitOpen_eq, fmt_Sprintf, errs_fmt,
    sem_pure, circuitErrorString, String.ofList_append, String.ofList_toList]

/-- the `Error()` clause of the error-value model for a `*circuitError` is the translated method -/
theorem errorStr_circuit (c : circuitError) : (run go_Error c).1 = outStr c.toEV.errorStr := by
  simp only [run, go_Error_eq, sem_rd, circuitError.toEV, EV.errorStr, outStr]

/-! ### the two sentinels (their literals as translated) -/
/-- C01: the error returned for an open circuit reports `CircuitOpen() == true` -/
theorem errCircuitOpen_CircuitOpen : run go_CircuitOpen var_errCircuitOpen = (.ok true, var_errCircuitOpen) := by
  rw [go_CircuitOpen_eq]; rfl
/-- … and `ConcurrencyLimitReached() == false` -/
theorem errCircuitOpen_ConcurrencyLimitReached : run go_ConcurrencyLimitReached var_errCircuitOpen = (.ok false, var_errCircuitOpen) := by
  rw [go_ConcurrencyLimitReached_eq]; rfl
/-- C04: the error returned for a refused call reports `ConcurrencyLimitReached() == true` -/
theorem errThrottled_ConcurrencyLimitReached :
    run go_ConcurrencyLimitReached var_errThrottledConcurrentCommands = (.ok true, var_errThrottledConcurrentCommands) := by
  rw [go_ConcurrencyLimitReached_eq]; rfl
/-- … and `CircuitOpen() == false` -/
theorem errThrottled_CircuitOpen : run go_CircuitOpen var_errThrottledConcurrentCommands = (.ok false, var_errThrottledConcurrentCommands) := by
  rw [go_CircuitOpen_eq]; rfl
/-- the two sentinels are different values (a caller can tell the rejections apart) and neither is a bad request (C06) -/
theorem sentinels_distinct : var_errCircuitOpen ≠ var_errThrottledConcurrentCommands := by decide
theorem sentinels_not_bad :
    isBadRequest var_errCircuitOpen.toEV = false ∧ isBadRequest var_errThrottledConcurrentCommands.toEV = false := ⟨rfl, rfl⟩

/-! ### non-vacuity (the strings are what the real library prints) -/
example : (run go_Error var_errCircuitOpen).1 = .ok "circuit is open: concurrencyReached=false circuitOpen=true" := by
  rw [go_Error_eq]; decide
example : (run go_Error var_errThrottledConcurrentCommands).1 = .ok "throttling connections to command: concurrencyReached=true circuitOpen=false" := by
  rw [go_Error_eq]; decide
example : run go_CircuitOpen { circuitOpen := false, msg := "x" } = (.ok false, { circuitOpen := false, msg := "x" }) := rfl

end CM.GoTie.GoCircuitError

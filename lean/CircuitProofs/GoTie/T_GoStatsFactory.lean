/- GoTie/T_GoStatsFactory.lean — `(*rolling.StatFactory)`: `CreateConfig`, `RunStats`, `FallbackStats`, as translated TODAY
   from metrics/rolling/rolling.go (Generated/GoStatsFactory/F_*.lean), compute `SFV.createConfig` and the map lookups of
   GoStatsPrims.lean: the collectors put into the returned config ARE the ones bound to the name, so what the factory
   hands out for a name is what the circuit made from that config reports to (C17). -/
import CircuitProofs.GoTie.T_GoStatsCommon
import Generated.GoStatsFactory
set_option linter.unusedSimpArgs false
namespace CM.GoTie.GoStatsFactory
open CM CM.Go CM.GoStats CM.GoStats.SF CM.Generated.GoStatsFactory CM.GoTie.GoStats

theorem runTok_unlock : runTok "recv_mu_Unlock" = updR fun r => { r with mu := r.mu - 1 } := rfl

theorem isNil_mapH (b : Bool) : isNil (MapH.mk b) = b := rfl

theorem sem_rsSet_ok (r r' : RSV) (cfg : RSCfg) (g : GS (GoStats.St SFV) String) (u : Unit) (w' : World)
    (h : r.setConfig cfg g.st.world = (.ok u, r', w')) :
    r.m_SetConfigNotThreadSafe cfg g = (.ok r', { g with st := { g.st with world := w' } }) := by
  simp only [RSV.m_SetConfigNotThreadSafe, h]
theorem sem_rsSet_panic (r r' : RSV) (cfg : RSCfg) (g : GS (GoStats.St SFV) String) (v : Nat) (w' : World)
    (h : r.setConfig cfg g.st.world = (.panic v, r', w')) :
    r.m_SetConfigNotThreadSafe cfg g = (.panic v, { g with st := { g.st with world := w' } }) := by
  simp only [RSV.m_SetConfigNotThreadSafe, h]
theorem sem_rsSet_nil (r r' : RSV) (cfg : RSCfg) (g : GS (GoStats.St SFV) String) (w' : World)
    (h : r.setConfig cfg g.st.world = (.nilCall, r', w')) :
    r.m_SetConfigNotThreadSafe cfg g = (.nilCall, { g with st := { g.st with world := w' } }) := by
  simp only [RSV.m_SetConfigNotThreadSafe, h]
theorem sem_fsSet_ok (r r' : FSV) (cfg : FSCfg) (g : GS (GoStats.St SFV) String) (u : Unit) (w' : World)
    (h : r.setConfig cfg g.st.world = (.ok u, r', w')) :
    r.m_SetConfigNotThreadSafe cfg g = (.ok r', { g with st := { g.st with world := w' } }) := by
  simp only [FSV.m_SetConfigNotThreadSafe, h]
theorem sem_fsSet_panic (r r' : FSV) (cfg : FSCfg) (g : GS (GoStats.St SFV) String) (v : Nat) (w' : World)
    (h : r.setConfig cfg g.st.world = (.panic v, r', w')) :
    r.m_SetConfigNotThreadSafe cfg g = (.panic v, { g with st := { g.st with world := w' } }) := by
  simp only [FSV.m_SetConfigNotThreadSafe, h]
theorem sem_fsSet_nil (r r' : FSV) (cfg : FSCfg) (g : GS (GoStats.St SFV) String) (w' : World)
    (h : r.setConfig cfg g.st.world = (.nilCall, r', w')) :
    r.m_SetConfigNotThreadSafe cfg g = (.nilCall, { g with st := { g.st with world := w' } }) := by
  simp only [FSV.m_SetConfigNotThreadSafe, h]

/-- `RunStats(name)`: the newest binding of `name` in the run map (nil without one, and for a nil map); mutex taken and given back. -/
theorem go_RunStats_eq (name : String) : go_RunStats name = rdR (fun s => mapGet s.runMap name) := by
  funext g
  rw [sem_rdR]
  unfold go_RunStats fn
  refine goFunc_unlock runTok _ runTok_unlock _ g ?o ?x _ ?hb ?hy
  case hb =>
    simp only [sem_bind_step, recv_mu_Lock, deferPrim, sem_pushDefer, sem_updR, sem_step_ok, recv_runStatsByCircuit_at, sem_rdR]
    rfl
  case hy => simp only [Nat.add_sub_cancel]

/-- `FallbackStats(name)`: the newest binding of `name` in the fallback map. -/
theorem go_FallbackStats_eq (name : String) : go_FallbackStats name = rdR (fun s => mapGet s.fbMap name) := by
  funext g
  rw [sem_rdR]
  unfold go_FallbackStats fn
  refine goFunc_unlock runTok _ runTok_unlock _ g ?o ?x _ ?hb ?hy
  case hb =>
    simp only [sem_bind_step, recv_mu_Lock, deferPrim, sem_pushDefer, sem_updR, sem_step_ok, recv_fallbackStatsByCircuit_at, sem_rdR]
    rfl
  case hy => simp only [Nat.add_sub_cancel]

/-- `CreateConfig(name)` is `SFV.createConfig`: fresh RunStats and FallbackStats configured from the factory's configs over
    the package defaults (eleven allocations of their own), both bound to `name` (maps made on first use), and the SAME two
    pointers are the returned config's only collectors; a panic while configuring happens before the lock is taken and
    leaves the factory as it was. -/
theorem go_CreateConfig_eq (name : String) : go_CreateConfig name = act (fun s w => s.createConfig name w) := by
  funext g
  rw [sem_act]
  unfold go_CreateConfig fn
  rcases h1 : ({} : RSV).setConfig ((({} : RSCfg).merge g.st.recv.f_RunConfig).merge defaultRunStatsConfig) g.st.world with ⟨o1, rs, w1⟩
  cases o1 with
  | panic v =>
    apply sem_goFunc_st
    simp only [sem_bind_step, sem_step_ok, sem_pure, recv_RunConfig, recv_FallbackConfig, sem_rdR, RSCfg.m_Merge, FSCfg.m_Merge,
      lit_RunStats, lit_RunStatsConfig, lit_FallbackStats, lit_FallbackStatsConfig, pkg_defaultRunStatsConfig, pkg_defaultFallbackStatsConfig, sem_rsSet_panic _ _ _ g _ _ h1, sem_step_panic, SFV.createConfig, h1]
  | nilCall =>
    apply sem_goFunc_st
    simp only [sem_bind_step, sem_step_ok, sem_pure, recv_RunConfig, recv_FallbackConfig, sem_rdR, RSCfg.m_Merge, FSCfg.m_Merge,
      lit_RunStats, lit_RunStatsConfig, lit_FallbackStats, lit_FallbackStatsConfig, pkg_defaultRunStatsConfig, pkg_defaultFallbackStatsConfig, sem_rsSet_nil _ _ _ g _ h1, sem_step_nilCall, SFV.createConfig, h1]
  | ok u =>
    rcases h2 : ({} : FSV).setConfig ((({} : FSCfg).merge g.st.recv.f_FallbackConfig).merge defaultFallbackStatsConfig) w1 with ⟨o2, fs, w2⟩
    have e1 := sem_rsSet_ok _ _ _ g _ _ h1
    cases o2 with
    | panic v =>
      apply sem_goFunc_st
      simp only [sem_bind_step, sem_step_ok, sem_pure, recv_RunConfig, recv_FallbackConfig, sem_rdR, RSCfg.m_Merge, FSCfg.m_Merge,
      lit_RunStats, lit_RunStatsConfig, lit_FallbackStats, lit_FallbackStatsConfig, pkg_defaultRunStatsConfig, pkg_defaultFallbackStatsConfig, e1, sem_fsSet_panic _ _ _ ({ st := { recv := g.st.recv, world := w1, stuck := g.st.stuck }, defers := g.defers } : GS (GoStats.St SFV) String) _ _ h2, sem_step_panic, SFV.createConfig, h1, h2]
    | nilCall =>
      apply sem_goFunc_st
      simp only [sem_bind_step, sem_step_ok, sem_pure, recv_RunConfig, recv_FallbackConfig, sem_rdR, RSCfg.m_Merge, FSCfg.m_Merge,
      lit_RunStats, lit_RunStatsConfig, lit_FallbackStats, lit_FallbackStatsConfig, pkg_defaultRunStatsConfig, pkg_defaultFallbackStatsConfig, e1, sem_fsSet_nil _ _ _ ({ st := { recv := g.st.recv, world := w1, stuck := g.st.stuck }, defers := g.defers } : GS (GoStats.St SFV) String) _ h2, sem_step_nilCall, SFV.createConfig, h1, h2]
    | ok u2 =>
      have e2 := sem_fsSet_ok ({} : FSV) fs _ ({ st := { recv := g.st.recv, world := w1, stuck := g.st.stuck }, defers := g.defers } : GS (GoStats.St SFV) String) u2 w2 h2
      cases hr : g.st.recv.runMap with
      | none =>
        cases hf : g.st.recv.fbMap with
        | none =>
          refine goFunc_unlock runTok _ runTok_unlock _ g ?o1 ?x1 _ ?hb ?hy
          case hb =>
            simp only [sem_bind_step, sem_step_ok, sem_pure, recv_RunConfig, recv_FallbackConfig, sem_rdR, RSCfg.m_Merge, FSCfg.m_Merge,
          lit_RunStats, lit_RunStatsConfig, lit_FallbackStats, lit_FallbackStatsConfig, pkg_defaultRunStatsConfig, pkg_defaultFallbackStatsConfig,
          e1, e2, recv_mu_Lock, deferPrim, sem_pushDefer, sem_updR, recv_runStatsByCircuit, recv_fallbackStatsByCircuit, hr, hf,
          isNil_mapH, Option.isNone_none, Option.isNone_some, sem_ite_apply, if_true, if_false, Bool.false_eq_true,
          recv_runStatsByCircuit_set, recv_fallbackStatsByCircuit_set, goMakeMap,
          recv_runStatsByCircuit_store, recv_fallbackStatsByCircuit_store, goAddr, GoAddr.addr]
            rfl
          case hy => simp only [SFV.createConfig, h1, h2, hr, hf, Option.getD, Nat.add_sub_cancel]
        | some lf =>
          refine goFunc_unlock runTok _ runTok_unlock _ g ?o2 ?x2 _ ?hb ?hy
          case hb =>
            simp only [sem_bind_step, sem_step_ok, sem_pure, recv_RunConfig, recv_FallbackConfig, sem_rdR, RSCfg.m_Merge, FSCfg.m_Merge,
          lit_RunStats, lit_RunStatsConfig, lit_FallbackStats, lit_FallbackStatsConfig, pkg_defaultRunStatsConfig, pkg_defaultFallbackStatsConfig,
          e1, e2, recv_mu_Lock, deferPrim, sem_pushDefer, sem_updR, recv_runStatsByCircuit, recv_fallbackStatsByCircuit, hr, hf,
          isNil_mapH, Option.isNone_none, Option.isNone_some, sem_ite_apply, if_true, if_false, Bool.false_eq_true,
          recv_runStatsByCircuit_set, recv_fallbackStatsByCircuit_set, goMakeMap,
          recv_runStatsByCircuit_store, recv_fallbackStatsByCircuit_store, goAddr, GoAddr.addr]
            rfl
          case hy => simp only [SFV.createConfig, h1, h2, hr, hf, Option.getD, Nat.add_sub_cancel]
      | some lr =>
        cases hf : g.st.recv.fbMap with
        | none =>
          refine goFunc_unlock runTok _ runTok_unlock _ g ?o3 ?x3 _ ?hb ?hy
          case hb =>
            simp only [sem_bind_step, sem_step_ok, sem_pure, recv_RunConfig, recv_FallbackConfig, sem_rdR, RSCfg.m_Merge, FSCfg.m_Merge,
          lit_RunStats, lit_RunStatsConfig, lit_FallbackStats, lit_FallbackStatsConfig, pkg_defaultRunStatsConfig, pkg_defaultFallbackStatsConfig,
          e1, e2, recv_mu_Lock, deferPrim, sem_pushDefer, sem_updR, recv_runStatsByCircuit, recv_fallbackStatsByCircuit, hr, hf,
          isNil_mapH, Option.isNone_none, Option.isNone_some, sem_ite_apply, if_true, if_false, Bool.false_eq_true,
          recv_runStatsByCircuit_set, recv_fallbackStatsByCircuit_set, goMakeMap,
          recv_runStatsByCircuit_store, recv_fallbackStatsByCircuit_store, goAddr, GoAddr.addr]
            rfl
          case hy => simp only [SFV.createConfig, h1, h2, hr, hf, Option.getD, Nat.add_sub_cancel]
        | some lf =>
          refine goFunc_unlock runTok _ runTok_unlock _ g ?o4 ?x4 _ ?hb ?hy
          case hb =>
            simp only [sem_bind_step, sem_step_ok, sem_pure, recv_RunConfig, recv_FallbackConfig, sem_rdR, RSCfg.m_Merge, FSCfg.m_Merge,
          lit_RunStats, lit_RunStatsConfig, lit_FallbackStats, lit_FallbackStatsConfig, pkg_defaultRunStatsConfig, pkg_defaultFallbackStatsConfig,
          e1, e2, recv_mu_Lock, deferPrim, sem_pushDefer, sem_updR, recv_runStatsByCircuit, recv_fallbackStatsByCircuit, hr, hf,
          isNil_mapH, Option.isNone_none, Option.isNone_some, sem_ite_apply, if_true, if_false, Bool.false_eq_true,
          recv_runStatsByCircuit_set, recv_fallbackStatsByCircuit_set, goMakeMap,
          recv_runStatsByCircuit_store, recv_fallbackStatsByCircuit_store, goAddr, GoAddr.addr]
            rfl
          case hy => simp only [SFV.createConfig, h1, h2, hr, hf, Option.getD, Nat.add_sub_cancel]

/-! ### what the ties give (C17): the stats handed out for a name are the created circuit's collectors -/

/-- after a `CreateConfig(name)` that returns, `RunStats(name)` / `FallbackStats(name)` hand out exactly the pointers that are
    the returned config's collectors — whatever was bound to the name before. -/
theorem create_then_lookup (s s' : SFV) (name : String) (w w' : World) (c : circuit_Config)
    (h : s.createConfig name w = (.ok c, s', w')) :
    c.Metrics.Run = [.runStats (mapGet s'.runMap name)] ∧ c.Metrics.Fallback = [.fbStats (mapGet s'.fbMap name)] ∧
    (mapGet s'.runMap name).isSome ∧ (mapGet s'.fbMap name).isSome := by
  unfold SFV.createConfig at h
  split at h
  · cases h
  · cases h
  · split at h
    · cases h
    · cases h
    · simp only [Prod.mk.injEq, Out.ok.injEq] at h
      obtain ⟨rfl, rfl, -⟩ := h
      simp [mapGet, List.lookup]

/-- … and every OTHER name keeps its binding. -/
theorem create_keeps_others (s s' : SFV) (name other : String) (w w' : World) (c : circuit_Config)
    (h : s.createConfig name w = (.ok c, s', w')) (hne : other ≠ name) :
    mapGet s'.runMap other = mapGet s.runMap other ∧ mapGet s'.fbMap other = mapGet s.fbMap other := by
  unfold SFV.createConfig at h
  split at h
  · cases h
  · cases h
  · split at h
    · cases h
    · cases h
    · simp only [Prod.mk.injEq, Out.ok.injEq] at h
      obtain ⟨-, rfl, -⟩ := h
      have : (other == name) = false := by simpa using hne
      constructor <;> simp [mapGet, List.lookup, this]

/-- a panic in `CreateConfig` (a negative bucket count in the factory's config) leaves the factory untouched. -/
theorem create_panic_keeps (s s' : SFV) (name : String) (w w' : World) (v : Nat)
    (h : s.createConfig name w = (.panic v, s', w')) : s' = s := by
  unfold SFV.createConfig at h
  split at h
  · cases h; rfl
  · cases h
  · split at h
    · cases h; rfl
    · cases h
    · cases h

/-! ### non-vacuity -/
section examples
def w0 : World := { wallAt := fun n => 1000 + n, injAt := fun n => 5000 + 10 * n }
def okv {α : Type} : Out α → Option α
  | .ok a => some a
  | _ => none
def sf0 : GS (GoStats.St SFV) String :=
  { st := { recv := { f_RunConfig := { f_Now := some .inj, f_RollingStatsNumBuckets := 5 } }, world := w0 } }
/-- the translated `CreateConfig "a"` on a factory with nil maps, then `CreateConfig "a"` AGAIN, then `RunStats "a"`: the
    lookup gives the collector of the SECOND config (ids 11…), not of the first; eleven allocations per call; the RunStats
    read the injected clock, the FallbackStats the wall clock (its default); lock given back -/
example : let r1 := go_CreateConfig "a" sf0
          let r2 := go_CreateConfig "a" r1.2
          let p := okv (go_RunStats "a" r2.2).1
          let q := go_RunStats "b" r2.2
    ((okv r2.1).map (·.Metrics.Run) = some [.runStats (p.getD none)] ∧
     (okv r1.1).map (·.Metrics.Run) ≠ some [.runStats (p.getD none)] ∧ ((okv r1.1).map (·.Metrics.Run)).isSome ∧
     (p.getD none).map (·.successes.id) = some (some 11) ∧ (p.getD none).map (·.latencies.id) = some (some 18) ∧
     (p.getD none).map (·.successes.rc) = some (RC.new 5 2000000000) ∧
     q.1 = .ok none ∧ r2.2.st.world.allocs.length = 22 ∧ r2.2.st.world.injReads = 2 ∧ r2.2.st.world.wallReads = 2 ∧
     r2.2.st.recv.mu = 0 ∧ r2.2.defers = [] ∧ r2.2.st.stuck = false) := by decide
/-- a negative bucket count: `CreateConfig` panics (in `make`) before it takes the lock; the maps stay nil -/
example : let r := go_CreateConfig "a" { sf0 with st := { sf0.st with recv := { f_RunConfig := { f_RollingStatsNumBuckets := -1 } } } }
    (r.1 = .panic panicMakeSlice ∧ r.2.st.recv.runMap = none ∧ r.2.st.recv.mu = 0) := by decide
end examples

end CM.GoTie.GoStatsFactory

/- GoTie/F_Run.lean — `Run` is `Execute` without a fallback
   The generated function is today's translation of circuit.go; callee behaviour enters as HYPOTHESES (the callees'
   own ties are proved in their own modules and put together in GoTie/All.lean), so this module depends on the body of
   `Run` only. -/
import CircuitModel.GoCircuitSpec
import CircuitProofs.GoTie.Basic
import CircuitProofs.GoTie.Big
import Generated.GoCircuit.F_Run
namespace CM.GoTie
open CM CM.Go CM.GoCircuit CM.Generated.GoCircuit
variable {σo σc : Type} [L : Logic σo σc]

theorem go_Run_ok (hX : ExecSpec σo σc go_Execute) (c : Circ σo σc) (ctx : CallerCtx) (run : Option Script) :
    let r := go_Run (σo := σo) (σc := σc) .caller run { st := callState c ctx, defers := [] }
    (r.2.st.s.1, r.2.st.s.2, resOf r.1) = execute L.O L.C c ctx run none ∧ r.2.defers = [] ∧ r.2.st.stuck = false := by
  have h := hX c ctx run none
  simp only [go_Run, fn, GoNil.nil, goFunc]
  simp only at h
  rw [gtb_unwind_nil _ _ _ _ h.2.1]
  exact h

end CM.GoTie

/- GoTie/T_GoHFacCloser.lean — `CloserFactory`, as translated TODAY from closers/hystrix/closer.go: the func value it
   returns, APPLIED, makes one NEW `Closer` cell per call (never a cell that existed before, never the same one twice)
   and configures it with `cfg` merged with the package defaults — sleep window, half-open attempts, required
   successes and timer hook all reach the gate / the word the running closer reads (C01/C03: the closer really has the
   configured sleep window; C09: each circuit its own logic object).  The closure writes the merged config back to its
   captured variable: the closure value it leaves behind carries `cfg.merge defaults`, and building from that again
   gives the same object (the merge is idempotent). -/
import CircuitModel.GoHfacPrims
import CircuitModel.GoLiveLogicPrims
import CircuitProofs.GoTie.Sem
import Generated.GoHFacCloser
namespace CM.GoTie.GoHFacCloser
open CM CM.Go CM.GoHFac CM.GoHFac.Closer CM.Generated.GoHFacCloser

/-- `CloserFactory(cfg)` only packages `cfg` into the closure; nothing is built yet -/
theorem go_CloserFactory_eq (cfg : CCfg) (g : GS CW NoTok) : go_CloserFactory cfg g = (.ok (cloOf cfg), g) := by
  unfold go_CloserFactory Closer.fn
  exact sem_goFunc_pure _ _ g _ rfl

/-- one call of the returned func: a NEW cell (its index is the old size of the store, every existing cell is kept as it
    was) holding `Closer{}` configured with `cfg.merge defaults`; the closure now carries the merged config -/
theorem go_CloserFactory_apply_eq (cfg : CCfg) (g : GS CW NoTok) :
    go_CloserFactory_apply (cloOf cfg) g =
      (.ok (⟨g.st.heap.length⟩, cloOf (cfg.merge defaultCCfg)), { g with st := { g.st with heap := g.st.heap ++ [built cfg] } }) := by
  show go_CloserFactory_lit1 cfg g = _
  unfold go_CloserFactory_lit1 Closer.fn
  exact sem_goFunc_st _ _ g _ _ rfl

/-- a func value that is not `CloserFactory`'s closure cannot be applied here -/
theorem go_CloserFactory_apply_other (c : Clo) (h : ∀ cfg, c ≠ cloOf cfg) (g : GS CW NoTok) : go_CloserFactory_apply c g = (.nilCall, g) := by
  unfold go_CloserFactory_apply
  split
  · next cfg => exact absurd rfl (h cfg)
  · rfl

theorem gapI_idem (a d : Int) : gapI (gapI a d) d = gapI a d := by unfold gapI; split <;> simp_all
theorem gapF_idem (a d : Option Nat) : gapF (gapF a d) d = gapF a d := by cases a <;> cases d <;> rfl
/-- merging the defaults a second time changes nothing -/
theorem merge_idem (c d : CCfg) : (c.merge d).merge d = c.merge d := by
  simp [CCfg.merge, gapI_idem, gapF_idem]
theorem built_merge (cfg : CCfg) : built (cfg.merge defaultCCfg) = built cfg := by
  unfold built; rw [merge_idem]

/-- calling the returned func `n` times, each time through the closure value the previous call left -/
def calls : Nat → Clo → CFM (List Ref)
  | 0, _ => pure []
  | n + 1, c => do
    let (r, c') ← go_CloserFactory_apply c
    let rs ← calls n c'
    pure (r :: rs)

/-- EVERY call yields a fresh object: `n` calls give the `n` consecutive new cells, all holding the object built from
    `cfg` and the defaults; no earlier cell is touched.  (A version handing out one shared cell would return the same
    index twice.) -/
theorem calls_eq (n : Nat) (cfg : CCfg) (g : GS CW NoTok) :
    calls n (cloOf cfg) g =
      (.ok ((List.range n).map fun i => ⟨g.st.heap.length + i⟩), { g with st := { g.st with heap := g.st.heap ++ List.replicate n (built cfg) } }) := by
  induction n generalizing cfg g with
  | zero => simp [calls]
  | succ n ih =>
    unfold calls
    rw [sem_bind_step, go_CloserFactory_apply_eq, sem_step_ok]
    show sem_step (calls n (cloOf (cfg.merge defaultCCfg)) _) _ = _
    rw [ih, sem_step_ok, built_merge]
    simp only [sem_pure, List.length_append, List.length_cons, List.length_nil, List.append_assoc, List.cons_append, List.nil_append]
    refine Prod.ext ?_ ?_
    · simp only [List.range_succ_eq_map, List.map_cons, List.map_map, Nat.add_zero]
      congr 2
      apply List.map_congr_left
      intro i _
      simp only [Function.comp, Ref.mk.injEq]
      omega
    · simp [List.replicate_succ]

/-- two calls never return the same object -/
theorem calls_nodup (n : Nat) (cfg : CCfg) (g : GS CW NoTok) (rs : List Ref) (g' : GS CW NoTok)
    (h : calls n (cloOf cfg) g = (.ok rs, g')) : rs.Nodup ∧ ∀ r ∈ rs, g.st.heap.length ≤ r.idx ∧ g'.st.heap[r.idx]? = some (built cfg) := by
  rw [calls_eq] at h
  injection h with h1 h2
  injection h1 with h1
  subst h1 h2
  refine ⟨?_, ?_⟩
  · refine List.Pairwise.map _ (fun a b hab h => hab ?_) (List.nodup_range (n := n))
    simp only [Ref.mk.injEq] at h
    omega
  · intro r hr
    simp only [List.mem_map, List.mem_range] at hr
    obtain ⟨i, hi, rfl⟩ := hr
    refine ⟨Nat.le_add_right _ _, ?_⟩
    simp [hi]

/-- what each new closer is, in the words of the running closer's model: the gate sleeps for the configured window and
    lets the configured number of probes through, the success word to reach is the configured one; everything else zero -/
theorem built_fields (cfg : CCfg) :
    (built cfg).c.tc.sleep = gapI cfg.f_SleepWindow 5000000000 ∧ (built cfg).c.tc.allow = gapI cfg.f_HalfOpenAttempts 1 ∧
    (built cfg).c.required = gapI cfg.f_RequiredConcurrentSuccessful 1 ∧ (built cfg).afterFunc = cfg.f_AfterFunc ∧
    (built cfg).c.succ = 0 ∧ (built cfg).c.tc.fastFail = false ∧ (built cfg).c.tc.nextOpen = none ∧ (built cfg).config = cfg.merge defaultCCfg := by
  refine ⟨rfl, rfl, rfl, ?_, rfl, rfl, rfl, rfl⟩
  show gapF cfg.f_AfterFunc none = _
  cases cfg.f_AfterFunc <;> rfl

/-- the primitive `s.SetConfigNotThreadSafe(cfg)` used above is the state change unit GoHCloserCfg proves for the
    translated method body (`GoHCloserCfg.W.configured`), seen through the obvious correspondence of the two records -/
def toLive (cfg : CCfg) : GoHCloserCfg.ConfigureCloser :=
  { tag := 0, f_AfterFunc := (cfg.f_AfterFunc.map (· + 1)).getD 0, f_SleepWindow := cfg.f_SleepWindow, f_HalfOpenAttempts := cfg.f_HalfOpenAttempts,
    f_RequiredConcurrentSuccessful := cfg.f_RequiredConcurrentSuccessful }
def toW (s : CloserObj) : GoHCloserCfg.W := { c := s.c, afterFunc := (s.afterFunc.map (· + 1)).getD 0, config := some (toLive s.config) }
theorem configured_is_live (s : CloserObj) (cfg : CCfg) : toW (s.configured cfg) = (toW s).configured (toLive cfg) := rfl

/-! ### non-vacuity -/
example : (Go.run (do let c ← go_CloserFactory { f_SleepWindow := 9 }
                      let (r1, c1) ← go_CloserFactory_apply c
                      let (r2, _) ← go_CloserFactory_apply c1
                      pure (r1, r2)) {}) =
    (.ok (⟨0⟩, ⟨1⟩), { heap := [built { f_SleepWindow := 9 }, built { f_SleepWindow := 9 }] }) := by decide
example : (built { f_SleepWindow := 9 }).c.tc.sleep = 9 ∧ (built {}).c.tc.sleep = 5000000000 := by decide

end CM.GoTie.GoHFacCloser

/- GoTie/Sem.lean — facts about the Go-semantics monad (GoSem.lean) used by the consumer ties. -/
import CircuitModel.GoConsumerPrims
namespace CM.GoTie
open CM CM.Go

/-- nothing to unwind when no deferred call was registered above the entry height -/
theorem sem_unwind_le {σ tok : Type} (runTok : tok → M σ tok Unit) (h n : Nat) (g : GS σ tok) (hle : g.defers.length ≤ h) :
    unwind runTok h n g = g := by
  cases n with
  | zero => rfl
  | succ n => simp [unwind, hle]

/-- a function body that leaves the defer stack as it found it -/
theorem sem_goFunc_noDefer {σ tok α : Type} (runTok : tok → M σ tok Unit) (body : M σ tok α) (g : GS σ tok)
    (h : (body g).2.defers = g.defers) : goFunc runTok body g = body g := by
  simp only [goFunc]
  rw [sem_unwind_le]
  simp [h]

@[simp] theorem sem_pure {σ tok α : Type} (a : α) (g : GS σ tok) : (pure a : M σ tok α) g = (.ok a, g) := rfl
@[simp] theorem sem_bind_ok {σ tok α β : Type} (m : M σ tok α) (f : α → M σ tok β) (g g' : GS σ tok) (a : α) (h : m g = (.ok a, g')) :
    (m >>= f) g = f a g' := by
  show (match m g with | (.ok a, s') => f a s' | (.panic v, s') => (.panic v, s') | (.nilCall, s') => (.nilCall, s')) = _
  rw [h]
@[simp] theorem sem_upd {σ tok : Type} (f : σ → σ) (g : GS σ tok) : (upd f : M σ tok Unit) g = (.ok (), { g with st := f g.st }) := rfl
@[simp] theorem sem_rd {σ tok α : Type} (f : σ → α) (g : GS σ tok) : (rd f : M σ tok α) g = (.ok (f g.st), g) := rfl
@[simp] theorem sem_updRet {σ tok α : Type} (f : σ → σ × α) (g : GS σ tok) :
    (updRet f : M σ tok α) g = (.ok (f g.st).2, { g with st := (f g.st).1 }) := rfl

/-- a `for … range` loop whose body always runs to its end (no `break`, no panic): the state transformer of the body
    is folded over the list, in order -/
theorem sem_forIn_yield {σ tok α : Type} (f : α → PUnit → M σ tok (ForInStep PUnit)) (F : α → GS σ tok → GS σ tok)
    (h : ∀ c u s, f c u s = (.ok (.yield PUnit.unit), F c s)) (l : List α) (g : GS σ tok) :
    forIn l PUnit.unit f g = (.ok PUnit.unit, l.foldl (fun s c => F c s) g) := by
  induction l generalizing g with
  | nil => rfl
  | cons c l ih =>
    rw [List.forIn_cons]
    simp only [bind, h, List.foldl_cons]
    exact ih _

/-- the same, with the loop body in the shape `simp [bind]` leaves it in -/
theorem sem_forIn_step {σ tok α : Type} (F : α → GS σ tok → GS σ tok) (l : List α) (g : GS σ tok) :
    (forIn l PUnit.unit (fun c _ s => ((Out.ok (ForInStep.yield PUnit.unit), F c s) : Out (ForInStep PUnit) × GS σ tok)) : M σ tok PUnit) g
      = (.ok PUnit.unit, l.foldl (fun s c => F c s) g) :=
  sem_forIn_yield _ F (fun _ _ _ => rfl) l g

/-- telling every collector of a list one verdict appends one entry per collector, in order, and changes nothing else -/
theorem sem_slo_told_foldl (b : Bool) (l : List GoSlo.Collector) (g : GS GoSlo.SloW NoTok) :
    l.foldl (fun (s : GS GoSlo.SloW NoTok) c =>
        { st := { slo := s.st.slo, collectors := s.st.collectors, told := s.st.told ++ [(c.id, b)] }, defers := s.defers }) g
      = { g with st := { g.st with told := g.st.told ++ l.map (fun c => (c.id, b)) } } := by
  induction l generalizing g with
  | nil => simp
  | cons c l ih => simp [ih]

end CM.GoTie

/- GoTie/Sem.lean — facts about the Go-semantics monad (GoSem.lean) used by the consumer ties. -/
import CircuitModel.GoConsumerPrims
namespace CM.GoTie
open CM CM.Go

/-- nothing to unwind when no deferred call was registered above the entry height -/
theorem sem_unwind_le {σ tok : Type} (runTok : tok → M σ tok Unit) (h n : Nat) (g : GS σ tok) (hle : g.defers.length ≤ h) :
    unwind runTok h n g = g := by
  cases n with
  | zero => rfl
  | succ n => simp [unwind, hle]

/-- a function body that leaves the defer stack as it found it -/
theorem sem_goFunc_noDefer {σ tok α : Type} (runTok : tok → M σ tok Unit) (body : M σ tok α) (g : GS σ tok)
    (h : (body g).2.defers = g.defers) : goFunc runTok body g = body g := by
  simp only [goFunc]
  rw [sem_unwind_le]
  simp [h]

@[simp] theorem sem_pure {σ tok α : Type} (a : α) (g : GS σ tok) : (pure a : M σ tok α) g = (.ok a, g) := rfl
@[simp] theorem sem_bind_ok {σ tok α β : Type} (m : M σ tok α) (f : α → M σ tok β) (g g' : GS σ tok) (a : α) (h : m g = (.ok a, g')) :
    (m >>= f) g = f a g' := by
  show (match m g with | (.ok a, s') => f a s' | (.panic v, s') => (.panic v, s') | (.nilCall, s') => (.nilCall, s')) = _
  rw [h]
@[simp] theorem sem_upd {σ tok : Type} (f : σ → σ) (g : GS σ tok) : (upd f : M σ tok Unit) g = (.ok (), { g with st := f g.st }) := rfl
@[simp] theorem sem_rd {σ tok α : Type} (f : σ → α) (g : GS σ tok) : (rd f : M σ tok α) g = (.ok (f g.st), g) := rfl
@[simp] theorem sem_updRet {σ tok α : Type} (f : σ → σ × α) (g : GS σ tok) :
    (updRet f : M σ tok α) g = (.ok (f g.st).2, { g with st := (f g.st).1 }) := rfl

/-- a `for … range` loop whose body always runs to its end (no `break`, no panic): the state transformer of the body
    is folded over the list, in order -/
theorem sem_forIn_yield {σ tok α : Type} (f : α → PUnit → M σ tok (ForInStep PUnit)) (F : α → GS σ tok → GS σ tok)
    (h : ∀ c u s, f c u s = (.ok (.yield PUnit.unit), F c s)) (l : List α) (g : GS σ tok) :
    forIn l PUnit.unit f g = (.ok PUnit.unit, l.foldl (fun s c => F c s) g) := by
  induction l generalizing g with
  | nil => rfl
  | cons c l ih =>
    rw [List.forIn_cons]
    simp only [bind, h, List.foldl_cons]
    exact ih _

/-- the same, with the loop body in the shape `simp [bind]` leaves it in -/
theorem sem_forIn_step {σ tok α : Type} (F : α → GS σ tok → GS σ tok) (l : List α) (g : GS σ tok) :
    (forIn l PUnit.unit (fun c _ s => ((Out.ok (ForInStep.yield PUnit.unit), F c s) : Out (ForInStep PUnit) × GS σ tok)) : M σ tok PUnit) g
      = (.ok PUnit.unit, l.foldl (fun s c => F c s) g) :=
  sem_forIn_yield _ F (fun _ _ _ => rfl) l g

/-! ### evaluation of `>>=` chains by `simp` (used by the rolling-counter ties) -/

/-- what `>>=` does with the outcome of its first operand -/
def sem_step {σ tok α β : Type} (r : Out α × GS σ tok) (f : α → M σ tok β) : Out β × GS σ tok :=
  match r with
  | (.ok a, s') => f a s'
  | (.panic v, s') => (.panic v, s')
  | (.nilCall, s') => (.nilCall, s')

theorem sem_bind_step {σ tok α β : Type} (m : M σ tok α) (f : α → M σ tok β) (g : GS σ tok) :
    (m >>= f) g = sem_step (m g) f := rfl

@[simp] theorem sem_step_ok {σ tok α β : Type} (a : α) (s : GS σ tok) (f : α → M σ tok β) :
    sem_step (.ok a, s) f = f a s := rfl

theorem sem_ite_apply {σ tok α : Type} (c : Prop) [Decidable c] (m₁ m₂ : M σ tok α) (g : GS σ tok) :
    (if c then m₁ else m₂) g = if c then m₁ g else m₂ g := by
  split <;> rfl

/-- a function body that only changes the package state -/
theorem sem_goFunc_st {σ tok α : Type} (runTok : tok → M σ tok Unit) (body : M σ tok α) (g : GS σ tok)
    (r : Out α) (s : σ) (h : body g = (r, { g with st := s })) : goFunc runTok body g = (r, { g with st := s }) := by
  rw [sem_goFunc_noDefer _ _ _ (by rw [h]), h]

/-- a loop that only threads its own accumulator: the package state is read, not written, and the body always yields -/
theorem sem_forIn_acc {σ tok α β : Type} (f : α → β → M σ tok (ForInStep β)) (F : α → β → β) (g : GS σ tok)
    (h : ∀ c b, f c b g = (.ok (.yield (F c b)), g)) (l : List α) (b : β) :
    forIn l b f g = (.ok (l.foldl (fun b c => F c b) b), g) := by
  induction l generalizing b with
  | nil => rfl
  | cons c l ih =>
    rw [List.forIn_cons, sem_bind_step, h, sem_step_ok]
    exact ih _

/-! ### added for the manager tie -/
/-! ### used by the manager tie (T_GoManager.lean) -/
theorem sem_goFunc_def {σ tok α : Type} (runTok : tok → M σ tok Unit) (body : M σ tok α) (g : GS σ tok) :
    goFunc runTok body g = ((body g).1, unwind runTok g.defers.length (body g).2.defers.length (body g).2) := rfl
theorem sem_unwind_one {σ tok : Type} (runTok : tok → M σ tok Unit) (t : tok) (ht : runTok t = pure ()) (x : σ) (d : List tok) :
    unwind runTok d.length (d.length + 1) { st := x, defers := t :: d } = { st := x, defers := d } := by
  have h : ¬ (d.length + 1 ≤ d.length) := by omega
  simp only [unwind, List.length_cons, h, if_false, ht, sem_pure]
  exact sem_unwind_le _ _ _ _ (Nat.le_refl _)
theorem sem_pushDefer {σ tok : Type} (t : tok) (g : GS σ tok) : (pushDefer t : M σ tok Unit) g = (.ok (), { g with defers := t :: g.defers }) := rfl
theorem sem_bind_panic {σ tok α β : Type} (m : M σ tok α) (f : α → M σ tok β) (g g' : GS σ tok) (v : Nat) (h : m g = (.panic v, g')) :
    (m >>= f) g = (.panic v, g') := by
  show (match m g with | (.ok a, s') => f a s' | (.panic v, s') => (.panic v, s') | (.nilCall, s') => (.nilCall, s')) = _
  rw [h]
/-- a loop that only updates its mutable variable (the state is untouched) folds the update over the list -/
theorem sem_forIn_accG {σ tok α β : Type} (f : α → β → M σ tok (ForInStep β)) (F : β → α → β)
    (h : ∀ c a g, f c a g = (.ok (.yield (F a c)), g)) (l : List α) (a : β) (g : GS σ tok) :
    forIn l a f g = (.ok (l.foldl F a), g) := by
  induction l generalizing a with
  | nil => rfl
  | cons c l ih =>
    rw [List.forIn_cons, sem_bind_ok _ _ _ _ _ (h c a g)]
    exact ih _


/-- telling every collector of a list one verdict appends one entry per collector, in order, and changes nothing else -/
theorem sem_slo_told_foldl (b : Bool) (l : List GoSlo.Collector) (g : GS GoSlo.SloW NoTok) :
    l.foldl (fun (s : GS GoSlo.SloW NoTok) c =>
        { st := { slo := s.st.slo, collectors := s.st.collectors, told := s.st.told ++ [(c.id, b)] }, defers := s.defers }) g
      = { g with st := { g.st with told := g.st.told ++ l.map (fun c => (c.id, b)) } } := by
  induction l generalizing g with
  | nil => simp
  | cons c l ih => simp [ih]

/-! ### added for the sorted-durations tie -/
/-- `pure a >>= f` is `f a` (definitionally) -/
theorem sem_pure_bind {σ tok α β : Type} (a : α) (f : α → M σ tok β) : ((pure a : M σ tok α) >>= f) = f a := rfl
/-- a runtime panic in the first statement is the outcome of the block -/
theorem sem_bind_nilCall {σ tok α β : Type} (m : M σ tok α) (f : α → M σ tok β) (g g' : GS σ tok) (h : m g = (.nilCall, g')) :
    (m >>= f) g = (.nilCall, g') := by
  show (match m g with | (.ok a, s') => f a s' | (.panic v, s') => (.panic v, s') | (.nilCall, s') => (.nilCall, s')) = _
  rw [h]
/-- a function body that returns in the state it was entered in (no `defer`, no state change): `goFunc` adds nothing -/
theorem sem_goFunc_pure {σ tok α : Type} (runTok : tok → M σ tok Unit) (body : M σ tok α) (g : GS σ tok) (o : Out α)
    (h : body g = (o, g)) : goFunc runTok body g = (o, g) := by
  rw [sem_goFunc_noDefer _ _ _ (by rw [h]), h]


end CM.GoTie

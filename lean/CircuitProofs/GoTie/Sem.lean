/- GoTie/Sem.lean — facts about the Go-semantics monad (GoSem.lean) used by the consumer ties. -/
import CircuitModel.GoConsumerPrims
namespace CM.GoTie
open CM CM.Go

/-- nothing to unwind when no deferred call was registered above the entry height -/
theorem sem_unwind_le {σ tok : Type} (runTok : tok → M σ tok Unit) (h n : Nat) (g : GS σ tok) (hle : g.defers.length ≤ h) :
    unwind runTok h n g = g := by
  cases n with
  | zero => rfl
  | succ n => simp [unwind, hle]

/-- a function body that leaves the defer stack as it found it -/
theorem sem_goFunc_noDefer {σ tok α : Type} (runTok : tok → M σ tok Unit) (body : M σ tok α) (g : GS σ tok)
    (h : (body g).2.defers = g.defers) : goFunc runTok body g = body g := by
  simp only [goFunc]
  rw [sem_unwind_le]
  simp [h]

@[simp] theorem sem_pure {σ tok α : Type} (a : α) (g : GS σ tok) : (pure a : M σ tok α) g = (.ok a, g) := rfl
@[simp] theorem sem_bind_ok {σ tok α β : Type} (m : M σ tok α) (f : α → M σ tok β) (g g' : GS σ tok) (a : α) (h : m g = (.ok a, g')) :
    (m >>= f) g = f a g' := by
  show (match m g with | (.ok a, s') => f a s' | (.panic v, s') => (.panic v, s') | (.nilCall, s') => (.nilCall, s')) = _
  rw [h]
@[simp] theorem sem_upd {σ tok : Type} (f : σ → σ) (g : GS σ tok) : (upd f : M σ tok Unit) g = (.ok (), { g with st := f g.st }) := rfl
@[simp] theorem sem_rd {σ tok α : Type} (f : σ → α) (g : GS σ tok) : (rd f : M σ tok α) g = (.ok (f g.st), g) := rfl
@[simp] theorem sem_updRet {σ tok α : Type} (f : σ → σ × α) (g : GS σ tok) :
    (updRet f : M σ tok α) g = (.ok (f g.st).2, { g with st := (f g.st).1 }) := rfl

end CM.GoTie

/- GoTie/F_Execute.lean — `Execute` computes the model's `execute`
   The generated function is today's translation of circuit.go; callee behaviour enters as HYPOTHESES (the callees'
   own ties are proved in their own modules and put together in GoTie/All.lean), so this module depends on the body of
   `Execute` only. -/
import CircuitModel.GoCircuitSpec
import CircuitProofs.GoTie.Basic
import CircuitProofs.GoTie.Big
import Generated.GoCircuit.F_Execute
namespace CM.GoTie
open CM CM.Go CM.GoCircuit CM.Generated.GoCircuit
variable {σo σc : Type} [L : Logic σo σc]

theorem go_Execute_ok (hE : go_isEmptyOrNil (σo := σo) (σc := σc) = spec_isEmptyOrNil)
    (hR : RunSpec σo σc go_run) (hF : FallbackSpec σo σc go_fallback) : ExecSpec σo σc go_Execute := by
  intro c ctx run fb
  by_cases hdis : c.cfg.disabled = true
  · simp only [go_Execute, fn, goFunc, hE]
    cases run with
    | none =>
      simp [spec_isEmptyOrNil, bind, pure, goOr, recv_threadSafeConfig_CircuitBreaker_Disabled_Get, readCfg, Go.get,
        callState, hdis, Call1.call, Go.nilCall, execute, resOf, gtb_unwind_le]
    | some sc =>
      cases hact : sc.act <;> cases hce : ctx.err <;>
      simp [spec_isEmptyOrNil, bind, pure, goOr, recv_threadSafeConfig_CircuitBreaker_Disabled_Get, readCfg, Go.get,
        callState, hdis, Call1.call, Go.set, Go.raise, execute, resOf, gtb_unwind_le, hact, seenOf, actValue, cancelBy,
        ctxErrAfter, hce]
  · have hr := hR ⟨callState c ctx, []⟩ run rfl rfl rfl
    simp only [go_Execute, fn, goFunc, hE]
    have hdis' : (callState c ctx).s.1.cfg.disabled = false := by simpa [callState] using hdis
    simp [spec_isEmptyOrNil, bind, pure, goOr, recv_threadSafeConfig_CircuitBreaker_Disabled_Get, readCfg, Go.get, hdis']
    generalize hr1 : go_run GoCtx.caller run { st := callState c ctx, defers := [] } = r1 at hr ⊢
    clear hr1
    rcases r1 with ⟨o, g1⟩
    simp only [callState] at hr
    obtain ⟨h1, h2, h3, h4, h5, h6⟩ := hr
    have hdis2 : c.cfg.disabled = false := by simpa using hdis
    simp only [execute, hdis2]
    generalize runStep (Logic.O σc) (Logic.C σo) (c, {}) ctx run = m at *
    rcases m with ⟨ms, mr⟩
    simp only at h1 h2 h6
    subst h2
    cases o with
    | panic v => simp [resOf, gtb_unwind_le, h1, h3, h4]
    | nilCall => simp [resOf, gtb_unwind_le, h1, h3, h4]
    | ok a =>
      cases a with
      | none => simp [resOf, gtb_unwind_le, h1, h3, h4, isNil, GoNil.nil]
      | some e =>
        by_cases hb : e.isBad = true
        · simp [resOf, gtb_unwind_le, h1, h3, h4, isNil, pkg_IsBadRequest, pure, hb]
        · have hf := hF g1 e fb run (by rw [h6, h5, h1])
          simp only at hf
          simp [isNil, pkg_IsBadRequest, pure, hb, resOf]
          generalize go_fallback GoCtx.caller (some e) fb g1 = r2 at hf ⊢
          rcases r2 with ⟨o2, g2⟩
          simp only [h1, h5] at hf
          obtain ⟨f1, f2, f3, f4⟩ := hf
          simp [gtb_unwind_le, h3, h4, f1, f3, f4]
          exact f2

end CM.GoTie

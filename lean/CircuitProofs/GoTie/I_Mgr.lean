/-
  GoTie/I_Mgr.lean — K6, the INTERFERENCE tie for the manager (C17): the bodies of `Manager.CreateCircuit`, `GetCircuit` and
  `AllCircuits`, translated from today's manager.go over primitives in which an arbitrary move of the other goroutines
  precedes every operation on `Manager.mu` and a lock that is taken makes the goroutine wait
  (CircuitModel/GoMgrConcPrims.lean; Generated/GoMgrI, Generated/GoMgrIAll), take EXACTLY the steps of the small-step
  model's thread (Conc/Mgr.step) run alone against the same oracle: same shared state (the ghost linearisation log
  aside), same oracle left, same lock operations in the same order, matching outcomes — also when the run ends waiting
  for the lock.  The all-schedule theorems of Props/C17Conc (`linearizable`, `one_winner_concurrent`, …) speak about
  `Conc/Mgr.step`; these say today's source IS that step function, thread by thread.
  The body between the two lock operations is not re-proved: the interference translation FACTORS through the sequential
  one (`create_factors`, `get_factors`: Lock step; the K5 translation of the same source on the registry; Unlock step),
  whose tie (T_GoManager: `go_CreateCircuit_eq`, `go_GetCircuit_eq`) says it is the model's `Mgr.create` / `State.get`.
-/
import Generated.GoMgrI
import Generated.GoMgrIAll
import CircuitModel.Conc.MgrSolo
import CircuitProofs.GoTie.I_Mgr_Lemmas
namespace CM.GoTie.IMgr
open CM CM.Go CM.Conc CM.Conc.Mgr CM.GoMgrI CM.Mgr
open CM.Generated.GoMgrI CM.Generated.GoMgrIAll

def runM (m : MM α) (s : Shared) (tid : Nat) (envs : List (Shared → Shared)) : Go.Out α × MS :=
  let r := m { st := { sh := s, tid := tid, envs := envs }, defers := [] }
  (r.1, r.2.st)

/-- the translated code and the model's thread did the same thing; `fin` says where the thread stands for each way the
    translated code can end -/
structure Agrees {α : Type} (r : Go.Out α × MS) (st : SoloSt Shared Local Lab) (fin : Go.Out α → Pc → Prop) : Prop where
  sh : noLog st.sh = noLog r.2.sh
  envs : st.envs = r.2.envs
  trace : st.trace = r.2.trace
  pc : fin r.1 st.loc.pc
  notStuck : r.2.stuck = false
  blocked : r.2.blocked = true ↔ r.1 = .nilCall

local macro "step " h:term : tactic => `(tactic| refine (sem_bind_ok _ _ _ _ _ $h).trans ?_)

/-! ### the lock operations -/

theorem imgr_lockOp_ok (ok : Shared → Bool) (f : Nat → Shared → Shared) (lab : Lab) (sh : Shared) (tid : Nat)
    (envs : List (Shared → Shared)) (tr : List Lab) (b x : Bool) (d : List String) (h : ok (popEnv envs sh).1 = true) :
    lockOp ok f lab ⟨⟨sh, tid, envs, tr, b, x⟩, d⟩ = (.ok (), ⟨⟨f tid (popEnv envs sh).1, tid, (popEnv envs sh).2, tr ++ [lab], b, x⟩, d⟩) := by
  simp only [lockOp, h, if_true]

theorem imgr_lockOp_wait (ok : Shared → Bool) (f : Nat → Shared → Shared) (lab : Lab) (sh : Shared) (tid : Nat)
    (envs : List (Shared → Shared)) (tr : List Lab) (b x : Bool) (d : List String) (h : ¬ ok (popEnv envs sh).1 = true) :
    lockOp ok f lab ⟨⟨sh, tid, envs, tr, b, x⟩, d⟩ = (.nilCall, ⟨⟨(popEnv envs sh).1, tid, (popEnv envs sh).2, tr, true, x⟩, d⟩) := by
  rw [Bool.not_eq_true] at h
  simp only [lockOp, h, Bool.false_eq_true, if_false]

/-- the deferred release, run when the function is left (not waiting) -/
theorem imgr_unwind_unlock (tok : String) (f : Nat → Shared → Shared) (lab : Lab)
    (ht : runTok tok = fun g => if g.st.blocked then (.ok (), g) else lockOp (fun _ => true) f lab g)
    (sh : Shared) (tid : Nat) (envs : List (Shared → Shared)) (tr : List Lab) (x : Bool) (d : List String) :
    unwind runTok d.length (d.length + 1) ⟨⟨sh, tid, envs, tr, false, x⟩, tok :: d⟩ =
      ⟨⟨f tid (popEnv envs sh).1, tid, (popEnv envs sh).2, tr ++ [lab], false, x⟩, d⟩ := by
  have h1 : runTok tok ⟨⟨sh, tid, envs, tr, false, x⟩, d⟩ =
      (.ok (), ⟨⟨f tid (popEnv envs sh).1, tid, (popEnv envs sh).2, tr ++ [lab], false, x⟩, d⟩) := by
    rw [ht]
    exact imgr_lockOp_ok (fun _ => true) f lab sh tid envs tr false x d rfl
  rw [imgr_unwind_one runTok tok _ d (by rw [h1]), h1]

/-! ### `CreateCircuit` -/

/-- what the SEQUENTIAL translation of `CreateCircuit` (K5, unit GoManager) returns and leaves, from registry `s` -/
def seqCreate (name : String) (configs : List Layer) (s : State) : Go.Out (CircP × MErr) × GoManager.MW :=
  Go.run (CM.Generated.GoManager.go_CreateCircuit name (configs.map fun l => (l, none))) ⟨s, false⟩

theorem imgr_seqCreate_eq (name : String) (configs : List Layer) (s : State) :
    seqCreate name configs s =
      match s.get name with
      | some _ => (.ok (none, some "circuit with that name already exists"), ⟨s, false⟩)
      | none =>
        let R := runCtors name s.ctors (configs.foldl merge {}, s, none)
        let c : Circuit := { id := R.2.1.nextId, cfg := merge R.1 libDefaults, stats := R.2.2 }
        (.ok (some c, none), ⟨{ R.2.1 with circuits := R.2.1.circuits ++ [(name, c)], nextId := R.2.1.nextId + 1 }, false⟩) := by
  unfold seqCreate Go.run
  rw [GoManager.go_CreateCircuit_run]
  cases s.get name <;> rfl

/-- the interference translation of `CreateCircuit` FACTORS through the sequential one: the others move and `Lock` is
    taken (or the goroutine waits); the sequential translation runs on the registry as it is then; the others move and
    `Unlock` happens -/
theorem create_factors (name : String) (configs : List Layer) (sh : Shared) (tid : Nat) (envs : List (Shared → Shared))
    (tr : List Lab) (d : List String) :
    go_CreateCircuit name (configs.map fun l => (l, none)) ⟨⟨sh, tid, envs, tr, false, false⟩, d⟩ =
      if ((popEnv envs sh).1.writer.isNone && (popEnv envs sh).1.readers.isEmpty) = true then
        ((seqCreate name configs (popEnv envs sh).1.st).1,
         ⟨⟨{ (popEnv (popEnv envs sh).2
                { (popEnv envs sh).1 with st := (seqCreate name configs (popEnv envs sh).1.st).2.s, writer := some tid }).1 with writer := none },
            tid,
            (popEnv (popEnv envs sh).2
                { (popEnv envs sh).1 with st := (seqCreate name configs (popEnv envs sh).1.st).2.s, writer := some tid }).2,
            tr ++ [.lock] ++ [.unlock], false, false⟩, d⟩)
      else (.nilCall, ⟨⟨(popEnv envs sh).1, tid, (popEnv envs sh).2, tr, true, false⟩, d⟩) := by
  unfold go_CreateCircuit fn
  rw [sem_goFunc_def]
  generalize hb : (recv_mu_Lock >>= _ : MM (CircP × MErr)) = body
  split
  · next hok =>
    have key : body ⟨⟨sh, tid, envs, tr, false, false⟩, d⟩ =
        ((seqCreate name configs (popEnv envs sh).1.st).1,
         ⟨⟨{ (popEnv envs sh).1 with st := (seqCreate name configs (popEnv envs sh).1.st).2.s, writer := some tid },
           tid, (popEnv envs sh).2, tr ++ [.lock], false, false⟩, "recv_mu_Unlock" :: d⟩) := by
      subst hb
      rw [imgr_seqCreate_eq]
      step (imgr_lockOp_ok _ _ _ _ _ _ _ _ _ _ hok)
      step (sem_pushDefer "recv_mu_Unlock" _)
      step (imgr_lift_rd _ _)
      refine (congrFun (imgr_if_set_noop _ _ _) _).trans ?_
      step (imgr_lift_rd _ _)
      cases hget : (popEnv envs sh).1.st.get name with
      | some c0 =>
        refine (congrFun (if_pos ?_) _).trans ?_
        · rfl
        rfl
      | none =>
        refine (congrFun (if_neg ?_) _).trans ?_
        · exact Bool.false_ne_true
        step (imgr_loop1 _ _ _)
        step (imgr_lift_rd _ _)
        step (imgr_loop2 name _ { (popEnv envs sh).1 with writer := some tid } tid (popEnv envs sh).2 (tr ++ [.lock]) false false
          ("recv_mu_Unlock" :: d) _ rfl)
        step (rfl : pkg_NewCircuitFromConfig name _ _ = (Go.Out.ok _, _))
        step (rfl : recv_circuitMap_store name (some _) _ = (Go.Out.ok _, _))
        step (imgr_lift_rd _ _)
        have hk := GoManager.runCtors_keeps name (popEnv envs sh).1.st.ctors (List.foldl merge {} configs, (popEnv envs sh).1.st, none)
        refine Prod.ext ?_ rfl
        refine congrArg (fun x => Go.Out.ok (x, none)) ?_
        exact GoManager.get_append_new (popEnv envs sh).1.st name _ _ hk.2.1 hget _ _ _ _
    rw [key]
    refine Prod.ext rfl ?_
    exact imgr_unwind_unlock "recv_mu_Unlock" _ _ imgr_runTok_Unlock _ _ _ _ _ _
  · next hok =>
    have key : body ⟨⟨sh, tid, envs, tr, false, false⟩, d⟩ =
        (.nilCall, ⟨⟨(popEnv envs sh).1, tid, (popEnv envs sh).2, tr, true, false⟩, d⟩) := by
      subst hb
      exact sem_bind_nilCall _ _ _ _ (imgr_lockOp_wait _ _ _ _ _ _ _ _ _ _ hok)
    rw [key]
    refine Prod.ext rfl ?_
    exact sem_unwind_le _ _ _ _ (Nat.le_refl _)

/-- the sequential tie (T_GoManager.`go_CreateCircuit_eq`), about `seqCreate` -/
theorem imgr_seqCreate_spec (name : String) (configs : List Layer) (s : State) :
    ∃ res, seqCreate name configs s = (.ok res, ⟨(create s name configs).1, false⟩) ∧
      (match (create s name configs).2 with
       | .created c => res = (some c, none)
       | .exists_ => ∃ msg, res = (none, some msg)
       | _ => False) := by
  have h := GoManager.go_CreateCircuit_eq s name configs []
  unfold seqCreate Go.run
  revert h
  generalize CM.Generated.GoManager.go_CreateCircuit name (configs.map fun l => (l, none)) { st := { s := s }, defers := [] } = r
  obtain ⟨o, ⟨st, stuck⟩, dfs⟩ := r
  intro h
  simp only at h
  obtain ⟨h1, -, h2, h3⟩ := h
  subst h1 h2
  revert h3
  cases (create s name configs).2 with
  | created c => intro h3; exact ⟨_, by rw [h3], rfl⟩
  | exists_ => intro h3; obtain ⟨msg, h3⟩ := h3; exact ⟨_, by rw [h3], msg, rfl⟩
  | got _ => intro h3; exact h3.elim
  | all _ => intro h3; exact h3.elim
  | bound _ => intro h3; exact h3.elim

/-- the ghost log aside, the release after the oracle's move is the same on both sides -/
theorem imgr_release_noLog (envs : List (Shared → Shared)) (hr : Rely envs) (x : Shared) (lg : List (Nat × Op × Mgr.Out))
    (rel : Shared → Shared) (hrel : ∀ y, noLog (rel y) = rel (noLog y)) :
    noLog (rel (popEnv envs { x with log := lg }).1) = noLog (rel (popEnv envs x).1) ∧
    (popEnv envs { x with log := lg }).2 = (popEnv envs x).2 := by
  have h := imgr_noLog_popEnv envs hr x lg
  refine ⟨?_, h.1⟩
  rw [hrel, hrel, h.2]

/-- **`CreateCircuit` under interference.**  For every shared state, thread, oracle (to which the ghost log is invisible),
    name and explicit config layers: the translated body and the model's thread `create name layers` end with the same
    shared state (ghost log aside), the same oracle left and the same lock operations; the call returns `(c, nil)` ⇔ the
    thread is done with `created c`, `(nil, err)` ⇔ done with `exists_`, and it waits for `Lock` ⇔ the thread stands at
    `.begin` -/
theorem create_solo (s : Shared) (tid : Nat) (envs : List (Shared → Shared)) (hr : Rely envs) (name : String) (layers : List Layer) :
    Agrees (runM (go_CreateCircuit name (layers.map fun l => (l, none))) s tid envs)
      (soloJob tid 8 (.create name layers) .begin s envs)
      (fun o pc => match o with
        | .ok (some c, none) => pc = .done (.created c)
        | .ok (none, some _) => pc = .done .exists_
        | .nilCall => pc = .begin
        | _ => False) := by
  unfold runM soloJob
  rw [create_factors, imgr_solo_begin_w tid 7 _ rfl]
  by_cases hok : ((popEnv envs s).1.writer.isNone && (popEnv envs s).1.readers.isEmpty) = true
  · rw [if_pos hok, if_pos hok, imgr_solo_locked, imgr_solo_ran_w _ _ _ rfl, imgr_solo_done]
    obtain ⟨res, hseq, hres⟩ := imgr_seqCreate_spec name layers (popEnv envs s).1.st
    have hrel := imgr_release_noLog (popEnv envs s).2 (imgr_rely_tail envs hr s)
      { (popEnv envs s).1 with st := (create (popEnv envs s).1.st name layers).1, writer := some tid }
      ((popEnv envs s).1.log ++ [(tid, .create name layers, (create (popEnv envs s).1.st name layers).2)])
      (fun y => { y with writer := none }) (fun _ => rfl)
    rw [hseq]
    refine ⟨hrel.1, hrel.2, rfl, ?_, rfl, by simp⟩
    show (match (Go.Out.ok res : Go.Out (CircP × MErr)) with
        | .ok (some c, none) => Pc.done (create (popEnv envs s).1.st name layers).2 = .done (.created c)
        | .ok (none, some _) => Pc.done (create (popEnv envs s).1.st name layers).2 = .done .exists_
        | .nilCall => Pc.done (create (popEnv envs s).1.st name layers).2 = .begin
        | _ => False)
    revert hres
    cases (create (popEnv envs s).1.st name layers).2 with
    | created c => intro hres; simp only at hres; subst hres; rfl
    | exists_ => intro hres; obtain ⟨msg, hres⟩ := hres; subst hres; rfl
    | got _ => intro hres; exact hres.elim
    | all _ => intro hres; exact hres.elim
    | bound _ => intro hres; exact hres.elim
  · rw [if_neg hok, if_neg hok]
    exact ⟨rfl, rfl, rfl, rfl, rfl, by simp⟩

/-! ### `GetCircuit` -/

/-- what the SEQUENTIAL translation of `GetCircuit` (K5, unit GoManager) returns and leaves, from registry `s` -/
def seqGet (name : String) (s : State) : Go.Out CircP × GoManager.MW :=
  Go.run (CM.Generated.GoManager.go_GetCircuit name) ⟨s, false⟩

/-- the sequential tie (T_GoManager.`go_GetCircuit_eq`), about `seqGet` -/
theorem imgr_seqGet_eq (name : String) (s : State) : seqGet name s = (.ok (s.get name), ⟨s, false⟩) := by
  unfold seqGet Go.run
  rw [GoManager.go_GetCircuit_eq]

theorem imgr_recv_notNil {α : Type} (a b : MM α) : (if isNil recv = true then a else b) = b := rfl

/-- the interference translation of `GetCircuit` factors through the sequential one: the others move and `RLock` is taken
    (or the goroutine waits for the writer); the sequential translation reads the registry as it is then; the others
    move and `RUnlock` happens -/
theorem get_factors (name : String) (sh : Shared) (tid : Nat) (envs : List (Shared → Shared)) (tr : List Lab) (d : List String) :
    go_GetCircuit name ⟨⟨sh, tid, envs, tr, false, false⟩, d⟩ =
      if (popEnv envs sh).1.writer.isNone = true then
        ((seqGet name (popEnv envs sh).1.st).1,
         ⟨⟨{ (popEnv (popEnv envs sh).2
                { (popEnv envs sh).1 with st := (seqGet name (popEnv envs sh).1.st).2.s, readers := tid :: (popEnv envs sh).1.readers }).1 with
              readers := (popEnv (popEnv envs sh).2
                { (popEnv envs sh).1 with st := (seqGet name (popEnv envs sh).1.st).2.s, readers := tid :: (popEnv envs sh).1.readers }).1.readers.erase tid },
            tid,
            (popEnv (popEnv envs sh).2
                { (popEnv envs sh).1 with st := (seqGet name (popEnv envs sh).1.st).2.s, readers := tid :: (popEnv envs sh).1.readers }).2,
            tr ++ [.rlock] ++ [.runlock], false, false⟩, d⟩)
      else (.nilCall, ⟨⟨(popEnv envs sh).1, tid, (popEnv envs sh).2, tr, true, false⟩, d⟩) := by
  unfold go_GetCircuit fn
  rw [sem_goFunc_def, imgr_recv_notNil]
  generalize hb : (recv_mu_RLock >>= _ : MM CircP) = body
  split
  · next hok =>
    have key : body ⟨⟨sh, tid, envs, tr, false, false⟩, d⟩ =
        ((seqGet name (popEnv envs sh).1.st).1,
         ⟨⟨{ (popEnv envs sh).1 with st := (seqGet name (popEnv envs sh).1.st).2.s, readers := tid :: (popEnv envs sh).1.readers },
           tid, (popEnv envs sh).2, tr ++ [.rlock], false, false⟩, "recv_mu_RUnlock" :: d⟩) := by
      subst hb
      rw [imgr_seqGet_eq]
      step (imgr_lockOp_ok _ _ _ _ _ _ _ _ _ _ hok)
      step (sem_pushDefer "recv_mu_RUnlock" _)
      rfl
    rw [key]
    refine Prod.ext rfl ?_
    exact imgr_unwind_unlock "recv_mu_RUnlock" _ _ imgr_runTok_RUnlock _ _ _ _ _ _
  · next hok =>
    have key : body ⟨⟨sh, tid, envs, tr, false, false⟩, d⟩ =
        (.nilCall, ⟨⟨(popEnv envs sh).1, tid, (popEnv envs sh).2, tr, true, false⟩, d⟩) := by
      subst hb
      exact sem_bind_nilCall _ _ _ _ (imgr_lockOp_wait _ _ _ _ _ _ _ _ _ _ hok)
    rw [key]
    refine Prod.ext rfl ?_
    exact sem_unwind_le _ _ _ _ (Nat.le_refl _)

/-- **`GetCircuit` under interference**: same shared state (ghost log aside), same oracle left, same lock operations; the
    call returns `c` ⇔ the model's thread `get name` is done with `got c`; it waits for `RLock` ⇔ the thread stands at
    `.begin` -/
theorem get_solo (s : Shared) (tid : Nat) (envs : List (Shared → Shared)) (hr : Rely envs) (name : String) :
    Agrees (runM (go_GetCircuit name) s tid envs) (soloJob tid 8 (.get name) .begin s envs)
      (fun o pc => match o with
        | .ok c => pc = .done (.got c)
        | .nilCall => pc = .begin
        | .panic _ => False) := by
  unfold runM soloJob
  rw [get_factors, imgr_solo_begin_r tid 7 _ rfl]
  by_cases hok : (popEnv envs s).1.writer.isNone = true
  · rw [if_pos hok, if_pos hok, imgr_solo_locked, imgr_solo_ran_r _ _ _ rfl, imgr_solo_done, imgr_seqGet_eq]
    have hrel := imgr_release_noLog (popEnv envs s).2 (imgr_rely_tail envs hr s)
      { (popEnv envs s).1 with readers := tid :: (popEnv envs s).1.readers }
      ((popEnv envs s).1.log ++ [(tid, .get name, .got ((popEnv envs s).1.st.get name))])
      (fun y => { y with readers := y.readers.erase tid }) (fun _ => rfl)
    exact ⟨hrel.1, hrel.2, rfl, rfl, rfl, by simp⟩
  · rw [if_neg hok, if_neg hok]
    exact ⟨rfl, rfl, rfl, rfl, rfl, by simp⟩

/-! ### `AllCircuits` -/

theorem imgr_foldl_snoc {α : Type} (l a : List α) : l.foldl (fun r c => r ++ [c]) a = a ++ l := by
  induction l generalizing a with
  | nil => simp
  | cons c l ih => simp [ih]

theorem imgr_ids (cs : List (String × Circuit)) :
    (cs.map fun p => some p.2).filterMap (fun (c : CircP) => c.map (·.id)) = cs.map (·.2.id) := by
  induction cs with
  | nil => rfl
  | cons c cs ih => simp [ih]

/-- `AllCircuits`: `RLock` (or wait), the values of the map as they are then, `RUnlock` -/
theorem all_run (sh : Shared) (tid : Nat) (envs : List (Shared → Shared)) (tr : List Lab) (d : List String) :
    go_AllCircuits ⟨⟨sh, tid, envs, tr, false, false⟩, d⟩ =
      if (popEnv envs sh).1.writer.isNone = true then
        (.ok ((popEnv envs sh).1.st.circuits.map fun p => some p.2),
         ⟨⟨{ (popEnv (popEnv envs sh).2 { (popEnv envs sh).1 with readers := tid :: (popEnv envs sh).1.readers }).1 with
              readers := (popEnv (popEnv envs sh).2
                { (popEnv envs sh).1 with readers := tid :: (popEnv envs sh).1.readers }).1.readers.erase tid },
            tid,
            (popEnv (popEnv envs sh).2 { (popEnv envs sh).1 with readers := tid :: (popEnv envs sh).1.readers }).2,
            tr ++ [.rlock] ++ [.runlock], false, false⟩, d⟩)
      else (.nilCall, ⟨⟨(popEnv envs sh).1, tid, (popEnv envs sh).2, tr, true, false⟩, d⟩) := by
  unfold go_AllCircuits fn
  rw [sem_goFunc_def, imgr_recv_notNil]
  generalize hb : (recv_mu_RLock >>= _ : MM (List CircP)) = body
  split
  · next hok =>
    have key : body ⟨⟨sh, tid, envs, tr, false, false⟩, d⟩ =
        (.ok ((popEnv envs sh).1.st.circuits.map fun p => some p.2),
         ⟨⟨{ (popEnv envs sh).1 with readers := tid :: (popEnv envs sh).1.readers },
           tid, (popEnv envs sh).2, tr ++ [.rlock], false, false⟩, "recv_mu_RUnlock" :: d⟩) := by
      subst hb
      step (imgr_lockOp_ok _ _ _ _ _ _ _ _ _ _ hok)
      step (sem_pushDefer "recv_mu_RUnlock" _)
      step (imgr_lift_rd _ _)
      step (sem_forIn_accG _ (fun (r : List CircP) c => r ++ [c]) (fun _ _ _ => rfl) _ _ _)
      rw [imgr_foldl_snoc]
      rfl
    rw [key]
    refine Prod.ext rfl ?_
    exact imgr_unwind_unlock "recv_mu_RUnlock" _ _ imgr_runTok_RUnlock _ _ _ _ _ _
  · next hok =>
    have key : body ⟨⟨sh, tid, envs, tr, false, false⟩, d⟩ =
        (.nilCall, ⟨⟨(popEnv envs sh).1, tid, (popEnv envs sh).2, tr, true, false⟩, d⟩) := by
      subst hb
      exact sem_bind_nilCall _ _ _ _ (imgr_lockOp_wait _ _ _ _ _ _ _ _ _ _ hok)
    rw [key]
    refine Prod.ext rfl ?_
    exact sem_unwind_le _ _ _ _ (Nat.le_refl _)

/-- **`AllCircuits` under interference**: same shared state (ghost log aside), same oracle left, same lock operations; the
    call returns circuits whose identities, SORTED (Go's map iteration order is unspecified), are the model's answer -/
theorem all_solo (s : Shared) (tid : Nat) (envs : List (Shared → Shared)) (hr : Rely envs) :
    Agrees (runM go_AllCircuits s tid envs) (soloJob tid 8 .all .begin s envs)
      (fun o pc => match o with
        | .ok l => pc = .done (.all (sortNat (l.filterMap fun c => c.map (·.id))))
        | .nilCall => pc = .begin
        | .panic _ => False) := by
  unfold runM soloJob
  rw [all_run, imgr_solo_begin_r tid 7 _ rfl]
  by_cases hok : (popEnv envs s).1.writer.isNone = true
  · rw [if_pos hok, if_pos hok, imgr_solo_locked, imgr_solo_ran_r _ _ _ rfl, imgr_solo_done]
    have hrel := imgr_release_noLog (popEnv envs s).2 (imgr_rely_tail envs hr s)
      { (popEnv envs s).1 with readers := tid :: (popEnv envs s).1.readers }
      ((popEnv envs s).1.log ++ [(tid, .all, .all (sortNat ((popEnv envs s).1.st.circuits.map (·.2.id))))])
      (fun y => { y with readers := y.readers.erase tid }) (fun _ => rfl)
    refine ⟨hrel.1, hrel.2, rfl, ?_, rfl, by simp⟩
    show Pc.done (.all (sortNat ((popEnv envs s).1.st.circuits.map (·.2.id)))) = .done (.all (sortNat (List.filterMap _ _)))
    rw [imgr_ids]
  · rw [if_neg hok, if_neg hok]
    exact ⟨rfl, rfl, rfl, rfl, rfl, by simp⟩

/-! ### non-vacuity: the lock grabbed by somebody else; the same name registered by somebody else just before this
    thread gets the lock; a reader let in next to other readers, kept out by a writer -/
def st0 : State := { ctors := [.layer { timeout := 5 }, .statFactory, .layer { maxConc := 3 }] }
def sh0 : Shared := { st := st0 }
/-- another goroutine takes the write lock / the read lock / gives the read lock back -/
def grabW : Shared → Shared := fun s => { s with writer := some 7 }
def grabR : Shared → Shared := fun s => { s with readers := 9 :: s.readers }
def relR : Shared → Shared := fun s => { s with readers := s.readers.erase 9 }
/-- another goroutine's whole `CreateCircuit("a")` (Lock, body, Unlock) happens — if the lock is free -/
def regA : Shared → Shared := fun s =>
  if s.writer.isNone && s.readers.isEmpty then { s with st := (create s.st "a" []).1 } else s
def cfgs : List Layer := [{ fbMaxConc := 2 }, { timeout := 9 }]

example : Rely [grabW, grabR, relR, regA, id] := by
  intro e he x lg
  simp only [List.mem_cons, List.not_mem_nil, or_false] at he
  rcases he with rfl | rfl | rfl | rfl | rfl
  · rfl
  · rfl
  · rfl
  · simp only [regA]; split <;> rfl
  · rfl

/-- the oracles `I_Core.thread_view` builds from a schedule (identity at the thread's own turns, the state another
    thread's step produced otherwise) satisfy the rely condition -/
theorem schedule_oracles_rely (envs : List (Shared → Shared)) (h : ∀ e ∈ envs, e = id ∨ ∃ s', e = fun _ => s') : Rely envs := by
  intro e he x lg
  rcases h e he with rfl | ⟨s', rfl⟩ <;> rfl

/-- … and so do the steps of the other threads of the MODEL taken as moves (they append to the ghost log, they never
    read it) -/
theorem model_steps_rely (steps : List (Nat × Local)) :
    Rely (steps.map fun p => fun s => match Conc.Mgr.step p.1 s p.2 with | some r => r.1 | none => s) := by
  intro e he x lg
  simp only [List.mem_map] at he
  obtain ⟨⟨tid', job, pc⟩, -, rfl⟩ := he
  cases pc with
  | begin => cases hw : isWriter job <;> cases hx : x.writer <;> cases hrd : x.readers <;> simp [Conc.Mgr.step, hw, hx, hrd, noLog]
  | locked => rfl
  | ran out => cases hw : isWriter job <;> simp [Conc.Mgr.step, hw, noLog]
  | done out => rfl

-- somebody holds the write lock (or a read lock): CreateCircuit waits, nothing recorded, registry untouched
example : (runM (go_CreateCircuit "a" (cfgs.map fun l => (l, none))) sh0 1 [grabW]).1 = .nilCall := by decide
example : (soloJob 1 8 (.create "a" cfgs) .begin sh0 [grabW]).loc.pc = .begin := by decide
example : (runM (go_CreateCircuit "a" (cfgs.map fun l => (l, none))) sh0 1 [grabR, relR]).1 = .nilCall := by decide
example : (runM (go_CreateCircuit "a" (cfgs.map fun l => (l, none))) sh0 1 [grabW]).2.sh.st = st0 := by decide
-- the name is registered by somebody else just before this thread gets the lock: the error, one circuit, no constructor run
example : (runM (go_CreateCircuit "a" (cfgs.map fun l => (l, none))) sh0 1 [regA, id]).1
    = .ok (none, some "circuit with that name already exists") := by decide
example : (soloJob 1 8 (.create "a" cfgs) .begin sh0 [regA, id]).loc.pc = .done .exists_ := by decide
example : (runM (go_CreateCircuit "a" (cfgs.map fun l => (l, none))) sh0 1 [regA, id]).2.sh.st.statBinding = [("a", 0)] := by decide
-- … and when the other one comes second (while this thread holds the lock it cannot get in): this thread wins
example : (runM (go_CreateCircuit "a" (cfgs.map fun l => (l, none))) sh0 1 [id, regA]).1
    = .ok (some { id := 0, cfg := { timeout := 9, maxConc := 3, fbMaxConc := 2 }, stats := some 0 }, none) := by decide
example : (runM (go_CreateCircuit "a" (cfgs.map fun l => (l, none))) sh0 1 [id, regA]).2.trace = [.lock, .unlock] := by decide
-- readers: next to another reader GetCircuit gets in (and sees what was registered meanwhile); a writer keeps it out
example : (runM (go_GetCircuit "a") sh0 1 [fun s => grabR (regA s), id]).1
    = .ok (some { id := 0, cfg := { timeout := 5, maxConc := 3, fbMaxConc := 10 }, stats := some 0 }) := by decide
example : (runM (go_GetCircuit "a") sh0 1 [fun s => grabR (regA s), id]).2.sh.readers = [9] := by decide
example : (runM (go_GetCircuit "a") sh0 1 [grabW]).1 = .nilCall := by decide
example : (runM go_AllCircuits sh0 1 [grabW]).1 = .nilCall := by decide
example : ((runM go_AllCircuits sh0 1 [regA]).1, (soloJob 1 8 .all .begin sh0 [regA]).loc.pc)
    = (.ok [some { id := 0, cfg := { timeout := 5, maxConc := 3, fbMaxConc := 10 }, stats := some 0 }], .done (.all [0])) := by decide

end CM.GoTie.IMgr

/-
  Lemmas/Cons.lean — helper lemmas for property C20 (the metric consumers agree with what happened).
  Every counter of the consumers is an `RC` driven by the `Inc`s of SOME of the delivered callbacks, so each is
  reduced to `ts.foldl RC.inc c` for the list `ts` of the selected event times, and the refinement of `RC` against
  `SpecC13` (Lemmas/RC.lean) does the rest.
-/
import CircuitModel.Spec.C20
import CircuitProofs.Lemmas.RC
import CircuitProofs.Lemmas.F64
namespace CM.Cons
open CM CM.SpecC13 CM.SpecC20

/-! ### `total` moves only in `Inc`, by one, without any side condition -/

theorem clear_total (c : RC) (i : Nat) : (c.clear i).total = c.total := rfl

theorem rollLoop_total (abs : Nat) : ∀ (k : Nat) (c : RC), (c.rollLoop abs k).total = c.total
  | 0, _ => rfl
  | k + 1, c => by
    simp only [RC.rollLoop]
    split
    · exact (rollLoop_total abs k _).trans (clear_total _ _)
    · rfl

theorem advance_total (c : RC) (d : Int) : (c.advance d).1.total = c.total := by
  have h1 := rollLoop_total (absIdx c.w d) c.n c
  simp only [RC.advance]
  split
  · rfl
  split
  · rfl
  split
  · rfl
  split
  · split <;> rfl
  · exact h1

theorem inc_total (c : RC) (d : Int) : (c.inc d).total = c.total + 1 := by
  have h1 := advance_total { c with total := c.total + 1 } d
  simp only [RC.inc]
  split
  · rfl
  · generalize RC.advance { c with total := c.total + 1 } d = p at h1 ⊢
    obtain ⟨c1, r⟩ := p
    cases r with
    | none => exact h1
    | some idx => exact h1

/-- a counter driven by the increments `ts` (oldest first) -/
def incAll (c : RC) (ts : List Int) : RC := ts.foldl RC.inc c

theorem incAll_nil (c : RC) : incAll c [] = c := rfl
theorem incAll_cons (c : RC) (t : Int) (ts : List Int) : incAll c (t :: ts) = incAll (c.inc t) ts := rfl

theorem incAll_total : ∀ (ts : List Int) (c : RC), (incAll c ts).total = c.total + ts.length
  | [], c => by simp [incAll_nil]
  | t :: ts, c => by
    rw [incAll_cons, incAll_total ts, inc_total, List.length_cons]
    push_cast
    omega

/-! ### the delivered callbacks, projected -/

def runOf : Emit → Option (Kind × Int × Int)
  | .run k t d => some (k, t, d)
  | _ => none

def fbOf : Emit → Option (FbKind × Int)
  | .fb k t _ => some (k, t)
  | _ => none

@[simp] theorem runOf_run (k : Kind) (t d : Int) : runOf (.run k t d) = some (k, t, d) := rfl
@[simp] theorem runOf_fb (k : FbKind) (t d : Int) : runOf (.fb k t d) = none := rfl
@[simp] theorem runOf_opened (t : Int) : runOf (.opened t) = none := rfl
@[simp] theorem runOf_closed (t : Int) : runOf (.closed t) = none := rfl
@[simp] theorem fbOf_run (k : Kind) (t d : Int) : fbOf (.run k t d) = none := rfl
@[simp] theorem fbOf_fb (k : FbKind) (t d : Int) : fbOf (.fb k t d) = some (k, t) := rfl
@[simp] theorem fbOf_opened (t : Int) : fbOf (.opened t) = none := rfl
@[simp] theorem fbOf_closed (t : Int) : fbOf (.closed t) = none := rfl

theorem foldl_add (emits : List Emit) : ∀ h : Hist,
    emits.foldl Hist.add h = { run := h.run ++ emits.filterMap runOf, fb := h.fb ++ emits.filterMap fbOf } := by
  induction emits with
  | nil => intro h; simp
  | cons e emits ih =>
    intro h
    rw [List.foldl_cons, ih]
    cases e <;> simp [Hist.add, List.filterMap_cons]

theorem hist_run (emits : List Emit) : (emits.foldl Hist.add {}).run = emits.filterMap runOf := by
  rw [foldl_add]; simp

theorem hist_fb (emits : List Emit) : (emits.foldl Hist.add {}).fb = emits.filterMap fbOf := by
  rw [foldl_add]; simp

/-- times of the run events of kind `k`, oldest first -/
def timesOf (k : Kind) (l : List (Kind × Int × Int)) : List Int := (l.filter (·.1 == k)).map (·.2.1)
def fbTimesOf (k : FbKind) (l : List (FbKind × Int)) : List Int := (l.filter (·.1 == k)).map (·.2)

/-! ### selecting one counter -/

def getR : Kind → RunStats → RC
  | .success, r => r.successes
  | .reject, r => r.rejects
  | .failure, r => r.failures
  | .shortCircuit, r => r.shortCircuits
  | .timeout, r => r.timeouts
  | .badRequest, r => r.badRequests
  | .interrupt, r => r.interrupts

def getF : FbKind → FbStats → RC
  | .success, f => f.successes
  | .reject, f => f.rejects
  | .failure, f => f.failures

theorem getR_onRun (k k' : Kind) (r : RunStats) (t d : Int) :
    getR k (r.onRun k' t d) = if k' = k then (getR k r).inc t else getR k r := by
  cases k <;> cases k' <;> rfl

theorem getF_onFb (k k' : FbKind) (f : FbStats) (t : Int) :
    getF k (f.onFb k' t) = if k' = k then (getF k f).inc t else getF k f := by
  cases k <;> cases k' <;> rfl

theorem feed_nil (a : All) : a.feed [] = a := rfl
theorem feed_cons (a : All) (e : Emit) (emits : List Emit) : a.feed (e :: emits) = (a.onEmit e).feed emits := rfl

theorem feed_getR (k : Kind) : ∀ (emits : List Emit) (a : All),
    getR k (a.feed emits).run = incAll (getR k a.run) (timesOf k (emits.filterMap runOf))
  | [], a => rfl
  | e :: emits, a => by
    rw [feed_cons, feed_getR k emits]
    cases e with
    | run k' t d =>
      show incAll (getR k (a.run.onRun k' t d)) _ = _
      rw [getR_onRun]
      by_cases hk : k' = k
      · subst hk
        simp [timesOf, incAll_cons]
      · have : (k' == k) = false := by simpa using hk
        simp [timesOf, this, hk]
    | fb k' t d => rfl
    | opened t => rfl
    | closed t => rfl

theorem feed_getF (k : FbKind) : ∀ (emits : List Emit) (a : All),
    getF k (a.feed emits).fb = incAll (getF k a.fb) (fbTimesOf k (emits.filterMap fbOf))
  | [], a => rfl
  | e :: emits, a => by
    rw [feed_cons, feed_getF k emits]
    cases e with
    | fb k' t d =>
      show incAll (getF k (a.fb.onFb k' t)) _ = _
      rw [getF_onFb]
      by_cases hk : k' = k
      · subst hk
        simp [fbTimesOf, incAll_cons]
      · have : (k' == k) = false := by simpa using hk
        simp [fbTimesOf, this, hk]
    | run k' t d => rfl
    | opened t => rfl
    | closed t => rfl

theorem getR_new (k : Kind) (n : Nat) (dur : Int) (pn : Nat) (pdur : Int) (psize : Nat) :
    getR k (RunStats.new n dur pn pdur psize) = RC.new n (tdiv dur n) := by
  cases k <;> rfl

theorem getF_new (k : FbKind) (n : Nat) (dur : Int) : getF k (FbStats.new n dur) = RC.new n (tdiv dur n) := by
  cases k <;> rfl

/-- TotalSum of the counter of kind `k` after any history -/
theorem total_getR (k : Kind) (n : Nat) (dur : Int) (pn : Nat) (pdur : Int) (psize : Nat) (mh : Int)
    (emits : List Emit) :
    (getR k ((All.new n dur pn pdur psize mh).feed emits).run).total = total (emits.foldl Hist.add {}) k := by
  unfold total
  rw [feed_getR, incAll_total, hist_run]
  show (getR k (RunStats.new n dur pn pdur psize)).total + _ = _
  rw [getR_new]
  simp [RC.new, timesOf]

theorem total_getF (k : FbKind) (n : Nat) (dur : Int) (pn : Nat) (pdur : Int) (psize : Nat) (mh : Int)
    (emits : List Emit) :
    (getF k ((All.new n dur pn pdur psize mh).feed emits).fb).total = fbTotal (emits.foldl Hist.add {}) k := by
  unfold fbTotal
  rw [feed_getF, incAll_total, hist_fb]
  show (getF k (FbStats.new n dur)).total + _ = _
  rw [getF_new]
  simp [RC.new, fbTimesOf]

/-! ### one counter against the list of increments it received -/

theorem absIdx_mono {w d t : Int} (hw : 0 < w) (h : d ≤ t) : absIdx w d ≤ absIdx w t := by
  unfold absIdx
  exact Int.toNat_le_toNat (Int.ediv_le_ediv hw h)

/-- the counter `c` has been driven by some counter history whose live increments are exactly `ts` (newest
    first) and which never saw a bucket newer than `H` -/
def KInv (n : Nat) (w : Int) (c : RC) (ts : List Int) (H : Nat) : Prop :=
  ∃ hc, Inv n w c hc ∧ live hc = ts ∧ hi w hc ≤ H

theorem KInv.new (n : Nat) (w : Int) (hn : 0 < n) (H : Nat) : KInv n w (RC.new n w) [] H :=
  ⟨[], Inv.new n w hn, rfl, Nat.zero_le _⟩

theorem KInv.inc {n : Nat} {w : Int} {c : RC} {ts : List Int} {H : Nat} (hn : 0 < n) (I : KInv n w c ts H)
    (t : Int) (ht : absIdx w t ≤ H) : KInv n w (c.inc t) (t :: ts) H := by
  obtain ⟨hc, I, hl, hh⟩ := I
  refine ⟨.inc t :: hc, I.inc hn t, by rw [← hl]; rfl, ?_⟩
  rw [hi_cons_time w hc (.inc t) t rfl]
  split <;> omega

theorem KInv.incAll {n : Nat} {w : Int} (hn : 0 < n) (hw : 0 < w) (now : Int) :
    ∀ (ts : List Int) (c : RC) (ts0 : List Int), KInv n w c ts0 (absIdx w now) → (∀ t ∈ ts, t ≤ now) →
      KInv n w (incAll c ts) (ts.reverse ++ ts0) (absIdx w now)
  | [], _, _, I, _ => by simpa [incAll_nil] using I
  | t :: ts, c, ts0, I, h => by
    rw [incAll_cons, List.reverse_cons, List.append_assoc]
    exact KInv.incAll hn hw now ts (c.inc t) (t :: ts0)
      (I.inc hn t (absIdx_mono hw (h t List.mem_cons_self))) (fun t' ht' => h t' (List.mem_cons_of_mem _ ht'))

/-- the window count of `SpecC13`, on a list of increment times -/
theorem win_times (n : Nat) (w : Int) (L : Nat) (ts : List Int) :
    win n ((ts.filter (fun d => decide (0 ≤ d))).map (absIdx w)) L
      = ((ts.filter fun d => decide (0 ≤ d) && decide (absIdx w d + n > L)).length : Int) := by
  induction ts with
  | nil => rfl
  | cons d ts ih =>
    by_cases hd : 0 ≤ d
    · by_cases hL : absIdx w d + n > L
      · simp [hd, hL, win_cons, ih]
      · simp [hd, hL, win_cons, ih]
    · simp [hd, ih]

/-- what the counter answers when asked at a time that is not before anything it has seen -/
theorem KInv.read {n : Nat} {w : Int} {c : RC} {ts : List Int} {H : Nat} (hn : 0 < n) (I : KInv n w c ts H)
    (t : Int) (ht : 0 ≤ t) (hb : H ≤ absIdx w t) :
    (c.sumAt t).2 = ((ts.filter fun d => decide (0 ≤ d) && decide (absIdx w d + n > absIdx w t)).length : Int) := by
  obtain ⟨hc, I, hl, hh⟩ := I
  have I' := I.advance hn (.sum t) t rfl rfl rfl
  show (c.advance t).1.rolling = _
  rw [I'.rel.roll, I'.last, hi_cons_time w hc (.sum t) t rfl, if_neg (by omega), counted_sum]
  have hm : max (absIdx w t) (hi w hc) = absIdx w t := by omega
  rw [hm]
  unfold counted
  rw [hl]
  exact win_times n w (absIdx w t) ts

/-- a fresh counter fed increments none of which is after `now`, read at `now` -/
theorem incAll_read {n : Nat} {w : Int} (hn : 0 < n) (hw : 0 < w) (now : Int) (h0 : 0 ≤ now) (ts : List Int)
    (h : ∀ t ∈ ts, t ≤ now) :
    ((incAll (RC.new n w) ts).sumAt now).2
      = ((ts.filter fun d => decide (0 ≤ d) && decide (absIdx w d + n > absIdx w now)).length : Int) := by
  have I := KInv.incAll hn hw now ts (RC.new n w) [] (KInv.new n w hn _) h
  rw [I.read hn now h0 (Nat.le_refl _), List.append_nil, List.filter_reverse, List.length_reverse]

theorem timesOf_filter_length (k : Kind) (p : Int → Bool) (l : List (Kind × Int × Int)) :
    ((timesOf k l).filter p).length = (l.filter fun (k', t, _) => k' == k && p t).length := by
  induction l with
  | nil => rfl
  | cons x l ih =>
    obtain ⟨k', t, d⟩ := x
    unfold timesOf at ih ⊢
    by_cases hk : (k' == k) = true
    · by_cases hp : p t = true
      · simp [hk, hp, ih]
      · simp [hk, hp, ih]
    · simp [hk, ih]

theorem mem_timesOf {k : Kind} {t : Int} {emits : List Emit} (h : t ∈ timesOf k (emits.filterMap runOf)) :
    ∃ d, Emit.run k t d ∈ emits := by
  unfold timesOf at h
  obtain ⟨⟨k', t', d⟩, hx, rfl⟩ := List.mem_map.mp h
  obtain ⟨hx, hk⟩ := List.mem_filter.mp hx
  obtain ⟨e, he, hr⟩ := List.mem_filterMap.mp hx
  have hk' : k' = k := by simpa using hk
  subst hk'
  cases e with
  | run k'' t'' d'' =>
    simp only [runOf_run, Option.some.injEq, Prod.mk.injEq] at hr
    obtain ⟨rfl, rfl, rfl⟩ := hr
    exact ⟨_, he⟩
  | fb _ _ _ => simp at hr
  | opened _ => simp at hr
  | closed _ => simp at hr

/-- the rolling sum of the counter of kind `k`, read at a `now` that no delivered run event is after -/
theorem rolling_getR (k : Kind) (n : Nat) (dur : Int) (pn : Nat) (pdur : Int) (psize : Nat) (mh : Int)
    (hn : 0 < n) (hw : 0 < tdiv dur n) (emits : List Emit) (now : Int) (h0 : 0 ≤ now)
    (hle : ∀ k t d, Emit.run k t d ∈ emits → t ≤ now) :
    ((getR k ((All.new n dur pn pdur psize mh).feed emits).run).sumAt now).2
      = rolling n (tdiv dur n) (emits.foldl Hist.add {}) k now := by
  unfold rolling
  rw [feed_getR, hist_run]
  show ((incAll (getR k (RunStats.new n dur pn pdur psize)) _).sumAt now).2 = _
  rw [getR_new, incAll_read hn hw now h0, timesOf_filter_length]
  · congr 2
    apply List.filter_congr
    rintro ⟨k', t, d⟩ _
    simp only [Bool.and_assoc]
  · intro t ht
    obtain ⟨d, hd⟩ := mem_timesOf ht
    exact hle k t d hd

theorem sums_snd (r : RunStats) (now : Int) :
    (r.sums now).2 = kinds.map fun k => ((getR k r).sumAt now).2 := rfl

theorem totals_eq (r : RunStats) : r.totals = kinds.map fun k => (getR k r).total := rfl

/-! ### the SLO tracker -/

def passB (mh : Int) : Kind × Int × Int → Bool :=
  fun (k, _, d) => k == .success && decide (d ≤ mh)

def failB (mh : Int) : Kind × Int × Int → Bool :=
  fun (k, _, d) =>
    (k == .success && decide (d > mh)) || k == .failure || k == .timeout || k == .reject || k == .shortCircuit ||
    (k == .interrupt && decide (d > mh))

theorem sloPass_eq (mh : Int) (h : Hist) : sloPass mh h = ((h.run.filter (passB mh)).length : Int) := rfl
theorem sloFail_eq (mh : Int) (h : Hist) : sloFail mh h = ((h.run.filter (failB mh)).length : Int) := rfl

theorem slo_onRun_spec (s : Slo) (k : Kind) (t d : Int) :
    (s.onRun k d).maxHealthy = s.maxHealthy ∧
    (s.onRun k d).pass = s.pass + (if passB s.maxHealthy (k, t, d) = true then 1 else 0) ∧
    (s.onRun k d).fail = s.fail + (if failB s.maxHealthy (k, t, d) = true then 1 else 0) := by
  by_cases h : d ≤ s.maxHealthy
  · have h' : ¬ d > s.maxHealthy := by omega
    cases k <;> simp [Slo.onRun, passB, failB, h, h']
  · have h' : d > s.maxHealthy := by omega
    cases k <;> simp [Slo.onRun, passB, failB, h, h']

/-- the tracker driven by the run events `l` (oldest first) -/
def sloAll (s : Slo) (l : List (Kind × Int × Int)) : Slo := l.foldl (fun s p => s.onRun p.1 p.2.2) s

theorem sloAll_cons (s : Slo) (p : Kind × Int × Int) (l : List (Kind × Int × Int)) :
    sloAll s (p :: l) = sloAll (s.onRun p.1 p.2.2) l := rfl

theorem sloAll_spec : ∀ (l : List (Kind × Int × Int)) (s : Slo),
    (sloAll s l).maxHealthy = s.maxHealthy ∧
    (sloAll s l).pass = s.pass + ((l.filter (passB s.maxHealthy)).length : Int) ∧
    (sloAll s l).fail = s.fail + ((l.filter (failB s.maxHealthy)).length : Int)
  | [], s => by simp [sloAll]
  | (k, t, d) :: l, s => by
    obtain ⟨h1, h2, h3⟩ := slo_onRun_spec s k t d
    obtain ⟨i1, i2, i3⟩ := sloAll_spec l (s.onRun k d)
    rw [sloAll_cons]
    simp only
    rw [h1] at i1 i2 i3
    refine ⟨i1, ?_, ?_⟩
    · rw [i2, h2, List.filter_cons]
      split
      · rw [List.length_cons]; push_cast; omega
      · omega
    · rw [i3, h3, List.filter_cons]
      split
      · rw [List.length_cons]; push_cast; omega
      · omega

theorem feed_slo : ∀ (emits : List Emit) (a : All), (a.feed emits).slo = sloAll a.slo (emits.filterMap runOf)
  | [], _ => rfl
  | e :: emits, a => by
    rw [feed_cons, feed_slo emits]
    cases e <;> rfl

theorem slo_feed (n : Nat) (dur : Int) (pn : Nat) (pdur : Int) (psize : Nat) (mh : Int) (emits : List Emit) :
    ((All.new n dur pn pdur psize mh).feed emits).slo.pass = sloPass mh (emits.foldl Hist.add {}) ∧
    ((All.new n dur pn pdur psize mh).feed emits).slo.fail = sloFail mh (emits.foldl Hist.add {}) ∧
    ((All.new n dur pn pdur psize mh).feed emits).slo.maxHealthy = mh := by
  rw [feed_slo, sloPass_eq, sloFail_eq, hist_run]
  obtain ⟨h1, h2, h3⟩ := sloAll_spec (emits.filterMap runOf) (All.new n dur pn pdur psize mh).slo
  have hm : (All.new n dur pn pdur psize mh).slo.maxHealthy = mh := rfl
  rw [hm] at h1 h2 h3
  refine ⟨?_, ?_, h1⟩
  · rw [h2]; show (0 : Int) + _ = _; omega
  · rw [h3]; show (0 : Int) + _ = _; omega

/-! ### the error percentage -/

theorem errorPercentage_eq (s f t : Int) (hs : 0 ≤ s) (hf : 0 ≤ f) (ht : 0 ≤ t)
    (hb : s + f + t ≤ 9007199254740992) :
    errorPercentage s f t
      = (if s + f + t = 0 then 0 else F64.rne (((f + t : Int) : Rat) / ((s + f + t : Int) : Rat))) := by
  have e53 : (2 : Int) ^ 53 = 9007199254740992 := by norm_num
  have h1 : F64.rne ((f + t : Int) : Rat) = ((f + t : Int) : Rat) :=
    F64.rne_int (f + t) (by rw [abs_of_nonneg (by omega), e53]; omega)
  have h2 : F64.rne ((s + f + t : Int) : Rat) = ((s + f + t : Int) : Rat) :=
    F64.rne_int (s + f + t) (by rw [abs_of_nonneg (by omega), e53]; omega)
  unfold errorPercentage F64.div F64.ofInt
  simp only
  rw [h1, h2]

theorem errorPercentage_bounds (s f t : Int) (hs : 0 ≤ s) (hf : 0 ≤ f) (ht : 0 ≤ t)
    (hb : s + f + t ≤ 9007199254740992) :
    0 ≤ errorPercentage s f t ∧ errorPercentage s f t ≤ 1 := by
  rw [errorPercentage_eq s f t hs hf ht hb]
  split
  · exact ⟨le_refl _, by norm_num⟩
  · rename_i hne
    have hpos : (0 : Rat) < ((s + f + t : Int) : Rat) := by
      have : 0 < s + f + t := by omega
      exact_mod_cast this
    have hnum : (0 : Rat) ≤ ((f + t : Int) : Rat) := by
      have : 0 ≤ f + t := by omega
      exact_mod_cast this
    have hle : ((f + t : Int) : Rat) ≤ ((s + f + t : Int) : Rat) := by
      have : f + t ≤ s + f + t := by omega
      exact_mod_cast this
    exact ⟨F64.rne_nonneg (div_nonneg hnum (le_of_lt hpos)), F64.rne_le_one ((div_le_one hpos).mpr hle)⟩

end CM.Cons

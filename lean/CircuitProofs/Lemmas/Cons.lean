import CircuitModel.Spec.C20
import CircuitProofs.Lemmas.RC
import CircuitProofs.Lemmas.F64
namespace CM.Cons
end CM.Cons

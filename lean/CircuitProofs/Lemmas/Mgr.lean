import CircuitModel.Manager
namespace CM.Mgr
end CM.Mgr

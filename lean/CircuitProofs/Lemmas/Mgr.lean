import CircuitModel.Manager
namespace CM.Mgr

/-! ### runCtors: equations, frame, merged layer -/

/-- the settings a constructor contributes -/
def layerOf : Ctor → Layer
  | .layer l => l
  | .statFactory => {}

theorem runCtors_nil (name : String) (acc : Layer × State × Option Nat) : runCtors name [] acc = acc := rfl

theorem runCtors_layer (name : String) (l : Layer) (rest : List Ctor) (acc : Layer × State × Option Nat) :
    runCtors name (.layer l :: rest) acc =
      (merge (runCtors name rest acc).1 l, (runCtors name rest acc).2.1, (runCtors name rest acc).2.2) := rfl

theorem runCtors_sf (name : String) (rest : List Ctor) (acc : Layer × State × Option Nat) :
    runCtors name (.statFactory :: rest) acc =
      ((runCtors name rest acc).1,
       { (runCtors name rest acc).2.1 with
           statBinding := (name, (runCtors name rest acc).2.1.nextStat) :: (runCtors name rest acc).2.1.statBinding,
           nextStat := (runCtors name rest acc).2.1.nextStat + 1 },
       (runCtors name rest acc).2.2.orElse fun _ => some (runCtors name rest acc).2.1.nextStat) := rfl

theorem runCtors_circuits (name : String) (cs : List Ctor) (acc : Layer × State × Option Nat) :
    (runCtors name cs acc).2.1.circuits = acc.2.1.circuits := by
  induction cs with
  | nil => rfl
  | cons c rest ih => cases c <;> simp [runCtors_layer, runCtors_sf, ih]

theorem runCtors_nextId (name : String) (cs : List Ctor) (acc : Layer × State × Option Nat) :
    (runCtors name cs acc).2.1.nextId = acc.2.1.nextId := by
  induction cs with
  | nil => rfl
  | cons c rest ih => cases c <;> simp [runCtors_layer, runCtors_sf, ih]

theorem runCtors_ctors (name : String) (cs : List Ctor) (acc : Layer × State × Option Nat) :
    (runCtors name cs acc).2.1.ctors = acc.2.1.ctors := by
  induction cs with
  | nil => rfl
  | cons c rest ih => cases c <;> simp [runCtors_layer, runCtors_sf, ih]

theorem merge_empty (x : Layer) : merge x {} = x := by
  cases x
  simp [merge]
  omega

theorem runCtors_cfg (name : String) (cs : List Ctor) (acc : Layer × State × Option Nat) :
    (runCtors name cs acc).1 = (cs.reverse.map layerOf).foldl merge acc.1 := by
  induction cs with
  | nil => rfl
  | cons c rest ih =>
    cases c with
    | layer l => simp [runCtors_layer, ih, List.foldl_append, layerOf]
    | statFactory => simp [runCtors_sf, ih, List.foldl_append, layerOf, merge_empty]

/-! ### stat factory bookkeeping -/

theorem runCtors_statFor_other (name n : String) (hn : n ≠ name) (cs : List Ctor) (acc : Layer × State × Option Nat) :
    (runCtors name cs acc).2.1.statFor n = acc.2.1.statFor n := by
  induction cs with
  | nil => rfl
  | cons c rest ih =>
    cases c with
    | layer l => simpa [runCtors_layer] using ih
    | statFactory =>
      rw [← ih]
      have : (name == n) = false := by simpa using fun h => hn h.symm
      simp [runCtors_sf, State.statFor, this]

theorem runCtors_noSF (name : String) (cs : List Ctor) (h : cs.contains .statFactory = false)
    (acc : Layer × State × Option Nat) : (runCtors name cs acc).2 = acc.2 := by
  induction cs with
  | nil => rfl
  | cons c rest ih =>
    cases c with
    | layer l =>
      have h' : rest.contains .statFactory = false := by simpa using h
      simp [runCtors_layer, ih h']
    | statFactory => simp at h

theorem runCtors_stat_one (name : String) (cs : List Ctor) (hone : (cs.filter (· == .statFactory)).length ≤ 1)
    (l : Layer) (s : State) :
    (runCtors name cs (l, s, none)).2.2 =
      if cs.contains .statFactory then (runCtors name cs (l, s, none)).2.1.statFor name else none := by
  induction cs with
  | nil => rfl
  | cons c rest ih =>
    cases c with
    | layer l' =>
      have h1 : (rest.filter (· == .statFactory)).length ≤ 1 := by simpa [List.filter_cons] using hone
      simpa [runCtors_layer] using ih h1
    | statFactory =>
      have h0 : rest.contains .statFactory = false := by
        simp at hone
        cases hc : rest.contains Ctor.statFactory with
        | false => rfl
        | true => simp at hc; exact absurd rfl (hone _ hc)
      have h2 := runCtors_noSF name rest h0 (l, s, none)
      have h3 : (runCtors name rest (l, s, none)).2.2 = none := by rw [h2]
      simp [runCtors_sf, h3, State.statFor]

/-! ### create -/

/-- the result of running the constructors for a creation -/
abbrev rc (s : State) (name : String) (cfgs : List Layer) : Layer × State × Option Nat :=
  runCtors name s.ctors (cfgs.foldl merge {}, s, none)

/-- the circuit a successful creation builds -/
def mkCircuit (s : State) (name : String) (cfgs : List Layer) : Circuit :=
  { id := s.nextId, cfg := merge (rc s name cfgs).1 libDefaults, stats := (rc s name cfgs).2.2 }

theorem create_some {s : State} {name : String} {c : Circuit} (cfgs : List Layer) (h : s.get name = some c) :
    create s name cfgs = (s, .exists_) := by
  unfold create; rw [h]

theorem create_none {s : State} {name : String} (cfgs : List Layer) (h : s.get name = none) :
    create s name cfgs =
      ({ (rc s name cfgs).2.1 with
          circuits := s.circuits ++ [(name, mkCircuit s name cfgs)], nextId := s.nextId + 1 },
       .created (mkCircuit s name cfgs)) := by
  have h1 := runCtors_circuits name s.ctors (cfgs.foldl merge {}, s, none)
  have h2 := runCtors_nextId name s.ctors (cfgs.foldl merge {}, s, none)
  simp only at h1 h2
  unfold create; rw [h]
  simp only [mkCircuit, rc, ← h1, ← h2]

theorem create_none_circuits {s : State} {name : String} (cfgs : List Layer) (h : s.get name = none) :
    (create s name cfgs).1.circuits = s.circuits ++ [(name, mkCircuit s name cfgs)] := by
  rw [create_none cfgs h]

theorem create_none_nextId {s : State} {name : String} (cfgs : List Layer) (h : s.get name = none) :
    (create s name cfgs).1.nextId = s.nextId + 1 := by
  rw [create_none cfgs h]

theorem create_none_statBinding {s : State} {name : String} (cfgs : List Layer) (h : s.get name = none) :
    (create s name cfgs).1.statBinding = (rc s name cfgs).2.1.statBinding := by
  rw [create_none cfgs h]

theorem create_ctors (s : State) (name : String) (cfgs : List Layer) : (create s name cfgs).1.ctors = s.ctors := by
  cases h : s.get name with
  | some c => rw [create_some cfgs h]
  | none => rw [create_none cfgs h]; exact runCtors_ctors name s.ctors _

theorem get_append (s : State) (name n : String) (c : Circuit) (s' : State)
    (h : s'.circuits = s.circuits ++ [(n, c)]) :
    s'.get name = (s.get name).or (if n = name then some c else none) := by
  unfold State.get
  rw [h, List.find?_append]
  cases hf : List.find? (fun x => x.1 == name) s.circuits with
  | some p => simp
  | none =>
    by_cases hn : n = name
    · simp [hn]
    · simp [hn]

theorem create_get_same {s : State} {name : String} (cfgs : List Layer) (h : s.get name = none) :
    (create s name cfgs).1.get name = some (mkCircuit s name cfgs) := by
  rw [get_append s name name _ _ (create_none_circuits cfgs h), h]; simp

theorem create_get_other (s : State) {name n : String} (cfgs : List Layer) (hn : n ≠ name) :
    (create s n cfgs).1.get name = s.get name := by
  cases h : s.get n with
  | some c => rw [create_some cfgs h]
  | none =>
    rw [get_append s name n _ _ (create_none_circuits cfgs h)]; simp [hn]

theorem create_get_preserve {s : State} {name : String} {c : Circuit} (h : s.get name = some c) (n : String)
    (cfgs : List Layer) : (create s n cfgs).1.get name = some c := by
  by_cases hn : n = name
  · subst hn; rw [create_some cfgs h]; exact h
  · rw [create_get_other s cfgs hn]; exact h

theorem step_get_preserve {s : State} {name : String} {c : Circuit} (h : s.get name = some c) (op : Op) :
    (step s op).1.get name = some c := by
  cases op with
  | create n cs => exact create_get_preserve h n cs
  | get n => exact h
  | all => exact h
  | stats n => exact h

theorem exec_nil (s : State) : exec s [] = s := rfl
theorem exec_cons (s : State) (op : Op) (ops : List Op) : exec s (op :: ops) = exec (step s op).1 ops := rfl

theorem exec_inv (P : State → Prop) (hstep : ∀ s op, P s → P (step s op).1) (s : State) (ops : List Op)
    (h : P s) : P (exec s ops) := by
  induction ops generalizing s with
  | nil => exact h
  | cons op ops ih => rw [exec_cons]; exact ih _ (hstep s op h)

theorem run_nil (s : State) : run s [] = [] := rfl
theorem run_cons (s : State) (op : Op) (ops : List Op) :
    run s (op :: ops) = (step s op).2 :: run (step s op).1 ops := rfl

/-! ### sortNat on sorted lists -/

theorem sortNat_sorted (l : List Nat) (h : l.Pairwise (· ≤ ·)) : sortNat l = l := by
  induction l with
  | nil => rfl
  | cons x xs ih =>
    rw [List.pairwise_cons] at h
    rw [sortNat, ih h.2]
    cases xs with
    | nil => rfl
    | cons y ys =>
      have : x ≤ y := h.1 y (by simp)
      simp [insertNat, this]

theorem sortNat_range (k : Nat) : sortNat (List.range k) = List.range k :=
  sortNat_sorted _ List.pairwise_le_range

/-- ids are handed out 0,1,2,… in creation order -/
def IdsInv (s : State) : Prop := s.circuits.map (·.2.id) = List.range s.nextId

theorem idsInv_step (s : State) (op : Op) (h : IdsInv s) : IdsInv (step s op).1 := by
  cases op with
  | create n cs =>
    show IdsInv (create s n cs).1
    cases hg : s.get n with
    | some c => rw [create_some cs hg]; exact h
    | none =>
      unfold IdsInv at *
      rw [create_none_circuits cs hg, create_none_nextId cs hg, List.map_append, h, List.range_succ]
      rfl
  | get n => exact h
  | all => exact h
  | stats n => exact h

/-! ### precedence: folding `merge` computes first-set / any-set -/

theorem firstSet_nil (f : Layer → Int) : firstSet f [] = 0 := rfl
theorem firstSet_cons (f : Layer → Int) (l : Layer) (ls : List Layer) :
    firstSet f (l :: ls) = if f l ≠ 0 then f l else firstSet f ls := by
  unfold firstSet
  by_cases h : f l = 0 <;> simp [h]

theorem foldl_merge_scalar (f : Layer → Int) (hf : ∀ a b, f (merge a b) = if f a = 0 then f b else f a)
    (layers : List Layer) (acc : Layer) :
    f (layers.foldl merge acc) = if f acc ≠ 0 then f acc else firstSet f layers := by
  induction layers generalizing acc with
  | nil =>
    by_cases h : f acc = 0 <;> simp [firstSet_nil, h]
  | cons l ls ih =>
    rw [List.foldl_cons, ih, hf, firstSet_cons]
    by_cases h : f acc = 0 <;> simp [h]

theorem foldl_merge_bool (f : Layer → Bool) (hf : ∀ a b, f (merge a b) = (f a || f b))
    (layers : List Layer) (acc : Layer) :
    f (layers.foldl merge acc) = (f acc || anySet f layers) := by
  induction layers generalizing acc with
  | nil => simp [anySet]
  | cons l ls ih =>
    rw [List.foldl_cons, ih, hf]
    simp [anySet, Bool.or_assoc]

theorem layerOf_eq : (fun c : Ctor => match c with | .layer l => l | .statFactory => ({} : Layer)) = layerOf := by
  funext c; cases c <;> rfl

theorem mkCircuit_cfg (s : State) (name : String) (cfgs : List Layer) :
    (mkCircuit s name cfgs).cfg = (precedence s.ctors cfgs).foldl merge {} := by
  simp only [mkCircuit, rc, runCtors_cfg, precedence, List.foldl_append]
  rfl

theorem foldl_merge_eq_spec (ctors : List Ctor) (cfgs : List Layer) :
    (precedence ctors cfgs).foldl merge {} = specCfg ctors cfgs := by
  have e1 := foldl_merge_scalar (·.timeout) (fun _ _ => rfl) (precedence ctors cfgs) {}
  have e2 := foldl_merge_scalar (·.maxConc) (fun _ _ => rfl) (precedence ctors cfgs) {}
  have e3 := foldl_merge_scalar (·.fbMaxConc) (fun _ _ => rfl) (precedence ctors cfgs) {}
  have e4 := foldl_merge_bool (·.forceOpen) (fun _ _ => rfl) (precedence ctors cfgs) {}
  have e5 := foldl_merge_bool (·.forcedClosed) (fun _ _ => rfl) (precedence ctors cfgs) {}
  have e6 := foldl_merge_bool (·.disabled) (fun _ _ => rfl) (precedence ctors cfgs) {}
  have e7 := foldl_merge_bool (·.fbDisabled) (fun _ _ => rfl) (precedence ctors cfgs) {}
  have e8 := foldl_merge_bool (·.ignoreInterrupts) (fun _ _ => rfl) (precedence ctors cfgs) {}
  simp only [ne_eq, not_true_eq_false, if_false, Bool.false_or] at e1 e2 e3 e4 e5 e6 e7 e8
  generalize (precedence ctors cfgs).foldl merge {} = x at *
  unfold specCfg
  cases x
  simp only at e1 e2 e3 e4 e5 e6 e7 e8
  simp only [e1, e2, e3, e4, e5, e6, e7, e8]

/-! ### stats stay bound -/

/-- every live circuit carries the collector the factory currently hands out for its name -/
def StatInv (ctors : List Ctor) (s : State) : Prop :=
  s.ctors = ctors ∧
  ∀ n c, s.get n = some c → c.stats = if ctors.contains .statFactory then s.statFor n else none

theorem statInv_step (ctors : List Ctor) (hone : (ctors.filter (· == .statFactory)).length ≤ 1)
    (s : State) (op : Op) (h : StatInv ctors s) : StatInv ctors (step s op).1 := by
  cases op with
  | get n => exact h
  | all => exact h
  | stats n => exact h
  | create name cs =>
    show StatInv ctors (create s name cs).1
    cases hg : s.get name with
    | some c => rw [create_some cs hg]; exact h
    | none =>
      obtain ⟨hc, hall⟩ := h
      refine ⟨by rw [create_ctors, hc], ?_⟩
      intro n c hget
      have hsb : ∀ m, (create s name cs).1.statFor m = (rc s name cs).2.1.statFor m := by
        intro m; unfold State.statFor; rw [create_none_statBinding cs hg]
      rw [hsb]
      by_cases hn : n = name
      · subst hn
        rw [create_get_same cs hg] at hget
        cases hget
        have := runCtors_stat_one n s.ctors (by rw [hc]; exact hone) (cs.foldl merge {}) s
        rw [hc] at this
        simpa [mkCircuit, rc, hc] using this
      · have hn' : name ≠ n := fun e => hn e.symm
        rw [create_get_other s cs hn'] at hget
        rw [hall n c hget]
        have := runCtors_statFor_other name n hn s.ctors (cs.foldl merge {}, s, none)
        simp only [rc, this]

end CM.Mgr

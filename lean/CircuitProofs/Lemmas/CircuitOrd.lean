import CircuitModel.CircuitMid
import CircuitModel.Spec.Circuit
namespace CM
end CM

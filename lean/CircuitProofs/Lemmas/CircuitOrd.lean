/-
  Lemmas/CircuitOrd.lean — lemmas for C12 in its ordered reading: every reported duration is a LATER reading of the
  call minus an EARLIER one.  `cord_Prov` is the ordered provenance invariant on the observations, `cord_Rel` relates
  the state before and after one primitive (readings are only appended, provenance is preserved); it is lifted
  through the staged forms of `runStepMid` / `fallbackStep` / `executeMid` of Lemmas/CircuitMid.  The argument is
  about POSITIONS in the list of readings, never about their values, so the sign of a script's clock advance is
  irrelevant.
-/
import CircuitModel.CircuitMid
import CircuitModel.Spec.Circuit
import CircuitProofs.Lemmas.CircuitMid
namespace CM
open SpecCircuit

/-! ### the list predicate -/

theorem cord_lme_append (rs l : List Int) (d : Int) (h : isLaterMinusEarlier rs d = true) :
    isLaterMinusEarlier (rs ++ l) d = true := by
  induction rs with
  | nil => simp [isLaterMinusEarlier] at h
  | cons a rest ih =>
    simp only [List.cons_append, isLaterMinusEarlier, Bool.or_eq_true, List.any_append] at h ⊢
    rcases h with h | h
    · exact Or.inl (Or.inl h)
    · exact Or.inr (ih h)

/-- a reading appended after `a` was taken, minus `a` -/
theorem cord_lme_snoc (rs : List Int) (a b : Int) (h : a ∈ rs) :
    isLaterMinusEarlier (rs ++ [b]) (b - a) = true := by
  induction rs with
  | nil => cases h
  | cons x rest ih =>
    simp only [List.cons_append, isLaterMinusEarlier, Bool.or_eq_true]
    rcases List.mem_cons.1 h with rfl | h
    · left; simp
    · exact Or.inr (ih h)

/-- the general positional form -/
theorem cord_lme_split (pre mid post : List Int) (a b : Int) :
    isLaterMinusEarlier (pre ++ a :: mid ++ b :: post) (b - a) = true := by
  have h : isLaterMinusEarlier ((pre ++ a :: mid) ++ [b]) (b - a) = true :=
    cord_lme_snoc (pre ++ a :: mid) a b (by simp)
  have := cord_lme_append _ post _ h
  simpa using this

/-! ### ordered provenance -/

def cord_emitOk (rs : List Int) : Emit → Prop
  | .run k _ d => k = .reject ∨ k = .shortCircuit ∨ isLaterMinusEarlier rs d = true
  | .fb k _ d => k = .reject ∨ isLaterMinusEarlier rs d = true
  | .opened _ => True
  | .closed _ => True

def cord_Prov (o : Obs) : Prop := ∀ e ∈ o.emits, cord_emitOk o.readings e

theorem cord_emitOk_mono {rs : List Int} (l : List Int) {e : Emit} (h : cord_emitOk rs e) :
    cord_emitOk (rs ++ l) e := by
  cases e with
  | run k t d =>
    rcases h with h | h | h
    · exact Or.inl h
    · exact Or.inr (Or.inl h)
    · exact Or.inr (Or.inr (cord_lme_append rs l d h))
  | fb k t d =>
    rcases h with h | h
    · exact Or.inl h
    · exact Or.inr (cord_lme_append rs l d h)
  | opened t => trivial
  | closed t => trivial

theorem cord_Prov_init : cord_Prov ({} : Obs) := fun _ h => by cases h

theorem cord_Prov_nil {o : Obs} (h : o.emits = []) : cord_Prov o := fun e he => by
  rw [h] at he; cases he

/-- ordered provenance is exactly what the ordered C12 monitor checks -/
theorem cord_verdict_of_prov {o : Obs} (h : cord_Prov o) : verdictC12o o.emits o.readings = none := by
  simp only [verdictC12o]
  rw [if_neg]
  rw [Bool.not_eq_true, List.any_eq_false]
  intro e he
  have := h e he
  cases e with
  | run k t d =>
    rcases this with h2 | h2 | h2
    · simp [h2]
    · simp [h2]
    · simp [h2]
  | fb k t d =>
    rcases this with h2 | h2
    · simp [h2]
    · simp [h2]
  | opened t => simp
  | closed t => simp

section
variable {σo σc : Type} (O : OpenerI σo) (C : CloserI σc)

/-! ### the step relation -/

/-- from `s` to `s'` readings were only appended (never reordered or dropped) and ordered provenance is kept -/
def cord_Rel (s s' : St σo σc) : Prop :=
  (∃ l, s'.2.readings = s.2.readings ++ l) ∧ (cord_Prov s.2 → cord_Prov s'.2)

theorem cord_Rel_refl (s : St σo σc) : cord_Rel s s := ⟨⟨[], by simp⟩, id⟩

theorem cord_Rel_trans {s s' s'' : St σo σc} (h : cord_Rel s s') (h' : cord_Rel s' s'') : cord_Rel s s'' := by
  obtain ⟨⟨l, hl⟩, p⟩ := h
  obtain ⟨⟨l', hl'⟩, p'⟩ := h'
  exact ⟨⟨l ++ l', by rw [hl', hl, List.append_assoc]⟩, fun x => p' (p x)⟩

theorem cord_Rel_mem {s s' : St σo σc} (h : cord_Rel s s') {t : Int} (ht : t ∈ s.2.readings) :
    t ∈ s'.2.readings := by
  obtain ⟨⟨l, hl⟩, -⟩ := h
  rw [hl]; exact List.mem_append_left _ ht

theorem cord_Rel_lme {s s' : St σo σc} (h : cord_Rel s s') {d : Int}
    (hd : isLaterMinusEarlier s.2.readings d = true) : isLaterMinusEarlier s'.2.readings d = true := by
  obtain ⟨⟨l, hl⟩, -⟩ := h
  rw [hl]; exact cord_lme_append _ l d hd

/-- readings extended by `l`, events by `es`, each new event justified by the readings at the end -/
theorem cord_Rel_intro {s s' : St σo σc} (l : List Int) (es : List Emit)
    (hr : s'.2.readings = s.2.readings ++ l) (he : s'.2.emits = s.2.emits ++ es)
    (ok : ∀ e ∈ es, cord_emitOk s'.2.readings e) : cord_Rel s s' := by
  refine ⟨⟨l, hr⟩, fun p e hm => ?_⟩
  rw [he] at hm
  rcases List.mem_append.1 hm with hm | hm
  · rw [hr]; exact cord_emitOk_mono l (p e hm)
  · exact ok e hm

theorem cord_Rel_of_eq {s s' : St σo σc} (hr : s'.2.readings = s.2.readings) (he : s'.2.emits = s.2.emits) :
    cord_Rel s s' :=
  cord_Rel_intro [] [] (by rw [hr]; simp) (by rw [he]; simp) (fun _ h => by cases h)

theorem cord_Rel_snoc {s s' : St σo σc} (e : Emit) (hr : s'.2.readings = s.2.readings)
    (he : s'.2.emits = s.2.emits ++ [e]) (ok : cord_emitOk s.2.readings e) : cord_Rel s s' :=
  cord_Rel_intro [] [e] (by rw [hr]; simp) he (fun x hx => by
    rw [List.mem_singleton.1 hx, hr]; exact ok)

/-! ### the primitives -/

theorem cord_Rel_now (s : St σo σc) : cord_Rel s (now s).2 :=
  cord_Rel_intro [s.1.clock] [] rfl (by simp [now]) (fun _ h => by cases h)

theorem cord_now_readings (s : St σo σc) : (now s).2.2.readings = s.2.readings ++ [(now s).1] := rfl

theorem cord_now_mem (s : St σo σc) : (now s).1 ∈ (now s).2.2.readings := by simp [now]

theorem cord_Rel_emitRun (s : St σo σc) (k : Kind) (t d : Int)
    (hd : k = .reject ∨ k = .shortCircuit ∨ isLaterMinusEarlier s.2.readings d = true) :
    cord_Rel s (emitRun O C s k t d) :=
  cord_Rel_snoc (.run k t d) rfl rfl hd

theorem cord_Rel_emitFb (s : St σo σc) (k : FbKind) (t d : Int)
    (hd : k = .reject ∨ isLaterMinusEarlier s.2.readings d = true) :
    cord_Rel s (emitFb s k t d) :=
  cord_Rel_snoc (.fb k t d) rfl rfl hd

theorem cord_Rel_openCircuit (s : St σo σc) (t : Int) : cord_Rel s (openCircuit O C s t) := by
  unfold openCircuit
  split
  · exact cord_Rel_refl s
  · split
    · exact cord_Rel_refl s
    · exact cord_Rel_snoc (.opened t) rfl rfl trivial

theorem cord_Rel_attemptToOpen (s : St σo σc) (t : Int) : cord_Rel s (attemptToOpen O C s t) := by
  unfold attemptToOpen
  split
  · exact cord_Rel_refl s
  · split
    · exact cord_Rel_refl s
    · generalize O.shouldOpen s.1.opener t = p
      obtain ⟨o, ans⟩ := p
      cases ans
      · exact cord_Rel_of_eq rfl rfl
      · exact cord_Rel_trans (s' := ({ s.1 with opener := o }, s.2)) (cord_Rel_of_eq rfl rfl)
          (cord_Rel_openCircuit O C ({ s.1 with opener := o }, s.2) t)

theorem cord_Rel_closeCircuit (s : St σo σc) (t : Int) (force : Bool) :
    cord_Rel s (closeCircuit O C s t force) := by
  unfold closeCircuit
  split
  · exact cord_Rel_refl s
  · split
    · exact cord_Rel_refl s
    · have key : ∀ c : σc, cord_Rel s
          ({ s.1 with closer := C.onClosed c t, opener := O.onClosed s.1.opener t, isOpen := false },
            { s.2 with emits := s.2.emits ++ [.closed t] }) := fun c =>
        cord_Rel_snoc (.closed t) rfl rfl trivial
      cases force
      · generalize C.shouldClose s.1.closer t = p
        obtain ⟨c, a⟩ := p
        cases a
        · exact cord_Rel_of_eq rfl rfl
        · exact key c
      · exact key s.1.closer

theorem cord_allowNewRun_obs (s : St σo σc) (t : Int) : (allowNewRun C s t).1.2 = s.2 :=
  (cmid_allowNewRun_frame C s t).2

theorem cord_Rel_allowNewRun (s : St σo σc) (t : Int) : cord_Rel s (allowNewRun C s t).1 := by
  have h := cord_allowNewRun_obs C s t
  exact cord_Rel_of_eq (by rw [h]) (by rw [h])

theorem cord_Rel_ite (b : Prop) [Decidable b] (s x y : St σo σc) (hx : cord_Rel s x) (hy : cord_Rel s y) :
    cord_Rel s (if b then x else y) := by
  split
  · exact hx
  · exact hy

/-! ### the run -/

/-- the classification chain reports `total`, which is already a later reading minus an earlier one -/
theorem cord_Rel_tail (s : St σo σc) (ctx : CallerCtx) (sc : Script) (ret : Option ErrV)
    (start toAtStart doneT total : Int) (ht : isLaterMinusEarlier s.2.readings total = true) :
    cord_Rel s (cmid_tail O C s ctx sc ret start toAtStart doneT total) := by
  have he : ∀ k, cord_Rel s (emitRun O C s k doneT total) := fun k =>
    cord_Rel_emitRun O C s k doneT total (Or.inr (Or.inr ht))
  have ha : ∀ k, cord_Rel s (if (!isOpenEff (emitRun O C s k doneT total).1) = true
      then attemptToOpen O C (emitRun O C s k doneT total) doneT else emitRun O C s k doneT total) := fun k =>
    cord_Rel_ite _ _ _ _ (cord_Rel_trans (he k) (cord_Rel_attemptToOpen O C _ doneT)) (he k)
  unfold cmid_tail
  apply cord_Rel_ite
  · exact he _
  apply cord_Rel_ite
  · exact ha _
  apply cord_Rel_ite
  · exact he _
  apply cord_Rel_ite
  · exact ha _
  apply cord_Rel_ite
  · exact cord_Rel_trans (he _) (cord_Rel_closeCircuit O C _ doneT false)
  · exact he _

/-- `start` was read before the function ran; `endT` is read now, so it is LATER in the list -/
theorem cord_Rel_classifyAt (s : St σo σc) (ctx : CallerCtx) (sc : Script) (ret : Option ErrV)
    (start toAtStart : Int) (hs : start ∈ s.2.readings) :
    cord_Rel s (classifyAt O C s ctx sc ret start toAtStart) := by
  rw [cmid_classifyAt_tail]
  have r1 : cord_Rel s (now s).2 := cord_Rel_now s
  have r2 : cord_Rel (now s).2 (now (now s).2).2 := cord_Rel_now _
  have h1 : isLaterMinusEarlier (now s).2.2.readings ((now s).1 - start) = true := by
    rw [cord_now_readings]
    exact cord_lme_snoc s.2.readings start (now s).1 hs
  exact cord_Rel_trans (cord_Rel_trans r1 r2)
    (cord_Rel_tail O C _ ctx sc ret start toAtStart _ _ (cord_Rel_lme r2 h1))

theorem cord_Rel_classify (s : St σo σc) (ctx : CallerCtx) (sc : Script) (ret : Option ErrV)
    (start : Int) (hs : start ∈ s.2.readings) : cord_Rel s (classify O C s ctx sc ret start) := by
  rw [← cmid_classifyAt_eq]
  exact cord_Rel_classifyAt O C s ctx sc ret start _ hs

theorem cord_Rel_runBody (s : St σo σc) (ctx : CallerCtx) (sc : Script) (start : Int) (mid : Option LiveCfg)
    (hs : start ∈ s.2.readings) : cord_Rel s (cmid_runBody O C s ctx sc start mid).1 := by
  have hi : cord_Rel s (cmid_invoke s ctx sc start mid) := cord_Rel_of_eq rfl rfl
  have hc : cord_Rel s (classifyAt O C (cmid_invoke s ctx sc start mid) ctx sc (actValue sc (ctxErrAfter ctx sc))
      start s.1.cfg.timeout) :=
    cord_Rel_trans hi (cord_Rel_classifyAt O C _ ctx sc _ start _ hs)
  unfold cmid_runBody
  cases sc.act
  · exact cord_Rel_trans hc (cord_Rel_of_eq rfl rfl)
  · exact cord_Rel_trans hc (cord_Rel_of_eq rfl rfl)
  · exact cord_Rel_trans hi (cord_Rel_of_eq rfl rfl)

theorem cord_Rel_runReject (s : St σo σc) (start : Int) : cord_Rel s (cmid_runReject O C s start) := by
  unfold cmid_runReject
  exact cord_Rel_trans (cord_Rel_emitRun O C s .reject start 0 (Or.inl rfl)) (cord_Rel_of_eq rfl rfl)

theorem cord_Rel_runStepMid (s : St σo σc) (ctx : CallerCtx) (run : Option Script) (mid : Option LiveCfg) :
    cord_Rel s (runStepMid O C s ctx run mid).1 := by
  cases run with
  | none => exact cord_Rel_refl s
  | some sc =>
    rw [cmid_runStepMid_some]
    dsimp only
    have r1 : cord_Rel s (now s).2 := cord_Rel_now s
    have m1 : s.1.clock ∈ (now s).2.2.readings := cord_now_mem s
    have r2 : cord_Rel (now s).2 (allowNewRun C (now s).2 s.1.clock).1 := cord_Rel_allowNewRun C _ _
    generalize allowNewRun C (now s).2 s.1.clock = p at r2 ⊢
    obtain ⟨⟨pc, po⟩, pa⟩ := p
    dsimp only at r2 ⊢
    have r : cord_Rel s ((pc, po) : St σo σc) := cord_Rel_trans r1 r2
    have m : s.1.clock ∈ po.readings := cord_Rel_mem r2 m1
    split
    · exact cord_Rel_trans r (cord_Rel_emitRun O C (pc, po) .shortCircuit s.1.clock 0 (Or.inr (Or.inl rfl)))
    · split
      · exact cord_Rel_trans r (cord_Rel_of_eq rfl rfl)
      · generalize (O.prevent pc.opener s.1.clock).1 = o
        have r3 : cord_Rel ((pc, po) : St σo σc) (({ pc with opener := o, conc := pc.conc + 1 }, po) : St σo σc) :=
          cord_Rel_of_eq rfl rfl
        split
        · exact cord_Rel_trans r (cord_Rel_trans r3 (cord_Rel_runReject O C _ s.1.clock))
        · exact cord_Rel_trans r (cord_Rel_trans r3 (cord_Rel_runBody O C _ ctx sc s.1.clock mid m))

theorem cord_Rel_runStep (s : St σo σc) (ctx : CallerCtx) (run : Option Script) :
    cord_Rel s (runStep O C s ctx run).1 := by
  rw [← cmid_runStepMid_none]
  exact cord_Rel_runStepMid O C s ctx run none

/-! ### the fallback -/

theorem cord_Rel_fbReject (s : St σo σc) : cord_Rel s (cmid_fbReject s) := by
  unfold cmid_fbReject
  exact cord_Rel_trans (s' := (now s).2) (cord_Rel_now s)
    (cord_Rel_trans (cord_Rel_emitFb (now s).2 .reject (now s).1 0 (Or.inl rfl)) (cord_Rel_of_eq rfl rfl))

/-- `start` read before the fallback ran, `endT` after it: positions, not values -/
theorem cord_Rel_fbBody (s : St σo σc) (seen : Bool) (ctx : CallerCtx) (runSc : Option Script) (err : ErrV)
    (sc : Script) : cord_Rel s (cmid_fbBody s seen ctx runSc err sc).1 := by
  -- the state in which the fallback returns, and the state after the second reading
  let s1 : St σo σc := ({ (now s).2.1 with clock := (now s).2.1.clock + sc.adv },
    { (now s).2.2 with fbArg := some err, fbSameCtx := true })
  have r1 : cord_Rel s s1 := cord_Rel_trans (cord_Rel_now s) (cord_Rel_of_eq rfl rfl)
  have r2 : cord_Rel s (now s1).2 := cord_Rel_trans r1 (cord_Rel_now s1)
  have hl : isLaterMinusEarlier (now s1).2.2.readings ((now s1).1 - (now s).1) = true := by
    rw [cord_now_readings]
    exact cord_lme_snoc s1.2.readings (now s).1 (now s1).1 (cord_now_mem s)
  have hk : ∀ k, cord_Rel s (emitFb (now s1).2 k (now s).1 ((now s1).1 - (now s).1)) := fun k =>
    cord_Rel_trans r2 (cord_Rel_emitFb _ k _ _ (Or.inr hl))
  unfold cmid_fbBody
  cases hact : sc.act
  · dsimp only
    generalize actValue sc _ = r
    cases r
    · exact cord_Rel_trans (hk .success) (cord_Rel_of_eq rfl rfl)
    · exact cord_Rel_trans (hk .failure) (cord_Rel_of_eq rfl rfl)
  · dsimp only
    generalize actValue sc _ = r
    cases r
    · exact cord_Rel_trans (hk .success) (cord_Rel_of_eq rfl rfl)
    · exact cord_Rel_trans (hk .failure) (cord_Rel_of_eq rfl rfl)
  · exact cord_Rel_trans r1 (cord_Rel_of_eq rfl rfl)

theorem cord_Rel_fallbackStep (s : St σo σc) (ctx : CallerCtx) (runSc : Option Script) (err : ErrV)
    (fb : Option Script) : cord_Rel s (fallbackStep s ctx runSc err fb).1 := by
  cases fb with
  | none => exact cord_Rel_refl s
  | some sc =>
    rw [cmid_fallbackStep_some]
    split
    · exact cord_Rel_refl s
    · split
      · exact cord_Rel_trans (s' := ({ s.1 with concFb := s.1.concFb + 1 }, s.2)) (cord_Rel_of_eq rfl rfl)
          (cord_Rel_fbReject _)
      · exact cord_Rel_trans (s' := ({ s.1 with concFb := s.1.concFb + 1 }, s.2)) (cord_Rel_of_eq rfl rfl)
          (cord_Rel_fbBody _ _ ctx runSc err sc)

/-! ### Execute -/

theorem cord_Rel_execTail (p : St σo σc × Res) (ctx : CallerCtx) (run fb : Option Script) :
    cord_Rel p.1 ((cmid_execTail p ctx run fb).1, (cmid_execTail p ctx run fb).2.1) := by
  obtain ⟨s, r⟩ := p
  unfold cmid_execTail
  cases r with
  | ret e =>
    cases e with
    | none => exact cord_Rel_refl s
    | some e =>
      dsimp only
      split
      · exact cord_Rel_refl s
      · exact cord_Rel_fallbackStep s ctx run e fb
  | panic v => exact cord_Rel_refl s
  | nilFunc => exact cord_Rel_refl s

/-- the pass-through branch delivers no callback -/
theorem cord_executeMid_disabled_emits (c : Circ σo σc) (ctx : CallerCtx) (run fb : Option Script)
    (mid : Option LiveCfg) (h : c.cfg.disabled = true) : (executeMid O C c ctx run fb mid).2.1.emits = [] := by
  unfold executeMid
  rw [if_pos h]
  cases run with
  | none => rfl
  | some sc =>
    dsimp only
    cases sc.act <;> rfl

theorem cord_executeMid_prov (c : Circ σo σc) (ctx : CallerCtx) (run fb : Option Script) (mid : Option LiveCfg) :
    cord_Prov (executeMid O C c ctx run fb mid).2.1 := by
  cases h : c.cfg.disabled with
  | true => exact cord_Prov_nil (cord_executeMid_disabled_emits O C c ctx run fb mid h)
  | false =>
    rw [cmid_executeMid_enabled O C c ctx run fb mid h]
    have r1 := cord_Rel_runStepMid O C ((c, {}) : St σo σc) ctx run mid
    have r2 := cord_Rel_execTail (runStepMid O C (c, {}) ctx run mid) ctx run fb
    exact (cord_Rel_trans r1 r2).2 cord_Prov_init

theorem cord_execute_prov (c : Circ σo σc) (ctx : CallerCtx) (run fb : Option Script) :
    cord_Prov (execute O C c ctx run fb).2.1 := by
  rw [← cmid_executeMid_none]
  exact cord_executeMid_prov O C c ctx run fb none

end
end CM

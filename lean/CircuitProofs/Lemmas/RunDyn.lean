/-
  Lemmas/RunDyn.lean — invariants of whole calls racing live reconfiguration (CircuitModel/Conc/RunDyn.lean), used by
  Props/RunDynAll.lean.
    * `rd_step_call` / `rd_step_op`: a call thread's step IS `Run.step`; an operator's stores touch neither the events,
      nor the gauge, nor the log / state flag / mutex;
    * `rd_EInv`: the per-thread event invariant of Lemmas/RunEvents, with operators silent;
    * `rd_GInv`: gauge = number of call threads holding a bulkhead slot (independent of the limit);
    * `rd_TInv`: Lemmas/TransDyn's invariant (alternation, mutual exclusion, flag = last notification when the mutex is
      free) for the transitions embedded in `Run.step`; progress.
-/
import CircuitModel.Conc.RunDyn
import CircuitProofs.Lemmas.RunEvents
import CircuitProofs.Lemmas.TransDyn
import CircuitProofs.Lemmas.Conc
namespace CM.Lemmas.RunDynL
open CM.Conc CM.Lemmas.RunEvents

/-! ### one step -/

theorem rd_step_call (tid : Nat) (s : Run.Shared) (l : Run.Local) (s' : Run.Shared) (l' : RunDyn.Local)
    (h : RunDyn.step tid s (.call l) = some (s', l')) : ∃ m, l' = .call m ∧ Run.step tid s l = some (s', m) := by
  simp only [RunDyn.step, Option.map_eq_some_iff] at h
  obtain ⟨⟨a, b⟩, hab, he⟩ := h
  simp only [Prod.mk.injEq] at he
  obtain ⟨rfl, rfl⟩ := he
  exact ⟨b, rfl, hab⟩

/-- an operator's store touches only ForcedClosed, ForceOpen or the limit -/
theorem rd_step_op (tid : Nat) (s : Run.Shared) (fo fc : Bool) (m : Int) (k : Nat) (s' : Run.Shared) (l' : RunDyn.Local)
    (h : RunDyn.step tid s (.op fo fc m k) = some (s', l')) :
    s'.events = s.events ∧ s'.gauge = s.gauge ∧ s'.t.log = s.t.log ∧ s'.t.isOpen = s.t.isOpen ∧
      s'.t.holder = s.t.holder ∧ ∃ k', l' = .op fo fc m k' := by
  match k, h with
  | 0, h =>
    simp only [RunDyn.step, Option.some.injEq, Prod.mk.injEq] at h
    obtain ⟨rfl, rfl⟩ := h
    exact ⟨rfl, rfl, rfl, rfl, rfl, _, rfl⟩
  | 1, h =>
    simp only [RunDyn.step, Option.some.injEq, Prod.mk.injEq] at h
    obtain ⟨rfl, rfl⟩ := h
    exact ⟨rfl, rfl, rfl, rfl, rfl, _, rfl⟩
  | 2, h =>
    simp only [RunDyn.step, Option.some.injEq, Prod.mk.injEq] at h
    obtain ⟨rfl, rfl⟩ := h
    exact ⟨rfl, rfl, rfl, rfl, rfl, _, rfl⟩
  | (_ + 3), h => simp [RunDyn.step] at h

theorem rd_step_op_isSome (tid : Nat) (s : Run.Shared) (fo fc : Bool) (m : Int) (k : Nat) (hk : k < 3) :
    (RunDyn.step tid s (.op fo fc m k)).isSome = true := by
  match k, hk with
  | 0, _ => simp [RunDyn.step]
  | 1, _ => simp [RunDyn.step]
  | 2, _ => simp [RunDyn.step]

/-! ### events -/

theorem rd_eventsOf (c : Config Run.Shared RunDyn.Local) (i : Nat) :
    RunDyn.eventsOf c i = (re_evs i c.shared.events).filter fun e => e != .invoked && e != .vetoed :=
  re_runEventsOf { shared := c.shared, locals := [] } i

theorem rd_invokedCount (c : Config Run.Shared RunDyn.Local) (i : Nat) :
    RunDyn.invokedCount c i = ((re_evs i c.shared.events).filter fun e => e == .invoked).length :=
  re_invokedCount { shared := c.shared, locals := [] } i

/-- what thread `i`'s own events are, given what it is -/
def rd_okL (jobs : List RunDyn.Job) (i : Nat) (evs : List Run.Ev) : Option RunDyn.Local → Prop
  | some (.call l) => jobs[i]? = some (.run l.job) ∧ re_ok l.job l.pc evs
  | some (.op fo fc m _) => jobs[i]? = some (.reconfigure fo fc m) ∧ evs = []
  | none => evs = []

def rd_EInv (jobs : List RunDyn.Job) (c : Config Run.Shared RunDyn.Local) : Prop :=
  ∀ i, rd_okL jobs i (re_evs i c.shared.events) c.locals[i]?

theorem rd_EInv_init (fo fc io : Bool) (m : Int) (jobs : List RunDyn.Job) : rd_EInv jobs (RunDyn.init fo fc io m jobs) := by
  intro i
  simp only [RunDyn.init, List.getElem?_map]
  cases hj : jobs[i]? with
  | none => simp [rd_okL, re_evs]
  | some j =>
    cases j with
    | run j => cases j <;> simp [RunDyn.startLocal, rd_okL, Run.startPc, re_ok, re_callOk, re_manualOk, re_evs, hj]
    | reconfigure a b k => simp [RunDyn.startLocal, rd_okL, re_evs, hj]

theorem rd_EInv_step (jobs : List RunDyn.Job) (c : Config Run.Shared RunDyn.Local) (i : Nat) (l : RunDyn.Local)
    (s' : Run.Shared) (l' : RunDyn.Local) (h : rd_EInv jobs c) (hl : c.locals[i]? = some l)
    (hs : RunDyn.step i c.shared l = some (s', l')) : rd_EInv jobs { shared := s', locals := c.locals.set i l' } := by
  have hilt := Call.ccall_lt_of_getElem? hl
  intro j
  have hj := h j
  simp only
  cases l with
  | call l =>
    obtain ⟨m, rfl, hs'⟩ := rd_step_call i _ l s' l' hs
    clear hs
    have hs := hs'
    by_cases hji : j = i
    · subst hji
      simp only [List.getElem?_set_self hilt]
      rw [hl] at hj
      simp only [rd_okL] at hj ⊢
      exact ⟨by rw [(re_step_events j _ _ _ _ hs).1]; exact hj.1, re_step_self j _ _ _ _ hs hj.2⟩
    · simp only [List.getElem?_set_ne (fun e => hji e.symm)]
      rw [re_step_other i j _ _ _ _ hs (fun e => hji e.symm)]
      exact hj
  | op fo fc m k =>
    obtain ⟨he, _, _, _, _, k', rfl⟩ := rd_step_op i _ fo fc m k s' l' hs
    rw [he]
    by_cases hji : j = i
    · subst hji
      simp only [List.getElem?_set_self hilt]
      rw [hl] at hj
      simp only [rd_okL] at hj ⊢
      exact hj
    · simp only [List.getElem?_set_ne (fun e => hji e.symm)]
      exact hj

theorem rd_EInv_run (fo fc io : Bool) (m : Int) (jobs : List RunDyn.Job) (sched : List Nat) :
    rd_EInv jobs (run RunDyn.sys (RunDyn.init fo fc io m jobs) sched) :=
  CM.Props.C04.inv_all_schedules RunDyn.sys (rd_EInv jobs)
    (fun c i l s' l' hc hl hs => rd_EInv_step jobs c i l s' l' hc hl hs) sched _ (rd_EInv_init fo fc io m jobs)

theorem rd_resultOf {c : Config Run.Shared RunDyn.Local} {i : Nat} {r : Run.Res} (h : RunDyn.resultOf c i = some r) :
    ∃ l, c.locals[i]? = some (.call l) ∧ l.pc = .done r := by
  simp only [RunDyn.resultOf] at h
  split at h
  · rename_i job r' sw hl
    simp only [Option.some.injEq] at h
    subst h
    exact ⟨_, hl, rfl⟩
  · cases h

theorem rd_exact (jobs : List RunDyn.Job) (c : Config Run.Shared RunDyn.Local) (h : rd_EInv jobs c) (i : Nat)
    (sc : Run.Script) (r : Run.Res) (hj : jobs[i]? = some (.run (.call sc))) (hr : RunDyn.resultOf c i = some r) :
    re_expected sc r (RunDyn.eventsOf c i) ∧
    RunDyn.invokedCount c i = (match (generalizing := false) r with | .ran _ | .panicked => 1 | _ => 0) := by
  obtain ⟨l, hl, hpc⟩ := rd_resultOf hr
  have hi := h i
  rw [hl] at hi
  obtain ⟨job, pc, sw⟩ := l
  simp only [rd_okL] at hpc hi
  subst hpc
  obtain ⟨hjob, hok⟩ := hi
  rw [hj] at hjob
  simp only [Option.some.injEq, RunDyn.Job.run.injEq] at hjob
  subst hjob
  rw [rd_eventsOf, rd_invokedCount]
  simp only [re_ok, re_callOk] at hok
  clear hr hl
  cases r with
  | shed =>
    rcases hok with hok | ⟨hok, hp⟩
    · rw [hok]; simp [re_expected]
    · rw [hok]; simp [re_expected, hp]
  | rejected => rw [hok]; simp [re_expected]
  | ran k =>
    obtain ⟨hok, hk, hp⟩ := hok
    rw [hok]
    simp [re_expected, ← hk, hp]
  | panicked =>
    obtain ⟨hok, hp⟩ := hok
    rw [hok]
    simp [re_expected, hp]
  | manual => exact hok.elim

theorem rd_shapes (jobs : List RunDyn.Job) (c : Config Run.Shared RunDyn.Local) (h : rd_EInv jobs c) (i : Nat) :
    re_evs i c.shared.events = [] ∨ re_evs i c.shared.events = [.invoked] ∨
      (∃ k, re_evs i c.shared.events = [.invoked, .ran k]) ∨ re_evs i c.shared.events = [.reject] ∨
      re_evs i c.shared.events = [.shortCircuit] ∨ re_evs i c.shared.events = [.vetoed] := by
  have hi := h i
  cases hl : c.locals[i]? with
  | none => rw [hl] at hi; exact Or.inl hi
  | some l =>
    rw [hl] at hi
    cases l with
    | call l => exact re_ok_shapes _ _ _ hi.2
    | op fo fc m k => exact Or.inl hi.2

theorem rd_at_most_one (jobs : List RunDyn.Job) (c : Config Run.Shared RunDyn.Local) (h : rd_EInv jobs c) (i : Nat) :
    (RunDyn.eventsOf c i).length ≤ 1 ∧ RunDyn.invokedCount c i ≤ 1 := by
  rw [rd_eventsOf, rd_invokedCount]
  rcases rd_shapes jobs c h i with e | e | ⟨k, e⟩ | e | e | e <;> rw [e] <;> simp

theorem rd_silent (jobs : List RunDyn.Job) (c : Config Run.Shared RunDyn.Local) (h : rd_EInv jobs c) (i : Nat)
    (hj : (∃ a b k, jobs[i]? = some (.reconfigure a b k)) ∨ jobs[i]? = some (.run .open) ∨ jobs[i]? = some (.run .close)) :
    RunDyn.eventsOf c i = [] ∧ RunDyn.invokedCount c i = 0 := by
  rw [rd_eventsOf, rd_invokedCount]
  have hi := h i
  have he : re_evs i c.shared.events = [] := by
    cases hl : c.locals[i]? with
    | none => rw [hl] at hi; exact hi
    | some l =>
      rw [hl] at hi
      cases l with
      | op fo fc m k => exact hi.2
      | call l =>
        obtain ⟨job, pc, sw⟩ := l
        obtain ⟨hjob, hok⟩ := hi
        simp only at hjob hok
        rcases hj with ⟨a, b, k, hj⟩ | hj | hj <;> rw [hj] at hjob <;>
          simp only [Option.some.injEq, RunDyn.Job.run.injEq, reduceCtorEq] at hjob <;> subst hjob <;> exact hok.1
  rw [he]; exact ⟨rfl, rfl⟩

/-! ### the gauge counts the calls that hold a slot -/

/-- between `Add(1)` and the deferred `Add(-1)` -/
def rd_holds : Run.Pc → Bool
  | .loadLimit _ | .deliverReject | .invoke | .classify | .deliver _ | .pFO _ | .pFC _ | .pFlag _
  | .oFC _ | .oFO _ | .oFC2 _ | .oFlag _ | .askShouldOpen _ | .gaugeDec _ => true
  | .trans _ after => (match after with | .manual => false | _ => true)
  | _ => false

def rd_w (pc : Run.Pc) : Int := if rd_holds pc then 1 else 0

def rd_wL : RunDyn.Local → Int
  | .call l => rd_w l.pc
  | .op .. => 0

def rd_cnt : List RunDyn.Local → Int
  | [] => 0
  | l :: r => rd_wL l + rd_cnt r

theorem rd_w_nonneg (pc : Run.Pc) : 0 ≤ rd_w pc := by
  unfold rd_w; split <;> decide

theorem rd_wL_nonneg (l : RunDyn.Local) : 0 ≤ rd_wL l := by
  cases l with
  | call l => exact rd_w_nonneg _
  | op => exact Int.le_refl 0

theorem rd_cnt_nonneg (ls : List RunDyn.Local) : 0 ≤ rd_cnt ls := by
  induction ls with
  | nil => exact Int.le_refl 0
  | cons a r ih => have := rd_wL_nonneg a; simp only [rd_cnt]; omega

theorem rd_cnt_set (ls : List RunDyn.Local) (i : Nat) (a b : RunDyn.Local) (h : ls[i]? = some a) :
    rd_cnt (ls.set i b) = rd_cnt ls - rd_wL a + rd_wL b := by
  induction ls generalizing i with
  | nil => simp at h
  | cons x r ih =>
    cases i with
    | zero =>
      simp only [List.getElem?_cons_zero, Option.some.injEq] at h
      subst h
      simp only [List.set_cons_zero, rd_cnt]; omega
    | succ n =>
      simp only [List.getElem?_cons_succ] at h
      simp only [List.set_cons_succ, rd_cnt, ih n h]; omega

theorem rd_step_gauge (i : Nat) (s s' : Run.Shared) (l l' : Run.Local) (h : Run.step i s l = some (s', l')) :
    s'.gauge = s.gauge - rd_w l.pc + rd_w l'.pc := by
  by_cases hpc : ∃ tl after, l.pc = .trans tl after
  · obtain ⟨tl, after, hpc⟩ := hpc
    rcases re_step_trans i s s' l l' tl after hpc h with ⟨_, rfl, rfl⟩ | ⟨_, t', tl', _, rfl, rfl⟩
    · rw [hpc]; cases after <;> simp [rd_w, rd_holds, re_fin]
    · rw [hpc]
      by_cases hd : tl'.pc = .done
      · cases after <;> simp [rd_w, rd_holds, re_fin, hd]
      · cases after <;> simp [rd_w, rd_holds, hd]
  · obtain ⟨job, pc, sw⟩ := l
    cases pc <;> simp only [Run.step] at h
    all_goals (try split at h)
    all_goals (try split at h)
    all_goals (try simp only [Option.some.injEq, Prod.mk.injEq, reduceCtorEq] at h)
    all_goals (try (obtain ⟨rfl, rfl⟩ := h))
    all_goals (try (exact absurd ⟨_, _, rfl⟩ hpc))
    all_goals (try split)
    all_goals (simp [rd_w, rd_holds] <;> omega)

def rd_GInv (c : Config Run.Shared RunDyn.Local) : Prop := c.shared.gauge = rd_cnt c.locals

theorem rd_GInv_init (fo fc io : Bool) (m : Int) (jobs : List RunDyn.Job) : rd_GInv (RunDyn.init fo fc io m jobs) := by
  simp only [rd_GInv, RunDyn.init]
  induction jobs with
  | nil => rfl
  | cons j r ih =>
    simp only [List.map_cons, rd_cnt, ← ih]
    cases j with
    | run j => cases j <;> simp [RunDyn.startLocal, rd_wL, rd_w, rd_holds, Run.startPc]
    | reconfigure a b k => simp [RunDyn.startLocal, rd_wL]

theorem rd_GInv_step (c : Config Run.Shared RunDyn.Local) (i : Nat) (l : RunDyn.Local)
    (s' : Run.Shared) (l' : RunDyn.Local) (h : rd_GInv c) (hl : c.locals[i]? = some l)
    (hs : RunDyn.step i c.shared l = some (s', l')) : rd_GInv { shared := s', locals := c.locals.set i l' } := by
  simp only [rd_GInv] at h ⊢
  rw [rd_cnt_set _ i l l' hl, ← h]
  cases l with
  | call l =>
    obtain ⟨m, rfl, hs'⟩ := rd_step_call i _ l s' l' hs
    simp only [rd_wL]
    exact rd_step_gauge i _ _ _ _ hs'
  | op fo fc m k =>
    obtain ⟨_, hg, _, _, _, k', rfl⟩ := rd_step_op i _ fo fc m k s' l' hs
    simp only [rd_wL, hg]; omega

theorem rd_GInv_run (fo fc io : Bool) (m : Int) (jobs : List RunDyn.Job) (sched : List Nat) :
    rd_GInv (run RunDyn.sys (RunDyn.init fo fc io m jobs) sched) :=
  CM.Props.C04.inv_all_schedules RunDyn.sys rd_GInv
    (fun c i l s' l' hc hl hs => rd_GInv_step c i l s' l' hc hl hs) sched _ (rd_GInv_init fo fc io m jobs)

theorem rd_cnt_allDone (ls : List RunDyn.Local)
    (h : (ls.all fun l => match l with
      | .call l => (match l.pc with | .done _ => true | _ => false) | .op _ _ _ k => decide (3 ≤ k)) = true) :
    rd_cnt ls = 0 := by
  induction ls with
  | nil => rfl
  | cons a r ih =>
    simp only [List.all_cons, Bool.and_eq_true] at h
    simp only [rd_cnt, ih h.2]
    cases a with
    | op => simp [rd_wL]
    | call l =>
      obtain ⟨job, pc, sw⟩ := l
      have h1 := h.1
      cases pc <;> simp at h1
      simp [rd_wL, rd_w, rd_holds]

/-! ### the embedded transitions (alternation, mutual exclusion) and progress -/

/-- a step outside the transition enters one, if at all, at its start -/
theorem rd_step_plain_start (i : Nat) (s s' : Run.Shared) (l l' : Run.Local) (hpc : ∀ tl after, l.pc ≠ .trans tl after)
    (h : Run.step i s l = some (s', l')) (tl' : Trans.Local) (after' : Run.Res) (hn : l'.pc = .trans tl' after') :
    tl'.pc = .start := by
  obtain ⟨job, pc, sw⟩ := l
  cases pc <;> simp only [Run.step] at h
  all_goals (try split at h)
  all_goals (try split at h)
  all_goals (try simp only [Option.some.injEq, Prod.mk.injEq, reduceCtorEq] at h)
  all_goals (try (obtain ⟨rfl, rfl⟩ := h))
  all_goals (try (exact absurd rfl (hpc _ _)))
  all_goals (try split at hn)
  all_goals (try simp only [reduceCtorEq] at hn)
  all_goals (simp only [Run.Pc.trans.injEq] at hn; obtain ⟨rfl, _⟩ := hn; rfl)

open CM.Conc.TransDyn in
structure rd_TInv (io : Bool) (c : Config Run.Shared RunDyn.Local) : Prop where
  alt : Trans.alternates io c.shared.t.log = true
  /-- mutual exclusion: a call inside a transition that does not hold the mutex is still waiting for it -/
  idle : ∀ j l tl after, c.locals[j]? = some (.call l) → l.pc = .trans tl after → c.shared.t.holder ≠ some j →
    tl.pc = .start
  /-- the holder is a call thread inside its transition, and knows `td_Good` -/
  held : ∀ i, c.shared.t.holder = some i →
    ∃ l tl after, c.locals[i]? = some (.call l) ∧ l.pc = .trans tl after ∧ td_Good io c.shared.t tl
  free : c.shared.t.holder = none → c.shared.t.isOpen = Trans.lastN io c.shared.t

open CM.Conc.TransDyn in
theorem rd_Good_not_done (io : Bool) (t : Trans.Shared) (tl : Trans.Local) (hg : td_Good io t tl) :
    tl.pc ≠ .start ∧ tl.pc ≠ .done := by
  obtain ⟨job, pc⟩ := tl
  cases pc <;> cases job <;> simp_all [td_Good]

theorem rd_TInv_init (fo fc io : Bool) (m : Int) (jobs : List RunDyn.Job) : rd_TInv io (RunDyn.init fo fc io m jobs) := by
  refine ⟨rfl, ?_, ?_, ?_⟩
  · intro j l tl after hl hpc _
    simp only [RunDyn.init, List.getElem?_map, Option.map_eq_some_iff] at hl
    obtain ⟨a, _, ha⟩ := hl
    cases a with
    | run j' =>
      simp only [RunDyn.startLocal, RunDyn.Local.call.injEq] at ha
      subst ha
      cases j' <;> simp only [Run.startPc, reduceCtorEq, Run.Pc.trans.injEq] at hpc <;> obtain ⟨rfl, _⟩ := hpc <;> rfl
    | reconfigure a b k => simp [RunDyn.startLocal] at ha
  · intro i hi; simp [RunDyn.init] at hi
  · intro _; simp [RunDyn.init, Trans.lastN]

open CM.Conc.TransDyn in
theorem rd_TInv_step (io : Bool) (c : Config Run.Shared RunDyn.Local) (i : Nat) (l : RunDyn.Local) (s' : Run.Shared)
    (l' : RunDyn.Local) (I : rd_TInv io c) (hl : c.locals[i]? = some l) (hs : RunDyn.step i c.shared l = some (s', l')) :
    rd_TInv io { shared := s', locals := c.locals.set i l' } := by
  have hi : i < c.locals.length := (List.getElem?_eq_some_iff.1 hl).1
  cases l with
  | op fo fc m k =>
    obtain ⟨_, _, h1, h2, h3, k', rfl⟩ := rd_step_op i _ fo fc m k s' l' hs
    refine ⟨by simpa only [h1] using I.alt, ?_, ?_, ?_⟩
    · intro j lj tl after hj hpc hne
      by_cases hij : i = j
      · subst hij
        simp [List.getElem?_set_self hi] at hj
      · simp only [List.getElem?_set_ne hij] at hj
        exact I.idle j lj tl after hj hpc (by simpa only [h3] using hne)
    · intro k hk
      simp only [h3] at hk
      obtain ⟨lk, tl, after, hlk, hpc, hg⟩ := I.held k hk
      have hik : i ≠ k := by intro e; subst e; rw [hl] at hlk; cases hlk
      exact ⟨lk, tl, after, by simpa only [List.getElem?_set_ne hik] using hlk, hpc, td_Good_congr io _ _ tl h2 h1 hg⟩
    · intro hn
      simp only [h3] at hn
      simpa only [Trans.lastN, h1, h2] using I.free hn
  | call l =>
    obtain ⟨m, rfl, hs'⟩ := rd_step_call i _ l s' l' hs
    clear hs
    by_cases hpc : ∃ tl after, l.pc = .trans tl after
    · obtain ⟨tl, after, hpc⟩ := hpc
      rcases re_step_trans i _ s' l m tl after hpc hs' with ⟨hd, rfl, rfl⟩ | ⟨hd, t', tl', ht, rfl, rfl⟩
      · -- a finished transition is never stored in the program counter
        exfalso
        by_cases hh : c.shared.t.holder = some i
        · obtain ⟨lh, tlh, ah, hlh, hph, hg⟩ := I.held i hh
          rw [hl] at hlh; cases hlh
          rw [hpc] at hph; cases hph
          exact (rd_Good_not_done io _ _ hg).2 hd
        · have := I.idle i l tl after hl hpc hh
          rw [hd] at this; cases this
      · cases hh : c.shared.t.holder with
        | none =>
          have hst := I.idle i l tl after hl hpc (by simp [hh])
          obtain ⟨_, rfl, hg⟩ := td_step_start io i _ _ _ _ hst ht
          have hg' := hg (I.free hh)
          have hnd := (rd_Good_not_done io _ _ hg').2
          refine ⟨I.alt, ?_, ?_, ?_⟩
          · intro j lj tlj aj hj hpj hne
            have hij : i ≠ j := by intro e; subst e; simp at hne
            simp only [List.getElem?_set_ne hij] at hj
            exact I.idle j lj tlj aj hj hpj (by simp [hh])
          · intro k hk
            simp only [Option.some.injEq] at hk
            subst hk
            exact ⟨{ l with pc := .trans tl' after }, tl', after, by simp [hi, hnd], rfl, hg'⟩
          · intro h; simp at h
        | some h =>
          by_cases e : i = h
          · subst e
            obtain ⟨lh, tlh, ah, hlh, hph, hg⟩ := I.held i hh
            rw [hl] at hlh; cases hlh
            rw [hpc] at hph; cases hph
            obtain ⟨h3, h4⟩ := td_step_holder io i _ _ _ _ I.alt hg ht
            rcases h4 with ⟨h5, h6⟩ | ⟨h5, h6, h7⟩
            · have hnd := (rd_Good_not_done io _ _ h6).2
              refine ⟨h3, ?_, ?_, ?_⟩
              · intro j lj tlj aj hj hpj hne
                have hij : i ≠ j := by intro e; subst e; simp [h5, hh] at hne
                simp only [List.getElem?_set_ne hij] at hj
                exact I.idle j lj tlj aj hj hpj (by simp [hh, hij])
              · intro k hk
                simp only [h5, hh, Option.some.injEq] at hk
                subst hk
                exact ⟨{ l with pc := .trans tl' after }, tl', after, by simp [hi, hnd], rfl, h6⟩
              · intro hn; simp [h5, hh] at hn
            · refine ⟨h3, ?_, ?_, ?_⟩
              · intro j lj tlj aj hj hpj _
                by_cases hij : i = j
                · subst hij
                  simp only [List.getElem?_set_self hi, Option.some.injEq, RunDyn.Local.call.injEq] at hj
                  subst hj
                  simp only [h6, beq_self_eq_true, if_true] at hpj
                  cases after <;> simp [re_fin] at hpj
                · simp only [List.getElem?_set_ne hij] at hj
                  exact I.idle j lj tlj aj hj hpj (by simp [hh, hij])
              · intro k hk; simp [h5] at hk
              · intro _; exact h7
          · have hst := I.idle i l tl after hl hpc (by simp [hh]; exact fun e' => e e'.symm)
            rw [Trans.step_idle i _ tl (Or.inl hst) (by simp [hh])] at ht; cases ht
    · have hpc' : ∀ tl after, l.pc ≠ .trans tl after := fun tl after e => hpc ⟨tl, after, e⟩
      have hp := re_step_plain i _ s' l m hpc' hs'
      have hnh : c.shared.t.holder ≠ some i := by
        intro hh
        obtain ⟨lh, tlh, ah, hlh, hph, _⟩ := I.held i hh
        rw [hl] at hlh; cases hlh
        exact hpc' _ _ hph
      refine ⟨by simpa only [hp.1] using I.alt, ?_, ?_, ?_⟩
      · intro j lj tlj aj hj hpj hne
        by_cases hij : i = j
        · subst hij
          simp only [List.getElem?_set_self hi, Option.some.injEq, RunDyn.Local.call.injEq] at hj
          subst hj
          exact rd_step_plain_start i _ s' l _ hpc' hs' tlj aj hpj
        · simp only [List.getElem?_set_ne hij] at hj
          exact I.idle j lj tlj aj hj hpj (by simpa only [hp.1] using hne)
      · intro k hk
        simp only [hp.1] at hk
        obtain ⟨lk, tlk, ak, hlk, hpk, hg⟩ := I.held k hk
        have hik : i ≠ k := by intro e; subst e; exact hnh hk
        refine ⟨lk, tlk, ak, by simpa only [List.getElem?_set_ne hik] using hlk, hpk, ?_⟩
        simpa only [hp.1] using hg
      · intro hn
        simp only [hp.1] at hn
        simpa only [hp.1] using I.free hn

theorem rd_TInv_run (fo fc io : Bool) (m : Int) (jobs : List RunDyn.Job) (sched : List Nat) :
    rd_TInv io (run RunDyn.sys (RunDyn.init fo fc io m jobs) sched) :=
  CM.Props.C04.inv_all_schedules RunDyn.sys (rd_TInv io)
    (fun c i l s' l' hc hl hs => rd_TInv_step io c i l s' l' hc hl hs) sched _ (rd_TInv_init fo fc io m jobs)

open CM.Conc.TransDyn in
theorem rd_progress (io : Bool) (c : Config Run.Shared RunDyn.Local) (I : rd_TInv io c) (hnd : RunDyn.allDone c = false) :
    ∃ i l, c.locals[i]? = some l ∧ (RunDyn.step i c.shared l).isSome = true := by
  cases hh : c.shared.t.holder with
  | some h =>
    obtain ⟨l, tl, after, hl, hpc, hg⟩ := I.held h hh
    refine ⟨h, .call l, hl, ?_⟩
    have h1 := td_step_good_isSome io h _ tl hg
    have h2 := re_step_trans_isSome h c.shared l tl after hpc (Or.inr h1)
    simpa [RunDyn.step] using h2
  | none =>
    simp only [RunDyn.allDone, List.all_eq_false] at hnd
    obtain ⟨l, hm, hpc⟩ := hnd
    obtain ⟨i, hl⟩ := List.mem_iff_getElem?.mp hm
    refine ⟨i, l, hl, ?_⟩
    cases l with
    | op fo fc m k =>
      have hk : k < 3 := by simpa using hpc
      exact rd_step_op_isSome i _ fo fc m k hk
    | call l =>
      cases hs : Run.step i c.shared l with
      | some x => simp [RunDyn.step, hs]
      | none =>
        rcases re_step_none i _ l hs with ⟨r, hd⟩ | ⟨k, hk⟩
        · simp [hd] at hpc
        · rw [hh] at hk; cases hk

/-! ### in flight ≤ the largest limit ever in force (the static bulkhead invariant `GInv`, read at the largest limit) -/

/-- the Conc/Gauge phase of a program counter (no well-formedness needed: what a finished call projects to is immaterial) -/
def rd_gl : Run.Pc → Gauge.Local
  | .loadLimit obs => .incd obs
  | .deliverReject => .rejecting
  | .invoke => .running
  | .classify | .deliver _ | .pFO _ | .pFC _ | .pFlag _ | .oFC _ | .oFO _ | .oFC2 _ | .oFlag _ | .askShouldOpen _ => .leaving
  | .trans _ after => (match after with | .manual => .idle | .rejected => .rejecting | _ => .leaving)
  | .gaugeDec r => (match r with | .rejected => .rejecting | _ => .leaving)
  | .done _ => .finished true
  | _ => .idle

def rd_glL : RunDyn.Local → Gauge.Local
  | .call l => rd_gl l.pc
  | .op .. => .idle

/-- a step that is purely local as far as the bulkhead is concerned -/
def rd_same (a b : Gauge.Local) : Prop :=
  inRegion b = inRegion a ∧ inside b = inside a ∧ ∀ (m : Int) (e : Gauge.Entry), Match m e a → Match m e b

theorem rd_same_refl (a : Gauge.Local) : rd_same a a := ⟨rfl, rfl, fun _ _ h => h⟩

/-- what one step of a call does to the bulkhead -/
theorem rd_step_gl (i : Nat) (s s' : Run.Shared) (l l' : Run.Local) (h : Run.step i s l = some (s', l')) :
    s'.limit = s.limit ∧
    ((l.pc = .gaugeAdd ∧ s'.gauge = s.gauge + 1 ∧
        s'.region = s.region ++ [{ tid := i, obs := s.gauge + 1, running := false }] ∧ l'.pc = .loadLimit (s.gauge + 1)) ∨
     (∃ obs, l.pc = .loadLimit obs ∧ ¬ (s.limit ≥ 0 ∧ obs > s.limit) ∧ s'.gauge = s.gauge ∧
        s'.region = (s.region.map fun e => if e.tid = i then { e with running := true } else e) ∧ l'.pc = .invoke) ∨
     (∃ r, l.pc = .gaugeDec r ∧ s'.gauge = s.gauge - 1 ∧ s'.region = s.region.filter (·.tid ≠ i) ∧ l'.pc = .done r) ∨
     (s'.gauge = s.gauge ∧ s'.region = s.region ∧ rd_same (rd_gl l.pc) (rd_gl l'.pc))) := by
  by_cases hpc : ∃ tl after, l.pc = .trans tl after
  · obtain ⟨tl, after, hpc⟩ := hpc
    refine ⟨?_, Or.inr (Or.inr (Or.inr ?_))⟩
    · rcases re_step_trans i s s' l l' tl after hpc h with ⟨_, rfl, rfl⟩ | ⟨_, t', tl', _, rfl, rfl⟩ <;> rfl
    · rcases re_step_trans i s s' l l' tl after hpc h with ⟨_, rfl, rfl⟩ | ⟨_, t', tl', _, rfl, rfl⟩
      · rw [hpc]; cases after <;> simp [rd_gl, rd_same, re_fin, inRegion, inside, Match]
      · rw [hpc]
        by_cases hd : tl'.pc = .done
        · cases after <;> simp [rd_gl, rd_same, re_fin, inRegion, inside, Match, hd]
        · cases after <;> simp [rd_gl, rd_same, inRegion, inside, Match, hd]
  · obtain ⟨job, pc, sw⟩ := l
    cases pc <;> simp only [Run.step] at h
    all_goals (try split at h)
    all_goals (try split at h)
    all_goals (try simp only [Option.some.injEq, Prod.mk.injEq, reduceCtorEq] at h)
    all_goals (try (obtain ⟨rfl, rfl⟩ := h))
    all_goals (try (exact absurd ⟨_, _, rfl⟩ hpc))
    all_goals refine ⟨rfl, ?_⟩
    all_goals first
      | exact Or.inl ⟨rfl, rfl, rfl, rfl⟩
      | exact Or.inr (Or.inl ⟨_, rfl, ‹_›, rfl, rfl, rfl⟩)
      | exact Or.inr (Or.inr (Or.inl ⟨_, rfl, rfl, rfl, rfl⟩))
      | (refine Or.inr (Or.inr (Or.inr ⟨rfl, rfl, ?_⟩))
         first
           | (simp [rd_same, rd_gl, inRegion, inside, Match]; done)
           | (split <;> simp [rd_same, rd_gl, inRegion, inside, Match]; done))

/-- the largest limit any operator of the job list installs, or the initial one -/
def rd_largest (m : Int) (jobs : List RunDyn.Job) : Int :=
  jobs.foldl (fun acc j => match j with | .reconfigure _ _ k => max acc k | _ => acc) m

theorem rd_largest_ge (m : Int) (jobs : List RunDyn.Job) : m ≤ rd_largest m jobs := by
  induction jobs generalizing m with
  | nil => exact Int.le_refl m
  | cons j r ih =>
    simp only [rd_largest, List.foldl_cons]
    cases j with
    | run j => exact ih m
    | reconfigure a b k => exact Int.le_trans (Int.le_max_left m k) (ih (max m k))

theorem rd_largest_mem (m : Int) (jobs : List RunDyn.Job) (a b : Bool) (k : Int)
    (h : RunDyn.Job.reconfigure a b k ∈ jobs) : k ≤ rd_largest m jobs := by
  induction jobs generalizing m with
  | nil => simp at h
  | cons j r ih =>
    simp only [List.mem_cons] at h
    rcases h with h | h
    · subst h
      simp only [rd_largest, List.foldl_cons]
      exact Int.le_trans (Int.le_max_right m k) (rd_largest_ge (max m k) r)
    · simp only [rd_largest, List.foldl_cons]
      exact ih _ h

structure rd_LInv (L : Int) (c : Config Run.Shared RunDyn.Local) : Prop where
  g : GInv L { gauge := c.shared.gauge, limit := L, region := c.shared.region } (c.locals.map rd_glL)
  lim0 : 0 ≤ c.shared.limit
  limL : c.shared.limit ≤ L
  ops : ∀ fo fc k st, RunDyn.Local.op fo fc k st ∈ c.locals → 0 ≤ k ∧ k ≤ L

theorem rd_glL_start (jobs : List RunDyn.Job) :
    (jobs.map RunDyn.startLocal).map rd_glL = List.replicate jobs.length .idle := by
  induction jobs with
  | nil => rfl
  | cons j r ih =>
    simp only [List.map_cons, List.length_cons, List.replicate_succ, ih]
    cases j with
    | run j => cases j <;> rfl
    | reconfigure a b k => rfl

theorem rd_LInv_init (fo fc io : Bool) (m : Int) (jobs : List RunDyn.Job) (hm : 0 ≤ m)
    (hj : ∀ j ∈ jobs, match j with | .reconfigure _ _ k => 0 ≤ k | _ => True) :
    rd_LInv (rd_largest m jobs) (RunDyn.init fo fc io m jobs) := by
  refine ⟨?_, hm, rd_largest_ge m jobs, ?_⟩
  · simp only [RunDyn.init, rd_glL_start]
    exact GInv.init _ _
  · intro a b k st hmem
    simp only [RunDyn.init, List.mem_map] at hmem
    obtain ⟨j, hjm, he⟩ := hmem
    cases j with
    | run j => simp [RunDyn.startLocal] at he
    | reconfigure a' b' k' =>
      simp only [RunDyn.startLocal, RunDyn.Local.op.injEq] at he
      obtain ⟨rfl, rfl, rfl, _⟩ := he
      exact ⟨hj _ hjm, rd_largest_mem m jobs _ _ _ hjm⟩

theorem rd_LInv_step (L : Int) (c : Config Run.Shared RunDyn.Local) (i : Nat) (l : RunDyn.Local) (s' : Run.Shared)
    (l' : RunDyn.Local) (I : rd_LInv L c) (hl : c.locals[i]? = some l) (hs : RunDyn.step i c.shared l = some (s', l')) :
    rd_LInv L { shared := s', locals := c.locals.set i l' } := by
  have hgl : (c.locals.map rd_glL)[i]? = some (rd_glL l) := by simp [List.getElem?_map, hl]
  cases l with
  | op fo fc m k =>
    have hk := I.ops fo fc m k (List.mem_of_getElem? hl)
    have hops : ∀ k', ∀ fo' fc' k'' st, RunDyn.Local.op fo' fc' k'' st ∈ c.locals.set i (.op fo fc m k') →
        0 ≤ k'' ∧ k'' ≤ L := by
      intro k' fo' fc' k'' st hmem
      rcases List.mem_or_eq_of_mem_set hmem with hmem | he
      · exact I.ops _ _ _ _ hmem
      · simp only [RunDyn.Local.op.injEq] at he
        obtain ⟨_, _, rfl, _⟩ := he
        exact hk
    have hg : ∀ k', GInv L { gauge := c.shared.gauge, limit := L, region := c.shared.region }
        ((c.locals.set i (.op fo fc m k')).map rd_glL) := by
      intro k'
      rw [List.map_set]
      exact I.g.local_step hgl rfl rfl (fun e h => h)
    match k, hs with
    | 0, hs =>
      simp only [RunDyn.step, Option.some.injEq, Prod.mk.injEq] at hs
      obtain ⟨rfl, rfl⟩ := hs
      exact ⟨hg 1, I.lim0, I.limL, hops 1⟩
    | 1, hs =>
      simp only [RunDyn.step, Option.some.injEq, Prod.mk.injEq] at hs
      obtain ⟨rfl, rfl⟩ := hs
      exact ⟨hg 2, I.lim0, I.limL, hops 2⟩
    | 2, hs =>
      simp only [RunDyn.step, Option.some.injEq, Prod.mk.injEq] at hs
      obtain ⟨rfl, rfl⟩ := hs
      exact ⟨hg 3, hk.1, hk.2, hops 3⟩
    | (_ + 3), hs => simp [RunDyn.step] at hs
  | call l =>
    obtain ⟨m, rfl, hs'⟩ := rd_step_call i _ l s' l' hs
    clear hs
    obtain ⟨hlim, hcase⟩ := rd_step_gl i _ _ _ _ hs'
    have hops : ∀ fo' fc' k'' st, RunDyn.Local.op fo' fc' k'' st ∈ c.locals.set i (.call m) → 0 ≤ k'' ∧ k'' ≤ L := by
      intro fo' fc' k'' st hmem
      rcases List.mem_or_eq_of_mem_set hmem with hmem | he
      · exact I.ops _ _ _ _ hmem
      · cases he
    refine ⟨?_, by rw [hlim]; exact I.lim0, by rw [hlim]; exact I.limL, hops⟩
    simp only [List.map_set, rd_glL]
    simp only [rd_glL] at hgl
    rcases hcase with ⟨hpc, h1, h2, h3⟩ | ⟨obs, hpc, hnl, h1, h2, h3⟩ | ⟨r, hpc, h1, h2, h3⟩ | ⟨h1, h2, h3⟩
    · rw [h1, h2, h3]
      rw [hpc] at hgl
      exact I.g.enter_step hgl
    · rw [h1, h2, h3]
      rw [hpc] at hgl
      have := I.lim0
      have := I.limL
      exact I.g.grant_step hgl (by simp only; omega)
    · rw [h1, h2, h3]
      have hr : inRegion (rd_gl l.pc) = true := by rw [hpc]; cases r <;> rfl
      exact I.g.exit_step true hgl hr
    · rw [h1, h2]
      exact I.g.local_step hgl h3.1 h3.2.1 (h3.2.2 L)

theorem rd_LInv_run (fo fc io : Bool) (m : Int) (jobs : List RunDyn.Job) (sched : List Nat) (hm : 0 ≤ m)
    (hj : ∀ j ∈ jobs, match j with | .reconfigure _ _ k => 0 ≤ k | _ => True) :
    rd_LInv (rd_largest m jobs) (run RunDyn.sys (RunDyn.init fo fc io m jobs) sched) :=
  CM.Props.C04.inv_all_schedules RunDyn.sys (rd_LInv (rd_largest m jobs))
    (fun c i l s' l' hc hl hs => rd_LInv_step _ c i l s' l' hc hl hs) sched _ (rd_LInv_init fo fc io m jobs hm hj)

theorem rd_inFlight_eq (ls : List RunDyn.Local) :
    (ls.filter fun l => match l with | .call l => l.pc == .invoke | _ => false).length =
      ((ls.map rd_glL).filter (· == .running)).length := by
  induction ls with
  | nil => rfl
  | cons a r ih =>
    have ha : (match a with | .call l => l.pc == .invoke | _ => false) = (rd_glL a == .running) := by
      cases a with
      | op => rfl
      | call l =>
        obtain ⟨job, pc, sw⟩ := l
        cases pc <;> simp only [rd_glL, rd_gl] <;> (try split) <;> rfl
    simp only [List.map_cons, List.filter_cons, ha]
    split <;> simp [ih]

theorem rd_inflight_le (fo fc io : Bool) (m : Int) (jobs : List RunDyn.Job) (sched : List Nat) (hm : 0 ≤ m)
    (hj : ∀ j ∈ jobs, match j with | .reconfigure _ _ k => 0 ≤ k | _ => True) :
    ((((run RunDyn.sys (RunDyn.init fo fc io m jobs) sched).locals.filter
      fun l => match l with | .call l => l.pc == .invoke | _ => false).length : Nat) : Int) ≤ rd_largest m jobs := by
  have I := rd_LInv_run fo fc io m jobs sched hm hj
  rw [rd_inFlight_eq]
  exact I.g.inFlight_le (Int.le_trans hm (rd_largest_ge m jobs))

end CM.Lemmas.RunDynL

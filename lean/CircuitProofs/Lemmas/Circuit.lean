import CircuitModel.CircuitOps
import CircuitModel.Logic
namespace CM
end CM

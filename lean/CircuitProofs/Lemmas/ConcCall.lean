/-
  Lemmas/ConcCall.lean — invariants of the small-step model of whole calls racing the open ⇄ closed transitions
  (CircuitModel/Conc/Call.lean), used by Props/C01Conc.lean.  Structure:
    * `ccall_run_inv` / `ccall_run_append`: generic facts about schedules;
    * `ccall_tstep_*`: one step of the embedded transition (Conc/Trans);
    * `ccall_step_*`: one step of a call thread;
    * `ccall_Thr` / `ccall_Inv`: what is known of each thread at each program point (events, admission);
    * `ccall_Hold`: the holder of transitionMu is inside its critical section (no deadlock);
    * `ccall_NC`: nothing can close the circuit (flag monotone); `ccall_OT`: returned OpenCircuit;
    * `ccall_Shed`: a thread that only sheds.
-/
import CircuitModel.Conc.Call
namespace CM.Conc.Call
open CM.Conc

/-! ### generic -/

theorem ccall_run_inv {σ loc : Type} (S : Sys σ loc) (I : Config σ loc → Prop)
    (hstep : ∀ (c : Config σ loc) (i : Nat) (l : loc) (s' : σ) (l' : loc), I c → c.locals[i]? = some l →
      S.step i c.shared l = some (s', l') → I { shared := s', locals := c.locals.set i l' })
    (c : Config σ loc) (h : I c) (sched : List Nat) : I (run S c sched) := by
  induction sched generalizing c with
  | nil => exact h
  | cons i rest ih =>
    simp only [run]
    split
    · exact ih c h
    · rename_i l hl
      split
      · exact ih c h
      · rename_i s' l' hs
        exact ih _ (hstep c i l s' l' h hl hs)

theorem ccall_run_append {σ loc : Type} (S : Sys σ loc) (c : Config σ loc) (s1 s2 : List Nat) :
    run S c (s1 ++ s2) = run S (run S c s1) s2 := by
  induction s1 generalizing c with
  | nil => rfl
  | cons i rest ih =>
    simp only [List.cons_append, run]
    split
    · exact ih c
    · split
      · exact ih c
      · exact ih _

/-- a per-thread property after one thread was replaced -/
theorem ccall_set_forall {α : Type} (P Q : Nat → α → Prop) (ls : List α) (i : Nat) (l' : α)
    (h : ∀ j l, ls[j]? = some l → P j l) (hi : Q i l') (hne : ∀ j l, j ≠ i → P j l → Q j l) :
    ∀ j l, (ls.set i l')[j]? = some l → Q j l := by
  intro j l hj
  rw [List.getElem?_set] at hj
  split at hj
  · rename_i hij
    subst hij
    split at hj
    · simp only [Option.some.injEq] at hj; subst hj; exact hi
    · simp at hj
  · rename_i hij
    exact hne j l (fun e => hij e.symm) (h j l hj)

/-- keys are unique in a list whose keys have no duplicates -/
theorem ccall_nodup_key {α β : Type} (l : List (α × β)) (h : (l.map (·.1)).Nodup) (a : α) (b b' : β)
    (h1 : (a, b) ∈ l) (h2 : (a, b') ∈ l) : b = b' := by
  induction l with
  | nil => simp at h1
  | cons x r ih =>
    simp only [List.map_cons, List.nodup_cons, List.mem_map, not_exists, not_and] at h
    simp only [List.mem_cons] at h1 h2
    rcases h1 with h1 | h1 <;> rcases h2 with h2 | h2
    · rw [← h1] at h2; cases h2; rfl
    · exact absurd (by rw [← h1]) (h.1 _ h2)
    · exact absurd (by rw [← h2]) (h.1 _ h1)
    · exact ih h.2 h1 h2

/-! ### one step of the embedded transition -/

theorem ccall_tstep_static (i : Nat) (t t' : Trans.Shared) (tl tl' : Trans.Local)
    (h : Trans.step i t tl = some (t', tl')) :
    tl'.job = tl.job ∧ t'.forceOpen = t.forceOpen ∧ t'.forcedClosed = t.forcedClosed := by
  obtain ⟨job, pc⟩ := tl
  cases pc <;> cases job <;> simp only [Trans.step] at h
  all_goals (try split at h)
  all_goals (try split at h)
  all_goals (try simp only [Option.some.injEq, Prod.mk.injEq, reduceCtorEq] at h)
  all_goals (try (obtain ⟨rfl, rfl⟩ := h))
  all_goals simp_all

theorem ccall_tstep_holder (i : Nat) (t t' : Trans.Shared) (tl tl' : Trans.Local)
    (h : Trans.step i t tl = some (t', tl')) :
    (tl.pc = .start ∧ t.holder = none ∧ t'.holder = some i ∧ tl'.pc ≠ .start ∧ tl'.pc ≠ .done) ∨
    (tl.pc ≠ .start ∧ t'.holder = t.holder ∧ tl'.pc ≠ .start ∧ tl'.pc ≠ .done) ∨
    t'.holder = none := by
  obtain ⟨job, pc⟩ := tl
  cases pc <;> cases job <;> simp only [Trans.step] at h
  all_goals (try split at h)
  all_goals (try split at h)
  all_goals (try simp only [Option.some.injEq, Prod.mk.injEq, reduceCtorEq] at h)
  all_goals (try (obtain ⟨rfl, rfl⟩ := h))
  all_goals simp_all

/-- the flag changes only at `store` -/
theorem ccall_tstep_isOpen (i : Nat) (t t' : Trans.Shared) (tl tl' : Trans.Local)
    (h : Trans.step i t tl = some (t', tl')) :
    t'.isOpen = t.isOpen ∨ (tl.pc = .store ∧ tl.job = .open ∧ t'.isOpen = true) ∨
    (tl.pc = .store ∧ ∃ f a, tl.job = .close f a) := by
  obtain ⟨job, pc⟩ := tl
  cases pc <;> cases job <;> simp only [Trans.step] at h
  all_goals (try split at h)
  all_goals (try split at h)
  all_goals (try simp only [Option.some.injEq, Prod.mk.injEq, reduceCtorEq] at h)
  all_goals (try (obtain ⟨rfl, rfl⟩ := h))
  all_goals simp_all

/-- a closing attempt that decides "no" never notifies nor stores -/
theorem ccall_tstep_noclose (i : Nat) (t t' : Trans.Shared) (tl tl' : Trans.Local)
    (h : Trans.step i t tl = some (t', tl')) (hj : tl.job = .close false false)
    (h1 : tl.pc ≠ .notify) (h2 : tl.pc ≠ .store) : tl'.pc ≠ .notify ∧ tl'.pc ≠ .store := by
  obtain ⟨job, pc⟩ := tl
  simp only at hj; subst hj
  cases pc <;> simp only [Trans.step] at h
  all_goals (try split at h)
  all_goals (try split at h)
  all_goals (try simp only [Option.some.injEq, Prod.mk.injEq, reduceCtorEq] at h)
  all_goals (try (obtain ⟨rfl, rfl⟩ := h))
  all_goals simp_all

/-- an opening attempt without ForcedClosed: it unlocks only once the circuit is open -/
theorem ccall_tstep_opening (i : Nat) (t t' : Trans.Shared) (tl tl' : Trans.Local)
    (h : Trans.step i t tl = some (t', tl')) (hj : tl.job = .open) (hfc : t.forcedClosed = false)
    (h1 : tl.pc ≠ .guard2) (h2 : tl.pc ≠ .decide) (h3 : tl.pc = .unlock → (t.isOpen = true ∨ t.forceOpen = true)) :
    tl'.pc ≠ .guard2 ∧ tl'.pc ≠ .decide ∧
    ((tl'.pc = .unlock ∨ tl'.pc = .done) → (t'.isOpen = true ∨ t'.forceOpen = true)) := by
  obtain ⟨job, pc⟩ := tl
  simp only at hj; subst hj
  cases pc <;> simp only [Trans.step] at h
  all_goals (try split at h)
  all_goals (try split at h)
  all_goals (try simp only [Option.some.injEq, Prod.mk.injEq, reduceCtorEq] at h)
  all_goals (try (obtain ⟨rfl, rfl⟩ := h))
  all_goals simp_all

theorem ccall_tstep_mid_isSome (i : Nat) (t : Trans.Shared) (tl : Trans.Local)
    (h1 : tl.pc ≠ .start) (h2 : tl.pc ≠ .done) : (Trans.step i t tl).isSome = true := by
  obtain ⟨job, pc⟩ := tl
  cases pc <;> cases job <;> simp only [Trans.step] <;> (try split) <;> simp_all

theorem ccall_tstep_start_isSome (i : Nat) (t : Trans.Shared) (tl : Trans.Local)
    (h1 : tl.pc = .start) (h2 : t.holder = none) : (Trans.step i t tl).isSome = true := by
  obtain ⟨job, pc⟩ := tl
  simp only at h1; subst h1
  simp [Trans.step, h2]

/-! ### one step of a thread -/

/-- a step inside the transition -/
theorem ccall_step_trans (i : Nat) (s s' : Shared) (l l' : Local) (tl : Trans.Local) (hpc : l.pc = .trans tl)
    (h : step i s l = some (s', l')) :
    (tl.pc = .done ∧ s' = s ∧ l' = { l with pc := .done }) ∨
    (tl.pc ≠ .done ∧ ∃ t' tl', Trans.step i s.t tl = some (t', tl') ∧ s' = { s with t := t' } ∧
      l' = { l with pc := if tl'.pc == .done then .done else .trans tl' }) := by
  obtain ⟨job, pc, sw⟩ := l
  simp only at hpc; subst hpc
  simp only [step] at h
  split at h
  · rename_i hd
    simp only [Option.some.injEq, Prod.mk.injEq] at h
    exact Or.inl ⟨hd, h.1.symm, h.2.symm⟩
  · rename_i hd
    split at h
    · rename_i t' tl' ht
      simp only [Option.some.injEq, Prod.mk.injEq] at h
      exact Or.inr ⟨hd, t', tl', ht, h.1.symm, h.2.symm⟩
    · simp at h

/-- a step outside the transition: the transition state is untouched, an event is appended at `shedNow` / `invoke` only -/
theorem ccall_step_plain (i : Nat) (s s' : Shared) (l l' : Local) (hpc : ∀ tl, l.pc ≠ .trans tl)
    (h : step i s l = some (s', l')) :
    s'.t = s.t ∧ l'.job = l.job ∧
    ((s'.events = s.events ∧ l.pc ≠ .shedNow ∧ l.pc ≠ .invoke) ∨
     (l.pc = .shedNow ∧ s'.events = s.events ++ [(i, .shed)] ∧ l'.pc = .done) ∨
     (l.pc = .invoke ∧ s'.events = s.events ++ [(i, .ran)] ∧ l'.pc = .pFO)) := by
  obtain ⟨job, pc, sw⟩ := l
  cases pc <;> simp only [step] at h
  all_goals (try split at h)
  all_goals (try split at h)
  all_goals (try split at h)
  all_goals (try simp only [Option.some.injEq, Prod.mk.injEq, reduceCtorEq] at h)
  all_goals (try (obtain ⟨rfl, rfl⟩ := h))
  all_goals simp_all

theorem ccall_step_static (i : Nat) (s s' : Shared) (l l' : Local) (h : step i s l = some (s', l')) :
    l'.job = l.job ∧ s'.t.forceOpen = s.t.forceOpen ∧ s'.t.forcedClosed = s.t.forcedClosed := by
  by_cases hpc : ∃ tl, l.pc = .trans tl
  · obtain ⟨tl, hpc⟩ := hpc
    rcases ccall_step_trans i s s' l l' tl hpc h with ⟨_, rfl, rfl⟩ | ⟨_, t', tl', ht, rfl, rfl⟩
    · simp
    · have := ccall_tstep_static _ _ _ _ _ ht
      simp [this]
  · have := ccall_step_plain i s s' l l' (fun tl e => hpc ⟨tl, e⟩) h
    simp [this.1, this.2.1]

/-- events are only appended, by the stepping thread, at `shedNow` / `invoke` -/
theorem ccall_step_events (i : Nat) (s s' : Shared) (l l' : Local) (h : step i s l = some (s', l')) :
    s'.events = s.events ∨
    (l.pc = .shedNow ∧ s'.events = s.events ++ [(i, .shed)] ∧ l'.pc = .done ∧ s'.t = s.t) ∨
    (l.pc = .invoke ∧ s'.events = s.events ++ [(i, .ran)] ∧ l'.pc = .pFO ∧ s'.t = s.t) := by
  by_cases hpc : ∃ tl, l.pc = .trans tl
  · obtain ⟨tl, hpc⟩ := hpc
    rcases ccall_step_trans i s s' l l' tl hpc h with ⟨_, rfl, rfl⟩ | ⟨_, t', tl', ht, rfl, rfl⟩ <;> simp
  · have := ccall_step_plain i s s' l l' (fun tl e => hpc ⟨tl, e⟩) h
    rcases this.2.2 with h1 | h1 | h1
    · exact Or.inl h1.1
    · exact Or.inr (Or.inl ⟨h1.1, h1.2.1, h1.2.2, this.1⟩)
    · exact Or.inr (Or.inr ⟨h1.1, h1.2.1, h1.2.2, this.1⟩)

theorem ccall_set_jobs (ls : List Local) (i : Nat) (l l' : Local) (hl : ls[i]? = some l) (hj : l'.job = l.job) :
    (ls.set i l').map (·.job) = ls.map (·.job) := by
  apply List.ext_getElem?
  intro j
  simp only [List.getElem?_map, List.getElem?_set]
  split
  · rename_i hij
    subst hij
    split
    · simp [hl, hj]
    · rename_i hlt
      have : ls[i]? = none := by simpa using hlt
      rw [this] at hl; cases hl
  · rfl

/-- the override flags and the jobs are static -/
theorem ccall_run_static (c : Config Shared Local) (sched : List Nat) :
    (run sys c sched).shared.t.forceOpen = c.shared.t.forceOpen ∧
    (run sys c sched).shared.t.forcedClosed = c.shared.t.forcedClosed ∧
    (run sys c sched).locals.map (·.job) = c.locals.map (·.job) := by
  refine ccall_run_inv sys (fun c' => c'.shared.t.forceOpen = c.shared.t.forceOpen ∧
    c'.shared.t.forcedClosed = c.shared.t.forcedClosed ∧ c'.locals.map (·.job) = c.locals.map (·.job)) ?_ c
    ⟨rfl, rfl, rfl⟩ sched
  intro c' i l s' l' ⟨h1, h2, h3⟩ hl hs
  have := ccall_step_static i _ _ _ _ hs
  exact ⟨this.2.1.trans h1, this.2.2.trans h2, (ccall_set_jobs _ _ _ _ hl this.1).trans h3⟩

theorem ccall_init_jobs (fo fc io : Bool) (jobs : List Job) : (init fo fc io jobs).locals.map (·.job) = jobs := by
  simp [init, List.map_map, Function.comp_def]

/-- the job of a thread of a configuration with the jobs `jobs` -/
theorem ccall_job_of {c : Config Shared Local} {jobs : List Job} (h : c.locals.map (·.job) = jobs) {i : Nat}
    {l : Local} (hl : c.locals[i]? = some l) : jobs[i]? = some l.job := by
  rw [← h, List.getElem?_map, hl]; rfl

theorem ccall_thread_of {c : Config Shared Local} {jobs : List Job} (h : c.locals.map (·.job) = jobs) {i : Nat}
    {j : Job} (hj : jobs[i]? = some j) : ∃ l, c.locals[i]? = some l ∧ l.job = j := by
  rw [← h, List.getElem?_map] at hj
  cases hl : c.locals[i]? with
  | none => rw [hl] at hj; cases hj
  | some l => rw [hl] at hj; exact ⟨l, rfl, by simpa using hj⟩

/-! ### what is known of each thread: events and admission -/

/-- the call's own reading admitted it -/
def ccall_Adm (fo : Bool) (sc : Script) (l : Local) : Prop :=
  l.sawOpen = some false ∨ (l.sawOpen = some true ∧ sc.allow = true ∧ fo = false)

def ccall_NoEv (s : Shared) (i : Nat) : Prop := ∀ o, (i, o) ∉ s.events

/-- the run function was invoked, after admission -/
def ccall_Ran (fo : Bool) (s : Shared) (i : Nat) (sc : Script) (l : Local) : Prop :=
  (i, Outcome.ran) ∈ s.events ∧ sc.prevent = false ∧ ccall_Adm fo sc l

def ccall_Thr (fo : Bool) (s : Shared) (i : Nat) (l : Local) : Prop :=
  (l.sawOpen = some false → fo = false) ∧
  match l.job with
  | .call sc =>
    (match l.pc with
     | .aFO => ccall_NoEv s i
     | .aFC => ccall_NoEv s i ∧ fo = false
     | .aFlag => ccall_NoEv s i ∧ fo = false
     | .gFO => ccall_NoEv s i ∧ l.sawOpen = some true
     | .askAllow => ccall_NoEv s i ∧ l.sawOpen = some true ∧ fo = false
     | .askPrevent => ccall_NoEv s i ∧ ccall_Adm fo sc l
     | .invoke => ccall_NoEv s i ∧ sc.prevent = false ∧ ccall_Adm fo sc l
     | .shedNow => ccall_NoEv s i
     | .trans tl => ccall_Ran fo s i sc l ∧ (tl.job = .open ∨ tl.job = .close false sc.shouldClose)
     | .done => (i, Outcome.shed) ∈ s.events ∨ ccall_Ran fo s i sc l
     | _ => ccall_Ran fo s i sc l)
  | .open => ccall_NoEv s i ∧ (l.pc = .done ∨ ∃ tl, l.pc = .trans tl ∧ tl.job = .open)
  | .close => ccall_NoEv s i ∧ (l.pc = .done ∨ ∃ tl, l.pc = .trans tl ∧ tl.job = .close true false)

/-- steps of other threads do not disturb what is known of thread `j` -/
theorem ccall_Thr_frame (fo : Bool) (s s' : Shared) (j : Nat) (l : Local) (h : ccall_Thr fo s j l)
    (hmono : ∀ e, e ∈ s.events → e ∈ s'.events) (hrefl : ∀ o, (j, o) ∈ s'.events → (j, o) ∈ s.events) :
    ccall_Thr fo s' j l := by
  obtain ⟨job, pc, sw⟩ := l
  have hno : ccall_NoEv s j → ccall_NoEv s' j := fun hn o ho => hn o (hrefl o ho)
  have hran : ∀ sc, ccall_Ran fo s j sc ⟨job, pc, sw⟩ → ccall_Ran fo s' j sc ⟨job, pc, sw⟩ :=
    fun sc hr => ⟨hmono _ hr.1, hr.2⟩
  refine ⟨h.1, ?_⟩
  have h2 := h.2
  cases job with
  | call sc =>
    cases pc <;> simp only at h2 ⊢
    all_goals first
      | exact hno h2
      | exact ⟨hno h2.1, h2.2⟩
      | exact hran sc h2
      | exact ⟨hran sc h2.1, h2.2⟩
      | exact h2.imp (hmono _) (hran sc)
  | «open» => exact ⟨hno h2.1, h2.2⟩
  | close => exact ⟨hno h2.1, h2.2⟩

theorem ccall_Thr_step_trans (fo : Bool) (i : Nat) (s s' : Shared) (l l' : Local) (tl : Trans.Local)
    (hpc : l.pc = .trans tl) (h : ccall_Thr fo s i l) (hs : step i s l = some (s', l')) : ccall_Thr fo s' i l' := by
  obtain ⟨job, pc, sw⟩ := l
  simp only at hpc; subst hpc
  rcases ccall_step_trans i s s' _ l' tl rfl hs with ⟨_, rfl, rfl⟩ | ⟨_, t', tl', ht, rfl, rfl⟩
  · cases job <;> simp_all [ccall_Thr, ccall_Ran, ccall_Adm, ccall_NoEv]
  · have hj := (ccall_tstep_static _ _ _ _ _ ht).1
    by_cases hd : tl'.pc = .done
    · cases job <;> simp_all [ccall_Thr, ccall_Ran, ccall_Adm, ccall_NoEv]
    · cases job <;> simp_all [ccall_Thr, ccall_Ran, ccall_Adm, ccall_NoEv]

theorem ccall_Thr_step_plain (fo : Bool) (i : Nat) (s s' : Shared) (l l' : Local) (hfo : s.t.forceOpen = fo)
    (hpc : ∀ tl, l.pc ≠ .trans tl) (h : ccall_Thr fo s i l) (hs : step i s l = some (s', l')) :
    ccall_Thr fo s' i l' := by
  obtain ⟨job, pc, sw⟩ := l
  cases job with
  | call sc =>
    cases pc <;> simp only [step] at hs
    all_goals (try split at hs)
    all_goals (try split at hs)
    all_goals (try simp only [Option.some.injEq, Prod.mk.injEq, reduceCtorEq] at hs)
    all_goals (try (obtain ⟨rfl, rfl⟩ := hs))
    all_goals simp_all [ccall_Thr, ccall_Ran, ccall_Adm, ccall_NoEv]
    all_goals exact absurd h.2.2.2 h.1
  | «open» =>
    obtain ⟨_, h2⟩ := h
    rcases h2.2 with h3 | ⟨tl, h3, _⟩
    · simp only at h3; subst h3; simp [step] at hs
    · exact absurd h3 (hpc tl)
  | close =>
    obtain ⟨_, h2⟩ := h
    rcases h2.2 with h3 | ⟨tl, h3, _⟩
    · simp only at h3; subst h3; simp [step] at hs
    · exact absurd h3 (hpc tl)

theorem ccall_Thr_step (fo : Bool) (i : Nat) (s s' : Shared) (l l' : Local) (hfo : s.t.forceOpen = fo)
    (h : ccall_Thr fo s i l) (hs : step i s l = some (s', l')) : ccall_Thr fo s' i l' := by
  by_cases hpc : ∃ tl, l.pc = .trans tl
  · obtain ⟨tl, hpc⟩ := hpc
    exact ccall_Thr_step_trans fo i s s' l l' tl hpc h hs
  · exact ccall_Thr_step_plain fo i s s' l l' hfo (fun tl e => hpc ⟨tl, e⟩) h hs

/-- a thread about to record its outcome has none yet -/
theorem ccall_Thr_noev (fo : Bool) (i : Nat) (s : Shared) (l : Local) (h : ccall_Thr fo s i l)
    (hpc : l.pc = .shedNow ∨ l.pc = .invoke) : ccall_NoEv s i := by
  obtain ⟨job, pc, sw⟩ := l
  cases job <;> rcases hpc with hpc | hpc <;> simp only at hpc <;> subst hpc <;> simp_all [ccall_Thr]

def ccall_Inv (fo : Bool) (c : Config Shared Local) : Prop :=
  c.shared.t.forceOpen = fo ∧ (c.shared.events.map (·.1)).Nodup ∧
  (∀ e ∈ c.shared.events, e.1 < c.locals.length) ∧
  ∀ j l, c.locals[j]? = some l → ccall_Thr fo c.shared j l

theorem ccall_Inv_step (fo : Bool) (c : Config Shared Local) (i : Nat) (l : Local) (s' : Shared) (l' : Local)
    (h : ccall_Inv fo c) (hl : c.locals[i]? = some l) (hs : step i c.shared l = some (s', l')) :
    ccall_Inv fo { shared := s', locals := c.locals.set i l' } := by
  obtain ⟨h1, h2, h3, h4⟩ := h
  have hst := ccall_step_static i _ _ _ _ hs
  have hi := ccall_Thr_step fo i _ _ _ _ h1 (h4 i l hl) hs
  have hilt : i < c.locals.length := by
    rcases Nat.lt_or_ge i c.locals.length with h | h
    · exact h
    · rw [List.getElem?_eq_none h] at hl; cases hl
  refine ⟨hst.2.1.trans h1, ?_, ?_, ?_⟩
  · rcases ccall_step_events i _ _ _ _ hs with he | ⟨hp, he, _⟩ | ⟨hp, he, _⟩
    · simp only [he]; exact h2
    · have hn := ccall_Thr_noev fo i _ _ (h4 i l hl) (Or.inl hp)
      simp only [he, List.map_append, List.map_cons, List.map_nil]
      rw [List.nodup_append]
      refine ⟨h2, by simp, ?_⟩
      intro a ha b hb
      simp only [List.mem_singleton] at hb
      subst hb
      simp only [List.mem_map] at ha
      obtain ⟨⟨a', o⟩, hm, rfl⟩ := ha
      intro e; simp only at e; subst e
      exact hn o hm
    · have hn := ccall_Thr_noev fo i _ _ (h4 i l hl) (Or.inr hp)
      simp only [he, List.map_append, List.map_cons, List.map_nil]
      rw [List.nodup_append]
      refine ⟨h2, by simp, ?_⟩
      intro a ha b hb
      simp only [List.mem_singleton] at hb
      subst hb
      simp only [List.mem_map] at ha
      obtain ⟨⟨a', o⟩, hm, rfl⟩ := ha
      intro e; simp only at e; subst e
      exact hn o hm
  · intro e he
    simp only [List.length_set]
    rcases ccall_step_events i _ _ _ _ hs with he' | ⟨_, he', _⟩ | ⟨_, he', _⟩
    · rw [he'] at he; exact h3 e he
    · rw [he'] at he
      simp only [List.mem_append, List.mem_singleton] at he
      rcases he with he | rfl
      · exact h3 e he
      · exact hilt
    · rw [he'] at he
      simp only [List.mem_append, List.mem_singleton] at he
      rcases he with he | rfl
      · exact h3 e he
      · exact hilt
  · refine ccall_set_forall (fun j l => ccall_Thr fo c.shared j l) (fun j l => ccall_Thr fo s' j l) c.locals i l' h4 hi ?_
    intro j lj hne hj
    refine ccall_Thr_frame fo _ _ j lj hj ?_ ?_
    · intro e he
      rcases ccall_step_events i _ _ _ _ hs with he' | ⟨_, he', _⟩ | ⟨_, he', _⟩ <;> rw [he'] <;> simp [he]
    · intro o ho
      rcases ccall_step_events i _ _ _ _ hs with he' | ⟨_, he', _⟩ | ⟨_, he', _⟩ <;> rw [he'] at ho
      · exact ho
      · simp only [List.mem_append, List.mem_singleton, Prod.mk.injEq] at ho
        rcases ho with ho | ⟨e, _⟩
        · exact ho
        · exact absurd e hne
      · simp only [List.mem_append, List.mem_singleton, Prod.mk.injEq] at ho
        rcases ho with ho | ⟨e, _⟩
        · exact ho
        · exact absurd e hne

theorem ccall_Inv_init (fo fc io : Bool) (jobs : List Job) : ccall_Inv fo (init fo fc io jobs) := by
  refine ⟨rfl, by simp [init], by simp [init], ?_⟩
  intro j l hl
  simp only [init, List.getElem?_map] at hl
  cases hj : jobs[j]? with
  | none => rw [hj] at hl; cases hl
  | some job =>
    rw [hj] at hl
    simp only [Option.map_some, Option.some.injEq] at hl
    subst hl
    cases job <;> simp [ccall_Thr, startPc, ccall_NoEv, init]

theorem ccall_Inv_run (fo : Bool) (c : Config Shared Local) (h : ccall_Inv fo c) (sched : List Nat) :
    ccall_Inv fo (run sys c sched) :=
  ccall_run_inv sys (ccall_Inv fo) (fun c i l s' l' h hl hs => ccall_Inv_step fo c i l s' l' h hl hs) c h sched

/-- a recorded invocation belongs to an admitted call -/
theorem ccall_Thr_ran (fo : Bool) (i : Nat) (s : Shared) (l : Local) (h : ccall_Thr fo s i l)
    (hnd : (s.events.map (·.1)).Nodup) (hr : (i, Outcome.ran) ∈ s.events) :
    ∃ sc, l.job = .call sc ∧ sc.prevent = false ∧ ccall_Adm fo sc l := by
  obtain ⟨job, pc, sw⟩ := l
  have h2 := h.2
  cases job with
  | call sc =>
    refine ⟨sc, rfl, ?_⟩
    cases pc <;> simp only at h2
    all_goals first
      | exact h2.2
      | exact h2.1.2
      | exact absurd hr (h2 _)
      | exact absurd hr (h2.1 _)
      | skip
    rcases h2 with h2 | h2
    · cases ccall_nodup_key _ hnd i _ _ hr h2
    · exact h2.2
  | «open» => exact absurd hr (h2.1 _)
  | close => exact absurd hr (h2.1 _)

/-- only calls record outcomes -/
theorem ccall_Thr_ev (fo : Bool) (i : Nat) (s : Shared) (l : Local) (h : ccall_Thr fo s i l) (o : Outcome)
    (hr : (i, o) ∈ s.events) : ∃ sc, l.job = .call sc := by
  obtain ⟨job, pc, sw⟩ := l
  have h2 := h.2
  cases job with
  | call sc => exact ⟨sc, rfl⟩
  | «open» => exact absurd hr (h2.1 _)
  | close => exact absurd hr (h2.1 _)

/-- a returned call has recorded its outcome -/
theorem ccall_Thr_done (fo : Bool) (i : Nat) (s : Shared) (l : Local) (h : ccall_Thr fo s i l) (sc : Script)
    (hj : l.job = .call sc) (hpc : l.pc = .done) : ∃ o, (i, o) ∈ s.events := by
  obtain ⟨job, pc, sw⟩ := l
  simp only at hj hpc; subst hj; subst hpc
  rcases h.2 with h2 | h2
  · exact ⟨_, h2⟩
  · exact ⟨_, h2.1⟩

theorem ccall_Inv_thread (fo : Bool) (c : Config Shared Local) (h : ccall_Inv fo c) (i : Nat) (o : Outcome)
    (hr : (i, o) ∈ c.shared.events) : ∃ l, c.locals[i]? = some l ∧ ccall_Thr fo c.shared i l := by
  have hlt := h.2.2.1 _ hr
  exact ⟨c.locals[i], List.getElem?_eq_getElem hlt, h.2.2.2 i _ (List.getElem?_eq_getElem hlt)⟩

theorem ccall_outcomeOf_isSome (c : Config Shared Local) (i : Nat) (o : Outcome) (h : (i, o) ∈ c.shared.events) :
    (outcomeOf c i).isSome = true := by
  simp only [outcomeOf, Option.isSome_map, List.find?_isSome]
  exact ⟨(i, o), h, by simp⟩

/-! ### transitionMu: its holder is inside the critical section -/

theorem ccall_lt_of_getElem? {α : Type} {ls : List α} {i : Nat} {l : α} (hl : ls[i]? = some l) : i < ls.length := by
  rcases Nat.lt_or_ge i ls.length with h | h
  · exact h
  · rw [List.getElem?_eq_none h] at hl; cases hl

def ccall_Hold (c : Config Shared Local) : Prop :=
  ∀ h, c.shared.t.holder = some h →
    ∃ l tl, c.locals[h]? = some l ∧ l.pc = .trans tl ∧ tl.pc ≠ .start ∧ tl.pc ≠ .done

theorem ccall_Hold_step (c : Config Shared Local) (i : Nat) (l : Local) (s' : Shared) (l' : Local)
    (h : ccall_Hold c) (hl : c.locals[i]? = some l) (hs : step i c.shared l = some (s', l')) :
    ccall_Hold { shared := s', locals := c.locals.set i l' } := by
  have hilt := ccall_lt_of_getElem? hl
  intro k hk
  simp only at hk ⊢
  by_cases hpc : ∃ tl, l.pc = .trans tl
  · obtain ⟨tl, hpc⟩ := hpc
    rcases ccall_step_trans i _ s' l l' tl hpc hs with ⟨hd, rfl, rfl⟩ | ⟨hd, t', tl', ht, rfl, rfl⟩
    · obtain ⟨lk, tlk, hlk, hpk, hk1, hk2⟩ := h k hk
      by_cases hki : k = i
      · subst hki
        rw [hl] at hlk; cases hlk
        rw [hpc] at hpk; cases hpk
        exact absurd hd hk2
      · exact ⟨lk, tlk, by rw [List.getElem?_set_ne (fun e => hki e.symm)]; exact hlk, hpk, hk1, hk2⟩
    · simp only at hk
      rcases ccall_tstep_holder _ _ _ _ _ ht with ⟨_, _, hh, h1, h2⟩ | ⟨_, hh, h1, h2⟩ | hh
      · rw [hh] at hk; cases hk
        refine ⟨_, tl', List.getElem?_set_self hilt, ?_, h1, h2⟩
        simp [h2]
      · rw [hh] at hk
        obtain ⟨lk, tlk, hlk, hpk, hk1, hk2⟩ := h k hk
        by_cases hki : k = i
        · subst hki
          refine ⟨_, tl', List.getElem?_set_self hilt, ?_, h1, h2⟩
          simp [h2]
        · exact ⟨lk, tlk, by rw [List.getElem?_set_ne (fun e => hki e.symm)]; exact hlk, hpk, hk1, hk2⟩
      · rw [hh] at hk; cases hk
  · have hp := ccall_step_plain i _ s' l l' (fun tl e => hpc ⟨tl, e⟩) hs
    rw [hp.1] at hk
    obtain ⟨lk, tlk, hlk, hpk, hk1, hk2⟩ := h k hk
    by_cases hki : k = i
    · subst hki
      rw [hl] at hlk; cases hlk
      exact absurd ⟨tlk, hpk⟩ hpc
    · exact ⟨lk, tlk, by rw [List.getElem?_set_ne (fun e => hki e.symm)]; exact hlk, hpk, hk1, hk2⟩

theorem ccall_Hold_init (fo fc io : Bool) (jobs : List Job) : ccall_Hold (init fo fc io jobs) := by
  intro h hh
  simp [init] at hh

theorem ccall_Hold_run (c : Config Shared Local) (h : ccall_Hold c) (sched : List Nat) :
    ccall_Hold (run sys c sched) :=
  ccall_run_inv sys ccall_Hold (fun c i l s' l' h hl hs => ccall_Hold_step c i l s' l' h hl hs) c h sched

/-- inside the transition a thread steps whenever the transition does -/
theorem ccall_step_trans_isSome (i : Nat) (s : Shared) (l : Local) (tl : Trans.Local) (hpc : l.pc = .trans tl)
    (h : tl.pc = .done ∨ (Trans.step i s.t tl).isSome = true) : (step i s l).isSome = true := by
  obtain ⟨job, pc, sw⟩ := l
  simp only at hpc; subst hpc
  by_cases hd : tl.pc = .done
  · simp [step, hd]
  · rcases h with h | h
    · exact absurd h hd
    · cases ht : Trans.step i s.t tl with
      | none => rw [ht] at h; cases h
      | some x =>
        simp only [step, ht]
        split <;> rfl

/-- a thread that cannot step has returned or waits for transitionMu -/
theorem ccall_step_none (i : Nat) (s : Shared) (l : Local) (h : step i s l = none) :
    l.pc = .done ∨ ∃ tl k, l.pc = .trans tl ∧ s.t.holder = some k := by
  by_cases hpc : ∃ tl, l.pc = .trans tl
  · obtain ⟨tl, hpc⟩ := hpc
    refine Or.inr ⟨tl, ?_⟩
    cases hh : s.t.holder with
    | some k => exact ⟨k, hpc, rfl⟩
    | none =>
      exfalso
      have : (step i s l).isSome = true := by
        apply ccall_step_trans_isSome i s l tl hpc
        by_cases hd : tl.pc = .done
        · exact Or.inl hd
        · by_cases h1 : tl.pc = .start
          · exact Or.inr (ccall_tstep_start_isSome i s.t tl h1 hh)
          · exact Or.inr (ccall_tstep_mid_isSome i s.t tl h1 hd)
      rw [h] at this; cases this
  · obtain ⟨job, pc, sw⟩ := l
    cases pc <;> simp only [step] at h
    all_goals (try split at h)
    all_goals (try split at h)
    all_goals (try split at h)
    all_goals (try simp only [reduceCtorEq] at h)
    all_goals (try (exact Or.inl rfl))
    all_goals exact absurd ⟨_, rfl⟩ hpc

/-- the holder of transitionMu can step -/
theorem ccall_step_mid_isSome (i : Nat) (s : Shared) (l : Local) (tl : Trans.Local) (hpc : l.pc = .trans tl)
    (h1 : tl.pc ≠ .start) (h2 : tl.pc ≠ .done) : (step i s l).isSome = true :=
  ccall_step_trans_isSome i s l tl hpc (Or.inr (ccall_tstep_mid_isSome i s.t tl h1 h2))

theorem ccall_no_deadlock (c : Config Shared Local) (h : ccall_Hold c) (hnd : allDone c = false) :
    ∃ i l, c.locals[i]? = some l ∧ (step i c.shared l).isSome = true := by
  simp only [allDone, List.all_eq_false] at hnd
  obtain ⟨l, hm, hpc⟩ := hnd
  obtain ⟨i, hl⟩ := List.mem_iff_getElem?.mp hm
  cases hs : step i c.shared l with
  | some x => exact ⟨i, l, hl, by rw [hs]; rfl⟩
  | none =>
    rcases ccall_step_none i _ l hs with hd | ⟨tl, k, _, hk⟩
    · simp [hd] at hpc
    · obtain ⟨lk, tlk, hlk, hpk, hk1, hk2⟩ := h k hk
      exact ⟨k, lk, hlk, ccall_step_mid_isSome k _ lk tlk hpk hk1 hk2⟩

/-! ### nothing can close the circuit: the flag is monotone -/

def ccall_scOf : Job → Script
  | .call sc => sc
  | _ => {}

/-- entering a transition: a fresh opening, or a fresh closing attempt with the call's ShouldClose answer -/
theorem ccall_step_enter (i : Nat) (s s' : Shared) (l l' : Local) (hpc : ∀ tl, l.pc ≠ .trans tl)
    (h : step i s l = some (s', l')) (tl2 : Trans.Local) (h2 : l'.pc = .trans tl2) :
    tl2 = { job := .open } ∨ tl2 = { job := .close false (ccall_scOf l.job).shouldClose } := by
  obtain ⟨job, pc, sw⟩ := l
  cases pc <;> cases job <;> simp only [step] at h
  all_goals (try split at h)
  all_goals (try split at h)
  all_goals (try simp only [Option.some.injEq, Prod.mk.injEq, reduceCtorEq] at h)
  all_goals (try (obtain ⟨rfl, rfl⟩ := h))
  all_goals (try simp only [reduceCtorEq, Pc.trans.injEq] at h2)
  all_goals (try subst h2)
  all_goals (try (exact absurd rfl (hpc _)))
  all_goals simp [ccall_scOf]

def ccall_JobOK : Job → Prop
  | .call sc => sc.shouldClose = false
  | .open => True
  | .close => False

def ccall_NCThr (l : Local) : Prop :=
  ccall_JobOK l.job ∧
  ∀ tl, l.pc = .trans tl → (tl.job = .open ∨ (tl.job = .close false false ∧ tl.pc ≠ .notify ∧ tl.pc ≠ .store))

theorem ccall_JobOK_sc (j : Job) (h : ccall_JobOK j) : (ccall_scOf j).shouldClose = false := by
  cases j <;> simp_all [ccall_JobOK, ccall_scOf]

theorem ccall_NCThr_step (i : Nat) (s s' : Shared) (l l' : Local) (h : ccall_NCThr l)
    (hs : step i s l = some (s', l')) : ccall_NCThr l' ∧ (s.t.isOpen = true → s'.t.isOpen = true) := by
  have hjob := (ccall_step_static i s s' l l' hs).1
  by_cases hpc : ∃ tl, l.pc = .trans tl
  · obtain ⟨tl, hpc⟩ := hpc
    rcases ccall_step_trans i s s' l l' tl hpc hs with ⟨_, rfl, rfl⟩ | ⟨_, t', tl', ht, rfl, rfl⟩
    · exact ⟨⟨h.1, fun tl2 h2 => by simp at h2⟩, id⟩
    · have hj := (ccall_tstep_static _ _ _ _ _ ht).1
      have hio := ccall_tstep_isOpen _ _ _ _ _ ht
      have key : (tl'.job = .open ∨ (tl'.job = .close false false ∧ tl'.pc ≠ .notify ∧ tl'.pc ≠ .store)) ∧
          (s.t.isOpen = true → t'.isOpen = true) := by
        rcases h.2 tl hpc with ho | ⟨hc, h1, h2⟩
        · refine ⟨Or.inl (hj.trans ho), fun hopen => ?_⟩
          rcases hio with e | ⟨_, _, e⟩ | ⟨_, f, a, e⟩
          · rw [e]; exact hopen
          · exact e
          · rw [ho] at e; cases e
        · refine ⟨Or.inr ⟨hj.trans hc, ccall_tstep_noclose _ _ _ _ _ ht hc h1 h2⟩, fun hopen => ?_⟩
          rcases hio with e | ⟨e, _⟩ | ⟨e, _⟩
          · rw [e]; exact hopen
          · exact absurd e h2
          · exact absurd e h2
      refine ⟨⟨h.1, fun tl2 h2 => ?_⟩, key.2⟩
      simp only at h2
      split at h2
      · cases h2
      · cases h2; exact key.1
  · have hp := ccall_step_plain i s s' l l' (fun tl e => hpc ⟨tl, e⟩) hs
    refine ⟨⟨hjob ▸ h.1, fun tl2 h2 => ?_⟩, fun hopen => by rw [hp.1]; exact hopen⟩
    rcases ccall_step_enter i s s' l l' (fun tl e => hpc ⟨tl, e⟩) hs tl2 h2 with e | e
    · exact Or.inl (by rw [e])
    · rw [ccall_JobOK_sc _ h.1] at e
      exact Or.inr (by rw [e]; simp)

def ccall_NC (c : Config Shared Local) : Prop := ∀ (j : Nat) (l : Local), c.locals[j]? = some l → ccall_NCThr l

/-- nothing can close, and (if `b`) the circuit is open -/
def ccall_NCO (b : Bool) (c : Config Shared Local) : Prop := ccall_NC c ∧ (b = true → c.shared.t.isOpen = true)

theorem ccall_NCO_step (b : Bool) (c : Config Shared Local) (i : Nat) (l : Local) (s' : Shared) (l' : Local)
    (h : ccall_NCO b c) (hl : c.locals[i]? = some l) (hs : step i c.shared l = some (s', l')) :
    ccall_NCO b { shared := s', locals := c.locals.set i l' } := by
  have hi := ccall_NCThr_step i _ _ _ _ (h.1 i l hl) hs
  exact ⟨ccall_set_forall (fun _ l => ccall_NCThr l) (fun _ l => ccall_NCThr l) c.locals i l' h.1 hi.1
    (fun _ _ _ hj => hj), fun hb => hi.2 (h.2 hb)⟩

theorem ccall_NCO_run (b : Bool) (c : Config Shared Local) (h : ccall_NCO b c) (sched : List Nat) :
    ccall_NCO b (run sys c sched) :=
  ccall_run_inv sys (ccall_NCO b) (fun c i l s' l' h hl hs => ccall_NCO_step b c i l s' l' h hl hs) c h sched

theorem ccall_NC_init (fo fc io : Bool) (jobs : List Job) (hnc : neverCloses jobs = true) :
    ccall_NC (init fo fc io jobs) := by
  intro j l hl
  simp only [init, List.getElem?_map] at hl
  cases hj : jobs[j]? with
  | none => rw [hj] at hl; cases hl
  | some job =>
    rw [hj] at hl
    simp only [Option.map_some, Option.some.injEq] at hl
    subst hl
    have hm : job ∈ jobs := List.mem_iff_getElem?.mpr ⟨j, hj⟩
    simp only [neverCloses, List.all_eq_true] at hnc
    have := hnc job hm
    cases job <;> simp_all [ccall_NCThr, ccall_JobOK, startPc]

theorem ccall_NC_run (c : Config Shared Local) (h : ccall_NC c) (sched : List Nat) : ccall_NC (run sys c sched) :=
  (ccall_NCO_run false c ⟨h, fun e => by cases e⟩ sched).1

/-- once open, open for good -/
theorem ccall_NC_mono (c : Config Shared Local) (h : ccall_NC c) (ho : c.shared.t.isOpen = true) (sched : List Nat) :
    (run sys c sched).shared.t.isOpen = true :=
  (ccall_NCO_run true c ⟨h, fun _ => ho⟩ sched).2 rfl

/-! ### a returned OpenCircuit has opened the circuit -/

def ccall_IsOpen (s : Shared) : Prop := s.t.isOpen = true ∨ s.t.forceOpen = true

def ccall_OTThr (s : Shared) (l : Local) : Prop :=
  l.job = .open →
    (l.pc = .done ∧ ccall_IsOpen s) ∨
    ∃ tl, l.pc = .trans tl ∧ tl.job = .open ∧ tl.pc ≠ .guard2 ∧ tl.pc ≠ .decide ∧
      ((tl.pc = .unlock ∨ tl.pc = .done) → ccall_IsOpen s)

theorem ccall_step_not_done (i : Nat) (s s' : Shared) (l l' : Local) (hs : step i s l = some (s', l')) :
    l.pc ≠ .done := by
  intro hd
  obtain ⟨job, pc, sw⟩ := l
  simp only at hd; subst hd
  simp [step] at hs

theorem ccall_OTThr_step (i : Nat) (s s' : Shared) (l l' : Local) (hfc : s.t.forcedClosed = false)
    (h : ccall_OTThr s l) (hs : step i s l = some (s', l')) : ccall_OTThr s' l' := by
  have hjob := (ccall_step_static i s s' l l' hs).1
  intro hj'
  rcases h (hjob ▸ hj') with ⟨hd, _⟩ | ⟨tl, hpc, hj, h1, h2, h3⟩
  · exact absurd hd (ccall_step_not_done i s s' l l' hs)
  · rcases ccall_step_trans i s s' l l' tl hpc hs with ⟨hd, rfl, rfl⟩ | ⟨_, t', tl', ht, rfl, rfl⟩
    · exact Or.inl ⟨rfl, h3 (Or.inr hd)⟩
    · have hj2 := (ccall_tstep_static _ _ _ _ _ ht).1
      obtain ⟨k1, k2, k3⟩ := ccall_tstep_opening _ _ _ _ _ ht hj hfc h1 h2 (fun e => h3 (Or.inl e))
      by_cases hd : tl'.pc = .done
      · refine Or.inl ⟨by simp [hd], k3 (Or.inr hd)⟩
      · refine Or.inr ⟨tl', by simp [hd], hj2.trans hj, k1, k2, k3⟩

def ccall_OT (c : Config Shared Local) : Prop :=
  c.shared.t.forcedClosed = false ∧ ccall_NC c ∧ ∀ (j : Nat) (l : Local), c.locals[j]? = some l → ccall_OTThr c.shared l

theorem ccall_OT_step (c : Config Shared Local) (i : Nat) (l : Local) (s' : Shared) (l' : Local)
    (h : ccall_OT c) (hl : c.locals[i]? = some l) (hs : step i c.shared l = some (s', l')) :
    ccall_OT { shared := s', locals := c.locals.set i l' } := by
  obtain ⟨h1, h2, h3⟩ := h
  have hst := ccall_step_static i _ _ _ _ hs
  have hnc := ccall_NCThr_step i _ _ _ _ (h2 i l hl) hs
  have hmono : ccall_IsOpen c.shared → ccall_IsOpen s' := by
    intro ho
    rcases ho with ho | ho
    · exact Or.inl (hnc.2 ho)
    · exact Or.inr (hst.2.1.trans ho)
  refine ⟨hst.2.2.trans h1, (ccall_NCO_step false c i l s' l' ⟨h2, fun e => by cases e⟩ hl hs).1, ?_⟩
  refine ccall_set_forall (fun _ l => ccall_OTThr c.shared l) (fun _ l => ccall_OTThr s' l) c.locals i l' h3
    (ccall_OTThr_step i _ _ _ _ h1 (h3 i l hl) hs) ?_
  intro j lj _ hj hjob
  rcases hj hjob with ⟨hd, ho⟩ | ⟨tl, hpc, hjt, k1, k2, k3⟩
  · exact Or.inl ⟨hd, hmono ho⟩
  · exact Or.inr ⟨tl, hpc, hjt, k1, k2, fun e => hmono (k3 e)⟩

theorem ccall_OT_init (fo io : Bool) (jobs : List Job) (hnc : neverCloses jobs = true) :
    ccall_OT (init fo false io jobs) := by
  refine ⟨rfl, ccall_NC_init fo false io jobs hnc, ?_⟩
  intro j l hl
  simp only [init, List.getElem?_map] at hl
  cases hj : jobs[j]? with
  | none => rw [hj] at hl; cases hl
  | some job =>
    rw [hj] at hl
    simp only [Option.map_some, Option.some.injEq] at hl
    subst hl
    intro hjob
    simp only at hjob; subst hjob
    exact Or.inr ⟨{ job := .open }, rfl, rfl, by simp, by simp, by simp⟩

theorem ccall_OT_run (c : Config Shared Local) (h : ccall_OT c) (sched : List Nat) : ccall_OT (run sys c sched) :=
  ccall_run_inv sys ccall_OT (fun c i l s' l' h hl hs => ccall_OT_step c i l s' l' h hl hs) c h sched

/-! ### threads that can only shed -/

theorem ccall_step_events_mono (i : Nat) (s s' : Shared) (l l' : Local) (hs : step i s l = some (s', l'))
    (e : Nat × Outcome) (he : e ∈ s.events) : e ∈ s'.events := by
  rcases ccall_step_events i _ _ _ _ hs with he' | ⟨_, he', _⟩ | ⟨_, he', _⟩ <;> rw [he'] <;> simp [he]

theorem ccall_step_events_other (i : Nat) (s s' : Shared) (l l' : Local) (hs : step i s l = some (s', l'))
    (j : Nat) (hne : j ≠ i) (o : Outcome) (ho : (j, o) ∈ s'.events) : (j, o) ∈ s.events := by
  rcases ccall_step_events i _ _ _ _ hs with he' | ⟨_, he', _⟩ | ⟨_, he', _⟩ <;> rw [he'] at ho
  · exact ho
  · simp only [List.mem_append, List.mem_singleton, Prod.mk.injEq] at ho
    rcases ho with ho | ⟨e, _⟩
    · exact ho
    · exact absurd e hne
  · simp only [List.mem_append, List.mem_singleton, Prod.mk.injEq] at ho
    rcases ho with ho | ⟨e, _⟩
    · exact ho
    · exact absurd e hne

/-- the program points of a call on its way to the refusal (`fo`: the ForceOpen flag) -/
def ccall_shedPc (fo : Bool) : Pc → Prop
  | .aFO | .gFO | .askAllow | .shedNow | .done => True
  | .aFC | .aFlag => fo = false
  | _ => False

/-- with the circuit open, not forced closed, and a closer that does not admit it, a call stays on its way to the
    refusal -/
theorem ccall_shed_step (i : Nat) (s s' : Shared) (l l' : Local) (sc : Script) (hs : step i s l = some (s', l'))
    (hj : l.job = .call sc) (ha : sc.allow = false) (hfc : s.t.forcedClosed = false) (ho : ccall_IsOpen s)
    (hp : ccall_shedPc s.t.forceOpen l.pc) :
    ccall_shedPc s'.t.forceOpen l'.pc ∧ s'.t = s.t ∧ (l'.pc = .done → (i, Outcome.shed) ∈ s'.events) := by
  obtain ⟨job, pc, sw⟩ := l
  simp only at hj; subst hj
  cases pc <;> simp only [ccall_shedPc] at hp <;> simp only [step] at hs
  all_goals (try split at hs)
  all_goals (try split at hs)
  all_goals (try simp only [Option.some.injEq, Prod.mk.injEq, reduceCtorEq] at hs)
  all_goals (try (obtain ⟨rfl, rfl⟩ := hs))
  all_goals simp_all [ccall_shedPc, ccall_IsOpen]

theorem ccall_shed_step_noran (i : Nat) (s s' : Shared) (l l' : Local) (hs : step i s l = some (s', l'))
    (fo : Bool) (hp : ccall_shedPc fo l'.pc) (j : Nat) (hn : (j, Outcome.ran) ∉ s.events) :
    (j, Outcome.ran) ∉ s'.events := by
  rcases ccall_step_events i _ _ _ _ hs with he' | ⟨_, he', _⟩ | ⟨_, he', hpc, _⟩
  · rw [he']; exact hn
  · rw [he']; simp [hn]
  · rw [hpc] at hp; simp [ccall_shedPc] at hp

theorem ccall_IsOpen_step (i : Nat) (s s' : Shared) (l l' : Local) (h : ccall_NCThr l)
    (hs : step i s l = some (s', l')) (ho : ccall_IsOpen s) : ccall_IsOpen s' := by
  rcases ho with ho | ho
  · exact Or.inl ((ccall_NCThr_step i _ _ _ _ h hs).2 ho)
  · exact Or.inr ((ccall_step_static i _ _ _ _ hs).2.1.trans ho)

/-- thread `i` is a call that can only be shed -/
def ccall_Shed (i : Nat) (sc : Script) (c : Config Shared Local) : Prop :=
  sc.allow = false ∧ c.shared.t.forcedClosed = false ∧ ccall_NC c ∧ ccall_IsOpen c.shared ∧
  (i, Outcome.ran) ∉ c.shared.events ∧
  ∃ l, c.locals[i]? = some l ∧ l.job = .call sc ∧ ccall_shedPc c.shared.t.forceOpen l.pc ∧
    (l.pc = .done → (i, Outcome.shed) ∈ c.shared.events)

theorem ccall_Shed_step (i : Nat) (sc : Script) (c : Config Shared Local) (k : Nat) (l : Local) (s' : Shared)
    (l' : Local) (h : ccall_Shed i sc c) (hl : c.locals[k]? = some l) (hs : step k c.shared l = some (s', l')) :
    ccall_Shed i sc { shared := s', locals := c.locals.set k l' } := by
  obtain ⟨ha, hfc, hnc, ho, hnr, li, hli, hji, hpi, hdi⟩ := h
  have hst := ccall_step_static k _ _ _ _ hs
  have hklt := ccall_lt_of_getElem? hl
  refine ⟨ha, hst.2.2.trans hfc, (ccall_NCO_step false c k l s' l' ⟨hnc, fun e => by cases e⟩ hl hs).1,
    ccall_IsOpen_step k _ _ _ _ (hnc k l hl) hs ho, ?_, ?_⟩
  · by_cases hki : i = k
    · subst hki
      rw [hl] at hli; cases hli
      have := ccall_shed_step i _ _ _ _ sc hs hji ha hfc ho hpi
      exact ccall_shed_step_noran i _ _ _ _ hs _ this.1 i hnr
    · intro hr
      exact hnr (ccall_step_events_other k _ _ _ _ hs i hki _ hr)
  · by_cases hki : i = k
    · subst hki
      rw [hl] at hli; cases hli
      have := ccall_shed_step i _ _ _ _ sc hs hji ha hfc ho hpi
      exact ⟨l', List.getElem?_set_self hklt, hst.1.trans hji, this.1, this.2.2⟩
    · refine ⟨li, by rw [List.getElem?_set_ne (fun e => hki e.symm)]; exact hli, hji, ?_, fun hd => ?_⟩
      · simp only [hst.2.1]; exact hpi
      · exact ccall_step_events_mono k _ _ _ _ hs _ (hdi hd)

theorem ccall_Shed_run (i : Nat) (sc : Script) (c : Config Shared Local) (h : ccall_Shed i sc c) (sched : List Nat) :
    ccall_Shed i sc (run sys c sched) :=
  ccall_run_inv sys (ccall_Shed i sc) (fun c k l s' l' h hl hs => ccall_Shed_step i sc c k l s' l' h hl hs) c h sched

/-! ### an open circuit whose closer admits nobody -/

def ccall_AllShedThr (fo : Bool) (l : Local) : Prop :=
  match l.job with
  | .call sc => sc.allow = false ∧ ccall_shedPc fo l.pc
  | .open => l.pc = .done ∨ ∃ tl, l.pc = .trans tl ∧ tl.job = .open
  | .close => False

def ccall_AllShed (c : Config Shared Local) : Prop :=
  c.shared.t.forcedClosed = false ∧ c.shared.t.isOpen = true ∧ (∀ i, (i, Outcome.ran) ∉ c.shared.events) ∧
  ∀ (j : Nat) (l : Local), c.locals[j]? = some l → ccall_AllShedThr c.shared.t.forceOpen l

theorem ccall_AllShedThr_step (i : Nat) (s s' : Shared) (l l' : Local) (hfc : s.t.forcedClosed = false)
    (hopen : s.t.isOpen = true) (hnr : ∀ j, (j, Outcome.ran) ∉ s.events) (h : ccall_AllShedThr s.t.forceOpen l)
    (hs : step i s l = some (s', l')) :
    ccall_AllShedThr s'.t.forceOpen l' ∧ s'.t.isOpen = true ∧ ∀ j, (j, Outcome.ran) ∉ s'.events := by
  have hst := ccall_step_static i _ _ _ _ hs
  obtain ⟨job, pc, sw⟩ := l
  obtain ⟨job', pc', sw'⟩ := l'
  simp only at hst
  obtain ⟨hjob, _, _⟩ := hst
  subst hjob
  cases job' with
  | call sc =>
    simp only [ccall_AllShedThr] at h ⊢
    have := ccall_shed_step i _ _ _ _ sc hs rfl h.1 hfc (Or.inl hopen) h.2
    exact ⟨⟨h.1, this.1⟩, by rw [this.2.1]; exact hopen,
      fun j => ccall_shed_step_noran i _ _ _ _ hs _ this.1 j (hnr j)⟩
  | «open» =>
    simp only [ccall_AllShedThr] at h ⊢
    rcases h with hd | ⟨tl, hpc, hj⟩
    · exact absurd hd (ccall_step_not_done i _ _ _ _ hs)
    · rcases ccall_step_trans i s s' _ _ tl hpc hs with ⟨_, rfl, e⟩ | ⟨_, t', tl', ht, rfl, e⟩
      · simp only [Local.mk.injEq] at e
        exact ⟨Or.inl e.2.1, hopen, hnr⟩
      · simp only [Local.mk.injEq] at e
        have hj2 := (ccall_tstep_static _ _ _ _ _ ht).1
        refine ⟨?_, ?_, hnr⟩
        · rw [e.2.1]
          by_cases hd : tl'.pc = .done
          · simp [hd]
          · exact Or.inr ⟨tl', by simp [hd], hj2.trans hj⟩
        · rcases ccall_tstep_isOpen _ _ _ _ _ ht with e | ⟨_, _, e⟩ | ⟨_, f, a, e⟩
          · exact e.trans hopen
          · exact e
          · rw [hj] at e; cases e
  | close => exact absurd h (by simp [ccall_AllShedThr])

theorem ccall_AllShed_step (c : Config Shared Local) (i : Nat) (l : Local) (s' : Shared) (l' : Local)
    (h : ccall_AllShed c) (hl : c.locals[i]? = some l) (hs : step i c.shared l = some (s', l')) :
    ccall_AllShed { shared := s', locals := c.locals.set i l' } := by
  obtain ⟨h1, h2, h3, h4⟩ := h
  have hst := ccall_step_static i _ _ _ _ hs
  have hi := ccall_AllShedThr_step i _ _ _ _ h1 h2 h3 (h4 i l hl) hs
  exact ⟨hst.2.2.trans h1, hi.2.1, hi.2.2,
    ccall_set_forall (fun _ l => ccall_AllShedThr c.shared.t.forceOpen l) (fun _ l => ccall_AllShedThr s'.t.forceOpen l)
      c.locals i l' h4 hi.1 (fun _ _ _ hj => by rw [hst.2.1]; exact hj)⟩

theorem ccall_AllShed_init (fo : Bool) (jobs : List Job) (hadm : closerAdmitsNone jobs = true)
    (hnc : jobs.all (· != .close) = true) : ccall_AllShed (init fo false true jobs) := by
  refine ⟨rfl, rfl, by simp [init], ?_⟩
  intro j l hl
  simp only [init, List.getElem?_map] at hl
  cases hj : jobs[j]? with
  | none => rw [hj] at hl; cases hl
  | some job =>
    rw [hj] at hl
    simp only [Option.map_some, Option.some.injEq] at hl
    subst hl
    have hm : job ∈ jobs := List.mem_iff_getElem?.mpr ⟨j, hj⟩
    simp only [closerAdmitsNone, List.all_eq_true] at hadm hnc
    have h1 := hadm job hm
    have h2 := hnc job hm
    cases job <;> simp_all [ccall_AllShedThr, startPc, ccall_shedPc]

theorem ccall_AllShed_run (c : Config Shared Local) (h : ccall_AllShed c) (sched : List Nat) :
    ccall_AllShed (run sys c sched) :=
  ccall_run_inv sys ccall_AllShed (fun c i l s' l' h hl hs => ccall_AllShed_step c i l s' l' h hl hs) c h sched

/-! ### a call that starts while the circuit is open -/

theorem ccall_Shed_start (fo : Bool) (jobs : List Job) (c1 : Config Shared Local) (i : Nat) (l : Local) (sc : Script)
    (hinv : ccall_Inv fo c1) (hfc : c1.shared.t.forcedClosed = false) (hnc : ccall_NC c1)
    (hjobs : c1.locals.map (·.job) = jobs) (hadm : closerAdmitsNone jobs = true)
    (ho : c1.shared.t.isOpen = true ∨ fo = true) (hl : c1.locals[i]? = some l) (hns : notStarted l = true)
    (hj : l.job = .call sc) : ccall_Shed i sc c1 := by
  have hpc : l.pc = .aFO := by
    have : l.pc = startPc l.job := by simpa [notStarted] using hns
    rw [this, hj]; rfl
  have hthr := hinv.2.2.2 i l hl
  obtain ⟨job, pc, sw⟩ := l
  simp only at hj hpc; subst hj; subst hpc
  have hm : Job.call sc ∈ jobs := List.mem_iff_getElem?.mpr ⟨i, ccall_job_of hjobs hl⟩
  simp only [closerAdmitsNone, List.all_eq_true] at hadm
  have ha := hadm _ hm
  refine ⟨by simpa using ha, hfc, hnc, ?_, hthr.2 _, _, hl, rfl, by simp [ccall_shedPc], fun hd => by cases hd⟩
  rcases ho with ho | ho
  · exact Or.inl ho
  · exact Or.inr (hinv.1.trans ho)

/-- OpenCircuit / CloseCircuit threads never record an outcome -/
theorem ccall_noncall_noev (fo : Bool) (c1 : Config Shared Local) (hinv : ccall_Inv fo c1) (i : Nat) (l : Local)
    (hl : c1.locals[i]? = some l) (hj : ∀ sc, l.job ≠ .call sc) (s2 : List Nat) (o : Outcome) :
    (i, o) ∉ (run sys c1 s2).shared.events := by
  intro ho
  have hinv2 := ccall_Inv_run fo c1 hinv s2
  obtain ⟨l2, hl2, hthr⟩ := ccall_Inv_thread fo _ hinv2 i o ho
  obtain ⟨sc, hsc⟩ := ccall_Thr_ev fo i _ l2 hthr o ho
  have h1 := ccall_job_of (ccall_run_static c1 s2).2.2 hl2
  have h2 := ccall_job_of (rfl : c1.locals.map (·.job) = _) hl
  rw [h2, hsc] at h1
  exact hj sc (Option.some.inj h1)

/-! ### every reachable configuration -/

theorem ccall_reach (fo fc io : Bool) (jobs : List Job) (sched : List Nat) :
    ccall_Inv fo (run sys (init fo fc io jobs) sched) ∧
    (run sys (init fo fc io jobs) sched).locals.map (·.job) = jobs :=
  ⟨ccall_Inv_run fo _ (ccall_Inv_init fo fc io jobs) sched,
   (ccall_run_static (init fo fc io jobs) sched).2.2.trans (ccall_init_jobs fo fc io jobs)⟩

/-- a recorded invocation: the thread is a call, not vetoed, admitted by its own reading; and nobody reads "closed"
    under ForceOpen -/
theorem ccall_Inv_ran (fo : Bool) (jobs : List Job) (c : Config Shared Local) (hinv : ccall_Inv fo c)
    (hjobs : c.locals.map (·.job) = jobs) (i : Nat) (hr : (i, Outcome.ran) ∈ c.shared.events) :
    ∃ sc l, jobs[i]? = some (.call sc) ∧ c.locals[i]? = some l ∧ sc.prevent = false ∧
      (l.sawOpen = some false ∨ (l.sawOpen = some true ∧ sc.allow = true ∧ fo = false)) ∧
      (l.sawOpen = some false → fo = false) := by
  obtain ⟨l, hl, hthr⟩ := ccall_Inv_thread fo _ hinv i _ hr
  obtain ⟨sc, hj, hp, hadm⟩ := ccall_Thr_ran fo i _ l hthr hinv.2.1 hr
  exact ⟨sc, l, by rw [ccall_job_of hjobs hl, hj], hl, hp, hadm, hthr.1⟩

/-- each call decides exactly once -/
theorem ccall_Inv_outcomes (fo : Bool) (jobs : List Job) (c : Config Shared Local) (hinv : ccall_Inv fo c)
    (hjobs : c.locals.map (·.job) = jobs) :
    (c.shared.events.map (·.1)).Nodup ∧
    (∀ e ∈ c.shared.events, ∃ sc, jobs[e.1]? = some (.call sc)) ∧
    (∀ i sc l, jobs[i]? = some (.call sc) → c.locals[i]? = some l → l.pc = .done → (outcomeOf c i).isSome) := by
  refine ⟨hinv.2.1, ?_, ?_⟩
  · intro e he
    obtain ⟨l, hl, hthr⟩ := ccall_Inv_thread fo _ hinv e.1 e.2 he
    obtain ⟨sc, hj⟩ := ccall_Thr_ev fo _ _ l hthr e.2 he
    exact ⟨sc, by rw [ccall_job_of hjobs hl, hj]⟩
  · intro i sc l hj hl hpc
    have hj' : l.job = .call sc := by
      have := ccall_job_of hjobs hl
      rw [hj] at this; exact (Option.some.inj this).symm
    obtain ⟨o, ho⟩ := ccall_Thr_done fo i _ l (hinv.2.2.2 i l hl) sc hj' hpc
    exact ccall_outcomeOf_isSome _ i o ho

/-- a returned OpenCircuit thread (no ForcedClosed, nothing that closes) has left the circuit open -/
theorem ccall_OT_returned (fo : Bool) (jobs : List Job) (sched : List Nat) (k : Nat) (l : Local)
    (hnc : neverCloses jobs = true) (hj : jobs[k]? = some .open)
    (hl : (run sys (init fo false false jobs) sched).locals[k]? = some l) (hpc : l.pc = .done) :
    (run sys (init fo false false jobs) sched).shared.t.isOpen = true ∨ fo = true := by
  have hot := ccall_OT_run _ (ccall_OT_init fo false jobs hnc) sched
  have hst := ccall_run_static (init fo false false jobs) sched
  have hjob : l.job = .open := by
    have := ccall_job_of (hst.2.2.trans (ccall_init_jobs fo false false jobs)) hl
    rw [hj] at this; exact (Option.some.inj this).symm
  rcases hot.2.2 k l hl hjob with ⟨_, ho⟩ | ⟨tl, hpc', _⟩
  · rcases ho with ho | ho
    · exact Or.inl ho
    · exact Or.inr (hst.1.symm.trans ho)
  · rw [hpc] at hpc'; cases hpc'

/-- a thread that has not started when the circuit is open (closer admits nobody, nothing closes) is shed -/
theorem ccall_late_shed (fo : Bool) (jobs : List Job) (s1 s2 : List Nat) (i : Nat) (l : Local)
    (hadm : closerAdmitsNone jobs = true) (hnc : neverCloses jobs = true)
    (hopen : (run sys (init fo false false jobs) s1).shared.t.isOpen = true ∨ fo = true)
    (hl : (run sys (init fo false false jobs) s1).locals[i]? = some l) (hns : notStarted l = true) :
    (i, Outcome.ran) ∉ (run sys (run sys (init fo false false jobs) s1) s2).shared.events ∧
    (∀ l2, (run sys (run sys (init fo false false jobs) s1) s2).locals[i]? = some l2 → l2.pc = .done →
      (∃ sc, l.job = .call sc) → (i, Outcome.shed) ∈ (run sys (run sys (init fo false false jobs) s1) s2).shared.events) := by
  have hr := ccall_reach fo false false jobs s1
  have hst1 := ccall_run_static (init fo false false jobs) s1
  by_cases hcall : ∃ sc, l.job = .call sc
  · obtain ⟨sc, hj⟩ := hcall
    obtain ⟨_, _, _, _, hnr, l2', hl2', _, _, hd⟩ := ccall_Shed_run i sc _ (ccall_Shed_start fo jobs _ i l sc hr.1
      hst1.2.1 (ccall_NC_run _ (ccall_NC_init fo false false jobs hnc) s1) hr.2 hadm hopen hl hns hj) s2
    refine ⟨hnr, fun l2 hl2 hpc _ => ?_⟩
    rw [hl2'] at hl2; cases hl2; exact hd hpc
  · exact ⟨ccall_noncall_noev fo _ hr.1 i l hl (fun sc e => hcall ⟨sc, e⟩) s2 _, fun _ _ _ h => absurd h hcall⟩

end CM.Conc.Call

import CircuitModel.Conc.Call
namespace CM.Conc.Call
end CM.Conc.Call

/-
  Lemmas/F64.lean — facts about the exact-rational binary64 model (CircuitModel/F64.lean):
  `roundHalfEven` is monotone, odd and fixes integers; `ilog2` is the binade exponent; `rne` is monotone, odd,
  and the identity on integers of magnitude ≤ 2^53; `toInt` is monotone on non-negative rationals.
-/
import CircuitModel.F64
import Mathlib.Data.Rat.Floor
import Mathlib.Tactic.Linarith
import Mathlib.Tactic.Ring
import Mathlib.Tactic.NormNum
import Mathlib.Tactic.Positivity
namespace CM.F64

/-! ### roundHalfEven -/

theorem floor_le' (q : Rat) : (q.floor : Rat) ≤ q := Rat.floor_le q
theorem lt_floor_add_one' (q : Rat) : q < (q.floor : Rat) + 1 := by
  have := Rat.lt_floor_add_one q
  push_cast at this
  exact this

theorem rhe_floor_le (q : Rat) : q.floor ≤ roundHalfEven q := by
  unfold roundHalfEven
  dsimp only
  split_ifs <;> omega

theorem rhe_le_floor_succ (q : Rat) : roundHalfEven q ≤ q.floor + 1 := by
  unfold roundHalfEven
  dsimp only
  split_ifs <;> omega

theorem rhe_intCast (z : Int) : roundHalfEven (z : Rat) = z := by
  unfold roundHalfEven
  dsimp only
  rw [Rat.floor_intCast]
  simp

theorem rhe_mono {q₁ q₂ : Rat} (h : q₁ ≤ q₂) : roundHalfEven q₁ ≤ roundHalfEven q₂ := by
  have hf : q₁.floor ≤ q₂.floor := Rat.floor_monotone h
  rcases lt_or_eq_of_le hf with hlt | heq
  · have h1 := rhe_le_floor_succ q₁
    have h2 := rhe_floor_le q₂
    omega
  · unfold roundHalfEven
    dsimp only
    rw [heq]
    have hr : q₁ - (q₂.floor : Rat) ≤ q₂ - (q₂.floor : Rat) := by linarith
    split_ifs <;> first | omega | (exfalso; linarith) 

theorem floor_neg_of_not_int (q : Rat) (h : (q.floor : Rat) ≠ q) : (-q).floor = -q.floor - 1 := by
  have h1 := floor_le' q
  have h2 := lt_floor_add_one' q
  have hlt : (q.floor : Rat) < q := lt_of_le_of_ne h1 h
  apply le_antisymm
  · have : (-q).floor < -q.floor := by
      rw [Rat.floor_lt_iff]; push_cast; linarith
    omega
  · rw [Rat.le_floor_iff]; push_cast; linarith

theorem rhe_neg (q : Rat) : roundHalfEven (-q) = - roundHalfEven q := by
  by_cases hq : (q.floor : Rat) = q
  · rw [← hq, ← Int.cast_neg, rhe_intCast, rhe_intCast]
  · have hfn := floor_neg_of_not_int q hq
    have h1 := floor_le' q
    have hlt : (q.floor : Rat) < q := lt_of_le_of_ne h1 hq
    unfold roundHalfEven
    dsimp only
    rw [hfn]
    push_cast
    split_ifs <;> first | omega | (exfalso; linarith)

theorem rhe_le_of_le_int {q : Rat} {z : Int} (h : q ≤ z) : roundHalfEven q ≤ z := by
  have := rhe_mono h; rwa [rhe_intCast] at this
theorem le_rhe_of_int_le {q : Rat} {z : Int} (h : (z : Rat) ≤ q) : z ≤ roundHalfEven q := by
  have := rhe_mono h; rwa [rhe_intCast] at this

/-! ### pow2 and ilog2 -/

theorem pow2_eq (e : Int) : pow2 e = (2:ℚ)^e := by
  unfold pow2
  split_ifs with h
  · obtain ⟨n, rfl⟩ := Int.eq_ofNat_of_zero_le h
    simp
  · obtain ⟨n, hn⟩ := Int.exists_eq_neg_ofNat (le_of_lt (not_le.mp h))
    subst hn; simp

theorem two_zpow_pos (e : Int) : (0:ℚ) < (2:ℚ)^e := zpow_pos (by norm_num) e

theorem two_zpow_le {a b : Int} (h : a ≤ b) : (2:ℚ)^a ≤ (2:ℚ)^b :=
  zpow_le_zpow_right₀ (by norm_num) h

theorem two_zpow_lt {a b : Int} (h : a < b) : (2:ℚ)^a < (2:ℚ)^b :=
  zpow_lt_zpow_right₀ (by norm_num) h

theorem two_zpow_add (a b : Int) : (2:ℚ)^(a+b) = (2:ℚ)^a * (2:ℚ)^b :=
  zpow_add₀ (by norm_num) a b

theorem ilog2_pre {x : Rat} (hx : 0 < x) :
    (2:ℚ)^(((x.num.natAbs.log2 : Int) - (x.den.log2 : Int)) - 1) < x ∧
    x < (2:ℚ)^(((x.num.natAbs.log2 : Int) - (x.den.log2 : Int)) + 1) := by
  have hnum : 0 < x.num := Rat.num_pos.mpr hx
  set a := x.num.natAbs with ha
  set d := x.den with hd
  have ha0 : a ≠ 0 := by omega
  have hd0 : d ≠ 0 := x.den_nz
  have hxa : x * (d:ℚ) = (a:ℚ) := by
    have h1 : x * (x.den : ℚ) = x.num := Rat.mul_den_eq_num x
    have h2 : ((a:ℤ):ℚ) = (x.num : ℚ) := by
      congr 1; omega
    rw [h1, ← h2]; simp
  have a1 : ((2:ℚ))^(a.log2 : Int) ≤ a := by
    have := Nat.log2_self_le ha0
    rw [zpow_natCast]; exact_mod_cast this
  have a2 : (a:ℚ) < (2:ℚ)^((a.log2 : Int) + 1) := by
    have := @Nat.lt_log2_self a
    have e : ((a.log2 : Int) + 1) = ((a.log2 + 1 : Nat) : Int) := by push_cast; ring
    rw [e, zpow_natCast]; exact_mod_cast this
  have d1 : ((2:ℚ))^(d.log2 : Int) ≤ d := by
    have := Nat.log2_self_le hd0
    rw [zpow_natCast]; exact_mod_cast this
  have d2 : (d:ℚ) < (2:ℚ)^((d.log2 : Int) + 1) := by
    have := @Nat.lt_log2_self d
    have e : ((d.log2 : Int) + 1) = ((d.log2 + 1 : Nat) : Int) := by push_cast; ring
    rw [e, zpow_natCast]; exact_mod_cast this
  have hdpos : (0:ℚ) < d := by exact_mod_cast Nat.pos_of_ne_zero hd0
  constructor
  · -- 2^(la - ld - 1) * d < 2^(la-ld-1) * 2^(ld+1) = 2^la ≤ a = x * d
    have h1 : (2:ℚ)^(((a.log2 : Int) - (d.log2 : Int)) - 1) * (2:ℚ)^((d.log2 : Int) + 1) = (2:ℚ)^(a.log2 : Int) := by
      rw [← two_zpow_add]; congr 1; ring
    have h2 : (2:ℚ)^(((a.log2 : Int) - (d.log2 : Int)) - 1) * d < x * d := by
      calc _ < (2:ℚ)^(((a.log2 : Int) - (d.log2 : Int)) - 1) * (2:ℚ)^((d.log2 : Int) + 1) :=
            mul_lt_mul_of_pos_left d2 (two_zpow_pos _)
        _ ≤ x * d := by rw [h1, hxa]; exact a1
    exact lt_of_mul_lt_mul_right h2 (le_of_lt hdpos)
  · have h1 : (2:ℚ)^(((a.log2 : Int) - (d.log2 : Int)) + 1) * (2:ℚ)^((d.log2 : Int)) = (2:ℚ)^((a.log2 : Int) + 1) := by
      rw [← two_zpow_add]; congr 1; ring
    have h2 : x * d < (2:ℚ)^(((a.log2 : Int) - (d.log2 : Int)) + 1) * d := by
      calc x * d < (2:ℚ)^((a.log2 : Int) + 1) := by rw [hxa]; exact a2
        _ = (2:ℚ)^(((a.log2 : Int) - (d.log2 : Int)) + 1) * (2:ℚ)^((d.log2 : Int)) := h1.symm
        _ ≤ _ := mul_le_mul_of_nonneg_left d1 (le_of_lt (two_zpow_pos _))
    exact lt_of_mul_lt_mul_right h2 (le_of_lt hdpos)

theorem ilog2_spec {x : Rat} (hx : 0 < x) : (2:ℚ)^(ilog2 x) ≤ x ∧ x < (2:ℚ)^(ilog2 x + 1) := by
  obtain ⟨h1, h2⟩ := ilog2_pre hx
  unfold ilog2
  dsimp only
  simp only [pow2_eq]
  split_ifs with c1 c2
  · exfalso; linarith
  · exact ⟨c1, h2⟩
  · have c1 := not_le.mp c1
    refine ⟨le_of_lt h1, ?_⟩
    have : ((x.num.natAbs.log2 : Int) - (x.den.log2 : Int)) - 1 + 1 = (x.num.natAbs.log2 : Int) - (x.den.log2 : Int) := by ring
    rw [this]; exact c1

/-- uniqueness: the exponent is determined by the binade -/
theorem ilog2_unique {x : Rat} {e : Int} (h1 : (2:ℚ)^e ≤ x) (h2 : x < (2:ℚ)^(e+1)) : ilog2 x = e := by
  have hx : 0 < x := lt_of_lt_of_le (two_zpow_pos e) h1
  obtain ⟨s1, s2⟩ := ilog2_spec hx
  by_contra hne
  rcases lt_or_gt_of_ne hne with hlt | hgt
  · have : (2:ℚ)^(ilog2 x + 1) ≤ (2:ℚ)^e := two_zpow_le (by omega)
    linarith
  · have : (2:ℚ)^(e + 1) ≤ (2:ℚ)^(ilog2 x) := two_zpow_le (by omega)
    linarith

theorem ilog2_mono {x y : Rat} (hx : 0 < x) (hxy : x ≤ y) : ilog2 x ≤ ilog2 y := by
  obtain ⟨s1, s2⟩ := ilog2_spec hx
  obtain ⟨t1, t2⟩ := ilog2_spec (lt_of_lt_of_le hx hxy)
  by_contra hne
  have hne := not_le.mp hne
  have : (2:ℚ)^(ilog2 y + 1) ≤ (2:ℚ)^(ilog2 x) := two_zpow_le (by omega)
  linarith

/-! ### rne: binades, monotonicity, oddness -/

/-- clamped binade exponent of a positive rational -/
def cx (x : Rat) : Int := if ilog2 x < -1022 then -1022 else ilog2 x

theorem cx_ge (x : Rat) : -1022 ≤ cx x := by unfold cx; split_ifs <;> omega
theorem ilog2_le_cx (x : Rat) : ilog2 x ≤ cx x := by unfold cx; split_ifs <;> omega
theorem cx_eq_of_gt {x : Rat} (h : -1022 < cx x) : cx x = ilog2 x := by
  unfold cx at h ⊢; split_ifs at h ⊢ <;> omega

theorem ulpOf_pos_eq {x : Rat} (hx : 0 < x) : ulpOf x = (2:ℚ)^(cx x - 52) := by
  unfold ulpOf cx
  dsimp only
  rw [if_neg (not_lt.mpr (le_of_lt hx)), pow2_eq]

theorem rne_pos_eq {x : Rat} (hx : 0 < x) :
    rne x = (roundHalfEven (x / (2:ℚ)^(cx x - 52)) : Rat) * (2:ℚ)^(cx x - 52) := by
  unfold rne
  rw [if_neg (ne_of_gt hx)]
  dsimp only
  rw [ulpOf_pos_eq hx]

theorem cx_mono {x y : Rat} (hx : 0 < x) (hxy : x ≤ y) : cx x ≤ cx y := by
  have := ilog2_mono hx hxy
  unfold cx; split_ifs <;> omega

theorem lt_cx {x : Rat} (hx : 0 < x) : x < (2:ℚ)^(cx x + 1) := by
  have h := (ilog2_spec hx).2
  have : (2:ℚ)^(ilog2 x + 1) ≤ (2:ℚ)^(cx x + 1) := two_zpow_le (by have := ilog2_le_cx x; omega)
  linarith

theorem cx_le {x : Rat} (hx : 0 < x) (h : -1022 < cx x) : (2:ℚ)^(cx x) ≤ x := by
  rw [cx_eq_of_gt h]; exact (ilog2_spec hx).1

theorem two_zpow_div (a b : Int) : (2:ℚ)^a / (2:ℚ)^b = (2:ℚ)^(a-b) := by
  rw [zpow_sub₀ (by norm_num)]

theorem rne_le_top {x : Rat} (hx : 0 < x) : rne x ≤ (2:ℚ)^(cx x + 1) := by
  rw [rne_pos_eq hx]
  have hu := two_zpow_pos (cx x - 52)
  have h1 : x / (2:ℚ)^(cx x - 52) ≤ ((2^53 : Int) : ℚ) := by
    rw [div_le_iff₀ hu]
    have : (((2:Int)^53 : Int) : ℚ) * (2:ℚ)^(cx x - 52) = (2:ℚ)^(cx x + 1) := by
      have e : cx x + 1 = 53 + (cx x - 52) := by ring
      rw [e, two_zpow_add]; norm_num
    rw [this]; exact le_of_lt (lt_cx hx)
  have h2 := rhe_le_of_le_int h1
  have h3 : ((roundHalfEven (x / (2:ℚ)^(cx x - 52)) : Int) : ℚ) ≤ ((2^53 : Int) : ℚ) := by exact_mod_cast h2
  calc _ ≤ ((2^53 : Int) : ℚ) * (2:ℚ)^(cx x - 52) := mul_le_mul_of_nonneg_right h3 (le_of_lt hu)
    _ = (2:ℚ)^(cx x + 1) := by
      have e : cx x + 1 = 53 + (cx x - 52) := by ring
      rw [e, two_zpow_add]; norm_num

theorem rne_ge_bot {x : Rat} (hx : 0 < x) (h : -1022 < cx x) : (2:ℚ)^(cx x) ≤ rne x := by
  rw [rne_pos_eq hx]
  have hu := two_zpow_pos (cx x - 52)
  have hk : (((2:Int)^52 : Int) : ℚ) * (2:ℚ)^(cx x - 52) = (2:ℚ)^(cx x) := by
    have e : cx x = 52 + (cx x - 52) := by ring
    conv_rhs => rw [e, two_zpow_add]
    norm_num
  have h1 : ((2^52 : Int) : ℚ) ≤ x / (2:ℚ)^(cx x - 52) := by
    rw [le_div_iff₀ hu, hk]; exact cx_le hx h
  have h2 := le_rhe_of_int_le h1
  have h3 : ((2^52 : Int) : ℚ) ≤ ((roundHalfEven (x / (2:ℚ)^(cx x - 52)) : Int) : ℚ) := by exact_mod_cast h2
  calc (2:ℚ)^(cx x) = ((2^52 : Int) : ℚ) * (2:ℚ)^(cx x - 52) := hk.symm
    _ ≤ _ := mul_le_mul_of_nonneg_right h3 (le_of_lt hu)

theorem rne_zero : rne 0 = 0 := by unfold rne; simp

theorem rne_nonneg {x : Rat} (hx : 0 ≤ x) : 0 ≤ rne x := by
  rcases eq_or_lt_of_le hx with h | h
  · rw [← h, rne_zero]
  · rw [rne_pos_eq h]
    have hu := two_zpow_pos (cx x - 52)
    have h1 : ((0:Int) : ℚ) ≤ x / (2:ℚ)^(cx x - 52) := by
      simp only [Int.cast_zero]; exact div_nonneg hx (le_of_lt hu)
    have h2 := le_rhe_of_int_le h1
    have h3 : (0:ℚ) ≤ ((roundHalfEven (x / (2:ℚ)^(cx x - 52)) : Int) : ℚ) := by exact_mod_cast h2
    exact mul_nonneg h3 (le_of_lt hu)

theorem rne_mono_pos {x y : Rat} (hx : 0 < x) (hxy : x ≤ y) : rne x ≤ rne y := by
  have hy : 0 < y := lt_of_lt_of_le hx hxy
  rcases lt_or_eq_of_le (cx_mono hx hxy) with hlt | heq
  · have h1 := rne_le_top hx
    have h2 := rne_ge_bot hy (by have := cx_ge x; omega)
    have h3 : (2:ℚ)^(cx x + 1) ≤ (2:ℚ)^(cx y) := two_zpow_le (by omega)
    linarith
  · rw [rne_pos_eq hx, rne_pos_eq hy, heq]
    have hu := two_zpow_pos (cx y - 52)
    have h1 : x / (2:ℚ)^(cx y - 52) ≤ y / (2:ℚ)^(cx y - 52) := div_le_div_of_nonneg_right hxy (le_of_lt hu)
    have h2 := rhe_mono h1
    have h3 : ((roundHalfEven (x / (2:ℚ)^(cx y - 52)) : Int) : ℚ) ≤ ((roundHalfEven (y / (2:ℚ)^(cx y - 52)) : Int) : ℚ) := by
      exact_mod_cast h2
    exact mul_le_mul_of_nonneg_right h3 (le_of_lt hu)

theorem ulpOf_neg {x : Rat} (hx : x ≠ 0) : ulpOf (-x) = ulpOf x := by
  unfold ulpOf
  dsimp only
  rcases lt_or_gt_of_ne hx with h | h
  · rw [if_neg (by linarith : ¬ (-x < 0)), if_pos h]
  · rw [if_pos (by linarith : (-x < 0)), if_neg (by linarith : ¬ (x < 0)), neg_neg]

theorem rne_neg (x : Rat) : rne (-x) = - rne x := by
  by_cases hx : x = 0
  · subst hx; simp [rne_zero]
  · unfold rne
    rw [if_neg hx, if_neg (neg_ne_zero.mpr hx)]
    dsimp only
    rw [ulpOf_neg hx, neg_div, rhe_neg]
    push_cast; ring

theorem rne_nonpos {x : Rat} (hx : x ≤ 0) : rne x ≤ 0 := by
  have := rne_nonneg (x := -x) (by linarith)
  rw [rne_neg] at this; linarith

theorem rne_mono {x y : Rat} (hxy : x ≤ y) : rne x ≤ rne y := by
  rcases lt_trichotomy 0 x with hx | hx | hx
  · exact rne_mono_pos hx hxy
  · subst hx; rw [rne_zero]; exact rne_nonneg hxy
  · rcases lt_or_ge y 0 with hy | hy
    · have := rne_mono_pos (x := -y) (y := -x) (by linarith) (by linarith)
      rw [rne_neg, rne_neg] at this; linarith
    · have h1 := rne_nonpos (le_of_lt hx)
      have h2 := rne_nonneg hy
      linarith

/-! ### rne fixes integers up to 2^53 -/

/-- a positive multiple of its own ulp is a fixed point of rne -/
theorem rne_of_multiple {x : Rat} (hx : 0 < x) (k : Int) (hk : x = (k : ℚ) * (2:ℚ)^(cx x - 52)) : rne x = x := by
  rw [rne_pos_eq hx]
  have hu := two_zpow_pos (cx x - 52)
  have : x / (2:ℚ)^(cx x - 52) = (k : ℚ) := by
    rw [div_eq_iff (ne_of_gt hu)]; exact hk
  rw [this, rhe_intCast]; exact hk.symm

theorem rne_int_pos {z : Int} (hz : 0 < z) (hle : z ≤ 2^53) : rne (z : ℚ) = z := by
  have hx : (0:ℚ) < (z:ℚ) := by exact_mod_cast hz
  obtain ⟨s1, s2⟩ := ilog2_spec hx
  have he0 : 0 ≤ ilog2 (z:ℚ) := by
    by_contra hneg
    have h1 : (2:ℚ)^(ilog2 (z:ℚ) + 1) ≤ (2:ℚ)^(0:Int) := two_zpow_le (by omega)
    have h2 : (1:ℚ) ≤ (z:ℚ) := by exact_mod_cast hz
    rw [zpow_zero] at h1; linarith
  have he53 : ilog2 (z:ℚ) ≤ 53 := by
    by_contra hbig
    have h1 : (2:ℚ)^(54:Int) ≤ (2:ℚ)^(ilog2 (z:ℚ)) := two_zpow_le (by omega)
    have h2 : (z:ℚ) ≤ ((2^53 : Int) : ℚ) := by exact_mod_cast hle
    norm_num at h1 h2; linarith
  have hc : cx (z:ℚ) = ilog2 (z:ℚ) := by unfold cx; split_ifs <;> omega
  rcases lt_or_eq_of_le he53 with hlt | heq
  · obtain ⟨m, hm⟩ : ∃ m : Nat, ilog2 (z:ℚ) - 52 = -(m : Int) := ⟨(52 - ilog2 (z:ℚ)).toNat, by omega⟩
    apply rne_of_multiple hx (z * 2^m)
    rw [hc, hm, zpow_neg, zpow_natCast]
    push_cast
    field_simp
  · have hz53 : (z:ℚ) = (2:ℚ)^(53:Int) := by
      apply le_antisymm
      · have h2 : (z:ℚ) ≤ ((2^53 : Int) : ℚ) := by exact_mod_cast hle
        norm_num at h2 ⊢; exact h2
      · rw [heq] at s1; exact s1
    apply rne_of_multiple hx (2^52)
    rw [hc, heq, hz53]; norm_num

theorem rne_int (z : Int) (hz : |z| ≤ 2^53) : rne (z : ℚ) = z := by
  rcases lt_trichotomy 0 z with h | h | h
  · exact rne_int_pos h (by have := le_abs_self z; omega)
  · subst h; simp [rne_zero]
  · have h1 : rne (((-z : Int)) : ℚ) = ((-z : Int) : ℚ) :=
      rne_int_pos (by omega) (by have := neg_abs_le z; omega)
    push_cast at h1
    rw [rne_neg] at h1; linarith

theorem rne_one : rne 1 = 1 := by
  have := rne_int 1 (by norm_num); simpa using this

/-! ### F3: bounds transported through rne -/

theorem rne_le_int {x : Rat} {k : Int} (hk : |k| ≤ 2^53) (h : x ≤ k) : rne x ≤ k := by
  have := rne_mono h; rwa [rne_int k hk] at this

theorem int_le_rne {x : Rat} {k : Int} (hk : |k| ≤ 2^53) (h : (k:ℚ) ≤ x) : (k:ℚ) ≤ rne x := by
  have := rne_mono h; rwa [rne_int k hk] at this

theorem rne_le_one {x : Rat} (h : x ≤ 1) : rne x ≤ 1 := by
  have := rne_mono h; rwa [rne_one] at this

/-! ### toInt -/

theorem toInt_of_nonneg {x : Rat} (h : 0 ≤ x) : toInt x = x.floor := by
  unfold toInt; rw [if_neg (not_lt.mpr h)]

theorem toInt_nonneg {x : Rat} (h : 0 ≤ x) : 0 ≤ toInt x := by
  rw [toInt_of_nonneg h, Rat.le_floor_iff]; simpa using h

theorem toInt_mono_nonneg {x y : Rat} (hx : 0 ≤ x) (hxy : x ≤ y) : toInt x ≤ toInt y := by
  rw [toInt_of_nonneg hx, toInt_of_nonneg (le_trans hx hxy)]
  exact Rat.floor_monotone hxy

theorem toInt_le_of_le_int {x : Rat} {k : Int} (hx : 0 ≤ x) (h : x ≤ k) : toInt x ≤ k := by
  rw [toInt_of_nonneg hx]
  have := Rat.floor_monotone h
  rwa [Rat.floor_intCast] at this

theorem toInt_intCast (k : Int) : toInt (k : ℚ) = k := by
  unfold toInt
  split_ifs with h
  · rw [← Int.cast_neg, Rat.floor_intCast]; ring
  · exact Rat.floor_intCast k

end CM.F64

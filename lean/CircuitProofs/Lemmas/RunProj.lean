/-
  Lemmas/RunProj.lean — the whole-call model (Conc/Run) projects onto Conc/Call and Conc/Gauge.
  (1) generic simulation: `rp_sim_schedule` (the statement of Props/RunAll.sim_schedule) and its refinement
      `rp_sim_schedule_inv`, in which the step correspondence is only required of local states satisfying an
      invariant `P` that every step preserves.
  (2) the well-formedness `rp_wf` of a local state (what every state reachable from `init` satisfies: the kind a
      program counter carries is the script's kind, a transition is followed by `manual` or by a kind that looks at the
      state, only `rejected` / `ran` / `panicked` calls decrement the gauge); `rp_wf_step` (preserved);
      `rp_step_call` / `rp_step_gauge` (every step from a well-formed state is a step of the projection, or nothing).
      WITHOUT `rp_wf` these two are FALSE: `rp_step_call_false`, `rp_step_gauge_false`, and so are the views of an
      arbitrary configuration: `rp_call_view_false`, `rp_gauge_view_false`.
  (3) the views `rp_call_view` / `rp_gauge_view` of every configuration all of whose locals are well-formed, the
      projections of `init`, and the theorems of C04 / C01Conc read back through the projections.
-/
import CircuitModel.Conc.Run
import CircuitProofs.Props.C04
import CircuitProofs.Props.C01Conc
namespace CM.Lemmas.RunProj
open CM.Conc CM.Conc.Run

/-! ### generic: lists, `run` -/

theorem rp_set_map_same {α β : Type} (f : α → β) (xs : List α) (i : Nat) (a b : α) (hi : xs[i]? = some a)
    (hf : f b = f a) : (xs.set i b).map f = xs.map f := by
  induction xs generalizing i with
  | nil => rfl
  | cons x xs ih =>
    cases i with
    | zero => simp at hi; subst hi; simp [hf]
    | succ j => simp at hi; simp [ih j hi]

theorem rp_run_none {σ loc : Type} (S : Sys σ loc) (c : Config σ loc) (i : Nat) (rest : List Nat)
    (h : c.locals[i]? = none) : run S c (i :: rest) = run S c rest := by
  rw [run]; simp only [h]

theorem rp_run_stuck {σ loc : Type} (S : Sys σ loc) (c : Config σ loc) (i : Nat) (rest : List Nat) (l : loc)
    (h : c.locals[i]? = some l) (hs : S.step i c.shared l = none) : run S c (i :: rest) = run S c rest := by
  rw [run]; simp only [h, hs]

theorem rp_run_step {σ loc : Type} (S : Sys σ loc) (c : Config σ loc) (i : Nat) (rest : List Nat) (l : loc)
    (s' : σ) (l' : loc) (h : c.locals[i]? = some l) (hs : S.step i c.shared l = some (s', l')) :
    run S c (i :: rest) = run S { shared := s', locals := c.locals.set i l' } rest := by
  rw [run]; simp only [h, hs]

/-- simulation relative to a local invariant `P`: if every step of R from a `P`-state keeps `P` and is, through the
    abstraction, a step of A by the same thread or nothing, then every schedule of R from a configuration all of whose
    locals satisfy `P` is, through the abstraction, a schedule of A (and `P` still holds everywhere) -/
theorem rp_sim_schedule_inv {σR locR σA locA : Type} (R : Sys σR locR) (A : Sys σA locA) (absS : σR → σA)
    (absL : locR → locA) (P : locR → Prop)
    (hstep : ∀ i s l s' l', P l → R.step i s l = some (s', l') →
      P l' ∧ (A.step i (absS s) (absL l) = some (absS s', absL l') ∨ (absS s' = absS s ∧ absL l' = absL l)))
    (sched : List Nat) (c : Config σR locR) (hc : ∀ l ∈ c.locals, P l) :
    (∀ l ∈ (run R c sched).locals, P l) ∧
    ∃ sched', run A { shared := absS c.shared, locals := c.locals.map absL } sched' =
      { shared := absS (run R c sched).shared, locals := (run R c sched).locals.map absL } := by
  induction sched generalizing c with
  | nil => exact ⟨hc, [], rfl⟩
  | cons i rest ih =>
    cases hl : c.locals[i]? with
    | none => rw [rp_run_none R c i rest hl]; exact ih c hc
    | some l =>
      cases hs : R.step i c.shared l with
      | none => rw [rp_run_stuck R c i rest l hl hs]; exact ih c hc
      | some p =>
        obtain ⟨s', l'⟩ := p
        rw [rp_run_step R c i rest l s' l' hl hs]
        obtain ⟨hP', hA⟩ := hstep i c.shared l s' l' (hc l (List.mem_of_getElem? hl)) hs
        have hc' : ∀ x ∈ (c.locals.set i l'), P x := by
          intro x hx
          rcases List.mem_or_eq_of_mem_set hx with hx | hx
          · exact hc x hx
          · exact hx ▸ hP'
        obtain ⟨hPr, sched', hs'⟩ := ih { shared := s', locals := c.locals.set i l' } hc'
        refine ⟨hPr, ?_⟩
        rcases hA with hA | ⟨hA1, hA2⟩
        · refine ⟨i :: sched', ?_⟩
          rw [← hs']
          have hl' : (c.locals.map absL)[i]? = some (absL l) := by simp [List.getElem?_map, hl]
          rw [rp_run_step A _ i sched' (absL l) (absS s') (absL l') hl' hA, List.map_set]
        · refine ⟨sched', ?_⟩
          rw [← hs']
          simp only [hA1, rp_set_map_same absL c.locals i l l' hl hA2]

/-- the statement of `Props/RunAll.sim_schedule` -/
theorem rp_sim_schedule {σR locR σA locA : Type} (R : Sys σR locR) (A : Sys σA locA) (absS : σR → σA)
    (absL : locR → locA)
    (hstep : ∀ i s l s' l', R.step i s l = some (s', l') →
      A.step i (absS s) (absL l) = some (absS s', absL l') ∨ (absS s' = absS s ∧ absL l' = absL l))
    (sched : List Nat) (c : Config σR locR) :
    ∃ sched', run A { shared := absS c.shared, locals := c.locals.map absL } sched' =
      { shared := absS (run R c sched).shared, locals := (run R c sched).locals.map absL } :=
  (rp_sim_schedule_inv R A absS absL (fun _ => True)
    (fun i s l s' l' _ h => ⟨trivial, hstep i s l s' l' h⟩) sched c (fun _ _ => trivial)).2

/-! ### well-formed local states -/

/-- what the thread's script answers (the default script for OpenCircuit / CloseCircuit threads, as in `Run.step`) -/
def rp_script (j : Run.Job) : Run.Script := match j with | .call sc => sc | _ => {}

/-- what every local state reachable from `init` satisfies (and `Run.step` preserves): the kind a program counter of
    the outcome phase carries is the kind of the thread's script and looks at the state where it must; a transition is
    followed by `manual` or by a kind that looks at the state; only a call that entered the bulkhead decrements -/
def rp_wf (l : Run.Local) : Prop :=
  match l.pc with
  | .deliver k => (rp_script l.job).kind = k
  | .pFO k | .pFC k | .pFlag k => k.looks = true ∧ (rp_script l.job).kind = k
  | .oFC k | .oFO k | .oFC2 k | .oFlag k | .askShouldOpen k => k.looks = true
  | .trans _ after => (match after with | .manual => True | .ran k => k.looks = true | _ => False)
  | .gaugeDec r => r ≠ .shed ∧ r ≠ .manual
  | _ => True

theorem rp_kind_default : ({} : Run.Script).kind = .success := by decide

theorem rp_wf_start (j : Run.Job) : rp_wf { job := j, pc := startPc j } := by
  cases j <;> simp [rp_wf, startPc]

theorem rp_wf_init (fo fc io : Bool) (m : Int) (jobs : List Run.Job) : ∀ l ∈ (init fo fc io m jobs).locals, rp_wf l := by
  intro l hl
  simp only [init, List.mem_map] at hl
  obtain ⟨j, _, rfl⟩ := hl
  exact rp_wf_start j

theorem rp_wf_step (i : Nat) (s : Run.Shared) (l : Run.Local) (s' : Run.Shared) (l' : Run.Local) (hw : rp_wf l)
    (h : step i s l = some (s', l')) : rp_wf l' := by
  obtain ⟨job, pc, so⟩ := l
  cases pc
  case trans tl after =>
    cases after <;> simp only [rp_wf] at hw <;> simp only [step] at h
    all_goals (repeat' split at h)
    all_goals (first | (simp only [Option.some.injEq, Prod.mk.injEq] at h; obtain ⟨rfl, rfl⟩ := h) | cases h)
    all_goals simp_all [rp_wf]
  all_goals (cases job <;> simp only [step] at h)
  all_goals (repeat' (first | cases h | split at h))
  all_goals (try split)
  all_goals (try (simp only [rp_wf, rp_script] at hw ⊢))
  all_goals (first | exact hw | exact hw.1 | exact ⟨hw.1, hw.2⟩ | rfl | exact ⟨hw, rfl⟩ | exact ⟨by simp, by simp⟩ | trivial)

/-! ### every step is a step of Conc/Gauge, or nothing -/

theorem rp_step_gauge (i : Nat) (s : Run.Shared) (l : Run.Local) (s' : Run.Shared) (l' : Run.Local) (hw : rp_wf l)
    (h : step i s l = some (s', l')) :
    Gauge.step i (toGaugeShared s) (toGaugeLocal l) = some (toGaugeShared s', toGaugeLocal l') ∨
      (toGaugeShared s' = toGaugeShared s ∧ toGaugeLocal l' = toGaugeLocal l) := by
  obtain ⟨job, pc, so⟩ := l
  cases pc
  case trans tl after =>
    cases after <;> simp only [rp_wf] at hw <;> simp only [step] at h
    all_goals (repeat' split at h)
    all_goals (first | (simp only [Option.some.injEq, Prod.mk.injEq] at h; obtain ⟨rfl, rfl⟩ := h) | cases h)
    all_goals simp [toGaugeLocal, toGaugeShared]
  case gaugeDec r =>
    cases r <;> simp only [rp_wf] at hw <;> simp only [step] at h
    all_goals (simp only [Option.some.injEq, Prod.mk.injEq] at h; obtain ⟨rfl, rfl⟩ := h)
    all_goals simp [toGaugeLocal, toGaugeShared, Gauge.step] at hw ⊢
  all_goals simp only [step] at h
  all_goals (repeat' split at h)
  all_goals (first | (simp only [Option.some.injEq, Prod.mk.injEq] at h; obtain ⟨rfl, rfl⟩ := h) | cases h)
  all_goals (try simp [toGaugeLocal, toGaugeShared, Gauge.step])
  all_goals omega

/-! ### every step is a step of Conc/Call, or nothing -/

theorem rp_step_call_trans (i : Nat) (s : Run.Shared) (job : Run.Job) (tl : Trans.Local) (after : Run.Res) (so : Option Bool)
    (s' : Run.Shared) (l' : Run.Local) (hw : rp_wf { job := job, pc := .trans tl after, sawOpen := so })
    (h : step i s { job := job, pc := .trans tl after, sawOpen := so } = some (s', l')) :
    Call.step i (toCallShared s) (toCallLocal { job := job, pc := .trans tl after, sawOpen := so }) =
      some (toCallShared s', toCallLocal l') := by
  cases after <;> simp only [rp_wf] at hw <;> simp only [step] at h
  all_goals (repeat' split at h)
  all_goals (first | (simp only [Option.some.injEq, Prod.mk.injEq] at h; obtain ⟨rfl, rfl⟩ := h) | cases h)
  all_goals (simp_all [toCallLocal, toCallShared, toCallPc, Call.step])

theorem rp_step_call (i : Nat) (s : Run.Shared) (l : Run.Local) (s' : Run.Shared) (l' : Run.Local) (hw : rp_wf l)
    (h : step i s l = some (s', l')) :
    Call.step i (toCallShared s) (toCallLocal l) = some (toCallShared s', toCallLocal l') ∨
      (toCallShared s' = toCallShared s ∧ toCallLocal l' = toCallLocal l) := by
  obtain ⟨job, pc, so⟩ := l
  cases pc
  case trans tl after => exact Or.inl (rp_step_call_trans i s job tl after so s' l' hw h)
  all_goals (cases job <;> simp only [step] at h)
  all_goals (repeat' (first | cases h | split at h))
  all_goals (try (simp_all [toCallLocal, toCallShared, toCallPc, toCallJob, toCallScript, toCallEv, Call.step,
    rp_wf, rp_script]; done))
  all_goals (try (cases ‹Run.Kind› <;> simp_all [toCallLocal, toCallShared, toCallPc, toCallJob, toCallScript, toCallEv,
    Call.step, rp_wf, rp_script, Run.Kind.looks, rp_kind_default]; done))
  all_goals (split <;> simp_all [toCallLocal, toCallShared, toCallPc, toCallJob, toCallScript, toCallEv, Call.step,
    rp_wf])

/-! ### the views -/

theorem rp_views (c : Config Run.Shared Run.Local) (hc : ∀ l ∈ c.locals, rp_wf l) (sched : List Nat) :
    (∀ l ∈ (run sys c sched).locals, rp_wf l) ∧
    (∃ sched', run Call.sys (toCall c) sched' = toCall (run sys c sched)) ∧
    (∃ sched', run Gauge.sys (toGauge c) sched' = toGauge (run sys c sched)) := by
  have h1 := rp_sim_schedule_inv sys Call.sys toCallShared toCallLocal rp_wf
    (fun i s l s' l' hw h => ⟨rp_wf_step i s l s' l' hw h, rp_step_call i s l s' l' hw h⟩) sched c hc
  have h2 := rp_sim_schedule_inv sys Gauge.sys toGaugeShared toGaugeLocal rp_wf
    (fun i s l s' l' hw h => ⟨rp_wf_step i s l s' l' hw h, rp_step_gauge i s l s' l' hw h⟩) sched c hc
  exact ⟨h1.1, h1.2, h2.2⟩

theorem rp_call_view (c : Config Run.Shared Run.Local) (hc : ∀ l ∈ c.locals, rp_wf l) (sched : List Nat) :
    ∃ sched', run Call.sys (toCall c) sched' = toCall (run sys c sched) := (rp_views c hc sched).2.1

theorem rp_gauge_view (c : Config Run.Shared Run.Local) (hc : ∀ l ∈ c.locals, rp_wf l) (sched : List Nat) :
    ∃ sched', run Gauge.sys (toGauge c) sched' = toGauge (run sys c sched) := (rp_views c hc sched).2.2

theorem rp_init_call (fo fc io : Bool) (m : Int) (jobs : List Run.Job) :
    toCall (init fo fc io m jobs) = Call.init fo fc io (jobs.map toCallJob) := by
  simp only [toCall, init, Call.init, toCallShared, List.map_map, List.filterMap_nil]
  congr 1
  apply List.map_congr_left
  intro j _
  cases j <;> rfl

theorem rp_init_gauge (fo fc io : Bool) (m : Int) (jobs : List Run.Job) :
    toGauge (init fo fc io m jobs) = Gauge.init m jobs.length := by
  simp only [toGauge, init, Gauge.init, toGaugeShared, List.map_map]
  congr 1
  induction jobs with
  | nil => rfl
  | cons j js ih =>
    simp only [List.map_cons, List.length_cons, List.replicate_succ, ih]
    cases j <;> rfl

/-- every schedule from `init` is a schedule of Conc/Call from its `init` -/
theorem rp_call_reach (fo fc io : Bool) (m : Int) (jobs : List Run.Job) (sched : List Nat) :
    ∃ sched', run Call.sys (Call.init fo fc io (jobs.map toCallJob)) sched' =
      toCall (run sys (init fo fc io m jobs) sched) := by
  rw [← rp_init_call fo fc io m jobs]
  exact rp_call_view _ (rp_wf_init fo fc io m jobs) sched

/-- every schedule from `init` is a schedule of Conc/Gauge from its `init` -/
theorem rp_gauge_reach (fo fc io : Bool) (m : Int) (jobs : List Run.Job) (sched : List Nat) :
    ∃ sched', run Gauge.sys (Gauge.init m jobs.length) sched' = toGauge (run sys (init fo fc io m jobs) sched) := by
  rw [← rp_init_gauge fo fc io m jobs]
  exact rp_gauge_view _ (rp_wf_init fo fc io m jobs) sched

/-! ### reading the projections back -/

theorem rp_running_iff (l : Run.Local) : (toGaugeLocal l == .running) = (l.pc == .invoke) := by
  obtain ⟨job, pc, so⟩ := l
  cases pc <;> simp only [toGaugeLocal] <;> (try split) <;> rfl

theorem rp_inFlight (c : Config Run.Shared Run.Local) : inFlight c = Gauge.inFlight (toGauge c) := by
  simp only [inFlight, Gauge.inFlight, toGauge]
  induction c.locals with
  | nil => rfl
  | cons l ls ih =>
    simp only [List.map_cons, List.filter_cons, rp_running_iff]
    split <;> simp [ih]

theorem rp_resultOf {c : Config Run.Shared Run.Local} {i : Nat} {r : Run.Res} (h : resultOf c i = some r) :
    ∃ l, c.locals[i]? = some l ∧ l.pc = .done r := by
  unfold resultOf at h
  split at h
  · rename_i l job r' so hl
    cases h
    exact ⟨_, hl, rfl⟩
  · cases h

theorem rp_allDone {c : Config Run.Shared Run.Local} (h : allDone c = true) : ∀ l ∈ c.locals, ∃ r, l.pc = .done r := by
  intro l hl
  have := List.all_eq_true.mp h l hl
  split at this
  · rename_i r hr; exact ⟨r, hr⟩
  · cases this

theorem rp_invoked_mem (s : Run.Shared) (i : Nat) :
    (i, Run.Ev.invoked) ∈ s.events ↔ (i, Call.Outcome.ran) ∈ (toCallShared s).events := by
  simp only [toCallShared, List.mem_filterMap]
  constructor
  · intro h; exact ⟨_, h, rfl⟩
  · rintro ⟨⟨j, e⟩, hm, he⟩
    cases e <;> simp [toCallEv] at he
    subst he; exact hm

/-! ### C04, lifted -/

theorem rp_inflight_le_limit (fo fc io : Bool) (m : Int) (hm : 0 ≤ m) (jobs : List Run.Job) (sched : List Nat) :
    (inFlight (run sys (init fo fc io m jobs) sched) : Int) ≤ m := by
  obtain ⟨sched', hs'⟩ := rp_gauge_reach fo fc io m jobs sched
  have h := CM.Props.C04.inflight_le_limit m hm jobs.length sched'
  rw [hs'] at h
  rw [rp_inFlight]; exact h

theorem rp_limit_zero_invokes_nobody (fo fc io : Bool) (jobs : List Run.Job) (sched : List Nat) :
    inFlight (run sys (init fo fc io 0 jobs) sched) = 0 := by
  have := rp_inflight_le_limit fo fc io 0 (Int.le_refl 0) jobs sched
  omega

theorem rp_negative_unlimited (fo fc io : Bool) (m : Int) (hm : m < 0) (jobs : List Run.Job) (sched : List Nat)
    (i : Nat) : resultOf (run sys (init fo fc io m jobs) sched) i ≠ some Run.Res.rejected := by
  intro hr
  obtain ⟨l, hl, hpc⟩ := rp_resultOf hr
  obtain ⟨sched', hs'⟩ := rp_gauge_reach fo fc io m jobs sched
  have h := CM.Props.C04.negative_unlimited m hm jobs.length sched'
  rw [hs'] at h
  have hmem : toGaugeLocal l ∈ (toGauge (run sys (init fo fc io m jobs) sched)).locals :=
    List.mem_map.mpr ⟨l, List.mem_of_getElem? hl, rfl⟩
  have := (h _ hmem).2
  simp [toGaugeLocal, hpc] at this

/-- a limit at least the number of callers refuses nobody -/
theorem rp_large_limit_never_rejects (fo fc io : Bool) (m : Int) (jobs : List Run.Job)
    (hm : (jobs.length : Int) ≤ m) (sched : List Nat)
    (i : Nat) : resultOf (run sys (init fo fc io m jobs) sched) i ≠ some Run.Res.rejected := by
  intro hr
  obtain ⟨l, hl, hpc⟩ := rp_resultOf hr
  obtain ⟨sched', hs'⟩ := rp_gauge_reach fo fc io m jobs sched
  have h := CM.Props.C04.large_limit_never_rejects m jobs.length hm sched'
  rw [hs'] at h
  have hmem : toGaugeLocal l ∈ (toGauge (run sys (init fo fc io m jobs) sched)).locals :=
    List.mem_map.mpr ⟨l, List.mem_of_getElem? hl, rfl⟩
  have := (h _ hmem).2
  simp [toGaugeLocal, hpc] at this

/-- the gauge counts the region, and nobody is in the region once everybody has returned -/
theorem rp_gauge_region (fo fc io : Bool) (m : Int) (jobs : List Run.Job) (sched : List Nat) :
    (run sys (init fo fc io m jobs) sched).shared.gauge = (run sys (init fo fc io m jobs) sched).shared.region.length ∧
    (allDone (run sys (init fo fc io m jobs) sched) = true →
      (run sys (init fo fc io m jobs) sched).shared.region.length = 0) := by
  obtain ⟨sched', hs'⟩ := rp_gauge_reach fo fc io m jobs sched
  have h := CM.Props.C04.gauge_counts_region m jobs.length sched'
  simp only [hs'] at h
  refine ⟨h.1, fun hq => ?_⟩
  have hd := rp_allDone hq
  rw [show (run sys (init fo fc io m jobs) sched).shared.region.length =
    (toGauge (run sys (init fo fc io m jobs) sched)).shared.region.length from rfl, h.2,
    List.length_eq_zero_iff, List.filter_eq_nil_iff]
  intro a ha
  obtain ⟨l, hl, rfl⟩ := List.mem_map.mp ha
  obtain ⟨r, hr⟩ := hd l hl
  cases r <;> simp [toGaugeLocal, hr]

theorem rp_quiescent_gauge_zero (fo fc io : Bool) (m : Int) (jobs : List Run.Job) (sched : List Nat)
    (hq : allDone (run sys (init fo fc io m jobs) sched) = true) :
    (run sys (init fo fc io m jobs) sched).shared.gauge = 0 := by
  have h := rp_gauge_region fo fc io m jobs sched
  have h2 := h.2 hq
  have h1 := h.1
  omega

theorem rp_gauge_never_negative (fo fc io : Bool) (m : Int) (jobs : List Run.Job) (sched : List Nat) :
    0 ≤ (run sys (init fo fc io m jobs) sched).shared.gauge := by
  have h := (rp_gauge_region fo fc io m jobs sched).1
  omega

/-! ### C01, lifted -/

theorem rp_force_open_invokes_nobody (fc io : Bool) (m : Int) (jobs : List Run.Job) (sched : List Nat) (i : Nat) :
    (i, Run.Ev.invoked) ∉ (run sys (init true fc io m jobs) sched).shared.events := by
  obtain ⟨sched', hs'⟩ := rp_call_reach true fc io m jobs sched
  have h : (i, Call.Outcome.ran) ∉ (run Call.sys (Call.init true fc io (jobs.map toCallJob)) sched').shared.events :=
    CM.Props.C01.force_open_sheds_every_call fc io (jobs.map toCallJob) sched' i
  rw [hs'] at h
  exact fun hi => h ((rp_invoked_mem _ i).mp hi)

theorem rp_invoked_only_if_admitted (fo fc io : Bool) (m : Int) (jobs : List Run.Job) (sched : List Nat) (i : Nat) :
    let c := run sys (init fo fc io m jobs) sched
    (i, Run.Ev.invoked) ∈ c.shared.events →
    ∃ sc l, jobs[i]? = some (.call sc) ∧ c.locals[i]? = some l ∧ sc.prevent = false ∧
      (l.sawOpen = some false ∨ (l.sawOpen = some true ∧ sc.allow = true ∧ fo = false)) := by
  intro c hi
  obtain ⟨sched', hs'⟩ := rp_call_reach fo fc io m jobs sched
  have h := CM.Props.C01.ran_only_if_admitted fo fc io (jobs.map toCallJob) sched' i
  simp only [hs'] at h
  obtain ⟨sc', l', hj, hl, hp, hs⟩ := h ((rp_invoked_mem _ i).mp hi)
  simp only [List.getElem?_map, Option.map_eq_some_iff] at hj
  obtain ⟨j, hj, hjc⟩ := hj
  simp only [toCall, List.getElem?_map, Option.map_eq_some_iff] at hl
  obtain ⟨l, hl, rfl⟩ := hl
  cases j with
  | call sc =>
    simp only [toCallJob, Call.Job.call.injEq] at hjc
    subst hjc
    exact ⟨sc, l, hj, hl, hp, hs⟩
  | «open» => simp [toCallJob] at hjc
  | close => simp [toCallJob] at hjc

theorem rp_open_circuit_invokes_nobody (fo : Bool) (m : Int) (jobs : List Run.Job) (sched : List Nat)
    (hadm : jobs.all (fun j => match j with | .call sc => !sc.allow | _ => true) = true)
    (hnc : jobs.all (· != .close) = true) :
    let c := run sys (init fo false true m jobs) sched
    (∀ i, (i, Run.Ev.invoked) ∉ c.shared.events) ∧ c.shared.t.isOpen = true := by
  intro c
  obtain ⟨sched', hs'⟩ := rp_call_reach fo false true m jobs sched
  have hadm' : Call.closerAdmitsNone (jobs.map toCallJob) = true := by
    simp only [Call.closerAdmitsNone, List.all_map, List.all_eq_true] at hadm ⊢
    intro j hj
    have := hadm j hj
    cases j <;> simp_all [toCallJob, toCallScript]
  have hnc' : (jobs.map toCallJob).all (· != .close) = true := by
    simp only [List.all_map, List.all_eq_true] at hnc ⊢
    intro j hj
    have := hnc j hj
    cases j <;> simp_all [toCallJob]
  have h := CM.Props.C01.open_circuit_sheds_all fo (jobs.map toCallJob) sched' hadm' hnc'
  simp only [hs'] at h
  exact ⟨fun i hi => h.1 i ((rp_invoked_mem _ i).mp hi), h.2⟩

/-! ### without `rp_wf` the step correspondences and the views are FALSE (unreachable local states) -/

/-- ForceOpen on, limit 1, nothing else -/
def rp_cexShared : Run.Shared := { t := { forceOpen := true, forcedClosed := false, isOpen := false }, limit := 1 }

/-- a finished transition "after" a bad-request outcome (bad requests never look at the state, so never transit):
    `Run.step` goes to `gaugeDec (ran badRequest)`, which projects to Conc/Call's `pFO`, while Conc/Call's `trans` with
    a finished transition goes to `done` -/
def rp_cexCallLocal : Run.Local :=
  { job := .call {}, pc := .trans { job := .open, pc := .done } (.ran .badRequest) }

/-- a shed call decrementing the gauge (shed calls never entered the bulkhead): `Run.step` goes to `done shed`, which
    projects to Conc/Gauge's `idle`, while Conc/Gauge's `leaving` goes to `finished true` -/
def rp_cexGaugeLocal : Run.Local := { job := .call {}, pc := .gaugeDec .shed }

theorem rp_step_call_false :
    ¬ ∀ (i : Nat) (s : Run.Shared) (l : Run.Local) (s' : Run.Shared) (l' : Run.Local), step i s l = some (s', l') →
      (Call.step i (toCallShared s) (toCallLocal l) = some (toCallShared s', toCallLocal l') ∨
        (toCallShared s' = toCallShared s ∧ toCallLocal l' = toCallLocal l)) := by
  intro h
  have := h 0 rp_cexShared rp_cexCallLocal rp_cexShared
    { rp_cexCallLocal with pc := .gaugeDec (.ran .badRequest) } (by decide)
  revert this
  decide

theorem rp_step_gauge_false :
    ¬ ∀ (i : Nat) (s : Run.Shared) (l : Run.Local) (s' : Run.Shared) (l' : Run.Local), step i s l = some (s', l') →
      (Gauge.step i (toGaugeShared s) (toGaugeLocal l) = some (toGaugeShared s', toGaugeLocal l') ∨
        (toGaugeShared s' = toGaugeShared s ∧ toGaugeLocal l' = toGaugeLocal l)) := by
  intro h
  have := h 0 rp_cexShared rp_cexGaugeLocal { rp_cexShared with gauge := -1 }
    { rp_cexGaugeLocal with pc := .done .shed } (by decide)
  revert this
  decide

theorem rp_call_view_false :
    ¬ ∀ (c : Config Run.Shared Run.Local) (sched : List Nat),
      ∃ sched', run Call.sys (toCall c) sched' = toCall (run sys c sched) := by
  intro h
  obtain ⟨sched', hs'⟩ := h { shared := rp_cexShared, locals := [rp_cexCallLocal] } [0]
  have hinv := CM.Props.C04.inv_all_schedules Call.sys
    (fun c => ∃ x, c.locals = [x] ∧ (x.pc = .trans { job := .open, pc := .done } ∨ x.pc = .done))
    (by
      rintro c i l s' l' ⟨x, hx, hp⟩ hi hs
      rw [hx] at hi
      cases i with
      | succ j => simp at hi
      | zero =>
        simp only [List.getElem?_cons_zero, Option.some.injEq] at hi
        subst hi
        refine ⟨l', by simp [hx], Or.inr ?_⟩
        obtain ⟨job, pc, so⟩ := x
        rcases hp with hp | hp <;> simp only at hp <;> subst hp <;> simp [Call.sys, Call.step] at hs
        rw [← hs.2])
    sched' (toCall { shared := rp_cexShared, locals := [rp_cexCallLocal] }) ⟨_, rfl, Or.inl rfl⟩
  rw [hs'] at hinv
  obtain ⟨x, hx, hp⟩ := hinv
  have hx' : [toCallLocal { rp_cexCallLocal with pc := .gaugeDec (.ran .badRequest) }] = [x] := by
    rw [← hx]; decide
  cases hx'
  revert hp
  decide

theorem rp_gauge_view_false :
    ¬ ∀ (c : Config Run.Shared Run.Local) (sched : List Nat),
      ∃ sched', run Gauge.sys (toGauge c) sched' = toGauge (run sys c sched) := by
  intro h
  obtain ⟨sched', hs'⟩ := h { shared := rp_cexShared, locals := [rp_cexGaugeLocal] } [0]
  have hinv := CM.Props.C04.inv_all_schedules Gauge.sys
    (fun c => ∃ x, c.locals = [x] ∧ (x = .leaving ∨ x = .finished true))
    (by
      rintro c i l s' l' ⟨x, hx, hp⟩ hi hs
      rw [hx] at hi
      cases i with
      | succ j => simp at hi
      | zero =>
        simp only [List.getElem?_cons_zero, Option.some.injEq] at hi
        subst hi
        refine ⟨l', by simp [hx], Or.inr ?_⟩
        rcases hp with hp | hp <;> subst hp <;> simp [Gauge.sys, Gauge.step] at hs
        exact hs.2.symm)
    sched' (toGauge { shared := rp_cexShared, locals := [rp_cexGaugeLocal] }) ⟨_, rfl, Or.inl rfl⟩
  rw [hs'] at hinv
  obtain ⟨x, hx, hp⟩ := hinv
  have hx' : [Gauge.Local.idle] = [x] := by
    rw [← hx]; decide
  cases hx'
  revert hp
  decide

end CM.Lemmas.RunProj

import CircuitModel.MergeLang
namespace CM.Merge
end CM.Merge

import CircuitModel.MergeLang
namespace CM.Merge

/-! ## map union -/

theorem mapHas_append (a b : List (Nat × Nat)) (k : Nat) : mapHas (a ++ b) k = (mapHas a k || mapHas b k) := by
  simp [mapHas]

theorem mapUnionLeft_nil (r : List (Nat × Nat)) : mapUnionLeft r [] = r := rfl

theorem mapUnionLeft_cons (r o : List (Nat × Nat)) (k v : Nat) :
    mapUnionLeft r ((k, v) :: o) = mapUnionLeft (if mapHas r k then r else r ++ [(k, v)]) o := by
  simp [mapUnionLeft, List.foldl_cons]

theorem mapHas_mono (o : List (Nat × Nat)) : ∀ (r : List (Nat × Nat)) (k : Nat), mapHas r k = true →
    mapHas (mapUnionLeft r o) k = true := by
  induction o with
  | nil => intro r k h; simpa [mapUnionLeft_nil] using h
  | cons p o ih =>
    intro r k h
    obtain ⟨k', v'⟩ := p
    rw [mapUnionLeft_cons]
    apply ih
    split
    · exact h
    · simp [mapHas_append, h]

theorem mapUnionLeft_filter_of_has (o : List (Nat × Nat)) : ∀ (r : List (Nat × Nat)) (k : Nat), mapHas r k = true →
    (mapUnionLeft r o).filter (·.1 == k) = r.filter (·.1 == k) := by
  induction o with
  | nil => intro r k _; rfl
  | cons p o ih =>
    intro r k h
    obtain ⟨k', v'⟩ := p
    rw [mapUnionLeft_cons]
    by_cases hk' : mapHas r k' = true
    · simp only [hk', if_true]; exact ih r k h
    · simp only [hk', if_false, Bool.false_eq_true]
      have hne : k' ≠ k := by intro e; subst e; exact hk' h
      rw [ih _ k (by simp [mapHas_append, h])]
      simp [List.filter_append, hne]

theorem mapUnionLeft_has_of_mem (o : List (Nat × Nat)) : ∀ (r : List (Nat × Nat)) (k v : Nat), (k, v) ∈ o →
    mapHas (mapUnionLeft r o) k = true := by
  induction o with
  | nil => intro r k v h; cases h
  | cons p o ih =>
    intro r k v h
    obtain ⟨k', v'⟩ := p
    rw [mapUnionLeft_cons]
    rcases List.mem_cons.1 h with h | h
    · cases h
      apply mapHas_mono
      split
      · assumption
      · simp [mapHas]
    · exact ih _ k v h

/-! ## layered folds -/

theorem foldl_first_set (layers : List Nat) : ∀ acc : Nat,
    layers.foldl (fun acc l => if acc = 0 then l else acc) acc
      = if acc = 0 then (layers.find? (· ≠ 0)).getD 0 else acc := by
  induction layers with
  | nil => intro acc; by_cases h : acc = 0 <;> simp [h]
  | cons l ls ih =>
    intro acc
    rw [List.foldl_cons, ih]
    by_cases h : acc = 0
    · by_cases hl : l = 0 <;> simp [h, hl]
    · simp [h]

theorem foldl_or (layers : List Bool) : ∀ acc : Bool,
    layers.foldl (fun acc l => acc || l) acc = (acc || layers.any id) := by
  induction layers with
  | nil => intro acc; simp
  | cons l ls ih => intro acc; rw [List.foldl_cons, ih]; simp [Bool.or_assoc]

theorem foldl_append (layers : List (List Nat)) : ∀ acc : List Nat,
    layers.foldl (fun acc l => acc ++ l) acc = acc ++ layers.flatten := by
  induction layers with
  | nil => intro acc; simp
  | cons l ls ih => intro acc; rw [List.foldl_cons, ih]; simp [List.append_assoc]

/-! ## association lists -/

theorem lookup_cons (n : String) (y : Val) (fs : List (String × Val)) (f : String) :
    lookup ((n, y) :: fs) f = if n = f then some y else lookup fs f := by
  unfold lookup
  by_cases h : n = f <;> simp [h]

theorem lookup_eq_of_mem : ∀ (fs : List (String × Val)), (fs.map (·.1)).Nodup → ∀ (f : String) (x : Val),
    (f, x) ∈ fs → lookup fs f = some x := by
  intro fs
  induction fs with
  | nil => intro _ f x h; cases h
  | cons p fs ih =>
    intro hnd f x h
    obtain ⟨n, y⟩ := p
    rw [List.map_cons, List.nodup_cons] at hnd
    rw [lookup_cons]
    rcases List.mem_cons.1 h with h | h
    · cases h; simp
    · have hne : n ≠ f := by
        intro e; subst e
        exact hnd.1 (List.mem_map.2 ⟨(n, x), h, rfl⟩)
      simp only [hne, if_false]
      exact ih hnd.2 f x h

theorem mem_unique (fs : List (String × Val)) (hnd : (fs.map (·.1)).Nodup) (f : String) (x x' : Val)
    (h : (f, x) ∈ fs) (h' : (f, x') ∈ fs) : x = x' := by
  have a := lookup_eq_of_mem fs hnd f x h
  have b := lookup_eq_of_mem fs hnd f x' h'
  rw [a] at b
  exact Option.some.inj b

theorem exists_of_mem_names (fs : List (String × Val)) (f : String) (h : f ∈ fs.map (·.1)) : ∃ x, (f, x) ∈ fs := by
  obtain ⟨⟨n, x⟩, hp, rfl⟩ := List.mem_map.1 h
  exact ⟨x, hp⟩

/-- on distinct names, an update rewrites exactly the named entry -/
theorem update_eq_map (fs : List (String × Val)) (hnd : (fs.map (·.1)).Nodup) (f : String) (x v : Val)
    (h : (f, x) ∈ fs) (g : String × Val → String × Val) (hg : g (f, x) = (f, v)) :
    update fs f v = fs.map (fun p => if p.1 = f then g p else p) := by
  unfold update
  apply List.map_congr_left
  intro p hp
  obtain ⟨n, z⟩ := p
  by_cases e : n = f
  · subst e
    have := mem_unique fs hnd n z x hp h
    subst this
    simp [hg]
  · simp [e]

theorem update_same (fs : List (String × Val)) (hnd : (fs.map (·.1)).Nodup) (f : String) (x : Val)
    (h : (f, x) ∈ fs) : update fs f x = fs := by
  rw [update_eq_map fs hnd f x x h id rfl]
  simp

/-! ## evaluation, one statement at a time -/

/-- the effect of one statement (the `r'` of `evalStmts`) -/
def step (types : List TypeDef) (fuel : Nat) (tbl : List Field) (st : Stmt) (r o : List (String × Val)) :
    List (String × Val) :=
  match st with
  | .fillIfZero f =>
    (match lookup r f, lookup o f with
     | some (.scalar a), some (.scalar b) => if a = 0 then update r f (.scalar b) else r
     | _, _ => r)
  | .orBool f =>
    (match lookup r f, lookup o f with
     | some (.bool a), some (.bool b) => if !a then update r f (.bool b) else r
     | _, _ => r)
  | .appendList f =>
    (match lookup r f, lookup o f with
     | some (.list a), some (.list b) => update r f (.list (a ++ b))
     | _, _ => r)
  | .unionMapLeft f =>
    (match lookup r f, lookup o f with
     | some (.map a), some (.map b) => update r f (.map (mapUnionLeft a b))
     | _, _ => r)
  | .nested f =>
    (match fuel, lookup r f, lookup o f, ((tbl.find? (·.name == f)).map (·.kind) : Option FKind) with
     | fuel' + 1, some (.struct a), some (.struct b), some (FKind.nested ty) =>
       (match typeOf types ty with
        | some td => update r f (.struct (evalStmts types fuel' td.fields td.prog a b))
        | none => r)
     | _, _, _, _ => r)
  | .opaque _ => r

theorem evalStmts_nil (types : List TypeDef) (fuel : Nat) (tbl : List Field) (r o : List (String × Val)) :
    evalStmts types fuel tbl [] r o = r := by
  rw [evalStmts]

theorem evalStmts_cons (types : List TypeDef) (fuel : Nat) (tbl : List Field) (st : Stmt) (rest : List Stmt)
    (r o : List (String × Val)) :
    evalStmts types fuel tbl (st :: rest) r o = evalStmts types fuel tbl rest (step types fuel tbl st r o) o := by
  rw [evalStmts.eq_def]
  rfl


/-- the specification for one entry of the receiver -/
def fieldSpec (types : List TypeDef) (fuel : Nat) (tbl : List Field) (o : List (String × Val)) (p : String × Val) :
    String × Val :=
  match ((tbl.find? (·.name == p.1)).map (·.kind) : Option FKind), lookup o p.1 with
  | some k, some y => (p.1, fillGap types fuel k p.2 y)
  | _, _ => p

theorem specStruct_eq (types : List TypeDef) (fuel : Nat) (tbl : List Field) (r o : List (String × Val)) :
    specStruct types fuel tbl r o = r.map (fieldSpec types fuel tbl o) := by
  unfold specStruct
  apply List.map_congr_left
  intro p _
  obtain ⟨n, x⟩ := p
  rfl

theorem fieldSpec_fst (types : List TypeDef) (fuel : Nat) (tbl : List Field) (o : List (String × Val)) (p : String × Val) :
    (fieldSpec types fuel tbl o p).1 = p.1 := by
  unfold fieldSpec
  split <;> rfl

theorem fieldSpec_of (types : List TypeDef) (fuel : Nat) (tbl : List Field) (o : List (String × Val)) (f : String)
    (x y : Val) (fld : Field) (hfld : tbl.find? (·.name == f) = some fld) (hy : lookup o f = some y) :
    fieldSpec types fuel tbl o (f, x) = (f, fillGap types fuel fld.kind x y) := by
  simp [fieldSpec, hfld, hy]

theorem conforms_iff (types : List TypeDef) (fuel : Nat) (tbl : List Field) (fs : List (String × Val)) :
    conforms types fuel tbl fs = true ↔
      fs.map (·.1) = tbl.map (·.name) ∧
      ∀ n x, (n, x) ∈ fs → ∃ fld, tbl.find? (·.name == n) = some fld ∧ conformsVal types fuel fld.kind x = true := by
  unfold conforms
  simp only [Bool.and_eq_true, beq_iff_eq, List.all_eq_true]
  constructor
  · rintro ⟨h1, h2⟩
    refine ⟨h1, ?_⟩
    intro n x hm
    have := h2 (n, x) hm
    simp only at this
    split at this
    · exact ⟨_, ‹_›, this⟩
    · cases this
  · rintro ⟨h1, h2⟩
    refine ⟨h1, ?_⟩
    rintro ⟨n, x⟩ hm
    obtain ⟨fld, hf, hc⟩ := h2 n x hm
    simp only [hf, hc]

theorem conformsVal_nested_succ (types : List TypeDef) (fuel : Nat) (ty : String) (x : Val)
    (h : conformsVal types (fuel + 1) (.nested ty) x = true) :
    ∃ a td, x = .struct a ∧ typeOf types ty = some td ∧ conforms types fuel td.fields a = true := by
  cases x with
  | struct a =>
    simp only [conformsVal] at h
    split at h
    · rename_i td htd
      exact ⟨a, td, rfl, htd, h⟩
    · cases h
  | _ => simp [conformsVal] at h

theorem conformsVal_nested_zero (types : List TypeDef) (ty : String) (x : Val)
    (h : conformsVal types 0 (.nested ty) x = true) : ∃ a, x = .struct a := by
  cases x with
  | struct a => exact ⟨a, rfl⟩
  | _ => simp [conformsVal] at h

theorem conformsVal_scalar (types : List TypeDef) (fuel : Nat) (x : Val)
    (h : conformsVal types fuel .scalar x = true) : ∃ a, x = .scalar a := by
  cases x with
  | scalar a => exact ⟨a, rfl⟩
  | _ => simp [conformsVal] at h
theorem conformsVal_bool (types : List TypeDef) (fuel : Nat) (x : Val)
    (h : conformsVal types fuel .bool x = true) : ∃ a, x = .bool a := by
  cases x with
  | bool a => exact ⟨a, rfl⟩
  | _ => simp [conformsVal] at h
theorem conformsVal_list (types : List TypeDef) (fuel : Nat) (x : Val)
    (h : conformsVal types fuel .list x = true) : ∃ a, x = .list a := by
  cases x with
  | list a => exact ⟨a, rfl⟩
  | _ => simp [conformsVal] at h
theorem conformsVal_map (types : List TypeDef) (fuel : Nat) (x : Val)
    (h : conformsVal types fuel .map x = true) : ∃ a, x = .map a := by
  cases x with
  | map a => exact ⟨a, rfl⟩
  | _ => simp [conformsVal] at h


theorem step_eq (types : List TypeDef) (fuel : Nat) (tbl : List Field) (o : List (String × Val))
    (IH : ∀ fuel', fuel = fuel' + 1 → ∀ td, td ∈ types → ∀ a b, conforms types fuel' td.fields a = true →
      conforms types fuel' td.fields b = true →
      evalStmts types fuel' td.fields td.prog a b = specStruct types fuel' td.fields a b)
    (st : Stmt) (f : String) (ok : FKind → Bool) (hst : st.target = some (f, ok))
    (fld : Field) (hfld : tbl.find? (·.name == f) = some fld) (hok : ok fld.kind = true)
    (x y : Val) (hx : conformsVal types fuel fld.kind x = true) (hy : conformsVal types fuel fld.kind y = true)
    (hoy : lookup o f = some y)
    (r : List (String × Val)) (hnd : (r.map (·.1)).Nodup) (hmem : (f, x) ∈ r) :
    step types fuel tbl st r o = r.map (fun p => if p.1 = f then fieldSpec types fuel tbl o p else p) := by
  have hl := lookup_eq_of_mem r hnd f x hmem
  have hg := fieldSpec_of types fuel tbl o f x y fld hfld hoy
  have fin_upd : ∀ v, fillGap types fuel fld.kind x y = v →
      update r f v = r.map (fun p => if p.1 = f then fieldSpec types fuel tbl o p else p) := by
    intro v hv
    exact update_eq_map r hnd f x v hmem _ (by rw [hg, hv])
  have fin_same : fillGap types fuel fld.kind x y = x →
      r = r.map (fun p => if p.1 = f then fieldSpec types fuel tbl o p else p) := by
    intro hv
    rw [← fin_upd x hv, update_same r hnd f x hmem]
  cases st with
  | fillIfZero f' =>
    simp only [Stmt.target, Option.some.injEq, Prod.mk.injEq] at hst
    obtain ⟨rfl, rfl⟩ := hst
    have hk : fld.kind = .scalar := by simpa using hok
    rw [hk] at hx hy fin_upd fin_same
    obtain ⟨a, rfl⟩ := conformsVal_scalar _ _ _ hx
    obtain ⟨b, rfl⟩ := conformsVal_scalar _ _ _ hy
    simp only [step, hl, hoy]
    by_cases ha : a = 0
    · simp only [ha, if_true]
      exact fin_upd _ (by simp [fillGap, ha])
    · simp only [ha, if_false]
      exact fin_same (by simp [fillGap, ha])
  | orBool f' =>
    simp only [Stmt.target, Option.some.injEq, Prod.mk.injEq] at hst
    obtain ⟨rfl, rfl⟩ := hst
    have hk : fld.kind = .bool := by simpa using hok
    rw [hk] at hx hy fin_upd fin_same
    obtain ⟨a, rfl⟩ := conformsVal_bool _ _ _ hx
    obtain ⟨b, rfl⟩ := conformsVal_bool _ _ _ hy
    simp only [step, hl, hoy]
    cases a
    · simp only [Bool.not_false, if_true]
      exact fin_upd _ (by simp [fillGap])
    · simp only [Bool.not_true, Bool.false_eq_true, if_false]
      exact fin_same (by simp [fillGap])
  | appendList f' =>
    simp only [Stmt.target, Option.some.injEq, Prod.mk.injEq] at hst
    obtain ⟨rfl, rfl⟩ := hst
    have hk : fld.kind = .list := by simpa using hok
    rw [hk] at hx hy fin_upd fin_same
    obtain ⟨a, rfl⟩ := conformsVal_list _ _ _ hx
    obtain ⟨b, rfl⟩ := conformsVal_list _ _ _ hy
    simp only [step, hl, hoy]
    exact fin_upd _ (by simp [fillGap])
  | unionMapLeft f' =>
    simp only [Stmt.target, Option.some.injEq, Prod.mk.injEq] at hst
    obtain ⟨rfl, rfl⟩ := hst
    have hk : fld.kind = .map := by simpa using hok
    rw [hk] at hx hy fin_upd fin_same
    obtain ⟨a, rfl⟩ := conformsVal_map _ _ _ hx
    obtain ⟨b, rfl⟩ := conformsVal_map _ _ _ hy
    simp only [step, hl, hoy]
    exact fin_upd _ (by simp [fillGap])
  | nested f' =>
    simp only [Stmt.target, Option.some.injEq, Prod.mk.injEq] at hst
    obtain ⟨rfl, rfl⟩ := hst
    obtain ⟨ty, hk⟩ : ∃ ty, fld.kind = .nested ty := by
      cases hkk : fld.kind with
      | nested ty => exact ⟨ty, rfl⟩
      | _ => rw [hkk] at hok; simp at hok
    rw [hk] at hx hy fin_upd fin_same
    cases fuel with
    | zero =>
      obtain ⟨a, rfl⟩ := conformsVal_nested_zero _ _ _ hx
      obtain ⟨b, rfl⟩ := conformsVal_nested_zero _ _ _ hy
      simp only [step]
      exact fin_same (by simp [fillGap])
    | succ fuel' =>
      obtain ⟨a, td, rfl, htd, hca⟩ := conformsVal_nested_succ _ _ _ _ hx
      obtain ⟨b, td', rfl, htd', hcb⟩ := conformsVal_nested_succ _ _ _ _ hy
      rw [htd] at htd'
      cases htd'
      have hmemtd : td ∈ types := List.mem_of_find?_eq_some htd
      simp only [step, hl, hoy, hfld, hk, Option.map_some, htd]
      rw [IH fuel' rfl td hmemtd a b hca hcb]
      exact fin_upd _ (by simp only [fillGap, htd, specStruct])
  | «opaque» d => simp [Stmt.target] at hst


/-! ## the statement loop -/

def Stmt.tname : Stmt → Option String
  | .fillIfZero f => some f
  | .orBool f => some f
  | .appendList f => some f
  | .unionMapLeft f => some f
  | .nested f => some f
  | .opaque _ => none

def tnames (prog : List Stmt) : List String := prog.filterMap Stmt.tname

theorem target_tname (st : Stmt) (f : String) (ok : FKind → Bool) (h : st.target = some (f, ok)) : st.tname = some f := by
  cases st <;> simp_all [Stmt.target, Stmt.tname]

theorem loop_eq (types : List TypeDef) (fuel : Nat) (tbl : List Field) (o : List (String × Val))
    (g : String × Val → String × Val) (hg : ∀ p, (g p).1 = p.1) (prog : List Stmt) :
    ∀ r : List (String × Val), (r.map (·.1)).Nodup → (tnames prog).Nodup →
      (∀ st ∈ prog, ∃ f x, st.tname = some f ∧ (f, x) ∈ r ∧
        ∀ r' : List (String × Val), (r'.map (·.1)).Nodup → (f, x) ∈ r' →
          step types fuel tbl st r' o = r'.map (fun p => if p.1 = f then g p else p)) →
      evalStmts types fuel tbl prog r o = r.map (fun p => if p.1 ∈ tnames prog then g p else p) := by
  induction prog with
  | nil =>
    intro r _ _ _
    simp [evalStmts_nil, tnames]
  | cons st rest ih =>
    intro r hnd htn hst
    obtain ⟨f, x, hf, hmem, hstep⟩ := hst st (List.mem_cons_self ..)
    have htn' : tnames (st :: rest) = f :: tnames rest := by simp [tnames, hf]
    rw [htn', List.nodup_cons] at htn
    rw [evalStmts_cons, hstep r hnd hmem, htn']
    have hnames : (r.map (fun p => if p.1 = f then g p else p)).map (·.1) = r.map (·.1) := by
      rw [List.map_map]
      apply List.map_congr_left
      intro p _
      simp only [Function.comp]
      split
      · exact hg p
      · rfl
    rw [ih _ (by rw [hnames]; exact hnd) htn.2, List.map_map]
    · apply List.map_congr_left
      intro p _
      simp only [Function.comp, List.mem_cons]
      by_cases e : p.1 = f
      · have : ¬ (g p).1 ∈ tnames rest := by rw [hg, e]; exact htn.1
        simp [e, this]
      · simp [e]
    · intro st' hst'
      obtain ⟨f', x', hf', hmem', hstep'⟩ := hst st' (List.mem_cons_of_mem _ hst')
      refine ⟨f', x', hf', ?_, hstep'⟩
      have hne : f' ≠ f := by
        intro e; subst e
        exact htn.1 (List.mem_filterMap.2 ⟨st', hst', hf'⟩)
      exact List.mem_map.2 ⟨(f', x'), hmem', by simp [hne]⟩

theorem tnames_nodup (names : List String) (prog : List Stmt) :
    (∀ st ∈ prog, ∃ f, st.tname = some f ∧ f ∈ names) →
    (∀ n ∈ names, (prog.filter (fun st => st.tname == some n)).length ≤ 1) → (tnames prog).Nodup := by
  induction prog with
  | nil => intro _ _; simp [tnames]
  | cons st rest ih =>
    intro h1 h2
    obtain ⟨f, hf, hfn⟩ := h1 st (List.mem_cons_self ..)
    have htn' : tnames (st :: rest) = f :: tnames rest := by simp [tnames, hf]
    rw [htn', List.nodup_cons]
    constructor
    · intro hmem
      obtain ⟨st', hst', hf'⟩ := List.mem_filterMap.1 hmem
      have h := h2 f hfn
      have : st' ∈ rest.filter (fun st => st.tname == some f) := List.mem_filter.2 ⟨hst', by simp [hf']⟩
      rw [List.filter_cons] at h
      simp only [hf, beq_self_eq_true, if_true, List.length_cons] at h
      have hlen : (rest.filter (fun st => st.tname == some f)).length = 0 := by omega
      rw [List.length_eq_zero_iff] at hlen
      rw [hlen] at this
      cases this
    · apply ih
      · intro st' hst'; exact h1 st' (List.mem_cons_of_mem _ hst')
      · intro n hn
        have h := h2 n hn
        rw [List.filter_cons] at h
        split at h
        · simp only [List.length_cons] at h; omega
        · exact h


/-! ## what the checker guarantees -/

theorem checkType_unpack (types : List TypeDef) (td : TypeDef) (h : checkType types td = true) :
    (∀ st ∈ td.prog, ∃ f ok fld, st.target = some (f, ok) ∧ td.fields.find? (·.name == f) = some fld ∧ ok fld.kind = true) ∧
    (∀ fld ∈ td.fields, (td.prog.filter (fun st => st.tname == some fld.name)).length = 1) ∧
    (td.fields.map (·.name)).Nodup := by
  unfold checkType at h
  simp only [Bool.and_eq_true, List.all_eq_true, decide_eq_true_eq, beq_iff_eq] at h
  obtain ⟨⟨⟨⟨_, h2⟩, h3⟩, h4⟩, _⟩ := h
  refine ⟨?_, ?_, h4⟩
  · intro st hst
    have := h2 st hst
    split at this
    · rename_i f ok htg
      split at this
      · rename_i fld hfld
        exact ⟨f, ok, fld, htg, hfld, this⟩
      · cases this
    · cases this
  · intro fld hfld
    have := h3 fld hfld
    rw [← this]
    congr 1
    apply List.filter_congr
    intro st _
    cases st <;> simp [Stmt.target, Stmt.tname]

theorem checkAll_mem (types : List TypeDef) (h : checkAll types = true) (td : TypeDef) (htd : td ∈ types) :
    checkType types td = true := by
  unfold checkAll at h
  simp only [Bool.and_eq_true, List.all_eq_true] at h
  exact h.1 td htd

theorem sound_core (types : List TypeDef) (fuel : Nat)
    (IH : ∀ fuel', fuel = fuel' + 1 → ∀ td, td ∈ types → ∀ a b, conforms types fuel' td.fields a = true →
      conforms types fuel' td.fields b = true →
      evalStmts types fuel' td.fields td.prog a b = specStruct types fuel' td.fields a b)
    (td : TypeDef) (hck : checkType types td = true) (r o : List (String × Val))
    (hr : conforms types fuel td.fields r = true) (ho : conforms types fuel td.fields o = true) :
    evalStmts types fuel td.fields td.prog r o = specStruct types fuel td.fields r o := by
  obtain ⟨h1, h2, h3⟩ := checkType_unpack types td hck
  obtain ⟨hrn, hrc⟩ := (conforms_iff ..).1 hr
  obtain ⟨hon, hoc⟩ := (conforms_iff ..).1 ho
  have hndr : (r.map (·.1)).Nodup := by rw [hrn]; exact h3
  have hndo : (o.map (·.1)).Nodup := by rw [hon]; exact h3
  have hnames : ∀ st ∈ td.prog, ∃ f, st.tname = some f ∧ f ∈ td.fields.map (·.name) := by
    intro st hst
    obtain ⟨f, ok, fld, htg, hfld, _⟩ := h1 st hst
    refine ⟨f, target_tname st f ok htg, ?_⟩
    have hm := List.mem_of_find?_eq_some hfld
    have hn := List.find?_some hfld
    simp only [beq_iff_eq] at hn
    exact List.mem_map.2 ⟨fld, hm, hn⟩
  have htn : (tnames td.prog).Nodup := by
    apply tnames_nodup (td.fields.map (·.name)) td.prog hnames
    intro n hn
    obtain ⟨fld, hfld, rfl⟩ := List.mem_map.1 hn
    rw [h2 fld hfld]
    exact Nat.le_refl 1
  rw [specStruct_eq]
  rw [loop_eq types fuel td.fields o (fieldSpec types fuel td.fields o) (fieldSpec_fst types fuel td.fields o)
    td.prog r hndr htn]
  · apply List.map_congr_left
    intro p hp
    have hpn : p.1 ∈ td.fields.map (·.name) := by rw [← hrn]; exact List.mem_map.2 ⟨p, hp, rfl⟩
    obtain ⟨fld, hfld, hfn⟩ := List.mem_map.1 hpn
    have hlen := h2 fld hfld
    have : p.1 ∈ tnames td.prog := by
      cases hfl : td.prog.filter (fun st => st.tname == some fld.name) with
      | nil => rw [hfl] at hlen; cases hlen
      | cons st _ =>
        have hst : st ∈ td.prog.filter (fun st => st.tname == some fld.name) := by rw [hfl]; exact List.mem_cons_self ..
        rw [List.mem_filter] at hst
        have := hst.2
        simp only [beq_iff_eq] at this
        exact List.mem_filterMap.2 ⟨st, hst.1, by rw [this, hfn]⟩
    simp [this]
  · intro st hst
    obtain ⟨f, ok, fld, htg, hfld, hok⟩ := h1 st hst
    have hfmem : f ∈ td.fields.map (·.name) := by
      obtain ⟨f', hf', hm⟩ := hnames st hst
      rw [target_tname st f ok htg] at hf'
      cases hf'
      exact hm
    obtain ⟨x, hx⟩ := exists_of_mem_names r f (by rw [hrn]; exact hfmem)
    obtain ⟨y, hy⟩ := exists_of_mem_names o f (by rw [hon]; exact hfmem)
    obtain ⟨fld1, hfld1, hcx⟩ := hrc f x hx
    obtain ⟨fld2, hfld2, hcy⟩ := hoc f y hy
    rw [hfld] at hfld1 hfld2
    cases hfld1
    cases hfld2
    refine ⟨f, x, target_tname st f ok htg, hx, ?_⟩
    intro r' hnd' hmem'
    exact step_eq types fuel td.fields o IH st f ok htg fld hfld hok x y hcx hcy
      (lookup_eq_of_mem o hndo f y hy) r' hnd' hmem'

theorem sound_all (types : List TypeDef) (hall : checkAll types = true) : ∀ (fuel : Nat) (td : TypeDef), td ∈ types →
    ∀ (r o : List (String × Val)), conforms types fuel td.fields r = true → conforms types fuel td.fields o = true →
    evalStmts types fuel td.fields td.prog r o = specStruct types fuel td.fields r o := by
  intro fuel
  induction fuel with
  | zero =>
    intro td htd r o hr ho
    exact sound_core types 0 (fun fuel' h => by omega) td (checkAll_mem types hall td htd) r o hr ho
  | succ n ih =>
    intro td htd r o hr ho
    refine sound_core types (n + 1) ?_ td (checkAll_mem types hall td htd) r o hr ho
    intro fuel' h
    have : n = fuel' := by omega
    subst this
    exact ih

end CM.Merge

import CircuitModel.Conc.Trans
namespace CM.Conc.Trans
end CM.Conc.Trans

/-
  Lemmas/Trans.lean — invariants of the small-step model of the serialised open ⇄ closed transitions
  (CircuitModel/Conc/Trans.lean), used by Props/C09Conc.lean.  Structure:
    * `run_inv_tr`: an invariant preserved by every enabled step holds after every schedule;
    * list facts about `alternates` (append, counting);
    * `Good`: what the lock holder has observed at each program point; `step_holder` / `step_start`: one step of it;
    * `Inv`: the global invariant (static flags, alternation, mutual exclusion, flag = last notification when the
      lock is free) and its preservation `Inv_step`;
    * `Quiet` / `QInv`: with an override in force nobody ever reaches `notify` (needs no mutual exclusion).
-/
import CircuitModel.Conc.Trans
namespace CM.Conc.Trans
open CM.Conc

/-! ### generic -/

theorem run_inv_tr {σ loc : Type} (S : Sys σ loc) (I : Config σ loc → Prop)
    (hstep : ∀ (c : Config σ loc) (i : Nat) (l : loc) (s' : σ) (l' : loc), I c → c.locals[i]? = some l →
      S.step i c.shared l = some (s', l') → I { shared := s', locals := c.locals.set i l' })
    (c : Config σ loc) (h : I c) (sched : List Nat) : I (run S c sched) := by
  induction sched generalizing c with
  | nil => exact h
  | cons i rest ih =>
    simp only [run]
    split
    · exact ih c h
    · rename_i l hl
      split
      · exact ih c h
      · rename_i s' l' hs
        exact ih _ (hstep c i l s' l' h hl hs)

/-! ### alternation -/

theorem alternates_append (p : Bool) (l : List Bool) (b : Bool) :
    alternates p (l ++ [b]) = (alternates p l && (b != (l.getLast?).getD p)) := by
  induction l generalizing p with
  | nil => simp [alternates]
  | cons a r ih =>
    simp only [List.cons_append, alternates, ih]
    cases r with
    | nil => simp [Bool.and_assoc]
    | cons c r' => simp [List.getLast?_cons, Bool.and_assoc]

theorem getLast?_append_single (l : List Bool) (b p : Bool) : ((l ++ [b]).getLast?).getD p = b := by
  simp

/-- counting in an alternating list: the sharper statement depends on the element before the list -/
theorem alternates_count (p : Bool) (l : List Bool) (h : alternates p l = true) :
    (p = true → ((l.filter id).length : Int) ≤ (l.filter (!·)).length ∧
                ((l.filter (!·)).length : Int) ≤ (l.filter id).length + 1) ∧
    (p = false → ((l.filter (!·)).length : Int) ≤ (l.filter id).length ∧
                 ((l.filter id).length : Int) ≤ (l.filter (!·)).length + 1) := by
  induction l generalizing p with
  | nil => simp
  | cons b r ih =>
    simp only [alternates, Bool.and_eq_true, bne_iff_ne, ne_eq] at h
    have := ih b h.2
    cases b <;> cases p <;> simp_all <;> omega

theorem alternates_balance (p : Bool) (l : List Bool) (h : alternates p l = true) :
    ((l.filter id).length : Int) - (l.filter (!·)).length ≤ 1 ∧
    ((l.filter (!·)).length : Int) - (l.filter id).length ≤ 1 := by
  have := alternates_count p l h
  cases p <;> simp at this <;> omega

/-! ### the lock holder -/

/-- the last notification delivered (the initial state if none) -/
def lastN (io : Bool) (s : Shared) : Bool := (s.log.getLast?).getD io

/-- what the holder of the lock knows at each program point -/
def Good (io : Bool) (s : Shared) (l : Local) : Prop :=
  match l.pc, l.job with
  | .start, _ => False
  | .done, _ => False
  | .guard1, _ => s.isOpen = lastN io s
  | .isOpenFO, .open => s.isOpen = lastN io s ∧ s.forcedClosed = false
  | .isOpenFO, .close _ _ => s.isOpen = lastN io s
  | .isOpenFC, .open => s.isOpen = lastN io s ∧ s.forcedClosed = false
  | .isOpenFC, .close _ _ => s.isOpen = lastN io s
  | .isOpenFlag, _ => s.isOpen = lastN io s
  | .guard2, .open => s.isOpen = lastN io s
  | .guard2, .close _ _ => s.isOpen = lastN io s ∧ (s.forceOpen = false → s.isOpen = true)
  | .decide, .open => s.isOpen = lastN io s
  | .decide, .close _ _ => s.isOpen = true ∧ lastN io s = true
  | .notify, .open => s.isOpen = false ∧ lastN io s = false
  | .notify, .close _ _ => s.isOpen = true ∧ lastN io s = true
  | .store, .open => lastN io s = true
  | .store, .close _ _ => lastN io s = false
  | .unlock, _ => s.isOpen = lastN io s

/-- one step of the lock holder -/
theorem step_holder (io : Bool) (i : Nat) (s s' : Shared) (l l' : Local)
    (halt : alternates io s.log = true) (hg : Good io s l) (hs : step i s l = some (s', l')) :
    s'.forceOpen = s.forceOpen ∧ s'.forcedClosed = s.forcedClosed ∧ alternates io s'.log = true ∧
    ((s'.holder = s.holder ∧ Good io s' l') ∨ (s'.holder = none ∧ l'.pc = .done ∧ s'.isOpen = lastN io s')) := by
  obtain ⟨job, pc⟩ := l
  cases pc <;> cases job <;> simp only [step, Good, lastN] at hs hg ⊢
  all_goals (try split at hs)
  all_goals (try split at hs)
  all_goals (try simp only [Option.some.injEq, Prod.mk.injEq] at hs)
  all_goals (try (obtain ⟨rfl, rfl⟩ := hs))
  all_goals (simp_all [alternates_append])

/-- taking the lock -/
theorem step_start (io : Bool) (i : Nat) (s s' : Shared) (l l' : Local) (hpc : l.pc = .start)
    (hs : step i s l = some (s', l')) :
    s.holder = none ∧ s' = { s with holder := some i } ∧ (s.isOpen = lastN io s → Good io s' l') := by
  obtain ⟨job, pc⟩ := l
  simp only at hpc; subst hpc
  simp only [step] at hs
  split at hs
  · rename_i hn
    simp only [Option.some.injEq, Prod.mk.injEq] at hs
    obtain ⟨rfl, rfl⟩ := hs
    refine ⟨by simpa using hn, rfl, ?_⟩
    cases job <;> simp [Good, lastN]
  · simp at hs

/-- a thread outside the critical section cannot move while the lock is taken -/
theorem step_idle (i : Nat) (s : Shared) (l : Local) (hpc : l.pc = .start ∨ l.pc = .done) (hh : s.holder ≠ none) :
    step i s l = none := by
  obtain ⟨job, pc⟩ := l
  rcases hpc with hpc | hpc <;> simp only at hpc <;> subst hpc <;> simp [step]
  cases h : s.holder <;> simp_all

theorem step_done (i : Nat) (s : Shared) (l : Local) (hpc : l.pc = .done) : step i s l = none := by
  obtain ⟨job, pc⟩ := l
  simp only at hpc; subst hpc; simp [step]

/-- the lock holder is never blocked -/
theorem step_good_isSome (io : Bool) (i : Nat) (s : Shared) (l : Local) (hg : Good io s l) : (step i s l).isSome = true := by
  obtain ⟨job, pc⟩ := l
  cases pc <;> cases job <;> simp only [step, Good] at hg ⊢ <;> (try split) <;> simp_all

theorem step_start_isSome (i : Nat) (s : Shared) (l : Local) (hpc : l.pc = .start) (hh : s.holder = none) :
    (step i s l).isSome = true := by
  obtain ⟨job, pc⟩ := l
  simp only at hpc; subst hpc; simp [step, hh]

/-! ### the global invariant -/

structure Inv (fo fc io : Bool) (c : Config Shared Local) : Prop where
  hfo : c.shared.forceOpen = fo
  hfc : c.shared.forcedClosed = fc
  alt : alternates io c.shared.log = true
  /-- mutual exclusion: whoever does not hold the lock is outside the critical section -/
  idle : ∀ j l, c.locals[j]? = some l → c.shared.holder ≠ some j → l.pc = .start ∨ l.pc = .done
  held : ∀ i, c.shared.holder = some i → ∃ l, c.locals[i]? = some l ∧ Good io c.shared l
  free : c.shared.holder = none → c.shared.isOpen = lastN io c.shared

theorem Inv_init (fo fc io : Bool) (jobs : List Job) : Inv fo fc io (init fo fc io jobs) := by
  refine ⟨rfl, rfl, rfl, ?_, ?_, ?_⟩
  · intro j l hl _
    simp only [init, List.getElem?_map, Option.map_eq_some_iff] at hl
    obtain ⟨a, _, rfl⟩ := hl
    exact Or.inl rfl
  · intro i hi; simp [init] at hi
  · intro _; simp [init, lastN]

theorem Inv_step (fo fc io : Bool) (c : Config Shared Local) (i : Nat) (l : Local) (s' : Shared) (l' : Local)
    (I : Inv fo fc io c) (hl : c.locals[i]? = some l) (hs : step i c.shared l = some (s', l')) :
    Inv fo fc io { shared := s', locals := c.locals.set i l' } := by
  have hi : i < c.locals.length := (List.getElem?_eq_some_iff.1 hl).1
  cases hh : c.shared.holder with
  | none =>
    rcases I.idle i l hl (by simp [hh]) with hpc | hpc
    · obtain ⟨_, rfl, hg⟩ := step_start io i _ _ _ _ hpc hs
      refine ⟨I.hfo, I.hfc, I.alt, ?_, ?_, ?_⟩
      · intro j lj hj hne
        have hij : i ≠ j := by intro e; subst e; simp at hne
        simp only [List.getElem?_set_ne hij] at hj
        exact I.idle j lj hj (by simp [hh])
      · intro k hk
        simp only [Option.some.injEq] at hk
        subst hk
        exact ⟨l', by simp [hi], hg (I.free hh)⟩
      · intro h; simp at h
    · rw [step_done i _ l hpc] at hs; cases hs
  | some h =>
    by_cases e : i = h
    · subst e
      obtain ⟨lh, hlh, hg⟩ := I.held i hh
      rw [hl] at hlh; cases hlh
      obtain ⟨h1, h2, h3, h4⟩ := step_holder io i _ _ _ _ I.alt hg hs
      rcases h4 with ⟨h5, h6⟩ | ⟨h5, h6, h7⟩
      · refine ⟨h1.trans I.hfo, h2.trans I.hfc, h3, ?_, ?_, ?_⟩
        · intro j lj hj hne
          have hij : i ≠ j := by intro e; subst e; simp [h5, hh] at hne
          simp only [List.getElem?_set_ne hij] at hj
          exact I.idle j lj hj (by simp [hh, hij])
        · intro k hk
          simp only [h5, hh, Option.some.injEq] at hk
          subst hk
          exact ⟨l', by simp [hi], h6⟩
        · intro hn; simp [h5, hh] at hn
      · refine ⟨h1.trans I.hfo, h2.trans I.hfc, h3, ?_, ?_, ?_⟩
        · intro j lj hj _
          by_cases hij : i = j
          · subst hij
            simp only [List.getElem?_set_self hi, Option.some.injEq] at hj
            subst hj; exact Or.inr h6
          · simp only [List.getElem?_set_ne hij] at hj
            exact I.idle j lj hj (by simp [hh, hij])
        · intro k hk; simp [h5] at hk
        · intro _; exact h7
    · have hpc := I.idle i l hl (by simp [hh]; exact fun e' => e e'.symm)
      rw [step_idle i _ l hpc (by simp [hh])] at hs; cases hs

theorem Inv_run (fo fc io : Bool) (jobs : List Job) (sched : List Nat) :
    Inv fo fc io (run sys (init fo fc io jobs) sched) :=
  run_inv_tr sys (Inv fo fc io) (fun c i l s' l' I hl hs => Inv_step fo fc io c i l s' l' I hl hs) _
    (Inv_init fo fc io jobs) sched

/-- a finished thread does not hold the lock -/
theorem Inv_quiescent (fo fc io : Bool) (c : Config Shared Local) (I : Inv fo fc io c) (hq : quiescent c = true) :
    c.shared.holder = none := by
  cases hh : c.shared.holder with
  | none => rfl
  | some h =>
    obtain ⟨l, hl, hg⟩ := I.held h hh
    have hm : l ∈ c.locals := List.mem_of_getElem? hl
    have hd : l.pc = .done := by
      have := (List.all_eq_true.1 hq) l hm
      simpa using this
    obtain ⟨job, pc⟩ := l
    simp only at hd; subst hd
    cases job <;> simp [Good] at hg

theorem Inv_progress (fo fc io : Bool) (c : Config Shared Local) (I : Inv fo fc io c) (hq : quiescent c = false) :
    ∃ i l, c.locals[i]? = some l ∧ (step i c.shared l).isSome = true := by
  cases hh : c.shared.holder with
  | some h =>
    obtain ⟨l, hl, hg⟩ := I.held h hh
    exact ⟨h, l, hl, step_good_isSome io h _ l hg⟩
  | none =>
    have : ∃ l ∈ c.locals, ¬ (l.pc == Pc.done) = true := by
      simpa [quiescent, List.all_eq_false] using hq
    obtain ⟨l, hm, hnd⟩ := this
    obtain ⟨i, hl⟩ := List.mem_iff_getElem?.1 hm
    refine ⟨i, l, hl, ?_⟩
    rcases I.idle i l hl (by simp [hh]) with hpc | hpc
    · exact step_start_isSome i _ l hpc hh
    · simp [hpc] at hnd

/-! ### overrides: nobody reaches `notify` (no mutual exclusion needed) -/

def Quiet (fo fc : Bool) (l : Local) : Prop :=
  match l.pc, l.job with
  | .isOpenFO, .open => fc = false
  | .isOpenFC, .open => False
  | .isOpenFC, .close _ _ => fo = false
  | .isOpenFlag, _ => False
  | .guard2, _ => fo = true
  | .decide, _ => False
  | .notify, _ => False
  | .store, _ => False
  | _, _ => True

theorem step_quiet (fo fc : Bool) (h : fo = true ∨ fc = true) (i : Nat) (s s' : Shared) (l l' : Local)
    (hfo : s.forceOpen = fo) (hfc : s.forcedClosed = fc) (hq : Quiet fo fc l) (hs : step i s l = some (s', l')) :
    s'.forceOpen = s.forceOpen ∧ s'.forcedClosed = s.forcedClosed ∧ s'.log = s.log ∧ s'.isOpen = s.isOpen ∧
    Quiet fo fc l' := by
  obtain ⟨job, pc⟩ := l
  subst hfo hfc
  cases pc <;> cases job <;> simp only [step, Quiet] at hs hq ⊢
  all_goals (try split at hs)
  all_goals (try split at hs)
  all_goals (try simp only [Option.some.injEq, Prod.mk.injEq] at hs)
  all_goals (try (obtain ⟨rfl, rfl⟩ := hs))
  all_goals (simp_all)

structure QInv (fo fc io : Bool) (c : Config Shared Local) : Prop where
  hfo : c.shared.forceOpen = fo
  hfc : c.shared.forcedClosed = fc
  hlog : c.shared.log = []
  hio : c.shared.isOpen = io
  quiet : ∀ l ∈ c.locals, Quiet fo fc l

theorem QInv_init (fo fc io : Bool) (jobs : List Job) : QInv fo fc io (init fo fc io jobs) := by
  refine ⟨rfl, rfl, rfl, rfl, ?_⟩
  intro l hl
  simp only [init, List.mem_map] at hl
  obtain ⟨j, _, rfl⟩ := hl
  cases j <;> simp [Quiet]

theorem QInv_run (fo fc io : Bool) (h : fo = true ∨ fc = true) (jobs : List Job) (sched : List Nat) :
    QInv fo fc io (run sys (init fo fc io jobs) sched) := by
  refine run_inv_tr sys (QInv fo fc io) ?_ _ (QInv_init fo fc io jobs) sched
  intro c i l s' l' I hl hs
  obtain ⟨h1, h2, h3, h4, h5⟩ := step_quiet fo fc h i _ _ l l' I.hfo I.hfc (I.quiet l (List.mem_of_getElem? hl)) hs
  refine ⟨h1.trans I.hfo, h2.trans I.hfc, h3.trans I.hlog, h4.trans I.hio, ?_⟩
  intro x hx
  rcases List.mem_or_eq_of_mem_set hx with hx | rfl
  · exact I.quiet x hx
  · exact h5

end CM.Conc.Trans

import CircuitModel.Conc.Mgr
namespace CM.Conc.Mgr
end CM.Conc.Mgr

/-
  Lemmas/ConcMgr.lean — invariants of the small-step model of concurrent use of one Manager
  (CircuitModel/Conc/Mgr.lean), used by Props/C17Conc.lean.  Structure:
    * `run_inv_mgr`: an invariant preserved by every enabled step holds after every schedule;
    * sequential facts about `CM.Mgr.run` / `exec` (append, one winner by position, stable handle, registry);
    * list facts (unique key in a list with Nodup keys, pigeonhole);
    * `cmgr_TOK`: what is known of one thread at each program point; `cmgr_Inv`: the global invariant and its
      preservation `cmgr_Inv_step`; `cmgr_inv_run`: it holds after every schedule.
-/
import CircuitModel.Conc.Mgr
import CircuitProofs.Lemmas.Mgr
namespace CM.Conc.Mgr
open CM.Conc CM.Mgr

/-! ### generic -/

theorem run_inv_mgr {σ loc : Type} (S : Sys σ loc) (I : Config σ loc → Prop)
    (hstep : ∀ (c : Config σ loc) (i : Nat) (l : loc) (s' : σ) (l' : loc), I c → c.locals[i]? = some l →
      S.step i c.shared l = some (s', l') → I { shared := s', locals := c.locals.set i l' })
    (c : Config σ loc) (h : I c) (sched : List Nat) : I (run S c sched) := by
  induction sched generalizing c with
  | nil => exact h
  | cons i rest ih =>
    simp only [run]
    split
    · exact ih c h
    · rename_i l hl
      split
      · exact ih c h
      · rename_i s' l' hs
        exact ih _ (hstep c i l s' l' h hl hs)

/-! ### sequential facts -/

theorem cmgr_exec_append (s : State) (ops : List Op) (op : Op) :
    exec s (ops ++ [op]) = (CM.Mgr.step (exec s ops) op).1 := by
  simp [exec, List.foldl_append]

theorem cmgr_run_append (s : State) (ops : List Op) (op : Op) :
    CM.Mgr.run s (ops ++ [op]) = CM.Mgr.run s ops ++ [(CM.Mgr.step (exec s ops) op).2] := by
  induction ops generalizing s with
  | nil => simp [run_cons, run_nil, exec_nil]
  | cons o ops ih => simp [run_cons, exec_cons, ih]

/-- the circuit a `created` output carries -/
def cmgr_createdOf : Out → Option Circuit
  | .created x => some x
  | _ => none

theorem cmgr_step_circuits (s : State) (op : Op) :
    (CM.Mgr.step s op).1.circuits.map (·.2) = s.circuits.map (·.2) ++ (cmgr_createdOf (CM.Mgr.step s op).2).toList := by
  cases op with
  | create n cs =>
    show (create s n cs).1.circuits.map (·.2) = _ ++ (cmgr_createdOf (create s n cs).2).toList
    cases hg : s.get n with
    | some c => rw [create_some cs hg]; simp [cmgr_createdOf]
    | none => rw [create_none cs hg]; simp [cmgr_createdOf]
  | get n => simp [CM.Mgr.step, cmgr_createdOf]
  | all => simp [CM.Mgr.step, cmgr_createdOf]
  | stats n => simp [CM.Mgr.step, cmgr_createdOf]

theorem cmgr_exec_circuits (s : State) (ops : List Op) :
    (exec s ops).circuits.map (·.2) = s.circuits.map (·.2) ++ (CM.Mgr.run s ops).filterMap cmgr_createdOf := by
  induction ops generalizing s with
  | nil => simp [exec_nil, run_nil]
  | cons op ops ih =>
    rw [exec_cons, run_cons, ih, cmgr_step_circuits, List.filterMap_cons]
    cases h : cmgr_createdOf (CM.Mgr.step s op).2 <;> simp

/-- once the name is registered: every later create of it fails, every later get returns it -/
theorem cmgr_after_registered (name : String) (w : Circuit) (ops : List Op) (s : State) (h : s.get name = some w)
    (q : Nat) :
    (∀ cs, ops[q]? = some (Op.create name cs) → (CM.Mgr.run s ops)[q]? = some Out.exists_) ∧
    (ops[q]? = some (Op.get name) → (CM.Mgr.run s ops)[q]? = some (Out.got (some w))) := by
  induction ops generalizing s q with
  | nil => simp
  | cons op ops ih =>
    rw [run_cons]
    cases q with
    | zero =>
      refine ⟨?_, ?_⟩
      · intro cs hq
        simp only [List.getElem?_cons_zero, Option.some.injEq] at hq
        subst hq
        show some (create s name cs).2 = _
        rw [create_some cs h]
      · intro hq
        simp only [List.getElem?_cons_zero, Option.some.injEq] at hq
        subst hq
        simp [CM.Mgr.step, h]
    | succ q =>
      simp only [List.getElem?_cons_succ]
      exact ih _ (step_get_preserve h op) q

/-- a successful create registers its circuit -/
theorem cmgr_created_registers (s : State) (name : String) (cs : List Layer) (w : Circuit)
    (h : (CM.Mgr.step s (Op.create name cs)).2 = Out.created w) :
    (CM.Mgr.step s (Op.create name cs)).1.get name = some w := by
  change (create s name cs).2 = _ at h
  show (create s name cs).1.get name = _
  cases hg : s.get name with
  | some c => rw [create_some cs hg] at h; cases h
  | none =>
    rw [create_none cs hg] at h
    cases h
    exact create_get_same cs hg

/-- after the position of a successful create of the name -/
theorem cmgr_after_created (name : String) (w : Circuit) (cs : List Layer) (ops : List Op) (s : State) (p q : Nat)
    (hp : ops[p]? = some (Op.create name cs)) (ho : (CM.Mgr.run s ops)[p]? = some (Out.created w)) (hpq : p < q) :
    (∀ cs', ops[q]? = some (Op.create name cs') → (CM.Mgr.run s ops)[q]? = some Out.exists_) ∧
    (ops[q]? = some (Op.get name) → (CM.Mgr.run s ops)[q]? = some (Out.got (some w))) := by
  induction ops generalizing s p q with
  | nil => simp at hp
  | cons op ops ih =>
    rw [run_cons] at ho ⊢
    cases q with
    | zero => omega
    | succ q =>
      simp only [List.getElem?_cons_succ]
      cases p with
      | zero =>
        simp only [List.getElem?_cons_zero, Option.some.injEq] at hp ho
        subst hp
        exact cmgr_after_registered name w ops _ (cmgr_created_registers s name cs w ho) q
      | succ p =>
        simp only [List.getElem?_cons_succ] at hp ho
        exact ih _ p q hp ho (by omega)

/-- a get that found the circuit: the name is registered from then on -/
theorem cmgr_after_got (name : String) (g : Circuit) (ops : List Op) (s : State) (p q : Nat)
    (hp : ops[p]? = some (Op.get name)) (ho : (CM.Mgr.run s ops)[p]? = some (Out.got (some g))) (hpq : p < q) :
    ∀ cs', ops[q]? = some (Op.create name cs') → (CM.Mgr.run s ops)[q]? = some Out.exists_ := by
  induction ops generalizing s p q with
  | nil => simp at hp
  | cons op ops ih =>
    rw [run_cons] at ho ⊢
    cases q with
    | zero => omega
    | succ q =>
      simp only [List.getElem?_cons_succ]
      cases p with
      | zero =>
        simp only [List.getElem?_cons_zero, Option.some.injEq] at hp ho
        subst hp
        have hg : s.get name = some g := by simpa [CM.Mgr.step] using ho
        exact (cmgr_after_registered name g ops _ (step_get_preserve hg _) q).1
      | succ p =>
        simp only [List.getElem?_cons_succ] at hp ho
        exact ih _ p q hp ho (by omega)

/-- two successful creates of one name are the same position -/
theorem cmgr_seq_one_winner (name : String) (ops : List Op) (s : State) (p q : Nat) (cs cs' : List Layer)
    (w w' : Circuit)
    (hp : ops[p]? = some (Op.create name cs)) (ho : (CM.Mgr.run s ops)[p]? = some (Out.created w))
    (hq : ops[q]? = some (Op.create name cs')) (ho' : (CM.Mgr.run s ops)[q]? = some (Out.created w')) : p = q := by
  rcases Nat.lt_trichotomy p q with h | h | h
  · have := (cmgr_after_created name w cs ops s p q hp ho h).1 cs' hq
    rw [this] at ho'; cases ho'
  · exact h
  · have := (cmgr_after_created name w' cs' ops s q p hq ho' h).1 cs hp
    rw [this] at ho; cases ho

/-- a get that returned a circuit returned the winner's -/
theorem cmgr_seq_get_winner (name : String) (ops : List Op) (s : State) (p q : Nat) (cs : List Layer)
    (w g : Circuit)
    (hp : ops[p]? = some (Op.create name cs)) (ho : (CM.Mgr.run s ops)[p]? = some (Out.created w))
    (hq : ops[q]? = some (Op.get name)) (ho' : (CM.Mgr.run s ops)[q]? = some (Out.got (some g))) : g = w := by
  rcases Nat.lt_trichotomy p q with h | h | h
  · have := (cmgr_after_created name w cs ops s p q hp ho h).2 hq
    rw [this] at ho'
    simpa using ho'.symm
  · subst h; rw [hp] at hq; cases hq
  · have := cmgr_after_got name g ops s q p hq ho' h cs hp
    rw [this] at ho; cases ho

/-- from a state without the name, an attempted create of it means one of them succeeds -/
theorem cmgr_seq_some_winner (name : String) (ops : List Op) (s : State) (h : s.get name = none) (k : Nat)
    (cs : List Layer) (hk : ops[k]? = some (Op.create name cs)) :
    ∃ (p : Nat) (cs' : List Layer) (w : Circuit),
      ops[p]? = some (Op.create name cs') ∧ (CM.Mgr.run s ops)[p]? = some (Out.created w) := by
  induction ops generalizing s k with
  | nil => simp at hk
  | cons op ops ih =>
    by_cases hop : ∃ cs', op = Op.create name cs'
    · obtain ⟨cs', rfl⟩ := hop
      refine ⟨0, cs', mkCircuit s name cs', rfl, ?_⟩
      rw [run_cons]
      show some (create s name cs').2 = _
      rw [create_none cs' h]
    · cases k with
      | zero =>
        simp only [List.getElem?_cons_zero, Option.some.injEq] at hk
        exact absurd ⟨cs, hk⟩ hop
      | succ k =>
        simp only [List.getElem?_cons_succ] at hk
        have h' : (CM.Mgr.step s op).1.get name = none := by
          cases op with
          | create n cs'' =>
            have hn : n ≠ name := fun e => hop ⟨cs'', by rw [e]⟩
            show (create s n cs'').1.get name = none
            rw [create_get_other s cs'' hn]; exact h
          | get n => exact h
          | all => exact h
          | stats n => exact h
        obtain ⟨p, cs', w, h1, h2⟩ := ih _ h' k hk
        exact ⟨p + 1, cs', w, by simpa using h1, by rw [run_cons]; simpa using h2⟩

/-! ### list facts -/

theorem cmgr_getElem?_set {α : Type} (xs : List α) (i j : Nat) (a b : α) (h : (xs.set i a)[j]? = some b) :
    (j = i ∧ b = a) ∨ (j ≠ i ∧ xs[j]? = some b) := by
  rw [List.getElem?_set] at h
  by_cases hij : i = j
  · subst hij
    left
    simp only [if_true] at h
    split at h
    · exact ⟨rfl, by simpa using h.symm⟩
    · cases h
  · right
    simp only [hij, if_false] at h
    exact ⟨fun e => hij e.symm, h⟩

/-- in a list whose keys are distinct, the key determines the entry -/
theorem cmgr_nodup_key {α β : Type} (l : List (α × β)) (h : (l.map (·.1)).Nodup) (e e' : α × β)
    (he : e ∈ l) (he' : e' ∈ l) (hk : e.1 = e'.1) : e = e' := by
  induction l with
  | nil => cases he
  | cons x xs ih =>
    simp only [List.map_cons, List.nodup_cons, List.mem_map, not_exists, not_and] at h
    rcases List.mem_cons.1 he with h1 | h1
    · rcases List.mem_cons.1 he' with h2 | h2
      · rw [h1, h2]
      · subst h1; exact absurd hk.symm (h.1 e' h2)
    · rcases List.mem_cons.1 he' with h2 | h2
      · subst h2; exact absurd hk (h.1 e h1)
      · exact ih h.2 h1 h2

theorem cmgr_nodup_bound (n : Nat) (l : List Nat) (hnd : l.Nodup) (hlt : ∀ x ∈ l, x < n) : l.length ≤ n := by
  induction n generalizing l with
  | zero =>
    cases l with
    | nil => simp
    | cons x xs => exact absurd (hlt x (by simp)) (by omega)
  | succ n ih =>
    have h1 : (l.erase n).length ≤ n := by
      apply ih _ (hnd.erase n)
      intro x hx
      rw [hnd.mem_erase_iff] at hx
      have := hlt x hx.2
      omega
    by_cases hn : n ∈ l
    · rw [List.length_erase_of_mem hn] at h1; omega
    · rw [List.erase_of_not_mem hn] at h1; omega

theorem cmgr_cover_bound (n : Nat) (l : List Nat) (hall : ∀ i, i < n → i ∈ l) : n ≤ l.length := by
  induction n generalizing l with
  | zero => omega
  | succ n ih =>
    have hn : n ∈ l := hall n (by omega)
    have h1 : n ≤ (l.erase n).length := by
      apply ih
      intro i hi
      rw [List.mem_erase_of_ne (by omega)]
      exact hall i (by omega)
    rw [List.length_erase_of_mem hn] at h1
    have : 0 < l.length := List.length_pos_of_mem hn
    omega

theorem cmgr_length_le_one {α : Type} (l : List α) (hnd : l.Nodup) (h : ∀ a ∈ l, ∀ b ∈ l, a = b) : l.length ≤ 1 := by
  match l, hnd, h with
  | [], _, _ => simp
  | [_], _, _ => simp
  | a :: b :: r, hnd, h =>
    have : a = b := h a (by simp) b (by simp)
    subst this
    simp at hnd

/-! ### one step, by cases -/

theorem cmgr_step_cases (i : Nat) (s s' : Shared) (l l' : Local) (hs : step i s l = some (s', l')) :
    (l.pc = .begin ∧ isWriter l.job = true ∧ s.writer = none ∧ s.readers = [] ∧
        s' = { s with writer := some i } ∧ l' = { l with pc := .locked }) ∨
    (l.pc = .begin ∧ isWriter l.job = false ∧ s.writer = none ∧
        s' = { s with readers := i :: s.readers } ∧ l' = { l with pc := .locked }) ∨
    (l.pc = .locked ∧
        s' = { s with st := (CM.Mgr.step s.st l.job).1, log := s.log ++ [(i, l.job, (CM.Mgr.step s.st l.job).2)] } ∧
        l' = { l with pc := .ran (CM.Mgr.step s.st l.job).2 }) ∨
    (∃ o, l.pc = .ran o ∧ isWriter l.job = true ∧ s' = { s with writer := none } ∧ l' = { l with pc := .done o }) ∨
    (∃ o, l.pc = .ran o ∧ isWriter l.job = false ∧ s' = { s with readers := s.readers.erase i } ∧
        l' = { l with pc := .done o }) := by
  obtain ⟨job, pc⟩ := l
  cases pc with
  | begin =>
    simp only [step] at hs
    cases hw : isWriter job with
    | true =>
      simp only [hw, if_true] at hs
      split at hs
      · rename_i hc
        simp only [Option.some.injEq, Prod.mk.injEq] at hs
        obtain ⟨rfl, rfl⟩ := hs
        simp only [Bool.and_eq_true, Option.isNone_iff_eq_none, List.isEmpty_iff] at hc
        left; exact ⟨rfl, rfl, hc.1, hc.2, rfl, rfl⟩
      · cases hs
    | false =>
      simp only [hw, Bool.false_eq_true, if_false] at hs
      split at hs
      · rename_i hc
        simp only [Option.some.injEq, Prod.mk.injEq] at hs
        obtain ⟨rfl, rfl⟩ := hs
        simp only [Option.isNone_iff_eq_none] at hc
        right; left; exact ⟨rfl, rfl, hc, rfl, rfl⟩
      · cases hs
  | locked =>
    simp only [step, Option.some.injEq, Prod.mk.injEq] at hs
    obtain ⟨rfl, rfl⟩ := hs
    right; right; left; exact ⟨rfl, rfl, rfl⟩
  | ran o =>
    simp only [step] at hs
    cases hw : isWriter job with
    | true =>
      simp only [hw, if_true, Option.some.injEq, Prod.mk.injEq] at hs
      obtain ⟨rfl, rfl⟩ := hs
      right; right; right; left; exact ⟨o, rfl, rfl, rfl, rfl⟩
    | false =>
      simp only [hw, Bool.false_eq_true, if_false, Option.some.injEq, Prod.mk.injEq] at hs
      obtain ⟨rfl, rfl⟩ := hs
      right; right; right; right; exact ⟨o, rfl, rfl, rfl, rfl⟩
  | done o => simp [step] at hs

/-! ### what is known of one thread -/

/-- holding the lock: between acquire and release -/
def cmgr_inside : Pc → Bool
  | .locked => true
  | .ran _ => true
  | _ => false

/-- the thread's body is in the log iff it ran, with its own job and the output it holds -/
def cmgr_logged (log : List (Nat × Op × Out)) (i : Nat) (l : Local) : Prop :=
  match l.pc with
  | .begin => i ∉ log.map (·.1)
  | .locked => i ∉ log.map (·.1)
  | .ran o => (i, l.job, o) ∈ log
  | .done o => (i, l.job, o) ∈ log

structure cmgr_TOK (s : Shared) (i : Nat) (l : Local) : Prop where
  lg : cmgr_logged s.log i l
  w : s.writer = some i ↔ (isWriter l.job = true ∧ cmgr_inside l.pc = true)
  r : i ∈ s.readers ↔ (isWriter l.job = false ∧ cmgr_inside l.pc = true)

/-- a step of another thread does not disturb what is known of thread `j` -/
theorem cmgr_TOK_frame (s s' : Shared) (j : Nat) (l : Local)
    (hw : s'.writer = some j ↔ s.writer = some j) (hr : j ∈ s'.readers ↔ j ∈ s.readers)
    (hlog : s'.log = s.log ∨ ∃ i op o, i ≠ j ∧ s'.log = s.log ++ [(i, op, o)])
    (h : cmgr_TOK s j l) : cmgr_TOK s' j l := by
  refine ⟨?_, hw.trans h.w, hr.trans h.r⟩
  have hlg := h.lg
  rcases hlog with e | ⟨i, op, o, hij, e⟩
  · rw [e]; exact hlg
  · rw [e]
    unfold cmgr_logged at hlg ⊢
    split at hlg <;> simp_all <;> omega

/-! ### the global invariant -/

structure cmgr_Inv (ctors : List Ctor) (jobs : List Op) (c : Config Shared Local) : Prop where
  hlen : c.locals.length = jobs.length
  hjob : ∀ (i : Nat) (l : Local), c.locals[i]? = some l → jobs[i]? = some l.job
  hrun : c.shared.log.map (·.2.2) = CM.Mgr.run { ctors := ctors } (c.shared.log.map (·.2.1))
  hst : c.shared.st = exec { ctors := ctors } (c.shared.log.map (·.2.1))
  hnd : (c.shared.log.map (·.1)).Nodup
  hlj : ∀ e ∈ c.shared.log, jobs[e.1]? = some e.2.1
  hthr : ∀ (i : Nat) (l : Local), c.locals[i]? = some l → cmgr_TOK c.shared i l
  hw : ∀ j, c.shared.writer = some j → j < c.locals.length
  hr : ∀ j ∈ c.shared.readers, j < c.locals.length
  hrnd : c.shared.readers.Nodup
  hwr : c.shared.writer.isSome = true → c.shared.readers = []

theorem cmgr_Inv_init (ctors : List Ctor) (jobs : List Op) : cmgr_Inv ctors jobs (init { ctors := ctors } jobs) := by
  refine ⟨by simp [init], ?_, by simp [init, run_nil], by simp [init, exec_nil], by simp [init], by simp [init], ?_,
    by simp [init], by simp [init], by simp [init], by simp [init]⟩
  · intro i l hl
    simp only [init, List.getElem?_map, Option.map_eq_some_iff] at hl
    obtain ⟨j, hj, rfl⟩ := hl
    exact hj
  · intro i l hl
    simp only [init, List.getElem?_map, Option.map_eq_some_iff] at hl
    obtain ⟨j, hj, rfl⟩ := hl
    refine ⟨by simp [cmgr_logged, init], by simp [init, cmgr_inside], by simp [init, cmgr_inside]⟩

/-- preservation, from what a step has to supply -/
theorem cmgr_Inv_of (ctors : List Ctor) (jobs : List Op) (c : Config Shared Local) (i : Nat) (l l' : Local)
    (s' : Shared) (h : cmgr_Inv ctors jobs c) (hl : c.locals[i]? = some l) (hjob : l'.job = l.job)
    (hlog : (s'.log = c.shared.log ∧ s'.st = c.shared.st) ∨
      (l.pc = .locked ∧ s'.log = c.shared.log ++ [(i, l.job, (CM.Mgr.step c.shared.st l.job).2)] ∧
        s'.st = (CM.Mgr.step c.shared.st l.job).1))
    (hi : cmgr_TOK s' i l')
    (hfw : ∀ j, j ≠ i → (s'.writer = some j ↔ c.shared.writer = some j))
    (hfr : ∀ j, j ≠ i → (j ∈ s'.readers ↔ j ∈ c.shared.readers))
    (hw : ∀ j, s'.writer = some j → j < c.locals.length)
    (hr : ∀ j ∈ s'.readers, j < c.locals.length)
    (hrnd : s'.readers.Nodup)
    (hwr : s'.writer.isSome = true → s'.readers = []) :
    cmgr_Inv ctors jobs { shared := s', locals := c.locals.set i l' } := by
  have hthr : ∀ j lj, (c.locals.set i l')[j]? = some lj → cmgr_TOK s' j lj := by
    intro j lj hj
    rcases cmgr_getElem?_set _ _ _ _ _ hj with ⟨rfl, rfl⟩ | ⟨hji, hj⟩
    · exact hi
    · refine cmgr_TOK_frame c.shared s' j lj (hfw j hji) (hfr j hji) ?_ (h.hthr j lj hj)
      rcases hlog with ⟨e, _⟩ | ⟨_, e, _⟩
      · exact Or.inl e
      · exact Or.inr ⟨i, _, _, fun e => hji e.symm, e⟩
  have hjob' : ∀ (j : Nat) (lj : Local), (c.locals.set i l')[j]? = some lj → jobs[j]? = some lj.job := by
    intro j lj hj
    rcases cmgr_getElem?_set _ _ _ _ _ hj with ⟨rfl, rfl⟩ | ⟨hji, hj⟩
    · rw [hjob]; exact h.hjob _ l hl
    · exact h.hjob j lj hj
  rcases hlog with ⟨e1, e2⟩ | ⟨hpc, e1, e2⟩
  · exact ⟨by simpa using h.hlen, hjob', by simpa only [e1] using h.hrun, by simpa only [e1, e2] using h.hst,
      by simpa only [e1] using h.hnd, by simpa only [e1] using h.hlj, hthr, by simpa using hw, by simpa using hr,
      hrnd, hwr⟩
  · have hnot : i ∉ c.shared.log.map (·.1) := by
      have := (h.hthr i l hl).lg
      unfold cmgr_logged at this
      rw [hpc] at this
      exact this
    refine ⟨by simpa using h.hlen, hjob', ?_, ?_, ?_, ?_, hthr, by simpa using hw, by simpa using hr, hrnd, hwr⟩
    · show s'.log.map (·.2.2) = CM.Mgr.run _ (s'.log.map (·.2.1))
      rw [e1, List.map_append, List.map_append, List.map_singleton, List.map_singleton, cmgr_run_append, ← h.hst,
        h.hrun]
    · show s'.st = exec _ (s'.log.map (·.2.1))
      rw [e1, e2, List.map_append, List.map_singleton, cmgr_exec_append, ← h.hst]
    · show (s'.log.map (·.1)).Nodup
      rw [e1, List.map_append, List.map_singleton, List.nodup_append]
      refine ⟨h.hnd, by simp, ?_⟩
      intro a ha b hb
      simp only [List.mem_singleton] at hb
      subst hb
      intro e; subst e; exact hnot ha
    · show ∀ e ∈ s'.log, jobs[e.1]? = some e.2.1
      intro e he
      rw [e1, List.mem_append, List.mem_singleton] at he
      rcases he with he | rfl
      · exact h.hlj e he
      · exact h.hjob i l hl

theorem cmgr_lt_of_get {α : Type} (xs : List α) (i : Nat) (a : α) (h : xs[i]? = some a) : i < xs.length := by
  rw [List.getElem?_eq_some_iff] at h
  exact h.1

theorem cmgr_Inv_step (ctors : List Ctor) (jobs : List Op) (c : Config Shared Local) (i : Nat) (l : Local)
    (s' : Shared) (l' : Local) (h : cmgr_Inv ctors jobs c) (hl : c.locals[i]? = some l)
    (hs : step i c.shared l = some (s', l')) :
    cmgr_Inv ctors jobs { shared := s', locals := c.locals.set i l' } := by
  have hi := h.hthr i l hl
  have hlt := cmgr_lt_of_get _ _ _ hl
  have hlg := hi.lg
  unfold cmgr_logged at hlg
  rcases cmgr_step_cases i c.shared s' l l' hs with
    ⟨hpc, hjw, hwn, hrn, rfl, rfl⟩ | ⟨hpc, hjw, hwn, rfl, rfl⟩ | ⟨hpc, rfl, rfl⟩ | ⟨o, hpc, hjw, rfl, rfl⟩ |
    ⟨o, hpc, hjw, rfl, rfl⟩
  · -- a writer takes the lock
    rw [hpc] at hlg
    refine cmgr_Inv_of ctors jobs c i l _ _ h hl rfl (Or.inl ⟨rfl, rfl⟩) ⟨?_, ?_, ?_⟩ ?_ ?_ ?_ ?_ ?_ ?_
    · simpa [cmgr_logged] using hlg
    · simp [hjw, cmgr_inside]
    · simp [hjw, hrn]
    · intro j hj; simp [hwn, hj.symm]
    · intro j hj; exact Iff.rfl
    · intro j hj; simp only [Option.some.injEq] at hj; omega
    · exact h.hr
    · exact h.hrnd
    · intro _; exact hrn
  · -- a reader takes the lock
    rw [hpc] at hlg
    have hni : i ∉ c.shared.readers := by
      intro hmem
      have := hi.r.1 hmem
      rw [hpc] at this
      simp [cmgr_inside] at this
    refine cmgr_Inv_of ctors jobs c i l _ _ h hl rfl (Or.inl ⟨rfl, rfl⟩) ⟨?_, ?_, ?_⟩ ?_ ?_ ?_ ?_ ?_ ?_
    · simpa [cmgr_logged] using hlg
    · simp [hjw, hwn]
    · simp [hjw, cmgr_inside]
    · intro j hj; exact Iff.rfl
    · intro j hj; simp [hj]
    · intro j hj; simp only [hwn] at hj; cases hj
    · intro j hj
      rcases List.mem_cons.1 hj with rfl | hj
      · exact hlt
      · exact h.hr j hj
    · exact List.nodup_cons.2 ⟨hni, h.hrnd⟩
    · intro hw; simp [hwn] at hw
  · -- the body
    rw [hpc] at hlg
    refine cmgr_Inv_of ctors jobs c i l _ _ h hl rfl (Or.inr ⟨hpc, rfl, rfl⟩) ⟨?_, ?_, ?_⟩ ?_ ?_ ?_ ?_ ?_ ?_
    · simp [cmgr_logged]
    · have := hi.w; rw [hpc] at this; simpa [cmgr_inside] using this
    · have := hi.r; rw [hpc] at this; simpa [cmgr_inside] using this
    · intro j hj; exact Iff.rfl
    · intro j hj; exact Iff.rfl
    · exact h.hw
    · exact h.hr
    · exact h.hrnd
    · exact h.hwr
  · -- a writer releases
    rw [hpc] at hlg
    have hwi : c.shared.writer = some i := hi.w.2 ⟨hjw, by rw [hpc]; rfl⟩
    have hre : c.shared.readers = [] := h.hwr (by simp [hwi])
    refine cmgr_Inv_of ctors jobs c i l _ _ h hl rfl (Or.inl ⟨rfl, rfl⟩) ⟨?_, ?_, ?_⟩ ?_ ?_ ?_ ?_ ?_ ?_
    · simpa [cmgr_logged] using hlg
    · simp [cmgr_inside]
    · simp [hjw, hre]
    · intro j hj; simp [hwi, hj.symm]
    · intro j hj; exact Iff.rfl
    · intro j hj; cases hj
    · exact h.hr
    · exact h.hrnd
    · intro hw; cases hw
  · -- a reader releases
    rw [hpc] at hlg
    refine cmgr_Inv_of ctors jobs c i l _ _ h hl rfl (Or.inl ⟨rfl, rfl⟩) ⟨?_, ?_, ?_⟩ ?_ ?_ ?_ ?_ ?_ ?_
    · simpa [cmgr_logged] using hlg
    · have := hi.w; rw [hpc] at this; simpa [cmgr_inside, hjw] using this
    · simp [cmgr_inside, h.hrnd.mem_erase_iff]
    · intro j hj; exact Iff.rfl
    · intro j hj; exact List.mem_erase_of_ne hj
    · exact h.hw
    · intro j hj; exact h.hr j (List.mem_of_mem_erase hj)
    · exact h.hrnd.erase i
    · intro hw
      have := h.hwr hw
      show c.shared.readers.erase i = []
      rw [this]; rfl

/-- the invariant holds after every schedule -/
theorem cmgr_inv_run (ctors : List Ctor) (jobs : List Op) (sched : List Nat) :
    cmgr_Inv ctors jobs (run sys (init { ctors := ctors } jobs) sched) :=
  run_inv_mgr sys (cmgr_Inv ctors jobs)
    (fun c i l s' l' h hl hs => cmgr_Inv_step ctors jobs c i l s' l' h hl hs) _ (cmgr_Inv_init ctors jobs) sched

/-! ### consequences of the invariant -/

theorem cmgr_result_iff (c : Config Shared Local) (i : Nat) (o : Out) :
    result c i = some o ↔ ∃ l : Local, c.locals[i]? = some l ∧ l.pc = .done o := by
  unfold result
  cases hl : c.locals[i]? with
  | none => simp
  | some l =>
    obtain ⟨job, pc⟩ := l
    cases pc <;> simp

theorem cmgr_allDone_iff (c : Config Shared Local) :
    allDone c = true ↔ ∀ (i : Nat) (l : Local), c.locals[i]? = some l → ∃ o, l.pc = .done o := by
  unfold allDone
  rw [List.all_eq_true]
  constructor
  · intro h i l hl
    have := h l (List.mem_of_getElem? hl)
    cases hpc : l.pc <;> simp [hpc] at this ⊢
  · intro h l hl
    obtain ⟨i, hi⟩ := List.mem_iff_getElem?.1 hl
    obtain ⟨o, ho⟩ := h i l hi
    simp [ho]

/-- a returned result is in the log, with the thread's own job -/
theorem cmgr_result_logged {ctors : List Ctor} {jobs : List Op} {c : Config Shared Local}
    (h : cmgr_Inv ctors jobs c) (i : Nat) (o : Out) (hr : result c i = some o) :
    ∃ j, jobs[i]? = some j ∧ (i, j, o) ∈ c.shared.log := by
  obtain ⟨l, hl, hpc⟩ := (cmgr_result_iff c i o).1 hr
  refine ⟨l.job, h.hjob i l hl, ?_⟩
  have := (h.hthr i l hl).lg
  unfold cmgr_logged at this
  rw [hpc] at this
  exact this

/-- ... at a position where the sequential run did that job with that output -/
theorem cmgr_result_pos {ctors : List Ctor} {jobs : List Op} {c : Config Shared Local}
    (h : cmgr_Inv ctors jobs c) (i : Nat) (j : Op) (o : Out) (hj : jobs[i]? = some j) (hr : result c i = some o) :
    ∃ p : Nat, c.shared.log[p]? = some (i, j, o) ∧ (c.shared.log.map (·.2.1))[p]? = some j ∧
      (CM.Mgr.run { ctors := ctors } (c.shared.log.map (·.2.1)))[p]? = some o := by
  obtain ⟨j', hj', hmem⟩ := cmgr_result_logged h i o hr
  rw [hj] at hj'
  cases hj'
  obtain ⟨p, hp⟩ := List.mem_iff_getElem?.1 hmem
  refine ⟨p, hp, by simp [hp], ?_⟩
  rw [← h.hrun]
  simp [hp]

theorem cmgr_linearizable {ctors : List Ctor} {jobs : List Op} {c : Config Shared Local}
    (h : cmgr_Inv ctors jobs c) :
    c.shared.log.map (·.2.2) = CM.Mgr.run { ctors := ctors } (c.shared.log.map (·.2.1)) ∧
    c.shared.st = CM.Mgr.exec { ctors := ctors } (c.shared.log.map (·.2.1)) ∧
    (c.shared.log.map (·.1)).Nodup ∧
    (∀ e ∈ c.shared.log, jobs[e.1]? = some e.2.1) ∧
    (∀ i o, result c i = some o → ∃ j, jobs[i]? = some j ∧ (i, j, o) ∈ c.shared.log) :=
  ⟨h.hrun, h.hst, h.hnd, h.hlj, fun i o hr => cmgr_result_logged h i o hr⟩

theorem cmgr_mutual_exclusion {ctors : List Ctor} {jobs : List Op} {c : Config Shared Local}
    (h : cmgr_Inv ctors jobs c) :
    (c.shared.writer.isSome → c.shared.readers = []) ∧
    (∀ (i : Nat) (l : Local), c.locals[i]? = some l → (l.pc = .locked ∨ ∃ o, l.pc = .ran o) →
        (if isWriter l.job then c.shared.writer = some i else i ∈ c.shared.readers)) := by
  refine ⟨h.hwr, ?_⟩
  intro i l hl hpc
  have hin : cmgr_inside l.pc = true := by
    rcases hpc with e | ⟨o, e⟩ <;> rw [e] <;> rfl
  have ht := h.hthr i l hl
  cases hw : isWriter l.job with
  | true => simpa using ht.w.2 ⟨hw, hin⟩
  | false => simpa using ht.r.2 ⟨hw, hin⟩

/-! ### winners -/

theorem cmgr_isWinner_iff (jobs : List Op) (c : Config Shared Local) (name : String) (i : Nat) :
    isWinner jobs c name i = true ↔
      ∃ (cs : List Layer) (w : Circuit), jobs[i]? = some (Op.create name cs) ∧ result c i = some (Out.created w) := by
  unfold isWinner
  cases hj : jobs[i]? with
  | none => simp
  | some op =>
    cases op with
    | create n cs =>
      cases hr : result c i with
      | none => simp
      | some o => cases o <;> simp
    | get n => simp
    | all => simp
    | stats n => simp

theorem cmgr_mem_winners (jobs : List Op) (c : Config Shared Local) (name : String) (i : Nat) :
    i ∈ winners jobs c name ↔
      ∃ (cs : List Layer) (w : Circuit), jobs[i]? = some (Op.create name cs) ∧ result c i = some (Out.created w) := by
  unfold winners
  rw [List.mem_filter, cmgr_isWinner_iff, List.mem_range]
  constructor
  · exact fun h => h.2
  · intro h
    refine ⟨?_, h⟩
    obtain ⟨cs, w, hj, _⟩ := h
    exact cmgr_lt_of_get _ _ _ hj

theorem cmgr_winners_nodup (jobs : List Op) (c : Config Shared Local) (name : String) :
    (winners jobs c name).Nodup :=
  List.Nodup.sublist List.filter_sublist List.nodup_range

theorem cmgr_one_winner {ctors : List Ctor} {jobs : List Op} {c : Config Shared Local}
    (h : cmgr_Inv ctors jobs c) (name : String) : (winners jobs c name).length ≤ 1 := by
  apply cmgr_length_le_one _ (cmgr_winners_nodup jobs c name)
  intro a ha b hb
  obtain ⟨cs, w, hja, hra⟩ := (cmgr_mem_winners jobs c name a).1 ha
  obtain ⟨cs', w', hjb, hrb⟩ := (cmgr_mem_winners jobs c name b).1 hb
  obtain ⟨p, hp, hpo, hpr⟩ := cmgr_result_pos h a _ _ hja hra
  obtain ⟨q, hq, hqo, hqr⟩ := cmgr_result_pos h b _ _ hjb hrb
  have := cmgr_seq_one_winner name _ _ p q cs cs' w w' hpo hpr hqo hqr
  subst this
  rw [hp] at hq
  simpa using congrArg (·.1) (Option.some.inj hq)

theorem cmgr_get_winner {ctors : List Ctor} {jobs : List Op} {c : Config Shared Local}
    (h : cmgr_Inv ctors jobs c) (name : String) (i j : Nat) (cs : List Layer) (w g : Circuit)
    (hji : jobs[i]? = some (.create name cs)) (hri : result c i = some (.created w))
    (hjj : jobs[j]? = some (.get name)) (hrj : result c j = some (.got (some g))) : g = w := by
  obtain ⟨p, _, hpo, hpr⟩ := cmgr_result_pos h i _ _ hji hri
  obtain ⟨q, _, hqo, hqr⟩ := cmgr_result_pos h j _ _ hjj hrj
  exact cmgr_seq_get_winner name _ _ p q cs w g hpo hpr hqo hqr

theorem cmgr_some_winner {ctors : List Ctor} {jobs : List Op} {c : Config Shared Local}
    (h : cmgr_Inv ctors jobs c) (name : String) (hdone : allDone c = true) (k : Nat) (cs : List Layer)
    (hk : jobs[k]? = some (Op.create name cs)) : ∃ t, t ∈ winners jobs c name := by
  have hall := (cmgr_allDone_iff c).1 hdone
  -- thread k has returned, so its create is in the log
  have hklt : k < c.locals.length := by rw [h.hlen]; exact cmgr_lt_of_get _ _ _ hk
  obtain ⟨lk, hlk⟩ : ∃ lk, c.locals[k]? = some lk := ⟨c.locals[k], List.getElem?_eq_getElem hklt⟩
  obtain ⟨ok, hok⟩ := hall k lk hlk
  have hrk : result c k = some ok := (cmgr_result_iff c k ok).2 ⟨lk, hlk, hok⟩
  obtain ⟨pk, _, hpk, _⟩ := cmgr_result_pos h k _ _ hk hrk
  -- so some create of the name succeeded in the sequential run
  obtain ⟨p, cs', w, hp, hpr⟩ := cmgr_seq_some_winner name _ { ctors := ctors } (by simp [State.get]) pk cs hpk
  rw [← h.hrun] at hpr
  simp only [List.getElem?_map, Option.map_eq_some_iff] at hp hpr
  obtain ⟨e, he, hej⟩ := hp
  obtain ⟨e', he', heo⟩ := hpr
  rw [he] at he'
  cases he'
  have hmem : e ∈ c.shared.log := List.mem_of_getElem? he
  -- the thread that did it has returned that output
  have hjt := h.hlj e hmem
  have htlt : e.1 < c.locals.length := by rw [h.hlen]; exact cmgr_lt_of_get _ _ _ hjt
  obtain ⟨lt, hlt⟩ : ∃ lt, c.locals[e.1]? = some lt := ⟨c.locals[e.1], List.getElem?_eq_getElem htlt⟩
  obtain ⟨ot, hot⟩ := hall e.1 lt hlt
  have hlg := (h.hthr e.1 lt hlt).lg
  unfold cmgr_logged at hlg
  rw [hot] at hlg
  have heq := cmgr_nodup_key _ h.hnd _ _ hlg hmem rfl
  have hot' : ot = Out.created w := by rw [← heo, ← heq]
  refine ⟨e.1, (cmgr_mem_winners jobs c name e.1).2 ⟨cs', w, ?_, ?_⟩⟩
  · rw [hjt, hej]
  · exact (cmgr_result_iff c e.1 _).2 ⟨lt, hlt, by rw [hot, hot']⟩

theorem cmgr_exactly_one_winner {ctors : List Ctor} {jobs : List Op} {c : Config Shared Local}
    (h : cmgr_Inv ctors jobs c) (name : String) (hdone : allDone c = true)
    (hk : ∃ (k : Nat) (cs : List Layer), jobs[k]? = some (Op.create name cs)) :
    (winners jobs c name).length = 1 := by
  obtain ⟨k, cs, hk⟩ := hk
  obtain ⟨t, ht⟩ := cmgr_some_winner h name hdone k cs hk
  have h1 := cmgr_one_winner h name
  have h2 : 0 < (winners jobs c name).length := List.length_pos_of_mem ht
  omega

/-! ### the registry -/

theorem cmgr_registry {ctors : List Ctor} {jobs : List Op} {c : Config Shared Local} (h : cmgr_Inv ctors jobs c) :
    c.shared.st.circuits.map (·.2) =
      c.shared.log.filterMap fun e => match e.2.2 with | .created x => some x | _ => none := by
  rw [h.hst, cmgr_exec_circuits, ← h.hrun, List.filterMap_map]
  simp only [List.map_nil, List.nil_append]
  congr 1

/-! ### no deadlock -/

theorem cmgr_inside_isSome (i : Nat) (s : Shared) (l : Local) (h : cmgr_inside l.pc = true) :
    (step i s l).isSome = true := by
  obtain ⟨job, pc⟩ := l
  cases pc <;> simp only [cmgr_inside] at h <;> simp only [step] <;> (try split) <;> simp at h ⊢

theorem cmgr_begin_isSome (i : Nat) (s : Shared) (l : Local) (hpc : l.pc = .begin) (hw : s.writer = none)
    (hr : s.readers = []) : (step i s l).isSome = true := by
  obtain ⟨job, pc⟩ := l
  simp only at hpc; subst hpc
  simp only [step, hw, hr]
  split <;> simp

/-- if nobody is inside, the lock is free -/
theorem cmgr_lock_free {ctors : List Ctor} {jobs : List Op} {c : Config Shared Local} (h : cmgr_Inv ctors jobs c)
    (hno : ∀ (i : Nat) (l : Local), c.locals[i]? = some l → cmgr_inside l.pc = false) :
    c.shared.writer = none ∧ c.shared.readers = [] := by
  constructor
  · cases hw : c.shared.writer with
    | none => rfl
    | some i =>
      have hlt := h.hw i hw
      have hl : c.locals[i]? = some c.locals[i] := List.getElem?_eq_getElem hlt
      have := ((h.hthr i _ hl).w.1 hw).2
      rw [hno i _ hl] at this
      cases this
  · apply List.eq_nil_iff_forall_not_mem.2
    intro i hi
    have hlt := h.hr i hi
    have hl : c.locals[i]? = some c.locals[i] := List.getElem?_eq_getElem hlt
    have := ((h.hthr i _ hl).r.1 hi).2
    rw [hno i _ hl] at this
    cases this

theorem cmgr_progress {ctors : List Ctor} {jobs : List Op} {c : Config Shared Local} (h : cmgr_Inv ctors jobs c)
    (hnd : allDone c = false) : ∃ (i : Nat) (l : Local), c.locals[i]? = some l ∧ (step i c.shared l).isSome := by
  by_cases hin : ∃ (i : Nat) (l : Local), c.locals[i]? = some l ∧ cmgr_inside l.pc = true
  · obtain ⟨i, l, hl, hi⟩ := hin
    exact ⟨i, l, hl, cmgr_inside_isSome i c.shared l hi⟩
  · have hno : ∀ (i : Nat) (l : Local), c.locals[i]? = some l → cmgr_inside l.pc = false := by
      intro i l hl
      cases hc : cmgr_inside l.pc with
      | false => rfl
      | true => exact absurd ⟨i, l, hl, hc⟩ hin
    obtain ⟨hw, hr⟩ := cmgr_lock_free h hno
    have : ¬ ∀ (i : Nat) (l : Local), c.locals[i]? = some l → ∃ o, l.pc = .done o := by
      intro hall
      rw [(cmgr_allDone_iff c).2 hall] at hnd
      cases hnd
    have : ∃ (i : Nat) (l : Local), c.locals[i]? = some l ∧ ¬ ∃ o, l.pc = .done o := by
      apply Classical.byContradiction
      intro hne
      apply this
      intro i l hl
      apply Classical.byContradiction
      intro hd
      exact hne ⟨i, l, hl, hd⟩
    obtain ⟨i, l, hl, hd⟩ := this
    have hpc : l.pc = .begin := by
      have := hno i l hl
      cases hp : l.pc with
      | begin => rfl
      | locked => rw [hp] at this; cases this
      | ran o => rw [hp] at this; cases this
      | done o => exact absurd ⟨o, hp⟩ hd
    exact ⟨i, l, hl, cmgr_begin_isSome i c.shared l hpc hw hr⟩

theorem cmgr_quiescent {ctors : List Ctor} {jobs : List Op} {c : Config Shared Local} (h : cmgr_Inv ctors jobs c)
    (hdone : allDone c = true) :
    c.shared.writer = none ∧ c.shared.readers = [] ∧ c.shared.log.length = jobs.length := by
  have hall := (cmgr_allDone_iff c).1 hdone
  have hno : ∀ (i : Nat) (l : Local), c.locals[i]? = some l → cmgr_inside l.pc = false := by
    intro i l hl
    obtain ⟨o, ho⟩ := hall i l hl
    rw [ho]; rfl
  obtain ⟨hw, hr⟩ := cmgr_lock_free h hno
  refine ⟨hw, hr, ?_⟩
  have h1 : (c.shared.log.map (·.1)).length ≤ jobs.length := by
    apply cmgr_nodup_bound _ _ h.hnd
    intro x hx
    obtain ⟨e, he, rfl⟩ := List.mem_map.1 hx
    exact cmgr_lt_of_get _ _ _ (h.hlj e he)
  have h2 : jobs.length ≤ (c.shared.log.map (·.1)).length := by
    apply cmgr_cover_bound
    intro i hi
    have hlt : i < c.locals.length := by rw [h.hlen]; exact hi
    have hl : c.locals[i]? = some c.locals[i] := List.getElem?_eq_getElem hlt
    obtain ⟨o, ho⟩ := hall i _ hl
    have hlg := (h.hthr i _ hl).lg
    unfold cmgr_logged at hlg
    rw [ho] at hlg
    exact List.mem_map.2 ⟨_, hlg, rfl⟩
  simp only [List.length_map] at h1 h2
  omega

theorem cmgr_never_deadlocks {ctors : List Ctor} {jobs : List Op} {c : Config Shared Local}
    (h : cmgr_Inv ctors jobs c) :
    (allDone c = false → ∃ (i : Nat) (l : Local), c.locals[i]? = some l ∧ (step i c.shared l).isSome) ∧
    (allDone c = true → c.shared.writer = none ∧ c.shared.readers = [] ∧ c.shared.log.length = jobs.length) :=
  ⟨cmgr_progress h, cmgr_quiescent h⟩

end CM.Conc.Mgr

import CircuitModel.Conc.TC
namespace CM.Conc.TC
end CM.Conc.TC

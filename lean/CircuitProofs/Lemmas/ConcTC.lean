/-
  Lemmas/ConcTC.lean — lemmas about the small-step timed-gate model (CircuitModel/Conc/TC.lean), used by
  Props/C16Conc.lean.  Structure:
    (A) pure list facts about `replay` (no concurrency);
    (B) `SR`: the step function as a relation with one constructor per branch (`step_spec`);
    (C) the global invariant `Inv` and its preservation by every step; `inv_run` lifts it to every schedule;
    (D) no deadlock.
-/
import CircuitModel.Conc.TC
namespace CM.Conc.TC

/-! ### (A) replay -/

@[simp] theorem isSuccess_success (t : Int) (b : Bool) : Ev.isSuccess (.success t b) = true := rfl
@[simp] theorem isSuccess_start (t : Int) : Ev.isSuccess (.start t) = false := rfl
@[simp] theorem isArming_success (t : Int) (b : Bool) : Ev.isArming (.success t b) = b := rfl
@[simp] theorem isArming_start (t : Int) : Ev.isArming (.start t) = true := rfl

theorem replay_append (s a : Int) (g : Gate) (l₁ l₂ : List Ev) :
    replay s a g (l₁ ++ l₂) = (replay s a g l₁).bind (fun g' => replay s a g' l₂) := by
  induction l₁ generalizing g with
  | nil => simp [replay]
  | cons e rest ih =>
    simp only [List.cons_append, replay]
    cases h : g.apply s a e with
    | none => simp
    | some g' => simp [ih]

theorem replay_snoc (s a : Int) (g : Gate) (l : List Ev) (e : Ev) :
    replay s a g (l ++ [e]) = (replay s a g l).bind (fun g' => g'.apply s a e) := by
  rw [replay_append]
  congr
  funext g'
  cases h : g'.apply s a e <;> simp [replay, h]

theorem replay_append_some (s a : Int) (g g₂ : Gate) (l₁ l₂ : List Ev) :
    replay s a g (l₁ ++ l₂) = some g₂ ↔ ∃ g₁, replay s a g l₁ = some g₁ ∧ replay s a g₁ l₂ = some g₂ := by
  rw [replay_append]
  cases replay s a g l₁ <;> simp

theorem replay_snoc_some (s a : Int) (g g₂ : Gate) (l : List Ev) (e : Ev) :
    replay s a g (l ++ [e]) = some g₂ ↔ ∃ g₁, replay s a g l = some g₁ ∧ g₁.apply s a e = some g₂ := by
  rw [replay_snoc]
  cases replay s a g l <;> simp

theorem apply_start (s a : Int) (g : Gate) (t : Int) :
    g.apply s a (.start t) = some { nextOpen := some (t + s), count := 0 } := rfl

theorem apply_success_some (s a : Int) (g g' : Gate) (t : Int) (b : Bool) :
    g.apply s a (.success t b) = some g' ↔
      g.after t = false ∧ decide (g.count + 1 ≥ a) = b ∧
      g' = (if b then { nextOpen := some (t + s), count := 0 } else { g with count := g.count + 1 }) := by
  simp only [Gate.apply]
  cases hafter : g.after t
  · cases b <;> by_cases hc : g.count + 1 ≥ a <;> simp [hc, eq_comm]
  · simp

theorem snoc_induction {α : Type} {P : List α → Prop} (h0 : P [])
    (hs : ∀ (l : List α) (e : α), P l → P (l ++ [e])) (l : List α) : P l := by
  have : ∀ r : List α, P r.reverse := by
    intro r
    induction r with
    | nil => exact h0
    | cons e r ih => rw [List.reverse_cons]; exact hs _ _ ih
  simpa using this l.reverse

/-- SENTENCE 2 -/
theorem accepted_budget' (sleep allow : Int) (log : List Ev) :
    ∀ g, replay sleep allow {} log = some g →
    0 ≤ g.count ∧ g.count < max 1 allow ∧
    g.count = ((log.reverse.takeWhile fun e => !e.isArming).length : Int) := by
  induction log using snoc_induction with
  | h0 =>
    intro g h
    simp [replay] at h
    subst h
    simp
    omega
  | hs log e ih =>
    intro g h
    rw [replay_snoc_some] at h
    obtain ⟨g₁, h₁, h₂⟩ := h
    obtain ⟨ih0, ih1, ih2⟩ := ih g₁ h₁
    rw [List.reverse_append, List.reverse_singleton, List.singleton_append, List.takeWhile_cons]
    cases e with
    | start t =>
      rw [apply_start] at h₂
      cases h₂
      simp
      omega
    | success t b =>
      rw [apply_success_some] at h₂
      obtain ⟨_, hb, rfl⟩ := h₂
      cases b
      · simp at hb
        simp
        omega
      · simp
        omega

theorem replay_nonarming_nextOpen (s a : Int) (mid : List Ev) (hmid : ∀ e ∈ mid, e.isArming = false) :
    ∀ g g', replay s a g mid = some g' → g'.nextOpen = g.nextOpen := by
  induction mid with
  | nil => intro g g' h; simp [replay] at h; rw [h]
  | cons e rest ih =>
    intro g g' h
    simp only [replay] at h
    cases hap : g.apply s a e with
    | none => simp [hap] at h
    | some g₁ =>
      simp only [hap] at h
      have h1 := ih (fun e he => hmid e (by simp [he])) g₁ g' h
      have he := hmid e (by simp)
      cases e with
      | start t => simp at he
      | success t b =>
        simp only [isArming_success] at he
        subst he
        rw [apply_success_some] at hap
        obtain ⟨_, _, rfl⟩ := hap
        simpa using h1

theorem apply_arming_nextOpen (s a : Int) (g g' : Gate) (arm : Ev) (harm : arm.isArming = true)
    (h : g.apply s a arm = some g') : g'.nextOpen = some (arm.time + s) := by
  cases arm with
  | start t => rw [apply_start] at h; cases h; rfl
  | success t b =>
    simp only [isArming_success] at harm
    subst harm
    rw [apply_success_some] at h
    obtain ⟨_, _, rfl⟩ := h
    rfl

/-- SENTENCE 1 -/
theorem accepted_sleep_respected' (sleep allow : Int) (pre mid : List Ev) (arm : Ev) (t : Int) (b : Bool) (g : Gate)
    (harm : arm.isArming = true) (hmid : ∀ e ∈ mid, e.isArming = false)
    (hacc : replay sleep allow {} (pre ++ [arm] ++ mid ++ [.success t b]) = some g) :
    arm.time + sleep ≤ t := by
  rw [replay_snoc_some] at hacc
  obtain ⟨g₃, h₃, hlast⟩ := hacc
  rw [replay_append_some] at h₃
  obtain ⟨g₂, h₂, hmid'⟩ := h₃
  rw [replay_snoc_some] at h₂
  obtain ⟨g₁, _, harm'⟩ := h₂
  have e1 := apply_arming_nextOpen sleep allow g₁ g₂ arm harm harm'
  have e2 := replay_nonarming_nextOpen sleep allow mid hmid g₂ g₃ hmid'
  rw [apply_success_some] at hlast
  have := hlast.1
  simp [Gate.after, e2, e1] at this
  exact this

/-- the two-phase invariant behind the one-period bound -/
theorem one_period_inv (sleep allow lo : Int) (log : List Ev)
    (htimes : ∀ e ∈ log, lo ≤ e.time ∧ e.time < lo + sleep) :
    ∀ g, replay sleep allow {} log = some g →
      (g.nextOpen = none ∧ ((log.filter Ev.isSuccess).length : Int) = g.count ∧ g.count < max 1 allow) ∨
      (∃ L, g.nextOpen = some L ∧ lo + sleep ≤ L ∧ ((log.filter Ev.isSuccess).length : Int) ≤ max 1 allow) := by
  induction log using snoc_induction with
  | h0 =>
    intro g h
    simp [replay] at h
    subst h
    left
    simp
    omega
  | hs log e ih =>
    intro g h
    rw [replay_snoc_some] at h
    obtain ⟨g₁, h₁, h₂⟩ := h
    have ht := htimes e (by simp)
    have ih' := ih (fun e he => htimes e (by simp [he])) g₁ h₁
    rw [List.filter_append, List.length_append]
    cases e with
    | start t =>
      rw [apply_start] at h₂
      cases h₂
      right
      simp only [Ev.time] at ht
      refine ⟨t + sleep, rfl, by omega, ?_⟩
      simp
      rcases ih' with ⟨_, h2, h3⟩ | ⟨L, _, _, h3⟩ <;> omega
    | success t b =>
      simp only [Ev.time] at ht
      rw [apply_success_some] at h₂
      obtain ⟨hafter, hb, rfl⟩ := h₂
      rcases ih' with ⟨h1, h2, h3⟩ | ⟨L, h1, h2, h3⟩
      · cases b
        · left
          simp at hb
          simp [List.filter_cons, h1]
          omega
        · right
          refine ⟨t + sleep, rfl, by omega, ?_⟩
          simp [List.filter_cons]
          omega
      · exfalso
        simp [Gate.after, h1] at hafter
        omega

/-! ### (B) the step function as a relation -/

inductive SR (i : Nat) (s : Shared) : Local → Shared → Local → Prop
  | beginCheckFF (t : Int) : s.fastFail = true → SR i s ⟨.check t, .begin⟩ s ⟨.check t, .done (some false)⟩
  | beginCheck (t : Int) : s.fastFail = false → SR i s ⟨.check t, .begin⟩ s ⟨.check t, .rlock⟩
  | beginStart (t : Int) : SR i s ⟨.start t, .begin⟩ s ⟨.start t, .wlock⟩
  | beginFire (k : Nat) (v : Int) : s.armed[k]? = some v → SR i s ⟨.fire k, .begin⟩ s ⟨.fire k, .cbLoadVersion v⟩
  | beginFireNone (k : Nat) : s.armed[k]? = none → SR i s ⟨.fire k, .begin⟩ s ⟨.fire k, .done none⟩
  | rlock (t : Int) : s.writer = none →
      SR i s ⟨.check t, .rlock⟩ { s with readers := s.readers + 1 } ⟨.check t, .runlock (nextAfter s t)⟩
  | runlockAfter (j : Job) :
      SR i s ⟨j, .runlock true⟩ { s with readers := s.readers - 1 } ⟨j, .done (some false)⟩
  | runlockOk (j : Job) :
      SR i s ⟨j, .runlock false⟩ { s with readers := s.readers - 1 } ⟨j, .wlock⟩
  | wlock (j : Job) : s.writer = none → s.readers = 0 →
      SR i s ⟨j, .wlock⟩ { s with writer := some i } ⟨j, .critical⟩
  | critAfter (t : Int) : nextAfter s t = true → SR i s ⟨.check t, .critical⟩ s ⟨.check t, .wunlock false⟩
  | critOk (t : Int) : nextAfter s t = false →
      SR i s ⟨.check t, .critical⟩ { s with count := s.count + 1 } ⟨.check t, .loadAllow⟩
  | critStart (t : Int) : SR i s ⟨.start t, .critical⟩ s ⟨.start t, .resetLoadSleep t false⟩
  | allowReset (t : Int) : s.count ≥ s.allow → SR i s ⟨.check t, .loadAllow⟩ s ⟨.check t, .resetLoadSleep t true⟩
  | allowOk (t : Int) : s.count < s.allow →
      SR i s ⟨.check t, .loadAllow⟩ { s with events := s.events ++ [.success t false] } ⟨.check t, .wunlock true⟩
  | resetLoadSleep (j : Job) (t : Int) (ret : Bool) :
      SR i s ⟨j, .resetLoadSleep t ret⟩ { s with nextOpen := some (t + s.sleep), count := 0 } ⟨j, .resetStoreFF t ret⟩
  | resetStoreFF (j : Job) (t : Int) (ret : Bool) :
      SR i s ⟨j, .resetStoreFF t ret⟩ { s with fastFail := true } ⟨j, .resetAddVersion t ret⟩
  | resetAddVersion (j : Job) (t : Int) (ret : Bool) :
      SR i s ⟨j, .resetAddVersion t ret⟩ { s with version := s.version + 1 } ⟨j, .resetArm t ret⟩
  | resetArm (j : Job) (t : Int) (ret : Bool) :
      SR i s ⟨j, .resetArm t ret⟩
        { s with armed := s.armed ++ [s.version],
                 events := s.events ++ [if ret then .success t true else .start t] } ⟨j, .wunlock ret⟩
  | wunlockCheck (t : Int) (ret : Bool) :
      SR i s ⟨.check t, .wunlock ret⟩ { s with writer := none } ⟨.check t, .done (some ret)⟩
  | wunlockStart (t : Int) (ret : Bool) :
      SR i s ⟨.start t, .wunlock ret⟩ { s with writer := none } ⟨.start t, .done none⟩
  | wunlockFire (k : Nat) (ret : Bool) :
      SR i s ⟨.fire k, .wunlock ret⟩ { s with writer := none } ⟨.fire k, .done none⟩
  | cbLoadEq (j : Job) (v : Int) : v = s.version → SR i s ⟨j, .cbLoadVersion v⟩ s ⟨j, .cbStoreFF⟩
  | cbLoadNe (j : Job) (v : Int) : v ≠ s.version → SR i s ⟨j, .cbLoadVersion v⟩ s ⟨j, .done none⟩
  | cbStoreFF (j : Job) : SR i s ⟨j, .cbStoreFF⟩ { s with fastFail := false } ⟨j, .done none⟩

theorem step_spec (i : Nat) (s : Shared) (l : Local) (s' : Shared) (l' : Local)
    (h : step i s l = some (s', l')) : SR i s l s' l' := by
  obtain ⟨j, pc⟩ := l
  cases pc <;> cases j <;> simp only [step] at h
  all_goals (repeat' split at h)
  all_goals cases h
  all_goals first
    | (constructor <;> simp_all)
    | (rename_i hb; try simp only [Bool.not_eq_true] at hb
       subst hb; constructor)

/-! ### (C) the invariant -/

theorem run_inv_tc {σ loc : Type} (S : Sys σ loc) (I : Config σ loc → Prop)
    (hstep : ∀ (c : Config σ loc) (i : Nat) (l : loc) (s' : σ) (l' : loc), I c → c.locals[i]? = some l →
      S.step i c.shared l = some (s', l') → I { shared := s', locals := c.locals.set i l' })
    (c : Config σ loc) (h : I c) (sched : List Nat) : I (run S c sched) := by
  induction sched generalizing c with
  | nil => exact h
  | cons i rest ih =>
    simp only [run]
    split
    · exact ih c h
    · rename_i l hl
      split
      · exact ih c h
      · rename_i s' l' hs
        exact ih _ (hstep c i l s' l' h hl hs)

theorem countP_set_tc {α : Type} (p : α → Bool) (l : List α) (i : Nat) (a b : α) (h : l[i]? = some a) :
    (l.set i b).countP p + (if p a then 1 else 0) = l.countP p + (if p b then 1 else 0) := by
  induction l generalizing i with
  | nil => simp at h
  | cons x xs ih =>
    cases i with
    | zero =>
      simp at h
      subst h
      simp only [List.set_cons_zero, List.countP_cons]
      omega
    | succ j =>
      simp at h
      have := ih j h
      simp only [List.set_cons_succ, List.countP_cons]
      omega

theorem forall_set {α : Type} {P : Nat → α → Prop} (ls : List α) (i : Nat) (l l' : α) (hl : ls[i]? = some l)
    (hother : ∀ j x, j ≠ i → ls[j]? = some x → P j x) (hself : P i l') :
    ∀ j x, (ls.set i l')[j]? = some x → P j x := by
  intro j x hx
  by_cases hji : j = i
  · subst hji
    have hlt : j < ls.length := (List.getElem?_eq_some_iff.mp hl).1
    rw [List.getElem?_set_self hlt] at hx
    cases hx
    exact hself
  · rw [List.getElem?_set_ne (Ne.symm hji)] at hx
    exact hother j x hji hx

/-- program counters inside the write-locked region -/
def W : Pc → Bool
  | .critical | .loadAllow | .resetLoadSleep _ _ | .resetStoreFF _ _ | .resetAddVersion _ _ | .resetArm _ _
  | .wunlock _ => true
  | _ => false

/-- program counters inside the read-locked region -/
def R : Pc → Bool | .runlock _ => true | _ => false

/-- program counters of a check that has logged its success -/
def T : Pc → Bool | .wunlock true => true | .done (some true) => true | _ => false

def isR (l : Local) : Bool := R l.pc
def isT (l : Local) : Bool := T l.pc

def needsCheck : Pc → Bool | .rlock | .runlock _ | .loadAllow => true | _ => false
def noFire : Pc → Bool | .wlock | .critical => true | _ => false
def retTime : Pc → Option Int
  | .resetLoadSleep t ret | .resetStoreFF t ret | .resetAddVersion t ret | .resetArm t ret => if ret then some t else none
  | _ => none
def Job.isCheck : Job → Bool | .check _ => true | _ => false
def Job.isFire : Job → Bool | .fire _ => true | _ => false

/-- the program counter is compatible with the job -/
structure WF (l : Local) : Prop where
  chk : needsCheck l.pc = true → l.job.isCheck = true
  nofire : noFire l.pc = true → l.job.isFire = false
  time : ∀ t, retTime l.pc = some t → l.job = .check t

/-- the protected fields `no` (nextOpenTime) and `cnt` (count) relative to the replayed gate `g`, as seen from a
    thread at `l` (only informative inside the write-locked region) -/
def DataAt (sleep allow : Int) (no : Option Int) (cnt : Int) (g : Gate) (l : Local) : Prop :=
  match l.pc with
  | .critical => no = g.nextOpen ∧ cnt = g.count
  | .wunlock _ => no = g.nextOpen ∧ cnt = g.count
  | .loadAllow => no = g.nextOpen ∧ cnt = g.count + 1 ∧ ∀ t, l.job = .check t → g.after t = false
  | .resetLoadSleep t ret => ret = true → (no = g.nextOpen ∧ cnt = g.count + 1 ∧ g.after t = false ∧ cnt ≥ allow)
  | .resetStoreFF t ret | .resetAddVersion t ret | .resetArm t ret =>
    no = some (t + sleep) ∧ cnt = 0 ∧ (ret = true → g.after t = false ∧ g.count + 1 ≥ allow)
  | _ => True

structure TInv (sleep allow : Int) (c : Config Shared Local) : Prop where
  hsleep : c.shared.sleep = sleep
  hallow : c.shared.allow = allow
  wf : ∀ (i : Nat) (l : Local), c.locals[i]? = some l → WF l
  excl : ∀ (i : Nat) (l : Local), c.locals[i]? = some l → W l.pc = true → c.shared.writer = some i
  holder : ∀ i : Nat, c.shared.writer = some i → ∃ l, c.locals[i]? = some l ∧ W l.pc = true
  readers : c.shared.readers = c.locals.countP isR
  wr : c.shared.writer.isSome = true → c.shared.readers = 0
  data : ∃ g, replay sleep allow {} c.shared.events = some g ∧
      (c.shared.writer = none → c.shared.nextOpen = g.nextOpen ∧ c.shared.count = g.count) ∧
      ∀ (i : Nat) (l : Local), c.locals[i]? = some l → DataAt sleep allow c.shared.nextOpen c.shared.count g l
  logged : ∀ (i : Nat) (l : Local) (t : Int), c.locals[i]? = some l → l.job = .check t → T l.pc = true →
      ∃ b, Ev.success t b ∈ c.shared.events
  counted : c.locals.countP isT ≤ c.shared.events.countP Ev.isSuccess

section step
variable {sleep allow : Int} {s : Shared} {ls : List Local} {i : Nat} {l : Local} {s' : Shared} {l' : Local}

theorem static_step (hs : SR i s l s' l') : s'.sleep = s.sleep ∧ s'.allow = s.allow := by
  cases hs <;> exact ⟨rfl, rfl⟩

theorem wf_step (h : TInv sleep allow ⟨s, ls⟩) (hl : ls[i]? = some l) (hs : SR i s l s' l') :
    ∀ (j : Nat) (x : Local), (ls.set i l')[j]? = some x → WF x := by
  apply forall_set ls i l l' hl (fun j x _ hj => h.wf j x hj)
  obtain ⟨hc, hf, ht⟩ := h.wf i l hl
  cases hs with
  | runlockOk j => cases j <;> constructor <;> simp_all [needsCheck, noFire, retTime, Job.isCheck, Job.isFire]
  | _ => constructor <;> simp_all [needsCheck, noFire, retTime, Job.isCheck, Job.isFire]

theorem excl_step (h : TInv sleep allow ⟨s, ls⟩) (hl : ls[i]? = some l) (hs : SR i s l s' l') :
    ∀ (j : Nat) (x : Local), (ls.set i l')[j]? = some x → W x.pc = true → s'.writer = some j := by
  have hi := h.excl i l hl
  refine forall_set (P := fun j x => W x.pc = true → s'.writer = some j) ls i l l' hl ?_ ?_
  · intro j x hji hj hW
    have hj' := h.excl j x hj hW
    cases hs <;> simp_all [W]
  · cases hs <;> simp_all [W]

theorem holder_step (h : TInv sleep allow ⟨s, ls⟩) (hl : ls[i]? = some l) (hs : SR i s l s' l') :
    ∀ j : Nat, s'.writer = some j → ∃ x, (ls.set i l')[j]? = some x ∧ W x.pc = true := by
  intro j hj
  have hlt : i < ls.length := (List.getElem?_eq_some_iff.mp hl).1
  have hold : s.writer = some i → W l.pc = true := by
    intro hw
    obtain ⟨x, hx, hW⟩ := h.holder i hw
    rw [hl] at hx
    cases hx
    exact hW
  have hi := h.excl i l hl
  by_cases hji : j = i
  · subst hji
    refine ⟨l', List.getElem?_set_self hlt, ?_⟩
    cases hs <;> simp_all [W]
  · rw [List.getElem?_set_ne (Ne.symm hji)]
    apply h.holder
    cases hs <;> simp_all [W]

theorem readers_step (h : TInv sleep allow ⟨s, ls⟩) (hl : ls[i]? = some l) (hs : SR i s l s' l') :
    s'.readers = (ls.set i l').countP isR := by
  have h1 := countP_set_tc isR ls i l l' hl
  have h2 := h.readers
  cases hs <;> simp [isR, R] at h1 <;> simp only [] at h2 ⊢ <;> omega

theorem wr_step (h : TInv sleep allow ⟨s, ls⟩) (hs : SR i s l s' l') :
    s'.writer.isSome = true → s'.readers = 0 := by
  have h1 := h.wr
  cases hs <;> simp_all

theorem counted_step (h : TInv sleep allow ⟨s, ls⟩) (hl : ls[i]? = some l) (hs : SR i s l s' l') :
    (ls.set i l').countP isT ≤ s'.events.countP Ev.isSuccess := by
  have h1 := countP_set_tc isT ls i l l' hl
  have h2 := h.counted
  cases hs with
  | resetArm j t ret | wunlockCheck t ret | wunlockStart t ret | wunlockFire k ret =>
    cases ret <;> simp [isT, T, List.countP_append] at h1 h2 ⊢ <;> omega
  | _ => simp [isT, T, List.countP_append] at h1 h2 ⊢ <;> omega

theorem events_mono (hs : SR i s l s' l') : ∀ e, e ∈ s.events → e ∈ s'.events := by
  intro e he
  cases hs <;> simp [he]

theorem logged_step (h : TInv sleep allow ⟨s, ls⟩) (hl : ls[i]? = some l) (hs : SR i s l s' l') :
    ∀ (j : Nat) (x : Local) (t : Int), (ls.set i l')[j]? = some x → x.job = .check t → T x.pc = true →
      ∃ b, Ev.success t b ∈ s'.events := by
  intro j x t
  refine forall_set (P := fun _ x => x.job = .check t → T x.pc = true → ∃ b, Ev.success t b ∈ s'.events)
    ls i l l' hl ?_ ?_ j x
  · intro j x _ hj hjob hT
    obtain ⟨b, hb⟩ := h.logged j x t hj hjob hT
    exact ⟨b, events_mono hs _ hb⟩
  · have hi := h.logged i l t hl
    have hw := (h.wf i l hl).time
    intro hjob hT
    cases hs with
    | resetArm j t ret | wunlockCheck t ret | wunlockStart t ret | wunlockFire k ret =>
      cases ret <;> simp_all [T, retTime]
    | _ => simp_all [T, retTime]

theorem nextAfter_eq (s : Shared) (g : Gate) (t : Int) (h : s.nextOpen = g.nextOpen) :
    nextAfter s t = g.after t := by
  simp [nextAfter, Gate.after, h]

theorem dataAt_of_notW {no : Option Int} {cnt : Int} {g : Gate} {x : Local} (h : W x.pc = false) :
    DataAt sleep allow no cnt g x := by
  unfold DataAt
  split <;> simp_all [W]

theorem data_step (h : TInv sleep allow ⟨s, ls⟩) (hl : ls[i]? = some l) (hs : SR i s l s' l') :
    ∃ g, replay sleep allow {} s'.events = some g ∧
      (s'.writer = none → s'.nextOpen = g.nextOpen ∧ s'.count = g.count) ∧
      ∀ (j : Nat) (x : Local), (ls.set i l')[j]? = some x → DataAt sleep allow s'.nextOpen s'.count g x := by
  obtain ⟨g, hg, hnone, hdata⟩ := h.data
  have hi := h.excl i l hl
  have hd := hdata i l hl
  have hsl := h.hsleep
  have hal := h.hallow
  have hoth : W l.pc = true → ∀ (j : Nat) (x : Local), j ≠ i → ls[j]? = some x → W x.pc = false := by
    intro hW j x hji hj
    cases hWx : W x.pc with
    | false => rfl
    | true =>
      have h1 := h.excl j x hj hWx
      have h2 := hi hW
      rw [h1] at h2
      exact absurd (Option.some.inj h2) hji
  simp only [] at hnone hdata hi hd hsl hal
  cases hs with
  | allowOk t hlt =>
    simp only [DataAt] at hd
    have hw := hi (by simp [W])
    refine ⟨{ g with count := g.count + 1 }, ?_, ?_, ?_⟩
    · rw [replay_snoc_some]
      refine ⟨g, hg, ?_⟩
      rw [apply_success_some]
      refine ⟨hd.2.2 t rfl, ?_, by simp⟩
      simp
      omega
    · intro hn
      simp [hw] at hn
    · refine forall_set ls i _ _ hl ?_ ?_
      · intro j x hji hj
        exact dataAt_of_notW (hoth (by simp [W]) j x hji hj)
      · exact ⟨hd.1, hd.2.1⟩
  | resetArm j t ret =>
    simp only [DataAt] at hd
    have hw := hi (by simp [W])
    refine ⟨{ nextOpen := some (t + sleep), count := 0 }, ?_, ?_, ?_⟩
    · rw [replay_snoc_some]
      refine ⟨g, hg, ?_⟩
      cases ret with
      | false => simp [apply_start]
      | true =>
        simp only [if_true]
        rw [apply_success_some]
        have := hd.2.2 rfl
        refine ⟨this.1, ?_, by simp⟩
        simp
        omega
    · intro hn
      simp [hw] at hn
    · refine forall_set ls i _ _ hl ?_ ?_
      · intro j x hji hj
        exact dataAt_of_notW (hoth (by simp [W]) j x hji hj)
      · exact ⟨hd.1, hd.2.1⟩
  | critOk t hna =>
    simp only [DataAt] at hd
    have hw := hi (by simp [W])
    refine ⟨g, hg, ?_, ?_⟩
    · intro hn
      simp [hw] at hn
    · refine forall_set ls i _ _ hl ?_ ?_
      · intro j x hji hj
        exact dataAt_of_notW (hoth (by simp [W]) j x hji hj)
      · simp only [DataAt]
        refine ⟨hd.1, by omega, ?_⟩
        intro t' ht'
        cases ht'
        rw [← nextAfter_eq s g t hd.1]
        exact hna
  | resetLoadSleep j t ret =>
    simp only [DataAt] at hd
    have hw := hi (by simp [W])
    refine ⟨g, hg, ?_, ?_⟩
    · intro hn
      simp [hw] at hn
    · refine forall_set ls i _ _ hl ?_ ?_
      · intro j x hji hj
        exact dataAt_of_notW (hoth (by simp [W]) j x hji hj)
      · simp only [DataAt]
        refine ⟨by rw [hsl], trivial, ?_⟩
        intro hr
        obtain ⟨_, h2, h3, h4⟩ := hd hr
        exact ⟨h3, by omega⟩
  | _ =>
    refine ⟨g, hg, ?_, ?_⟩
    · clear hdata
      simp_all [W, DataAt]
    · refine forall_set ls i _ _ hl ?_ ?_
      · intro j x hji hj
        first
          | exact hdata j x hj
          | exact dataAt_of_notW (hoth (by simp [W]) j x hji hj)
      · clear hdata
        simp_all [W, DataAt]

theorem inv_step (h : TInv sleep allow ⟨s, ls⟩) (hl : ls[i]? = some l) (hs : SR i s l s' l') :
    TInv sleep allow ⟨s', ls.set i l'⟩ where
  hsleep := (static_step hs).1.trans h.hsleep
  hallow := (static_step hs).2.trans h.hallow
  wf := wf_step h hl hs
  excl := excl_step h hl hs
  holder := holder_step h hl hs
  readers := readers_step h hl hs
  wr := wr_step h hs
  data := data_step h hl hs
  logged := logged_step h hl hs
  counted := counted_step h hl hs

end step

theorem init_pc (sleep allow : Int) (jobs : List Job) (i : Nat) (l : Local)
    (h : (init sleep allow jobs).locals[i]? = some l) : l.pc = .begin := by
  simp only [init, List.getElem?_map, Option.map_eq_some_iff] at h
  obtain ⟨a, _, rfl⟩ := h
  rfl

theorem init_countP (sleep allow : Int) (jobs : List Job) (p : Local → Bool)
    (hp : ∀ l : Local, l.pc = .begin → p l = false) : (init sleep allow jobs).locals.countP p = 0 := by
  rw [List.countP_eq_zero]
  intro l hl
  obtain ⟨i, hi⟩ := List.mem_iff_getElem?.mp hl
  simp [hp l (init_pc sleep allow jobs i l hi)]

theorem inv_init (sleep allow : Int) (jobs : List Job) : TInv sleep allow (init sleep allow jobs) where
  hsleep := rfl
  hallow := rfl
  wf := by
    intro i l hl
    have := init_pc sleep allow jobs i l hl
    constructor <;> simp [this, needsCheck, noFire, retTime]
  excl := by
    intro i l hl hW
    rw [init_pc sleep allow jobs i l hl] at hW
    simp [W] at hW
  holder := by
    intro i hw
    simp [init] at hw
  readers := by
    rw [init_countP sleep allow jobs isR (fun l hl => by simp [isR, hl, R])]
    rfl
  wr := by
    simp [init]
  data := by
    refine ⟨{}, rfl, fun _ => ⟨rfl, rfl⟩, ?_⟩
    intro i l hl
    exact dataAt_of_notW (by rw [init_pc sleep allow jobs i l hl]; rfl)
  logged := by
    intro i l t hl _ hT
    rw [init_pc sleep allow jobs i l hl] at hT
    simp [T] at hT
  counted := by
    rw [init_countP sleep allow jobs isT (fun l hl => by simp [isT, hl, T])]
    exact Nat.zero_le _

theorem inv_run (sleep allow : Int) (jobs : List Job) (sched : List Nat) :
    TInv sleep allow (run sys (init sleep allow jobs) sched) :=
  run_inv_tc sys (TInv sleep allow)
    (fun c i l s' l' h hl hs => inv_step (s := c.shared) (ls := c.locals) h hl (step_spec i c.shared l s' l' hs))
    _ (inv_init sleep allow jobs) sched

/-! ### (D) no deadlock -/

theorem enabled_of (i : Nat) (s : Shared) (l : Local) (hwf : WF l) (hnd : ∀ r, l.pc ≠ .done r)
    (hr : l.pc = .rlock → s.writer = none) (hw : l.pc = .wlock → s.writer = none ∧ s.readers = 0) :
    (step i s l).isSome = true := by
  obtain ⟨j, pc⟩ := l
  obtain ⟨hc, hf, _⟩ := hwf
  cases pc <;> cases j <;> simp_all [step, needsCheck, noFire, Job.isCheck, Job.isFire]
  all_goals (split <;> rfl)

theorem no_deadlock (sleep allow : Int) (c : Config Shared Local) (h : TInv sleep allow c)
    (hq : quiescent c = false) : ∃ i l, c.locals[i]? = some l ∧ (step i c.shared l).isSome = true := by
  cases hw : c.shared.writer with
  | some i =>
    obtain ⟨l, hl, hW⟩ := h.holder i hw
    refine ⟨i, l, hl, enabled_of i _ l (h.wf i l hl) ?_ ?_ ?_⟩
    · intro r hpc
      rw [hpc] at hW
      simp [W] at hW
    · intro hpc
      rw [hpc] at hW
      simp [W] at hW
    · intro hpc
      rw [hpc] at hW
      simp [W] at hW
  | none =>
    by_cases hr : c.shared.readers = 0
    · simp only [quiescent, List.all_eq_false] at hq
      obtain ⟨l, hmem, hnd⟩ := hq
      obtain ⟨i, hi⟩ := List.mem_iff_getElem?.mp hmem
      refine ⟨i, l, hi, enabled_of i _ l (h.wf i l hi) ?_ (fun _ => hw) (fun _ => ⟨hw, hr⟩)⟩
      intro r hpc
      rw [hpc] at hnd
      simp at hnd
    · have hpos : 0 < c.locals.countP isR := by
        have := h.readers
        omega
      obtain ⟨l, hmem, hR⟩ := List.countP_pos_iff.mp hpos
      obtain ⟨i, hi⟩ := List.mem_iff_getElem?.mp hmem
      simp only [isR] at hR
      refine ⟨i, l, hi, enabled_of i _ l (h.wf i l hi) ?_ ?_ ?_⟩
      · intro r hpc
        rw [hpc] at hR
        simp [R] at hR
      · intro hpc
        rw [hpc] at hR
        simp [R] at hR
      · intro hpc
        rw [hpc] at hR
        simp [R] at hR

end CM.Conc.TC

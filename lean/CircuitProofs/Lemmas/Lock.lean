import CircuitModel.LockLang
namespace CM.Lock
end CM.Lock

import CircuitModel.LockLang
import CircuitModel.Conc.Cfg
namespace CM.Lock

/-- a non-empty list has an element maximising a Nat-valued function -/
theorem exists_max {α : Type} (f : α → Nat) :
    ∀ (l : List α), l ≠ [] → ∃ a ∈ l, ∀ b ∈ l, f b ≤ f a
  | [], h => absurd rfl h
  | [x], _ => ⟨x, by simp, by intro b hb; simp at hb; subst hb; exact Nat.le_refl _⟩
  | x :: y :: rest, _ => by
    obtain ⟨a, ha, hmax⟩ := exists_max f (y :: rest) (by simp)
    by_cases hx : f x ≤ f a
    · refine ⟨a, List.mem_cons_of_mem _ ha, ?_⟩
      intro b hb
      rcases List.mem_cons.1 hb with rfl | hb
      · exact hx
      · exact hmax b hb
    · refine ⟨x, List.mem_cons_self, ?_⟩
      intro b hb
      rcases List.mem_cons.1 hb with rfl | hb
      · exact Nat.le_refl _
      · have := hmax b hb; omega

/-- what the order checker establishes: the rank strictly increases along every edge -/
theorem lockOrderOk_edge {edges : List (String × String)} (hok : lockOrderOk edges = true)
    {a b : String} (h : (a, b) ∈ edges) :
    rankOf edges (edges.length + 1) a < rankOf edges (edges.length + 1) b := by
  unfold lockOrderOk at hok
  simp only [List.all_eq_true, decide_eq_true_eq] at hok
  exact hok (a, b) h

/-- what `protects` gives at one access -/
theorem protects_mem {L : String} {as : List Access} (hp : protects L as = true) {a : Access} (ha : a ∈ as) :
    ∃ k ∈ a.held, k.lock = L ∧ (k.write = true ∨ a.write = false) := by
  unfold protects at hp
  rw [List.all_eq_true] at hp
  have := hp a ha
  rw [List.any_eq_true] at this
  obtain ⟨k, hk, hk2⟩ := this
  simp only [Bool.and_eq_true, beq_iff_eq, Bool.or_eq_true, Bool.not_eq_true'] at hk2
  exact ⟨k, hk, hk2.1, hk2.2⟩

open CM.Conc.Cfg in
/-- invariant of the single-load race -/
def Inv1 (old new : Int) (s : State) : Prop :=
  (s.cur = old ∨ s.cur = new) ∧ s.new = new ∧ (s.loads = [] ∨ s.loads = [old] ∨ s.loads = [new])

open CM.Conc.Cfg in
theorem inv1_step {old new : Int} {s s' : State} {a : Actor} (h : Inv1 old new s)
    (hs : step 1 s a = some s') : Inv1 old new s' := by
  obtain ⟨hc, hn, hl⟩ := h
  cases a with
  | store =>
    simp only [step] at hs
    split at hs
    · cases hs
    · cases hs
      exact ⟨Or.inr hn, hn, hl⟩
  | load =>
    simp only [step] at hs
    split at hs
    · cases hs
      rename_i hlen
      have hnil : s.loads = [] := by
        rcases hl with h | h | h
        · exact h
        · rw [h] at hlen; simp at hlen
        · rw [h] at hlen; simp at hlen
      refine ⟨hc, hn, ?_⟩
      simp only [hnil, List.nil_append]
      rcases hc with h | h
      · exact Or.inr (Or.inl (by rw [h]))
      · exact Or.inr (Or.inr (by rw [h]))
    · cases hs

open CM.Conc.Cfg in
theorem inv1_run {old new : Int} (sched : List Actor) : ∀ {s : State}, Inv1 old new s →
    Inv1 old new (run 1 s sched) := by
  induction sched with
  | nil => intro s h; exact h
  | cons a rest ih =>
    intro s h
    simp only [run]
    split
    · rename_i s' hs
      exact ih (inv1_step h hs)
    · exact ih h

end CM.Lock
